package grpc

// Driver for C06 (message framing round-trips; size limits are enforced).
// Each behaviour line is a TLC-chosen stream (records, tail, environment) and segmentation
// (chunk sizes).  The driver builds the concrete bytes and runs them through
//   abs    : the real parser / recvAndDecompress with Limit = 4, a fake streamReader serving the chunks and a
//            table-driven counting encoding.Compressor (sizes exactly as in the model);
//   gzip   : sizes x1000, real encoding/gzip (wrapped to count the bytes pulled from the decompressor);
//   legacy : sizes x1000, the deprecated Decompressor path (NewGZIPDecompressor);
//   e2e    : sizes x1000, a real grpc.Server whose handler calls RecvMsg, fed by a raw HTTP/2 client that cuts
//            the DATA frames exactly at the chosen chunk boundaries.
// It records the outcome classes; TLC validates them against specs/Framing.tla.  The driver never judges.

import (
	"bytes"
	"compress/gzip"
	"encoding/binary"
	"encoding/json"
	"fmt"
	"io"
	"os"
	"sync"
	"testing"
	"testing/synctest"

	"golang.org/x/net/http2"
	"google.golang.org/grpc/codes"
	"google.golang.org/grpc/encoding"
	_ "google.golang.org/grpc/encoding/gzip"
	"google.golang.org/grpc/internal/zzverif/vlib"
	"google.golang.org/grpc/internal/zzverif/vlib/rawh2"
	"google.golang.org/grpc/mem"
	"google.golang.org/grpc/status"
	"google.golang.org/grpc/test/bufconn"
)

type c06Beh struct {
	Recs    [][]int `json:"recs"` // [flag, dlen, alen, clen, bad] in model units
	Tail    int     `json:"tail"`
	Enc     string  `json:"enc"`
	HaveDec bool    `json:"havedec"`
	Server  bool    `json:"server"`
	Chunks  []int   `json:"chunks"` // model units, sum = total model length
}

const c06ModelLimit = 4

func c06Byte(i, j int) byte { return byte((7*i + j) % 251) }

func c06Plain(i, n int) []byte {
	b := make([]byte, n)
	for j := range b {
		b[j] = c06Byte(i, j)
	}
	return b
}

func c06Gzip(p []byte) []byte {
	var buf bytes.Buffer
	w := gzip.NewWriter(&buf)
	w.Write(p)
	w.Close()
	return buf.Bytes()
}

// c06Stream is the concrete form of a behaviour for one scale.
type c06Stream struct {
	limit  int
	recs   [][]int // concrete [flag, dlen, alen, clen, bad]
	data   []byte  // the whole byte stream
	chunks [][]byte
	table  map[int][2]int // record index -> (clen, bad) for the table-driven compressor
}

// c06Build concretises a behaviour: scale 1 uses opaque payloads (first byte = record index) for flag-1
// records; scale > 1 uses real gzip payloads.
func c06Build(b c06Beh, scale int, realGzip bool) *c06Stream {
	s := &c06Stream{limit: c06ModelLimit * scale, table: map[int][2]int{}}
	type region struct{ absStart, absLen, concStart, concLen int }
	var regions []region
	absPos := 0
	for idx, r := range b.Recs {
		i := idx + 1
		flag, dlen, alen, clen, bad := r[0], r[1], r[2], r[3], r[4]
		var payload []byte
		cd := dlen * scale
		switch {
		case flag == 1 && realGzip && dlen <= c06ModelLimit:
			payload = c06Gzip(c06Plain(i, clen*scale))
			if bad == 1 {
				payload[0] ^= 0xff
			}
			cd = len(payload)
		case flag == 1:
			payload = make([]byte, cd)
			if cd > 0 {
				payload[0] = byte(i)
			}
			s.table[i] = [2]int{clen * scale, bad}
		default:
			payload = c06Plain(i, cd)
		}
		ca := cd
		if alen < dlen { // truncated: keep the same proportion (0 or all but the last model byte)
			if alen == 0 {
				ca = 0
			} else {
				ca = cd - 1
			}
		}
		hdr := make([]byte, 5)
		hdr[0] = byte(flag)
		binary.BigEndian.PutUint32(hdr[1:], uint32(cd))
		regions = append(regions, region{absPos, 5, len(s.data), 5})
		s.data = append(s.data, hdr...)
		regions = append(regions, region{absPos + 5, alen, len(s.data), ca})
		s.data = append(s.data, payload[:ca]...)
		absPos += 5 + alen
		s.recs = append(s.recs, []int{flag, cd, ca, clen * scale, bad})
	}
	if b.Tail > 0 {
		regions = append(regions, region{absPos, b.Tail, len(s.data), b.Tail})
		s.data = append(s.data, make([]byte, b.Tail)...)
		absPos += b.Tail
	}
	// map the model cut points to concrete cut points
	conc := func(p int) int {
		if p >= absPos {
			return len(s.data)
		}
		for _, g := range regions {
			if p >= g.absStart && p < g.absStart+g.absLen {
				off := p - g.absStart
				if g.absLen == g.concLen {
					return g.concStart + off
				}
				return g.concStart + off*g.concLen/g.absLen
			}
		}
		return len(s.data)
	}
	pos, last := 0, 0
	for _, n := range b.Chunks {
		pos += n
		c := conc(pos)
		s.chunks = append(s.chunks, s.data[last:c])
		last = c
	}
	if last < len(s.data) {
		s.chunks = append(s.chunks, s.data[last:])
	}
	return s
}

// c06Reader is a streamReader serving fixed chunks with the conventions of transport.Stream
// (io.EOF when nothing at all could be read, io.ErrUnexpectedEOF after a partial read).
type c06Reader struct {
	chunks [][]byte
}

func (r *c06Reader) next(n int) []byte {
	for len(r.chunks) > 0 && len(r.chunks[0]) == 0 {
		r.chunks = r.chunks[1:]
	}
	if len(r.chunks) == 0 {
		return nil
	}
	c := r.chunks[0]
	if len(c) > n {
		r.chunks[0] = c[n:]
		return c[:n]
	}
	r.chunks = r.chunks[1:]
	return c
}

func (r *c06Reader) ReadMessageHeader(header []byte) error {
	got := 0
	for got < len(header) {
		p := r.next(len(header) - got)
		if p == nil {
			if got == 0 {
				return io.EOF
			}
			return io.ErrUnexpectedEOF
		}
		got += copy(header[got:], p)
	}
	return nil
}

func (r *c06Reader) Read(n int) (mem.BufferSlice, error) {
	var out mem.BufferSlice
	got := 0
	for got < n {
		p := r.next(n - got)
		if p == nil {
			out.Free()
			if got == 0 {
				return nil, io.EOF
			}
			return nil, io.ErrUnexpectedEOF
		}
		out = append(out, mem.SliceBuffer(append([]byte(nil), p...)))
		got += len(p)
	}
	return out, nil
}

type c06RC string

func (c c06RC) RecvCompress() string { return string(c) }

// counting reader: how many decompressed bytes were pulled
type c06Counting struct {
	r io.Reader
	n *int
}

func (c c06Counting) Read(p []byte) (int, error) {
	k, err := c.r.Read(p)
	*c.n += k
	return k, err
}

// c06TableComp is a table-driven encoding.Compressor: the first payload byte names the record.
type c06TableComp struct {
	table  map[int][2]int
	pulled *int // max over the records
}

func (c c06TableComp) Name() string                               { return "verifc06" }
func (c c06TableComp) Compress(io.Writer) (io.WriteCloser, error) { return nil, fmt.Errorf("unused") }
func (c c06TableComp) Decompress(r io.Reader) (io.Reader, error) {
	in, err := io.ReadAll(r)
	if err != nil || len(in) == 0 {
		return nil, fmt.Errorf("verifc06: empty payload")
	}
	e, ok := c.table[int(in[0])]
	if !ok || e[1] == 1 {
		return nil, fmt.Errorf("verifc06: corrupt payload")
	}
	n := new(int)
	return c06Max{c06Counting{bytes.NewReader(c06Plain(int(in[0]), e[0])), n}, n, c.pulled}, nil
}

type c06Max struct {
	c   c06Counting
	n   *int
	max *int
}

func (m c06Max) Read(p []byte) (int, error) {
	k, err := m.c.Read(p)
	if *m.n > *m.max {
		*m.max = *m.n
	}
	return k, err
}

// c06WrapComp wraps a real compressor and counts the bytes pulled out of its decompressor.
type c06WrapComp struct {
	inner  encoding.Compressor
	pulled *int
}

func (c c06WrapComp) Name() string { return c.inner.Name() }
func (c c06WrapComp) Compress(w io.Writer) (io.WriteCloser, error) {
	return c.inner.Compress(w)
}
func (c c06WrapComp) Decompress(r io.Reader) (io.Reader, error) {
	rd, err := c.inner.Decompress(r)
	if err != nil {
		return nil, err
	}
	n := new(int)
	return c06Max{c06Counting{rd, n}, n, c.pulled}, nil
}

func c06Class(err error) string {
	switch {
	case err == io.EOF:
		return "EOF"
	case err == io.ErrUnexpectedEOF:
		return "UNEXPECTED_EOF"
	}
	st, ok := status.FromError(err)
	if !ok {
		return "OTHER"
	}
	switch st.Code() {
	case codes.ResourceExhausted:
		return "RESOURCE_EXHAUSTED"
	case codes.Internal:
		if st.Message() == io.ErrUnexpectedEOF.Error() {
			return "UNEXPECTED_EOF" // serverStream.RecvMsg's rendering of io.ErrUnexpectedEOF
		}
		return "INTERNAL"
	case codes.Unimplemented:
		return "UNIMPLEMENTED"
	}
	return "OTHER"
}

func c06MsgOut(i int, m []byte) []any {
	first, last := -1, -1
	if len(m) > 0 {
		first, last = int(m[0]), int(m[len(m)-1])
	}
	return []any{"msg", i, len(m), first, last}
}

// c06RunParser drives parser / recvAndDecompress directly.
func c06RunParser(b c06Beh, s *c06Stream, comp encoding.Compressor, dc Decompressor) (out [][]any) {
	p := &parser{r: &c06Reader{chunks: append([][]byte(nil), s.chunks...)}, bufferPool: mem.DefaultBufferPool()}
	for i := 1; i <= len(s.recs)+2; i++ {
		data, err := recvAndDecompress(p, c06RC(b.Enc), dc, s.limit, nil, comp, b.Server)
		if err != nil {
			out = append(out, []any{c06Class(err), i, 0, -1, -1})
			return out
		}
		m := data.Materialize()
		data.Free()
		out = append(out, c06MsgOut(i, m))
	}
	return out
}

// c06RunE2E: real server, raw client, DATA frames cut at the chunk boundaries.
func c06RunE2E(t *testing.T, b c06Beh, s *c06Stream) (out [][]any) {
	synctest.Test(t, func(t *testing.T) {
		var mu sync.Mutex
		done := make(chan struct{})
		srv := NewServer(MaxRecvMsgSize(s.limit), ForceServerCodec(rawh2.RawCodec{}))
		type svc interface{}
		srv.RegisterService(&ServiceDesc{ServiceName: "c06.S", HandlerType: (*svc)(nil),
			Streams: []StreamDesc{{StreamName: "M", ClientStreams: true, ServerStreams: true, Handler: func(_ any, st ServerStream) error {
				defer close(done)
				for i := 1; i <= len(s.recs)+2; i++ {
					var m []byte
					err := st.RecvMsg(&m)
					mu.Lock()
					if err != nil {
						out = append(out, []any{c06Class(err), i, 0, -1, -1})
						mu.Unlock()
						return nil
					}
					out = append(out, c06MsgOut(i, m))
					mu.Unlock()
				}
				return nil
			}}}}, struct{}{})
		lis := bufconn.Listen(1 << 20)
		go srv.Serve(lis)
		conn, err := lis.Dial()
		if err != nil {
			t.Fatal(err)
		}
		p, err := rawh2.NewClientPeer(conn)
		if err != nil {
			t.Fatal(err)
		}
		p.WriteSettings()
		go func() { // keep the connection serviced
			for {
				f, err := p.ReadFrame()
				if err != nil {
					return
				}
				switch f := f.(type) {
				case *http2.SettingsFrame:
					if !f.IsAck() {
						p.WriteSettingsAck()
					}
				case *http2.PingFrame:
					if !f.IsAck() {
						p.WritePing(true, f.Data)
					}
				}
			}
		}()
		hdrs := []string{":method", "POST", ":scheme", "http", ":path", "/c06.S/M", ":authority", "verif",
			"content-type", "application/grpc", "te", "trailers"}
		if b.Enc != "" {
			hdrs = append(hdrs, "grpc-encoding", b.Enc)
		}
		p.WriteHeaders(1, false, hdrs...)
		chunks := s.chunks
		if len(chunks) == 0 {
			chunks = [][]byte{nil}
		}
		for k, c := range chunks {
			p.WriteData(1, k == len(chunks)-1, c)
			synctest.Wait() // the receiver has consumed what it can before the next frame arrives
		}
		<-done
		synctest.Wait()
		conn.Close()
		srv.Stop()
		lis.Close()
		synctest.Wait()
	})
	return out
}

func TestVerifC06Framing(t *testing.T) {
	lines, err := vlib.ReadLines(os.Getenv("VERIF_BEHAVIOURS"))
	if err != nil {
		t.Fatal(err)
	}
	tr, err := vlib.NewTrace(os.Getenv("VERIF_OUT"))
	if err != nil {
		t.Fatal(err)
	}
	defer tr.Close()
	e2eEvery := vlib.EnvInt("VERIF_E2E_EVERY", 1)
	gz := encoding.GetCompressor("gzip")
	emit := func(mode string, b c06Beh, s *c06Stream, out [][]any, pulled int) {
		recs := s.recs
		if recs == nil {
			recs = [][]int{}
		}
		chunks := b.Chunks
		if chunks == nil {
			chunks = []int{}
		}
		if out == nil {
			out = [][]any{}
		}
		tr.Emit(map[string]any{"ev": "stream", "mode": mode, "limit": s.limit, "enc": b.Enc, "havedec": b.HaveDec, "server": b.Server,
			"recs": recs, "tail": b.Tail, "chunks": chunks, "out": out, "pulled": pulled})
	}
	run := func(mode string, b c06Beh, f func() (*c06Stream, [][]any, int)) {
		defer func() {
			if r := recover(); r != nil {
				tr.Emit(map[string]any{"ev": "panic", "mode": mode, "msg": fmt.Sprint(r)})
			}
		}()
		s, out, pulled := f()
		emit(mode, b, s, out, pulled)
	}
	tr.Emit(map[string]any{"ev": "reset"})
	for n, ln := range lines {
		var b c06Beh
		if err := json.Unmarshal(ln, &b); err != nil {
			t.Fatal(err)
		}
		run("abs", b, func() (*c06Stream, [][]any, int) {
			s := c06Build(b, 1, false)
			pulled := 0
			var comp encoding.Compressor
			if b.HaveDec {
				comp = c06TableComp{table: s.table, pulled: &pulled}
			}
			return s, c06RunParser(b, s, comp, nil), pulled
		})
		if b.Enc == "gzip" && b.HaveDec {
			run("gzip", b, func() (*c06Stream, [][]any, int) {
				s := c06Build(b, 1000, true)
				pulled := 0
				return s, c06RunParser(b, s, c06WrapComp{inner: gz, pulled: &pulled}, nil), pulled
			})
			run("legacy", b, func() (*c06Stream, [][]any, int) {
				s := c06Build(b, 1000, true)
				return s, c06RunParser(b, s, nil, NewGZIPDecompressor()), -1
			})
		}
		if b.Server && (b.Enc != "gzip" || b.HaveDec) && n%e2eEvery == 0 {
			run("e2e", b, func() (*c06Stream, [][]any, int) {
				s := c06Build(b, 1000, true)
				return s, c06RunE2E(t, b, s), -1
			})
		}
	}
	fmt.Printf("VERIF_SUMMARY {\"behaviours\":%d,\"events\":%d}\n", len(lines), tr.N)
}
