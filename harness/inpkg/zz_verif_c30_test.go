package grpc

// Gated replay for C30 (b): every interleaving step of ConnectivityWait.tla is forced onto real
// goroutines calling ClientConn.WaitForStateChange (stopped at the verifhook points
// "csm.getNotifyChan", "csm.getState", "csm.wait") against connectivityStateManager.updateState
// calls made by the driver.  Runs inside testing/synctest so that "blocked for good" is exact.
// The driver only drives and records; TLC judges (ConnectivityWaitTrace.tla).

import (
	"context"
	"encoding/json"
	"fmt"
	"strings"
	"testing"
	"testing/synctest"
	"time"

	"google.golang.org/grpc/connectivity"
	"google.golang.org/grpc/internal/channelz"
	"google.golang.org/grpc/internal/verifhook"
	"google.golang.org/grpc/internal/zzverif/vlib"
)

type c30Step struct {
	T      string `json:"t"`      // "upd" or a waiter "w1", "w2"
	K      string `json:"k"`      // call / getchan / compare / wake / ctxdone
	S      string `json:"s"`      // state (upd: new state; call: source state)
	State  string `json:"state"`  // expected csm state after the step (model)
	HasCh  bool   `json:"hasch"`  // expected: notify channel allocated (model)
}

var c30States = map[string]connectivity.State{"IDLE": connectivity.Idle, "CONNECTING": connectivity.Connecting,
	"READY": connectivity.Ready, "TRANSIENT_FAILURE": connectivity.TransientFailure, "SHUTDOWN": connectivity.Shutdown}

func c30Name(s connectivity.State) string {
	for k, v := range c30States {
		if v == s {
			return k
		}
	}
	return "?"
}

type c30Waiter struct {
	ctx    context.Context
	cancel context.CancelFunc
	src    connectivity.State
	called bool
	done   bool
}

func c30Run(steps []c30Step, tr *vlib.Trace) (drift int, note string) {
	s := vlib.NewSched(2 * time.Second) // virtual seconds inside the bubble
	cc := &ClientConn{}
	cc.ctx, cc.cancel = context.WithCancel(context.Background())
	cc.channelz = channelz.RegisterChannel(nil, "verif-c30")
	cc.csMgr = newConnectivityStateManager(cc.ctx, cc.channelz)
	csm := cc.csMgr
	verifhook.Set(func(p string, o any) {
		if o != any(csm) || !strings.HasPrefix(p, "csm.") {
			return
		}
		s.Hook(p[4:])
	})
	defer verifhook.Set(nil)
	ws := map[string]*c30Waiter{}
	for _, tid := range []string{"w1", "w2", "w3"} {
		tid := tid
		w := &c30Waiter{}
		w.ctx, w.cancel = context.WithCancel(context.Background())
		ws[tid] = w
		s.Spawn(tid, func() {
			s.Hook("start")
			if !w.called {
				return
			}
			ok := cc.WaitForStateChange(w.ctx, w.src)
			w.done = true
			tr.Emit(map[string]any{"ev": "ret", "w": tid, "ok": ok})
		})
		if _, err := s.Await(tid); err != nil {
			return 1, "stuck at start: " + err.Error()
		}
	}
	first := map[string]bool{}
	want := map[string]string{"getchan": "getNotifyChan", "compare": "getState", "wake": "wait", "ctxdone": "wait"}
	for i, st := range steps {
		if st.T == "upd" {
			tr.Emit(map[string]any{"ev": "upd", "s": st.S})
			csm.updateState(c30States[st.S])
		} else {
			w := ws[st.T]
			switch st.K {
			case "call":
				w.src, w.called = c30States[st.S], true
				if _, err := s.Step(st.T, "start"); err != nil {
					return drift + 1, fmt.Sprintf("step %d: %v", i, err)
				}
			default:
				at := s.At(st.T)
				if at == "end" || at == "" {
					drift++
					note = fmt.Sprintf("step %d: %s has no step left (model: %s)", i, st.T, st.K)
					continue
				}
				if at != want[st.K] {
					drift++
					note = fmt.Sprintf("step %d: %s is at %s, the model expects %s", i, st.T, at, want[st.K])
				}
				if !first[st.T] {
					first[st.T] = true
					tr.Emit(map[string]any{"ev": "call", "w": st.T, "s": c30Name(w.src)})
				}
				if st.K == "ctxdone" {
					tr.Emit(map[string]any{"ev": "cancel", "w": st.T})
					w.cancel()
				}
				if _, err := s.Step(st.T, at); err != nil {
					// the goroutine blocked without reaching another hook
					tr.Emit(map[string]any{"ev": "blocked", "w": st.T})
				}
			}
		}
		csm.mu.Lock()
		gotState, gotCh := c30Name(csm.state), csm.notifyChan != nil
		csm.mu.Unlock()
		tr.Emit(map[string]any{"ev": "getstate", "v": c30Name(cc.GetState())})
		if st.State != "" && (gotState != st.State || gotCh != st.HasCh) {
			drift++
			note = fmt.Sprintf("step %d: csm state=%s chan=%v, the model says %s %v", i, gotState, gotCh, st.State, st.HasCh)
		}
	}
	// free run: every waiter whose channel was closed (or whose state differs) must return by itself
	s.Join(5 * time.Second)
	synctest.Wait()
	for _, tid := range []string{"w1", "w2", "w3"} {
		if w := ws[tid]; w.called && first[tid] && !w.done {
			tr.Emit(map[string]any{"ev": "stuck", "w": tid})
		}
	}
	for _, tid := range []string{"w1", "w2", "w3"} {
		tr.Emit(map[string]any{"ev": "cancel", "w": tid})
		ws[tid].cancel()
	}
	s.Join(5 * time.Second)
	cc.cancel()
	channelz.RemoveEntry(cc.channelz.ID)
	synctest.Wait()
	return drift, note
}

// TestVerifC30Gated forces the schedules of VERIF_BEHAVIOURS onto real goroutines.
func TestVerifC30Gated(t *testing.T) {
	lines, err := vlib.ReadLines(vlib.Env("VERIF_BEHAVIOURS", "beh.ndjson"))
	if err != nil {
		t.Fatal(err)
	}
	tr, err := vlib.NewTrace(vlib.Env("VERIF_OUT", "trace.ndjson"))
	if err != nil {
		t.Fatal(err)
	}
	drift, panics := 0, 0
	notes := []string{}
	synctest.Test(t, func(t *testing.T) {
		for i, ln := range lines {
			var steps []c30Step
			if err := json.Unmarshal(ln, &steps); err != nil {
				t.Fatal(err)
			}
			tr.Reset()
			func() {
				defer func() {
					if r := recover(); r != nil {
						panics++
						tr.Emit(map[string]any{"ev": "panic", "msg": fmt.Sprint(r)})
					}
				}()
				d, note := c30Run(steps, tr)
				if d > 0 {
					drift += d
					if len(notes) < 5 {
						notes = append(notes, fmt.Sprintf("behaviour %d: %s", i, note))
					}
				}
			}()
		}
	})
	tr.Close()
	sum, _ := json.Marshal(map[string]any{"behaviours": len(lines), "drift": drift, "panics": panics, "notes": notes})
	fmt.Printf("VERIF_SUMMARY %s\n", sum)
}
