package pickfirst

// Driver for C34: sequential replay of TLC behaviours (and seeded random input sequences) on the
// real pick_first policy with a recording ClientConn and a manual happy-eyeballs timer, and the
// reference-oracle enumeration of deDupAddresses / interleaveAddresses.  Drives and records only.

import (
	"encoding/json"
	"errors"
	"fmt"
	"math/rand"
	"os"
	"runtime"
	"sort"
	"strings"
	"sync/atomic"
	"testing"
	"time"

	"google.golang.org/grpc/attributes"

	"google.golang.org/grpc/balancer"
	pfinternal "google.golang.org/grpc/balancer/pickfirst/internal"
	"google.golang.org/grpc/internal/zzverif/vlib"
	"google.golang.org/grpc/internal/zzverif/vlib/lbtest"
	"google.golang.org/grpc/resolver"
)

// c34Universe: address id (1-based) -> address string; families 4,6,4,0,6,0,4,4,6 (PickFirstTrace.Fam9).
// Address 8 has the Addr string of address 1 but different Attributes, address 9 the Addr string of
// address 2 but a different ServerName: they are different addresses (Addr, ServerName and Attributes
// are an address's identity, BalancerAttributes and Metadata are not).
var c34Universe = []string{"10.0.0.1:80", "[2001:db8::2]:80", "10.0.0.3:80", "host4.example:80", "[2001:db8::5]:80", "noport6", "[::ffff:10.0.0.7]:80", "10.0.0.1:80", "[2001:db8::2]:80"}

type c34AttrKey struct{}

// c34Addr builds address id with variant v of the fields that are not part of its identity:
// bit 0 = BalancerAttributes set, bit 1 = Metadata set, bits 2.. = value.
func c34Addr(id, v int) resolver.Address {
	a := resolver.Address{Addr: c34Universe[id-1]}
	if id == 8 {
		a.Attributes = attributes.New(c34AttrKey{}, "variant-8")
	}
	if id == 9 {
		a.ServerName = "sn9.example"
	}
	if v&1 != 0 {
		a.BalancerAttributes = attributes.New(c34AttrKey{}, v)
	}
	if v&2 != 0 {
		a.Metadata = v
	}
	return a
}

func c34AddrIDOf(a resolver.Address) int {
	if a.ServerName != "" {
		if a.ServerName == "sn9.example" && a.Addr == c34Universe[8] && a.Attributes == nil {
			return 9
		}
		return 0
	}
	if a.Attributes != nil {
		if a.Addr == c34Universe[7] {
			return 8
		}
		return 0
	}
	return c34AddrID(a.Addr)
}

func c34AddrID(a string) int {
	for i, s := range c34Universe[:7] {
		if s == a {
			return i + 1
		}
	}
	return 0
}

type c34Timer struct {
	f         func()
	cancelled bool
	fired     bool
	cancelSeq int64 // c34Seq value when the policy cancelled the timer
	doneSeq   int64 // c34Seq value when the callback returned (race step only)
}

var c34Seq atomic.Int64

type c34Step struct {
	A   string `json:"a"`
	L   []int  `json:"l"`
	V   []int  `json:"v"` // per address: variant of BalancerAttributes / Metadata (not part of the identity)
	H   bool   `json:"h"`
	Sc  int    `json:"sc"`
	S   string `json:"s"`
	Via string `json:"via"`
	E   bool   `json:"e"` // deliver the list as Endpoints instead of Addresses
}

type c34Env struct {
	cc     *lbtest.RecCC
	b      balancer.Balancer
	timers []*c34Timer
	state  string
	picker balancer.Picker
	// the driver's view of the real sub-channels (needed to stay inside the API contract)
	raw    []string // per sc (index id-1)
	creq   []bool
	hready []bool // health listener registered since the sc became READY
}

func c34New() *c34Env {
	e := &c34Env{cc: lbtest.NewRecCC(), state: "CONNECTING"}
	pfinternal.TimeAfterFunc = func(_ time.Duration, f func()) func() {
		t := &c34Timer{f: f}
		e.timers = append(e.timers, t)
		return func() {
			t.cancelled = true
			if t.cancelSeq == 0 {
				t.cancelSeq = c34Seq.Add(1)
			}
		}
	}
	e.b = pickfirstBuilder{}.Build(e.cc, balancer.BuildOptions{})
	return e
}

func (e *c34Env) armed() *c34Timer {
	for i := len(e.timers) - 1; i >= 0; i-- {
		if t := e.timers[i]; !t.cancelled && !t.fired {
			return t
		}
	}
	return nil
}

// staleTimer returns the most recent timer that was cancelled before its callback ran.
func (e *c34Env) staleTimer() *c34Timer {
	for i := len(e.timers) - 1; i >= 0; i-- {
		if t := e.timers[i]; t.cancelled && !t.fired {
			return t
		}
	}
	return nil
}

// c34WaitBlocked waits until goroutine *gid is parked in sync.Mutex.Lock.
func c34WaitBlocked(gid *atomic.Int64) bool {
	buf := make([]byte, 1<<20)
	for i := 0; i < 200000; i++ {
		if g := gid.Load(); g != 0 {
			n := runtime.Stack(buf, true)
			if strings.Contains(string(buf[:n]), fmt.Sprintf("goroutine %d [sync.Mutex.Lock", g)) {
				return true
			}
		}
		if i < 1000 {
			runtime.Gosched()
		} else {
			time.Sleep(20 * time.Microsecond)
		}
	}
	return false
}

// raceReadyStale reproduces the interleaving "the happy-eyeballs timer expires while the READY
// update that cancels it is being processed": with the policy's mutex held by the driver, the READY
// update is queued on the mutex first, the timer callback second; then the mutex is released.
// Returns "stale" if the READY update ran first and cancelled the timer before the callback
// finished (verified by sequence numbers), "order" otherwise.
func (e *c34Env) raceReadyStale(sc *lbtest.RecSC, t *c34Timer) string {
	pb := e.b.(*pickfirstBalancer)
	var g1, g2 atomic.Int64
	done := make(chan struct{}, 2)
	pb.mu.Lock()
	go func() {
		g2.Store(vlib.Goid())
		sc.Listener(balancer.SubConnState{ConnectivityState: lbtest.StateOf("READY")})
		done <- struct{}{}
	}()
	ok2 := c34WaitBlocked(&g2)
	t.fired = true
	go func() {
		g1.Store(vlib.Goid())
		t.f()
		t.doneSeq = c34Seq.Add(1)
		done <- struct{}{}
	}()
	ok1 := c34WaitBlocked(&g1)
	pb.mu.Unlock()
	<-done
	<-done
	if ok1 && ok2 && t.cancelSeq != 0 && t.cancelSeq < t.doneSeq {
		return "stale"
	}
	return "order"
}

// obs drains the calls of this step and probes the latest picker.
func (e *c34Env) obs() map[string]any {
	calls := [][]any{}
	for _, ev := range e.cc.Take() {
		switch ev.Kind {
		case "newsc":
			id := 0
			if scs := e.cc.SubConns(); len(ev.Addrs) == 1 && ev.SC <= len(scs) && len(scs[ev.SC-1].Addrs) == 1 {
				id = c34AddrIDOf(scs[ev.SC-1].Addrs[0])
			}
			calls = append(calls, []any{"newsc", id})
			e.raw = append(e.raw, "IDLE")
			e.creq = append(e.creq, false)
			e.hready = append(e.hready, false)
		case "connect":
			calls = append(calls, []any{"connect", ev.SC})
			if e.raw[ev.SC-1] == "IDLE" {
				e.creq[ev.SC-1] = true
			}
		case "shutdown":
			calls = append(calls, []any{"shutdown", ev.SC})
		case "health_reg":
			calls = append(calls, []any{"health_reg", ev.SC})
			e.hready[ev.SC-1] = true
		case "update_state":
			e.state = lbtest.StateName(ev.State)
			e.picker = ev.Pick
			calls = append(calls, []any{"update", e.state})
		default:
			calls = append(calls, []any{ev.Kind, ev.SC})
		}
	}
	pick := 0
	if e.picker != nil && e.state != "IDLE" {
		res, _ := e.picker.Pick(balancer.PickInfo{})
		if res.SubConn != nil {
			if sc, ok := res.SubConn.(*lbtest.RecSC); ok && sc.CC == e.cc {
				pick = sc.ID
			} else {
				pick = 9999
			}
		}
	}
	shut := []int{}
	for _, sc := range e.cc.SubConns() {
		if sc.IsShut() {
			shut = append(shut, sc.ID)
		}
	}
	sort.Ints(shut)
	return map[string]any{"calls": calls, "state": e.state, "pick": pick, "shut": shut,
		"nsc": len(e.cc.SubConns()), "timer": e.armed() != nil}
}

func (e *c34Env) legalSc(sc int, s string) bool {
	if sc < 1 || sc > len(e.raw) {
		return false
	}
	switch e.raw[sc-1] {
	case "IDLE":
		return s == "CONNECTING" && e.creq[sc-1]
	case "CONNECTING":
		return s == "READY" || s == "TF" || s == "IDLE"
	case "READY", "TF":
		return s == "IDLE"
	}
	return false
}

func (e *c34Env) apply(st c34Step, tr *vlib.Trace) {
	skip := func() { tr.Emit(map[string]any{"ev": "skip", "a": st.A}) }
	switch st.A {
	case "upd":
		addrs := make([]resolver.Address, len(st.L))
		vs := make([]int, len(st.L))
		for i, id := range st.L {
			if i < len(st.V) {
				vs[i] = st.V[i]
			}
			addrs[i] = c34Addr(id, vs[i])
		}
		rs := resolver.State{Addresses: addrs}
		if st.E {
			// one endpoint per address, or (even ids first) two addresses per endpoint: the flattened
			// list is the same
			rs = resolver.State{}
			for _, a := range addrs {
				rs.Endpoints = append(rs.Endpoints, resolver.Endpoint{Addresses: []resolver.Address{a}})
			}
		}
		if st.H {
			rs = EnableHealthListener(rs)
		}
		e.b.UpdateClientConnState(balancer.ClientConnState{ResolverState: rs})
		l := st.L
		if l == nil {
			l = []int{}
		}
		tr.Emit(map[string]any{"ev": "upd", "l": l, "v": vs, "h": st.H, "obs": e.obs()})
	case "reserr":
		e.b.ResolverError(errors.New("verif resolver error"))
		tr.Emit(map[string]any{"ev": "reserr", "obs": e.obs()})
	case "exitidle":
		if st.Via == "pick" {
			if e.state != "IDLE" || e.picker == nil {
				skip()
				return
			}
			e.picker.Pick(balancer.PickInfo{})
		} else {
			e.b.ExitIdle()
		}
		tr.Emit(map[string]any{"ev": "exitidle", "obs": e.obs()})
	case "timer":
		t := e.armed()
		if t == nil {
			skip()
			return
		}
		t.fired = true
		t.f()
		tr.Emit(map[string]any{"ev": "timer", "obs": e.obs()})
	case "stale":
		// a cancelled callback that runs late (after the event that cancelled it was fully processed)
		t := e.staleTimer()
		if t == nil {
			skip()
			return
		}
		t.fired = true
		t.f()
		tr.Emit(map[string]any{"ev": "stale", "obs": e.obs()})
	case "scstale":
		// READY for a live sub-connection racing with the expiry of the armed timer
		t := e.armed()
		if t == nil || !e.legalSc(st.Sc, "READY") || e.cc.SubConns()[st.Sc-1].IsShut() {
			skip()
			return
		}
		sc := e.cc.SubConns()[st.Sc-1]
		e.raw[st.Sc-1] = "READY"
		if r := e.raceReadyStale(sc, t); r != "stale" {
			tr.Emit(map[string]any{"ev": "raceorder", "r": r})
			return
		}
		tr.Emit(map[string]any{"ev": "scstale", "sc": st.Sc, "s": "READY", "obs": e.obs()})
	case "sc":
		if !e.legalSc(st.Sc, st.S) {
			skip()
			return
		}
		sc := e.cc.SubConns()[st.Sc-1]
		scs := balancer.SubConnState{ConnectivityState: lbtest.StateOf(st.S)}
		if st.S == "TF" {
			scs.ConnectionError = fmt.Errorf("verif: connection to sc%d failed", st.Sc)
		}
		if e.raw[st.Sc-1] == "READY" {
			e.hready[st.Sc-1] = false
		}
		e.raw[st.Sc-1] = st.S
		if st.S == "CONNECTING" {
			e.creq[st.Sc-1] = false
		}
		sc.Listener(scs)
		tr.Emit(map[string]any{"ev": "sc", "sc": st.Sc, "s": st.S, "obs": e.obs()})
	case "health":
		if st.Sc < 1 || st.Sc > len(e.raw) || e.raw[st.Sc-1] != "READY" || !e.hready[st.Sc-1] {
			skip()
			return
		}
		sc := e.cc.SubConns()[st.Sc-1]
		scs := balancer.SubConnState{ConnectivityState: lbtest.StateOf(st.S)}
		if st.S == "TF" {
			scs.ConnectionError = errors.New("verif: unhealthy")
		}
		sc.Health(scs)
		tr.Emit(map[string]any{"ev": "health", "sc": st.Sc, "s": st.S, "obs": e.obs()})
	default:
		panic("unknown step " + st.A)
	}
}

func c34Run(steps []c34Step, tr *vlib.Trace) {
	defer func() {
		if r := recover(); r != nil {
			tr.Emit(map[string]any{"ev": "panic", "msg": fmt.Sprint(r)})
		}
	}()
	e := c34New()
	for k := 0; k < len(steps); k++ {
		st := steps[k]
		if st.A == "sc" && st.S == "READY" && k+1 < len(steps) && steps[k+1].A == "stale" && e.armed() != nil &&
			e.legalSc(st.Sc, "READY") && !e.cc.SubConns()[st.Sc-1].IsShut() {
			e.apply(c34Step{A: "scstale", Sc: st.Sc}, tr)
			k++
			continue
		}
		e.apply(st, tr)
	}
	e.b.Close()
}

func c34Seam() func() {
	old := pfinternal.TimeAfterFunc
	return func() { pfinternal.TimeAfterFunc = old }
}

func TestVerifC34Replay(t *testing.T) {
	defer c34Seam()()
	lines, err := vlib.ReadLines(os.Getenv("VERIF_BEHAVIOURS"))
	if err != nil {
		t.Fatal(err)
	}
	tr, err := vlib.NewTrace(os.Getenv("VERIF_OUT"))
	if err != nil {
		t.Fatal(err)
	}
	defer tr.Close()
	for i, ln := range lines {
		var steps []c34Step
		if err := json.Unmarshal(ln, &steps); err != nil {
			t.Fatal(err)
		}
		for k := range steps {
			if i%4 >= 2 {
				// model address 3 (IPv4) is played by universe address 8: same Addr string as address 1,
				// different Attributes
				for j, id := range steps[k].L {
					if id == 3 {
						steps[k].L[j] = 8
					}
				}
			}
			steps[k].E = i%2 == 1
			if steps[k].A == "exitidle" && (i+k)%2 == 1 {
				steps[k].Via = "pick"
			}
		}
		tr.Emit(map[string]any{"ev": "reset", "b": i})
		c34Run(steps, tr)
	}
	fmt.Printf("VERIF_SUMMARY {\"behaviours\":%d,\"events\":%d}\n", len(lines), tr.N)
}

// TestVerifC34Random: seeded random long input sequences inside the API contract; the environment
// (sub-channel behaviour) is chosen from the driver's view of the real sub-channels.
func TestVerifC34Random(t *testing.T) {
	defer c34Seam()()
	tr, err := vlib.NewTrace(os.Getenv("VERIF_OUT"))
	if err != nil {
		t.Fatal(err)
	}
	defer tr.Close()
	rng := rand.New(rand.NewSource(int64(vlib.EnvInt("VERIF_SEED", 1))))
	runs := vlib.EnvInt("VERIF_N", 100)
	for r := 0; r < runs; r++ {
		tr.Emit(map[string]any{"ev": "reset", "b": r})
		func() {
			defer func() {
				if rec := recover(); rec != nil {
					tr.Emit(map[string]any{"ev": "panic", "msg": fmt.Sprint(rec)})
				}
			}()
			e := c34New()
			nA := 1 + rng.Intn(len(c34Universe))
			if rng.Intn(3) == 0 {
				nA = 1 + rng.Intn(2) // short lists: the last address is reached often
			}
			// the addresses of this run: a random subset of the universe; in a third of the runs it contains
			// the pairs that share an Addr string (1 and 8, 2 and 9)
			pool := rng.Perm(len(c34Universe))
			for i := range pool {
				pool[i]++
			}
			if rng.Intn(3) == 0 {
				pool = append([]int{1, 8, 2, 9}, pool...)
				if nA < 2 {
					nA = 2
				}
			}
			health := rng.Intn(3) == 0
			pFail := []int{20, 50, 85}[rng.Intn(3)] // how often a connection attempt fails
			endp := rng.Intn(2) == 0
			n := 10 + rng.Intn(50)
			randV := func(n int) []int {
				v := make([]int, n)
				for i := range v {
					if rng.Intn(3) == 0 {
						v[i] = 1 + rng.Intn(11)
					}
				}
				return v
			}
			randList := func() []int {
				m := rng.Intn(6)
				if m == 0 && rng.Intn(3) != 0 {
					m = 1 + rng.Intn(5)
				}
				l := make([]int, m)
				for i := range l {
					l[i] = pool[rng.Intn(nA)]
				}
				return l
			}
			l0 := randList()
			e.apply(c34Step{A: "upd", L: l0, V: randV(len(l0)), H: health, E: endp}, tr)
			for k := 0; k < n && len(e.raw) < 150; k++ {
				x := rng.Intn(100)
				switch {
				case x < 8:
					h := health
					if rng.Intn(8) == 0 {
						h = !h
					}
					l := randList()
					if rng.Intn(3) == 0 && len(l0) > 0 {
						l = l0 // re-send the previous list (sub-connections are re-used) with other variants
					}
					l0 = l
					e.apply(c34Step{A: "upd", L: l, V: randV(len(l)), H: h, E: endp}, tr)
				case x < 11:
					e.apply(c34Step{A: "reserr"}, tr)
				case x < 20:
					if e.armed() != nil {
						e.apply(c34Step{A: "timer"}, tr)
					}
				case x < 22:
					if e.staleTimer() != nil {
						e.apply(c34Step{A: "stale"}, tr)
					}
				case x < 30:
					if e.state == "IDLE" || rng.Intn(4) == 0 {
						via := "call"
						if e.state == "IDLE" && rng.Intn(2) == 0 {
							via = "pick"
						}
						e.apply(c34Step{A: "exitidle", Via: via}, tr)
					}
				case x < 36 && health:
					var el []int
					for i := range e.raw {
						if e.raw[i] == "READY" && e.hready[i] {
							el = append(el, i+1)
						}
					}
					if len(el) > 0 {
						e.apply(c34Step{A: "health", Sc: el[rng.Intn(len(el))], S: []string{"READY", "READY", "TF", "CONNECTING"}[rng.Intn(4)]}, tr)
					}
				default:
					// a legal sub-channel transition; shut-down sub-channels only rarely (in-flight updates)
					type mv struct {
						sc int
						s  string
					}
					var mvs []mv
					scs := e.cc.SubConns()
					for i := range e.raw {
						if scs[i].IsShut() && rng.Intn(10) != 0 {
							continue
						}
						switch e.raw[i] {
						case "IDLE":
							if e.creq[i] {
								mvs = append(mvs, mv{i + 1, "CONNECTING"})
							}
						case "CONNECTING":
							s := "READY"
							if rng.Intn(100) < pFail {
								s = "TF"
							} else if rng.Intn(12) == 0 {
								s = "IDLE"
							}
							mvs = append(mvs, mv{i + 1, s})
						case "READY":
							if rng.Intn(3) == 0 {
								mvs = append(mvs, mv{i + 1, "IDLE"})
							}
						case "TF":
							mvs = append(mvs, mv{i + 1, "IDLE"})
						}
					}
					if len(mvs) > 0 {
						m := mvs[rng.Intn(len(mvs))]
						if m.s == "READY" && e.armed() != nil && !scs[m.sc-1].IsShut() && rng.Intn(2) == 0 {
							e.apply(c34Step{A: "scstale", Sc: m.sc}, tr)
						} else {
							e.apply(c34Step{A: "sc", Sc: m.sc, S: m.s}, tr)
						}
					}
				}
			}
			e.b.Close()
		}()
	}
	fmt.Printf("VERIF_SUMMARY {\"behaviours\":%d,\"events\":%d}\n", runs, tr.N)
}

// TestVerifC34Preprocess: the reference-oracle sub-check.  Every list of <= VERIF_N addresses over the
// universe (3 families, duplicates allowed) is given to deDupAddresses + interleaveAddresses.
func TestVerifC34Preprocess(t *testing.T) {
	tr, err := vlib.NewTrace(os.Getenv("VERIF_OUT"))
	if err != nil {
		t.Fatal(err)
	}
	defer tr.Close()
	maxLen := vlib.EnvInt("VERIF_N", 4)
	ids := []int{}
	for _, f := range strings.Split(vlib.Env("VERIF_UNIVERSE_IDS", "1,2,3,4,5,6,7,8,9"), ",") {
		var id int
		if _, err := fmt.Sscanf(f, "%d", &id); err == nil && id >= 1 && id <= len(c34Universe) {
			ids = append(ids, id)
		}
	}
	tr.Emit(map[string]any{"ev": "reset"})
	var rec func(l []int)
	rec = func(l []int) {
		addrs := make([]resolver.Address, len(l))
		for i, id := range l {
			addrs[i] = c34Addr(id, 0)
		}
		out := interleaveAddresses(deDupAddresses(addrs))
		o := make([]int, len(out))
		for i, a := range out {
			o[i] = c34AddrIDOf(a)
		}
		tr.Emit(map[string]any{"ev": "pre", "in": append([]int{}, l...), "out": o})
		if len(l) == maxLen {
			return
		}
		for _, id := range ids {
			rec(append(l, id))
		}
	}
	rec(nil)
	fmt.Printf("VERIF_SUMMARY {\"behaviours\":%d,\"events\":%d}\n", tr.N, tr.N)
}
