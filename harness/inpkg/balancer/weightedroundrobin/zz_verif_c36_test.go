package weightedroundrobin

// Driver for C36: the real scheduler built by picker.newScheduler from endpoint weights, driven with the
// picker's own sequence counter set to chosen starting points (single picks and full windows of
// 65535*n sequence numbers), and the real endpointWeight under a fake clock.  Outputs are recorded;
// TLC judges them against specs/WrrStride.tla.

import (
	"fmt"
	"math"
	"math/rand"
	"os"
	"testing"
	"time"

	v3orcapb "github.com/cncf/xds/go/xds/data/orca/v3"
	"google.golang.org/grpc/balancer/weightedroundrobin/internal"
	estats "google.golang.org/grpc/experimental/stats"
	iserviceconfig "google.golang.org/grpc/internal/serviceconfig"
	"google.golang.org/grpc/internal/zzverif/vlib"
)

type c36Recorder struct {
	estats.UnimplementedMetricsRecorder
}

func c36Safe(tr *vlib.Trace, what string, f func()) {
	defer func() {
		if r := recover(); r != nil {
			tr.Emit(map[string]any{"ev": "panic", "what": what, "r": fmt.Sprint(r)})
		}
	}()
	f()
}

type c36Runaway struct{}

func c36Seq(s uint32) []int { return []int{int(s >> 16), int(s & 0xffff)} }

var c36Base = time.Date(2026, 1, 1, 0, 0, 0, 0, time.UTC)

// one weight vector (integers, 0 = endpoint without a usable weight), scaled by the dyadic factor f
func c36Sched(tr *vlib.Trace, r *rand.Rand, ws []int64, f float64, windows int) {
	c36Safe(tr, "sched", func() {
		now := c36Base
		internal.TimeNow = func() time.Time { return now }
		cfg := &lbConfig{WeightExpirationPeriod: iserviceconfig.Duration(time.Hour)}
		rec := &c36Recorder{}
		lg := prefixLogger(nil)
		p := &picker{cfg: cfg, metricsRecorder: rec}
		for _, w := range ws {
			ew := &endpointWeight{logger: lg, metricsRecorder: rec, cfg: cfg}
			if w > 0 {
				ew.weightVal = float64(w) * f
				ew.lastUpdated = now
				ew.nonEmptySince = now
			}
			p.weightedPickers = append(p.weightedPickers, pickerWeightedEndpoint{weightedEndpoint: ew})
		}
		n := uint32(len(ws))
		s := p.newScheduler(false)
		// the scheduler's sequence source stays the picker's counter, with a budget per pick so that a pick that
		// does not terminate is recorded (used > n) instead of hanging the driver
		used := uint32(0)
		inc := func() uint32 {
			used++
			if used > 4*n+8 {
				panic(c36Runaway{})
			}
			return p.inc()
		}
		pick := func() (idx int) {
			used = 0
			defer func() {
				if r := recover(); r != nil {
					if _, ok := r.(c36Runaway); !ok {
						panic(r)
					}
					idx = -1
				}
			}()
			return s.nextIndex()
		}
		switch sc := s.(type) {
		case *edfScheduler:
			sc.inc = inc
			sw := make([]int, len(sc.weights))
			for i, x := range sc.weights {
				sw[i] = int(x)
			}
			tr.Emit(map[string]any{"ev": "sched", "w": ws, "kind": "edf", "sw": sw})
		case *rrScheduler:
			sc.inc = inc
			tr.Emit(map[string]any{"ev": "sched", "w": ws, "kind": "rr", "sw": []int{int(sc.numSCs)}})
		default:
			tr.Emit(map[string]any{"ev": "panic", "what": "sched", "r": fmt.Sprintf("scheduler %T", s)})
			return
		}
		win := uint32(maxWeight) * n
		// starting points; nothing here lets the 32-bit counter wrap (DESIGN 7)
		starts := []uint32{0, 1, win - 2, 1<<31 - 3, math.MaxUint32 - 2*win - uint32(r.Intn(1000)) - 8, r.Uint32() >> 1, r.Uint32() >> uint(r.Intn(20)), uint32(r.Intn(int(win)))}
		// single picks
		for _, st := range starts[:6] {
			p.idx.Store(st)
			for k := 0; k < 2; k++ {
				before := p.idx.Load()
				i := pick()
				tr.Emit(map[string]any{"ev": "next", "s": c36Seq(before), "idx": i, "used": int(used)})
			}
		}
		// full windows of 65535*n consecutive sequence numbers
		for k := 0; k < windows; k++ {
			st := starts[(k*5)%len(starts)]
			if k >= 2 {
				st = r.Uint32() >> 1
			}
			p.idx.Store(st)
			counts := make([]int, n)
			maxused := uint32(0)
			for {
				i := pick()
				after := p.idx.Load()
				if used > maxused {
					maxused = used
				}
				if i < 0 || after-st > win {
					break
				}
				if i >= 0 && i < len(counts) {
					counts[i]++
				}
				if after-st == win {
					break
				}
			}
			tr.Emit(map[string]any{"ev": "window", "s": c36Seq(st), "counts": counts, "maxused": int(maxused)})
		}
	})
}

func c36Vectors(r *rand.Rand, n int) [][]int64 {
	out := [][]int64{{5}, {0}, {3, 3}, {3, 0}, {0, 3}, {0, 0}, {0, 0, 0}, {0, 7, 0}, {1, 65535}, {65535, 1}, {1, 65534}, {1, 131070}, {131070, 1, 3},
		{1, 131071}, {1, 131069}, {1, 200000}, {1, 1000000}, {1000000, 999999}, {1, 2, 3}, {1, 0, 3}, {2, 0, 2}, {10, 10, 10}, {1000, 1001},
		{1, 2}, {2, 1}, {1, 3}, {3, 1, 0}, {1, 1, 1, 1, 1, 1, 1, 2}, {1, 2, 4, 8, 16, 32, 64, 128, 256, 512}, {7, 0, 0, 9}, {0, 0, 4, 4},
		{65535, 32768, 32767}, {65535, 32767, 0}, {2, 3, 0, 0, 0}, {999, 1000, 0}, {1, 1, 4}, {4, 6}, {6, 4, 0}, {100, 1, 1, 1}}
	for a := int64(0); a <= 3; a++ {
		for b := int64(0); b <= 3; b++ {
			for c := int64(0); c <= 3; c++ {
				out = append(out, []int64{a, b, c})
			}
		}
	}
	for i := 0; i < n; i++ {
		k := 1 + r.Intn(8)
		ws := make([]int64, k)
		hi := []int{4, 16, 1000, 65535, 1000000}[r.Intn(5)]
		for j := range ws {
			if r.Intn(7) == 0 {
				ws[j] = 0
			} else {
				ws[j] = int64(1 + r.Intn(hi))
			}
		}
		if r.Intn(6) == 0 && k > 1 { // a tie-prone pair: w and 2w*(65535)/odd
			ws[0] = 1 + int64(r.Intn(30))
			ws[1] = 131070 * ws[0] / int64(1+2*r.Intn(5))
		}
		// the monitor's split arithmetic needs (number of usable weights) * max < 2^31 / 256
		for len(ws) > 1 {
			var mx, nz int64
			for _, w := range ws {
				if w > mx {
					mx = w
				}
				if w > 0 {
					nz++
				}
			}
			if nz*mx <= 8000000 {
				break
			}
			ws = ws[:len(ws)-1]
		}
		out = append(out, ws)
	}
	return out
}

func TestVerifC36Sched(t *testing.T) {
	tr, err := vlib.NewTrace(os.Getenv("VERIF_OUT"))
	if err != nil {
		t.Fatal(err)
	}
	defer tr.Close()
	seed := int64(vlib.EnvInt("VERIF_SEED", 1))
	n := vlib.EnvInt("VERIF_N", 150)
	windows := vlib.EnvInt("VERIF_WINDOWS", 2)
	r := rand.New(rand.NewSource(seed))
	orig := internal.TimeNow
	defer func() { internal.TimeNow = orig }()
	vs := c36Vectors(r, n)
	factors := []float64{1, 0.5, 1.0 / 64, 1024, 1.0 / 1048576}
	for i, ws := range vs {
		c36Sched(tr, r, ws, factors[i%len(factors)], windows)
	}
	fmt.Printf("VERIF_SUMMARY {\"vectors\":%d,\"events\":%d}\n", len(vs), tr.N)
}

// ---------------------------------------------------------------------------------------------
// weight timeline under a fake clock

func TestVerifC36Weight(t *testing.T) {
	tr, err := vlib.NewTrace(os.Getenv("VERIF_OUT"))
	if err != nil {
		t.Fatal(err)
	}
	defer tr.Close()
	seed := int64(vlib.EnvInt("VERIF_SEED", 1))
	n := vlib.EnvInt("VERIF_N", 150)
	r := rand.New(rand.NewSource(seed))
	orig := internal.TimeNow
	defer func() { internal.TimeNow = orig }()
	rec := &c36Recorder{}
	lg := prefixLogger(nil)
	for it := 0; it < n; it++ {
		c36Safe(tr, "weight", func() {
			blackout := []int{0, 1000, 10000, 2500}[r.Intn(4)]
			expiry := []int{3000, 180000, 10000, 1000}[r.Intn(4)]
			d := []int{0, 2, 4, 8}[r.Intn(4)] // 4 * penalty
			if it == 0 {
				blackout, expiry, d = 10000, 180000, 4 // the defaults
			}
			nowMs := 0
			internal.TimeNow = func() time.Time { return c36Base.Add(time.Duration(nowMs) * time.Millisecond) }
			cfg := &lbConfig{ErrorUtilizationPenalty: float64(d) / 4, BlackoutPeriod: iserviceconfig.Duration(time.Duration(blackout) * time.Millisecond),
				WeightExpirationPeriod: iserviceconfig.Duration(time.Duration(expiry) * time.Millisecond)}
			ew := &endpointWeight{logger: lg, metricsRecorder: rec, cfg: cfg}
			tr.Emit(map[string]any{"ev": "wcfg", "blackout": blackout, "expiry": expiry, "d": d})
			query := func() {
				w := ew.weight(internal.TimeNow(), time.Duration(cfg.WeightExpirationPeriod), time.Duration(cfg.BlackoutPeriod), false)
				wi := math.Round(w)
				fl := math.Floor(w)
				if !(wi < 1<<30) {
					wi = 1 << 30
				}
				if !(fl < 1<<30) {
					fl = 1 << 30
				}
				tr.Emit(map[string]any{"ev": "weight", "t": nowMs, "zero": w == 0, "wi": int(wi), "wexact": math.Abs(w-wi) <= 1e-9*math.Abs(w), "wfloor": int(fl)})
			}
			query()
			steps := 8 + r.Intn(18)
			dts := []int{0, 1, 500, 999, 1000, 1001, 2499, 2500, 2501, 2999, 3000, 3001, 5000, 9999, 10000, 10001, 60000, 179999, 180000, 180001}
			for s := 0; s < steps; s++ {
				switch r.Intn(3) {
				case 0:
					nowMs += dts[r.Intn(len(dts))]
				case 1:
					nowMs += dts[r.Intn(9)]
				}
				if r.Intn(5) < 3 {
					var a, b, c int
					if r.Intn(3) > 0 {
						// float arithmetic exact by construction: eps/qps dyadic, qps a multiple of 8 * (64 * denominator)
						rho8 := []int{0, 1, 2, 4, 8}[r.Intn(5)] // 8 * eps/qps
						b = 1 + r.Intn(100)
						x := b + 2*rho8*d
						a = 8 * x * (1 + r.Intn(500/x+1))
						if a > 4000 {
							a = 8 * x
						}
						c = a / 8 * rho8
					} else {
						a, b = 1+r.Intn(4000), 1+r.Intn(128)
						c = r.Intn(a + 1)
					}
					app, cpu := b, 0
					switch r.Intn(6) {
					case 0:
						app, cpu = 0, b
					case 1:
						app, cpu = b, 1+r.Intn(128)
					case 2:
						if r.Intn(3) == 0 {
							app, cpu = 0, 0 // empty report
						}
					case 3:
						if r.Intn(3) == 0 {
							a = 0 // empty report
						}
					}
					ew.OnLoadReport(&v3orcapb.OrcaLoadReport{RpsFractional: float64(a), Eps: float64(c), ApplicationUtilization: float64(app) / 64, CpuUtilization: float64(cpu) / 64})
					tr.Emit(map[string]any{"ev": "report", "t": nowMs, "a": a, "app": app, "cpu": cpu, "c": c})
					if r.Intn(2) == 0 {
						query()
					}
				} else {
					query()
				}
			}
			query()
			tr.Reset()
		})
	}
	fmt.Printf("VERIF_SUMMARY {\"timelines\":%d,\"events\":%d}\n", n, tr.N)
}
