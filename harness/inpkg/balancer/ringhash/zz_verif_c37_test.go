package ringhash

// Driver for C37: rings built by the real newRing for every insertion order of the endpoint map, and
// picks of the real picker (built by newPickerLocked) for enumerated endpoint states and request hashes
// chosen relative to the ring entries.  Outputs are recorded; TLC judges them against specs/RingHash.tla.

import (
	"context"
	"fmt"
	"math"
	"math/rand"
	"os"
	"sort"
	"testing"

	xxhash "github.com/cespare/xxhash/v2"
	"google.golang.org/grpc/balancer"
	"google.golang.org/grpc/connectivity"
	"google.golang.org/grpc/experimental/balancer/weight"
	iringhash "google.golang.org/grpc/internal/ringhash"
	"google.golang.org/grpc/internal/zzverif/vlib"
	"google.golang.org/grpc/internal/zzverif/vlib/lbtest"
	"google.golang.org/grpc/metadata"
	"google.golang.org/grpc/resolver"
	rhattr "google.golang.org/grpc/resolver/ringhash"
)

func c37Safe(tr *vlib.Trace, what string, f func()) {
	defer func() {
		if r := recover(); r != nil {
			tr.Emit(map[string]any{"ev": "panic", "what": what, "r": fmt.Sprint(r)})
		}
	}()
	f()
}

func c37Limbs(h uint64) []int {
	return []int{int(h >> 48), int(h >> 32 & 0xffff), int(h >> 16 & 0xffff), int(h & 0xffff)}
}

func c37Key(i int) string { return fmt.Sprintf("10.0.%d.%d:443", i/7, i*37%251) }

// canonical index (1-based, by sorted hash key) of endpoint i of n
func c37Canon(n int) (keys []string, canon map[string]int) {
	for i := 0; i < n; i++ {
		keys = append(keys, c37Key(i))
	}
	sorted := append([]string(nil), keys...)
	sort.Strings(sorted)
	canon = map[string]int{}
	for i, k := range sorted {
		canon[k] = i + 1
	}
	return keys, canon
}

func c37Map(keys []string, ws []uint32, perm []int) *resolver.EndpointMap[*endpointState] {
	m := resolver.NewEndpointMap[*endpointState]()
	for _, i := range perm {
		m.Set(resolver.Endpoint{Addresses: []resolver.Address{{Addr: keys[i]}}}, &endpointState{hashKey: keys[i], weight: ws[i]})
	}
	return m
}

func c37Perms(n int, r *rand.Rand) [][]int {
	id := make([]int, n)
	for i := range id {
		id[i] = i
	}
	if n <= 3 {
		var out [][]int
		var rec func(p []int, rest []int)
		rec = func(p []int, rest []int) {
			if len(rest) == 0 {
				out = append(out, append([]int(nil), p...))
				return
			}
			for i := range rest {
				nr := append(append([]int(nil), rest[:i]...), rest[i+1:]...)
				rec(append(p, rest[i]), nr)
			}
		}
		rec(nil, id)
		return out
	}
	rev := make([]int, n)
	rot := make([]int, n)
	for i := range id {
		rev[i] = n - 1 - i
		rot[i] = (i + n/2) % n
	}
	return [][]int{id, rev, rot, r.Perm(n)}
}

// one endpoint set and one pair of bounds: the ring for every insertion order
func c37Ring(tr *vlib.Trace, r *rand.Rand, ws []uint32, min, max uint64, fullMax int) {
	c37Safe(tr, "ring", func() {
		n := len(ws)
		keys, canon := c37Canon(n)
		cws := make([]int, n)
		for i, k := range keys {
			cws[canon[k]-1] = int(ws[i])
		}
		tr.Emit(map[string]any{"ev": "ringcfg", "ws": cws, "min": min, "max": max})
		lg := prefixLogger(nil)
		for _, perm := range c37Perms(n, r) {
			rg := newRing(c37Map(keys, ws, perm), min, max, lg)
			counts := make([]int, n)
			for _, it := range rg.items {
				counts[canon[it.hashKey]-1]++
			}
			full := len(rg.items) <= fullMax
			items := [][]int{}
			if full {
				for _, it := range rg.items {
					items = append(items, append(c37Limbs(it.hash), canon[it.hashKey]))
				}
			}
			tr.Emit(map[string]any{"ev": "ring", "perm": perm, "counts": counts, "items": items, "full": full})
		}
	})
}

type c37Picker struct {
	k    int
	used *[]int
}

func (p c37Picker) Pick(balancer.PickInfo) (balancer.PickResult, error) {
	*p.used = append(*p.used, p.k)
	return balancer.PickResult{}, balancer.ErrNoSubConnAvailable
}

// every state assignment (or a sample) and hashes around every ring entry, on a small ring
func c37Picks(tr *vlib.Trace, r *rand.Rand, ws []uint32, size uint64, maxAssign int) int {
	np := 0
	c37Safe(tr, "pick", func() {
		n := len(ws)
		keys, canon := c37Canon(n)
		cws := make([]int, n)
		for i, k := range keys {
			cws[canon[k]-1] = int(ws[i])
		}
		perm := r.Perm(n)
		b := &ringhashBalancer{logger: prefixLogger(nil), config: &iringhash.LBConfig{MinRingSize: size, MaxRingSize: size}}
		b.endpointStates = c37Map(keys, ws, perm)
		b.ring = newRing(b.endpointStates, size, size, b.logger)
		tr.Emit(map[string]any{"ev": "ringcfg", "ws": cws, "min": size, "max": size + 1})
		counts := make([]int, n)
		items := [][]int{}
		for _, it := range b.ring.items {
			counts[canon[it.hashKey]-1]++
			items = append(items, append(c37Limbs(it.hash), canon[it.hashKey]))
		}
		tr.Emit(map[string]any{"ev": "ring", "perm": perm, "counts": counts, "items": items, "full": true})
		var hashes []uint64
		for _, it := range b.ring.items {
			hashes = append(hashes, it.hash-1, it.hash, it.hash+1)
		}
		hashes = append(hashes, 0, math.MaxUint64, r.Uint64())
		states := []connectivity.State{connectivity.Idle, connectivity.Connecting, connectivity.Ready, connectivity.TransientFailure}
		total := 1
		for i := 0; i < n; i++ {
			total *= 4
		}
		for a := 0; a < total && a < maxAssign; a++ {
			code := a
			if total > maxAssign {
				code = r.Intn(total)
			}
			var used, exits []int
			st := make([]string, n)
			for _, k := range keys {
				s := states[code%4]
				code /= 4
				ci := canon[k]
				st[ci-1] = s.String()
				es, _ := b.endpointStates.Get(resolver.Endpoint{Addresses: []resolver.Address{{Addr: k}}})
				es.state = balancer.State{ConnectivityState: s, Picker: c37Picker{k: ci, used: &used}}
				es.exitIdle = func() { exits = append(exits, ci) }
			}
			p := b.newPickerLocked()
			for hi, h := range hashes {
				for _, random := range []bool{false, true} {
					used, exits = nil, []int{}
					ctx := context.Background()
					logh := h
					if random {
						p.requestHashHeader = "x-c37"
						p.randUint64 = func() uint64 { return h }
					} else if hi%5 == 4 {
						// request hash taken from a header value (A76): the hash is that of the value
						v := fmt.Sprintf("v-%d-%d", a, hi)
						p.requestHashHeader = "x-c37"
						ctx = metadata.NewOutgoingContext(ctx, metadata.Pairs("x-c37", v))
						logh = xxhash.Sum64String(v)
					} else {
						p.requestHashHeader = ""
						ctx = iringhash.SetXDSRequestHash(ctx, h)
					}
					p.Pick(balancer.PickInfo{Ctx: ctx})
					res := 0
					if len(used) > 0 {
						res = used[0]
					}
					tr.Emit(map[string]any{"ev": "pick", "h": c37Limbs(logh), "random": random, "st": st, "res": res, "exit": exits})
					np++
				}
			}
		}
		tr.Reset()
	})
	return np
}

func TestVerifC37Ring(t *testing.T) {
	tr, err := vlib.NewTrace(os.Getenv("VERIF_OUT"))
	if err != nil {
		t.Fatal(err)
	}
	defer tr.Close()
	seed := int64(vlib.EnvInt("VERIF_SEED", 1))
	n := vlib.EnvInt("VERIF_N", 150)
	maxN := vlib.EnvInt("VERIF_MAXN", 3)
	r := rand.New(rand.NewSource(seed))
	nc := 0
	bounds := []uint64{1, 2, 5, 8}
	alpha := []uint32{1, 2, 3, 100}
	var gen func(p []uint32, k int)
	gen = func(p []uint32, k int) {
		if len(p) > 0 {
			for _, a := range bounds {
				for _, b := range bounds {
					if a <= b {
						c37Ring(tr, r, append([]uint32(nil), p...), a, b, 16)
						nc++
					}
				}
			}
		}
		if k == 0 {
			return
		}
		for _, a := range alpha {
			gen(append(p, a), k-1)
		}
	}
	// the documented example and default-sized rings
	for _, c := range []struct {
		ws       []uint32
		min, max uint64
	}{{[]uint32{1, 4}, 1, 3}, {[]uint32{3, 3, 4}, 10, 10}, {[]uint32{3, 3, 4}, 7, 7}, {[]uint32{1, 1, 1}, 1024, 4096}, {[]uint32{1, 2, 4}, 1024, 4096}, {[]uint32{3, 100}, 7, 7},
		{[]uint32{1, 100, 3}, 10, 100}, {[]uint32{1, 50000}, 1, 4096}, {[]uint32{1, 50000}, 4096, 4096}, {[]uint32{7}, 1, 1}, {[]uint32{7}, 3, 5},
		{[]uint32{1, 1, 1, 1, 1, 1, 1, 1, 1, 1}, 4, 4}, {[]uint32{1, 1, 1, 1, 1, 1, 1, 1, 1, 1}, 1024, 4096}} {
		c37Ring(tr, r, c.ws, c.min, c.max, 16)
		nc++
	}
	gen(nil, maxN)
	for i := 0; i < n; i++ {
		k := 1 + r.Intn(12)
		ws := make([]uint32, k)
		for j := range ws {
			ws[j] = []uint32{1, 1, 2, 3, 10, uint32(1 + r.Intn(1000)), uint32(1 + r.Intn(100))}[r.Intn(7)]
		}
		min := []uint64{1, 2, 3, 5, 8, 10, 64, 100, 1024, uint64(1 + r.Intn(4096))}[r.Intn(10)]
		max := []uint64{min, min, min + 1, 2 * min, 4096, uint64(1 + r.Intn(4096))}[r.Intn(6)]
		if max < min {
			max = min
		}
		if max > 4096 {
			max = 4096
		}
		c37Ring(tr, r, ws, min, max, 16)
		nc++
	}
	fmt.Printf("VERIF_SUMMARY {\"cases\":%d,\"events\":%d}\n", nc, tr.N)
}

func TestVerifC37Pick(t *testing.T) {
	tr, err := vlib.NewTrace(os.Getenv("VERIF_OUT"))
	if err != nil {
		t.Fatal(err)
	}
	defer tr.Close()
	seed := int64(vlib.EnvInt("VERIF_SEED", 1))
	maxAssign := vlib.EnvInt("VERIF_ASSIGN", 64)
	r := rand.New(rand.NewSource(seed))
	np := 0
	for _, c := range []struct {
		ws   []uint32
		size uint64
	}{{[]uint32{1, 1}, 4}, {[]uint32{1, 1, 1}, 6}, {[]uint32{1, 2, 1}, 4}, {[]uint32{1, 1, 1, 1}, 4}, {[]uint32{5}, 2}} {
		np += c37Picks(tr, r, c.ws, c.size, maxAssign)
	}
	fmt.Printf("VERIF_SUMMARY {\"picks\":%d,\"events\":%d}\n", np, tr.N)
}

// ---------------------------------------------------------------------------------------------
// the ring the real ring_hash balancer ends up with after a history of resolver updates

// one endpoint as the resolver reports it: address, optional hash-key attribute, weight attribute
type c37EP struct {
	addr, key string
	w         uint32
}

func (e c37EP) hashKey() string {
	if e.key != "" {
		return e.key
	}
	return e.addr
}

func c37Endpoints(set []c37EP) []resolver.Endpoint {
	var out []resolver.Endpoint
	for _, e := range set {
		ep := resolver.Endpoint{Addresses: []resolver.Address{{Addr: e.addr}}}
		if e.key != "" {
			ep = rhattr.SetHashKey(ep, e.key)
		}
		out = append(out, weight.Set(ep, weight.EndpointInfo{Weight: e.w}))
	}
	return out
}

// applies the updates to a fresh balancer (all sub-connections stay IDLE, so nothing happens asynchronously) and
// returns the ring of the picker published by the last update
func c37RingAfter(updates [][]c37EP, min, max uint64) *ring {
	cc := lbtest.NewRecCC()
	b := balancer.Get(Name).Build(cc, balancer.BuildOptions{})
	defer b.Close()
	var rg *ring
	for _, u := range updates {
		if err := b.UpdateClientConnState(balancer.ClientConnState{ResolverState: resolver.State{Endpoints: c37Endpoints(u)},
			BalancerConfig: &iringhash.LBConfig{MinRingSize: min, MaxRingSize: max}}); err != nil {
			panic(fmt.Sprintf("UpdateClientConnState: %v", err))
		}
		rg = nil
		for _, ev := range cc.Take() {
			if ev.Kind == "update_state" {
				if p, ok := ev.Pick.(*picker); ok {
					rg = p.ring
				}
			}
		}
		if rg == nil {
			panic("no ring_hash picker published after a resolver update")
		}
	}
	return rg
}

func c37Clone(s []c37EP) []c37EP { return append([]c37EP(nil), s...) }

// histories of resolver updates that all end with the set final
func c37Histories(r *rand.Rand, final []c37EP, nrand int) (names []string, hs [][][]c37EP) {
	add := func(name string, h ...[]c37EP) {
		names = append(names, name)
		hs = append(hs, append(h, final))
	}
	add("direct")
	mut := func(i int, both, w, k bool) []c37EP {
		o := c37Clone(final)
		if w || both {
			o[i].w = o[i].w%7 + 2
			if o[i].w == final[i].w {
				o[i].w++
			}
		}
		if k || both {
			o[i].key = "old-key-" + o[i].addr
		}
		return o
	}
	for i := range final {
		add(fmt.Sprintf("weight+key of %d changed", i), mut(i, true, false, false))
		add(fmt.Sprintf("weight of %d changed", i), mut(i, false, true, false))
		add(fmt.Sprintf("key of %d changed", i), mut(i, false, false, true))
	}
	extra := c37EP{addr: "10.1.1.1:99", w: 5}
	add("endpoint removed", append(c37Clone(final), extra))
	if len(final) > 1 {
		add("endpoint added", c37Clone(final[1:]))
		rev := c37Clone(final)
		for i, j := 0, len(rev)-1; i < j; i, j = i+1, j-1 {
			rev[i], rev[j] = rev[j], rev[i]
		}
		add("reordered", rev)
		add("all changed, then extra removed", append(mut(0, true, false, false), extra), mut(len(final)-1, true, false, false))
	}
	for n := 0; n < nrand; n++ {
		var h [][]c37EP
		for s := 0; s < 1+r.Intn(4); s++ {
			var o []c37EP
			for i, e := range final {
				switch r.Intn(6) {
				case 0: // absent
					continue
				case 1:
					e = mut(i, true, false, false)[i]
				case 2:
					e = mut(i, false, true, false)[i]
				case 3:
					e = mut(i, false, false, true)[i]
				}
				o = append(o, e)
			}
			if r.Intn(3) == 0 {
				o = append(o, extra)
			}
			if len(o) == 0 {
				o = append(o, extra)
			}
			r.Shuffle(len(o), func(i, j int) { o[i], o[j] = o[j], o[i] })
			h = append(h, o)
		}
		names = append(names, fmt.Sprintf("random-%d", n))
		hs = append(hs, append(h, final))
	}
	return names, hs
}

func TestVerifC37Balancer(t *testing.T) {
	tr, err := vlib.NewTrace(os.Getenv("VERIF_OUT"))
	if err != nil {
		t.Fatal(err)
	}
	defer tr.Close()
	seed := int64(vlib.EnvInt("VERIF_SEED", 1))
	nrand := vlib.EnvInt("VERIF_N", 6)
	r := rand.New(rand.NewSource(seed))
	finals := [][]c37EP{
		{{"10.0.0.1:1", "key-new", 3}, {"10.0.0.2:2", "", 1}, {"10.0.0.3:3", "", 1}},
		{{"10.0.0.1:1", "", 1}, {"10.0.0.2:2", "", 1}},
		{{"10.0.0.1:1", "zz", 2}, {"10.0.0.2:2", "aa", 1}, {"10.0.0.3:3", "mm", 1}, {"10.0.0.4:4", "", 4}},
		{{"10.0.0.9:1", "only", 1}},
	}
	nh := 0
	for fi, final := range finals {
		size := uint64([]int{10, 8, 16, 3}[fi])
		c37Safe(tr, "balancer", func() {
			keys := make([]string, len(final))
			for i, e := range final {
				keys[i] = e.hashKey()
			}
			sorted := append([]string(nil), keys...)
			sort.Strings(sorted)
			canon := map[string]int{}
			for i, k := range sorted {
				canon[k] = i + 1
			}
			cws := make([]int, len(final))
			for _, e := range final {
				cws[canon[e.hashKey()]-1] = int(e.w)
			}
			tr.Emit(map[string]any{"ev": "ringcfg", "ws": cws, "min": size, "max": size + 1, "via": "balancer"})
			names, hs := c37Histories(r, final, nrand)
			for hi, h := range hs {
				rg := c37RingAfter(h, size, size)
				counts := make([]int, len(final))
				items := [][]int{}
				for _, it := range rg.items {
					ci := canon[it.hashKey] // 0: a hash key that is not in the final endpoint set
					if ci > 0 {
						counts[ci-1]++
					}
					items = append(items, append(c37Limbs(it.hash), ci))
				}
				tr.Emit(map[string]any{"ev": "ring", "hist": names[hi], "perm": []int{hi}, "updates": len(h), "counts": counts, "items": items, "full": true})
				nh++
			}
		})
		tr.Reset()
	}
	fmt.Printf("VERIF_SUMMARY {\"histories\":%d,\"events\":%d}\n", nh, tr.N)
}
