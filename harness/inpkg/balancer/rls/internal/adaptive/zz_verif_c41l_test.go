package adaptive

// Driver for C41 (part 3, adaptive throttler lookback): seeded random timelines (the clock may go
// backwards) on the real lookback and the real Throttler (timeNowFunc / randFunc seams).  Bins are
// logged relative to an origin so that they fit TLC's 32-bit integers.  The driver never judges.

import (
	"fmt"
	"math/rand"
	"os"
	"testing"
	"time"

	"google.golang.org/grpc/internal/zzverif/vlib"
)

func TestVerifC41Lookback(t *testing.T) {
	tr, err := vlib.NewTrace(os.Getenv("VERIF_OUT"))
	if err != nil {
		t.Fatal(err)
	}
	defer tr.Close()
	rng := rand.New(rand.NewSource(int64(vlib.EnvInt("VERIF_SEED", 1))))
	runs := vlib.EnvInt("VERIF_N", 150)
	safe := func(what string, f func()) {
		defer func() {
			if r := recover(); r != nil {
				tr.Emit(map[string]any{"ev": "panic", "what": what, "r": fmt.Sprint(r)})
			}
		}()
		f()
	}
	// next relative bin: mostly forward by a little, sometimes a jump, sometimes backwards
	step := func(cur, bins int) int {
		switch x := rng.Intn(10); {
		case x <= 3:
			return cur
		case x <= 6:
			return cur + 1 + rng.Intn(2)
		case x == 7:
			return cur + bins - 1 + rng.Intn(3)
		case x == 8:
			return cur + 2*bins + rng.Intn(bins)
		default:
			b := cur - 1 - rng.Intn(bins+2)
			if b < 1 {
				b = 1
			}
			return b
		}
	}
	const origin = int64(3_000_000_000) // absolute bin of relative bin 0
	for r := 0; r < runs; r++ {
		tr.Reset()
		if r%2 == 0 {
			bins := []int{2, 3, 4, 7}[rng.Intn(4)]
			width := time.Duration([]int{1000, 300, 7}[rng.Intn(3)]) * time.Millisecond
			var lb *lookback
			safe("newLookback", func() { lb = newLookback(int64(bins), width*time.Duration(bins)) })
			tr.Emit(map[string]any{"ev": "lbnew", "bins": bins})
			cur, hi := 2*bins, 2*bins
			at := func(b int) time.Time {
				return time.Unix(0, (origin+int64(b))*int64(width)+rng.Int63n(int64(width)))
			}
			for i, n := 0, 10+rng.Intn(40); i < n; i++ {
				b := step(cur, bins)
				if b > hi {
					hi = b
				}
				if rng.Intn(3) == 0 {
					cur = b // a look into the past does not always move the driver's clock
				} else if b >= cur {
					cur = b
				}
				if rng.Intn(3) == 0 {
					safe("sum", func() { tr.Emit(map[string]any{"ev": "lbsum", "b": b, "sum": lb.sum(at(b))}) })
				} else {
					v := int64(1 + rng.Intn(3))
					safe("add", func() {
						lb.add(at(b), v)
						tr.Emit(map[string]any{"ev": "lbadd", "b": b, "v": v, "total": lb.total})
					})
				}
			}
			continue
		}
		// the Throttler with its defaults: 100 bins over 30 s
		const bins = 100
		width := defaultDuration / defaultBins
		var nowT time.Time
		var draw float64
		oldNow, oldRand := timeNowFunc, randFunc
		timeNowFunc = func() time.Time { return nowT }
		randFunc = func() float64 { return draw }
		th := New()
		tr.Emit(map[string]any{"ev": "thnew"})
		cur := 2 * bins
		for i, n := 0, 20+rng.Intn(60); i < n; i++ {
			switch x := rng.Intn(12); {
			case x <= 6:
				cur += rng.Intn(3)
			case x == 7:
				cur += 20 + rng.Intn(50)
			case x == 8:
				cur += 95 + rng.Intn(10)
			case x == 9 && cur > 2*bins+5:
				cur -= 1 + rng.Intn(5)
			}
			b := cur
			nowT = time.Unix(0, (origin+int64(b))*int64(width)+rng.Int63n(int64(width)))
			if rng.Intn(5) < 3 {
				throttled := rng.Intn(3) != 0
				safe("register", func() {
					th.RegisterBackendResponse(throttled)
					tr.Emit(map[string]any{"ev": "reg", "b": b, "thr": throttled})
				})
			} else {
				p := rng.Intn(17)
				draw = float64(p) / 16
				safe("should", func() {
					res := th.ShouldThrottle()
					tr.Emit(map[string]any{"ev": "should", "b": b, "p": p, "res": res})
				})
			}
		}
		timeNowFunc, randFunc = oldNow, oldRand
	}
	fmt.Printf("VERIF_SUMMARY {\"behaviours\":%d,\"events\":%d}\n", runs, tr.N)
}
