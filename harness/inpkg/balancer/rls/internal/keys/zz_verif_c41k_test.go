package keys

// Driver for C41 (part 1, RLS key builder): records (config, request, KeyMap) tuples of the real
// MakeBuilderMap / BuilderMap.RLSKey; TLC validates them against specs/RLSKeys.tla.  The driver
// never judges.

import (
	"fmt"
	"math/rand"
	"os"
	"sort"
	"testing"

	rlspb "google.golang.org/grpc/internal/proto/grpc_lookup_v1"
	"google.golang.org/grpc/internal/zzverif/vlib"
	"google.golang.org/grpc/metadata"
)

type c41kHdr struct {
	Key   string
	Names []string
}

type c41kKB struct {
	Paths                 [][2]string // service, method ("" = wildcard)
	Hdrs                  []c41kHdr
	Consts                [][2]string
	Host, Service, Method string
}

func c41kProto(kbs []c41kKB) *rlspb.RouteLookupConfig {
	cfg := &rlspb.RouteLookupConfig{}
	for _, kb := range kbs {
		p := &rlspb.GrpcKeyBuilder{}
		for _, n := range kb.Paths {
			p.Names = append(p.Names, &rlspb.GrpcKeyBuilder_Name{Service: n[0], Method: n[1]})
		}
		for _, h := range kb.Hdrs {
			p.Headers = append(p.Headers, &rlspb.NameMatcher{Key: h.Key, Names: h.Names})
		}
		if len(kb.Consts) > 0 {
			p.ConstantKeys = map[string]string{}
			for _, c := range kb.Consts {
				p.ConstantKeys[c[0]] = c[1]
			}
		}
		if kb.Host != "" || kb.Service != "" || kb.Method != "" {
			p.ExtraKeys = &rlspb.GrpcKeyBuilder_ExtraKeys{Host: kb.Host, Service: kb.Service, Method: kb.Method}
		}
		cfg.GrpcKeybuilders = append(cfg.GrpcKeybuilders, p)
	}
	return cfg
}

func c41kCfgEvent(kbs []c41kKB) map[string]any {
	bm := []any{}
	for _, kb := range kbs {
		hdrs := []any{}
		for _, h := range kb.Hdrs {
			names := []any{}
			for _, n := range h.Names {
				names = append(names, vlib.Bytes(n))
			}
			hdrs = append(hdrs, map[string]any{"key": vlib.Bytes(h.Key), "names": names})
		}
		consts := []any{}
		for _, c := range kb.Consts {
			consts = append(consts, []any{vlib.Bytes(c[0]), vlib.Bytes(c[1])})
		}
		b := map[string]any{"hdrs": hdrs, "consts": consts, "host": vlib.Bytes(kb.Host), "service": vlib.Bytes(kb.Service), "method": vlib.Bytes(kb.Method)}
		for _, p := range kb.Paths {
			bm = append(bm, map[string]any{"path": vlib.Bytes("/" + p[0] + "/" + p[1]), "b": b})
		}
	}
	return map[string]any{"ev": "cfg", "bm": bm}
}

func c41kMD(md metadata.MD) []any {
	names := []string{}
	for n := range md {
		names = append(names, n)
	}
	sort.Strings(names)
	out := []any{}
	for _, n := range names {
		vs := []any{}
		for _, v := range md[n] {
			vs = append(vs, vlib.Bytes(v))
		}
		out = append(out, map[string]any{"n": vlib.Bytes(n), "v": vs})
	}
	return out
}

func c41kMap(m map[string]string) []any {
	ks := []string{}
	for k := range m {
		ks = append(ks, k)
	}
	sort.Strings(ks)
	out := []any{}
	for _, k := range ks {
		out = append(out, []any{vlib.Bytes(k), vlib.Bytes(m[k])})
	}
	return out
}

func c41kSafe(tr *vlib.Trace, what string, f func()) {
	defer func() {
		if r := recover(); r != nil {
			tr.Emit(map[string]any{"ev": "panic", "what": what, "r": fmt.Sprint(r)})
		}
	}()
	f()
}

// one header set: name -> values (nil = absent)
type c41kReq struct {
	md         metadata.MD
	host, path string
}

func c41kAllMDs(names []string, opts [][]string) []metadata.MD {
	out := []metadata.MD{{}}
	for _, n := range names {
		var next []metadata.MD
		for _, m := range out {
			for _, o := range opts {
				c := metadata.MD{}
				for k, v := range m {
					c[k] = v
				}
				if o != nil {
					c[n] = o
				}
				next = append(next, c)
			}
		}
		out = next
	}
	return out
}

func c41kRandCfg(r *rand.Rand, vals []string) []c41kKB {
	keyPool := []string{"a", "ab", "b", "k1", "K", "a-b", "h", "s", "m", "c1", "c2"}
	namePool := []string{"x", "y", "z", "w", "X-Up", "x-a"}
	svcs := []string{"s", "t", "pkg.Svc"}
	r.Shuffle(len(svcs), func(i, j int) { svcs[i], svcs[j] = svcs[j], svcs[i] })
	var kbs []c41kKB
	nkb := 1 + r.Intn(3)
	usedPath := map[[2]string]bool{}
	for i := 0; i < nkb; i++ {
		keys := append([]string(nil), keyPool...)
		r.Shuffle(len(keys), func(a, b int) { keys[a], keys[b] = keys[b], keys[a] })
		next := func() string { k := keys[0]; keys = keys[1:]; return k }
		kb := c41kKB{}
		for n := 1 + r.Intn(2); n > 0; n-- {
			p := [2]string{svcs[r.Intn(len(svcs))], []string{"", "m", "n"}[r.Intn(3)]}
			if !usedPath[p] {
				usedPath[p] = true
				kb.Paths = append(kb.Paths, p)
			}
		}
		if len(kb.Paths) == 0 {
			continue
		}
		for n := r.Intn(4); n > 0; n-- {
			h := c41kHdr{Key: next()}
			for k := 1 + r.Intn(3); k > 0; k-- {
				h.Names = append(h.Names, namePool[r.Intn(len(namePool))])
			}
			kb.Hdrs = append(kb.Hdrs, h)
		}
		for n := r.Intn(3); n > 0; n-- {
			kb.Consts = append(kb.Consts, [2]string{next(), vals[r.Intn(len(vals))]})
		}
		if r.Intn(2) == 0 {
			kb.Host = next()
		}
		if r.Intn(2) == 0 {
			kb.Service = next()
		}
		if r.Intn(2) == 0 {
			kb.Method = next()
		}
		kbs = append(kbs, kb)
	}
	return kbs
}

func c41kRandMD(r *rand.Rand, vals []string) metadata.MD {
	md := metadata.MD{}
	for _, n := range []string{"x", "y", "z", "w", "x-up", "x-a"} {
		if r.Intn(2) == 0 {
			var vs []string
			for k := 1 + r.Intn(2); k > 0; k-- {
				vs = append(vs, vals[r.Intn(len(vals))])
			}
			md[n] = vs
		}
	}
	return md
}

// TestVerifC41Keys writes two traces: VERIF_OUT (configs, requests, injectivity sets whose keys
// and values contain neither ',' nor '=') and VERIF_OUT_SEP (injectivity sets over values that
// contain the separators).
func TestVerifC41Keys(t *testing.T) {
	tr, err := vlib.NewTrace(os.Getenv("VERIF_OUT"))
	if err != nil {
		t.Fatal(err)
	}
	defer tr.Close()
	trs, err := vlib.NewTrace(os.Getenv("VERIF_OUT_SEP"))
	if err != nil {
		t.Fatal(err)
	}
	defer trs.Close()
	r := rand.New(rand.NewSource(int64(vlib.EnvInt("VERIF_SEED", 1))))
	n := vlib.EnvInt("VERIF_N", 60)
	plain := []string{"", "1", "2", "b", "b1", "1b", "v w"}
	seps := []string{"1", "2", "1,b=2", "b=2", ",", "=", "1,ab=2", "", "a=1"}
	nkey, ninj := 0, 0

	emitKey := func(tr *vlib.Trace, bm BuilderMap, q c41kReq) KeyMap {
		var km KeyMap
		c41kSafe(tr, "RLSKey", func() {
			km = bm.RLSKey(q.md, q.host, q.path)
			m := km.Map
			if m == nil {
				m = map[string]string{}
			}
			tr.Emit(map[string]any{"ev": "key", "md": c41kMD(q.md), "host": vlib.Bytes(q.host), "path": vlib.Bytes(q.path),
				"map": c41kMap(m), "str": vlib.Bytes(km.Str)})
			nkey++
		})
		return km
	}
	emitInj := func(tr *vlib.Trace, bm BuilderMap, host, path string, mds []metadata.MD) {
		items := []any{}
		c41kSafe(tr, "RLSKey", func() {
			for _, md := range mds {
				km := bm.RLSKey(md, host, path)
				m := km.Map
				if m == nil {
					m = map[string]string{}
				}
				items = append(items, map[string]any{"map": c41kMap(m), "str": vlib.Bytes(km.Str)})
			}
			tr.Emit(map[string]any{"ev": "inj", "path": vlib.Bytes(path), "items": items})
			ninj++
		})
	}

	// fixed configuration of the design (2 header builders x 2 header names, host/method/constant keys)
	fixed := []c41kKB{
		{Paths: [][2]string{{"s", "m"}}, Hdrs: []c41kHdr{{"a", []string{"x", "Y"}}, {"b", []string{"y", "z"}}},
			Consts: [][2]string{{"c", "1"}}, Host: "h", Method: "mk"},
		{Paths: [][2]string{{"s", ""}}, Hdrs: []c41kHdr{{"a", []string{"z"}}}, Service: "sv"},
	}
	tr.Reset()
	bm, err := MakeBuilderMap(c41kProto(fixed))
	if err != nil {
		t.Fatal(err)
	}
	tr.Emit(c41kCfgEvent(fixed))
	for _, md := range c41kAllMDs([]string{"x", "y", "z"}, [][]string{nil, {"1"}, {"1", "2"}, {""}, {"p,q"}}) {
		for _, p := range []string{"/s/m", "/s/n", "/t/m"} {
			emitKey(tr, bm, c41kReq{md, "host.example", p})
		}
	}
	// injectivity domain: three header keys "a", "ab", "b", one header each
	injCfg := []c41kKB{{Paths: [][2]string{{"s", ""}}, Hdrs: []c41kHdr{{"a", []string{"xa"}}, {"ab", []string{"xab"}}, {"b", []string{"xb"}}}}}
	bmi, err := MakeBuilderMap(c41kProto(injCfg))
	if err != nil {
		t.Fatal(err)
	}
	for _, tt := range []*vlib.Trace{tr, trs} {
		tt.Reset()
		tt.Emit(c41kCfgEvent(injCfg))
	}
	emitInj(tr, bmi, "h", "/s/m", c41kAllMDs([]string{"xa", "xab", "xb"}, [][]string{nil, {""}, {"1"}, {"b"}, {"b1"}, {"1", "b"}}))
	emitInj(trs, bmi, "h", "/s/m", c41kAllMDs([]string{"xa", "xab", "xb"}, [][]string{nil, {"1"}, {"2"}, {"1,b=2"}, {"1", "b=2"}, {"b=2"}}))
	// the minimal instance on its own line: {a:"1,b=2"} versus {a:"1", b:"2"}
	emitInj(trs, bmi, "h", "/s/m", []metadata.MD{{"xa": {"1,b=2"}}, {"xa": {"1"}, "xb": {"2"}}})

	// seeded random configurations and requests
	for i := 0; i < n; i++ {
		vals := plain
		kbs := c41kRandCfg(r, vals)
		if len(kbs) == 0 {
			continue
		}
		bm, err := MakeBuilderMap(c41kProto(kbs))
		if err != nil {
			t.Fatalf("generated config rejected: %v", err)
		}
		tr.Reset()
		tr.Emit(c41kCfgEvent(kbs))
		trs.Reset()
		trs.Emit(c41kCfgEvent(kbs))
		for k := 0; k < 12; k++ {
			p := "/" + []string{"s", "t", "pkg.Svc", "u"}[r.Intn(4)] + "/" + []string{"m", "n", "o"}[r.Intn(3)]
			emitKey(tr, bm, c41kReq{c41kRandMD(r, append(append([]string{}, plain...), seps...)), []string{"h1", "h2", ""}[r.Intn(3)], p})
		}
		path := "/" + kbs[0].Paths[0][0] + "/m"
		var a, b []metadata.MD
		for k := 0; k < 40; k++ {
			a = append(a, c41kRandMD(r, plain))
			b = append(b, c41kRandMD(r, seps))
		}
		emitInj(tr, bm, "h1", path, a)
		emitInj(trs, bm, "h1", path, b)
	}
	fmt.Printf("VERIF_SUMMARY {\"keys\":%d,\"inj\":%d}\n", nkey, ninj)
}
