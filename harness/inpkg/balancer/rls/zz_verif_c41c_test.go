package rls

// Driver for C41 (part 2, RLS data cache): sequential replay of TLC behaviours and seeded random
// operation sequences on the real dataCache inside a testing/synctest bubble (time.Now is
// virtual); after every operation the cache's state is recorded.  TLC validates the trace against
// specs/RLSCache.tla.  The driver never judges.

import (
	"encoding/json"
	"fmt"
	"math/rand"
	"os"
	"sort"
	"strconv"
	"testing"
	"testing/synctest"
	"time"

	"google.golang.org/grpc/internal/zzverif/vlib"
)

type c41cStep struct {
	A   string `json:"a"`
	K   int    `json:"k"`
	Sz  int64  `json:"sz"`
	Dly int    `json:"dly"`
	TTL int    `json:"ttl"`
	N   int64  `json:"n"`
	D   int    `json:"d"`
}

type c41cEnv struct {
	dc    *dataCache
	start time.Time
}

func c41cKey(k int) cacheKey { return cacheKey{path: "/svc/m", keys: "k=" + strconv.Itoa(k)} }
func c41cKeyID(k cacheKey) int {
	n, _ := strconv.Atoi(k.keys[2:])
	return n
}

func (e *c41cEnv) obs() map[string]any {
	type kv struct {
		k  int
		sz int64
	}
	var es []kv
	for k, ent := range e.dc.entries {
		es = append(es, kv{c41cKeyID(k), ent.size})
	}
	sort.Slice(es, func(i, j int) bool { return es[i].k < es[j].k })
	ents := [][]int64{}
	for _, x := range es {
		ents = append(ents, []int64{int64(x.k), x.sz})
	}
	lru := []int{}
	for el := e.dc.keys.ll.Front(); el != nil; el = el.Next() {
		lru = append(lru, c41cKeyID(el.Value.(cacheKey)))
	}
	return map[string]any{"cur": e.dc.currentSize, "max": e.dc.maxSize, "ents": ents, "lru": lru,
		"now": int(time.Since(e.start) / time.Second)}
}

func (e *c41cEnv) apply(st c41cStep, tr *vlib.Trace) {
	defer func() {
		if r := recover(); r != nil {
			tr.Emit(map[string]any{"ev": "panic", "what": st.A, "r": fmt.Sprint(r)})
		}
	}()
	switch st.A {
	case "add":
		now := time.Now()
		ent := &cacheEntry{size: st.Sz, earliestEvictTime: now.Add(time.Duration(st.Dly) * time.Second),
			expiryTime: now.Add(time.Duration(st.TTL) * time.Second)}
		_, ok := e.dc.addEntry(c41cKey(st.K), ent)
		tr.Emit(map[string]any{"ev": "add", "k": st.K, "sz": st.Sz, "dly": st.Dly, "ttl": st.TTL, "ok": ok, "obs": e.obs()})
	case "get":
		ent := e.dc.getEntry(c41cKey(st.K))
		tr.Emit(map[string]any{"ev": "get", "k": st.K, "found": ent != nil, "obs": e.obs()})
	case "upd":
		// as the policy does on an RLS response: look the entry up, then change its size
		if ent := e.dc.getEntry(c41cKey(st.K)); ent != nil {
			e.dc.updateEntrySize(ent, st.Sz)
		}
		tr.Emit(map[string]any{"ev": "upd", "k": st.K, "sz": st.Sz, "obs": e.obs()})
	case "remove":
		e.dc.removeEntryForTesting(c41cKey(st.K))
		tr.Emit(map[string]any{"ev": "remove", "k": st.K, "obs": e.obs()})
	case "resize":
		e.dc.resize(st.N)
		tr.Emit(map[string]any{"ev": "resize", "n": st.N, "obs": e.obs()})
	case "expire":
		e.dc.evictExpiredEntries()
		tr.Emit(map[string]any{"ev": "expire", "obs": e.obs()})
	case "advance":
		time.Sleep(time.Duration(st.D) * time.Second)
		tr.Emit(map[string]any{"ev": "advance", "d": st.D, "obs": e.obs()})
	default:
		panic("unknown step " + st.A)
	}
}

func c41cNew(tr *vlib.Trace, b int, max int64) *c41cEnv {
	tr.Emit(map[string]any{"ev": "reset", "b": b, "max": max})
	return &c41cEnv{dc: newDataCache(max, nil, ""), start: time.Now()}
}

func TestVerifC41CacheReplay(t *testing.T) {
	lines, err := vlib.ReadLines(os.Getenv("VERIF_BEHAVIOURS"))
	if err != nil {
		t.Fatal(err)
	}
	tr, err := vlib.NewTrace(os.Getenv("VERIF_OUT"))
	if err != nil {
		t.Fatal(err)
	}
	defer tr.Close()
	initMax := int64(vlib.EnvInt("VERIF_INITMAX", 3))
	synctest.Test(t, func(t *testing.T) {
		for i, ln := range lines {
			var steps []c41cStep
			if err := json.Unmarshal(ln, &steps); err != nil {
				t.Fatal(err)
			}
			e := c41cNew(tr, i, initMax)
			for _, st := range steps {
				e.apply(st, tr)
			}
		}
	})
	fmt.Printf("VERIF_SUMMARY {\"behaviours\":%d,\"events\":%d}\n", len(lines), tr.N)
}

// TestVerifC41CacheRandom: seeded random operation sequences inside the API's domain (R4: addEntry
// only for keys that are not in the cache, size updates only for live keys).
func TestVerifC41CacheRandom(t *testing.T) {
	tr, err := vlib.NewTrace(os.Getenv("VERIF_OUT"))
	if err != nil {
		t.Fatal(err)
	}
	defer tr.Close()
	rng := rand.New(rand.NewSource(int64(vlib.EnvInt("VERIF_SEED", 1))))
	runs := vlib.EnvInt("VERIF_N", 200)
	synctest.Test(t, func(t *testing.T) {
		for r := 0; r < runs; r++ {
			e := c41cNew(tr, r, int64(3+rng.Intn(10)))
			nk := 3 + rng.Intn(5)
			n := 8 + rng.Intn(30)
			for i := 0; i < n; i++ {
				k := 1 + rng.Intn(nk)
				_, live := e.dc.entries[c41cKey(k)] // domain bookkeeping only
				x := rng.Intn(12)
				switch {
				case x <= 3 && !live:
					e.apply(c41cStep{A: "add", K: k, Sz: int64(1 + rng.Intn(5)), Dly: []int{0, 0, 2, 5}[rng.Intn(4)], TTL: 1 + rng.Intn(8)}, tr)
				case x <= 3 || x == 4 || x == 5:
					e.apply(c41cStep{A: "get", K: k}, tr)
				case x == 6 && live:
					e.apply(c41cStep{A: "upd", K: k, Sz: int64(1 + rng.Intn(6))}, tr)
				case x == 7:
					e.apply(c41cStep{A: "remove", K: k}, tr)
				case x == 8:
					e.apply(c41cStep{A: "resize", N: int64(rng.Intn(14))}, tr)
				case x == 9:
					e.apply(c41cStep{A: "expire"}, tr)
				default:
					e.apply(c41cStep{A: "advance", D: 1 + rng.Intn(3)}, tr)
				}
			}
		}
	})
	fmt.Printf("VERIF_SUMMARY {\"behaviours\":%d,\"events\":%d}\n", runs, tr.N)
}
