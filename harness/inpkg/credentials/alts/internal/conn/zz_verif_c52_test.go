package conn

// Driver for C52: the real ALTS record protocol (conn.Write / conn.Read with the AES-GCM and
// AES-GCM-rekey record cryptos) over an in-memory pipe that applies the adversary action and the
// network segmentation chosen by the behaviour.  The payload is a running counter (byte at
// stream offset o is o mod 251); reads are recorded as runs <<first value, length>> of
// consecutive counter values.  The driver only drives and records; AltsRecordTrace.tla judges.

import (
	"encoding/binary"
	"encoding/json"
	"fmt"
	"io"
	"net"
	"os"
	"runtime"
	"testing"
	"time"

	core "google.golang.org/grpc/credentials/alts/internal"
	"google.golang.org/grpc/internal/zzverif/vlib"
)

const (
	c52Rekey = "zzverif_c52_rekey"
	c52Gcm   = "zzverif_c52_gcm"
)

func init() {
	RegisterProtocol(c52Rekey, func(s core.Side, k []byte) (ALTSRecordCrypto, error) { return NewAES128GCMRekey(s, k) })
	RegisterProtocol(c52Gcm, func(s core.Side, k []byte) (ALTSRecordCrypto, error) { return NewAES128GCM(s, k) })
}

// c52Out collects what the writing side puts on the wire.
type c52Out struct {
	net.Conn
	wire []byte
}

func (c *c52Out) Write(b []byte) (int, error) { c.wire = append(c.wire, b...); return len(b), nil }
func (c *c52Out) Read([]byte) (int, error)    { return 0, io.EOF }
func (c *c52Out) Close() error                { return nil }

// c52In delivers the (tampered) wire in the scripted segments; a Read never returns more than
// the rest of the current segment; io.EOF at the end.
type c52In struct {
	net.Conn
	wire []byte
	segs []int // segment lengths; the last pattern element repeats
	si   int
	left int // rest of the current segment

	empty int  // consecutive Read calls with an empty slice
	stuck bool // the reader was cut off after c52EmptyMax of them
}

const (
	c52EmptyMax = 10000
	c52Watchdog = 15 * time.Second // real-time bound for one Read / Write call (hangs only)
)

func (c *c52In) Read(b []byte) (int, error) {
	if len(b) == 0 {
		// like a net.Conn: an empty read returns at once.  A reader that keeps asking for zero
		// bytes makes no progress: after c52EmptyMax such calls in a row it is cut off.
		c.empty++
		if c.empty >= c52EmptyMax {
			c.stuck = true
			return 0, io.ErrNoProgress
		}
		return 0, nil
	}
	c.empty = 0
	if len(c.wire) == 0 {
		return 0, io.EOF
	}
	if c.left == 0 {
		c.left = c.segs[c.si]
		if c.si < len(c.segs)-1 {
			c.si++
		}
	}
	n := min(len(b), c.left, len(c.wire))
	copy(b, c.wire[:n])
	c.wire = c.wire[n:]
	c.left -= n
	return n, nil
}
func (c *c52In) Write(b []byte) (int, error) { return len(b), nil }
func (c *c52In) Close() error                { return nil }

func c52Key(proto string) []byte {
	n := 16
	if proto == c52Rekey {
		n = 44
	}
	k := make([]byte, n)
	for i := range k {
		k[i] = byte(7*i + 3)
	}
	return k
}

// c52Records parses the record boundaries of an untampered wire: total length of each record.
func c52Records(w []byte) []int {
	out := []int{}
	for len(w) >= 4 {
		l := int(binary.LittleEndian.Uint32(w)) + 4
		if l > len(w) {
			out = append(out, -1)
			break
		}
		out = append(out, l)
		w = w[l:]
	}
	return out
}

func c52Runs(b []byte) [][2]int {
	out := [][2]int{}
	for i := 0; i < len(b); {
		j := i + 1
		for j < len(b) && int(b[j]) == (int(b[j-1])+1)%251 {
			j++
		}
		out = append(out, [2]int{int(b[i]), j - i})
		i = j
	}
	return out
}

type c52Step struct {
	A   string `json:"a"`   // write | adv | read
	W   string `json:"w"`   // size class: one | lim | lim1 | lim3 | or a number via N
	N   int    `json:"n"`   // explicit size (bytes), when W == ""
	K   int    `json:"k"`   // record index (1-based) of the adversary action
	Kd  string `json:"kind"` // none | flip | drop | swap | trunc
	Cls string `json:"cls"` // len | typelow | typehigh | ct | tag
	B   string `json:"b"`   // read buffer class: tiny | lim | full | or a number via N
}

type c52Scenario struct {
	Frame  int       `json:"frame"`  // negotiated frame size (0: default)
	Proto  string    `json:"proto"`  // rekey | gcm
	Seg    []int     `json:"seg"`    // segmentation pattern (last element repeats)
	Fresh  bool      `json:"fresh"`  // start with an empty read-buffer pool
	Left   int       `json:"left"`   // > 0: seals left before the writer's counter overflows
	Steps  []c52Step `json:"steps"`
	Salt   int       `json:"salt"`   // selects the byte inside a structural field
}

func c52Run(sc c52Scenario, id int, tr *vlib.Trace) {
	if sc.Fresh {
		// empty the package's read-buffer sync.Pool (two GC cycles) so that the read buffer of this
		// scenario is really sized by the code under test
		runtime.GC()
		runtime.GC()
	}
	proto := c52Rekey
	if sc.Proto == "gcm" {
		proto = c52Gcm
	}
	out := &c52Out{}
	wc, err := NewConnWithMaxFrameSize(out, core.ClientSide, proto, c52Key(proto), nil, sc.Frame)
	if err != nil {
		panic(err)
	}
	w := wc.(*conn)
	// the limits of the property, computed from the negotiated frame size (not read from the conn)
	oh := 4 + 4 + 16
	pl := max(4096, sc.Frame) - oh
	reset := map[string]any{"ev": "reset", "b": id, "pl": pl, "oh": oh, "frame": sc.Frame, "proto": sc.Proto, "left": -1}
	if sc.Left > 0 {
		// position the writer's counter sc.Left seals before its overflow
		var ctr *Counter
		switch c := w.crypto.(type) {
		case *aes128gcmRekey:
			ctr = &c.outCounter
		case *aes128gcm:
			ctr = &c.outCounter
		}
		v := ^uint64(0) - uint64(sc.Left-1)
		for i := 0; i < ctr.overflowLen; i++ {
			ctr.value[i] = byte(v >> (8 * uint(i)))
		}
		reset["left"] = sc.Left
	}
	tr.Emit(reset)
	size := func(cls string, n int) int {
		switch cls {
		case "one":
			return 1
		case "lim":
			return pl
		case "lim1":
			return pl + 1
		case "lim3":
			return 3 * pl
		case "tiny":
			return 1
		case "half":
			return pl/2 + 1
		case "short": // 1..8 bytes less than a full record's plaintext
			return pl - 1 - sc.Salt%8
		case "full":
			return pl + oh
		}
		return n
	}
	written := 0
	var rc net.Conn
	in := &c52In{segs: sc.Seg}
	if len(in.segs) == 0 {
		in.segs = []int{1 << 30}
	}
	advDone := false
	startRead := func() {
		if rc != nil {
			return
		}
		if !advDone {
			tr.Emit(map[string]any{"ev": "adv", "kind": "none", "k": 0, "cls": ""})
			advDone = true
		}
		in.wire = out.wire
		c, err := NewConnWithMaxFrameSize(in, core.ServerSide, proto, c52Key(proto), nil, sc.Frame)
		if err != nil {
			panic(err)
		}
		if sc.Left > 0 {
			// the reader expects the sequence numbers the writer used
			var ctr *Counter
			switch cr := c.(*conn).crypto.(type) {
			case *aes128gcmRekey:
				ctr = &cr.inCounter
			case *aes128gcm:
				ctr = &cr.inCounter
			}
			v := ^uint64(0) - uint64(sc.Left-1)
			for i := 0; i < ctr.overflowLen; i++ {
				ctr.value[i] = byte(v >> (8 * uint(i)))
			}
		}
		rc = c
	}
	abandoned := false
	read := func(buf int) bool {
		if abandoned {
			return false
		}
		b := make([]byte, buf)
		ev := map[string]any{"ev": "read", "buf": buf, "panic": ""}
		var n int
		var err error
		done := make(chan struct{})
		go func() {
			defer close(done)
			defer func() {
				if x := recover(); x != nil {
					ev["panic"] = fmt.Sprint(x)
					err = fmt.Errorf("panic")
				}
			}()
			n, err = rc.Read(b)
		}()
		select {
		case <-done:
		case <-time.After(c52Watchdog):
			// Read never returned: the scenario's goroutine is abandoned
			tr.Emit(map[string]any{"ev": "read", "buf": buf, "panic": "", "n": 0, "err": true, "eof": false, "runs": [][2]int{}, "stuck": true})
			abandoned = true
			return false
		}
		ev["stuck"] = in.stuck
		// n is logged raw (a Read may claim more than len(b): the monitor judges that); the bytes
		// recorded are what the caller's buffer really holds
		ev["n"], ev["err"], ev["eof"], ev["runs"] = n, err != nil, err == io.EOF, c52Runs(b[:max(0, min(n, len(b)))])
		tr.Emit(ev)
		return err == nil
	}
	lastBuf := 0
	for _, st := range sc.Steps {
		switch st.A {
		case "write":
			n := size(st.W, st.N)
			data := make([]byte, n)
			for i := range data {
				data[i] = byte((written + i) % 251)
			}
			before := len(out.wire)
			var ret int
			var err error
			pan := ""
			wdone := make(chan struct{})
			go func() {
				defer close(wdone)
				defer func() {
					if x := recover(); x != nil {
						pan = fmt.Sprint(x)
						err = fmt.Errorf("panic")
					}
				}()
				ret, err = w.Write(data)
			}()
			select {
			case <-wdone:
			case <-time.After(c52Watchdog):
				tr.Emit(map[string]any{"ev": "write", "w": n, "ret": 0, "err": true, "panic": "", "stuck": true, "recs": []int{}})
				return // Write never returned: the scenario is abandoned
			}
			if err == nil {
				written += n
			}
			tr.Emit(map[string]any{"ev": "write", "w": n, "ret": ret, "err": err != nil, "panic": pan, "recs": c52Records(out.wire[before:])})
		case "adv":
			recs := c52Records(out.wire)
			offs := make([]int, len(recs)+1)
			for i, l := range recs {
				offs[i+1] = offs[i] + l
			}
			ev := map[string]any{"ev": "adv", "kind": st.Kd, "k": st.K, "cls": st.Cls}
			k := st.K - 1
			wire := append([]byte(nil), out.wire...)
			kind := st.Kd
			if kind != "none" && (k < 0 || k >= len(recs) || recs[k] < 0 || (kind == "swap" && (k+1 >= len(recs) || recs[k+1] < 0))) {
				// the wire does not have the record the behaviour aims at (the record structure
				// differs from the model's: already visible in the write events): no action
				kind = "none"
				ev["kind"], ev["skipped"] = "none", true
			}
			switch kind {
			case "flip":
				lo, hi := offs[k], offs[k+1]
				var p int
				switch st.Cls {
				case "len":
					p = lo + sc.Salt%4
				case "typelow":
					p = lo + 4
				case "typehigh":
					p = lo + 5 + sc.Salt%3
				case "ct":
					p = lo + 8 + sc.Salt%(hi-lo-8-16)
				case "tag":
					p = hi - 16 + sc.Salt%16
				}
				wire[p] ^= byte(1 << uint(sc.Salt%8))
				ev["at"] = p
			case "drop":
				wire = append(wire[:offs[k]:offs[k]], wire[offs[k+1]:]...)
			case "swap":
				a := append([]byte(nil), wire[offs[k]:offs[k+1]]...)
				b := append([]byte(nil), wire[offs[k+1]:offs[k+2]]...)
				copy(wire[offs[k]:], b)
				copy(wire[offs[k]+len(b):], a)
			case "trunc":
				cut := offs[k] + sc.Salt%(offs[k+1]-offs[k])
				wire = wire[:cut]
				ev["at"] = cut
			}
			out.wire = wire
			tr.Emit(ev)
			advDone = true
			startRead()
		case "read":
			startRead()
			lastBuf = size(st.B, st.N)
			read(lastBuf)
		}
	}
	// drain: keep reading whole records until a read fails, then two more reads
	startRead()
	if lastBuf == 0 || lastBuf < pl {
		lastBuf = pl + oh
	}
	for i := 0; i < 4096 && read(lastBuf); i++ {
	}
	read(lastBuf)
	read(1)
}

func TestVerifC52Replay(t *testing.T) {
	lines, err := vlib.ReadLines(os.Getenv("VERIF_BEHAVIOURS"))
	if err != nil {
		t.Fatal(err)
	}
	tr, err := vlib.NewTrace(os.Getenv("VERIF_OUT"))
	if err != nil {
		t.Fatal(err)
	}
	defer tr.Close()
	for i, ln := range lines {
		var sc c52Scenario
		if err := json.Unmarshal(ln, &sc); err != nil {
			t.Fatal(err)
		}
		func() {
			// any panic of the code under test outside the guarded Read / Write calls is an event too
			defer func() {
				if x := recover(); x != nil {
					tr.Emit(map[string]any{"ev": "panic", "what": fmt.Sprint(x)})
				}
			}()
			c52Run(sc, i, tr)
		}()
	}
	fmt.Printf("VERIF_SUMMARY {\"behaviours\":%d,\"events\":%d}\n", len(lines), tr.N)
}

// TestVerifC52Counter: the record counters, exhaustively for overflow lengths 1 and 2: how many
// distinct values Value() hands out before it fails.
func TestVerifC52Counter(t *testing.T) {
	tr, err := vlib.NewTrace(os.Getenv("VERIF_OUT"))
	if err != nil {
		t.Fatal(err)
	}
	defer tr.Close()
	tr.Emit(map[string]any{"ev": "reset", "b": 0, "pl": 1, "oh": 1, "left": -1})
	for _, side := range []core.Side{core.ClientSide, core.ServerSide} {
		for L := 1; L <= 2; L++ {
			for _, c := range []Counter{NewOutCounter(side, L), NewInCounter(side, L)} {
				seen := map[[counterLen]byte]bool{}
				ok, limit := 0, 1<<(8*uint(L))
				for i := 0; i < limit+3; i++ {
					v, err := c.Value()
					if err == nil {
						var a [counterLen]byte
						copy(a[:], v)
						seen[a] = true
						ok++
					}
					c.Inc()
				}
				_, err := c.Value()
				tr.Emit(map[string]any{"ev": "counter", "L": L, "ok": ok, "distinct": len(seen), "errAfter": err != nil})
			}
		}
	}
	fmt.Printf("VERIF_SUMMARY {\"behaviours\":8,\"events\":%d}\n", tr.N)
}
