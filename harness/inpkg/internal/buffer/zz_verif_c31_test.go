package buffer

// Verification drivers for C31 (buffer.Unbounded part; DESIGN.md "C31").  Overlaid into package
// buffer by /verif/lib/vcheck.py; never part of /repo.  The consumer is the documented usage
// `for v := range b.Get() { b.Load(); use(v) }` (it is what CallbackSerializer.run does).

import (
	"encoding/json"
	"fmt"
	"math/rand"
	"sync"
	"testing"
	"time"

	"google.golang.org/grpc/internal/verifhook"
	gate "google.golang.org/grpc/internal/zzverif/c31gate"
)

type c31Behaviour struct {
	Producers []string    `json:"producers"`
	Per       int         `json:"per"`
	Closers   []string    `json:"closers"`
	Steps     []gate.Step `json:"steps"`
}

func c31State(u *Unbounded[int]) map[string]any {
	return map[string]any{"slot": len(u.c), "backlog": len(u.backlog), "closing": u.closing, "closed": u.closed}
}

// c31Guard runs f and logs a panic of the code under test as an event.
func c31Guard(log func(map[string]any), f func()) {
	defer func() {
		if r := recover(); r != nil {
			log(map[string]any{"ev": "panic", "what": fmt.Sprint(r)})
		}
	}()
	f()
}

func c31RunBehaviour(raw []byte) ([]map[string]any, string) {
	var b c31Behaviour
	if err := json.Unmarshal(raw, &b); err != nil {
		return nil, "infeasible: " + err.Error()
	}
	s := gate.New(5 * time.Second)
	u := NewUnbounded[int]()
	var cur sync.Map // goroutine -> value being put
	verifhook.Set(func(p string, o any) {
		if o != any(u) {
			return
		}
		s.Hook(p)
		if p == "unb.put" {
			// the put "starts" when the producer is released towards the lock
			if v, ok := cur.Load(gate.Goid()); ok {
				s.Log(map[string]any{"ev": "put_call", "v": v})
			}
		}
	})
	defer verifhook.Set(nil)

	for i, p := range b.Producers {
		i := i
		s.Spawn(p, func() {
			c31Guard(s.Log, func() {
				id := gate.Goid()
				for n := 1; n <= b.Per; n++ {
					v := 10*(i+1) + n
					cur.Store(id, v)
					err := u.Put(v)
					s.Log(map[string]any{"ev": "put_ret", "v": v, "ok": err == nil})
				}
			})
		})
		if _, err := s.Await(p); err != nil {
			return s.Events(), "infeasible: start: " + err.Error()
		}
	}
	for _, c := range b.Closers {
		s.Spawn(c, func() {
			c31Guard(s.Log, func() {
				s.Hook("cancel")
				s.Log(map[string]any{"ev": "close_call"})
				u.Close()
				s.Log(map[string]any{"ev": "close_ret"})
			})
		})
		if _, err := s.Await(c); err != nil {
			return s.Events(), "infeasible: start: " + err.Error()
		}
	}
	s.Spawn("run", func() {
		c31Guard(s.Log, func() {
			s.Hook("ser.recv")
			for v := range u.Get() {
				u.Load()
				s.Hook("ser.run")
				s.Log(map[string]any{"ev": "run_begin", "v": v})
				s.Log(map[string]any{"ev": "run_end", "v": v})
				s.Hook("ser.recv")
			}
			s.Hook("ser.exit")
			s.Log(map[string]any{"ev": "done"})
		})
	})
	if _, err := s.Await("run"); err != nil {
		return s.Events(), "infeasible: start: " + err.Error()
	}

	outcome := gate.RunSteps(s, b.Steps, nil, nil, func() map[string]any { return c31State(u) })
	// free run to the end: every closer closes, the consumer drains to end-of-stream
	if !s.Join(30 * time.Second) {
		s.Log(map[string]any{"ev": "stuck"})
		return s.Events(), outcome + "+stuck-in-free-run"
	}
	s.Log(map[string]any{"ev": "quiescent"})
	return s.Events(), outcome
}

// TestVerifC31BufReplay forces every behaviour of VERIF_BEHAVIOURS onto a real Unbounded.
func TestVerifC31BufReplay(t *testing.T) { gate.Replay(t, c31RunBehaviour) }

// TestVerifC31BufStress: free-running producers, closers and one consumer with seeded jitter
// at the hook points; only the recorded trace is judged.
func TestVerifC31BufStress(t *testing.T) {
	gate.Stress(t, func(_ int, rng *rand.Rand, j *gate.Jitter, lg *gate.Log) {
		u := NewUnbounded[int]()
		var cur sync.Map
		verifhook.Set(func(p string, o any) {
			if o != any(u) {
				return
			}
			j.Perturb()
			if p == "unb.put" {
				if v, ok := cur.Load(gate.Goid()); ok {
					lg.Add(map[string]any{"ev": "put_call", "v": v})
				}
			}
		})
		defer verifhook.Set(nil)
		var wg sync.WaitGroup
		np := 1 + rng.Intn(4)
		for i := 0; i < np; i++ {
			i, per, gap := i, 1+rng.Intn(8), rng.Intn(40)
			wg.Add(1)
			go func() {
				defer wg.Done()
				c31Guard(lg.Add, func() {
					id := gate.Goid()
					for n := 1; n <= per; n++ {
						v := 100*(i+1) + n
						cur.Store(id, v)
						err := u.Put(v)
						lg.Add(map[string]any{"ev": "put_ret", "v": v, "ok": err == nil})
						if gap%4 == 0 {
							time.Sleep(time.Duration(gap) * time.Microsecond)
						}
					}
				})
			}()
		}
		nc := 1 + rng.Intn(2)
		for i := 0; i < nc; i++ {
			delay := rng.Intn(250)
			wg.Add(1)
			go func() {
				defer wg.Done()
				c31Guard(lg.Add, func() {
					time.Sleep(time.Duration(delay) * time.Microsecond)
					lg.Add(map[string]any{"ev": "close_call"})
					u.Close()
					lg.Add(map[string]any{"ev": "close_ret"})
				})
			}()
		}
		done := make(chan struct{})
		go func() {
			defer close(done)
			c31Guard(lg.Add, func() {
				for v := range u.Get() {
					u.Load()
					lg.Add(map[string]any{"ev": "run_begin", "v": v})
					lg.Add(map[string]any{"ev": "run_end", "v": v})
				}
				lg.Add(map[string]any{"ev": "done"})
			})
		}()
		wg.Wait()
		if !gate.WaitTimeout(done, 30*time.Second) {
			lg.Add(map[string]any{"ev": "stuck"})
		}
	})
}
