package backoff

// Driver for C20 (backoff function): for each configuration and retry count, samples Exponential.Backoff K times
// and records the smallest and the largest result (math/rand/v2's global source has no seam, so the jitter draw is
// sampled, not enumerated).  TLC validates the records against specs/Backoff.tla.  Never judges.

import (
	"fmt"
	"math"
	"math/rand"
	"os"
	"strconv"
	"testing"
	"time"

	grpcbackoff "google.golang.org/grpc/backoff"
	"google.golang.org/grpc/internal/zzverif/vlib"
)

type c20Frac struct{ p, q int }

func (f c20Frac) val() float64 { return float64(f.p) / float64(f.q) }

func c20Digits(v int64) (bool, []int) {
	neg := v < 0
	var s string
	if neg {
		s = strconv.FormatUint(uint64(-(v+1))+1, 10)
	} else {
		s = strconv.FormatInt(v, 10)
	}
	out := make([]int, len(s))
	for i := range s {
		out[i] = int(s[i] - '0')
	}
	return neg, out
}

func TestVerifC20Backoff(t *testing.T) {
	tr, err := vlib.NewTrace(os.Getenv("VERIF_OUT"))
	if err != nil {
		t.Fatal(err)
	}
	defer tr.Close()
	seed := int64(vlib.EnvInt("VERIF_SEED", 1))
	n := vlib.EnvInt("VERIF_N", 250)
	k := vlib.EnvInt("VERIF_K", 1000)
	r := rand.New(rand.NewSource(seed))

	emit := func(base, max int64, m, j c20Frac, retries int) {
		defer func() {
			if p := recover(); p != nil {
				tr.Emit(map[string]any{"ev": "panic", "what": "bo", "r": fmt.Sprint(p)})
			}
		}()
		e := Exponential{Config: grpcbackoff.Config{BaseDelay: time.Duration(base), Multiplier: m.val(), Jitter: j.val(), MaxDelay: time.Duration(max)}}
		lo, hi := int64(math.MaxInt64), int64(math.MinInt64)
		for i := 0; i < k; i++ {
			d := int64(e.Backoff(retries))
			if d < lo {
				lo = d
			}
			if d > hi {
				hi = d
			}
		}
		_, bd := c20Digits(base)
		_, md := c20Digits(max)
		ln, ld := c20Digits(lo)
		hn, hd := c20Digits(hi)
		tr.Emit(map[string]any{"ev": "bo", "c": map[string]any{"base": bd, "max": md, "mp": m.p, "mq": m.q, "jp": j.p, "jq": j.q},
			"n": retries, "k": k, "minneg": ln, "min": ld, "maxneg": hn, "max": hd})
	}
	sec := int64(time.Second)
	bases := []int64{0, 1, int64(time.Millisecond), sec, 1 << 62}
	maxes := []int64{1, 120 * sec, 3600 * sec, 1 << 62, math.MaxInt64 - 1, math.MaxInt64}
	mults := []c20Frac{{1, 1}, {3, 2}, {2, 1}, {8, 5}, {1, 2}, {5, 4}}
	jits := []c20Frac{{0, 1}, {1, 5}, {1, 4}, {1, 2}, {1, 1}, {3, 2}}
	ns := []int{0, 1, 2, 3, 8, 20}
	if os.Getenv("VERIF_TIER") == "thorough" {
		ns = []int{0, 1, 2, 3, 5, 8, 16, 40, 64}
	}
	// the documented default, every retry count up to the cap and beyond
	for i := 0; i <= 20; i++ {
		emit(sec, 120*sec, c20Frac{8, 5}, c20Frac{1, 5}, i)
	}
	for _, i := range []int{64, 200} {
		emit(sec, 120*sec, c20Frac{8, 5}, c20Frac{1, 5}, i)
	}
	for _, max := range maxes {
		for _, j := range []c20Frac{{0, 1}, {1, 5}, {1, 1}} {
			for _, m := range []c20Frac{{3, 2}, {8, 5}} {
				for _, i := range ns {
					emit(sec, max, m, j, i)
				}
			}
			emit(sec, max, c20Frac{2, 1}, j, 200)
			emit(1<<62, max, c20Frac{1, 1}, j, 1)
		}
	}
	for i := 0; i < n; i++ {
		m := mults[r.Intn(len(mults))]
		retries := ns[r.Intn(len(ns))]
		if r.Intn(10) == 0 && m.q == 1 {
			retries = 200
		}
		emit(bases[r.Intn(len(bases))], maxes[r.Intn(len(maxes))], m, jits[r.Intn(len(jits))], retries)
	}
	fmt.Printf("VERIF_SUMMARY {\"pairs\":%d}\n", tr.N)
}
