package server

// Driver for C49: builds real Listener protos from the abstract configurations exported by TLC
// (specs/FilterChainMC.tla), runs them through the xdsresource listener decoder (validation) and
// newFilterChainManager, and records the outcome of filterChainManager.lookup for every abstract
// connection.  It never judges: TLC validates the trace against specs/FilterChain.tla.

import (
	"encoding/json"
	"fmt"
	"net"
	"net/netip"
	"os"
	"strings"
	"testing"

	v3corepb "github.com/envoyproxy/go-control-plane/envoy/config/core/v3"
	v3listenerpb "github.com/envoyproxy/go-control-plane/envoy/config/listener/v3"
	v3httppb "github.com/envoyproxy/go-control-plane/envoy/extensions/filters/network/http_connection_manager/v3"
	"google.golang.org/grpc/internal/testutils/xds/e2e"
	"google.golang.org/grpc/internal/xds/bootstrap"
	"google.golang.org/grpc/internal/xds/clients/xdsclient"
	"google.golang.org/grpc/internal/xds/xdsclient/xdsresource"
	"google.golang.org/grpc/internal/zzverif/vlib"
	"google.golang.org/protobuf/types/known/anypb"
	"google.golang.org/protobuf/types/known/wrapperspb"
)

type c49Match struct {
	Dst   [][3]int `json:"dst"`
	St    string   `json:"st"`
	Src   [][3]int `json:"src"`
	Ports []uint32 `json:"ports"`
}

type c49Cfg struct {
	Chains []c49Match `json:"chains"`
	Def    bool       `json:"def"`
	Wild   bool       `json:"wild"`
}

type c49Lookup struct {
	F    int `json:"f"`
	Dst  int `json:"dst"`
	Src  int `json:"src"`
	Port int `json:"port"`
}

type c49Input struct {
	Kind string          `json:"kind"`
	Lks  json.RawMessage `json:"lks"`
	Cfg  json.RawMessage `json:"cfg"`
	Li   []int           `json:"li"`
}

const c49LO = 16

func c49IP(f, a int) net.IP {
	switch {
	case a == c49LO && f == 4:
		return net.ParseIP("127.0.0.1") // 16-byte form: exercises Unmap()
	case a == c49LO:
		return net.ParseIP("::1")
	case f == 4:
		return net.ParseIP(fmt.Sprintf("10.0.0.%d", a))
	}
	return net.ParseIP(fmt.Sprintf("fd00::%x", a))
}

func c49Cidr(p [3]int) *v3corepb.CidrRange {
	f, a, l := p[0], p[1], p[2]
	switch {
	case l == 0 && f == 4:
		return &v3corepb.CidrRange{AddressPrefix: "0.0.0.0", PrefixLen: wrapperspb.UInt32(0)}
	case l == 0:
		return &v3corepb.CidrRange{AddressPrefix: "::", PrefixLen: wrapperspb.UInt32(0)}
	case f == 4:
		return &v3corepb.CidrRange{AddressPrefix: fmt.Sprintf("10.0.0.%d", a), PrefixLen: wrapperspb.UInt32(uint32(28 + l))}
	}
	return &v3corepb.CidrRange{AddressPrefix: fmt.Sprintf("fd00::%x", a), PrefixLen: wrapperspb.UInt32(uint32(124 + l))}
}

func c49Filters(route string) []*v3listenerpb.Filter {
	hcm, err := anypb.New(&v3httppb.HttpConnectionManager{
		RouteSpecifier: &v3httppb.HttpConnectionManager_Rds{Rds: &v3httppb.Rds{
			ConfigSource:    &v3corepb.ConfigSource{ConfigSourceSpecifier: &v3corepb.ConfigSource_Ads{Ads: &v3corepb.AggregatedConfigSource{}}},
			RouteConfigName: route,
		}},
		HttpFilters: []*v3httppb.HttpFilter{e2e.RouterHTTPFilter},
	})
	if err != nil {
		panic(err)
	}
	return []*v3listenerpb.Filter{{Name: "hcm", ConfigType: &v3listenerpb.Filter_TypedConfig{TypedConfig: hcm}}}
}

// c49Addr is the address the listener is bound to: the wildcard address, or the abstract address 4.
func c49Addr(cfg c49Cfg) string {
	if cfg.Wild {
		return "0.0.0.0"
	}
	return "10.0.0.4"
}

func c49Listener(cfg c49Cfg) *v3listenerpb.Listener {
	lis := &v3listenerpb.Listener{
		Name: "grpc/server?xds.resource.listening_address=" + c49Addr(cfg) + ":80",
		Address: &v3corepb.Address{Address: &v3corepb.Address_SocketAddress{SocketAddress: &v3corepb.SocketAddress{
			Address: c49Addr(cfg), PortSpecifier: &v3corepb.SocketAddress_PortValue{PortValue: 80}}}},
	}
	for i, m := range cfg.Chains {
		fm := &v3listenerpb.FilterChainMatch{}
		for _, p := range m.Dst {
			fm.PrefixRanges = append(fm.PrefixRanges, c49Cidr(p))
		}
		for _, p := range m.Src {
			fm.SourcePrefixRanges = append(fm.SourcePrefixRanges, c49Cidr(p))
		}
		switch m.St {
		case "same":
			fm.SourceType = v3listenerpb.FilterChainMatch_SAME_IP_OR_LOOPBACK
		case "ext":
			fm.SourceType = v3listenerpb.FilterChainMatch_EXTERNAL
		}
		fm.SourcePorts = m.Ports
		lis.FilterChains = append(lis.FilterChains, &v3listenerpb.FilterChain{
			Name: fmt.Sprintf("fc%d", i+1), FilterChainMatch: fm, Filters: c49Filters(fmt.Sprintf("rc%d", i+1))})
	}
	if cfg.Def {
		lis.DefaultFilterChain = &v3listenerpb.FilterChain{Name: "default", Filters: c49Filters("rc0")}
	}
	return lis
}

func TestVerifC49(t *testing.T) {
	tr, err := vlib.NewTrace(os.Getenv("VERIF_OUT"))
	if err != nil {
		t.Fatal(err)
	}
	defer tr.Close()
	lines, err := vlib.ReadLines(os.Getenv("VERIF_BEHAVIOURS"))
	if err != nil {
		t.Fatal(err)
	}
	bc, err := bootstrap.NewConfigFromContents([]byte(`{
		"xds_servers": [{"server_uri": "ipv4:///127.0.0.1:443", "channel_creds": [{"type": "insecure"}]}],
		"node": {"id": "verif"}
	}`))
	if err != nil {
		t.Fatalf("bootstrap: %v", err)
	}
	decoder := xdsresource.NewListenerResourceTypeDecoder(bc, nil)
	var lks []c49Lookup
	nLook, nAcc := 0, 0
	for n, ln := range lines {
		var in c49Input
		if err := json.Unmarshal(ln, &in); err != nil {
			t.Fatalf("line %d: %v", n+1, err)
		}
		switch in.Kind {
		case "lks":
			lks = nil
			if err := json.Unmarshal(in.Lks, &lks); err != nil {
				t.Fatalf("line %d: %v", n+1, err)
			}
			tr.Emit(map[string]any{"ev": "lks", "lks": in.Lks})
		case "cfg":
			func() {
				defer func() {
					if r := recover(); r != nil {
						tr.Emit(map[string]any{"ev": "panic", "r": fmt.Sprint(r), "line": n + 1})
					}
				}()
				var cfg c49Cfg
				if err := json.Unmarshal(in.Cfg, &cfg); err != nil {
					t.Fatalf("line %d: %v", n+1, err)
				}
				lAny, err := anypb.New(c49Listener(cfg))
				if err != nil {
					t.Fatal(err)
				}
				res, err := decoder.Decode(xdsclient.NewAnyProto(lAny), xdsclient.DecodeOptions{})
				ev := map[string]any{"ev": "cfg", "cfg": in.Cfg, "ok": err == nil, "li": in.Li, "res": []int{}}
				if err != nil {
					ev["err"] = err.Error()
					tr.Emit(ev)
					return
				}
				upd := res.Resource.(*xdsresource.ListenerResourceData).Resource
				if upd.TCPListener == nil {
					ev["ok"] = false
					ev["err"] = "not a TCP listener"
					tr.Emit(ev)
					return
				}
				nAcc++
				fcm := newFilterChainManager(&upd.TCPListener.FilterChains, &upd.TCPListener.DefaultFilterChain)
				// as newListenerWrapper does with the address of the net.Listener (here: the address of the resource)
				unspecified := (&net.TCPAddr{IP: net.ParseIP(upd.TCPListener.Address)}).IP.IsUnspecified()
				out := make([]int, 0, len(in.Li))
				for _, i := range in.Li {
					lk := lks[i]
					// as listenerWrapper.Accept does with the net.Conn's addresses
					dst, _ := netip.AddrFromSlice(c49IP(lk.F, lk.Dst))
					src, _ := netip.AddrFromSlice(c49IP(lk.F, lk.Src))
					fc, err := fcm.lookup(lookupParams{isUnspecifiedListener: unspecified, dstAddr: dst.Unmap(), srcAddr: src.Unmap(), srcPort: lk.Port})
					nLook++
					switch {
					case err != nil && strings.Contains(err.Error(), "multiple matching"):
						out = append(out, -2)
					case err != nil:
						out = append(out, -1)
					default:
						idx := -3
						fmt.Sscanf(fc.routeConfigName, "rc%d", &idx)
						out = append(out, idx)
					}
				}
				ev["res"] = out
				tr.Emit(ev)
			}()
		default:
			t.Fatalf("line %d: unknown kind %q", n+1, in.Kind)
		}
	}
	fmt.Printf("VERIF_SUMMARY {\"inputs\":%d,\"accepted\":%d,\"lookups\":%d}\n", len(lines), nAcc, nLook)
}
