package matcher_test

// Driver for C47: records (matcher configuration, input, result) triples of the real string and
// header matchers; TLC validates them against specs/Matchers.tla (MatchersTrace).  Never judges.

import (
	"fmt"
	"math/rand"
	"os"
	"testing"

	"google.golang.org/grpc/internal/zzverif/vlib"
	"google.golang.org/grpc/internal/zzverif/vlib/xdsmt"
)

func TestVerifC47Matchers(t *testing.T) {
	tr, err := vlib.NewTrace(os.Getenv("VERIF_OUT"))
	if err != nil {
		t.Fatal(err)
	}
	defer tr.Close()
	seed := int64(vlib.EnvInt("VERIF_SEED", 1))
	n := vlib.EnvInt("VERIF_N", 1500)
	inLen := vlib.EnvInt("VERIF_INLEN", 2)
	r := rand.New(rand.NewSource(seed))

	str := func(sm xdsmt.SM, in string, viaProto bool) {
		xdsmt.Safe(tr, "str", func() {
			m := sm.Build(viaProto)
			tr.Emit(map[string]any{"ev": "str", "sm": sm.JSON(), "in": vlib.Bytes(in), "res": m.Match(in)})
		})
	}
	kinds := []string{"exact", "prefix", "suffix", "contains"}
	sym := []string{"a", "A", "k", xdsmt.Kelvin, xdsmt.LongS}
	thorough := os.Getenv("VERIF_TIER") == "thorough"
	if thorough {
		sym = xdsmt.Small
	}
	pats2, pats1 := xdsmt.Strs(sym, 2), xdsmt.Strs(sym, 1)
	ins := xdsmt.Strs(sym, inLen)
	k := 0
	for _, kind := range kinds {
		for _, ic := range []bool{true, false} {
			pats := pats2
			if !ic {
				pats = pats1
			}
			for _, p := range pats {
				for _, in := range ins {
					k++
					str(xdsmt.SM{Kind: kind, Pat: p, IC: ic}, in, k%2 == 0)
				}
			}
		}
	}
	for rx := 1; rx <= 3; rx++ {
		for _, in := range append(xdsmt.Strs(xdsmt.Big, 2), "aaa", "a1a", "ka", "kA", "kAA", "kkA", "1\n1", "\n1", "a\n") {
			for _, ic := range []bool{true, false} {
				str(xdsmt.SM{Kind: "regex", Rx: rx, IC: ic}, in, !ic)
			}
		}
	}
	for i := 0; i < n; i++ {
		sm := xdsmt.SM{Kind: kinds[r.Intn(4)], Pat: xdsmt.RandStr(r, xdsmt.Big, 1+r.Intn(3)), IC: r.Intn(4) != 0}
		str(sm, xdsmt.RandStr(r, xdsmt.Big, r.Intn(6)), r.Intn(2) == 0)
		// an input built around the pattern, with ASCII case flipped at random
		b := []byte(sm.Pat)
		for j := range b {
			if r.Intn(2) == 0 && (b[j] >= 'a' && b[j] <= 'z' || b[j] >= 'A' && b[j] <= 'Z') {
				b[j] ^= 0x20
			}
		}
		str(sm, xdsmt.RandStr(r, xdsmt.Big, r.Intn(2))+string(b)+xdsmt.RandStr(r, xdsmt.Big, r.Intn(2)), r.Intn(2) == 0)
	}

	// ---- header matchers ----
	hdr := func(hm xdsmt.HM, md []xdsmt.MDE) {
		xdsmt.Safe(tr, "hdr", func() {
			m := hm.Build()
			tr.Emit(map[string]any{"ev": "hdr", "hm": hm.JSON(), "md": xdsmt.MDJSON(md), "res": m.Match(xdsmt.MD(md))})
		})
	}
	hsym := []string{"", "a", "A", "1", xdsmt.Kelvin}
	var vals [][]string
	for i, a := range hsym {
		vals = append(vals, []string{a})
		for _, b := range hsym {
			if thorough || i%2 == 0 {
				vals = append(vals, []string{a, b})
			}
		}
	}
	vals = append(vals, []string{"a", "", "a"}, []string{"1", "1", "1"}, []string{"a,a"}, []string{"aa", "1"})
	mds := [][]xdsmt.MDE{{{K: "other", Vs: []string{"a"}}}, {}}
	for _, vs := range vals {
		mds = append(mds, []xdsmt.MDE{{K: "other", Vs: []string{"zz"}}, {K: "h", Vs: vs}})
	}
	hpats := []string{"", "a", "1", ",", "a,1", "k"}
	if thorough {
		hpats = []string{"", "a", "A", "1", ",", "a,", ",a", "a,a", "a,1", xdsmt.Kelvin, "k"}
	}
	for _, inv := range []bool{false, true} {
		for _, md := range mds {
			for _, kind := range kinds {
				for _, p := range hpats {
					hdr(xdsmt.HM{Kind: kind, Key: "h", Inv: inv, Pat: p}, md)
					for _, ic := range []bool{true, false} {
						if ic || thorough || p == "a" {
							hdr(xdsmt.HM{Kind: "string", Key: "h", Inv: inv, SM: xdsmt.SM{Kind: kind, Pat: p, IC: ic}}, md)
						}
					}
				}
			}
			for rx := 1; rx <= 3; rx++ {
				hdr(xdsmt.HM{Kind: "regex", Key: "h", Inv: inv, Rx: rx}, md)
				hdr(xdsmt.HM{Kind: "string", Key: "h", Inv: inv, SM: xdsmt.SM{Kind: "regex", Rx: rx}}, md)
			}
			for _, want := range []bool{false, true} {
				hdr(xdsmt.HM{Kind: "present", Key: "h", Inv: inv, Want: want}, md)
			}
			hdr(xdsmt.HM{Kind: "range", Key: "h", Inv: inv, Lo: 0, Hi: 2}, md)
		}
	}
	// range: integers, boundaries, non-integers, multi-valued headers
	nums := []string{"", "0", "1", "9", "10", "11", "-1", "-10", "-11", "-0", "00", "007", "010", "+1", "+10", " 1", "1 ", "1,", "1.0",
		"0x1", "1_0", "1e1", "a", "-", "+", "--1", "١", "99", "100", "-100",
		"9223372036854775807", "9223372036854775808", "-9223372036854775808", "-9223372036854775809",
		"99999999999999999999", "00000000000000000005", "-00000000000000000010"}
	bounds := [][2]int64{{0, 10}, {1, 10}, {-10, 0}, {-10, -1}, {10, 100}, {0, 0}, {5, 5}, {10, 0}, {-1, 1}, {9, 10}, {-100, 100}, {0, 1}}
	for _, inv := range []bool{false, true} {
		for _, b := range bounds {
			for _, v := range nums {
				hdr(xdsmt.HM{Kind: "range", Key: "h", Inv: inv, Lo: b[0], Hi: b[1]}, []xdsmt.MDE{{K: "h", Vs: []string{v}}})
			}
			hdr(xdsmt.HM{Kind: "range", Key: "h", Inv: inv, Lo: b[0], Hi: b[1]}, []xdsmt.MDE{{K: "h", Vs: []string{"1", "2"}}})
			hdr(xdsmt.HM{Kind: "range", Key: "h", Inv: inv, Lo: b[0], Hi: b[1]}, []xdsmt.MDE{{K: "g", Vs: []string{"1"}}})
		}
	}
	for i := 0; i < n/2; i++ {
		lo := int64(r.Intn(41) - 20)
		hi := lo + int64(r.Intn(12)) - 1
		v := fmt.Sprint(int64(r.Intn(61) - 30))
		if r.Intn(8) == 0 {
			v = "0" + v
		}
		hdr(xdsmt.HM{Kind: "range", Key: "h", Inv: r.Intn(2) == 0, Lo: lo, Hi: hi}, []xdsmt.MDE{{K: "h", Vs: []string{v}}})
	}
	fmt.Printf("VERIF_SUMMARY {\"pairs\":%d}\n", tr.N)
}
