package clusterimpl

// Driver for C38 (category drops and circuit breaking in the cluster_impl picker).  The random source
// of the real internal/wrr randomWRR (reached through go:linkname, no change to /repo) is replaced by
// an enumerator that visits every value of the requested range.  Outputs are recorded; TLC judges them
// against specs/WrrExact.tla.

import (
	"context"
	"errors"
	"fmt"
	"math/rand"
	"os"
	"reflect"
	"testing"
	_ "unsafe"

	"google.golang.org/grpc/balancer"
	"google.golang.org/grpc/codes"
	"google.golang.org/grpc/connectivity"
	"google.golang.org/grpc/internal/balancer/stub"
	internalserviceconfig "google.golang.org/grpc/internal/serviceconfig"
	"google.golang.org/grpc/internal/wrr"
	"google.golang.org/grpc/internal/xds/clients"
	"google.golang.org/grpc/internal/xds/testutils/fakeclient"
	"google.golang.org/grpc/internal/xds/xdsclient"
	"google.golang.org/grpc/internal/xds/xdsclient/xdsresource"
	"google.golang.org/grpc/internal/zzverif/vlib"
	"google.golang.org/grpc/internal/zzverif/vlib/lbtest"
	"google.golang.org/grpc/resolver"
	"google.golang.org/grpc/status"
)

//go:linkname c38RandInt64n google.golang.org/grpc/internal/wrr.randInt64n
var c38RandInt64n func(int64) int64

type c38Load struct{ dropped []string }

func (l *c38Load) CallStarted(clients.Locality)                     {}
func (l *c38Load) CallFinished(clients.Locality, error)             {}
func (l *c38Load) CallServerLoad(clients.Locality, string, float64) {}
func (l *c38Load) CallDropped(c string)                             { l.dropped = append(l.dropped, c) }

type c38Child struct {
	calls int
	fail  bool
}

func (c *c38Child) Pick(balancer.PickInfo) (balancer.PickResult, error) {
	c.calls++
	if c.fail {
		return balancer.PickResult{}, errors.New("c38: child pick failed")
	}
	return balancer.PickResult{}, nil
}

func c38Safe(tr *vlib.Trace, what string, f func()) {
	defer func() {
		if r := recover(); r != nil {
			tr.Emit(map[string]any{"ev": "panic", "what": what, "r": fmt.Sprint(r)})
		}
	}()
	f()
}

func c38Clamp(num, den uint32) int {
	if num > den {
		return int(den) + 1
	}
	return int(num)
}

// one drop configuration under one child state: every value of the random source
func c38Drops(tr *vlib.Trace, num, den uint32, st connectivity.State, perDrawMax int64) {
	c38Safe(tr, "drop", func() {
		child := &c38Child{}
		ls := &c38Load{}
		p := &picker{
			drops:     []*dropper{newDropper(DropConfig{Category: "cat", RequestsPerMillion: dropRequestsPerMillion(num, den)})},
			s:         balancer.State{ConnectivityState: st, Picker: child},
			loadStore: ls,
		}
		var asked, cur int64
		c38RandInt64n = func(k int64) int64 { asked = k; return cur }
		one := func() bool {
			before := child.calls
			_, err := p.Pick(balancer.PickInfo{Ctx: context.Background()})
			return err != nil && child.calls == before && status.Code(err) == codes.Unavailable
		}
		head := map[string]any{"ev": "dropbegin", "num": c38Clamp(num, den), "den": int(den), "st": st.String(), "numraw": fmt.Sprint(num)}
		d0 := one()
		if asked > 4000000 {
			// no legal configuration needs a range above 10^6: not enumerated, the monitor looks at the range only
			tr.Emit(map[string]any{"ev": "droprange", "num": c38Clamp(num, den), "den": int(den), "nlo": asked % 1000000, "nhi": asked / 1000000, "numraw": fmt.Sprint(num)})
			return
		}
		if asked > perDrawMax {
			// large range: the histogram is counted here, asserted by the monitor
			count := int64(0)
			if d0 {
				count++
			}
			for cur = 1; cur < asked; cur++ {
				if one() {
					count++
				}
			}
			tr.Emit(map[string]any{"ev": "dropsum", "num": c38Clamp(num, den), "den": int(den), "n": asked, "count": count, "numraw": fmt.Sprint(num)})
			return
		}
		tr.Emit(head)
		tr.Emit(map[string]any{"ev": "drop", "n": asked, "r": 0, "dropped": d0})
		limit := asked
		if asked == 0 {
			limit = 4 // random source not consulted: a few more picks
		}
		for cur = 1; cur < limit; cur++ {
			tr.Emit(map[string]any{"ev": "drop", "n": asked, "r": cur, "dropped": one()})
		}
		tr.Emit(map[string]any{"ev": "dropend", "reported": len(ls.dropped)})
	})
}

var c38Seq int

func c38Counter(p *picker) int {
	v := reflect.ValueOf(p.counter).Elem().FieldByName("numRequests").Uint()
	if v > 1<<30 {
		v = 1 << 30
	}
	return int(v)
}

// picks (0: child succeeds, 1: child fails) and completions (2: oldest, 3: newest) on one picker; at the end every
// open RPC is finished and one more pick probes that RPCs are admitted again
func c38Ops(tr *vlib.Trace, p *picker, child *c38Child, ops []int) {
	var open []func(balancer.DoneInfo)
	done := func(i int) {
		f := open[i]
		open = append(open[:i], open[i+1:]...)
		f(balancer.DoneInfo{})
		tr.Emit(map[string]any{"ev": "cbdone", "cnt": c38Counter(p)})
	}
	for _, op := range ops {
		switch op {
		case 0, 1: // pick (child succeeds / child fails)
			child.fail = op == 1
			before := child.calls
			pr, err := p.Pick(balancer.PickInfo{Ctx: context.Background()})
			res := "ok"
			if err != nil {
				res = "cb"
				if child.calls != before {
					res = "childerr"
				}
			} else if pr.Done != nil {
				open = append(open, pr.Done)
			} else {
				open = append(open, func(balancer.DoneInfo) {})
			}
			tr.Emit(map[string]any{"ev": "cbpick", "res": res, "cnt": c38Counter(p)})
		case 2: // oldest RPC finishes
			if len(open) > 0 {
				done(0)
			}
		case 3: // newest RPC finishes
			if len(open) > 0 {
				done(len(open) - 1)
			}
		}
	}
	for len(open) > 0 {
		done(0)
	}
	// after everything finished a new RPC must be admitted again (max > 0)
	child.fail = false
	pr, err := p.Pick(balancer.PickInfo{Ctx: context.Background()})
	res := "ok"
	if err != nil {
		res = "cb"
	}
	tr.Emit(map[string]any{"ev": "cbpick", "res": res, "cnt": c38Counter(p)})
	if err == nil && pr.Done != nil {
		pr.Done(balancer.DoneInfo{})
		tr.Emit(map[string]any{"ev": "cbdone", "cnt": c38Counter(p)})
	}
}

// one sequence of picks / completions against a fresh request counter
func c38Breaker(tr *vlib.Trace, max uint32, ops []int) {
	c38Safe(tr, "cb", func() {
		c38Seq++
		child := &c38Child{}
		p := &picker{
			s:         balancer.State{ConnectivityState: connectivity.Ready, Picker: child},
			loadStore: &c38Load{},
			counter:   xdsclient.GetClusterRequestsCounter(fmt.Sprintf("c38-cluster-%d", c38Seq), ""),
			countMax:  max,
		}
		tr.Emit(map[string]any{"ev": "cbbegin", "max": int(max)})
		c38Ops(tr, p, child, ops)
		tr.Reset()
	})
}

// circuit breaking configured through the real cluster_impl balancer: a sequence of cluster configurations
// with max_requests values (-1 = not set) is pushed through UpdateClientConnState; after every configuration
// the picker the balancer published is driven with picks / completions (all RPCs are finished before the next
// configuration, so the in-flight count is 0 at every "cbbegin").
func c38ConfigPath(tr *vlib.Trace, r *rand.Rand, maxes []int) {
	c38Safe(tr, "cbcfg", func() {
		c38Seq++
		cluster := fmt.Sprintf("c38-cfg-cluster-%d", c38Seq)
		child := &c38Child{}
		childName := fmt.Sprintf("c38-stub-child-%d", c38Seq)
		stub.Register(childName, stub.BalancerFuncs{
			UpdateClientConnState: func(bd *stub.BalancerData, _ balancer.ClientConnState) error {
				bd.ClientConn.UpdateState(balancer.State{ConnectivityState: connectivity.Ready, Picker: child})
				return nil
			},
		})
		cc := lbtest.NewRecCC()
		b := balancer.Get(Name).Build(cc, balancer.BuildOptions{})
		defer b.Close()
		xdsC := fakeclient.NewClient()
		eps := []resolver.Endpoint{{Addresses: []resolver.Address{{Addr: "10.9.8.7:1"}}}}
		for _, mx := range maxes {
			cu := &xdsresource.ClusterUpdate{ClusterName: cluster, ClusterType: xdsresource.ClusterTypeEDS, EDSServiceName: "c38-eds"}
			eff := 1024 // the documented default when max_requests is not set
			if mx >= 0 {
				v := uint32(mx)
				cu.MaxRequests = &v
				eff = mx
			}
			state := xdsclient.SetClient(resolver.State{Endpoints: eps}, xdsC)
			state = xdsresource.SetXDSConfig(state, &xdsresource.XDSConfig{Clusters: map[string]*xdsresource.ClusterResult{
				cluster: {Config: xdsresource.ClusterConfig{Cluster: cu, EndpointConfig: &xdsresource.EndpointConfig{EDSUpdate: &xdsresource.EndpointsUpdate{}}}},
			}})
			if err := b.UpdateClientConnState(balancer.ClientConnState{ResolverState: state,
				BalancerConfig: &LBConfig{Cluster: cluster, ChildPolicy: &internalserviceconfig.BalancerConfig{Name: childName}}}); err != nil {
				panic(fmt.Sprintf("UpdateClientConnState: %v", err))
			}
			var p *picker
			for _, ev := range cc.Take() {
				if ev.Kind == "update_state" {
					if pp, ok := ev.Pick.(*picker); ok {
						p = pp
					}
				}
			}
			if p == nil {
				panic("no picker published after a configuration update")
			}
			tr.Emit(map[string]any{"ev": "cbbegin", "max": eff, "via": "config", "set": mx >= 0})
			var ops []int
			k := eff
			if k > 5 {
				k = 5
			}
			for i := 0; i < k+2; i++ { // more picks than allowed
				ops = append(ops, 0)
			}
			for i := 0; i < 4+r.Intn(8); i++ {
				ops = append(ops, []int{0, 0, 1, 2, 3}[r.Intn(5)])
			}
			c38Ops(tr, p, child, ops)
		}
		tr.Reset()
	})
}

func TestVerifC38Cluster(t *testing.T) {
	tr, err := vlib.NewTrace(os.Getenv("VERIF_OUT"))
	if err != nil {
		t.Fatal(err)
	}
	defer tr.Close()
	seed := int64(vlib.EnvInt("VERIF_SEED", 1))
	n := vlib.EnvInt("VERIF_N", 20)
	seqLen := vlib.EnvInt("VERIF_SEQLEN", 5)
	perDraw := int64(vlib.EnvInt("VERIF_PERDRAW", 2000))
	r := rand.New(rand.NewSource(seed))
	orig := c38RandInt64n
	origNew := NewRandomWRR
	NewRandomWRR = wrr.NewRandom // the package's own tests replace it in init(); the real selector is the subject here
	defer func() { c38RandInt64n = orig; NewRandomWRR = origNew }()

	type cfg struct{ num, den uint32 }
	var cfgs []cfg
	for _, num := range []uint32{0, 1, 2, 25, 33, 50, 75, 99, 100, 101, 250, 4294967295} {
		cfgs = append(cfgs, cfg{num, 100})
	}
	for _, num := range []uint32{0, 1, 1250, 2500, 3333, 5000, 9999, 10000, 10001, 4294967295} {
		cfgs = append(cfgs, cfg{num, 10000})
	}
	for _, num := range []uint32{0, 1, 1000, 15625, 123456, 250000, 500000, 999999, 1000000, 1000001, 4000000000} {
		cfgs = append(cfgs, cfg{num, 1000000})
	}
	dens := []uint32{100, 10000, 1000000}
	// numerator far above the denominator (32-bit products of numerator * 10^6/denominator wrap around): everything is dropped
	for _, den := range dens {
		for _, num := range []uint32{429497, 429500, 4294967, 4294968, 42949673, 429496730, 2147483648, 4294967295} {
			cfgs = append(cfgs, cfg{num, den})
		}
	}
	for i := 0; i < n; i++ {
		den := dens[r.Intn(3)]
		num := uint32(r.Intn(int(den) + 1))
		switch r.Intn(4) {
		case 0: // large common factor: short enumeration
			num = num / (den / 100) * (den / 100)
		case 1:
			num = den + uint32(r.Intn(1000))
		}
		cfgs = append(cfgs, cfg{num, den})
	}
	nd := 0
	for _, c := range cfgs {
		c38Drops(tr, c.num, c.den, connectivity.Ready, perDraw)
		nd++
	}
	for _, st := range []connectivity.State{connectivity.Connecting, connectivity.Idle, connectivity.TransientFailure} {
		for _, c := range []cfg{{100, 100}, {50, 100}, {999999, 1000000}, {4294967295, 10000}} {
			c38Drops(tr, c.num, c.den, st, perDraw)
			nd++
		}
	}
	tr.Reset()

	// circuit breaking: every sequence of seqLen operations over {pick, failing pick, oldest done, newest done}
	nb := 0
	for _, max := range []uint32{0, 1, 2, 3} {
		total := 1
		for i := 0; i < seqLen; i++ {
			total *= 4
		}
		for code := 0; code < total; code++ {
			ops := make([]int, seqLen)
			x := code
			for i := range ops {
				ops[i] = x % 4
				x /= 4
			}
			c38Breaker(tr, max, ops)
			nb++
		}
	}
	for i := 0; i < n*5; i++ {
		max := uint32(r.Intn(6))
		if r.Intn(10) == 0 {
			max = 1024
		}
		ops := make([]int, 10+r.Intn(30))
		for j := range ops {
			ops[j] = []int{0, 0, 0, 1, 2, 3}[r.Intn(6)]
		}
		c38Breaker(tr, max, ops)
		nb++
	}
	// max_requests set through the real balancer configuration (first configuration and updates)
	ncfg := 0
	for _, seq := range [][]int{{3, 1, 0, 2, 0}, {0}, {0, 1}, {1, 0}, {-1, 0, -1}, {2, 3, 0, 0, 1}, {0, 3}} {
		c38ConfigPath(tr, r, seq)
		ncfg++
	}
	for i := 0; i < n; i++ {
		seq := make([]int, 1+r.Intn(6))
		for j := range seq {
			seq[j] = []int{0, 1, 2, 3, 0, -1}[r.Intn(6)]
		}
		c38ConfigPath(tr, r, seq)
		ncfg++
	}
	fmt.Printf("VERIF_SUMMARY {\"dropcfgs\":%d,\"cbseqs\":%d,\"cfgseqs\":%d,\"events\":%d}\n", nd, nb, ncfg, tr.N)
}
