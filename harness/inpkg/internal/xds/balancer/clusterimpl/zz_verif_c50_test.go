package clusterimpl

// Driver for C50 (picker side): the real cluster_impl picker with a READY stub child, 2-3 drop
// categories whose droppers' random decisions are scripted (NewRandomWRR is the package's own test
// seam), and a recording load store.  Each Pick is logged with the categories that would fire and
// the CallDropped / CallStarted calls the store saw during it.  PickCountTrace.tla judges.

import (
	"context"
	"encoding/json"
	"fmt"
	"math/rand"
	"os"
	"testing"

	"google.golang.org/grpc/balancer"
	"google.golang.org/grpc/codes"
	"google.golang.org/grpc/connectivity"
	"google.golang.org/grpc/internal/wrr"
	"google.golang.org/grpc/internal/xds/clients"
	"google.golang.org/grpc/internal/zzverif/vlib"
	"google.golang.org/grpc/status"
)

type c50Store struct {
	dropped []int // category numbers (1..3; 0: uncategorised) in call order
	bycat   [4]int
	starts  int
}

func (s *c50Store) CallStarted(clients.Locality)                     { s.starts++ }
func (s *c50Store) CallFinished(clients.Locality, error)             {}
func (s *c50Store) CallServerLoad(clients.Locality, string, float64) {}
func (s *c50Store) CallDropped(c string) {
	n := 0
	fmt.Sscanf(c, "cat%d", &n)
	s.dropped = append(s.dropped, n)
	s.bycat[n]++
}

// c50WRR is a scripted wrr.WRR: Next returns whether its category fires for the current pick.
type c50WRR struct {
	idx  int
	fire *[3]bool
}

func (w *c50WRR) Add(any, int64) {}
func (w *c50WRR) Next() any      { return w.fire[w.idx] }

type c50Child struct{}

func (c50Child) Pick(balancer.PickInfo) (balancer.PickResult, error) { return balancer.PickResult{}, nil }

// one behaviour: a list of picks, each the list of firing categories (1-based)
func c50PickRun(picks [][]int, ncat, id int, tr *vlib.Trace) {
	defer func() {
		if x := recover(); x != nil {
			tr.Emit(map[string]any{"ev": "panic", "what": fmt.Sprint(x)})
		}
	}()
	var fire [3]bool
	old := NewRandomWRR
	defer func() { NewRandomWRR = old }()
	made := 0
	NewRandomWRR = func() wrr.WRR { w := &c50WRR{idx: made, fire: &fire}; made++; return w }
	store := &c50Store{}
	var drops []*dropper
	for c := 1; c <= ncat; c++ {
		drops = append(drops, newDropper(DropConfig{Category: fmt.Sprintf("cat%d", c), RequestsPerMillion: 500000}))
	}
	p := &picker{drops: drops, s: balancer.State{ConnectivityState: connectivity.Ready, Picker: c50Child{}}, loadStore: store}
	tr.Emit(map[string]any{"ev": "reset", "b": id, "ncat": ncat})
	for _, f := range picks {
		fire = [3]bool{}
		fires := []int{}
		for _, c := range f {
			if c >= 1 && c <= ncat {
				fire[c-1] = true
				fires = append(fires, c)
			}
		}
		d0, s0 := len(store.dropped), store.starts
		_, err := p.Pick(balancer.PickInfo{Ctx: context.Background()})
		dropped := err != nil && status.Code(err) == codes.Unavailable
		tr.Emit(map[string]any{"ev": "pick", "fires": fires, "dropped": dropped, "err": err != nil,
			"calls": append([]int{}, store.dropped[d0:]...), "starts": store.starts - s0})
	}
	tr.Emit(map[string]any{"ev": "end", "drops": len(store.dropped), "starts": store.starts, "bycat": store.bycat[1:]})
}

func TestVerifC50Picker(t *testing.T) {
	tr, err := vlib.NewTrace(os.Getenv("VERIF_OUT"))
	if err != nil {
		t.Fatal(err)
	}
	defer tr.Close()
	n := 0
	if path := os.Getenv("VERIF_BEHAVIOURS"); path != "" {
		lines, err := vlib.ReadLines(path)
		if err != nil {
			t.Fatal(err)
		}
		for _, ln := range lines {
			var picks [][]int
			if err := json.Unmarshal(ln, &picks); err != nil {
				t.Fatal(err)
			}
			c50PickRun(picks, 3, n, tr)
			n++
		}
	}
	rng := rand.New(rand.NewSource(int64(vlib.EnvInt("VERIF_SEED", 1))*271 + 9))
	for r := 0; r < vlib.EnvInt("VERIF_N", 0); r++ {
		ncat := 2 + rng.Intn(2)
		var picks [][]int
		for k := 3 + rng.Intn(30); k > 0; k-- {
			f := []int{}
			for c := 1; c <= ncat; c++ {
				if rng.Intn(3) == 0 {
					f = append(f, c)
				}
			}
			picks = append(picks, f)
		}
		c50PickRun(picks, ncat, n, tr)
		n++
	}
	fmt.Printf("VERIF_SUMMARY {\"behaviours\":%d,\"events\":%d}\n", n, tr.N)
}
