package priority

// Driver for C39: sequential replay of TLC behaviours (and seeded random input sequences) on the
// real priority balancer with stub children (through the real balancergroup), a recording
// ClientConn and a manual init timer (timeAfterFunc seam).  Child state updates are handled by the
// balancer's run() goroutine: every behaviour runs in a testing/synctest bubble and the driver
// waits for quiescence (synctest.Wait) after each input.  Drives and records only.

import (
	"encoding/json"
	"fmt"
	"math/rand"
	"os"
	"sort"
	"testing"
	"testing/synctest"
	"time"

	"google.golang.org/grpc/balancer"
	internalserviceconfig "google.golang.org/grpc/internal/serviceconfig"
	"google.golang.org/grpc/internal/zzverif/vlib"
	"google.golang.org/grpc/internal/zzverif/vlib/lbtest"
	"google.golang.org/grpc/resolver"
	"google.golang.org/grpc/serviceconfig"
)

const c39StubName = "c39stub_verif"

type c39Cfg struct {
	serviceconfig.LoadBalancingConfig
	N int
}

type c39Picked struct{ n, gen, ver int }

func (p *c39Picked) Error() string { return fmt.Sprintf("picked child %d gen %d v%d", p.n, p.gen, p.ver) }

type c39Picker struct{ n, gen, ver int }

func (p c39Picker) Pick(balancer.PickInfo) (balancer.PickResult, error) {
	return balancer.PickResult{}, &c39Picked{p.n, p.gen, p.ver}
}

type c39Child struct {
	env      *c39Env
	cc       balancer.ClientConn
	n        int
	gen, ver int
}

func (c *c39Child) UpdateClientConnState(s balancer.ClientConnState) error {
	cfg, ok := s.BalancerConfig.(*c39Cfg)
	if !ok || c.n != 0 {
		return nil
	}
	c.n = cfg.N
	c.env.ngen++
	c.gen = c.env.ngen
	c.env.live[c.n] = c
	return nil
}
func (c *c39Child) ResolverError(error)                                        {}
func (c *c39Child) UpdateSubConnState(balancer.SubConn, balancer.SubConnState) {}
func (c *c39Child) ExitIdle()                                                  {}
func (c *c39Child) Close() {
	if c.n != 0 && c.env.live[c.n] == c {
		delete(c.env.live, c.n)
	}
}

type c39Builder struct{}

func (c39Builder) Name() string { return c39StubName }
func (c39Builder) Build(cc balancer.ClientConn, _ balancer.BuildOptions) balancer.Balancer {
	return &c39Child{env: c39Cur, cc: cc}
}

func init() { balancer.Register(c39Builder{}) }

type c39Env struct {
	cc     *lbtest.RecCC
	pb     *priorityBalancer
	live   map[int]*c39Child
	ngen   int
	timers map[*time.Timer]func()
}

var c39Cur *c39Env

type c39Step struct {
	A string `json:"a"`
	P []int  `json:"p"`
	C int    `json:"c"`
	S string `json:"s"`
}

func c39New() *c39Env {
	e := &c39Env{cc: lbtest.NewRecCC(), live: map[int]*c39Child{}, timers: map[*time.Timer]func(){}}
	c39Cur = e
	e.pb = bb{}.Build(e.cc, balancer.BuildOptions{}).(*priorityBalancer)
	return e
}

func c39Name(n int) string { return fmt.Sprintf("c%d", n) }
func c39ID(name string) int {
	n := 0
	fmt.Sscanf(name, "c%d", &n)
	return n
}

func (e *c39Env) armedTimers() []int {
	out := []int{}
	e.pb.mu.Lock()
	for name, cb := range e.pb.children {
		if cb.initTimer != nil {
			out = append(out, c39ID(name))
		}
	}
	e.pb.mu.Unlock()
	sort.Ints(out)
	return out
}

func (e *c39Env) obs() map[string]any {
	reps := [][]any{}
	for _, ev := range e.cc.Take() {
		if ev.Kind != "update_state" {
			continue
		}
		owner, cur := 0, 1
		if ev.Pick != nil {
			_, err := ev.Pick.Pick(balancer.PickInfo{})
			if pe, ok := err.(*c39Picked); ok {
				owner = pe.n
				if c := e.live[pe.n]; c == nil || c.gen != pe.gen || c.ver != pe.ver {
					cur = 0
				}
			}
		}
		reps = append(reps, []any{lbtest.StateName(ev.State), owner, cur})
	}
	live := []int{}
	for n := range e.live {
		live = append(live, n)
	}
	sort.Ints(live)
	e.pb.mu.Lock()
	inuse := c39ID(e.pb.childInUse)
	e.pb.mu.Unlock()
	return map[string]any{"reps": reps, "live": live, "tmr": e.armedTimers(), "inuse": inuse}
}

func (e *c39Env) apply(st c39Step, tr *vlib.Trace) {
	switch st.A {
	case "cfg":
		cfg := &LBConfig{Children: map[string]*Child{}}
		for _, n := range st.P {
			cfg.Children[c39Name(n)] = &Child{Config: &internalserviceconfig.BalancerConfig{Name: c39StubName, Config: &c39Cfg{N: n}}}
			cfg.Priorities = append(cfg.Priorities, c39Name(n))
		}
		e.pb.UpdateClientConnState(balancer.ClientConnState{ResolverState: resolver.State{}, BalancerConfig: cfg})
		synctest.Wait()
		pl := st.P
		if pl == nil {
			pl = []int{}
		}
		tr.Emit(map[string]any{"ev": "cfg", "p": pl, "obs": e.obs()})
	case "upd":
		c := e.live[st.C]
		if c == nil {
			tr.Emit(map[string]any{"ev": "skip", "a": "upd"})
			return
		}
		c.ver++
		c.cc.UpdateState(balancer.State{ConnectivityState: lbtest.StateOf(st.S), Picker: c39Picker{c.n, c.gen, c.ver}})
		synctest.Wait()
		tr.Emit(map[string]any{"ev": "upd", "c": st.C, "s": st.S, "obs": e.obs()})
	case "timer":
		var f func()
		e.pb.mu.Lock()
		if cb := e.pb.children[c39Name(st.C)]; cb != nil && cb.initTimer != nil {
			f = e.timers[cb.initTimer.timer]
		}
		e.pb.mu.Unlock()
		if f == nil {
			tr.Emit(map[string]any{"ev": "skip", "a": "timer"})
			return
		}
		f()
		synctest.Wait()
		tr.Emit(map[string]any{"ev": "timer", "c": st.C, "obs": e.obs()})
	default:
		panic("unknown step " + st.A)
	}
}

func c39Bubble(t *testing.T, tr *vlib.Trace, body func(e *c39Env)) {
	synctest.Test(t, func(t *testing.T) {
		defer func() {
			if r := recover(); r != nil {
				tr.Emit(map[string]any{"ev": "panic", "msg": fmt.Sprint(r)})
			}
		}()
		e := c39New()
		timeAfterFunc = func(_ time.Duration, f func()) *time.Timer {
			tm := time.AfterFunc(time.Duration(1<<62), func() {})
			tm.Stop()
			e.timers[tm] = f
			return tm
		}
		defer e.pb.Close()
		body(e)
	})
}

func c39Seams() func() {
	o1, o2 := timeAfterFunc, DefaultSubBalancerCloseTimeout
	// the balancergroup's cache of removed children is off: a stopped priority is closed at once
	DefaultSubBalancerCloseTimeout = 0
	return func() { timeAfterFunc, DefaultSubBalancerCloseTimeout = o1, o2 }
}

func TestVerifC39Replay(t *testing.T) {
	defer c39Seams()()
	lines, err := vlib.ReadLines(os.Getenv("VERIF_BEHAVIOURS"))
	if err != nil {
		t.Fatal(err)
	}
	tr, err := vlib.NewTrace(os.Getenv("VERIF_OUT"))
	if err != nil {
		t.Fatal(err)
	}
	defer tr.Close()
	for i, ln := range lines {
		var steps []c39Step
		if err := json.Unmarshal(ln, &steps); err != nil {
			t.Fatal(err)
		}
		tr.Emit(map[string]any{"ev": "reset", "b": i})
		c39Bubble(t, tr, func(e *c39Env) {
			for _, st := range steps {
				e.apply(st, tr)
			}
		})
	}
	fmt.Printf("VERIF_SUMMARY {\"behaviours\":%d,\"events\":%d}\n", len(lines), tr.N)
}

// TestVerifC39Random: seeded random long input sequences: config updates with arbitrary priority
// lists (add / remove / reorder), state updates of live children, expiry of armed init timers.
func TestVerifC39Random(t *testing.T) {
	defer c39Seams()()
	tr, err := vlib.NewTrace(os.Getenv("VERIF_OUT"))
	if err != nil {
		t.Fatal(err)
	}
	defer tr.Close()
	rng := rand.New(rand.NewSource(int64(vlib.EnvInt("VERIF_SEED", 1))))
	runs := vlib.EnvInt("VERIF_N", 100)
	states := []string{"READY", "CONNECTING", "IDLE", "TF", "TF", "CONNECTING"}
	for r := 0; r < runs; r++ {
		tr.Emit(map[string]any{"ev": "reset", "b": r})
		c39Bubble(t, tr, func(e *c39Env) {
			nC := 2 + rng.Intn(4)
			randPrio := func() []int {
				perm := rng.Perm(nC)
				m := rng.Intn(nC + 1)
				if m == 0 && rng.Intn(4) != 0 {
					m = nC
				}
				out := make([]int, m)
				for i := range out {
					out[i] = perm[i] + 1
				}
				return out
			}
			e.apply(c39Step{A: "cfg", P: randPrio()}, tr)
			n := 10 + rng.Intn(50)
			for k := 0; k < n; k++ {
				x := rng.Intn(100)
				switch {
				case x < 12:
					e.apply(c39Step{A: "cfg", P: randPrio()}, tr)
				case x < 30:
					if a := e.armedTimers(); len(a) > 0 {
						e.apply(c39Step{A: "timer", C: a[rng.Intn(len(a))]}, tr)
					}
				default:
					live := []int{}
					for c := range e.live {
						live = append(live, c)
					}
					sort.Ints(live)
					if len(live) > 0 {
						e.apply(c39Step{A: "upd", C: live[rng.Intn(len(live))], S: states[rng.Intn(len(states))]}, tr)
					}
				}
			}
		})
	}
	fmt.Printf("VERIF_SUMMARY {\"behaviours\":%d,\"events\":%d}\n", runs, tr.N)
}
