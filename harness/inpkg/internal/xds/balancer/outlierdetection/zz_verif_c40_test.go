package outlierdetection

// Driver for C40: sequential replay of TLC behaviours and seeded random histories on the real
// outlierDetectionBalancer inside a testing/synctest bubble (virtual time), with a stub child
// policy and a recording ClientConn.  The interval timer is fired by the driver through the
// afterFunc seam.  After every update / interval the driver records which endpoints appear
// TRANSIENT_FAILURE to the child, and (white box) the policy's own ejection state.  TLC validates
// the trace against specs/OutlierDetection.tla.  The driver never judges.

import (
	"encoding/json"
	"errors"
	"fmt"
	"math/rand"
	"os"
	"sort"
	"testing"
	"testing/synctest"
	"time"

	"google.golang.org/grpc/balancer"
	"google.golang.org/grpc/connectivity"
	"google.golang.org/grpc/internal/channelz"
	iserviceconfig "google.golang.org/grpc/internal/serviceconfig"
	"google.golang.org/grpc/internal/zzverif/vlib"
	"google.golang.org/grpc/internal/zzverif/vlib/lbtest"
	"google.golang.org/grpc/resolver"
)

const c40ChildName = "c40_stub_child"

var c40CurChild *c40Child // the child built most recently (drivers are sequential)

type c40Child struct {
	cc     balancer.ClientConn
	scs    map[string]balancer.SubConn       // address -> sub-connection (the wrapper handed out by the policy)
	health map[string]connectivity.State     // address -> last health state the child was told
	conn   map[string]connectivity.State     // address -> last connectivity state the child was told
	next   balancer.SubConn                  // what the picker returns
}

type c40Builder struct{}

func (c40Builder) Name() string { return c40ChildName }
func (c40Builder) Build(cc balancer.ClientConn, _ balancer.BuildOptions) balancer.Balancer {
	c := &c40Child{cc: cc, scs: map[string]balancer.SubConn{}, health: map[string]connectivity.State{}, conn: map[string]connectivity.State{}}
	c40CurChild = c
	return c
}

func init() { balancer.Register(c40Builder{}) }

type c40Picker struct{ c *c40Child }

func (p c40Picker) Pick(balancer.PickInfo) (balancer.PickResult, error) {
	if p.c.next == nil {
		return balancer.PickResult{}, balancer.ErrNoSubConnAvailable
	}
	return balancer.PickResult{SubConn: p.c.next}, nil
}

func (c *c40Child) UpdateClientConnState(s balancer.ClientConnState) error {
	want := map[string]bool{}
	for _, ep := range s.ResolverState.Endpoints {
		a := ep.Addresses[0]
		want[a.Addr] = true
		if _, ok := c.scs[a.Addr]; ok {
			continue
		}
		addr := a.Addr
		var sc balancer.SubConn
		sc, err := c.cc.NewSubConn([]resolver.Address{a}, balancer.NewSubConnOptions{StateListener: func(st balancer.SubConnState) {
			c.conn[addr] = st.ConnectivityState
			if st.ConnectivityState == connectivity.Ready {
				sc.RegisterHealthListener(func(hs balancer.SubConnState) { c.health[addr] = hs.ConnectivityState })
			}
		}})
		if err != nil {
			return err
		}
		c.scs[addr] = sc
		sc.Connect()
	}
	for addr, sc := range c.scs {
		if !want[addr] {
			sc.Shutdown()
			delete(c.scs, addr)
			delete(c.health, addr)
			delete(c.conn, addr)
		}
	}
	c.cc.UpdateState(balancer.State{ConnectivityState: connectivity.Ready, Picker: c40Picker{c}})
	return nil
}
func (c *c40Child) ResolverError(error)                                        {}
func (c *c40Child) UpdateSubConnState(balancer.SubConn, balancer.SubConnState) {}
func (c *c40Child) ExitIdle()                                                  {}
func (c *c40Child) Close()                                                     {}

type c40Cfg struct {
	Sr     bool `json:"sr"`
	SrF    int  `json:"srF"` // stdev factor / 100
	SrRV   int  `json:"srRV"`
	SrMin  int  `json:"srMin"`
	SrEnf  int  `json:"srEnf"`
	Fp     bool `json:"fp"`
	FpTh   int  `json:"fpTh"`
	FpRV   int  `json:"fpRV"`
	FpMin  int  `json:"fpMin"`
	FpEnf  int  `json:"fpEnf"`
	MaxPct int  `json:"maxPct"`
	Base   int  `json:"base"`
	MaxT   int  `json:"maxT"`
}

type c40Step struct {
	A   string `json:"a"`
	Cfg c40Cfg `json:"cfg"`
	Eps []int  `json:"eps"`
	E   int    `json:"e"`
	S   int    `json:"s"`
	F   int    `json:"f"`
	D   int    `json:"d"`
}

type c40Env struct {
	cc      *lbtest.RecCC
	b       *outlierDetectionBalancer
	child   *c40Child
	picker  balancer.Picker
	timerFn func()
	eps     []int
	readied map[int]bool // RecSC ids already brought to READY
	told    map[int]bool // RecSC ids already told SHUTDOWN
	chz     *channelz.Channel
}

func c40Addr(e int) string { return fmt.Sprintf("e%d", e) }

func c40New() *c40Env {
	env := &c40Env{cc: lbtest.NewRecCC(), readied: map[int]bool{}, told: map[int]bool{}}
	afterFunc = func(_ time.Duration, f func()) *time.Timer {
		env.timerFn = f
		t := time.NewTimer(time.Hour)
		t.Stop()
		return t
	}
	env.chz = channelz.RegisterChannel(nil, "verif c40")
	env.b = bb{}.Build(env.cc, balancer.BuildOptions{ChannelzParent: env.chz}).(*outlierDetectionBalancer)
	return env
}

func (env *c40Env) close() {
	env.b.Close()
	channelz.RemoveEntry(env.chz.ID)
}

// settle lets the policy's run() goroutine drain its queues, then plays the channel's part for
// new / shut-down sub-connections: new ones become READY (connectivity, then health), shut-down
// ones get their final SHUTDOWN update.
func (env *c40Env) settle() {
	synctest.Wait()
	for _, sc := range env.cc.SubConns() {
		if sc.IsShut() {
			if !env.told[sc.ID] {
				env.told[sc.ID] = true
				sc.Listener(balancer.SubConnState{ConnectivityState: connectivity.Shutdown})
				synctest.Wait()
			}
			continue
		}
		if !env.readied[sc.ID] {
			env.readied[sc.ID] = true
			sc.Listener(balancer.SubConnState{ConnectivityState: connectivity.Connecting})
			sc.Listener(balancer.SubConnState{ConnectivityState: connectivity.Ready})
			synctest.Wait()
			if sc.Health != nil {
				sc.Health(balancer.SubConnState{ConnectivityState: connectivity.Ready})
			}
			synctest.Wait()
		}
	}
	for _, ev := range env.cc.Take() {
		if ev.Kind == "update_state" {
			env.picker = ev.Pick
		}
	}
}

func (env *c40Env) obs() map[string]any {
	tf, priv := []int{}, []int{}
	mults := [][]int{}
	for _, e := range env.eps {
		if env.child != nil && env.child.health[c40Addr(e)] == connectivity.TransientFailure {
			if _, ok := env.child.scs[c40Addr(e)]; ok {
				tf = append(tf, e)
			}
		}
	}
	env.b.mu.Lock()
	for _, e := range env.eps {
		if info, ok := env.b.addrs[c40Addr(e)]; ok {
			if !info.latestEjectionTimestamp.IsZero() {
				priv = append(priv, e)
			}
			mults = append(mults, []int{e, int(info.ejectionTimeMultiplier)})
		}
	}
	cnt := env.b.numEndpointsEjected
	env.b.mu.Unlock()
	return map[string]any{"tf": tf, "priv": priv, "cnt": cnt, "mults": mults}
}

func (c c40Cfg) lb() *LBConfig {
	cfg := &LBConfig{
		Interval:           iserviceconfig.Duration(10 * time.Second),
		BaseEjectionTime:   iserviceconfig.Duration(time.Duration(c.Base) * time.Second),
		MaxEjectionTime:    iserviceconfig.Duration(time.Duration(c.MaxT) * time.Second),
		MaxEjectionPercent: uint32(c.MaxPct),
		ChildPolicy:        &iserviceconfig.BalancerConfig{Name: c40ChildName},
	}
	if c.Sr {
		cfg.SuccessRateEjection = &SuccessRateEjection{StdevFactor: uint32(c.SrF * 100), EnforcementPercentage: uint32(c.SrEnf),
			MinimumHosts: uint32(c.SrMin), RequestVolume: uint32(c.SrRV)}
	}
	if c.Fp {
		cfg.FailurePercentageEjection = &FailurePercentageEjection{Threshold: uint32(c.FpTh), EnforcementPercentage: uint32(c.FpEnf),
			MinimumHosts: uint32(c.FpMin), RequestVolume: uint32(c.FpRV)}
	}
	return cfg
}

func (env *c40Env) apply(st c40Step, tr *vlib.Trace) {
	defer func() {
		if r := recover(); r != nil {
			tr.Emit(map[string]any{"ev": "panic", "what": st.A, "r": fmt.Sprint(r)})
		}
	}()
	switch st.A {
	case "update":
		eps := append([]int(nil), st.Eps...)
		sort.Ints(eps)
		var res []resolver.Endpoint
		for _, e := range eps {
			res = append(res, resolver.Endpoint{Addresses: []resolver.Address{{Addr: c40Addr(e)}}})
		}
		env.timerFn = nil
		err := env.b.UpdateClientConnState(balancer.ClientConnState{ResolverState: resolver.State{Endpoints: res}, BalancerConfig: st.Cfg.lb()})
		if err != nil {
			panic(err)
		}
		env.child = c40CurChild
		env.eps = eps
		env.settle()
		tr.Emit(map[string]any{"ev": "update", "cfg": st.Cfg, "eps": eps, "obs": env.obs()})
	case "calls":
		sc, ok := env.child.scs[c40Addr(st.E)]
		if !ok || env.child.health[c40Addr(st.E)] == connectivity.TransientFailure {
			// Domain bookkeeping for replayed behaviours: the policy's choice among equally
			// ejectable endpoints (map iteration order) need not be the one TLC took, so a
			// later step of the behaviour may address an endpoint that appears ejected here;
			// such calls are outside the driven domain and are not made.
			return
		}
		env.child.next = sc
		for i := 0; i < st.S+st.F; i++ {
			pr, err := env.picker.Pick(balancer.PickInfo{})
			if err != nil {
				panic(err)
			}
			var cerr error
			if i >= st.S {
				cerr = errors.New("verif: failed call")
			}
			pr.Done(balancer.DoneInfo{Err: cerr})
		}
		tr.Emit(map[string]any{"ev": "calls", "e": st.E, "s": st.S, "f": st.F})
	case "advance":
		time.Sleep(time.Duration(st.D) * time.Second)
		synctest.Wait()
		tr.Emit(map[string]any{"ev": "advance", "d": st.D})
	case "interval":
		if env.timerFn == nil {
			panic("interval step without an armed interval timer")
		}
		env.timerFn()
		env.settle()
		tr.Emit(map[string]any{"ev": "interval", "obs": env.obs()})
	default:
		panic("unknown step " + st.A)
	}
}

func c40Seams() func() {
	oa, on := afterFunc, now
	return func() { afterFunc, now = oa, on }
}

func TestVerifC40Replay(t *testing.T) {
	lines, err := vlib.ReadLines(os.Getenv("VERIF_BEHAVIOURS"))
	if err != nil {
		t.Fatal(err)
	}
	tr, err := vlib.NewTrace(os.Getenv("VERIF_OUT"))
	if err != nil {
		t.Fatal(err)
	}
	defer tr.Close()
	defer c40Seams()()
	synctest.Test(t, func(t *testing.T) {
		for i, ln := range lines {
			var steps []c40Step
			if err := json.Unmarshal(ln, &steps); err != nil {
				t.Fatal(err)
			}
			tr.Emit(map[string]any{"ev": "reset", "b": i})
			env := c40New()
			for _, st := range steps {
				env.apply(st, tr)
			}
			env.close()
			synctest.Wait()
		}
	})
	fmt.Printf("VERIF_SUMMARY {\"behaviours\":%d,\"events\":%d}\n", len(lines), tr.N)
}

// TestVerifC40Random: seeded random histories (up to 5 endpoints) inside the driven domain (calls only to endpoints that
// do not appear ejected, per-interval volumes that divide 120, enforcement percentages 0 / 100).
func TestVerifC40Random(t *testing.T) {
	tr, err := vlib.NewTrace(os.Getenv("VERIF_OUT"))
	if err != nil {
		t.Fatal(err)
	}
	defer tr.Close()
	defer c40Seams()()
	rng := rand.New(rand.NewSource(int64(vlib.EnvInt("VERIF_SEED", 1))))
	runs := vlib.EnvInt("VERIF_N", 100)
	divs := []int{1, 2, 3, 4, 5, 6, 8, 10, 12}
	pick := func(xs []int) int { return xs[rng.Intn(len(xs))] }
	randCfg := func() c40Cfg {
		c := c40Cfg{MaxPct: pick([]int{0, 20, 20, 25, 25, 34, 40, 50, 50, 67, 75, 100, 100}), Base: pick([]int{0, 1, 2, 3, 3, 4}), MaxT: pick([]int{0, 1, 2, 2, 4, 9})}
		k := rng.Intn(8)
		if k != 0 && k != 1 && k != 2 {
			c.Sr = true
			c.SrF = pick([]int{0, 5, 10, 19, 20})
			c.SrRV = pick([]int{1, 2, 4})
			c.SrMin = pick([]int{0, 1, 2, 3})
			c.SrEnf = pick([]int{100, 100, 100, 0})
		}
		if k != 0 && k != 3 && k != 4 {
			c.Fp = true
			c.FpTh = pick([]int{0, 20, 40, 50, 75, 85, 100})
			c.FpRV = pick([]int{1, 2, 5})
			c.FpMin = pick([]int{0, 1, 2, 3})
			c.FpEnf = pick([]int{100, 100, 100, 0})
		}
		return c
	}
	randEps := func() []int {
		var out []int
		for len(out) == 0 {
			out = nil
			for e := 1; e <= 5; e++ {
				if rng.Intn(5) != 0 {
					out = append(out, e)
				}
			}
		}
		return out
	}
	synctest.Test(t, func(t *testing.T) {
		for r := 0; r < runs; r++ {
			tr.Emit(map[string]any{"ev": "reset", "b": r})
			env := c40New()
			cfg := randCfg()
			env.apply(c40Step{A: "update", Cfg: cfg, Eps: randEps()}, tr)
			n := 6 + rng.Intn(20)
			for i := 0; i < n; i++ {
				x := rng.Intn(10)
				switch {
				case x == 0:
					if rng.Intn(2) == 0 {
						cfg = randCfg()
					}
					eps := env.eps
					if rng.Intn(3) != 0 {
						eps = randEps()
					}
					env.apply(c40Step{A: "update", Cfg: cfg, Eps: eps}, tr)
				case x <= 6 && env.timerFn != nil:
					// one interval: traffic to every endpoint that does not appear ejected, then time passes, then the timer
					tfNow := map[int]bool{}
					for _, e := range env.obs()["tf"].([]int) {
						tfNow[e] = true
					}
					// every third round is a burst: two or more endpoints fail together with a volume that
					// passes any configured request_volume, so that several outliers compete for the
					// max_ejection_percent budget within one pass
					burst := map[int]bool{}
					if rng.Intn(3) == 0 {
						for k := 2 + rng.Intn(2); k > 0; k-- {
							burst[env.eps[rng.Intn(len(env.eps))]] = true
						}
					}
					for _, e := range env.eps {
						if tfNow[e] || (!burst[e] && rng.Intn(6) == 0) {
							continue
						}
						v := pick(divs)
						f := 0
						switch rng.Intn(4) {
						case 0:
							f = v
						case 1:
							f = rng.Intn(v + 1)
						}
						if burst[e] {
							v = pick([]int{5, 6, 8, 10})
							f = v
						}
						env.apply(c40Step{A: "calls", E: e, S: v - f, F: f}, tr)
					}
					env.apply(c40Step{A: "advance", D: 1 + rng.Intn(3)}, tr)
					env.apply(c40Step{A: "interval"}, tr)
				default:
					env.apply(c40Step{A: "advance", D: 1 + rng.Intn(4)}, tr)
				}
			}
			env.close()
			synctest.Wait()
		}
	})
	fmt.Printf("VERIF_SUMMARY {\"behaviours\":%d,\"events\":%d}\n", runs, tr.N)
}
