package xdsresource

// Driver for C47 (path matchers): records (path matcher configuration, path, result) of the real
// matchers built by RouteToMatcher; TLC validates them against specs/Matchers.tla.  Never judges.

import (
	"fmt"
	"math/rand"
	"os"
	"testing"

	"google.golang.org/grpc/internal/zzverif/vlib"
	"google.golang.org/grpc/internal/zzverif/vlib/xdsmt"
)

func c47Route(pm xdsmt.PM) *Route {
	r := &Route{CaseInsensitive: pm.CI}
	p := pm.Pat
	switch pm.Kind {
	case "exact":
		r.Path = &p
	case "prefix":
		r.Prefix = &p
	case "regex":
		r.Regex = xdsmt.Regex(pm.Rx)
	}
	return r
}

func TestVerifC47Paths(t *testing.T) {
	tr, err := vlib.NewTrace(os.Getenv("VERIF_OUT"))
	if err != nil {
		t.Fatal(err)
	}
	defer tr.Close()
	seed := int64(vlib.EnvInt("VERIF_SEED", 1))
	n := vlib.EnvInt("VERIF_N", 400)
	inLen := vlib.EnvInt("VERIF_INLEN", 2)
	r := rand.New(rand.NewSource(seed))
	emit := func(pm xdsmt.PM, in string) {
		xdsmt.Safe(tr, "path", func() {
			m := RouteToMatcher(c47Route(pm))
			tr.Emit(map[string]any{"ev": "path", "pm": pm.JSON(), "in": vlib.Bytes(in), "res": m.Match(in, nil)})
		})
	}
	sym := []string{"a", "A", "s", "S", xdsmt.LongS, xdsmt.Kelvin}
	if os.Getenv("VERIF_TIER") != "thorough" {
		sym = sym[:5]
	}
	pats2, pats1 := xdsmt.Strs(sym, 2), xdsmt.Strs(sym, 1)
	ins := xdsmt.Strs(sym, inLen)
	for _, kind := range []string{"exact", "prefix"} {
		for _, ci := range []bool{true, false} {
			pats := pats2
			if !ci {
				pats = pats1
			}
			for _, p := range pats {
				for _, in := range ins {
					emit(xdsmt.PM{Kind: kind, Pat: p, CI: ci}, in)
				}
			}
		}
	}
	for rx := 1; rx <= 3; rx++ {
		for _, in := range append(xdsmt.Strs(xdsmt.Big, 2), "aaa", "kA", "kAA", "KA", "/a1", "1\n1") {
			emit(xdsmt.PM{Kind: "regex", Rx: rx, CI: rx == 3}, in)
		}
	}
	big := append([]string{"/", "S", "v"}, xdsmt.Big...)
	for i := 0; i < n; i++ {
		pm := xdsmt.PM{Kind: []string{"exact", "prefix"}[r.Intn(2)], Pat: "/" + xdsmt.RandStr(r, big, 1+r.Intn(4)), CI: r.Intn(4) != 0}
		emit(pm, "/"+xdsmt.RandStr(r, big, r.Intn(6)))
		b := []byte(pm.Pat)
		for j := range b {
			if r.Intn(2) == 0 && (b[j] >= 'a' && b[j] <= 'z' || b[j] >= 'A' && b[j] <= 'Z') {
				b[j] ^= 0x20
			}
		}
		emit(pm, string(b)+xdsmt.RandStr(r, big, r.Intn(3)))
	}
	fmt.Printf("VERIF_SUMMARY {\"pairs\":%d}\n", tr.N)
}
