package xdsresource

// Driver for C46 (virtual host choice, route match with the runtime-fraction draw enumerated through the
// RandInt64n seam); TLC validates the records against specs/XdsRouting.tla.  Never judges.

import (
	"fmt"
	"math/rand"
	"os"
	"testing"

	"google.golang.org/grpc/internal/zzverif/vlib"
	"google.golang.org/grpc/internal/zzverif/vlib/xdsmt"
)

// c46Route builds the xdsresource.Route of an abstract route the way the RDS unmarshaller does
// (exact / prefix / suffix / contains header matchers are StringMatchers).
func c46Route(pm xdsmt.PM, hms []xdsmt.HM, frac int64) *Route {
	r := c47Route(pm)
	for _, h := range hms {
		inv := h.Inv
		hm := &HeaderMatcher{Name: h.Key, InvertMatch: &inv}
		switch h.Kind {
		case "regex":
			hm.RegexMatch = xdsmt.Regex(h.Rx)
		case "range":
			hm.RangeMatch = &Int64Range{Start: h.Lo, End: h.Hi}
		case "present":
			w := h.Want
			hm.PresentMatch = &w
		case "string":
			sm := h.SM.Build(true)
			hm.StringMatch = &sm
		default:
			panic("c46Route: header kind " + h.Kind)
		}
		r.Headers = append(r.Headers, hm)
	}
	if frac >= 0 {
		f := uint32(frac)
		r.Fraction = &f
	}
	return r
}

func c46HMs(hms []xdsmt.HM) []any {
	out := []any{}
	for _, h := range hms {
		out = append(out, h.JSON())
	}
	return out
}

func c46RouteJSON(pm xdsmt.PM, hms []xdsmt.HM, frac int64) map[string]any {
	return map[string]any{"pm": pm.JSON(), "hms": c46HMs(hms), "frac": frac}
}

func c46Domains(ds []string) []any {
	out := []any{}
	for _, d := range ds {
		out = append(out, vlib.Bytes(d))
	}
	return out
}

func TestVerifC46Routing(t *testing.T) {
	tr, err := vlib.NewTrace(os.Getenv("VERIF_OUT"))
	if err != nil {
		t.Fatal(err)
	}
	defer tr.Close()
	seed := int64(vlib.EnvInt("VERIF_SEED", 1))
	n := vlib.EnvInt("VERIF_N", 300)
	thorough := os.Getenv("VERIF_TIER") == "thorough"
	r := rand.New(rand.NewSource(seed))

	// ---- virtual hosts: all pairs of vhosts over a small domain set (all wildcard forms), every host ----
	vhost := func(host string, vhs [][]string) {
		xdsmt.Safe(tr, "vhost", func() {
			var in []*VirtualHost
			var js []any
			for _, ds := range vhs {
				in = append(in, &VirtualHost{Domains: ds})
				js = append(js, c46Domains(ds))
			}
			got := FindBestMatchingVirtualHost(host, in)
			res := 0
			for i, vh := range in {
				if vh == got {
					res = i + 1
				}
			}
			tr.Emit(map[string]any{"ev": "vhost", "host": vlib.Bytes(host), "vhs": js, "res": res})
		})
	}
	hsym := []string{"a", "b"}
	bodies := xdsmt.Strs(hsym, 2)[1:]
	hosts := xdsmt.Strs(hsym, 3)[1:]
	doms := []string{"*"}
	doms = append(doms, hosts...)
	for _, b := range bodies {
		doms = append(doms, "*"+b, b+"*")
	}
	for _, h := range hosts {
		if !thorough && h != "ab" && h != "ba" && h != "aab" {
			continue
		}
		for _, d1 := range doms {
			for _, d2 := range doms {
				vhost(h, [][]string{{d1}, {d2}})
			}
		}
	}
	// virtual hosts with TWO domains, weaker-first and stronger-first, before and after a single-domain virtual
	// host: the best match is taken over all domains of all virtual hosts
	sub := []string{"*", "ab", "a*", "ab*", "*b", "*ab", "aab", "b*"}
	if thorough {
		sub = doms
	}
	for _, h := range []string{"ab", "aab"} {
		for _, d1 := range sub {
			for _, d2 := range sub {
				if d1 == d2 {
					continue
				}
				for _, d3 := range sub {
					vhost(h, [][]string{{d1, d2}, {d3}})
					vhost(h, [][]string{{d3}, {d1, d2}})
				}
			}
		}
	}
	vhost("foo.example.com", [][]string{{"*", "foo.example.com"}, {"*.example.com"}})
	vhost("foo.example.com", [][]string{{"foo.example.com", "*"}, {"*.example.com"}})
	vhost("foo.example.com", [][]string{{"*.example.com"}, {"*", "foo.example.com"}})
	vhost("foo.example.com", [][]string{{"foo.*", "*.com"}, {"*.example.com"}, {"*", "foo.example.*"}})
	long := []string{"*", "*.example.com", "*.com", "foo.example.com", "foo.*", "foo.example.*", "*example.com", "foo.example.com*", "*foo.example.com", "bar.example.com", "*m", "f*"}
	for i := 0; i < n; i++ {
		var vhs [][]string
		for k := 1 + r.Intn(3); k > 0; k-- {
			var ds []string
			for j := 1 + r.Intn(3); j > 0; j-- {
				if r.Intn(2) == 0 {
					ds = append(ds, long[r.Intn(len(long))])
				} else {
					ds = append(ds, doms[r.Intn(len(doms))])
				}
			}
			vhs = append(vhs, ds)
		}
		if r.Intn(2) == 0 {
			vhost([]string{"foo.example.com", "bar.example.com", "example.com", "foo.org", "m"}[r.Intn(5)], vhs)
		} else {
			vhost(hosts[r.Intn(len(hosts))], vhs)
		}
	}

	// ---- route match: path /\ headers /\ fraction, with the random draw enumerated through the seam ----
	old := RandInt64n
	defer func() { RandInt64n = old }()
	var draw, ncalls, bound int64
	RandInt64n = func(b int64) int64 { ncalls++; bound = b; return draw }
	route := func(pm xdsmt.PM, hms []xdsmt.HM, frac int64, method string, md []xdsmt.MDE, d int64) {
		xdsmt.Safe(tr, "route", func() {
			m := RouteToMatcher(c46Route(pm, hms, frac))
			draw, ncalls, bound = d, 0, 0
			res := m.Match(method, xdsmt.MD(md))
			tr.Emit(map[string]any{"ev": "route", "rt": c46RouteJSON(pm, hms, frac), "method": vlib.Bytes(method), "md": xdsmt.MDJSON(md),
				"draw": d, "ncalls": ncalls, "bound": bound, "res": res})
		})
	}
	fracs := []int64{0, 1, 2, 500000, 999999, 1000000}
	pmAll := xdsmt.PM{Kind: "prefix", Pat: ""}
	for _, f := range fracs {
		seen := map[int64]bool{}
		for _, d := range []int64{0, 1, f - 1, f, f + 1, 999999, 499999} {
			if d < 0 || d > 999999 || seen[d] {
				continue
			}
			seen[d] = true
			route(pmAll, nil, f, "/s/m", nil, d)
			route(xdsmt.PM{Kind: "exact", Pat: "/s/m"}, []xdsmt.HM{{Kind: "present", Key: "h", Want: true}}, f, "/s/m", []xdsmt.MDE{{K: "h", Vs: []string{"1"}}}, d)
			route(xdsmt.PM{Kind: "exact", Pat: "/s/x"}, nil, f, "/s/m", nil, d)
			route(pmAll, []xdsmt.HM{{Kind: "present", Key: "h", Want: true}}, f, "/s/m", nil, d)
		}
	}
	// two matchers per route: every combination of path verdict x two header verdicts x fraction verdict
	pms := []xdsmt.PM{{Kind: "prefix", Pat: "/s/"}, {Kind: "exact", Pat: "/s/m"}, {Kind: "exact", Pat: "/S/M", CI: true}, {Kind: "prefix", Pat: "/t"}, {Kind: "regex", Rx: 2}}
	hmPool := []xdsmt.HM{
		{Kind: "string", Key: "h", SM: xdsmt.SM{Kind: "exact", Pat: "a"}},
		{Kind: "string", Key: "h", SM: xdsmt.SM{Kind: "prefix", Pat: "A", IC: true}},
		{Kind: "string", Key: "g", Inv: true, SM: xdsmt.SM{Kind: "contains", Pat: "1"}},
		{Kind: "present", Key: "g", Want: true},
		{Kind: "present", Key: "g", Want: true, Inv: true},
		{Kind: "range", Key: "g", Lo: 1, Hi: 3},
		{Kind: "regex", Key: "h", Rx: 1},
		{Kind: "string", Key: "h", SM: xdsmt.SM{Kind: "suffix", Pat: ",1"}},
	}
	mds := [][]xdsmt.MDE{nil, {{K: "h", Vs: []string{"a"}}}, {{K: "h", Vs: []string{"a", "1"}}, {K: "g", Vs: []string{"2"}}}, {{K: "g", Vs: []string{"3"}}, {K: "h", Vs: []string{"aa"}}}, {{K: "g", Vs: []string{"x1"}}}}
	for _, pm := range pms {
		for i, h1 := range hmPool {
			for j, h2 := range hmPool {
				if j < i {
					continue
				}
				for _, md := range mds {
					for _, fd := range [][2]int64{{-1, 0}, {500000, 499999}, {500000, 500001}} {
						if !thorough && (i+j+len(md))%2 == 1 && fd[0] >= 0 {
							continue
						}
						for _, method := range []string{"/s/m", "/s/m1"} {
							route(pm, []xdsmt.HM{h1, h2}, fd[0], method, md, fd[1])
						}
					}
				}
			}
		}
	}
	for i := 0; i < n; i++ {
		f := int64(r.Intn(1000001))
		d := f + int64(r.Intn(5)) - 2
		if r.Intn(3) == 0 {
			d = int64(r.Intn(1000000))
		}
		if d < 0 || d > 999999 {
			continue
		}
		var hms []xdsmt.HM
		for k := r.Intn(3); k > 0; k-- {
			hms = append(hms, hmPool[r.Intn(len(hmPool))])
		}
		route(pms[r.Intn(len(pms))], hms, f, "/s/m", mds[r.Intn(len(mds))], d)
	}
	fmt.Printf("VERIF_SUMMARY {\"pairs\":%d}\n", tr.N)
}
