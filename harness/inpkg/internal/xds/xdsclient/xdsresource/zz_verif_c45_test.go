package xdsresource

// Driver for C45: runs the real unmarshal functions on (1) ClusterLoadAssignment protos built from
// the abstract EDS resources exported by TLC (specs/XdsResourceMC.tla), (2) seeded structural
// mutations of them, (3) seeded random RouteConfigurations, (4) a few Cluster / Listener resources,
// and (5) seeded byte mutations of all of these.  Each resource is unmarshalled twice; the driver
// records accept/reject, whether the two results agree, and an abstract summary of an accepted
// update.  It never judges: TLC validates the trace against specs/XdsResource.tla.

import (
	"encoding/hex"
	"encoding/json"
	"fmt"
	"math"
	"math/rand"
	"os"
	"reflect"
	"regexp"
	"sort"
	"strings"
	"testing"

	v3clusterpb "github.com/envoyproxy/go-control-plane/envoy/config/cluster/v3"
	v3corepb "github.com/envoyproxy/go-control-plane/envoy/config/core/v3"
	v3endpointpb "github.com/envoyproxy/go-control-plane/envoy/config/endpoint/v3"
	v3listenerpb "github.com/envoyproxy/go-control-plane/envoy/config/listener/v3"
	v3routepb "github.com/envoyproxy/go-control-plane/envoy/config/route/v3"
	v3faultpb "github.com/envoyproxy/go-control-plane/envoy/extensions/filters/http/fault/v3"
	v3rbacfilterpb "github.com/envoyproxy/go-control-plane/envoy/extensions/filters/http/rbac/v3"
	v3routerpb "github.com/envoyproxy/go-control-plane/envoy/extensions/filters/http/router/v3"
	v3httppb "github.com/envoyproxy/go-control-plane/envoy/extensions/filters/network/http_connection_manager/v3"
	v3matcherpb "github.com/envoyproxy/go-control-plane/envoy/type/matcher/v3"
	v3typepb "github.com/envoyproxy/go-control-plane/envoy/type/v3"
	"google.golang.org/grpc/internal/testutils/xds/e2e"
	"google.golang.org/grpc/internal/xds/bootstrap"
	"google.golang.org/grpc/internal/xds/xdsclient/xdsresource/version"
	"google.golang.org/grpc/internal/zzverif/vlib"
	"google.golang.org/protobuf/proto"
	"google.golang.org/protobuf/types/known/anypb"
	"google.golang.org/protobuf/types/known/durationpb"
	"google.golang.org/protobuf/types/known/wrapperspb"

	_ "google.golang.org/grpc/internal/xds/httpfilter/fault"  // fault HTTP filter (client side only)
	_ "google.golang.org/grpc/internal/xds/httpfilter/rbac"   // RBAC HTTP filter (server side only)
	_ "google.golang.org/grpc/internal/xds/httpfilter/router" // router HTTP filter (terminal)
)

type c45Ep struct {
	Addr int    `json:"addr"`
	W    string `json:"w"`
}

type c45Loc struct {
	ID   int     `json:"id"`
	Prio uint32  `json:"prio"`
	W    string  `json:"w"`
	Eps  []c45Ep `json:"eps"`
}

type c45Cla struct {
	Name  bool     `json:"name"`
	Locs  []c45Loc `json:"locs"`
	Drops []string `json:"drops"`
}

func c45Weight(tok string) *wrapperspb.UInt32Value {
	switch tok {
	case "unset":
		return nil
	case "0":
		return wrapperspb.UInt32(0)
	case "1":
		return wrapperspb.UInt32(1)
	case "2":
		return wrapperspb.UInt32(2)
	case "max":
		return wrapperspb.UInt32(math.MaxUint32)
	}
	panic("c45: weight token " + tok)
}

func c45BuildCLA(x c45Cla) *v3endpointpb.ClusterLoadAssignment {
	cla := &v3endpointpb.ClusterLoadAssignment{}
	if x.Name {
		cla.ClusterName = "cluster"
	}
	for _, l := range x.Locs {
		le := &v3endpointpb.LocalityLbEndpoints{Priority: l.Prio, LoadBalancingWeight: c45Weight(l.W)}
		if l.ID != 0 {
			le.Locality = &v3corepb.Locality{Region: fmt.Sprintf("r%d", l.ID), Zone: "z", SubZone: "s"}
		}
		for _, e := range l.Eps {
			le.LbEndpoints = append(le.LbEndpoints, &v3endpointpb.LbEndpoint{
				HostIdentifier: &v3endpointpb.LbEndpoint_Endpoint{Endpoint: &v3endpointpb.Endpoint{
					Address: &v3corepb.Address{Address: &v3corepb.Address_SocketAddress{SocketAddress: &v3corepb.SocketAddress{
						Address: fmt.Sprintf("10.0.0.%d", e.Addr), PortSpecifier: &v3corepb.SocketAddress_PortValue{PortValue: 8080}}}}}},
				LoadBalancingWeight: c45Weight(e.W),
			})
		}
		cla.Endpoints = append(cla.Endpoints, le)
	}
	for i, d := range x.Drops {
		den := v3typepb.FractionalPercent_HUNDRED
		switch d {
		case "10k":
			den = v3typepb.FractionalPercent_TEN_THOUSAND
		case "1M":
			den = v3typepb.FractionalPercent_MILLION
		case "bad":
			den = v3typepb.FractionalPercent_DenominatorType(7)
		}
		if cla.Policy == nil {
			cla.Policy = &v3endpointpb.ClusterLoadAssignment_Policy{}
		}
		cla.Policy.DropOverloads = append(cla.Policy.DropOverloads, &v3endpointpb.ClusterLoadAssignment_Policy_DropOverload{
			Category: fmt.Sprintf("d%d", i), DropPercentage: &v3typepb.FractionalPercent{Numerator: 5, Denominator: den}})
	}
	return cla
}


type c45Filter struct {
	Kind string `json:"kind"`
	Opt  bool   `json:"opt"`
	Nm   int    `json:"nm"`
}

type c45Lis struct {
	Name    bool        `json:"name"`
	Side    string      `json:"side"`
	Filters []c45Filter `json:"filters"`
	Route   string      `json:"route"`
	Chain   string      `json:"chain"`
}

func c45Any(m proto.Message) *anypb.Any {
	a, err := anypb.New(m)
	if err != nil {
		panic(err)
	}
	return a
}

func c45BuildListener(y c45Lis) *v3listenerpb.Listener {
	hcm := &v3httppb.HttpConnectionManager{}
	for _, f := range y.Filters {
		hf := &v3httppb.HttpFilter{IsOptional: f.Opt}
		if f.Nm != 0 {
			hf.Name = fmt.Sprintf("f%d", f.Nm)
		}
		var cfg proto.Message
		switch f.Kind {
		case "router":
			cfg = &v3routerpb.Router{}
		case "fault":
			cfg = &v3faultpb.HTTPFault{}
		case "rbac":
			cfg = &v3rbacfilterpb.RBAC{}
		default: // a type for which no HTTP filter is registered
			cfg = wrapperspb.String("not-a-filter")
		}
		hf.ConfigType = &v3httppb.HttpFilter_TypedConfig{TypedConfig: c45Any(cfg)}
		hcm.HttpFilters = append(hcm.HttpFilters, hf)
	}
	ads := &v3corepb.ConfigSource{ConfigSourceSpecifier: &v3corepb.ConfigSource_Ads{Ads: &v3corepb.AggregatedConfigSource{}}}
	switch y.Route {
	case "rds":
		hcm.RouteSpecifier = &v3httppb.HttpConnectionManager_Rds{Rds: &v3httppb.Rds{ConfigSource: ads, RouteConfigName: "route"}}
	case "noname":
		hcm.RouteSpecifier = &v3httppb.HttpConnectionManager_Rds{Rds: &v3httppb.Rds{ConfigSource: ads}}
	case "inline":
		rt := &v3routepb.Route{Match: &v3routepb.RouteMatch{PathSpecifier: &v3routepb.RouteMatch_Prefix{Prefix: "/"}}}
		if y.Side == "api" {
			rt.Action = &v3routepb.Route_Route{Route: &v3routepb.RouteAction{ClusterSpecifier: &v3routepb.RouteAction_Cluster{Cluster: "c"}}}
		} else {
			rt.Action = &v3routepb.Route_NonForwardingAction{NonForwardingAction: &v3routepb.NonForwardingAction{}}
		}
		hcm.RouteSpecifier = &v3httppb.HttpConnectionManager_RouteConfig{RouteConfig: &v3routepb.RouteConfiguration{
			Name: "inline", VirtualHosts: []*v3routepb.VirtualHost{{Domains: []string{"*"}, Routes: []*v3routepb.Route{rt}}}}}
	}
	lis := &v3listenerpb.Listener{}
	if y.Name {
		lis.Name = "listener"
	}
	if y.Side == "api" {
		lis.ApiListener = &v3listenerpb.ApiListener{ApiListener: c45Any(hcm)}
		return lis
	}
	lis.Address = &v3corepb.Address{Address: &v3corepb.Address_SocketAddress{SocketAddress: &v3corepb.SocketAddress{
		Address: "0.0.0.0", PortSpecifier: &v3corepb.SocketAddress_PortValue{PortValue: 9999}}}}
	fc := func(name string) *v3listenerpb.FilterChain {
		return &v3listenerpb.FilterChain{Name: name, Filters: []*v3listenerpb.Filter{{Name: "hcm",
			ConfigType: &v3listenerpb.Filter_TypedConfig{TypedConfig: c45Any(hcm)}}}}
	}
	if y.Chain == "fc" || y.Chain == "both" {
		lis.FilterChains = []*v3listenerpb.FilterChain{fc("fc")}
	}
	if y.Chain == "default" || y.Chain == "both" {
		lis.DefaultFilterChain = fc("default")
	}
	return lis
}

func c45SumHCM(h *HTTPConnectionManagerConfig) map[string]any {
	fs := []any{}
	if h != nil {
		for _, f := range h.HTTPFilters {
			fs = append(fs, map[string]any{"name": c45Hex(f.Name), "term": f.Filter != nil && f.Filter.IsTerminal()})
		}
	}
	return map[string]any{"filters": fs, "rcn": h != nil && h.RouteConfigName != "", "inline": h != nil && h.InlineRouteConfig != nil}
}

func c45SumLDS(u ListenerUpdate) map[string]any {
	hcms := []any{}
	if u.APIListener != nil {
		hcms = append(hcms, c45SumHCM(u.APIListener))
	}
	if t := u.TCPListener; t != nil {
		if !t.DefaultFilterChain.IsEmpty() {
			hcms = append(hcms, c45SumHCM(t.DefaultFilterChain.HTTPConnMgr))
		}
		for _, d := range t.FilterChains.DstPrefixes {
			for _, st := range d.SourceTypeArr {
				for _, e := range st.Entries {
					var ports []int
					for p := range e.PortMap {
						ports = append(ports, p)
					}
					sort.Ints(ports)
					for _, p := range ports {
						if fc := e.PortMap[p]; !fc.IsEmpty() {
							hcms = append(hcms, c45SumHCM(fc.HTTPConnMgr))
						}
					}
				}
			}
		}
	}
	return map[string]any{"api": u.APIListener != nil, "tcp": u.TCPListener != nil, "hcms": hcms}
}

func c45U32(v uint32) [2]int { return [2]int{int(v >> 16), int(v & 0xffff)} }
func c45Hex(s string) string { return "x" + hex.EncodeToString([]byte(s)) }

func c45SumEDS(u EndpointsUpdate) map[string]any {
	locs := []any{}
	for _, l := range u.Localities {
		eps := []any{}
		for _, e := range l.Endpoints {
			addrs := []string{}
			for _, a := range e.ResolverEndpoint.Addresses {
				addrs = append(addrs, c45Hex(a.Addr))
			}
			eps = append(eps, map[string]any{"addrs": addrs, "w": c45U32(e.Weight)})
		}
		locs = append(locs, map[string]any{
			"id":   c45Hex(l.ID.Region) + "|" + c45Hex(l.ID.Zone) + "|" + c45Hex(l.ID.SubZone),
			"prio": c45U32(l.Priority), "w": c45U32(l.Weight), "eps": eps})
	}
	drops := []any{}
	for _, d := range u.Drops {
		den := int(d.Denominator)
		if d.Denominator > 1<<30 {
			den = -1
		}
		drops = append(drops, map[string]any{"num": c45U32(d.Numerator), "den": den})
	}
	return map[string]any{"locs": locs, "drops": drops}
}

func c45SumRDS(u RouteConfigUpdate) map[string]any {
	vhs := []any{}
	for _, vh := range u.VirtualHosts {
		routes := []any{}
		for _, r := range vh.Routes {
			n := 0
			if r.Path != nil {
				n++
			}
			if r.Prefix != nil {
				n++
			}
			if r.Regex != nil {
				n++
			}
			act := "other"
			switch r.ActionType {
			case RouteActionRoute:
				act = "route"
			case RouteActionNonForwardingAction:
				act = "nonforwarding"
			case RouteActionUnsupported:
				act = "unsupported"
			}
			wcs := [][2]int{}
			for _, wc := range r.WeightedClusters {
				wcs = append(wcs, c45U32(wc.Weight))
			}
			routes = append(routes, map[string]any{"path": n, "action": act, "wcs": wcs, "csp": r.ClusterSpecifierPlugin != ""})
		}
		vhs = append(vhs, map[string]any{"routes": routes})
	}
	return map[string]any{"vhs": vhs}
}

// c45Dump renders a value canonically (pointers followed, maps sorted, protos as wire bytes), to
// compare the results of two calls.
var (
	c45DumpBudget int
	c45ProtoType  = reflect.TypeOf((*proto.Message)(nil)).Elem()
)

func c45Dump(sb *strings.Builder, v reflect.Value, depth int) {
	c45DumpBudget--
	if depth > 60 || c45DumpBudget < 0 {
		sb.WriteString("<cut>")
		return
	}
	if !v.IsValid() {
		sb.WriteString("<invalid>")
		return
	}
	if v.CanInterface() {
		switch m := v.Interface().(type) {
		case proto.Message:
			if m == nil || !m.ProtoReflect().IsValid() {
				sb.WriteString("<nil proto>")
				return
			}
			b, _ := proto.MarshalOptions{Deterministic: true}.Marshal(m)
			sb.WriteString("proto:" + hex.EncodeToString(b))
			return
		case *regexp.Regexp:
			if m == nil {
				sb.WriteString("<nil re>")
			} else {
				sb.WriteString("re:" + m.String())
			}
			return
		}
	}
	switch v.Kind() {
	case reflect.Pointer, reflect.Interface:
		if v.IsNil() {
			sb.WriteString("nil")
			return
		}
		if v.Kind() == reflect.Pointer && v.Type().Implements(c45ProtoType) {
			// a proto message reached through an unexported field: render its wire form, never its internals
			m := reflect.NewAt(v.Type().Elem(), v.UnsafePointer()).Interface().(proto.Message)
			b, _ := proto.MarshalOptions{Deterministic: true}.Marshal(m)
			sb.WriteString("proto:" + hex.EncodeToString(b))
			return
		}
		sb.WriteString("&")
		c45Dump(sb, v.Elem(), depth+1)
	case reflect.Struct:
		if v.Type() == reflect.TypeOf(regexp.Regexp{}) {
			sb.WriteString("re-struct")
			return
		}
		if pp := v.Type().PkgPath(); strings.HasPrefix(pp, "google.golang.org/protobuf/") || pp == "sync" || pp == "sync/atomic" || pp == "reflect" {
			sb.WriteString("<" + v.Type().String() + ">")
			return
		}
		sb.WriteString(v.Type().Name() + "{")
		for i := 0; i < v.NumField(); i++ {
			sb.WriteString(v.Type().Field(i).Name + ":")
			c45Dump(sb, v.Field(i), depth+1)
			sb.WriteString(",")
		}
		sb.WriteString("}")
	case reflect.Slice, reflect.Array:
		if v.Kind() == reflect.Slice && v.IsNil() {
			sb.WriteString("[]")
			return
		}
		sb.WriteString("[")
		for i := 0; i < v.Len(); i++ {
			c45Dump(sb, v.Index(i), depth+1)
			sb.WriteString(",")
		}
		sb.WriteString("]")
	case reflect.Map:
		var keys []string
		byKey := map[string]reflect.Value{}
		for _, k := range v.MapKeys() {
			var kb strings.Builder
			c45Dump(&kb, k, depth+1)
			keys = append(keys, kb.String())
			byKey[kb.String()] = v.MapIndex(k)
		}
		sort.Strings(keys)
		sb.WriteString("map[")
		for _, k := range keys {
			sb.WriteString(k + "=>")
			c45Dump(sb, byKey[k], depth+1)
			sb.WriteString(",")
		}
		sb.WriteString("]")
	case reflect.Func, reflect.Chan, reflect.UnsafePointer:
		if v.IsNil() {
			sb.WriteString("nil")
		} else {
			sb.WriteString("<" + v.Kind().String() + ">")
		}
	case reflect.String:
		sb.WriteString(fmt.Sprintf("%q", v.String()))
	case reflect.Bool:
		sb.WriteString(fmt.Sprint(v.Bool()))
	case reflect.Int, reflect.Int8, reflect.Int16, reflect.Int32, reflect.Int64:
		sb.WriteString(fmt.Sprint(v.Int()))
	case reflect.Uint, reflect.Uint8, reflect.Uint16, reflect.Uint32, reflect.Uint64:
		sb.WriteString(fmt.Sprint(v.Uint()))
	case reflect.Float32, reflect.Float64:
		sb.WriteString(fmt.Sprint(v.Float()))
	default:
		sb.WriteString("<" + v.Kind().String() + ">")
	}
}

func c45DumpOf(x any) string {
	var sb strings.Builder
	c45DumpBudget = 200000
	c45Dump(&sb, reflect.ValueOf(x), 0)
	return sb.String()
}

type c45Result struct {
	ok    bool
	zero  bool
	name  string
	dump  string
	sum   map[string]any
	panic string
}

type c45Env struct {
	bc *bootstrap.Config
}

// c45Once runs one unmarshal function on a fresh copy of the resource.
func (env *c45Env) once(kind, typeURL string, val []byte) (res c45Result) {
	defer func() {
		if r := recover(); r != nil {
			res = c45Result{panic: fmt.Sprint(r)}
		}
	}()
	a := &anypb.Any{TypeUrl: typeURL, Value: append([]byte(nil), val...)}
	switch kind {
	case "eds":
		name, u, err := unmarshalEndpointsResource(a)
		res = c45Result{ok: err == nil, name: name}
		if err == nil {
			res.sum = c45SumEDS(u)
		}
		res.zero = err == nil || (u.Raw == nil && len(u.Localities) == 0 && len(u.Drops) == 0)
		res.dump = c45DumpOf(u)
	case "rds":
		name, u, err := unmarshalRouteConfigResource(a, env.bc, nil)
		res = c45Result{ok: err == nil, name: name}
		if err == nil {
			res.sum = c45SumRDS(u)
		}
		res.zero = err == nil || (u.Raw == nil && len(u.VirtualHosts) == 0 && len(u.ClusterSpecifierPlugins) == 0)
		res.dump = c45DumpOf(u)
	case "cds":
		name, u, err := unmarshalClusterResource(a, nil)
		res = c45Result{ok: err == nil, name: name}
		res.zero = err == nil || reflect.ValueOf(u).IsZero()
		res.dump = c45DumpOf(u)
	case "lds":
		name, u, err := unmarshalListenerResource(a, env.bc, nil)
		res = c45Result{ok: err == nil, name: name}
		if err == nil {
			res.sum = c45SumLDS(u)
		}
		res.zero = err == nil || reflect.ValueOf(u).IsZero()
		res.dump = c45DumpOf(u)
	default:
		panic("c45: kind " + kind)
	}
	return res
}

func (env *c45Env) run(tr *vlib.Trace, kind, typeURL string, val []byte, in json.RawMessage, how string) bool {
	r1 := env.once(kind, typeURL, val)
	r2 := env.once(kind, typeURL, val)
	if r1.panic != "" || r2.panic != "" {
		tr.Emit(map[string]any{"ev": "panic", "kind": kind, "how": how, "r": r1.panic + r2.panic, "bytes": hex.EncodeToString(val)})
		return false
	}
	ev := map[string]any{"ev": kind, "how": how, "ok": r1.ok, "ok2": r2.ok, "zero": r1.zero && r2.zero,
		"det": r1.ok == r2.ok && r1.name == r2.name && r1.dump == r2.dump, "has_in": in != nil}
	if in != nil {
		ev["in"] = in
	}
	if r1.ok && r1.sum != nil {
		ev["sum"] = r1.sum
	}
	if how != "tlc" {
		ev["bytes"] = hex.EncodeToString(val)
	}
	tr.Emit(ev)
	return r1.ok
}

func c45MutateBytes(r *rand.Rand, b []byte) []byte {
	out := append([]byte(nil), b...)
	for k := 1 + r.Intn(3); k > 0; k-- {
		if len(out) == 0 {
			out = append(out, byte(r.Intn(256)))
			continue
		}
		i := r.Intn(len(out))
		switch r.Intn(6) {
		case 0:
			out[i] ^= 1 << uint(r.Intn(8))
		case 1:
			out[i] = byte(r.Intn(256))
		case 2:
			out = append(out[:i], out[i+1:]...)
		case 3:
			out = append(out[:i], append([]byte{byte(r.Intn(256))}, out[i:]...)...)
		case 4:
			out = out[:i]
		case 5: // overwrite with a maximal varint
			out = append(out[:i], append([]byte{0xff, 0xff, 0xff, 0xff, 0x0f}, out[i:]...)...)
		}
	}
	return out
}

// c45MutateCLA applies one structural mutation: drop a field, duplicate an entry, huge number.
func c45MutateCLA(r *rand.Rand, cla *v3endpointpb.ClusterLoadAssignment) {
	if len(cla.Endpoints) == 0 {
		cla.Endpoints = append(cla.Endpoints, &v3endpointpb.LocalityLbEndpoints{})
		return
	}
	li := r.Intn(len(cla.Endpoints))
	l := cla.Endpoints[li]
	if l == nil {
		return
	}
	for _, e := range l.LbEndpoints {
		if e == nil { // an earlier mutation appended a nil element: leave this locality alone
			return
		}
	}
	switch r.Intn(12) {
	case 0:
		l.Locality = nil
	case 1:
		l.LoadBalancingWeight = nil
	case 2:
		l.LoadBalancingWeight = wrapperspb.UInt32(math.MaxUint32 - uint32(r.Intn(2)))
	case 3:
		l.Priority = []uint32{math.MaxUint32, 1 << 31, 7, 1}[r.Intn(4)]
	case 4:
		cla.Endpoints = append(cla.Endpoints, proto.Clone(l).(*v3endpointpb.LocalityLbEndpoints))
	case 5:
		if len(l.LbEndpoints) > 0 {
			e := l.LbEndpoints[r.Intn(len(l.LbEndpoints))]
			other := cla.Endpoints[r.Intn(len(cla.Endpoints))]
			other.LbEndpoints = append(other.LbEndpoints, proto.Clone(e).(*v3endpointpb.LbEndpoint))
		}
	case 6:
		if len(l.LbEndpoints) > 0 {
			l.LbEndpoints[r.Intn(len(l.LbEndpoints))].HostIdentifier = nil
		}
	case 7:
		if len(l.LbEndpoints) > 0 {
			if ep := l.LbEndpoints[r.Intn(len(l.LbEndpoints))].GetEndpoint(); ep != nil {
				ep.Address = nil
			}
		}
	case 8:
		if len(l.LbEndpoints) > 0 {
			l.LbEndpoints[r.Intn(len(l.LbEndpoints))].LoadBalancingWeight = wrapperspb.UInt32([]uint32{0, math.MaxUint32, 1 << 31}[r.Intn(3)])
		}
	case 9:
		if len(l.LbEndpoints) > 0 {
			if sa := l.LbEndpoints[r.Intn(len(l.LbEndpoints))].GetEndpoint().GetAddress().GetSocketAddress(); sa != nil {
				sa.PortSpecifier = &v3corepb.SocketAddress_PortValue{PortValue: math.MaxUint32}
			}
		}
	case 10:
		l.LbEndpoints = append(l.LbEndpoints, nil)
	case 11:
		cla.Policy = &v3endpointpb.ClusterLoadAssignment_Policy{DropOverloads: []*v3endpointpb.ClusterLoadAssignment_Policy_DropOverload{
			nil, {Category: "x", DropPercentage: &v3typepb.FractionalPercent{Numerator: math.MaxUint32, Denominator: v3typepb.FractionalPercent_DenominatorType(r.Intn(5))}}}}
	}
}

func c45RandRoute(r *rand.Rand) *v3routepb.Route {
	rt := &v3routepb.Route{}
	m := &v3routepb.RouteMatch{}
	switch r.Intn(8) {
	case 0:
		m.PathSpecifier = &v3routepb.RouteMatch_Prefix{Prefix: "/s/"}
	case 1:
		m.PathSpecifier = &v3routepb.RouteMatch_Path{Path: "/s/m"}
	case 2:
		m.PathSpecifier = &v3routepb.RouteMatch_SafeRegex{SafeRegex: &v3matcherpb.RegexMatcher{Regex: "/s/.*"}}
	case 3:
		m.PathSpecifier = &v3routepb.RouteMatch_SafeRegex{SafeRegex: &v3matcherpb.RegexMatcher{Regex: "a(b"}}
	case 4:
		m.PathSpecifier = &v3routepb.RouteMatch_ConnectMatcher_{ConnectMatcher: &v3routepb.RouteMatch_ConnectMatcher{}}
	case 5:
		m.PathSpecifier = &v3routepb.RouteMatch_Prefix{Prefix: ""}
	case 6: // no path specifier
	case 7:
		m = nil
	}
	if m != nil && r.Intn(6) == 0 {
		m.QueryParameters = []*v3routepb.QueryParameterMatcher{{Name: "q"}}
	}
	if m != nil && r.Intn(5) == 0 {
		m.CaseSensitive = wrapperspb.Bool(false)
	}
	if m != nil && r.Intn(4) == 0 {
		m.Headers = []*v3routepb.HeaderMatcher{{Name: "h", HeaderMatchSpecifier: &v3routepb.HeaderMatcher_PrefixMatch{PrefixMatch: []string{"p", ""}[r.Intn(2)]}}}
	}
	if m != nil && r.Intn(5) == 0 {
		m.RuntimeFraction = &v3corepb.RuntimeFractionalPercent{DefaultValue: &v3typepb.FractionalPercent{Numerator: []uint32{1, math.MaxUint32}[r.Intn(2)],
			Denominator: v3typepb.FractionalPercent_DenominatorType(r.Intn(3))}}
	}
	rt.Match = m
	ws := []uint32{0, 0, 1, 2, math.MaxUint32, 1 << 31}
	switch r.Intn(9) {
	case 0:
		rt.Action = &v3routepb.Route_Route{Route: &v3routepb.RouteAction{ClusterSpecifier: &v3routepb.RouteAction_Cluster{Cluster: "c"}}}
	case 1, 2, 3:
		wc := &v3routepb.WeightedCluster{}
		for k := r.Intn(4); k > 0; k-- {
			c := &v3routepb.WeightedCluster_ClusterWeight{Name: fmt.Sprintf("c%d", k)}
			if r.Intn(5) != 0 {
				c.Weight = wrapperspb.UInt32(ws[r.Intn(len(ws))])
			}
			wc.Clusters = append(wc.Clusters, c)
		}
		ra := &v3routepb.RouteAction{ClusterSpecifier: &v3routepb.RouteAction_WeightedClusters{WeightedClusters: wc}}
		if r.Intn(4) == 0 {
			ra.MaxStreamDuration = &v3routepb.RouteAction_MaxStreamDuration{MaxStreamDuration: durationpb.New(1 << 40)}
		}
		if r.Intn(4) == 0 {
			ra.RetryPolicy = &v3routepb.RetryPolicy{RetryOn: "cancelled,unavailable", NumRetries: wrapperspb.UInt32(ws[r.Intn(len(ws))])}
		}
		rt.Action = &v3routepb.Route_Route{Route: ra}
	case 4:
		rt.Action = &v3routepb.Route_Route{Route: &v3routepb.RouteAction{ClusterSpecifier: &v3routepb.RouteAction_ClusterSpecifierPlugin{ClusterSpecifierPlugin: "missing"}}}
	case 5:
		rt.Action = &v3routepb.Route_Route{Route: &v3routepb.RouteAction{ClusterSpecifier: &v3routepb.RouteAction_ClusterHeader{ClusterHeader: "h"}}}
	case 6:
		rt.Action = &v3routepb.Route_NonForwardingAction{NonForwardingAction: &v3routepb.NonForwardingAction{}}
	case 7:
		rt.Action = &v3routepb.Route_Redirect{Redirect: &v3routepb.RedirectAction{}}
	case 8: // no action
	}
	return rt
}

func c45RandRDS(r *rand.Rand) *v3routepb.RouteConfiguration {
	rc := &v3routepb.RouteConfiguration{Name: "route"}
	if r.Intn(20) == 0 {
		rc.Name = ""
	}
	for k := r.Intn(3); k > 0; k-- {
		vh := &v3routepb.VirtualHost{Domains: []string{"*"}}
		for j := r.Intn(4); j > 0; j-- {
			vh.Routes = append(vh.Routes, c45RandRoute(r))
		}
		if r.Intn(8) == 0 {
			vh.Routes = append(vh.Routes, nil)
		}
		rc.VirtualHosts = append(rc.VirtualHosts, vh)
	}
	return rc
}

// c45Marshal serialises a generated resource; a resource the proto library cannot serialise
// (driver-side problem, e.g. a nil list element) is replaced by the empty message.
func c45Marshal(m proto.Message) (b []byte) {
	defer func() {
		if r := recover(); r != nil {
			b = []byte{}
		}
	}()
	b, err := proto.Marshal(m)
	if err != nil {
		return []byte{}
	}
	return b
}

func TestVerifC45(t *testing.T) {
	tr, err := vlib.NewTrace(os.Getenv("VERIF_OUT"))
	if err != nil {
		t.Fatal(err)
	}
	defer tr.Close()
	lines, err := vlib.ReadLines(os.Getenv("VERIF_BEHAVIOURS"))
	if err != nil {
		t.Fatal(err)
	}
	seed := int64(vlib.EnvInt("VERIF_SEED", 1))
	nMut := vlib.EnvInt("VERIF_N", 2000)
	r := rand.New(rand.NewSource(seed))
	bc, err := bootstrap.NewConfigFromContents([]byte(`{
		"xds_servers": [{"server_uri": "ipv4:///127.0.0.1:443", "channel_creds": [{"type": "insecure"}]}],
		"node": {"id": "verif"}
	}`))
	if err != nil {
		t.Fatalf("bootstrap: %v", err)
	}
	env := &c45Env{bc: bc}
	counts := map[string]int{}
	acc := map[string]int{}
	note := func(kind string, ok bool) {
		counts[kind]++
		if ok {
			acc[kind]++
		}
	}

	// (1) the TLC-generated EDS and LDS resources
	var clas []*v3endpointpb.ClusterLoadAssignment
	var lisBytes [][]byte
	for n, ln := range lines {
		var in struct {
			X json.RawMessage `json:"x"`
			Y json.RawMessage `json:"y"`
		}
		if err := json.Unmarshal(ln, &in); err != nil {
			t.Fatalf("line %d: %v", n+1, err)
		}
		if in.Y != nil { // a TLC-generated abstract Listener
			var y c45Lis
			if err := json.Unmarshal(in.Y, &y); err != nil {
				t.Fatalf("line %d: %v", n+1, err)
			}
			b := c45Marshal(c45BuildListener(y))
			lisBytes = append(lisBytes, b)
			note("lds", env.run(tr, "lds", version.V3ListenerURL, b, in.Y, "tlc"))
			continue
		}
		var x c45Cla
		if err := json.Unmarshal(in.X, &x); err != nil {
			t.Fatalf("line %d: %v", n+1, err)
		}
		cla := c45BuildCLA(x)
		clas = append(clas, cla)
		note("eds", env.run(tr, "eds", version.V3EndpointsURL, c45Marshal(cla), in.X, "tlc"))
	}
	if len(clas) == 0 {
		t.Fatal("no EDS resources")
	}
	// (2) structural and (5) byte mutations of them
	for i := 0; i < nMut; i++ {
		cla := proto.Clone(clas[r.Intn(len(clas))]).(*v3endpointpb.ClusterLoadAssignment)
		for k := 1 + r.Intn(2); k > 0; k-- {
			c45MutateCLA(r, cla)
		}
		note("eds-struct", env.run(tr, "eds", version.V3EndpointsURL, c45Marshal(cla), nil, "struct"))
		b := c45MutateBytes(r, c45Marshal(clas[r.Intn(len(clas))]))
		note("eds-bytes", env.run(tr, "eds", version.V3EndpointsURL, b, nil, "bytes"))
	}
	// (3) random RouteConfigurations and their byte mutations
	for i := 0; i < nMut; i++ {
		b := c45Marshal(c45RandRDS(r))
		note("rds", env.run(tr, "rds", version.V3RouteConfigURL, b, nil, "struct"))
		if i%2 == 0 {
			note("rds-bytes", env.run(tr, "rds", version.V3RouteConfigURL, c45MutateBytes(r, b), nil, "bytes"))
		}
	}
	// (4) Cluster and Listener resources: totality and determinism only
	clusters := []*v3clusterpb.Cluster{
		e2e.DefaultCluster("c", "eds", e2e.SecurityLevelNone),
		e2e.ClusterResourceWithOptions(e2e.ClusterOptions{ClusterName: "c", Type: e2e.ClusterTypeLogicalDNS, DNSHostName: "h", DNSPort: 80}),
		e2e.ClusterResourceWithOptions(e2e.ClusterOptions{ClusterName: "c", Type: e2e.ClusterTypeAggregate, ChildNames: []string{"a", "b"}}),
		e2e.ClusterResourceWithOptions(e2e.ClusterOptions{ClusterName: "c", ServiceName: "s", Policy: e2e.LoadBalancingPolicyRingHash, EnableLRS: true}),
	}
	od := e2e.DefaultCluster("c", "eds", e2e.SecurityLevelNone)
	od.OutlierDetection = &v3clusterpb.OutlierDetection{Interval: durationpb.New(1e9), MaxEjectionPercent: wrapperspb.UInt32(50),
		EnforcingSuccessRate: wrapperspb.UInt32(100), SuccessRateStdevFactor: wrapperspb.UInt32(1900)}
	od.CircuitBreakers = &v3clusterpb.CircuitBreakers{Thresholds: []*v3clusterpb.CircuitBreakers_Thresholds{{MaxRequests: wrapperspb.UInt32(math.MaxUint32)}}}
	clusters = append(clusters, od)
	var cbytes, lbytes [][]byte
	for _, c := range clusters {
		cbytes = append(cbytes, c45Marshal(c))
	}
	lbytes = append(lbytes, c45Marshal(e2e.DefaultClientListener("t", "route")),
		c45Marshal(e2e.DefaultServerListener("0.0.0.0", 80, e2e.SecurityLevelNone, "route")),
		c45Marshal(e2e.DefaultServerListenerWithRouteConfigName("0.0.0.0", 80, e2e.SecurityLevelNone, "route")))
	for _, b := range cbytes {
		note("cds", env.run(tr, "cds", version.V3ClusterURL, b, nil, "base"))
	}
	for _, b := range lbytes {
		note("lds", env.run(tr, "lds", version.V3ListenerURL, b, nil, "base"))
	}
	for i := 0; i < nMut/2; i++ {
		note("cds-bytes", env.run(tr, "cds", version.V3ClusterURL, c45MutateBytes(r, cbytes[r.Intn(len(cbytes))]), nil, "bytes"))
		note("lds-bytes", env.run(tr, "lds", version.V3ListenerURL, c45MutateBytes(r, lbytes[r.Intn(len(lbytes))]), nil, "bytes"))
		if len(lisBytes) > 0 {
			note("lds-bytes", env.run(tr, "lds", version.V3ListenerURL, c45MutateBytes(r, lisBytes[r.Intn(len(lisBytes))]), nil, "bytes"))
		}
	}
	sj, _ := json.Marshal(map[string]any{"run": counts, "accepted": acc})
	fmt.Printf("VERIF_SUMMARY %s\n", sj)
}
