package resolver_test

// Driver for C51: sequential replay of TLC behaviours on the real xDS resolver, fed by a real
// management server through the real xDS client and dependency manager (the package's own test
// scaffolding).  Three clusters c1..c3 always exist (CDS + EDS); a route update installs one
// route per cluster of the set (prefix /cN/ -> cluster cN) so that SelectConfig can be aimed at
// a cluster.  A recording resolver.ClientConn captures every pushed service config.  After each
// step the driver waits (bounded) until the pushed configuration is the one the behaviour
// expects; it records what was pushed last - ClusterRefTrace.tla judges.

import (
	"context"
	"encoding/json"
	"fmt"
	"net/url"
	"os"
	"sort"
	"strings"
	"sync"
	"testing"
	"time"

	"github.com/google/uuid"
	"google.golang.org/grpc/internal"
	iresolver "google.golang.org/grpc/internal/resolver"
	"google.golang.org/grpc/internal/testutils"
	"google.golang.org/grpc/internal/testutils/xds/e2e"
	"google.golang.org/grpc/internal/xds/bootstrap"
	"google.golang.org/grpc/internal/xds/xdsclient/xdsresource"
	"google.golang.org/grpc/internal/zzverif/vlib"
	"google.golang.org/grpc/resolver"
	"google.golang.org/grpc/serviceconfig"
	"google.golang.org/protobuf/types/known/wrapperspb"

	v3clusterpb "github.com/envoyproxy/go-control-plane/envoy/config/cluster/v3"
	v3endpointpb "github.com/envoyproxy/go-control-plane/envoy/config/endpoint/v3"
	v3listenerpb "github.com/envoyproxy/go-control-plane/envoy/config/listener/v3"
	v3routepb "github.com/envoyproxy/go-control-plane/envoy/config/route/v3"
)

// c51CC records the pushed states together with the raw service config JSON.
type c51CC struct {
	resolver.ClientConn
	mu     sync.Mutex
	lastJS string
	state  resolver.State
	cfg    []int // clusters of the last pushed service config
	routes []int // clusters of the routes of the last pushed xDS config
	n      int
	ch     chan struct{}

	timedOut bool
}

// number of expired waits so far; after a few the run is failing anyway and the bound shrinks
var c51Timeouts int

func (c *c51CC) ParseServiceConfig(js string) *serviceconfig.ParseResult {
	c.mu.Lock()
	c.lastJS = js
	c.mu.Unlock()
	return internal.ParseServiceConfig.(func(string) *serviceconfig.ParseResult)(js)
}

func c51Num(name string) int {
	var n int
	if _, err := fmt.Sscanf(name, "c%d", &n); err != nil {
		return 0
	}
	return n
}

func (c *c51CC) UpdateState(s resolver.State) error {
	c.mu.Lock()
	var parsed struct {
		LB []map[string]struct {
			Children map[string]json.RawMessage `json:"children"`
		} `json:"loadBalancingConfig"`
	}
	cfg := []int{}
	if json.Unmarshal([]byte(c.lastJS), &parsed) == nil {
		for _, lb := range parsed.LB {
			for _, v := range lb {
				for k := range v.Children {
					cfg = append(cfg, c51Num(strings.TrimPrefix(k, "cluster:")))
				}
			}
		}
	}
	sort.Ints(cfg)
	routes := []int{}
	if xc := xdsresource.XDSConfigFromResolverState(s); xc != nil && xc.VirtualHost != nil {
		for _, rt := range xc.VirtualHost.Routes {
			for _, wc := range rt.WeightedClusters {
				routes = append(routes, c51Num(wc.Name))
			}
		}
	}
	sort.Ints(routes)
	c.state, c.cfg, c.routes = s, cfg, routes
	c.n++
	c.mu.Unlock()
	select {
	case c.ch <- struct{}{}:
	default:
	}
	return nil
}
func (c *c51CC) ReportError(error) {}

func c51Eq(a, b []int) bool {
	if len(a) != len(b) {
		return false
	}
	for i := range a {
		if a[i] != b[i] {
			return false
		}
	}
	return true
}

// wait until the last pushed state has the expected route set (nil: any) and cluster set, or the
// bound expires (failing paths only); returns the cluster set of the last pushed config.
func (c *c51CC) wait(routes, cfg []int, bound time.Duration) []int {
	if c.timedOut {
		// the expected configuration was already missed once in this behaviour (that is recorded):
		// do not wait the full bound again at every later step
		bound = bound / 40
	}
	deadline := time.After(bound)
	for {
		c.mu.Lock()
		ok := c.n > 0 && (routes == nil || c51Eq(c.routes, routes)) && c51Eq(c.cfg, cfg)
		cur := append([]int{}, c.cfg...)
		c.mu.Unlock()
		if ok {
			return cur
		}
		select {
		case <-c.ch:
		case <-deadline:
			c.timedOut = true
			c51Timeouts++
			return cur
		}
	}
}

func c51WC(names ...string) *v3routepb.RouteAction_WeightedClusters {
	var cw []*v3routepb.WeightedCluster_ClusterWeight
	for _, n := range names {
		cw = append(cw, &v3routepb.WeightedCluster_ClusterWeight{Name: n, Weight: &wrapperspb.UInt32Value{Value: 50}})
	}
	return &v3routepb.RouteAction_WeightedClusters{WeightedClusters: &v3routepb.WeightedCluster{Clusters: cw}}
}

// c51Route builds the route configuration for the multiset m of entries (m[n-1] entries name
// cluster cN).  Every entry of cluster cN is reachable through a prefix /cN.../ that leads to cN
// only.  Two entries: variant 0 = two routes, variant 1 = one route whose weighted-cluster list
// names cN twice.  Returns the expected entry list (sorted, with repetitions).
func c51Route(m []int, variant int) (*v3routepb.RouteConfiguration, []int) {
	var routes []*v3routepb.Route
	entries := []int{}
	add := func(prefix string, names ...string) {
		routes = append(routes, &v3routepb.Route{
			Match:  &v3routepb.RouteMatch{PathSpecifier: &v3routepb.RouteMatch_Prefix{Prefix: prefix}},
			Action: &v3routepb.Route_Route{Route: &v3routepb.RouteAction{ClusterSpecifier: c51WC(names...)}},
		})
	}
	for i, k := range m {
		n := i + 1
		name := fmt.Sprintf("c%d", n)
		for j := 0; j < k; j++ {
			entries = append(entries, n)
		}
		switch {
		case k == 1:
			add(fmt.Sprintf("/c%d/", n), name)
		case k == 2 && (variant+n)%2 == 0:
			add(fmt.Sprintf("/c%d/", n), name)
			add(fmt.Sprintf("/c%db/", n), name)
		case k == 2:
			add(fmt.Sprintf("/c%d/", n), name, name)
		case k >= 3:
			add(fmt.Sprintf("/c%d/", n), name, name)
			for j := 2; j < k; j++ {
				add(fmt.Sprintf("/c%dx%d/", n, j), name)
			}
		}
	}
	sort.Ints(entries)
	return &v3routepb.RouteConfiguration{
		Name:         defaultTestRouteConfigName,
		VirtualHosts: []*v3routepb.VirtualHost{{Domains: []string{defaultTestServiceName}, Routes: routes}},
	}, entries
}

type c51Step struct {
	A   string `json:"a"`
	M   []int  `json:"m"` // route step: number of route entries naming c1, c2, c3
	I   int    `json:"i"`
	C   int    `json:"c"`
	Exp []int  `json:"exp"` // configuration the specification expects after the step (wait condition only)
}

func c51Run(t *testing.T, mgmt *e2e.ManagementServer, steps []c51Step, id int, tr *vlib.Trace, bound time.Duration) {
	ctx, cancel := context.WithTimeout(context.Background(), 60*time.Second)
	defer cancel()
	nodeID := uuid.New().String()
	// bootstrap without certificate providers (the stock helper reads testdata through a source path)
	bc, err := bootstrap.NewContentsForTesting(bootstrap.ConfigOptionsForTesting{
		Servers: []byte(fmt.Sprintf(`[{"server_uri": "passthrough:///%s", "channel_creds": [{"type": "insecure"}], "server_features": ["trusted_xds_server"]}]`, mgmt.Address)),
		Node:    []byte(fmt.Sprintf(`{"id": "%s"}`, nodeID)),
	})
	if err != nil {
		t.Fatalf("bootstrap: %v", err)
	}
	listeners := []*v3listenerpb.Listener{e2e.DefaultClientListener(defaultTestServiceName, defaultTestRouteConfigName)}
	var clusters []*v3clusterpb.Cluster
	var endpoints []*v3endpointpb.ClusterLoadAssignment
	for n := 1; n <= 3; n++ {
		clusters = append(clusters, e2e.DefaultCluster(fmt.Sprintf("c%d", n), fmt.Sprintf("e%d", n), e2e.SecurityLevelNone))
		endpoints = append(endpoints, e2e.DefaultEndpoint(fmt.Sprintf("e%d", n), "localhost", []uint32{uint32(8080 + n)}))
	}
	builder, err := internal.NewXDSResolverWithConfigForTesting.(func([]byte) (resolver.Builder, error))(bc)
	if err != nil {
		t.Fatalf("resolver builder: %v", err)
	}
	cc := &c51CC{ch: make(chan struct{}, 1)}
	var r resolver.Resolver
	tr.Emit(map[string]any{"ev": "reset", "b": id})
	defer func() {
		// a panic of the code under test (SelectConfig / OnCommitted run on this goroutine) is an event
		if x := recover(); x != nil {
			tr.Emit(map[string]any{"ev": "panic", "what": fmt.Sprint(x)})
		}
	}()
	rpcs := map[int]*iresolver.RPCConfig{}
	for _, st := range steps {
		sort.Ints(st.Exp)
		switch st.A {
		case "route":
			rc, entries := c51Route(st.M, id)
			configureResources(ctx, t, mgmt, nodeID, listeners, []*v3routepb.RouteConfiguration{rc}, clusters, endpoints)
			if r == nil {
				target := resolver.Target{URL: *testutils.MustParseURL("xds:///" + defaultTestServiceName)}
				r, err = builder.Build(target, cc, resolver.BuildOptions{Authority: url.PathEscape(target.Endpoint())})
				if err != nil {
					t.Fatalf("build: %v", err)
				}
				defer r.Close()
			}
			cfg := cc.wait(entries, st.Exp, bound)
			tr.Emit(map[string]any{"ev": "route", "m": st.M, "cfg": cfg})
		case "select":
			cc.mu.Lock()
			cs := iresolver.GetConfigSelector(cc.state)
			cc.mu.Unlock()
			// even RPC numbers try the cluster's second route entry first (it exists in some variants)
			paths := []string{fmt.Sprintf("/c%d/method", st.C), fmt.Sprintf("/c%db/method", st.C)}
			if st.I%2 == 0 {
				paths[0], paths[1] = paths[1], paths[0]
			}
			res, err := cs.SelectConfig(iresolver.RPCInfo{Context: ctx, Method: paths[0]})
			if err != nil {
				res, err = cs.SelectConfig(iresolver.RPCInfo{Context: ctx, Method: paths[1]})
			}
			if err == nil {
				rpcs[st.I] = res
			}
			cfg := cc.wait(nil, st.Exp, bound)
			tr.Emit(map[string]any{"ev": "select", "i": st.I, "c": st.C, "err": err != nil, "cfg": cfg})
		case "commit", "commit_again":
			if res := rpcs[st.I]; res != nil { // nil: its SelectConfig failed (logged; the monitor stopped judging there)
				res.OnCommitted()
			}
			cfg := cc.wait(nil, st.Exp, bound)
			tr.Emit(map[string]any{"ev": st.A, "i": st.I, "cfg": cfg})
		}
	}
	// release what is still selected so that nothing outlives the resolver
	for _, res := range rpcs {
		if res != nil {
			res.OnCommitted()
		}
	}
}

func TestVerifC51Replay(t *testing.T) {
	lines, err := vlib.ReadLines(os.Getenv("VERIF_BEHAVIOURS"))
	if err != nil {
		t.Fatal(err)
	}
	tr, err := vlib.NewTrace(os.Getenv("VERIF_OUT"))
	if err != nil {
		t.Fatal(err)
	}
	defer tr.Close()
	bound := time.Duration(vlib.EnvInt("VERIF_BOUND_MS", 5000)) * time.Millisecond
	mgmt := e2e.StartManagementServer(t, e2e.ManagementServerOptions{AllowResourceSubset: true})
	for i, ln := range lines {
		var steps []c51Step
		if err := json.Unmarshal(ln, &steps); err != nil {
			t.Fatal(err)
		}
		b := bound
		if c51Timeouts >= 5 {
			b = bound / 20
		}
		t.Run(fmt.Sprint(i), func(t *testing.T) { c51Run(t, mgmt, steps, i, tr, b) })
	}
	fmt.Printf("VERIF_SUMMARY {\"behaviours\":%d,\"events\":%d}\n", len(lines), tr.N)
}
