package resolver

// Driver for C46 (first matching route, cluster taken from the route's weighted pick, request hash):
// a real configSelector is assembled from abstract routes (real xdsresource.RouteToMatcher matchers),
// with a scripted wrr.WRR per route (the real wrr.NewRandom is enumerated by the driver in internal/wrr)
// and the runtime-fraction draw fixed through xdsresource.RandInt64n.  Records only; TLC judges.

import (
	"context"
	"fmt"
	"math/rand"
	"os"
	"regexp"
	"sort"
	"strconv"
	"testing"

	"google.golang.org/grpc/internal/grpcsync"
	"google.golang.org/grpc/internal/grpcutil"
	iresolver "google.golang.org/grpc/internal/resolver"
	iringhash "google.golang.org/grpc/internal/ringhash"
	"google.golang.org/grpc/internal/xds/balancer/clustermanager"
	"google.golang.org/grpc/internal/xds/xdsclient/xdsresource"
	"google.golang.org/grpc/internal/zzverif/vlib"
	"google.golang.org/grpc/internal/zzverif/vlib/xdsmt"
	"google.golang.org/grpc/metadata"
)

type c46AbsRoute struct {
	PM   xdsmt.PM
	HMs  []xdsmt.HM
	Frac int64
}

func (a c46AbsRoute) json() map[string]any {
	hs := []any{}
	for _, h := range a.HMs {
		hs = append(hs, h.JSON())
	}
	return map[string]any{"pm": a.PM.JSON(), "hms": hs, "frac": a.Frac}
}

func (a c46AbsRoute) build() *xdsresource.Route {
	r := &xdsresource.Route{CaseInsensitive: a.PM.CI}
	p := a.PM.Pat
	switch a.PM.Kind {
	case "exact":
		r.Path = &p
	case "prefix":
		r.Prefix = &p
	case "regex":
		r.Regex = xdsmt.Regex(a.PM.Rx)
	}
	for _, h := range a.HMs {
		inv := h.Inv
		hm := &xdsresource.HeaderMatcher{Name: h.Key, InvertMatch: &inv}
		switch h.Kind {
		case "regex":
			hm.RegexMatch = xdsmt.Regex(h.Rx)
		case "range":
			hm.RangeMatch = &xdsresource.Int64Range{Start: h.Lo, End: h.Hi}
		case "present":
			w := h.Want
			hm.PresentMatch = &w
		case "string":
			sm := h.SM.Build(true)
			hm.StringMatch = &sm
		default:
			panic("c46: header kind " + h.Kind)
		}
		r.Headers = append(r.Headers, hm)
	}
	if a.Frac >= 0 {
		f := uint32(a.Frac)
		r.Fraction = &f
	}
	return r
}

// c46WRR is a scripted weighted pick: it records that it was consulted and returns the item chosen by the script.
type c46WRR struct {
	idx   int
	items []any
	pick  *int
	calls *[]int
}

func (w *c46WRR) Add(item any, _ int64) { w.items = append(w.items, item) }
func (w *c46WRR) Next() any {
	*w.calls = append(*w.calls, w.idx)
	return w.items[*w.pick%len(w.items)]
}

type c46Pol struct {
	Type string // hdr chan
	Name string
	Term bool
	Sub  int
}

func c46Selector(chanID uint64, routes []c46AbsRoute, pols []c46Pol, pick *int, calls *[]int) *configSelector {
	cs := &configSelector{
		channelID:            chanID,
		xdsNodeID:            "verif-node",
		sendNewServiceConfig: func() {},
		clusters:             map[string]*clusterInfo{},
		plugins:              map[string]*clusterInfo{},
	}
	for i, a := range routes {
		w := &c46WRR{idx: i + 1, pick: pick, calls: calls}
		rt := route{m: xdsresource.RouteToMatcher(a.build()), actionType: xdsresource.RouteActionRoute, clusters: w}
		for c := 1; c <= 2; c++ {
			name := fmt.Sprintf("cluster:r%dc%d", i+1, c)
			rc := grpcsync.NewRefCounted(&routeCluster{name: name}, func() {})
			rt.routeClusters = append(rt.routeClusters, rc)
			w.Add(rc, 1)
			ci := &clusterInfo{unsubscribe: func() {}}
			ci.refCount.Store(1)
			cs.clusters[name] = ci
		}
		for _, p := range pols {
			hp := &xdsresource.HashPolicy{Terminal: p.Term, HeaderName: p.Name}
			if p.Type == "chan" {
				hp.HashPolicyType = xdsresource.HashPolicyTypeChannelID
			} else {
				hp.HashPolicyType = xdsresource.HashPolicyTypeHeader
				if p.Sub == 1 {
					hp.Regex = regexp.MustCompile("a")
					hp.RegexSubstitution = "b"
				}
			}
			rt.hashPolicies = append(rt.hashPolicies, hp)
		}
		cs.routes = append(cs.routes, rt)
	}
	return cs
}

func c46Ctx(md, emd []xdsmt.MDE) context.Context {
	ctx := context.Background()
	if md != nil {
		ctx = metadata.NewOutgoingContext(ctx, xdsmt.MD(md))
	}
	e := xdsmt.MD(emd)
	e["content-type"] = []string{"application/grpc"}
	return grpcutil.WithExtraMetadata(ctx, e)
}

// c46PairsMD builds metadata through the public API (metadata.Pairs lower-cases the keys it is given).
func c46PairsMD(es []xdsmt.MDE) metadata.MD {
	var kv []string
	for _, e := range es {
		for _, v := range e.Vs {
			kv = append(kv, e.K, v)
		}
	}
	return metadata.Pairs(kv...)
}

// c46ActualMD logs the metadata as it really is (keys as bytes, sorted), so that the monitor sees the real keys.
func c46ActualMD(md metadata.MD) []any {
	keys := make([]string, 0, len(md))
	for k := range md {
		keys = append(keys, k)
	}
	sort.Strings(keys)
	out := []any{}
	for _, k := range keys {
		vs := []any{}
		for _, v := range md[k] {
			vs = append(vs, vlib.Bytes(v))
		}
		out = append(out, map[string]any{"k": vlib.Bytes(k), "vs": vs})
	}
	return out
}

func TestVerifC46Select(t *testing.T) {
	tr, err := vlib.NewTrace(os.Getenv("VERIF_OUT"))
	if err != nil {
		t.Fatal(err)
	}
	defer tr.Close()
	seed := int64(vlib.EnvInt("VERIF_SEED", 1))
	n := vlib.EnvInt("VERIF_N", 300)
	thorough := os.Getenv("VERIF_TIER") == "thorough"
	r := rand.New(rand.NewSource(seed))
	old := xdsresource.RandInt64n
	defer func() { xdsresource.RandInt64n = old }()
	var draw int64
	xdsresource.RandInt64n = func(int64) int64 { return draw }

	pool := []c46AbsRoute{
		{PM: xdsmt.PM{Kind: "prefix", Pat: "/s/"}, HMs: []xdsmt.HM{{Kind: "string", Key: "h", SM: xdsmt.SM{Kind: "exact", Pat: "a"}}}, Frac: -1},
		{PM: xdsmt.PM{Kind: "exact", Pat: "/s/m"}, Frac: 500000},
		{PM: xdsmt.PM{Kind: "prefix", Pat: ""}, Frac: -1},
		{PM: xdsmt.PM{Kind: "prefix", Pat: "/t"}, Frac: -1},
		{PM: xdsmt.PM{Kind: "prefix", Pat: "/s/"}, HMs: []xdsmt.HM{{Kind: "present", Key: "g", Want: true}}, Frac: 0},
		{PM: xdsmt.PM{Kind: "prefix", Pat: ""}, Frac: 1000000},
		{PM: xdsmt.PM{Kind: "exact", Pat: "/S/M", CI: true}, HMs: []xdsmt.HM{{Kind: "range", Key: "g", Lo: 1, Hi: 2, Inv: true}}, Frac: 1},
	}
	methods := []string{"/s/m", "/t/x"}
	mds := [][]xdsmt.MDE{{}, {{K: "h", Vs: []string{"a"}}}, {{K: "g", Vs: []string{"1"}}, {K: "h", Vs: []string{"a", "a"}}}}
	draws := []int64{0, 1, 499999, 500000, 999999}
	pick := 0
	sel := func(routes []c46AbsRoute, method string, md []xdsmt.MDE, d int64) {
		xdsmt.Safe(tr, "sel", func() {
			var calls []int
			cs := c46Selector(7, routes, nil, &pick, &calls)
			draw = d
			pick++
			res, err := cs.SelectConfig(iresolver.RPCInfo{Context: c46Ctx(md, nil), Method: method})
			ev := map[string]any{"ev": "sel", "method": vlib.Bytes(method), "md": xdsmt.MDJSON(md), "draw": d, "err": err != nil,
				"route": 0, "want": "", "got": "", "ncalls": len(calls)}
			var rs []any
			for _, a := range routes {
				rs = append(rs, a.json())
			}
			ev["routes"] = rs
			if len(calls) > 0 {
				ev["route"] = calls[0]
				ev["want"] = fmt.Sprintf("cluster:r%dc%d", calls[0], pick%2+1)
			}
			if err == nil {
				ev["got"] = clustermanager.PickedCluster(res.Context)
				if res.OnCommitted != nil {
					res.OnCommitted()
				}
			}
			tr.Emit(ev)
		})
	}
	for i, a := range pool {
		for j, b := range pool {
			for mi, md := range mds {
				for di, d := range draws {
					if !thorough && (i+j+mi+di)%2 == 1 {
						continue
					}
					for _, m := range methods {
						sel([]c46AbsRoute{a, b}, m, md, d)
					}
				}
			}
		}
	}
	for i := 0; i < n; i++ {
		var rs []c46AbsRoute
		for k := 1 + r.Intn(4); k > 0; k-- {
			rs = append(rs, pool[r.Intn(len(pool))])
		}
		sel(rs, methods[r.Intn(2)], mds[r.Intn(len(mds))], draws[r.Intn(len(draws))])
	}

	// ---- request hash: one catch-all route carrying the hash policies ----
	pols := []c46Pol{{Type: "hdr", Name: "h"}, {Type: "hdr", Name: "g"}, {Type: "hdr", Name: "h", Term: true}, {Type: "hdr", Name: "h", Sub: 1},
		{Type: "chan"}, {Type: "chan", Term: true}, {Type: "hdr", Name: "g", Term: true},
		// header_name is taken verbatim from the RouteAction proto: any letter case
		{Type: "hdr", Name: "H"}, {Type: "hdr", Name: "G", Term: true}}
	var lists [][]c46Pol
	for _, a := range pols {
		lists = append(lists, []c46Pol{a})
		for _, b := range pols {
			lists = append(lists, []c46Pol{a, b})
		}
	}
	lists = append(lists, []c46Pol{pols[1], pols[2], pols[4]}, []c46Pol{pols[0], pols[1], pols[0]}, []c46Pol{pols[3], pols[6], pols[0]},
		[]c46Pol{{Type: "hdr", Name: "X-Session-ID"}}, []c46Pol{{Type: "hdr", Name: "x-session-id"}}, []c46Pol{{Type: "hdr", Name: "X-Session-ID", Sub: 1}, pols[1]})
	hvals := [][]string{nil, {"a"}, {"b"}, {"a", "b"}, {"a,b"}}
	gvals := [][]string{nil, {"x"}}
	evals := [][]string{nil, {"a"}, {"e"}}
	for round := 0; round < 2; round++ {
		tr.Reset()
		chanID := r.Uint64()
		for li, pl := range lists {
			var calls []int
			cs := c46Selector(chanID, []c46AbsRoute{{PM: xdsmt.PM{Kind: "prefix", Pat: ""}, Frac: -1}}, pl, &pick, &calls)
			for hi, hv := range hvals {
				for gi, gv := range gvals {
					for ei, ev := range evals {
						if !thorough && (li+hi+gi+ei+round)%5 != 0 {
							continue
						}
						var md, emd []xdsmt.MDE
						hk, gk := "h", "g"
						if (hi+gi+ei)%2 == 1 {
							hk, gk = "H", "G" // the application may spell the key in any case: the API lower-cases it
						}
						if hv != nil {
							md = append(md, xdsmt.MDE{K: hk, Vs: hv}, xdsmt.MDE{K: "X-Session-Id", Vs: hv})
						}
						if gv != nil {
							md = append(md, xdsmt.MDE{K: gk, Vs: gv})
						}
						if ev != nil {
							emd = append(emd, xdsmt.MDE{K: "h", Vs: ev})
						}
						realMD, realEMD := c46PairsMD(md), c46PairsMD(emd)
						realEMD["content-type"] = []string{"application/grpc"}
						for rep := 0; rep < 2; rep++ { // identical RPCs: the hash must not change
							xdsmt.Safe(tr, "hash", func() {
								ctx := grpcutil.WithExtraMetadata(metadata.NewOutgoingContext(context.Background(), realMD), realEMD)
								res, err := cs.SelectConfig(iresolver.RPCInfo{Context: ctx, Method: "/s/m"})
								if err != nil {
									panic(err)
								}
								h, _ := iringhash.XDSRequestHash(res.Context)
								if res.OnCommitted != nil {
									res.OnCommitted()
								}
								var pj []any
								for _, p := range pl {
									pj = append(pj, map[string]any{"type": p.Type, "name": vlib.Bytes(p.Name), "term": p.Term, "sub": p.Sub})
								}
								tr.Emit(map[string]any{"ev": "hash", "pols": pj, "md": c46ActualMD(realMD), "emd": c46ActualMD(realEMD), "h": strconv.FormatUint(h, 10)})
							})
						}
					}
				}
			}
		}
	}
	fmt.Printf("VERIF_SUMMARY {\"pairs\":%d}\n", tr.N)
}
