package lrsclient

// Driver for C50: seeded stress of the real PerClusterReporter (CallStarted / CallFinished /
// CallDropped / CallServerLoad from N goroutines) with concurrent LoadStore.stats() snapshots.
// Every call is bracketed by a global sequence number; reports carry the sequence numbers taken
// before / after the stats() call.  The driver only drives and records; LoadStoreTrace.tla judges.

import (
	"encoding/json"
	"errors"
	"fmt"
	"math/rand"
	"os"
	"runtime"
	"sync"
	"sync/atomic"
	"testing"

	"google.golang.org/grpc/internal/xds/clients"
	"google.golang.org/grpc/internal/zzverif/vlib"
)

var (
	c50Locs    = []clients.Locality{{Region: "r", Zone: "z", SubZone: "a"}, {Region: "r", Zone: "z", SubZone: "b"}}
	c50Cats    = []string{"", "lb", "throttle"}
	c50Metrics = []string{"cpu", "mem"}
	c50Err     = errors.New("rpc failed")
)

type c50Op struct{ kind, loc, key, val, sb, se int }

// c50Panics collects panics of the code under test raised on worker / reporter goroutines.
var (
	c50PanicMu sync.Mutex
	c50Panics  []string
)

func c50Guard() {
	if x := recover(); x != nil {
		c50PanicMu.Lock()
		c50Panics = append(c50Panics, fmt.Sprint(x))
		c50PanicMu.Unlock()
	}
}

func c50FlushPanics(tr *vlib.Trace) {
	c50PanicMu.Lock()
	defer c50PanicMu.Unlock()
	for _, p := range c50Panics {
		tr.Emit(map[string]any{"ev": "panic", "what": p})
	}
	c50Panics = nil
}

// c50Report flattens the loadData of one stats() call (nil data: all zero).
func c50Report(ds []*loadData, a, b int64) map[string]any {
	td := uint64(0)
	drops := []uint64{0, 0}
	locs := [][]int64{make([]int64, 8), make([]int64, 8)}
	for _, d := range ds {
		td += d.totalDrops
		for c := 1; c <= 2; c++ {
			drops[c-1] += d.drops[c50Cats[c]]
		}
		for li, loc := range c50Locs {
			ld, ok := d.localityStats[loc]
			if !ok {
				continue
			}
			rs := ld.requestStats
			locs[li][0] += int64(rs.issued)
			locs[li][1] += int64(rs.succeeded)
			locs[li][2] += int64(rs.errored)
			locs[li][3] += int64(rs.inProgress)
			for mi, m := range c50Metrics {
				locs[li][4+2*mi] += int64(ld.loadStats[m].count)
				locs[li][5+2*mi] += int64(ld.loadStats[m].sum)
			}
		}
	}
	return map[string]any{"a": a, "b": b, "td": td, "drops": drops, "locs": locs}
}

type c50Worker struct {
	rng  *rand.Rand
	open [2]int // calls started and not finished, per locality
	ops  []c50Op
}

// one random API call; seq == nil: no bracketing (bulk mode)
func (w *c50Worker) step(p *PerClusterReporter, seq *atomic.Int64, record bool) c50Op {
	op := c50Op{}
	x := w.rng.Intn(10)
	loc := w.rng.Intn(2)
	switch {
	case x < 4:
		op = c50Op{kind: 1, loc: loc}
	case x < 7 && w.open[loc] > 0:
		op = c50Op{kind: 2 + w.rng.Intn(2), loc: loc}
	case x < 7 && w.open[1-loc] > 0:
		op = c50Op{kind: 2 + w.rng.Intn(2), loc: 1 - loc}
	case x < 9:
		op = c50Op{kind: 4, key: w.rng.Intn(3)}
	default:
		if w.open[loc] == 0 {
			op = c50Op{kind: 1, loc: loc} // CallServerLoad needs the locality's entry: start a call first
		} else {
			op = c50Op{kind: 5, loc: loc, key: w.rng.Intn(2), val: 1 + w.rng.Intn(9)}
		}
	}
	if seq != nil {
		op.sb = int(seq.Add(1))
	}
	switch op.kind {
	case 1:
		p.CallStarted(c50Locs[op.loc])
		w.open[op.loc]++
	case 2:
		p.CallFinished(c50Locs[op.loc], nil)
		w.open[op.loc]--
	case 3:
		p.CallFinished(c50Locs[op.loc], c50Err)
		w.open[op.loc]--
	case 4:
		p.CallDropped(c50Cats[op.key])
	case 5:
		p.CallServerLoad(c50Locs[op.loc], c50Metrics[op.key], float64(op.val))
	}
	if seq != nil {
		op.se = int(seq.Add(1))
	}
	if record {
		w.ops = append(w.ops, op)
	}
	return op
}

// TestVerifC50Rounds: detailed rounds (every call and every report logged).
func TestVerifC50Rounds(t *testing.T) {
	tr, err := vlib.NewTrace(os.Getenv("VERIF_OUT"))
	if err != nil {
		t.Fatal(err)
	}
	defer tr.Close()
	if runtime.GOMAXPROCS(0) < 4 {
		defer runtime.GOMAXPROCS(runtime.GOMAXPROCS(4))
	}
	seed := int64(vlib.EnvInt("VERIF_SEED", 1))
	rounds := vlib.EnvInt("VERIF_N", 100)
	tr.Emit(map[string]any{"ev": "reset"})
	for r := 0; r < rounds; r++ {
		ls := newLoadStore()
		p := ls.ReporterForCluster("c", "s")
		var seq atomic.Int64
		nw := 2 + r%3
		nops := 10 + (r*7)%40
		workers := make([]*c50Worker, nw)
		var wg sync.WaitGroup
		stop := make(chan struct{})
		var reports []map[string]any
		var rwg sync.WaitGroup
		rwg.Add(1)
		go func() { // the reporter: up to 6 snapshots while the workers run
			defer rwg.Done()
			defer c50Guard()
			rng := rand.New(rand.NewSource(seed*1000003 + int64(r)))
			for i := 0; i < 6; i++ {
				for k := rng.Intn(4); k > 0; k-- {
					runtime.Gosched()
				}
				select {
				case <-stop:
					return
				default:
				}
				a := seq.Add(1)
				ds := ls.stats(nil)
				b := seq.Add(1)
				reports = append(reports, c50Report(ds, a, b))
			}
		}()
		for i := range workers {
			w := &c50Worker{rng: rand.New(rand.NewSource(seed*7919 + int64(r)*131 + int64(i)))}
			workers[i] = w
			wg.Add(1)
			go func() {
				defer wg.Done()
				defer c50Guard()
				for k := 0; k < nops; k++ {
					w.step(p, &seq, true)
					if w.rng.Intn(3) == 0 {
						runtime.Gosched()
					}
				}
			}()
		}
		wg.Wait()
		close(stop)
		rwg.Wait()
		a := seq.Add(1)
		ds := ls.stats(nil) // the final report, at quiescence
		b := seq.Add(1)
		reports = append(reports, c50Report(ds, a, b))
		ops := [][]int{}
		for _, w := range workers {
			for _, o := range w.ops {
				ops = append(ops, []int{o.kind, o.loc, o.key, o.val, o.sb, o.se})
			}
		}
		c50FlushPanics(tr)
		tr.Emit(map[string]any{"ev": "round", "r": r, "ops": ops, "reports": reports})
	}
	fmt.Printf("VERIF_SUMMARY {\"behaviours\":%d,\"events\":%d}\n", rounds, tr.N)
}

// TestVerifC50Bulk: long runs; per round the driver only adds up the recorded events and the
// reports (the comparison is TLC's).
func TestVerifC50Bulk(t *testing.T) {
	tr, err := vlib.NewTrace(os.Getenv("VERIF_OUT"))
	if err != nil {
		t.Fatal(err)
	}
	defer tr.Close()
	if runtime.GOMAXPROCS(0) < 4 {
		defer runtime.GOMAXPROCS(runtime.GOMAXPROCS(4))
	}
	seed := int64(vlib.EnvInt("VERIF_SEED", 1))
	rounds := vlib.EnvInt("VERIF_N", 20)
	perWorker := vlib.EnvInt("VERIF_OPS", 5000)
	tr.Emit(map[string]any{"ev": "reset"})
	for r := 0; r < rounds; r++ {
		ls := newLoadStore()
		p := ls.ReporterForCluster("c", "s")
		nw := 4
		// key order: per loc (issued, succ, err, cnt0, sum0, cnt1, sum1) x2, total drops, drops cat1, cat2
		events := make([]int64, 17)
		reported := make([]int64, 17)
		var emu sync.Mutex
		var wg sync.WaitGroup
		var done atomic.Bool
		nrep := 0
		var rwg sync.WaitGroup
		add := func(ds []*loadData) {
			rep := c50Report(ds, 0, 0)
			locs := rep["locs"].([][]int64)
			for li := 0; li < 2; li++ {
				reported[7*li+0] += locs[li][0]
				reported[7*li+1] += locs[li][1]
				reported[7*li+2] += locs[li][2]
				for k := 0; k < 4; k++ {
					reported[7*li+3+k] += locs[li][4+k]
				}
			}
			reported[14] += int64(rep["td"].(uint64))
			reported[15] += int64(rep["drops"].([]uint64)[0])
			reported[16] += int64(rep["drops"].([]uint64)[1])
			nrep++
		}
		rwg.Add(1)
		running := make(chan struct{})
		go func() {
			defer rwg.Done()
			defer c50Guard()
			close(running)
			for !done.Load() {
				add(ls.stats(nil))
			}
		}()
		<-running
		openFinal := int64(0)
		for i := 0; i < nw; i++ {
			w := &c50Worker{rng: rand.New(rand.NewSource(seed*104729 + int64(r)*977 + int64(i)))}
			wg.Add(1)
			go func() {
				defer wg.Done()
				defer c50Guard()
				local := make([]int64, 17)
				for k := 0; k < perWorker; k++ {
					o := w.step(p, nil, false)
					switch o.kind {
					case 1, 2, 3:
						local[7*o.loc+o.kind-1]++
					case 4:
						local[14]++
						if o.key > 0 {
							local[14+o.key]++
						}
					case 5:
						local[7*o.loc+3+2*o.key]++
						local[7*o.loc+4+2*o.key] += int64(o.val)
					}
				}
				emu.Lock()
				for k := range local {
					events[k] += local[k]
				}
				openFinal += int64(w.open[0] + w.open[1])
				emu.Unlock()
			}()
		}
		wg.Wait()
		done.Store(true)
		rwg.Wait()
		final := ls.stats(nil)
		add(final)
		frep := c50Report(final, 0, 0)["locs"].([][]int64)
		c50FlushPanics(tr)
		tr.Emit(map[string]any{"ev": "bulk", "r": r, "events": events, "reported": reported, "nrep": nrep,
			"inprog_final": frep[0][3] + frep[1][3], "open_final": openFinal})
	}
	fmt.Printf("VERIF_SUMMARY {\"behaviours\":%d,\"events\":%d}\n", rounds, tr.N)
}

// c50SeqStep is one step of a sequential behaviour: start | finok | finerr | drop | load | snap.
type c50SeqStep struct {
	A   string `json:"a"`
	Loc int    `json:"loc"`
	Key int    `json:"key"`
	Val int    `json:"val"`
}

// c50SeqRun executes one behaviour on a fresh store from a single goroutine and emits it as a
// round.  With flush, every locality that was ever used gets one more CallStarted/CallFinished
// before the final report, so that the final report covers it.
func c50SeqRun(steps []c50SeqStep, id int, flush bool, tr *vlib.Trace) {
	defer func() {
		if x := recover(); x != nil {
			tr.Emit(map[string]any{"ev": "panic", "what": fmt.Sprint(x)})
		}
	}()
	ls := newLoadStore()
	p := ls.ReporterForCluster("c", "s")
	seq := 0
	next := func() int { seq++; return seq }
	ops := [][]int{}
	reports := []map[string]any{}
	used := [2]bool{}
	call := func(kind, loc, key, val int) {
		sb := next()
		switch kind {
		case 1:
			p.CallStarted(c50Locs[loc])
			used[loc] = true
		case 2:
			p.CallFinished(c50Locs[loc], nil)
		case 3:
			p.CallFinished(c50Locs[loc], c50Err)
		case 4:
			p.CallDropped(c50Cats[key])
		case 5:
			p.CallServerLoad(c50Locs[loc], c50Metrics[key], float64(val))
		}
		ops = append(ops, []int{kind, loc, key, val, sb, next()})
	}
	snap := func() {
		a := next()
		ds := ls.stats(nil)
		reports = append(reports, c50Report(ds, int64(a), int64(next())))
	}
	for _, st := range steps {
		switch st.A {
		case "start":
			call(1, st.Loc, 0, 0)
		case "finok":
			call(2, st.Loc, 0, 0)
		case "finerr":
			call(3, st.Loc, 0, 0)
		case "drop":
			call(4, 0, st.Key, 0)
		case "load":
			call(5, st.Loc, st.Key, st.Val)
		case "snap":
			snap()
		}
	}
	if flush {
		for loc := 0; loc < 2; loc++ {
			if used[loc] {
				call(1, loc, 0, 0)
				call(2, loc, 0, 0)
			}
		}
	}
	snap()
	tr.Emit(map[string]any{"ev": "round", "r": id, "flush": flush, "ops": ops, "reports": reports})
}

// TestVerifC50Seq replays sequential behaviours (TLC edge cover of LoadStoreSeqMC, then seeded
// random ones over two localities, three drop categories and two metrics).
func TestVerifC50Seq(t *testing.T) {
	tr, err := vlib.NewTrace(os.Getenv("VERIF_OUT"))
	if err != nil {
		t.Fatal(err)
	}
	defer tr.Close()
	flush := vlib.EnvInt("VERIF_FLUSH", 1) == 1
	tr.Emit(map[string]any{"ev": "reset"})
	n := 0
	if path := os.Getenv("VERIF_BEHAVIOURS"); path != "" {
		lines, err := vlib.ReadLines(path)
		if err != nil {
			t.Fatal(err)
		}
		for _, ln := range lines {
			var steps []c50SeqStep
			if err := json.Unmarshal(ln, &steps); err != nil {
				t.Fatal(err)
			}
			c50SeqRun(steps, n, flush, tr)
			n++
		}
	}
	rng := rand.New(rand.NewSource(int64(vlib.EnvInt("VERIF_SEED", 1))*31337 + 5))
	for r := 0; r < vlib.EnvInt("VERIF_N", 0); r++ {
		var steps []c50SeqStep
		open := [2]int{}
		started := [2]bool{}
		for k := 4 + rng.Intn(20); k > 0; k-- {
			loc := rng.Intn(2)
			switch x := rng.Intn(12); {
			case x < 3:
				steps = append(steps, c50SeqStep{A: "start", Loc: loc})
				open[loc]++
				started[loc] = true
			case x < 5 && open[loc] > 0:
				steps = append(steps, c50SeqStep{A: []string{"finok", "finerr"}[rng.Intn(2)], Loc: loc})
				open[loc]--
			case x < 7:
				steps = append(steps, c50SeqStep{A: "drop", Key: rng.Intn(3)})
			case x < 9 && started[loc]:
				steps = append(steps, c50SeqStep{A: "load", Loc: loc, Key: rng.Intn(2), Val: 1 + rng.Intn(9)})
			default:
				steps = append(steps, c50SeqStep{A: "snap"})
			}
		}
		c50SeqRun(steps, n, flush, tr)
		n++
	}
	fmt.Printf("VERIF_SUMMARY {\"behaviours\":%d,\"events\":%d}\n", n, tr.N)
}
