package transport

// Driver for the client half of C14 (GOAWAY handling of the real http2Client against a scripted
// server).  Uses the peer / dial helpers of zz_verif_c13_test.go (the C14 check overlays both files).
// Records only; TLC (specs/GoAwayTrace.tla) judges.

import (
	"context"
	"encoding/json"
	"fmt"
	"os"
	"sync"
	"testing"
	"testing/synctest"

	"golang.org/x/net/http2"
	"google.golang.org/grpc/internal/channelz"
	"google.golang.org/grpc/internal/zzverif/vlib"
)

const c14Big = 2147483646 // stands for 2^31-1 in specs and traces (TLC integers are 32 bit)

type c14Step struct {
	A string `json:"a"`
	R string `json:"r"`
	N int    `json:"n"`
	W int    `json:"w"`
}

type c14Beh struct {
	Steps []c14Step `json:"steps"`
}

func c14Closed(ch <-chan struct{}) int {
	select {
	case <-ch:
		return 1
	default:
		return 0
	}
}

func c14RunBehaviour(tr *vlib.Trace, parent *channelz.SubChannel, b *c14Beh, sum map[string]int) {
	tr.Reset()
	c, err := c13Dial(tr, parent, 100)
	if err != nil {
		tr.Emit(c13Ev{"ev": "note", "what": "dial failed: " + err.Error()})
		sum["dialfail"]++
		return
	}
	var wg sync.WaitGroup
	wg.Add(2)
	go func() { // first GOAWAY handled: t.goAway is closed inside handleGoAway under t.mu
		defer wg.Done()
		select {
		case <-c.ct.GoAway():
			tr.Emit(c13Ev{"ev": "gaseen"})
		case <-c.ct.Error():
		}
	}()
	go func() {
		defer wg.Done()
		<-c.ct.Error()
		tr.Emit(c13Ev{"ev": "tdone"})
	}()
	calls := map[string]*c13Call{}
	var order []*c13Call
	get := func(r string) *c13Call {
		k := calls[r]
		if k == nil {
			ctx, cancel := context.WithCancel(context.Background())
			k = &c13Call{name: r, ctx: ctx, cancel: cancel, done: make(chan struct{})}
			calls[r] = k
			order = append(order, k)
		}
		return k
	}
	launch := func(k *c13Call) {
		tr.Emit(c13Ev{"ev": "new", "r": k.name, "dl": 0})
		k.st = 1
		wg.Add(1)
		go func() {
			defer wg.Done()
			defer func() {
				if r := recover(); r != nil {
					tr.Emit(c13Ev{"ev": "panic", "what": "NewStream " + k.name, "r": fmt.Sprint(r)})
				}
			}()
			s, err := c.ct.NewStream(k.ctx, &CallHdr{Host: "verif", Method: "/verif.S/M"}, nil)
			k.s, k.err = s, err
			if err != nil {
				kind, msg := c13Kind(err)
				tr.Emit(c13Ev{"ev": "ret", "r": k.name, "ok": 0, "id": 0, "kind": kind, "msg": msg})
				close(k.done)
				return
			}
			tr.Emit(c13Ev{"ev": "ret", "r": k.name, "ok": 1, "id": int(s.id), "kind": "", "msg": ""})
			close(k.done)
			<-s.Done()
			code, un := -1, 0
			if st := s.Status(); st != nil {
				code = int(st.Code())
			}
			if s.Unprocessed() {
				un = 1
			}
			tr.Emit(c13Ev{"ev": "send", "r": k.name, "id": int(s.id), "code": code, "unproc": un})
		}()
	}
	quiesce := func() {
		synctest.Wait()
		blocked := 0
		for _, k := range order {
			if k.st == 1 {
				select {
				case <-k.done:
					if k.err != nil {
						k.st = 3
					} else {
						k.st = 2
					}
				default:
					blocked++
				}
			}
		}
		tr.Emit(c13Ev{"ev": "q", "blocked": blocked, "tdone": c14Closed(c.ct.Error())})
	}
	quiesce()
	for _, st := range b.Steps {
		switch st.A {
		case "new":
			k := get(st.R)
			if k.st != 0 {
				sum["skipped"]++
				continue
			}
			launch(k)
		case "goaway":
			id := uint32(st.N)
			if st.N >= c14Big {
				id = 1<<31 - 1
			}
			tr.Emit(c13Ev{"ev": "ga", "n": st.N})
			c.peer.p.WriteGoAway(id, http2.ErrCodeNo, []byte("verif"))
		case "end":
			k := get(st.R)
			if k.st == 1 {
				quiesce()
			}
			if k.st != 2 || c14Closed(k.s.Done()) == 1 || c14Closed(c.ct.Error()) == 1 {
				tr.Emit(c13Ev{"ev": "note", "what": "skip end " + st.R})
				sum["skipped"]++
				continue
			}
			c.peer.end(k.s.id, false, c.ct.ctxDone)
			k.st = 4
		}
		sum["steps"]++
		if st.W != 0 {
			quiesce()
		}
	}
	quiesce()
	// completion: the server completes every stream that is still open and that it may complete
	// (id at or below every GOAWAY id it has written): such a stream must end with status OK
	minGa := c14Big + 1
	for _, st := range b.Steps {
		if st.A == "goaway" && st.N < minGa {
			minGa = st.N
		}
	}
	for _, k := range order {
		if k.st == 2 && c14Closed(k.s.Done()) == 0 && c14Closed(c.ct.Error()) == 0 && int(k.s.id) <= minGa {
			c.peer.end(k.s.id, false, c.ct.ctxDone)
			k.st = 4
			quiesce()
		}
	}
	c.shutdown(tr)
	for _, k := range order {
		k.cancel()
	}
	wg.Wait()
}

// TestVerifC14Client executes the projected TLC behaviours of GoAwayClient.tla.
func TestVerifC14Client(t *testing.T) {
	tr := c13Trace(t)
	defer tr.Close()
	lines, err := vlib.ReadLines(os.Getenv("VERIF_BEHAVIOURS"))
	if err != nil {
		t.Fatal(err)
	}
	parent := channelzSubChannel(t)
	sum := map[string]int{}
	for i, ln := range lines {
		var b c14Beh
		if err := json.Unmarshal(ln, &b); err != nil {
			t.Fatalf("behaviour %d: %v", i, err)
		}
		synctest.Test(t, func(t *testing.T) { c14RunBehaviour(tr, parent, &b, sum) })
		sum["behaviours"]++
	}
	js, _ := json.Marshal(sum)
	fmt.Printf("VERIF_SUMMARY %s\n", js)
}
