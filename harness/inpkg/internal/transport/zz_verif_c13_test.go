package transport

// Drivers for C13 (client never exceeds the server's MAX_CONCURRENT_STREAMS; waiting stream
// creators are woken).  A real http2Client is connected (test/bufconn, inside a testing/synctest
// bubble) to a raw HTTP/2 peer that announces / changes MAX_CONCURRENT_STREAMS and logs the
// frames it receives in arrival order.  The drivers only drive and record; the verdict is TLC's
// (specs/StreamQuotaTrace.tla).

import (
	"context"
	"encoding/json"
	"errors"
	"fmt"
	"math/rand"
	"net"
	"os"
	"runtime"
	"sync"
	"sync/atomic"
	"testing"
	"testing/synctest"
	"time"

	"golang.org/x/net/http2"
	"google.golang.org/grpc/codes"
	"google.golang.org/grpc/internal/channelz"
	"google.golang.org/grpc/internal/verifhook"
	"google.golang.org/grpc/internal/zzverif/vlib"
	"google.golang.org/grpc/internal/zzverif/vlib/rawh2"
	"google.golang.org/grpc/mem"
	"google.golang.org/grpc/resolver"
	"google.golang.org/grpc/status"
	"google.golang.org/grpc/test/bufconn"
)

type c13Ev = map[string]any

// c13Peer is the scripted server side of the connection.
type c13Peer struct {
	p    *rawh2.Peer
	tr   *vlib.Trace
	mu   sync.Mutex
	seen map[uint32]chan struct{} // closed when HEADERS(id) has arrived
	done chan struct{}            // closed when the read loop has ended
}

func (p *c13Peer) seenCh(id uint32) chan struct{} {
	p.mu.Lock()
	defer p.mu.Unlock()
	ch := p.seen[id]
	if ch == nil {
		ch = make(chan struct{})
		p.seen[id] = ch
	}
	return ch
}

// readLoop logs the client's frames in arrival order.
func (p *c13Peer) readLoop() {
	defer close(p.done)
	for {
		f, err := p.p.ReadFrame()
		if err != nil {
			return
		}
		switch f := f.(type) {
		case *http2.MetaHeadersFrame:
			es := 0
			if f.StreamEnded() {
				es = 1
			}
			p.tr.Emit(c13Ev{"ev": "hdr", "id": int(f.StreamID), "es": es})
			ch := p.seenCh(f.StreamID)
			select {
			case <-ch:
			default:
				close(ch)
			}
		case *http2.DataFrame:
			if f.StreamEnded() {
				p.tr.Emit(c13Ev{"ev": "ces", "id": int(f.StreamID)})
			}
		case *http2.RSTStreamFrame:
			p.tr.Emit(c13Ev{"ev": "crst", "id": int(f.StreamID)})
		case *http2.SettingsFrame:
			if f.IsAck() {
				p.tr.Emit(c13Ev{"ev": "ack"})
			} else {
				p.p.WriteSettingsAck()
			}
		case *http2.PingFrame:
			if !f.IsAck() {
				p.p.WritePing(true, f.Data)
			}
		case *http2.GoAwayFrame:
			p.tr.Emit(c13Ev{"ev": "cgoaway"})
		}
	}
}

// announce writes SETTINGS(MAX_CONCURRENT_STREAMS=n); logged BEFORE the write (R2: the more
// permissive of old and new binds until the ACK arrives).
func (p *c13Peer) announce(n int) {
	p.tr.Emit(c13Ev{"ev": "sset", "n": n})
	p.p.WriteSettings(http2.Setting{ID: http2.SettingMaxConcurrentStreams, Val: uint32(n)})
}

// end terminates stream id from the server side (trailers-only response with END_STREAM, or
// RST_STREAM); logged before the write.  It waits until the stream's HEADERS have arrived.
func (p *c13Peer) end(id uint32, rst bool, giveUp <-chan struct{}) bool {
	select {
	case <-p.seenCh(id):
	case <-giveUp:
		return false
	case <-p.done:
		return false
	}
	if rst {
		p.tr.Emit(c13Ev{"ev": "srst", "id": int(id)})
		p.p.WriteRST(id, http2.ErrCodeInternal)
	} else {
		p.tr.Emit(c13Ev{"ev": "ses", "id": int(id)})
		p.p.WriteHeaders(id, true, ":status", "200", "content-type", "application/grpc", "grpc-status", "0")
	}
	return true
}

// c13Conn is one client transport + peer inside the current bubble.
type c13Conn struct {
	ct   *http2Client
	peer *c13Peer
	sc   net.Conn
	stop context.CancelFunc
}

func c13Dial(tr *vlib.Trace, parent *channelz.SubChannel, initMax int) (*c13Conn, error) {
	lis := bufconn.Listen(1 << 20)
	type acc struct {
		c   net.Conn
		err error
	}
	ach := make(chan acc, 1)
	go func() {
		c, err := lis.Accept()
		ach <- acc{c, err}
	}()
	cc, err := lis.Dial()
	if err != nil {
		return nil, err
	}
	a := <-ach
	lis.Close()
	if a.err != nil {
		return nil, a.err
	}
	peer := &c13Peer{tr: tr, seen: map[uint32]chan struct{}{}, done: make(chan struct{})}
	perr := make(chan error, 1)
	go func() {
		rp, err := rawh2.NewServerPeer(a.c)
		if err != nil {
			perr <- err
			close(peer.done)
			return
		}
		peer.p = rp
		tr.Emit(c13Ev{"ev": "init", "max": initMax})
		rp.WriteSettings(http2.Setting{ID: http2.SettingMaxConcurrentStreams, Val: uint32(initMax)})
		perr <- nil
		peer.readLoop()
	}()
	ctx, cancel := context.WithCancel(context.Background())
	copts := ConnectOptions{
		BufferPool:     mem.DefaultBufferPool(),
		ChannelzParent: parent,
		Dialer:         func(context.Context, string) (net.Conn, error) { return cc, nil },
	}
	t, err := NewHTTP2Client(ctx, ctx, resolver.Address{Addr: "verif"}, copts, func(GoAwayInfo) {})
	if err != nil {
		cancel()
		a.c.Close()
		return nil, err
	}
	if err := <-perr; err != nil {
		cancel()
		return nil, err
	}
	return &c13Conn{ct: t.(*http2Client), peer: peer, sc: a.c, stop: cancel}, nil
}

func (c *c13Conn) shutdown(tr *vlib.Trace) {
	tr.Emit(c13Ev{"ev": "tclose"})
	c.ct.Close(errors.New("verif: end of behaviour"))
	c.sc.Close()
	<-c.peer.done
	c.stop()
}

// snapshot reads the private ledger under controlBuf.mu.
func (c *c13Conn) snapshot() (quota, waiting, maxc int, ok bool) {
	_, err := c.ct.controlBuf.executeAndPut(func() bool {
		quota, waiting, maxc = int(c.ct.streamQuota), int(c.ct.waitingStreams), int(c.ct.maxConcurrentStreams)
		return false
	}, nil)
	return quota, waiting, maxc, err == nil
}

func c13Clamp(v int) int {
	if v > 1000000 {
		return 1000000
	}
	if v < -1000000 {
		return -1000000
	}
	return v
}

func c13Kind(err error) (string, string) {
	var nse *NewStreamError
	if errors.As(err, &nse) {
		if nse.Err == errStreamDrain {
			return "drain", ""
		}
		if nse.Err == ErrConnClosing {
			return "closing", ""
		}
		if st, ok := status.FromError(nse.Err); ok && (st.Code() == codes.DeadlineExceeded || st.Code() == codes.Canceled) {
			return "ctx", ""
		}
		return "other", nse.Err.Error()
	}
	return "other", fmt.Sprint(err)
}

// c13Call is one NewStream call.
type c13Call struct {
	name   string
	ctx    context.Context
	cancel context.CancelFunc
	done   chan struct{}
	s      *ClientStream
	err    error
	st     int // 0 not started, 1 launched, 2 open, 3 failed, 4 closed
}

func (c *c13Conn) launch(tr *vlib.Trace, k *c13Call, wg *sync.WaitGroup, dl int) {
	tr.Emit(c13Ev{"ev": "new", "r": k.name, "dl": dl})
	k.st = 1
	wg.Add(1)
	go func() {
		defer wg.Done()
		defer close(k.done)
		defer func() {
			if r := recover(); r != nil {
				tr.Emit(c13Ev{"ev": "panic", "what": "NewStream " + k.name, "r": fmt.Sprint(r)})
			}
		}()
		s, err := c.ct.NewStream(k.ctx, &CallHdr{Host: "verif", Method: "/verif.S/M"}, nil)
		k.s, k.err = s, err
		if err != nil {
			kind, msg := c13Kind(err)
			tr.Emit(c13Ev{"ev": "ret", "r": k.name, "ok": 0, "id": 0, "kind": kind, "msg": msg})
			return
		}
		tr.Emit(c13Ev{"ev": "ret", "r": k.name, "ok": 1, "id": int(s.id), "kind": "", "msg": ""})
	}()
}

// closeStream ends an admitted stream in one of four ways.
func (c *c13Conn) closeStream(tr *vlib.Trace, k *c13Call, how string) {
	tr.Emit(c13Ev{"ev": "closing", "r": k.name, "id": int(k.s.id), "how": how})
	switch how {
	case "cancel": // client-side cancellation: RST_STREAM(CANCEL)
		k.s.Close(status.Error(codes.Canceled, "verif cancel"))
	case "half": // client half-closes, then the server ends the stream
		k.s.Write(nil, nil, &WriteOptions{Last: true})
		c.peer.end(k.s.id, false, c.ct.ctxDone)
	case "srvrst":
		c.peer.end(k.s.id, true, c.ct.ctxDone)
	default: // "srvend": server ends the stream while the client is still active
		c.peer.end(k.s.id, false, c.ct.ctxDone)
	}
}

// c13Gate holds NewStream callers of one transport at the hook point "h2c.wait" (after the
// critical section that registered them as waiters, before the select on the wake-up channel)
// until the driver releases them.  Holding a goroutine there is a legal schedule.
type c13Gate struct {
	ct *http2Client
	ch chan struct{}
}

var c13GatePtr atomic.Pointer[c13Gate]

func c13InstallHook() {
	verifhook.Set(func(point string, obj any) {
		if point != "h2c.wait" {
			return
		}
		if g := c13GatePtr.Load(); g != nil && obj == any(g.ct) {
			<-g.ch
		}
	})
}

type c13Step struct {
	A   string `json:"a"`
	R   string `json:"r"`
	N   int    `json:"n"`
	How string `json:"how"`
	W   int    `json:"w"`
}

type c13Beh struct {
	Init  int       `json:"init"`
	Drain int       `json:"drain"`
	Steps []c13Step `json:"steps"`
}

// c13RunBehaviour executes one TLC-generated behaviour inside its own bubble.
func c13RunBehaviour(tr *vlib.Trace, parent *channelz.SubChannel, b *c13Beh, sum map[string]int) {
	tr.Reset()
	c, err := c13Dial(tr, parent, b.Init)
	if err != nil {
		tr.Emit(c13Ev{"ev": "note", "what": "dial failed: " + err.Error()})
		sum["dialfail"]++
		return
	}
	var wg sync.WaitGroup
	calls := map[string]*c13Call{}
	var order []*c13Call
	get := func(r string) *c13Call {
		k := calls[r]
		if k == nil {
			ctx, cancel := context.WithCancel(context.Background())
			k = &c13Call{name: r, ctx: ctx, cancel: cancel, done: make(chan struct{})}
			calls[r] = k
			order = append(order, k)
		}
		return k
	}
	held := 0
	release := func() {
		if g := c13GatePtr.Swap(nil); g != nil {
			close(g.ch)
		}
		held = 0
	}
	defer release()
	quiesce := func() {
		synctest.Wait()
		blocked := 0
		for _, k := range order {
			if k.st == 1 {
				select {
				case <-k.done:
					if k.err != nil {
						k.st = 3
					} else {
						k.st = 2
					}
				default:
					blocked++
				}
			}
		}
		q, w, m, ok := c.snapshot()
		okI := 0
		if ok {
			okI = 1
		}
		tr.Emit(c13Ev{"ev": "q", "blocked": blocked, "quota": c13Clamp(q), "waiting": w, "maxc": c13Clamp(m), "snap": okI, "held": held})
	}
	quiesce()
	for _, st := range b.Steps {
		switch st.A {
		case "new":
			k := get(st.R)
			if k.st != 0 {
				tr.Emit(c13Ev{"ev": "note", "what": "skip new " + st.R})
				sum["skipped"]++
				continue
			}
			c.launch(tr, k, &wg, 0)
		case "close":
			k := get(st.R)
			if k.st == 1 {
				quiesce()
			}
			if k.st != 2 {
				tr.Emit(c13Ev{"ev": "note", "what": "skip close " + st.R})
				sum["skipped"]++
				continue
			}
			c.closeStream(tr, k, st.How)
			k.st = 4
		case "cancel":
			k := get(st.R)
			if k.st == 1 {
				quiesce()
			}
			if k.st != 1 {
				tr.Emit(c13Ev{"ev": "note", "what": "skip cancel " + st.R})
				sum["skipped"]++
				continue
			}
			tr.Emit(c13Ev{"ev": "cancel", "r": st.R})
			k.cancel()
		case "ann":
			c.peer.announce(st.N)
		case "hold": // from now on callers that have to wait are held before their select
			if held == 0 {
				c13GatePtr.Store(&c13Gate{ct: c.ct, ch: make(chan struct{})})
				held = 1
				tr.Emit(c13Ev{"ev": "note", "what": "hold"})
			}
		case "release":
			tr.Emit(c13Ev{"ev": "note", "what": "release"})
			release()
		}
		sum["steps"]++
		if st.W != 0 {
			quiesce()
		}
	}
	release()
	quiesce()
	if b.Drain != 0 {
		// close the open streams one at a time: every close must admit a waiter (if any)
		for i := 0; i < len(order); i++ {
			k := order[i]
			if k.st == 2 {
				c.closeStream(tr, k, []string{"cancel", "srvend", "half", "srvrst"}[i%4])
				k.st = 4
				quiesce()
			}
		}
	}
	c.shutdown(tr)
	for _, k := range order {
		k.cancel()
	}
	wg.Wait()
}

func c13Trace(t *testing.T) *vlib.Trace {
	tr, err := vlib.NewTrace(os.Getenv("VERIF_OUT"))
	if err != nil {
		t.Fatal(err)
	}
	return tr
}

// TestVerifC13Replay executes the behaviours of VERIF_BEHAVIOURS (projected TLC behaviours of
// StreamQuota.tla) one after the other, each on a fresh transport.
func TestVerifC13Replay(t *testing.T) {
	tr := c13Trace(t)
	defer tr.Close()
	lines, err := vlib.ReadLines(os.Getenv("VERIF_BEHAVIOURS"))
	if err != nil {
		t.Fatal(err)
	}
	// one P: a burst of driver steps (no quiescence in between) then runs before the goroutines
	// it wakes, which is how the token-forwarding path of checkForStreamQuota is reached
	defer runtime.GOMAXPROCS(runtime.GOMAXPROCS(vlib.EnvInt("VERIF_PROCS", 1)))
	parent := channelzSubChannel(t)
	c13InstallHook()
	defer verifhook.Set(nil)
	sum := map[string]int{}
	for i, ln := range lines {
		var b c13Beh
		if err := json.Unmarshal(ln, &b); err != nil {
			t.Fatalf("behaviour %d: %v", i, err)
		}
		synctest.Test(t, func(t *testing.T) { c13RunBehaviour(tr, parent, &b, sum) })
		sum["behaviours"]++
	}
	js, _ := json.Marshal(sum)
	fmt.Printf("VERIF_SUMMARY %s\n", js)
}

// TestVerifC13Stress: free-running rounds with VERIF_N concurrent NewStream callers with
// deadlines while the peer lowers / raises the limit (including 0); a sampler records the
// number of parked callers at every quiescent instant of the bubble.
func TestVerifC13Stress(t *testing.T) {
	tr := c13Trace(t)
	defer tr.Close()
	seed := int64(vlib.EnvInt("VERIF_SEED", 1))
	rounds := vlib.EnvInt("VERIF_ROUNDS", 20)
	n := vlib.EnvInt("VERIF_N", 32)
	parent := channelzSubChannel(t)
	sum := map[string]int{}
	var mu sync.Mutex
	for round := 0; round < rounds; round++ {
		rng := rand.New(rand.NewSource(seed*1000003 + int64(round)))
		synctest.Test(t, func(t *testing.T) {
			tr.Reset()
			limits := []int{0, 0, 1, 1, 2, 3, 4, 8}
			c, err := c13Dial(tr, parent, []int{1, 2, 3, 5}[rng.Intn(4)])
			if err != nil {
				tr.Emit(c13Ev{"ev": "note", "what": "dial failed: " + err.Error()})
				return
			}
			var inflight atomic.Int32
			var wg sync.WaitGroup
			type plan struct {
				start, dl, hold time.Duration
				how             string
			}
			plans := make([]plan, n)
			for i := range plans {
				plans[i] = plan{
					start: time.Duration(rng.Intn(40)) * 100 * time.Microsecond,
					dl:    []time.Duration{time.Millisecond, 3 * time.Millisecond, 10 * time.Millisecond, 40 * time.Millisecond}[rng.Intn(4)],
					hold:  time.Duration(rng.Intn(30)) * 100 * time.Microsecond,
					how:   []string{"cancel", "srvend", "half", "srvrst"}[rng.Intn(4)],
				}
			}
			for i := 0; i < n; i++ {
				p := plans[i]
				name := fmt.Sprintf("r%d", i)
				wg.Add(1)
				go func() {
					defer wg.Done()
					defer func() {
						if r := recover(); r != nil {
							tr.Emit(c13Ev{"ev": "panic", "what": "caller " + name, "r": fmt.Sprint(r)})
						}
					}()
					time.Sleep(p.start)
					ctx, cancel := context.WithTimeout(context.Background(), p.dl)
					defer cancel()
					tr.Emit(c13Ev{"ev": "new", "r": name, "dl": 1})
					inflight.Add(1)
					s, err := c.ct.NewStream(ctx, &CallHdr{Host: "verif", Method: "/verif.S/M"}, nil)
					inflight.Add(-1)
					if err != nil {
						kind, msg := c13Kind(err)
						tr.Emit(c13Ev{"ev": "ret", "r": name, "ok": 0, "id": 0, "kind": kind, "msg": msg})
						mu.Lock()
						sum["failed_"+kind]++
						mu.Unlock()
						return
					}
					tr.Emit(c13Ev{"ev": "ret", "r": name, "ok": 1, "id": int(s.id), "kind": "", "msg": ""})
					mu.Lock()
					sum["admitted"]++
					mu.Unlock()
					time.Sleep(p.hold)
					k := &c13Call{name: name, s: s}
					c.closeStream(tr, k, p.how)
					<-s.Done()
				}()
			}
			stopped := make(chan struct{})
			chDone := make(chan struct{})
			go func() { // the peer changes the limit
				defer close(chDone)
				for j := 0; j < 12; j++ {
					time.Sleep(time.Duration(rng.Intn(20)) * 100 * time.Microsecond)
					c.peer.announce(limits[rng.Intn(len(limits))])
				}
				time.Sleep(2 * time.Millisecond)
				c.peer.announce(1 + rng.Intn(3))
			}()
			sampDone := make(chan struct{})
			go func() { // sampler: exact quiescent instants
				defer close(sampDone)
				for {
					synctest.Wait()
					q, w, m, ok := c.snapshot()
					okI := 0
					if ok {
						okI = 1
					}
					tr.Emit(c13Ev{"ev": "q", "blocked": int(inflight.Load()), "quota": c13Clamp(q), "waiting": w, "maxc": c13Clamp(m), "snap": okI, "held": 0})
					select {
					case <-stopped:
						return
					case <-time.After(250 * time.Microsecond):
					}
				}
			}()
			wg.Wait()
			<-chDone
			close(stopped)
			<-sampDone
			c.shutdown(tr)
			mu.Lock()
			sum["rounds"]++
			mu.Unlock()
		})
	}
	js, _ := json.Marshal(sum)
	fmt.Printf("VERIF_SUMMARY %s\n", js)
}
