package transport

// Verification drivers for C17, write-quota half (DESIGN.md, section "C17"): the real
// writeQuota under TLC-generated gated schedules and under free-running jittered stress.
// Overlaid into package transport by /verif/lib/vcheck.py; never part of /repo.  The driver
// only drives and records; the trace is judged by TLC against specs/WriteQuotaTrace.tla.
//
// Parked writer.  The spec models "writer parked in get" as the pc value g_wait whose action
// is enabled only when the select can proceed (token in w.ch, or done closed).  The hook
// wq.g_wait sits immediately before the select, so in gated replay a parked writer stands at
// that gate and TLC schedules it only when a wake-up is due; the select must then return at
// once and the writer arrives at wq.g_load again (or finishes).  w.ch is a buffered channel
// of capacity 1 written with a non-blocking send, so a token sent while the writer stands at
// the gate is not lost.  If the granted writer blocks instead, the driver sees it in the
// runtime's goroutine dump (state "select") and logs `blocked`.  Quiescent points are found the
// same way (writer finished or in state "select", everybody else finished).

import (
	"bytes"
	"encoding/json"
	"fmt"
	"math/rand"
	"os"
	"regexp"
	"runtime"
	"strconv"
	"strings"
	"sync"
	"sync/atomic"
	"testing"
	"time"

	"google.golang.org/grpc/internal/verifhook"
	"google.golang.org/grpc/internal/zzverif/vlib"
)

type c17Step struct {
	T    string         `json:"t"`
	P    string         `json:"p"`
	Next string         `json:"next"`
	N    int            `json:"n"`
	Exp  map[string]any `json:"exp"`
}

type c17Scope struct {
	Init    int       `json:"init"`
	Sizes   []int     `json:"sizes"`
	UseDone bool      `json:"usedone"`
	Steps   []c17Step `json:"steps"`
}

type c17Run struct {
	wq      writeQuota
	done    chan struct{}
	doneOne sync.Once
	s       *vlib.Sched
	jit     func()
	freed   atomic.Bool
	pend    atomic.Int64 // bytes granted and not yet replenished ("queued for loopy")
	nextN   atomic.Int64

	logmu  sync.Mutex
	events []map[string]any

	thmu     sync.Mutex
	goids    map[string]int64
	finished map[string]chan struct{}
}

func c17NewRun(init int, s *vlib.Sched, jit func()) *c17Run {
	r := &c17Run{done: make(chan struct{}), s: s, jit: jit, goids: map[string]int64{}, finished: map[string]chan struct{}{}}
	r.wq.init(int32(init), r.done)
	return r
}

func (r *c17Run) log(e map[string]any) {
	r.logmu.Lock()
	r.events = append(r.events, e)
	r.logmu.Unlock()
}

func (r *c17Run) gate(p string) {
	if r.s != nil {
		r.s.Hook(p)
	} else {
		r.jit()
	}
}

func (r *c17Run) gateStop(p string) bool {
	r.gate(p)
	return !(r.s != nil && r.freed.Load())
}

func (r *c17Run) handler(p string, o any) {
	if o == any(&r.wq) && strings.HasPrefix(p, "wq.") {
		r.gate(p[3:])
	}
}

func (r *c17Run) spawn(name string, body func()) {
	fin := make(chan struct{})
	r.thmu.Lock()
	r.finished[name] = fin
	r.thmu.Unlock()
	wrapped := func() {
		defer close(fin)
		defer func() {
			if x := recover(); x != nil {
				r.log(map[string]any{"ev": "panic", "t": name, "what": fmt.Sprint(x)})
			}
		}()
		id := vlib.Goid()
		r.thmu.Lock()
		r.goids[name] = id
		r.thmu.Unlock()
		body()
	}
	if r.s != nil {
		r.s.Spawn(name, wrapped)
	} else {
		go wrapped()
	}
}

func (r *c17Run) writer(sizes []int) func() {
	return func() {
		for _, sz := range sizes {
			r.log(map[string]any{"ev": "w_call", "sz": sz})
			err := r.wq.get(int32(sz))
			if err == nil {
				r.pend.Add(int64(sz))
			}
			r.log(map[string]any{"ev": "w_ret", "sz": sz, "ok": err == nil})
			if err != nil {
				return
			}
		}
	}
}

func (r *c17Run) replenish(n int) {
	r.log(map[string]any{"ev": "rep_call", "n": n})
	r.wq.replenish(n)
	r.log(map[string]any{"ev": "rep_ret", "n": n})
}

func (r *c17Run) closeDone() {
	r.doneOne.Do(func() {
		r.log(map[string]any{"ev": "done"})
		close(r.done)
	})
}

var c17GoroutineRE = regexp.MustCompile(`(?m)^goroutine (\d+) \[([^\]]*)\]:`)

func c17States() map[int64]string {
	buf := make([]byte, 1<<16)
	for {
		n := runtime.Stack(buf, true)
		if n < len(buf) {
			buf = buf[:n]
			break
		}
		buf = make([]byte, 2*len(buf))
	}
	out := map[int64]string{}
	for _, m := range c17GoroutineRE.FindAllSubmatch(buf, -1) {
		id, _ := strconv.ParseInt(string(m[1]), 10, 64)
		out[id] = string(bytes.SplitN(m[2], []byte(","), 2)[0])
	}
	return out
}

func (r *c17Run) isFinished(name string) bool {
	r.thmu.Lock()
	fin, ok := r.finished[name]
	r.thmu.Unlock()
	if !ok {
		return true
	}
	select {
	case <-fin:
		return true
	default:
		return false
	}
}

func (r *c17Run) inSelect(name string) bool {
	r.thmu.Lock()
	id, ok := r.goids[name]
	r.thmu.Unlock()
	return ok && c17States()[id] == "select"
}

// waitWriter waits until the replenisher and the closer finished and the writer finished or is
// blocked in its select.  The bound only matters on failing paths.
func (r *c17Run) waitWriter() (stuck bool, ok bool) {
	deadline := time.Now().Add(60 * time.Second)
	for spin := 0; ; spin++ {
		if r.isFinished("r") && r.isFinished("d") {
			sel := r.inSelect("w") // snapshot taken after the others finished
			if r.isFinished("w") {
				return false, true
			}
			if sel {
				return true, true
			}
		}
		if time.Now().After(deadline) {
			return false, false
		}
		if spin < 20 {
			runtime.Gosched()
		} else {
			time.Sleep(50 * time.Microsecond)
		}
	}
}

func (r *c17Run) quiet(phase int, stuck, ok bool) {
	r.log(map[string]any{"ev": "quiet", "phase": phase, "stuck": stuck, "timeout": !ok,
		"quota": int(atomic.LoadInt32(&r.wq.quota)), "tok": len(r.wq.ch)})
}

// settle: phase 1 = free run in which the driver plays loopy (whenever the writer parks, everything
// outstanding is written out) until the writer finished or parked with nothing outstanding;
// phase 2 = done closed.
func (r *c17Run) settle() (clean, settled bool) {
	r.freed.Store(true)
	if r.s != nil {
		r.s.Free()
	}
	var stuck, ok bool
	for {
		stuck, ok = r.waitWriter()
		if !ok || !stuck {
			break
		}
		n := r.pend.Swap(0)
		if n == 0 {
			break
		}
		r.replenish(int(n))
	}
	if n := r.pend.Swap(0); n > 0 && ok {
		r.replenish(int(n))
	}
	r.quiet(1, stuck, ok)
	r.closeDone()
	stuck2, ok2 := r.waitWriter()
	r.quiet(2, stuck2, ok2)
	return ok && ok2 && !stuck && !stuck2, ok && ok2
}

func (r *c17Run) state() map[string]any {
	done := false
	select {
	case <-r.done:
		done = true
	default:
	}
	return map[string]any{"quota": int(atomic.LoadInt32(&r.wq.quota)), "tok": len(r.wq.ch), "done": done}
}

func (r *c17Run) step(t, p string) (arr string, blocked bool, err error) {
	arr, err = r.s.Step(t, p)
	start := time.Now()
	for err != nil && strings.HasPrefix(err.Error(), "thread ") {
		if r.inSelect(t) {
			return "", true, nil
		}
		if time.Since(start) > 60*time.Second {
			return "", false, err
		}
		arr, err = r.s.Await(t)
	}
	return arr, false, err
}

func c17RunBehaviour(b *c17Scope) (events []map[string]any, outcome string) {
	s := vlib.NewSched(3 * time.Millisecond)
	r := c17NewRun(b.Init, s, nil)
	verifhook.Set(r.handler)
	defer verifhook.Set(nil)
	if cap(r.wq.ch) != 1 {
		r.log(map[string]any{"ev": "note", "what": "writeQuota.ch capacity is not 1"})
	}
	start := func(name string, body func()) bool {
		r.spawn(name, body)
		for i := 0; i < 3000; i++ {
			if _, err := s.Await(name); err == nil {
				return true
			}
		}
		return false
	}
	okStart := start("w", r.writer(b.Sizes))
	okStart = okStart && start("r", func() {
		for r.gateStop("r_add") {
			r.replenish(int(r.nextN.Load()))
		}
	})
	okStart = okStart && start("d", func() {
		if b.UseDone && r.gateStop("cdone") {
			r.closeDone()
		}
	})
	outcome = "ok"
	if !okStart {
		outcome = "infeasible: a thread did not reach its first gate"
	}
	for i, st := range b.Steps {
		if outcome != "ok" {
			break
		}
		ambiguous := false
		if st.P == "g_wait" {
			cur := r.state()
			ambiguous = cur["tok"] == 1 && cur["done"] == true
		}
		if st.P == "r_add" {
			if r.pend.Load() < int64(st.N) {
				outcome = fmt.Sprintf("drift: step %d replenish %d but only %d outstanding", i, st.N, r.pend.Load())
				break
			}
			r.pend.Add(-int64(st.N))
			r.nextN.Store(int64(st.N))
		}
		r.log(map[string]any{"ev": "at", "t": st.T, "p": st.P})
		arr, blocked, err := r.step(st.T, st.P)
		switch {
		case blocked:
			r.log(map[string]any{"ev": "blocked", "t": st.T, "p": st.P})
			outcome = fmt.Sprintf("blocked: step %d %s@%s blocks in a select although the model enables it", i, st.T, st.P)
		case err != nil && strings.HasPrefix(err.Error(), "expects"):
			outcome = fmt.Sprintf("drift: step %d %v", i, err)
		case err != nil:
			outcome = fmt.Sprintf("infeasible: step %d %s@%s: %v", i, st.T, st.P, err)
		case arr != st.Next && ambiguous:
			outcome = "ok-nondet"
		case arr != st.Next:
			outcome = fmt.Sprintf("drift: step %d (%s@%s) thread arrived at %s, spec says %s", i, st.T, st.P, arr, st.Next)
		}
		if outcome != "ok" {
			break
		}
		got := r.state()
		for k, want := range st.Exp {
			if fmt.Sprint(got[k]) != fmt.Sprint(want) {
				outcome = fmt.Sprintf("drift: step %d (%s@%s) %s = %v, spec says %v", i, st.T, st.P, k, got[k], want)
				break
			}
		}
	}
	clean, settled := r.settle()
	if !settled {
		outcome = "unsettled: " + outcome
	} else if !s.Join(5*time.Second) && clean {
		outcome = "unsettled: join timeout, " + outcome
	}
	r.logmu.Lock()
	defer r.logmu.Unlock()
	return r.events, outcome
}

// TestVerifC17Replay forces every behaviour of VERIF_BEHAVIOURS onto a real writeQuota.
func TestVerifC17Replay(t *testing.T) {
	lines, err := vlib.ReadLines(os.Getenv("VERIF_BEHAVIOURS"))
	if err != nil {
		t.Fatal(err)
	}
	tr, err := vlib.NewTrace(os.Getenv("VERIF_OUT"))
	if err != nil {
		t.Fatal(err)
	}
	defer tr.Close()
	counts := map[string]int{}
	notes := []string{}
	skipped := 0
	for i, ln := range lines {
		var b c17Scope
		if err := json.Unmarshal(ln, &b); err != nil {
			t.Fatal(err)
		}
		if counts["blocked"]+counts["infeasible"]+counts["unsettled"] >= 5 {
			skipped++
			continue
		}
		ev, outcome := c17RunBehaviour(&b)
		cls := strings.SplitN(outcome, ":", 2)[0]
		counts[cls]++
		if cls != "ok" && cls != "ok-nondet" && len(notes) < 5 {
			notes = append(notes, fmt.Sprintf("behaviour %d: %s", i, outcome))
		}
		tr.Emit(map[string]any{"ev": "reset", "b": i, "outcome": outcome, "init": b.Init})
		for _, e := range ev {
			tr.Emit(e)
		}
	}
	sum, _ := json.Marshal(map[string]any{"behaviours": len(lines), "counts": counts, "skipped": skipped, "notes": notes})
	fmt.Printf("VERIF_SUMMARY %s\n", sum)
}

// TestVerifC17Stress: one free-running writer, a free-running replenisher that returns what was
// granted in random pieces, optionally a closer; seeded jitter at the hook points.
func TestVerifC17Stress(t *testing.T) {
	seed := int64(vlib.EnvInt("VERIF_SEED", 1))
	rounds := vlib.EnvInt("VERIF_ROUNDS", 100)
	tr, err := vlib.NewTrace(os.Getenv("VERIF_OUT"))
	if err != nil {
		t.Fatal(err)
	}
	defer tr.Close()
	total, unclean := 0, 0
	for round := 0; round < rounds && unclean < 5; round++ {
		rng := rand.New(rand.NewSource(seed*1000003 + int64(round)))
		jrng := rand.New(rand.NewSource(seed*7919 + int64(round)))
		var jmu sync.Mutex
		jint := func(n int) int {
			jmu.Lock()
			defer jmu.Unlock()
			return jrng.Intn(n)
		}
		jit := func() {
			switch x := jint(10); {
			case x == 0:
				time.Sleep(10 * time.Microsecond)
			case x <= 3:
				runtime.Gosched()
			}
		}
		init := 1 + rng.Intn(6)
		r := c17NewRun(init, nil, jit)
		verifhook.Set(r.handler)
		nw := 3 + rng.Intn(10)
		sizes := make([]int, nw)
		for i := range sizes {
			sizes[i] = 1 + rng.Intn(2*init+2)
		}
		var stop atomic.Bool
		r.spawn("w", r.writer(sizes))
		r.spawn("r", func() {
			for !stop.Load() {
				p := r.pend.Load()
				if p == 0 {
					jit()
					runtime.Gosched()
					continue
				}
				n := p
				if jint(3) > 0 {
					n = 1 + int64(jint(int(p)))
				}
				r.pend.Add(-n) // only this goroutine subtracts
				r.replenish(int(n))
			}
		})
		if rng.Intn(4) == 0 {
			d := rng.Intn(200)
			r.spawn("d", func() {
				time.Sleep(time.Duration(d) * time.Microsecond)
				r.closeDone()
			})
		}
		// let them race until the writer finished or looks parked with nothing outstanding (only a
		// trigger: the exact judgement is made in settle, after the replenisher has stopped)
		deadline := time.Now().Add(2 * time.Second)
		for !r.isFinished("w") && time.Now().Before(deadline) {
			if r.pend.Load() == 0 && r.inSelect("w") && r.pend.Load() == 0 {
				break
			}
			time.Sleep(20 * time.Microsecond)
		}
		stop.Store(true)
		if _, settled := r.settle(); !settled {
			unclean++
		}
		verifhook.Set(nil)
		tr.Emit(map[string]any{"ev": "reset", "b": round, "outcome": "stress", "init": init})
		r.logmu.Lock()
		for _, e := range r.events {
			tr.Emit(e)
		}
		total += len(r.events)
		r.logmu.Unlock()
	}
	fmt.Printf("VERIF_SUMMARY {\"rounds\":%d,\"events\":%d,\"unclean\":%d}\n", rounds, total, unclean)
}
