package transport

// Drivers for C01 / C02 / C03 (specs/Loopy.tla): a real loopyWriter over a bytes.Buffer is driven
// step by step (handle(item) / processData()) on one goroutine; after every step the bytes newly
// written are decoded by an independent golang.org/x/net/http2 Framer and logged together with
// the input and the projected private state.  The drivers never judge: specs/LoopyTrace.tla does.
//
// Every logical byte of a stream (gRPC message prefix and payload alike) carries its own position
// in the stream's byte sequence modulo 251, so that order / gaps / duplicates can be judged from
// the decoded DATA payloads alone (logged as maximal runs of bytes counting up modulo 251).

import (
	"bytes"
	"encoding/json"
	"fmt"
	"math/rand"
	"os"
	"sort"
	"strings"
	"testing"

	"golang.org/x/net/http2"
	"golang.org/x/net/http2/hpack"
	"google.golang.org/grpc/internal/zzverif/vlib"
	"google.golang.org/grpc/mem"
)

const loopyVMod = 251

type loopyVRW struct{ w *bytes.Buffer }

func (v loopyVRW) Read([]byte) (int, error)    { select {} }
func (v loopyVRW) Write(p []byte) (int, error) { return v.w.Write(p) }

type loopyVStep struct {
	K string `json:"k"`
	S uint32 `json:"s"`
	N int    `json:"n"`
	B bool   `json:"b"`
	H int    `json:"h"`
}

type loopyVBeh struct {
	Srv   bool         `json:"srv"`
	Conn  uint32       `json:"conn"`
	IWS   uint32       `json:"iws"`
	NS    int          `json:"ns"`
	Steps []loopyVStep `json:"steps"`
}

type loopyVEnv struct {
	srv    bool
	wire   bytes.Buffer
	fr     *framer
	l      *loopyWriter
	rd     *http2.Framer
	done   chan struct{}
	pos    map[uint32]int  // logical bytes the application has written per stream
	sent   map[uint32]int  // DATA bytes decoded from the wire per stream
	opened map[uint32]bool // the application opened the stream
	closed map[uint32]bool // cleanupStream handled (API feedback: cleanupStream.onWrite)
	last   map[uint32]bool // the application did its final write / WriteStatus
	hdrs   map[uint32]bool // response headers sent (server)
	tr     *vlib.Trace
	dead   bool
	chunk  int // how data payloads are cut into mem.Buffers
}

func loopyVNew(tr *vlib.Trace, srv bool, conn, iws uint32) *loopyVEnv {
	e := &loopyVEnv{srv: srv, tr: tr, done: make(chan struct{}), pos: map[uint32]int{}, sent: map[uint32]int{},
		opened: map[uint32]bool{}, closed: map[uint32]bool{}, last: map[uint32]bool{}, hdrs: map[uint32]bool{}}
	e.fr = newFramer(loopyVRW{&e.wire}, 0, 0, false, 1<<20, mem.DefaultBufferPool())
	sd := clientSide
	if srv {
		sd = serverSide
	}
	e.l = newLoopyWriter(sd, e.fr, newControlBuffer(e.done), &bdpEstimator{}, nil, nil, nil, mem.DefaultBufferPool())
	e.l.sendQuota = conn
	e.l.oiws = iws
	e.rd = http2.NewFramer(nil, &e.wire)
	e.rd.SetMaxReadFrameSize(1<<24 - 1)
	return e
}

func loopyVHF(big int) []hpack.HeaderField {
	hf := []hpack.HeaderField{{Name: ":status", Value: "200"}, {Name: "content-type", Value: "application/grpc"}}
	if big != 0 {
		for i := 0; i < 3; i++ {
			hf = append(hf, hpack.HeaderField{Name: fmt.Sprintf("x-big-%d", i), Value: strings.Repeat("a", 20000)})
		}
	}
	return hf
}

// payload builds n bytes that continue the stream's position counter from p0.
func loopyVBytes(p0, n int) []byte {
	b := make([]byte, n)
	for i := range b {
		b[i] = byte((p0 + i) % loopyVMod)
	}
	return b
}

func (e *loopyVEnv) wq() *writeQuota {
	w := &writeQuota{}
	w.init(defaultWriteQuota, e.done)
	return w
}

func (e *loopyVEnv) item(st loopyVStep) any {
	s := st.S
	switch st.K {
	case "open":
		e.opened[s] = true
		if e.srv {
			return &registerStream{streamID: s, wq: e.wq()}
		}
		return &clientHeaders{streamID: s, hf: loopyVHF(st.H), initStream: func(uint32) error { return nil },
			onWrite: func() {}, wq: e.wq(), onOrphaned: func(error) {}}
	case "hdr":
		e.hdrs[s] = true
		return &serverHeaders{streamID: s, hf: loopyVHF(st.H), endStream: false, onWrite: func() {}}
	case "data":
		p0 := e.pos[s]
		h := loopyVBytes(p0, st.H)
		body := loopyVBytes(p0+st.H, st.N)
		e.pos[s] = p0 + st.H + st.N
		if st.B {
			e.last[s] = true
		}
		var bs mem.BufferSlice
		switch {
		case st.N == 0:
		case e.chunk <= 1 || st.N < 3:
			bs = mem.BufferSlice{mem.SliceBuffer(body)}
		default:
			// uneven cut into several buffers (the codec / compressor produce such slices)
			a := st.N / e.chunk
			if a == 0 {
				a = 1
			}
			bs = mem.BufferSlice{mem.SliceBuffer(body[:a]), mem.SliceBuffer(body[a : a+1]), mem.SliceBuffer(body[a+1:])}
		}
		if st.H == 0 {
			h = nil
		}
		return &dataFrame{streamID: s, endStream: st.B, h: h, data: bs, onEachWrite: func() {}}
	case "trailers":
		e.last[s] = true
		return &serverHeaders{streamID: s, hf: loopyVHF(st.H), endStream: true, onWrite: func() {},
			cleanup: &cleanupStream{streamID: s, rst: st.B, rstCode: http2.ErrCodeNo, onWrite: func() { e.closed[s] = true }}}
	case "cleanup":
		return &cleanupStream{streamID: s, rst: st.B, rstCode: http2.ErrCodeCancel, onWrite: func() { e.closed[s] = true }}
	case "abort":
		e.opened[s] = true
		e.closed[s] = true
		return &earlyAbortStream{streamID: s, rst: st.B, hf: loopyVHF(0)}
	case "wu":
		return &incomingWindowUpdate{streamID: s, increment: uint32(st.N)}
	case "settings":
		return &incomingSettings{ss: []http2.Setting{{ID: http2.SettingInitialWindowSize, Val: uint32(st.N)}}}
	case "noise":
		switch st.N {
		case 1:
			return &ping{ack: false, data: [8]byte{9, 9, 9, 9, 9, 9, 9, 9}}
		case 2:
			return &outgoingWindowUpdate{streamID: 0, increment: 1000}
		default:
			return &outgoingSettings{ss: []http2.Setting{{ID: http2.SettingMaxFrameSize, Val: 16384}}}
		}
	}
	panic("unknown step kind " + st.K)
}

// legal reports whether the input is inside the transport's API domain given what the application
// side knows (a TLC behaviour may stop being applicable after the real map iteration order of
// applySettings took another branch than the one TLC chose).
func (e *loopyVEnv) legal(st loopyVStep) bool {
	s := st.S
	switch st.K {
	case "open", "abort":
		return !e.opened[s]
	case "hdr", "data", "trailers":
		// on a live stream until the final write; after the stream's cleanupStream / earlyAbortStream the
		// item is one that lost the race in the control buffer (the writer must drop it)
		return e.opened[s] && (e.closed[s] || !e.last[s])
	case "cleanup":
		return e.opened[s] && !e.closed[s]
	case "wu":
		return s == 0 || e.opened[s]
	}
	return true
}

var loopyVTypes = map[http2.FrameType]string{http2.FrameData: "DATA", http2.FrameHeaders: "HEADERS",
	http2.FrameContinuation: "CONTINUATION", http2.FrameRSTStream: "RST_STREAM", http2.FrameSettings: "SETTINGS",
	http2.FramePing: "PING", http2.FrameWindowUpdate: "WINDOW_UPDATE", http2.FrameGoAway: "GOAWAY",
	http2.FramePriority: "PRIORITY", http2.FramePushPromise: "PUSH_PROMISE"}

func loopyVRuns(p []byte) [][]int {
	runs := [][]int{}
	for i := 0; i < len(p); {
		j := i + 1
		for j < len(p) && int(p[j]) == (int(p[j-1])+1)%loopyVMod {
			j++
		}
		runs = append(runs, []int{int(p[i]), j - i})
		i = j
	}
	return runs
}

// frames decodes everything written since the last call.
func (e *loopyVEnv) frames() ([]map[string]any, string) {
	e.fr.writer.Flush()
	out := []map[string]any{}
	for e.wire.Len() > 0 {
		f, err := e.rd.ReadFrame()
		if err != nil {
			return out, "undecodable wire: " + err.Error()
		}
		h := f.Header()
		name, ok := loopyVTypes[h.Type]
		if !ok {
			name = fmt.Sprintf("TYPE%d", h.Type)
		}
		m := map[string]any{"t": name, "s": int(h.StreamID), "len": int(h.Length), "f": false, "runs": [][]int{}}
		switch f := f.(type) {
		case *http2.DataFrame:
			m["f"] = f.StreamEnded()
			m["runs"] = loopyVRuns(f.Data())
			e.sent[h.StreamID] += len(f.Data())
		case *http2.HeadersFrame:
			m["f"] = f.StreamEnded()
		case *http2.SettingsFrame:
			m["f"] = f.IsAck()
		case *http2.PingFrame:
			m["f"] = f.IsAck()
		}
		out = append(out, m)
	}
	return out, ""
}

func (e *loopyVEnv) priv() map[string]any {
	l := e.l
	al := []int{}
	for s := l.activeStreams.head.next; s != nil && s != l.activeStreams.tail; s = s.next {
		al = append(al, int(s.id))
		if len(al) > 10000 {
			break
		}
	}
	ids := []int{}
	for id := range l.estdStreams {
		ids = append(ids, int(id))
	}
	sort.Ints(ids)
	str := [][]any{}
	for _, id := range ids {
		s := l.estdStreams[uint32(id)]
		n := 0
		for it := s.itl.head; it != nil; it = it.next {
			n++
		}
		name := "?"
		switch s.state {
		case active:
			name = "active"
		case empty:
			name = "empty"
		case waitingOnStreamQuota:
			name = "waiting"
		}
		str = append(str, []any{id, name, s.bytesOutStanding, n})
	}
	return map[string]any{"sq": int(l.sendQuota), "oiws": int(l.oiws), "al": al, "str": str}
}

// do executes one step on the real writer and logs it.  It returns processData's isEmpty.
func (e *loopyVEnv) do(st loopyVStep) (isEmpty bool) {
	if e.dead || !e.legal(st) {
		return false
	}
	var err error
	func() {
		defer func() {
			if r := recover(); r != nil {
				e.dead = true
				e.tr.Emit(map[string]any{"ev": "panic", "in": st, "r": fmt.Sprint(r)})
			}
		}()
		if st.K == "pd" {
			isEmpty, err = e.l.processData()
		} else {
			err = e.l.handle(e.item(st))
		}
	}()
	if e.dead {
		return false
	}
	fs, bad := e.frames()
	e.tr.Emit(map[string]any{"ev": "step", "in": st, "frames": fs, "empty": isEmpty, "priv": e.priv()})
	if err != nil || bad != "" {
		e.dead = true
		e.tr.Emit(map[string]any{"ev": "error", "what": fmt.Sprint(err, " ", bad)})
	}
	return isEmpty
}

// drain calls processData until it reports "nothing to do" (what run() does when the control
// buffer is empty): the last call is the stable point.
func (e *loopyVEnv) drain() {
	for i := 0; i < 100000 && !e.dead; i++ {
		if e.do(loopyVStep{K: "pd"}) {
			return
		}
	}
}

func TestVerifLoopyReplay(t *testing.T) {
	lines, err := vlib.ReadLines(os.Getenv("VERIF_BEHAVIOURS"))
	if err != nil {
		t.Fatal(err)
	}
	tr, err := vlib.NewTrace(os.Getenv("VERIF_OUT"))
	if err != nil {
		t.Fatal(err)
	}
	defer tr.Close()
	for i, ln := range lines {
		var b loopyVBeh
		if err := json.Unmarshal(ln, &b); err != nil {
			t.Fatal(err)
		}
		tr.Emit(map[string]any{"ev": "reset", "b": i, "srv": b.Srv, "conn": int(b.Conn), "iws": int(b.IWS), "ns": b.NS})
		e := loopyVNew(tr, b.Srv, b.Conn, b.IWS)
		e.chunk = 1 + i%4
		for _, st := range b.Steps {
			e.do(st)
		}
		e.drain()
		close(e.done)
	}
	fmt.Printf("VERIF_SUMMARY {\"behaviours\":%d,\"events\":%d}\n", len(lines), tr.N)
}

// TestVerifLoopyRandom: seeded long histories (hundreds of items, several concurrent streams, real
// byte sizes) that stay inside the API domain; run() discipline: every item is followed by one
// processData call, sometimes by more, sometimes by a full drain.  Each history ends with a
// quiescent phase in which the scripted peer grants ample credit.
func TestVerifLoopyRandom(t *testing.T) {
	tr, err := vlib.NewTrace(os.Getenv("VERIF_OUT"))
	if err != nil {
		t.Fatal(err)
	}
	defer tr.Close()
	rng := rand.New(rand.NewSource(int64(vlib.EnvInt("VERIF_SEED", 1))*7919 + 17))
	runs := vlib.EnvInt("VERIF_N", 20)
	steps := vlib.EnvInt("VERIF_STEPS", 400)
	payloads := []int{0, 1, 16379, 16384, 20000}
	incs := []int{1, 5, 16384, 65535}
	iwss := []int{0, 5, 16384, 65535, 70000}
	conns := []int{0, 5, 16384, 65535, 200000}
	const ns = 40
	items := 0
	for r := 0; r < runs; r++ {
		srv := rng.Intn(2) == 0
		conn, iws := conns[rng.Intn(len(conns))], iwss[rng.Intn(len(iwss))]
		tr.Emit(map[string]any{"ev": "reset", "b": r, "srv": srv, "conn": conn, "iws": iws, "ns": ns})
		e := loopyVNew(tr, srv, uint32(conn), uint32(iws))
		e.chunk = 1 + rng.Intn(4)
		next := uint32(1)
		// a run leans towards one regime: starved of window, or flowing
		stingy := rng.Intn(3) == 0
		live := func() []uint32 {
			var out []uint32
			for s := uint32(1); s < next; s += 2 {
				if e.opened[s] && !e.closed[s] {
					out = append(out, s)
				}
			}
			return out
		}
		// recently closed streams (cleanupStream / earlyAbortStream handled)
		gone := func() []uint32 {
			var out []uint32
			for s := uint32(1); s < next; s += 2 {
				if e.closed[s] && s+12 >= next {
					out = append(out, s)
				}
			}
			return out
		}
		writable := func() []uint32 {
			var out []uint32
			for _, s := range live() {
				if !e.last[s] {
					out = append(out, s)
				}
			}
			return out
		}
		after := func() {
			// run(): one processData after every item, more while the control buffer is empty
			if e.do(loopyVStep{K: "pd"}) {
				return
			}
			switch rng.Intn(4) {
			case 0:
			case 1:
				for k := rng.Intn(4); k > 0; k-- {
					if e.do(loopyVStep{K: "pd"}) {
						break
					}
				}
			default:
				e.drain()
			}
		}
		for k := 0; k < steps && !e.dead; k++ {
			lv, wr := live(), writable()
			var st loopyVStep
			x := rng.Intn(100)
			switch {
			case (len(lv) == 0 || x < 6) && len(lv) < 6 && int(next) < 2*ns-1:
				st = loopyVStep{K: "open", S: next}
				if !srv && rng.Intn(8) == 0 {
					st.H = 1
				}
				if srv && rng.Intn(25) == 0 {
					st = loopyVStep{K: "abort", S: next, B: rng.Intn(2) == 0}
				}
				next += 2
			case x < 45 && len(wr) > 0:
				s := wr[rng.Intn(len(wr))]
				n := payloads[rng.Intn(len(payloads))]
				switch rng.Intn(4) {
				case 0:
					n = rng.Intn(64)
				case 1:
					n = rng.Intn(40000)
				}
				st = loopyVStep{K: "data", S: s, N: n, H: 5}
				if !srv {
					switch rng.Intn(8) {
					case 0:
						st.B = true
					case 1:
						st = loopyVStep{K: "data", S: s, N: 0, H: 0, B: true}
					}
				}
			case x < 50 && len(wr) > 0 && srv:
				s := wr[rng.Intn(len(wr))]
				if !e.hdrs[s] && e.pos[s] == 0 && rng.Intn(2) == 0 {
					st = loopyVStep{K: "hdr", S: s, H: rng.Intn(6) / 5}
				} else {
					st = loopyVStep{K: "trailers", S: s, B: rng.Intn(2) == 0, H: rng.Intn(10) / 9}
				}
			case x < 54 && len(lv) > 0:
				st = loopyVStep{K: "cleanup", S: lv[rng.Intn(len(lv))], B: rng.Intn(3) > 0}
			case x < 57 && len(gone()) > 0:
				// an item that lost the race against the stream's cleanupStream / earlyAbortStream
				gs := gone()
				s := gs[rng.Intn(len(gs))]
				switch y := rng.Intn(4); {
				case y == 0 && srv:
					st = loopyVStep{K: "hdr", S: s, H: rng.Intn(6) / 5}
				case y == 1 && srv:
					st = loopyVStep{K: "trailers", S: s, B: rng.Intn(2) == 0}
				default:
					st = loopyVStep{K: "data", S: s, N: payloads[rng.Intn(len(payloads))], H: 5}
				}
			case x < 70:
				n := incs[rng.Intn(len(incs))]
				if stingy && rng.Intn(2) == 0 {
					n = incs[rng.Intn(2)]
				}
				st = loopyVStep{K: "wu", S: 0, N: n}
			case x < 88 && next > 1:
				// any stream the peer has seen, closed ones included
				s := uint32(1 + 2*rng.Intn(int(next/2)))
				if len(lv) > 0 && rng.Intn(5) > 0 {
					s = lv[rng.Intn(len(lv))]
				}
				n := incs[rng.Intn(len(incs))]
				if stingy && rng.Intn(2) == 0 {
					n = incs[rng.Intn(2)]
				}
				st = loopyVStep{K: "wu", S: s, N: n}
			case x < 95:
				st = loopyVStep{K: "settings", N: iwss[rng.Intn(len(iwss))]}
			default:
				st = loopyVStep{K: "noise", N: 1 + rng.Intn(3)}
			}
			if st.K == "" || !e.legal(st) {
				continue
			}
			items++
			e.do(st)
			after()
		}
		// quiescent phase: the peer raises the initial window and keeps granting credit
		if !e.dead {
			e.do(loopyVStep{K: "settings", N: 65535})
			e.drain()
		}
		for round := 0; round < 400 && !e.dead; round++ {
			pending := false
			for _, s := range live() {
				if e.pos[s] > e.sent[s] {
					pending = true
					e.do(loopyVStep{K: "wu", S: s, N: 65535})
					e.do(loopyVStep{K: "pd"})
				}
			}
			if !pending {
				break
			}
			e.do(loopyVStep{K: "wu", S: 0, N: 65535})
			e.drain()
		}
		close(e.done)
	}
	fmt.Printf("VERIF_SUMMARY {\"runs\":%d,\"items\":%d,\"events\":%d}\n", runs, items, tr.N)
}
