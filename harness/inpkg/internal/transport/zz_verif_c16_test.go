package transport

// Verification drivers for C16 (DESIGN.md, section "C16"): the real controlBuffer under
// TLC-generated gated schedules and under free-running jittered stress.  Overlaid into
// package transport by /verif/lib/vcheck.py; never part of /repo.  The driver only drives
// and records; the recorded trace is judged by TLC against specs/ControlBufTrace.tla.
//
// Parked goroutines.  The spec models "consumer parked in get" and "reader parked in
// throttle" as pc values (park, r_wait) whose action is enabled only when the select can
// proceed.  The verifhook gate sits immediately BEFORE the blocking select, so in gated
// replay a thread that the spec considers parked simply stands at that gate; TLC schedules
// its step only when a wake-up is due, so the select must return at once and the thread
// arrives at its next gate.  (Both wake-up mechanisms are level triggered: a closed channel
// and a token in a buffered channel of capacity 1, so standing at the gate instead of inside
// the select does not change the outcome.)  If the granted thread blocks instead, the driver
// sees it in the runtime's goroutine dump (state "select") - no wall-clock guess - and logs a
// `blocked` event; the monitor decides whether the property demanded the release.
// Quiescent points are detected the same way: all gates released, producers finished, every
// other goroutine finished or in state "select".

import (
	"bytes"
	"encoding/json"
	"fmt"
	"math/rand"
	"os"
	"regexp"
	"runtime"
	"sort"
	"strconv"
	"strings"
	"sync"
	"sync/atomic"
	"testing"
	"time"

	"google.golang.org/grpc/internal/verifhook"
	"google.golang.org/grpc/internal/zzverif/vlib"
)

type c16Step struct {
	T    string         `json:"t"`
	P    string         `json:"p"`
	Next string         `json:"next"`
	Exp  map[string]any `json:"exp"`
}

type c16Scope struct {
	Max       int                 `json:"max"`
	Producers map[string][]string `json:"producers"`
	Readers   []string            `json:"readers"`
	Throttles int                 `json:"throttles"`
	Fins      int                 `json:"fins"`
	UseDone   bool                `json:"usedone"`
	Steps     []c16Step           `json:"steps"`
}

// c16Item is a control-buffer item with an identity ("T" throttled, "U" not throttled).
type c16Item struct {
	id string
	k  string
}

func (i *c16Item) isThrottled() bool { return i.k == "T" }

type c16Run struct {
	c       *controlBuffer
	done    chan struct{}
	doneOne sync.Once
	s       *vlib.Sched // nil in stress mode
	jit     func()      // stress mode
	freed   atomic.Bool

	logmu  sync.Mutex
	events []map[string]any
	gens   []*chan struct{}
	hid    map[*clientHeaders]string

	thmu     sync.Mutex
	goids    map[string]int64
	names    map[int64]string
	finished map[string]chan struct{}
	kind     map[string]string // producer | consumer | reader | closer
}

func c16NewRun(max int, s *vlib.Sched, jit func()) *c16Run {
	maxQueuedControlBufferItems = max
	r := &c16Run{done: make(chan struct{}), s: s, jit: jit, hid: map[*clientHeaders]string{},
		goids: map[string]int64{}, names: map[int64]string{}, finished: map[string]chan struct{}{}, kind: map[string]string{}}
	r.c = newControlBuffer(r.done)
	return r
}

func (r *c16Run) log(e map[string]any) {
	r.logmu.Lock()
	r.events = append(r.events, e)
	r.logmu.Unlock()
}

func c16Closed(ch *chan struct{}) bool {
	select {
	case <-*ch:
		return true
	default:
		return false
	}
}

// genOf maps a throttle channel to its generation number (order of creation). logmu held.
func (r *c16Run) genOf(ch *chan struct{}) int {
	if ch == nil {
		return 0
	}
	for i, g := range r.gens {
		if g == ch {
			return i + 1
		}
	}
	r.gens = append(r.gens, ch)
	return len(r.gens)
}

func (r *c16Run) closedGens() []int {
	cg := []int{}
	for i, g := range r.gens {
		if c16Closed(g) {
			cg = append(cg, i+1)
		}
	}
	return cg
}

func (r *c16Run) itemID(it any) (string, string) {
	switch v := it.(type) {
	case *c16Item:
		return v.id, v.k
	case *clientHeaders:
		return r.hid[v], "H"
	}
	return "?", "?"
}

// queue returns the real queue content.  c.mu and logmu held.
func (r *c16Run) queue() []map[string]any {
	q := []map[string]any{}
	for n := r.c.list.head; n != nil; n = n.next {
		id, k := r.itemID(n.it)
		q = append(q, map[string]any{"id": id, "k": k})
	}
	return q
}

// logSt records the state at the end of a critical section.  Called with c.mu held.
func (r *c16Run) logSt(op string) {
	r.logmu.Lock()
	gen := r.genOf(r.c.trfChan.Load())
	r.events = append(r.events, map[string]any{"ev": "st", "op": op, "q": r.queue(), "trf": r.c.transportResponseFrames,
		"gen": gen, "closed": r.c.closed, "cg": r.closedGens()})
	r.logmu.Unlock()
}

func (r *c16Run) gate(p string) {
	if r.s != nil {
		r.s.Hook(p)
	} else {
		r.jit()
	}
}

// gateStop is the gate of a closer: once the gates are released for the quiescent phases the
// closers do not run by themselves any more (the driver closes in phases 2 and 3).
func (r *c16Run) gateStop(p string) bool {
	r.gate(p)
	return !(r.s != nil && r.freed.Load())
}

func (r *c16Run) handler(p string, o any) {
	switch p {
	case "cbuf.st_put", "cbuf.st_get", "cbuf.st_fin":
		if o == any(r.c) {
			r.logSt(p[8:])
		}
	case "cbuf.get", "cbuf.park":
		if o == any(r.c) {
			r.gate(p[5:])
		}
	case "cbuf.r_wait":
		ch, ok := o.(*chan struct{})
		if !ok {
			return
		}
		r.thmu.Lock()
		name, mine := r.names[vlib.Goid()]
		kind := r.kind[name]
		r.thmu.Unlock()
		if !mine || kind != "reader" {
			return
		}
		// under c.mu the last logged section is the current state of the buffer
		r.c.mu.Lock()
		r.logmu.Lock()
		r.events = append(r.events, map[string]any{"ev": "r_wait", "r": name, "gen": r.genOf(ch), "open": !c16Closed(ch)})
		r.logmu.Unlock()
		r.c.mu.Unlock()
		r.gate("r_wait")
	}
}

func (r *c16Run) spawn(name, kind string, body func()) {
	fin := make(chan struct{})
	r.thmu.Lock()
	r.finished[name] = fin
	r.kind[name] = kind
	r.thmu.Unlock()
	wrapped := func() {
		defer close(fin)
		defer func() {
			if x := recover(); x != nil {
				r.log(map[string]any{"ev": "panic", "t": name, "what": fmt.Sprint(x)})
			}
		}()
		id := vlib.Goid()
		r.thmu.Lock()
		r.goids[name] = id
		r.names[id] = name
		r.thmu.Unlock()
		body()
	}
	if r.s != nil {
		r.s.Spawn(name, wrapped)
	} else {
		go wrapped()
	}
}

func (r *c16Run) producer(name string, kinds []string) func() {
	return func() {
		for i, k := range kinds {
			id := fmt.Sprintf("%s.%d", name, i+1)
			var it cbItem
			if k == "H" {
				h := &clientHeaders{streamID: uint32(2*i + 1)}
				h.onOrphaned = func(error) { r.log(map[string]any{"ev": "orphan", "id": id}) }
				r.logmu.Lock()
				r.hid[h] = id
				r.logmu.Unlock()
				it = h
			} else {
				it = &c16Item{id: id, k: k}
			}
			r.gate("put")
			r.log(map[string]any{"ev": "put_call", "p": name, "id": id, "k": k})
			var ok bool
			var err error
			if k == "H" {
				ok, err = r.c.executeAndPut(func() bool { return true }, it)
			} else {
				err = r.c.put(it)
				ok = err == nil
			}
			r.log(map[string]any{"ev": "put_ret", "p": name, "id": id, "ok": ok && err == nil})
		}
	}
}

func (r *c16Run) consumer() {
	for {
		it, err := r.c.get(true)
		if err != nil {
			r.log(map[string]any{"ev": "get_ret", "id": "", "err": true})
			return
		}
		r.logmu.Lock()
		id, _ := r.itemID(it)
		r.logmu.Unlock()
		r.log(map[string]any{"ev": "get_ret", "id": id, "err": false})
	}
}

func (r *c16Run) reader(name string, n int) func() {
	return func() {
		for i := 0; i < n; i++ {
			r.gate("r_load")
			r.log(map[string]any{"ev": "r_call", "r": name})
			r.c.throttle()
			r.log(map[string]any{"ev": "r_ret", "r": name})
		}
	}
}

func (r *c16Run) finisher(n int) func() {
	return func() {
		for i := 0; i < n; i++ {
			if !r.gateStop("fin") {
				return
			}
			r.log(map[string]any{"ev": "fin_call"})
			r.c.finish()
			r.log(map[string]any{"ev": "fin_ret"})
		}
	}
}

func (r *c16Run) closeDone() {
	r.doneOne.Do(func() {
		r.log(map[string]any{"ev": "done"})
		close(r.done)
	})
}

var c16GoroutineRE = regexp.MustCompile(`(?m)^goroutine (\d+) \[([^\]]*)\]:`)

// c16States returns the scheduler state of every goroutine ("select", "runnable", "chan receive", ...).
func c16States() map[int64]string {
	buf := make([]byte, 1<<16)
	for {
		n := runtime.Stack(buf, true)
		if n < len(buf) {
			buf = buf[:n]
			break
		}
		buf = make([]byte, 2*len(buf))
	}
	out := map[int64]string{}
	for _, m := range c16GoroutineRE.FindAllSubmatch(buf, -1) {
		id, _ := strconv.ParseInt(string(m[1]), 10, 64)
		st := string(bytes.SplitN(m[2], []byte(","), 2)[0])
		out[id] = st
	}
	return out
}

func (r *c16Run) isFinished(name string) bool {
	r.thmu.Lock()
	fin := r.finished[name]
	r.thmu.Unlock()
	select {
	case <-fin:
		return true
	default:
		return false
	}
}

func (r *c16Run) inSelect(name string) bool {
	r.thmu.Lock()
	id, ok := r.goids[name]
	r.thmu.Unlock()
	return ok && c16States()[id] == "select"
}

// c16Waiting are the goroutine states in which a goroutine makes no progress by itself.
// ("semacquire" is NOT one of them: it is a runtime-internal wait, e.g. for the world semaphore that
// the goroutine dump itself holds while a goroutine wants to start a GC cycle.)
var c16Waiting = map[string]bool{"select": true, "sync.Mutex.Lock": true, "chan receive": true,
	"chan send": true, "sync.RWMutex.Lock": true, "sync.Cond.Wait": true, "sync.WaitGroup.Wait": true}

// waitStable waits until every goroutine of the run has finished or is blocked (one consistent
// goroutine dump in which none of them is running, runnable or sleeping).  Readers and the consumer
// blocked in a select are the parked states of the model; anything else that is blocked (a producer,
// a closer, a goroutine waiting for c.mu) is a deadlock.  The bound only matters on failing paths
// and never yields a verdict.
func (r *c16Run) waitStable() (stuckR []string, stuckC bool, stuckO []string, ok bool) {
	deadline := time.Now().Add(60 * time.Second)
	r.thmu.Lock()
	var names []string
	for n := range r.finished {
		names = append(names, n)
	}
	r.thmu.Unlock()
	sort.Strings(names)
	confirm := 0
	for spin := 0; ; spin++ {
		stuckR, stuckC, stuckO = []string{}, false, []string{}
		stable := true
		// which goroutines are still alive is decided BEFORE the dump is taken
		var alive []string
		for _, n := range names {
			if !r.isFinished(n) {
				alive = append(alive, n)
			}
		}
		if len(alive) > 0 {
			st := c16States()
			for _, n := range alive {
				r.thmu.Lock()
				k := r.kind[n]
				id, have := r.goids[n]
				r.thmu.Unlock()
				state, inDump := st[id]
				if have && !inDump {
					continue // exited before the dump was taken
				}
				// (no second look at "finished" here: the verdict must come from ONE consistent dump)
				if !have || !c16Waiting[state] {
					stable = false
					break
				}
				switch {
				case st[id] == "select" && k == "reader":
					stuckR = append(stuckR, n)
				case st[id] == "select" && k == "consumer":
					stuckC = true
				default:
					stuckO = append(stuckO, n+":"+st[id])
				}
			}
		}
		if stable && len(stuckO) > 0 && confirm < 3 {
			// failing path: a deadlock verdict is taken only from four identical dumps
			confirm++
			time.Sleep(time.Millisecond)
			continue
		}
		if stable {
			return stuckR, stuckC, stuckO, true
		}
		confirm = 0
		if time.Now().After(deadline) {
			return stuckR, stuckC, stuckO, false
		}
		if spin < 20 {
			runtime.Gosched()
		} else {
			time.Sleep(50 * time.Microsecond)
		}
	}
}

// quiet logs a quiescent point; clean = nothing is stuck, settled = the point was reached.
func (r *c16Run) quiet(phase int) (clean, settled bool) {
	stuckR, stuckC, stuckO, ok := r.waitStable()
	if len(stuckO) > 0 {
		// somebody may be blocked on c.mu for ever: do not touch the lock
		r.log(map[string]any{"ev": "quiet", "phase": phase, "stuckR": stuckR, "stuckC": stuckC, "stuckO": stuckO,
			"timeout": !ok, "q": []map[string]any{}, "cg": []int{}})
		return false, ok
	}
	r.c.mu.Lock()
	r.logmu.Lock()
	r.events = append(r.events, map[string]any{"ev": "quiet", "phase": phase, "stuckR": stuckR, "stuckC": stuckC, "stuckO": stuckO,
		"timeout": !ok, "q": r.queue(), "cg": r.closedGens()})
	r.logmu.Unlock()
	r.c.mu.Unlock()
	return ok && len(stuckR) == 0 && !stuckC, ok
}

// settle runs the three quiescent phases: free run, finish(), close(done).
func (r *c16Run) settle() (clean, settled bool) {
	r.freed.Store(true)
	if r.s != nil {
		r.s.Free()
	}
	if _, ok := r.quiet(1); !ok {
		r.closeDone()
		return false, false
	}
	r.log(map[string]any{"ev": "fin_call"})
	fin := make(chan struct{})
	go func() { r.c.finish(); close(fin) }()
	select {
	case <-fin:
	case <-time.After(60 * time.Second): // c.mu is held for ever: failing path
		r.closeDone()
		return false, false
	}
	r.log(map[string]any{"ev": "fin_ret"})
	_, ok2 := r.quiet(2)
	r.closeDone()
	clean, ok3 := r.quiet(3)
	return clean, ok2 && ok3
}

func (r *c16Run) state() map[string]any {
	r.c.mu.Lock()
	r.logmu.Lock()
	defer r.c.mu.Unlock()
	defer r.logmu.Unlock()
	var ids []string
	for n := r.c.list.head; n != nil; n = n.next {
		id, _ := r.itemID(n.it)
		ids = append(ids, id)
	}
	done := false
	select {
	case <-r.done:
		done = true
	default:
	}
	return map[string]any{"list": strings.Join(ids, ","), "trf": r.c.transportResponseFrames, "ch": r.genOf(r.c.trfChan.Load()),
		"closedCh": fmt.Sprint(r.closedGens()), "cw": r.c.consumerWaiting, "wake": len(r.c.wakeupCh), "closed": r.c.closed, "done": done}
}

// step grants thread t one step at gate p.  blocked = the thread is in a select instead of at a gate.
func (r *c16Run) step(t, p string) (arr string, blocked bool, err error) {
	arr, err = r.s.Step(t, p)
	start := time.Now()
	for err != nil && strings.HasPrefix(err.Error(), "thread ") {
		if r.inSelect(t) {
			return "", true, nil
		}
		if time.Since(start) > 60*time.Second {
			return "", false, err
		}
		arr, err = r.s.Await(t)
	}
	return arr, false, err
}

func c16RunBehaviour(b *c16Scope) (events []map[string]any, outcome string) {
	s := vlib.NewSched(3 * time.Millisecond)
	r := c16NewRun(b.Max, s, nil)
	verifhook.Set(r.handler)
	defer verifhook.Set(nil)
	if cap(r.c.wakeupCh) != 1 {
		r.log(map[string]any{"ev": "note", "what": "wakeupCh capacity is not 1"})
	}
	start := func(name, kind string, body func()) bool {
		r.spawn(name, kind, body)
		for i := 0; i < 3000; i++ {
			if _, err := s.Await(name); err == nil {
				return true
			}
		}
		return false
	}
	okStart := true
	var pn []string
	for p := range b.Producers {
		pn = append(pn, p)
	}
	sort.Strings(pn)
	for _, p := range pn {
		okStart = okStart && start(p, "producer", r.producer(p, b.Producers[p]))
	}
	okStart = okStart && start("c", "consumer", r.consumer)
	for _, rd := range b.Readers {
		okStart = okStart && start(rd, "reader", r.reader(rd, b.Throttles))
	}
	okStart = okStart && start("f", "closer", r.finisher(b.Fins))
	okStart = okStart && start("d", "closer", func() {
		if b.UseDone && r.gateStop("cdone") {
			r.closeDone()
		}
	})
	outcome = "ok"
	if !okStart {
		outcome = "infeasible: a thread did not reach its first gate"
	}
	for i, st := range b.Steps {
		if outcome != "ok" {
			break
		}
		ambiguous := false
		if st.P == "park" {
			cur := r.state()
			ambiguous = cur["wake"] == 1 && cur["done"] == true
		}
		r.log(map[string]any{"ev": "at", "t": st.T, "p": st.P})
		arr, blocked, err := r.step(st.T, st.P)
		switch {
		case blocked:
			r.log(map[string]any{"ev": "blocked", "t": st.T, "kind": r.kind[st.T], "p": st.P})
			outcome = fmt.Sprintf("blocked: step %d %s@%s blocks in a select although the model enables it", i, st.T, st.P)
		case err != nil && strings.HasPrefix(err.Error(), "expects"):
			outcome = fmt.Sprintf("drift: step %d %v", i, err)
		case err != nil:
			outcome = fmt.Sprintf("infeasible: step %d %s@%s: %v", i, st.T, st.P, err)
		case arr != st.Next && ambiguous:
			outcome = "ok-nondet" // Go's select chose the other ready case; stop following the model here
		case arr != st.Next:
			outcome = fmt.Sprintf("drift: step %d (%s@%s) thread arrived at %s, spec says %s", i, st.T, st.P, arr, st.Next)
		}
		if outcome != "ok" {
			break
		}
		got := r.state()
		for k, want := range st.Exp {
			if fmt.Sprint(got[k]) != fmt.Sprint(want) {
				outcome = fmt.Sprintf("drift: step %d (%s@%s) %s = %v, spec says %v", i, st.T, st.P, k, got[k], want)
				break
			}
		}
	}
	clean, settled := r.settle()
	if !settled {
		outcome = "unsettled: " + outcome
	} else if !s.Join(5*time.Second) && clean {
		outcome = "unsettled: join timeout, " + outcome
	}
	r.logmu.Lock()
	defer r.logmu.Unlock()
	return r.events, outcome
}

// TestVerifC16Replay forces every behaviour of VERIF_BEHAVIOURS onto a real controlBuffer.
func TestVerifC16Replay(t *testing.T) {
	lines, err := vlib.ReadLines(os.Getenv("VERIF_BEHAVIOURS"))
	if err != nil {
		t.Fatal(err)
	}
	tr, err := vlib.NewTrace(os.Getenv("VERIF_OUT"))
	if err != nil {
		t.Fatal(err)
	}
	defer tr.Close()
	oldMax := maxQueuedControlBufferItems
	defer func() { maxQueuedControlBufferItems = oldMax }()
	counts := map[string]int{}
	var notes []string
	skipped := 0
	for i, ln := range lines {
		var b c16Scope
		if err := json.Unmarshal(ln, &b); err != nil {
			t.Fatal(err)
		}
		if counts["blocked"]+counts["infeasible"]+counts["unsettled"] >= 5 {
			skipped++ // failing path: each blocked behaviour leaks goroutines until done closes; a few are enough
			continue
		}
		ev, outcome := c16RunBehaviour(&b)
		cls := strings.SplitN(outcome, ":", 2)[0]
		counts[cls]++
		if cls != "ok" && cls != "ok-nondet" && len(notes) < 5 {
			notes = append(notes, fmt.Sprintf("behaviour %d: %s", i, outcome))
		}
		tr.Emit(map[string]any{"ev": "reset", "b": i, "outcome": outcome, "max": b.Max})
		for _, e := range ev {
			tr.Emit(e)
		}
	}
	sum, _ := json.Marshal(map[string]any{"behaviours": len(lines), "counts": counts, "skipped": skipped, "notes": notes})
	fmt.Printf("VERIF_SUMMARY %s\n", sum)
}

// TestVerifC16Stress runs free-running goroutines against a real controlBuffer with seeded
// jitter at the hook points; only the recorded trace is judged.
func TestVerifC16Stress(t *testing.T) {
	seed := int64(vlib.EnvInt("VERIF_SEED", 1))
	rounds := vlib.EnvInt("VERIF_ROUNDS", 100)
	tr, err := vlib.NewTrace(os.Getenv("VERIF_OUT"))
	if err != nil {
		t.Fatal(err)
	}
	defer tr.Close()
	oldMax := maxQueuedControlBufferItems
	defer func() { maxQueuedControlBufferItems = oldMax }()
	total, unclean := 0, 0
	for round := 0; round < rounds && unclean < 5; round++ {
		rng := rand.New(rand.NewSource(seed*1000003 + int64(round)))
		jrng := rand.New(rand.NewSource(seed*7919 + int64(round)))
		var jmu sync.Mutex
		jit := func() {
			jmu.Lock()
			x := jrng.Intn(10)
			jmu.Unlock()
			switch {
			case x == 0:
				time.Sleep(20 * time.Microsecond)
			case x <= 3:
				runtime.Gosched()
			}
		}
		max := 1 + rng.Intn(8)
		r := c16NewRun(max, nil, jit)
		verifhook.Set(r.handler)
		np := 1 + rng.Intn(3)
		for p := 0; p < np; p++ {
			n := 2 + rng.Intn(3*max+4)
			kinds := make([]string, n)
			for i := range kinds {
				switch x := rng.Intn(10); {
				case x < 6:
					kinds[i] = "T"
				case x < 8:
					kinds[i] = "U"
				default:
					kinds[i] = "H"
				}
			}
			name := fmt.Sprintf("p%d", p+1)
			r.spawn(name, "producer", r.producer(name, kinds))
		}
		nr := 1 + rng.Intn(2)
		for i := 0; i < nr; i++ {
			name := fmt.Sprintf("r%d", i+1)
			r.spawn(name, "reader", r.reader(name, 3+rng.Intn(12)))
		}
		cdelay := rng.Intn(60)
		r.spawn("c", "consumer", func() {
			time.Sleep(time.Duration(cdelay) * time.Microsecond)
			r.consumer()
		})
		mode := rng.Intn(4) // 0: nobody closes early, 1: finish, 2: done, 3: both
		d1, d2 := rng.Intn(150), rng.Intn(150)
		if mode == 1 || mode == 3 {
			r.spawn("f", "closer", func() {
				time.Sleep(time.Duration(d1) * time.Microsecond)
				r.finisher(1 + d1%2)()
			})
		}
		if mode == 2 || mode == 3 {
			r.spawn("d", "closer", func() {
				time.Sleep(time.Duration(d2) * time.Microsecond)
				r.closeDone()
			})
		}
		if _, settled := r.settle(); !settled {
			unclean++
		}
		verifhook.Set(nil)
		tr.Emit(map[string]any{"ev": "reset", "b": round, "outcome": "stress", "max": max})
		r.logmu.Lock()
		for _, e := range r.events {
			tr.Emit(e)
		}
		total += len(r.events)
		r.logmu.Unlock()
	}
	fmt.Printf("VERIF_SUMMARY {\"rounds\":%d,\"events\":%d,\"unclean\":%d}\n", rounds, total, unclean)
}
