package transport

// Drivers for C07 (grpc-timeout) and C08 (grpc-message): dump (input, output) pairs of the
// real codec functions; TLC validates them against specs/WireCodec.tla.

import (
	"fmt"
	"math"
	"math/rand"
	"os"
	"strconv"
	"testing"
	"time"

	"google.golang.org/grpc/internal/grpcutil"
	"google.golang.org/grpc/internal/zzverif/vlib"
)

func vDigits(v int64) []int {
	s := strconv.FormatInt(v, 10)
	out := make([]int, len(s))
	for i := range s {
		out[i] = int(s[i] - '0')
	}
	return out
}

func vSafe(tr *vlib.Trace, what string, f func()) {
	defer func() {
		if r := recover(); r != nil {
			tr.Emit(map[string]any{"ev": "panic", "what": what, "r": fmt.Sprint(r)})
		}
	}()
	f()
}

func TestVerifTimeoutCodec(t *testing.T) {
	tr, err := vlib.NewTrace(os.Getenv("VERIF_OUT"))
	if err != nil {
		t.Fatal(err)
	}
	defer tr.Close()
	seed := int64(vlib.EnvInt("VERIF_SEED", 1))
	n := vlib.EnvInt("VERIF_N", 3000)
	r := rand.New(rand.NewSource(seed))
	var ds []int64
	units := []int64{1, 1e3, 1e6, 1e9, 60e9, 3600e9}
	for _, u := range units {
		for _, k := range []int64{1, 2, 99999998, 99999999, 100000000, 100000001} {
			for d := int64(-3); d <= 3; d++ {
				if k > math.MaxInt64/u {
					continue
				}
				if v := u*k + d; v > 0 {
					ds = append(ds, v)
				}
			}
		}
	}
	for d := int64(0); d < 50; d++ {
		ds = append(ds, 1+d, math.MaxInt64-d, math.MaxInt64/2+d, 2562047*3600e9+d-25, 99999999*60e9+d-25)
	}
	for i := 0; i < n; i++ {
		ds = append(ds, r.Int63()>>uint(r.Intn(63)))
	}
	for _, d := range ds {
		if d <= 0 {
			continue
		}
		d := d
		vSafe(tr, "timeout", func() {
			s := grpcutil.EncodeDuration(time.Duration(d))
			back, err := decodeTimeout(s)
			if back < 0 {
				tr.Emit(map[string]any{"ev": "tdec", "s": vlib.Bytes(s), "ok": err == nil, "neg": true, "dec": []int{0}})
				return
			}
			tr.Emit(map[string]any{"ev": "timeout", "d": vDigits(d), "enc": vlib.Bytes(s), "dec": vDigits(int64(back)), "err": err != nil})
		})
	}
	// header strings: every string of length <= 4 over a small alphabet, plus long / random ones
	alpha := []byte("095HnmS+- x")
	var strs []string
	var gen func(p string, k int)
	gen = func(p string, k int) {
		strs = append(strs, p)
		if k == 0 {
			return
		}
		for _, c := range alpha {
			gen(p+string(c), k-1)
		}
	}
	gen("", 4)
	strs = append(strs, "12345678H", "123456789H", "99999999H", "2562047H", "2562048H", "00000000n", "000000000n",
		"99999999M", "99999999S", "99999999m", "99999999u", "99999999n", "1234567890", "12345678", "12345678h", "1_0n", "0x1n", "1e3n",
		"\xef\xbc\x91n", "1\x00n", "+1n", "-1n", " 1n", "1 n", "1n ", "١n")
	units2 := "HMSmunhsxU"
	for i := 0; i < n; i++ {
		k := r.Intn(10)
		b := make([]byte, 0, k+1)
		for j := 0; j < k; j++ {
			if r.Intn(12) == 0 {
				b = append(b, byte(r.Intn(256)))
			} else {
				b = append(b, byte('0'+r.Intn(10)))
			}
		}
		b = append(b, units2[r.Intn(len(units2))])
		strs = append(strs, string(b))
	}
	for _, s := range strs {
		s := s
		vSafe(tr, "tdec", func() {
			d, err := decodeTimeout(s)
			dec := []int{0}
			if d >= 0 {
				dec = vDigits(int64(d))
			}
			tr.Emit(map[string]any{"ev": "tdec", "s": vlib.Bytes(s), "ok": err == nil, "neg": d < 0, "dec": dec})
		})
	}
	fmt.Printf("VERIF_SUMMARY {\"pairs\":%d}\n", tr.N)
}

func TestVerifGrpcMessageCodec(t *testing.T) {
	tr, err := vlib.NewTrace(os.Getenv("VERIF_OUT"))
	if err != nil {
		t.Fatal(err)
	}
	defer tr.Close()
	seed := int64(vlib.EnvInt("VERIF_SEED", 1))
	n := vlib.EnvInt("VERIF_N", 3000)
	r := rand.New(rand.NewSource(seed))
	emit := func(m string) {
		vSafe(tr, "grpcmsg", func() {
			e := encodeGrpcMessage(m)
			tr.Emit(map[string]any{"ev": "grpcmsg", "m": vlib.Bytes(m), "enc": vlib.Bytes(e),
				"dec": vlib.Bytes(decodeGrpcMessage(e)), "rawdec": vlib.Bytes(decodeGrpcMessage(m))})
		})
	}
	alphabet := []byte{'a', '%', '4', '1', ' ', '~', 0x7f, 0x1f, 0xc3, 0xa9, 0xff, 0x80, 'F', 'f', 'g', 0xe2, 0x82, 0xac, 0xf0, 0x9f, 0x98, 0x80, 0xed, 0xa0, 0x00, 0xef, 0xbf, 0xbd}
	// every string of length <= 2 over the alphabet, then random ones
	for _, a := range alphabet {
		emit(string([]byte{a}))
		for _, b := range alphabet {
			emit(string([]byte{a, b}))
		}
	}
	emit("")
	for _, s := range []string{"%", "%4", "%ZZ", "%41", "%4g", "a%", "a%4", "%%41", "%e4%bd%a0", "你好", "€", "\xe2\x82", "\xf0\x9f\x98", "100% sure", "%25", "%C3%A9", "tab\there", "nl\n",
		"\ufffd", "a\ufffdb", "\ufffd\ufffd", "x\ufffd%41", "\ufffd\xff", "\xef\xbf", "\xef\xbf\xbd\xbd", "\u00e9\ufffd\u20ac", "\U0001F600\ufffd", "\ufffe", "\uffff", "\ud7ff", "\ue000", "\U0010FFFF", "\xf4\x90\x80\x80", "\xc0\xaf", "\xe0\x80\xaf"} {
		emit(s)
	}
	for i := 0; i < n; i++ {
		k := r.Intn(9)
		b := make([]byte, k)
		for j := range b {
			if r.Intn(10) == 0 {
				b[j] = byte(r.Intn(256))
			} else {
				b[j] = alphabet[r.Intn(len(alphabet))]
			}
		}
		emit(string(b))
	}
	fmt.Printf("VERIF_SUMMARY {\"pairs\":%d}\n", tr.N)
}
