package transport

// Raw-peer binding of C04: a real http2Server and a real http2Client each talk to a scripted raw
// HTTP/2 peer (rawh2) inside a testing/synctest bubble.  The peer sends DATA frames (unpadded,
// padded, PADDING-ONLY) that stay inside - and often exactly fill - the windows it was given, the
// application reads everything, and the peer records every WINDOW_UPDATE / SETTINGS / RST_STREAM /
// GOAWAY it receives.  The trace is the wire: specs/InFlowTrace.tla rebuilds the peer's view
// (advertised = initial window + window updates + SETTINGS changes; sent = DATA frame lengths
// including padding) and judges I_Accept / I_RejectExcess / I_Cap / I_NoWedge at quiescent points.

import (
	"context"
	"errors"
	"fmt"
	"math"
	"math/rand"
	"net"
	"sync"
	"testing"
	"testing/synctest"

	"golang.org/x/net/http2"
	"google.golang.org/grpc/internal/zzverif/vlib"
	"google.golang.org/grpc/internal/zzverif/vlib/rawh2"
	"google.golang.org/grpc/mem"
	"google.golang.org/grpc/resolver"
	"google.golang.org/grpc/test/bufconn"
)

type c04wFrame struct {
	kind string // "wu", "settings", "rst", "goaway", "headers", "closed"
	id   uint32
	val  uint32
}

// c04wPeer is the raw peer: a reader goroutine logs what the transport under test sends.
type c04wPeer struct {
	p    *rawh2.Peer
	mu   sync.Mutex
	log  []c04wFrame
	done chan struct{}
}

func (w *c04wPeer) add(f c04wFrame) {
	w.mu.Lock()
	w.log = append(w.log, f)
	w.mu.Unlock()
}

func (w *c04wPeer) take() []c04wFrame {
	w.mu.Lock()
	defer w.mu.Unlock()
	l := w.log
	w.log = nil
	return l
}

func (w *c04wPeer) readLoop() {
	defer close(w.done)
	for {
		f, err := w.p.ReadFrame()
		if err != nil {
			w.add(c04wFrame{kind: "closed"})
			return
		}
		switch f := f.(type) {
		case *http2.SettingsFrame:
			if f.IsAck() {
				continue
			}
			if v, ok := f.Value(http2.SettingInitialWindowSize); ok {
				w.add(c04wFrame{kind: "settings", val: v})
			}
			w.p.WriteSettingsAck()
		case *http2.PingFrame:
			if !f.IsAck() {
				w.p.WritePing(true, f.Data)
			}
		case *http2.WindowUpdateFrame:
			w.add(c04wFrame{kind: "wu", id: f.StreamID, val: f.Increment})
		case *http2.RSTStreamFrame:
			w.add(c04wFrame{kind: "rst", id: f.StreamID, val: uint32(f.ErrCode)})
		case *http2.GoAwayFrame:
			w.add(c04wFrame{kind: "goaway", val: uint32(f.ErrCode)})
		case *http2.MetaHeadersFrame:
			w.add(c04wFrame{kind: "headers", id: f.StreamID})
		}
	}
}

// c04wApp is the application side of the monitored stream: reads exactly what it is told to.
type c04wApp struct {
	read func(n int) error
	req  chan int
	res  chan error
}

func (a *c04wApp) loop() {
	for n := range a.req {
		a.res <- a.read(n)
	}
}

// c04wRun is one history on one connection.
type c04wRun struct {
	tr      *vlib.Trace
	rng     *rand.Rand
	peer    *c04wPeer
	app     *c04wApp
	sid     uint32 // the monitored stream
	view    int64  // driver's mirror of the peer's stream view (input selection only)
	cview   int64
	lim     int64
	clim    int64
	started bool // after the connection's initial frames were absorbed
	unread  int   // payload bytes accepted and not yet requested by the application
	reading int   // a Read(reading) is outstanding
	dead    bool  // the transport reset the stream / the connection
	rounds  int
}

// absorb drains the peer's log in wire order into the trace and the mirror.  Before any stream
// exists (r.sid == 0, start of the connection) a connection WINDOW_UPDATE is how the transport
// announces a configured connection window above 65535: logged as trnewlimit.
func (r *c04wRun) absorb() (rejected bool) {
	for _, f := range r.peer.take() {
		switch f.kind {
		case "wu":
			if f.id == 0 && r.sid == 0 && !r.started {
				r.cview += int64(f.val)
				r.clim += int64(f.val)
				r.tr.Emit(map[string]any{"ev": "trnewlimit", "n": c04D(uint64(r.clim)), "d": c04D(uint64(f.val))})
			} else if f.id == 0 {
				r.cview += int64(f.val)
				r.tr.Emit(map[string]any{"ev": "wwu", "s": 0, "wu": c04D(uint64(f.val))})
			} else if f.id == r.sid || r.sid == 0 {
				r.view += int64(f.val)
				r.tr.Emit(map[string]any{"ev": "wwu", "s": 1, "wu": c04D(uint64(f.val))})
			}
		case "settings":
			r.view += int64(f.val) - r.lim
			r.lim = int64(f.val)
			r.tr.Emit(map[string]any{"ev": "wsettings", "n": c04D(uint64(f.val))})
		case "rst":
			if f.id == r.sid {
				rejected = true
			}
		case "goaway", "closed":
			rejected = true
		}
	}
	return rejected
}

type c04wData struct{ data, pad, kind int } // kind 0 unpadded, 1 padded (data > 0), 2 padding-only

func (d c04wData) size() int {
	if d.kind == 0 {
		return d.data
	}
	return d.data + d.pad + 1
}

// pickFrame chooses one frame of at most room bytes (room >= 1).
func (r *c04wRun) pickFrame(room int, exact bool) c04wData {
	if room > http2MaxFrameLen {
		room = http2MaxFrameLen
	}
	switch k := r.rng.Intn(10); {
	case k < 3 || room < 2: // unpadded
		n := room
		if !exact {
			n = 1 + r.rng.Intn(room)
		}
		return c04wData{data: n}
	case k < 6: // padding-only: frame length pad+1, pad 0..255
		p := 255
		if room-1 < p {
			p = room - 1
		}
		if !exact && r.rng.Intn(2) == 0 {
			p = r.rng.Intn(p + 1)
		}
		return c04wData{pad: p, kind: 2}
	default: // padded with payload
		p := r.rng.Intn(256)
		if p > room-2 {
			p = room - 2
		}
		n := room - 1 - p
		if !exact {
			n = 1 + r.rng.Intn(n)
		}
		return c04wData{data: n, pad: p, kind: 1}
	}
}

func (r *c04wRun) write(d c04wData) {
	payload := make([]byte, d.data)
	if d.kind == 0 {
		r.peer.p.WriteData(r.sid, false, payload)
	} else {
		r.peer.p.WriteDataPadded(r.sid, false, payload, make([]byte, d.pad))
	}
}

// round: the peer sends a batch inside its view, the application (perhaps) reads, quiescence.
// fill: 0 a few frames, 1 up to exactly the full view, 2 one frame BEYOND the stream view.
func (r *c04wRun) round(fill int, appReads bool) {
	r.rounds++
	var batch []c04wData
	room := func() int64 {
		if r.cview < r.view {
			return r.cview
		}
		return r.view
	}
	switch fill {
	case 2:
		if r.view < 0 || r.view+2 > http2MaxFrameLen || r.cview < r.view+2 {
			return
		}
		batch = append(batch, c04wData{data: int(r.view) + 1 + r.rng.Intn(2)})
	case 1:
		for room() > 0 && len(batch) < 400 {
			m := int(room())
			d := r.pickFrame(m, m <= http2MaxFrameLen && r.rng.Intn(2) == 0)
			batch = append(batch, d)
			r.view -= int64(d.size())
			r.cview -= int64(d.size())
		}
	default:
		for i := 1 + r.rng.Intn(6); i > 0 && room() > 0; i-- {
			d := r.pickFrame(int(room()), false)
			batch = append(batch, d)
			r.view -= int64(d.size())
			r.cview -= int64(d.size())
		}
	}
	if fill == 2 {
		r.view -= int64(batch[0].size())
		r.cview -= int64(batch[0].size())
	}
	early := 0
	if appReads && fill != 2 && r.rng.Intn(2) == 0 {
		// the application asks first (blocked reader): requestRead may hand out extra window
		early = r.unread
		for _, d := range batch {
			early += d.data
		}
		if early > 0 {
			r.app.req <- early
			synctest.Wait()
			r.absorb()
		}
	}
	for _, d := range batch {
		r.write(d)
		r.unread += d.data
	}
	synctest.Wait()
	// Everything the transport sent in reaction is in the peer's log now.  Judge-free bookkeeping:
	// was the stream (or the connection) torn down by the receiver?
	w := r.peer.take()
	rejected := false
	for _, f := range w {
		if f.kind == "rst" && f.id == r.sid || f.kind == "goaway" || f.kind == "closed" {
			rejected = true
		}
	}
	r.peer.mu.Lock()
	r.peer.log = append(w, r.peer.log...)
	r.peer.mu.Unlock()
	for i, d := range batch {
		rej := 0
		if rejected && i == len(batch)-1 {
			rej = 1
		}
		padBytes := 0
		if d.kind != 0 {
			padBytes = d.pad + 1
		}
		r.tr.Emit(map[string]any{"ev": "wdata", "n": c04D(uint64(d.size())), "pad": c04D(uint64(padBytes)), "rej": rej, "kind": d.kind})
	}
	if rejected {
		r.dead = true
		c04wRejected++
		r.absorb()
		r.tr.Emit(map[string]any{"ev": "wquiet"})
		return
	}
	if appReads && r.unread > 0 {
		n := r.unread
		if early == 0 {
			r.app.req <- n
			synctest.Wait()
		}
		select {
		case err := <-r.app.res:
			if err != nil {
				r.tr.Emit(map[string]any{"ev": "wnote", "what": "application read failed: " + err.Error()})
				r.dead = true
			} else {
				r.tr.Emit(map[string]any{"ev": "wread", "n": c04D(uint64(n))})
				r.unread = 0
			}
		default:
			// the application is still blocked although everything it asked for was sent
			r.tr.Emit(map[string]any{"ev": "wnote", "what": "application read still blocked"})
			r.dead = true
		}
	}
	if r.absorb() {
		r.dead = true
	}
	r.tr.Emit(map[string]any{"ev": "wquiet"})
}

func (r *c04wRun) play(rounds int, overshoot bool) {
	for i := 0; i < rounds && !r.dead; i++ {
		fill := 0
		if r.rng.Intn(3) == 0 {
			fill = 1
		}
		// a slow reader now and then: the windows fill up before the application reads
		r.round(fill, r.rng.Intn(4) != 0)
	}
	if r.dead {
		return
	}
	if overshoot {
		r.round(1, false) // fill the stream window completely, nothing read
		if !r.dead {
			r.round(2, false)
		}
		return
	}
	r.round(1, true)
	if !r.dead {
		r.round(0, true) // ends fully read
	}
}

func c04wConnPair() (client, server net.Conn, err error) {
	lis := bufconn.Listen(1 << 20)
	type acc struct {
		c   net.Conn
		err error
	}
	ach := make(chan acc, 1)
	go func() {
		c, err := lis.Accept()
		ach <- acc{c, err}
	}()
	cc, err := lis.Dial()
	if err != nil {
		return nil, nil, err
	}
	a := <-ach
	lis.Close()
	return cc, a.c, a.err
}

func c04wReset(tr *vlib.Trace, what string, lim, tlim int64) {
	tr.Emit(map[string]any{"ev": "reset", "limit": c04D(uint64(lim)), "trlimit": c04D(uint64(tlim)), "what": what})
}

// c04wServer: real http2Server, raw client peer.
func c04wServer(tr *vlib.Trace, rng *rand.Rand, static bool, overshoot bool) {
	cc, sc, err := c04wConnPair()
	if err != nil {
		tr.Emit(map[string]any{"ev": "wnote", "what": "pipe: " + err.Error()})
		return
	}
	cfg := &ServerConfig{MaxStreams: math.MaxUint32, BufferPool: mem.DefaultBufferPool()}
	lim, tlim := int64(defaultWindowSize), int64(defaultWindowSize)
	if static {
		cfg.StaticWindowSize = true
		lim = int64(defaultWindowSize + rng.Intn(100000))
		tlim = lim + int64(rng.Intn(50000))
		cfg.InitialWindowSize, cfg.InitialConnWindowSize = int32(lim), int32(tlim)
	}
	ctx, cancel := context.WithCancel(context.Background())
	defer cancel()
	streams := make(chan *ServerStream, 4)
	stCh := make(chan ServerTransport, 1)
	go func() {
		st, err := NewServerTransport(sc, cfg)
		if err != nil {
			close(stCh)
			return
		}
		stCh <- st
		st.HandleStreams(ctx, func(s *ServerStream) { streams <- s })
	}()
	rp, err := rawh2.NewClientPeer(cc)
	if err != nil {
		return
	}
	rp.WriteSettings()
	peer := &c04wPeer{p: rp, done: make(chan struct{})}
	go peer.readLoop()
	st, ok := <-stCh
	if !ok {
		cc.Close()
		<-peer.done
		return
	}
	defer func() {
		st.Close(errors.New("verif: end of history"))
		cc.Close()
		<-peer.done
	}()
	synctest.Wait()
	what := "server/dynamic"
	if static {
		what = "server/static"
	}
	// the initial windows are what the wire says: 65535 unless SETTINGS / a connection WINDOW_UPDATE said otherwise
	r := &c04wRun{tr: tr, rng: rng, peer: peer, view: defaultWindowSize, cview: defaultWindowSize, lim: defaultWindowSize, clim: defaultWindowSize}
	c04wReset(tr, what, defaultWindowSize, defaultWindowSize)
	r.absorb()
	r.started = true
	r.sid = 1
	rp.WriteHeaders(1, false, ":method", "POST", ":scheme", "http", ":path", "/verif.S/M", ":authority", "verif",
		"content-type", "application/grpc", "te", "trailers")
	synctest.Wait()
	var s *ServerStream
	select {
	case s = <-streams:
	default:
		tr.Emit(map[string]any{"ev": "wnote", "what": "server did not create the stream"})
		return
	}
	r.app = &c04wApp{req: make(chan int), res: make(chan error, 1), read: func(n int) error {
		b, err := s.Read(n)
		if err == nil {
			b.Free()
		}
		return err
	}}
	go r.app.loop()
	defer close(r.app.req)
	r.play(3+rng.Intn(8), overshoot)
}

// c04wClient: real http2Client, raw server peer.  mode 0: plain; 1: updateFlowControl(n) before the
// stream is created; 2: updateFlowControl(n) while NewStream is parked on MAX_CONCURRENT_STREAMS=1.
func c04wClient(tr *vlib.Trace, rng *rand.Rand, mode int, overshoot bool) {
	cc, sc, err := c04wConnPair()
	if err != nil {
		return
	}
	peer := &c04wPeer{done: make(chan struct{})}
	perr := make(chan error, 1)
	maxStreams := uint32(100)
	if mode == 2 {
		maxStreams = 1
	}
	go func() {
		rp, err := rawh2.NewServerPeer(sc)
		if err != nil {
			perr <- err
			close(peer.done)
			return
		}
		peer.p = rp
		rp.WriteSettings(http2.Setting{ID: http2.SettingMaxConcurrentStreams, Val: maxStreams})
		perr <- nil
		peer.readLoop()
	}()
	ctx, cancel := context.WithCancel(context.Background())
	defer cancel()
	t0, err := NewHTTP2Client(ctx, ctx, resolver.Address{Addr: "verif"}, ConnectOptions{
		BufferPool: mem.DefaultBufferPool(),
		Dialer:     func(context.Context, string) (net.Conn, error) { return cc, nil },
	}, func(GoAwayInfo) {})
	if err != nil {
		sc.Close()
		<-peer.done
		return
	}
	ct := t0.(*http2Client)
	if err := <-perr; err != nil {
		ct.Close(err)
		return
	}
	defer func() {
		ct.Close(errors.New("verif: end of history"))
		sc.Close()
		<-peer.done
	}()
	synctest.Wait()
	r := &c04wRun{tr: tr, rng: rng, peer: peer, view: defaultWindowSize, cview: defaultWindowSize, lim: defaultWindowSize, clim: defaultWindowSize}
	c04wReset(tr, fmt.Sprintf("client/mode%d", mode), defaultWindowSize, defaultWindowSize)
	r.absorb()
	r.started = true
	// bdp is the BDP estimator's stand-in: what calculate() does when its estimate grows
	bdp := func() {
		n := uint32(r.lim) + 1 + uint32(rng.Intn(int(r.lim)))
		if rng.Intn(2) == 0 {
			n = 2 * uint32(r.lim)
		}
		if ct.bdpEst != nil {
			ct.bdpEst.mu.Lock()
			ct.bdpEst.bdp = n
			ct.bdpEst.mu.Unlock()
		}
		ct.updateFlowControl(n)
		synctest.Wait()
		r.absorb()
	}
	headersOf := func() uint32 {
		synctest.Wait()
		id := uint32(0)
		var rest []c04wFrame
		for _, f := range peer.take() {
			if f.kind == "headers" && id == 0 {
				id = f.id
				continue
			}
			rest = append(rest, f)
		}
		peer.mu.Lock()
		peer.log = append(rest, peer.log...)
		peer.mu.Unlock()
		return id
	}
	var s *ClientStream
	switch mode {
	case 1:
		bdp()
		s, err = ct.NewStream(ctx, &CallHdr{Host: "verif", Method: "/verif.S/M"}, nil)
	case 2:
		sA, errA := ct.NewStream(ctx, &CallHdr{Host: "verif", Method: "/verif.S/A"}, nil)
		if errA != nil {
			return
		}
		idA := headersOf()
		type res struct {
			s   *ClientStream
			err error
		}
		bCh := make(chan res, 1)
		go func() {
			s, err := ct.NewStream(ctx, &CallHdr{Host: "verif", Method: "/verif.S/B"}, nil)
			bCh <- res{s, err}
		}()
		synctest.Wait() // B is parked on the stream quota now
		parked := true
		select {
		case rb := <-bCh:
			parked = false
			s, err = rb.s, rb.err
		default:
		}
		for i := 1 + rng.Intn(2); i > 0; i-- {
			bdp()
		}
		if parked {
			peer.p.WriteHeaders(idA, true, ":status", "200", "content-type", "application/grpc", "grpc-status", "0")
			<-sA.Done()
			rb := <-bCh
			s, err = rb.s, rb.err
		}
		if parked {
			c04wParked++
		}
		tr.Emit(map[string]any{"ev": "wnote", "what": fmt.Sprintf("stream B parked across the limit raise: %v", parked)})
	default:
		s, err = ct.NewStream(ctx, &CallHdr{Host: "verif", Method: "/verif.S/M"}, nil)
	}
	if err != nil || s == nil {
		tr.Emit(map[string]any{"ev": "wnote", "what": fmt.Sprint("NewStream failed: ", err)})
		return
	}
	r.sid = headersOf()
	if r.sid == 0 {
		tr.Emit(map[string]any{"ev": "wnote", "what": "no HEADERS of the monitored stream"})
		return
	}
	r.absorb()
	peer.p.WriteHeaders(r.sid, false, ":status", "200", "content-type", "application/grpc")
	r.app = &c04wApp{req: make(chan int), res: make(chan error, 1), read: func(n int) error {
		b, err := s.Read(n)
		if err == nil {
			b.Free()
		}
		return err
	}}
	go r.app.loop()
	defer close(r.app.req)
	if mode != 0 {
		// the peer uses the NEW window at once, the application is not reading yet
		r.round(1, false)
		if !r.dead {
			r.round(0, true)
		}
	}
	if !r.dead && rng.Intn(3) == 0 {
		bdp() // a raise while the stream is open
	}
	r.play(2+rng.Intn(6), overshoot)
}

var c04wParked, c04wRejected int

// TestVerifC04Wire runs seeded histories against both real transports.
func TestVerifC04Wire(t *testing.T) {
	tr := c04Open(t)
	defer tr.Close()
	rng := rand.New(rand.NewSource(int64(vlib.EnvInt("VERIF_SEED", 1))*49979687 + 4))
	runs := vlib.EnvInt("VERIF_N", 24)
	for i := 0; i < runs; i++ {
		over := i%5 == 4
		synctest.Test(t, func(t *testing.T) {
			defer func() {
				if r := recover(); r != nil {
					tr.Emit(map[string]any{"ev": "panic", "what": "wire", "r": fmt.Sprint(r)})
				}
			}()
			switch i % 6 {
			case 0:
				c04wServer(tr, rng, false, over)
			case 1:
				c04wServer(tr, rng, true, over)
			case 2:
				c04wClient(tr, rng, 0, over)
			case 3:
				c04wClient(tr, rng, 1, over)
			default:
				c04wClient(tr, rng, 2, over)
			}
		})
	}
	fmt.Printf("VERIF_SUMMARY {\"behaviours\":%d,\"events\":%d,\"parked\":%d,\"rejected\":%d}\n", runs, tr.N, c04wParked, c04wRejected)
}
