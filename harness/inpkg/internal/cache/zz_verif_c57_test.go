package cache

// Verification drivers for C57 (cache.TimeoutCache part; DESIGN.md "C57").  Overlaid into package
// cache by /verif/lib/vcheck.py; never part of /repo.

import (
	"encoding/json"
	"fmt"
	"math/rand"
	"sync"
	"sync/atomic"
	"testing"
	"time"

	"google.golang.org/grpc/internal/verifhook"
	gate "google.golang.org/grpc/internal/zzverif/c31gate"
)

type c57Behaviour struct {
	MaxGen   int         `json:"maxgen"`
	Removers []string    `json:"removers"`
	Adders   []string    `json:"adders"`
	Clearers []string    `json:"clearers"`
	ClearRun bool        `json:"clear_run"`
	Steps    []gate.Step `json:"steps"`
}

func c57Guard(log func(map[string]any), f func()) {
	defer func() {
		if r := recover(); r != nil {
			log(map[string]any{"ev": "panic", "what": fmt.Sprint(r)})
		}
	}()
	f()
}

func c57RunBehaviour(raw []byte) ([]map[string]any, string) {
	var b c57Behaviour
	if err := json.Unmarshal(raw, &b); err != nil {
		return nil, "infeasible: " + err.Error()
	}
	s := gate.New(5 * time.Second)
	c := NewTimeoutCache(time.Hour) // timers fire only when the schedule says so
	var pmu sync.Mutex
	pending := "" // name of the thread the next timer-callback goroutine becomes
	verifhook.Set(func(p string, o any) {
		if o != any(c) {
			return
		}
		if p == "tcache.timer" {
			pmu.Lock()
			name := pending
			pmu.Unlock()
			s.HookAs(name, p) // the goroutine started by the runtime timer: gated at its first hook
			return
		}
		s.Hook(p)
	})
	defer verifhook.Set(nil)

	var amu sync.Mutex
	ngen := 0
	ents := map[int]*cacheEntry{}
	add := func() {
		amu.Lock()
		defer amu.Unlock()
		e := ngen + 1
		_, ok := c.Add("k", e, func() { s.Log(map[string]any{"ev": "cb", "e": e}) })
		if ok {
			ngen = e
			c.mu.Lock()
			ents[e] = c.cache["k"]
			c.mu.Unlock()
		}
		s.Log(map[string]any{"ev": "add_ret", "e": e, "ok": ok})
	}
	state := func() map[string]any {
		cur := 0
		if e, ok := c.cache["k"]; ok {
			cur = e.item.(int)
		}
		del := make([]bool, b.MaxGen)
		for g, e := range ents {
			if e != nil && g <= b.MaxGen {
				del[g-1] = e.deleted
			}
		}
		return map[string]any{"cur": cur, "deleted": del}
	}
	add() // the specification starts with entry 1 in the cache, its timer armed

	spawn := func(names []string, body func(name string)) string {
		for _, n := range names {
			n := n
			s.Spawn(n, func() { c57Guard(s.Log, func() { body(n) }) })
			if _, err := s.Await(n); err != nil {
				return "infeasible: start: " + err.Error()
			}
		}
		return ""
	}
	if e := spawn(b.Removers, func(r string) {
		s.Hook("tcache.remove")
		item, ok := c.Remove("k")
		e := 0
		if ok {
			e = item.(int)
		}
		s.Log(map[string]any{"ev": "remove_ret", "r": r, "ok": ok, "e": e})
	}); e != "" {
		return s.Events(), e
	}
	if e := spawn(b.Adders, func(string) {
		s.Hook("tcache.add")
		add()
	}); e != "" {
		return s.Events(), e
	}
	if e := spawn(b.Clearers, func(string) {
		s.Hook("tcache.clear")
		s.Log(map[string]any{"ev": "clear_call", "run": b.ClearRun})
		c.Clear(b.ClearRun)
		s.Log(map[string]any{"ev": "clear_ret", "run": b.ClearRun})
	}); e != "" {
		return s.Events(), e
	}

	firedByDriver := map[int]bool{}
	outcome := gate.RunSteps(s, b.Steps,
		func(i int, st gate.Step, drifted bool) (bool, error) {
			if st.P != "expire" {
				return false, nil
			}
			var g int
			fmt.Sscanf(st.T, "t%d", &g)
			ent := ents[g]
			// only a timer that is armed can be fired by the runtime: the entry is in the cache
			if ent == nil || c.cache["k"] != ent || firedByDriver[g] {
				if drifted {
					return true, nil // best-effort continuation: skip
				}
				return true, fmt.Errorf("expects an armed timer of entry %d", g)
			}
			firedByDriver[g] = true
			pmu.Lock()
			pending = st.T
			pmu.Unlock()
			s.Log(map[string]any{"ev": "expire", "e": g})
			ent.timer.Reset(0) // the runtime fires the timer now: f starts in its own goroutine
			_, err := s.Await(st.T)
			return true, err
		}, nil, state)
	if !s.Join(30*time.Second) || !s.WaitAllGone(30*time.Second) {
		s.Log(map[string]any{"ev": "stuck"})
		return s.Events(), outcome + "+stuck-in-free-run"
	}
	// the driver clears what is left with callbacks, so that every entry is accounted for
	s.Log(map[string]any{"ev": "clear_call", "run": true})
	c.Clear(true)
	s.Log(map[string]any{"ev": "clear_ret", "run": true})
	s.Log(map[string]any{"ev": "quiescent"})
	return s.Events(), outcome
}

// TestVerifC57CacheReplay forces every behaviour of VERIF_BEHAVIOURS onto a real TimeoutCache.
func TestVerifC57CacheReplay(t *testing.T) { gate.Replay(t, c57RunBehaviour) }

// TestVerifC57CacheStress: free-running Add / Remove / Clear against real, very short timers
// with seeded jitter at the hook points; only the recorded trace is judged.
func TestVerifC57CacheStress(t *testing.T) {
	gate.Stress(t, func(_ int, rng *rand.Rand, j *gate.Jitter, lg *gate.Log) {
		c := NewTimeoutCache(time.Duration(20+rng.Intn(200)) * time.Microsecond)
		var tmu sync.Mutex
		var timers []int64 // goroutines of timer callbacks that reached their first hook
		verifhook.Set(func(p string, o any) {
			if o != any(c) {
				return
			}
			if p == "tcache.timer" {
				id := gate.Goid()
				tmu.Lock()
				timers = append(timers, id)
				tmu.Unlock()
			}
			j.Perturb()
		})
		defer verifhook.Set(nil)
		var next atomic.Int32
		keys := []string{"k1", "k2", "k3"}[:1+rng.Intn(3)]
		var wg sync.WaitGroup
		worker := func(ops []int, name string) {
			wg.Add(1)
			go func() {
				defer wg.Done()
				c57Guard(lg.Add, func() {
					for _, op := range ops {
						key := keys[op%len(keys)]
						switch (op / 8) % 8 {
						case 0, 1, 2:
							e := int(next.Add(1))
							_, ok := c.Add(key, e, func() { lg.Add(map[string]any{"ev": "cb", "e": e}) })
							lg.Add(map[string]any{"ev": "add_ret", "e": e, "ok": ok})
						case 3, 4, 5:
							item, ok := c.Remove(key)
							e := 0
							if ok {
								e = item.(int)
							}
							lg.Add(map[string]any{"ev": "remove_ret", "r": name, "ok": ok, "e": e})
						case 6:
							run := op%16 < 12
							lg.Add(map[string]any{"ev": "clear_call", "run": run})
							c.Clear(run)
							lg.Add(map[string]any{"ev": "clear_ret", "run": run})
						default:
							time.Sleep(time.Duration(op%300) * time.Microsecond)
						}
					}
				})
			}()
		}
		for w := 0; w < 2+rng.Intn(3); w++ {
			ops := make([]int, 3+rng.Intn(10))
			for k := range ops {
				ops[k] = rng.Intn(1 << 16)
			}
			worker(ops, fmt.Sprintf("w%d", w))
		}
		wg.Wait()
		if rng.Intn(2) == 0 {
			time.Sleep(time.Duration(rng.Intn(300)) * time.Microsecond) // let some entries expire
		}
		lg.Add(map[string]any{"ev": "clear_call", "run": true})
		c.Clear(true)
		lg.Add(map[string]any{"ev": "clear_ret", "run": true})
		// every entry left the cache; wait for the timer callbacks that are still running
		for {
			tmu.Lock()
			ids := append([]int64(nil), timers...)
			tmu.Unlock()
			if !gate.WaitGone(ids, 30*time.Second) {
				lg.Add(map[string]any{"ev": "stuck"})
				return
			}
			tmu.Lock()
			same := len(timers) == len(ids)
			tmu.Unlock()
			if same {
				break
			}
		}
		lg.Add(map[string]any{"ev": "quiescent"})
	})
}
