package wrr

// Driver for C38 (weighted random / EDF selectors): the random source of randomWRR is replaced by an
// enumerator that visits every value of the requested range; outputs are recorded, TLC judges them
// against specs/WrrExact.tla.

import (
	"fmt"
	"math/rand"
	"os"
	"testing"

	"google.golang.org/grpc/internal/zzverif/vlib"
)

func c38Safe(tr *vlib.Trace, what string, f func()) {
	defer func() {
		if r := recover(); r != nil {
			tr.Emit(map[string]any{"ev": "panic", "what": what, "r": fmt.Sprint(r)})
		}
	}()
	f()
}

func c38Lists(r *rand.Rand, n int) [][]int64 {
	var out [][]int64
	alpha := []int64{0, 1, 2, 5}
	var gen func(p []int64, k int)
	gen = func(p []int64, k int) {
		if len(p) > 0 {
			out = append(out, append([]int64(nil), p...))
		}
		if k == 0 {
			return
		}
		for _, a := range alpha {
			gen(append(p, a), k-1)
		}
	}
	gen(nil, 4)
	out = append(out, []int64{1, 99}, []int64{99, 1}, []int64{0, 0, 7}, []int64{3, 3, 3}, []int64{7}, []int64{1, 2, 3, 4, 5, 6, 7, 8},
		[]int64{10, 20, 30}, []int64{1, 0, 1, 0, 1}, []int64{3, 6, 7}, []int64{1, 3}, []int64{5, 10, 15}, []int64{4, 4, 0}, []int64{0, 4, 4},
		[]int64{1, 2, 4, 8, 16}, []int64{16, 8, 4, 2, 1}, []int64{7, 11, 13}, []int64{9, 9, 9, 10}, []int64{1, 1, 1, 1, 1, 1, 2})
	for i := 0; i < n; i++ {
		k := 1 + r.Intn(6)
		ws := make([]int64, k)
		for j := range ws {
			switch r.Intn(6) {
			case 0:
				ws[j] = 0
			case 1:
				ws[j] = int64(1) << uint(r.Intn(5))
			default:
				ws[j] = int64(1 + r.Intn(24))
			}
		}
		out = append(out, ws)
	}
	return out
}

func TestVerifC38Wrr(t *testing.T) {
	tr, err := vlib.NewTrace(os.Getenv("VERIF_OUT"))
	if err != nil {
		t.Fatal(err)
	}
	defer tr.Close()
	seed := int64(vlib.EnvInt("VERIF_SEED", 1))
	n := vlib.EnvInt("VERIF_N", 100)
	r := rand.New(rand.NewSource(seed))
	orig := randInt64n
	defer func() { randInt64n = orig }()
	lists := c38Lists(r, n)
	nr, ne := 0, 0
	for _, ws := range lists {
		ws := ws
		var sum int64
		for _, w := range ws {
			sum += w
		}
		// weighted random selector, every value of the random source
		c38Safe(tr, "rand", func() {
			w := NewRandom()
			for i, x := range ws {
				w.Add(i+1, x)
			}
			tr.Emit(map[string]any{"ev": "randbegin", "ws": ws})
			var asked, cur int64
			randInt64n = func(k int64) int64 { asked = k; return cur }
			for {
				pick := 0
				if v, ok := w.Next().(int); ok {
					pick = v
				}
				tr.Emit(map[string]any{"ev": "rand", "n": asked, "r": cur, "pick": pick})
				cur++
				if cur >= asked || cur > 200000 {
					break
				}
			}
			tr.Emit(map[string]any{"ev": "randend"})
			nr++
		})
		// EDF selector, 3 full periods from a fresh selector
		if sum > 0 && sum <= 100 {
			c38Safe(tr, "edf", func() {
				e := NewEDF()
				for i, x := range ws {
					e.Add(i+1, x)
				}
				picks := make([]int, 0, 3*sum)
				for k := int64(0); k < 3*sum; k++ {
					p := 0
					if v, ok := e.Next().(int); ok {
						p = v
					}
					picks = append(picks, p)
				}
				tr.Emit(map[string]any{"ev": "edf", "ws": ws, "picks": picks})
				ne++
			})
		}
	}
	fmt.Printf("VERIF_SUMMARY {\"rand\":%d,\"edf\":%d,\"events\":%d}\n", nr, ne, tr.N)
}
