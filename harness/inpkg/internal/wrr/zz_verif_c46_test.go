package wrr

// Driver for C46 (weighted cluster choice): wrr.NewRandom is what the xDS resolver uses to pick a
// cluster among a route's weighted clusters.  The random source is replaced, through the randInt64n
// seam, by an enumerator that visits every draw 0..n-1 once; the picked index is recorded per draw.
// TLC (XdsRoutingTrace) counts and judges.

import (
	"fmt"
	"math/rand"
	"os"
	"testing"

	"google.golang.org/grpc/internal/zzverif/vlib"
)

func TestVerifC46WRR(t *testing.T) {
	tr, err := vlib.NewTrace(os.Getenv("VERIF_OUT"))
	if err != nil {
		t.Fatal(err)
	}
	defer tr.Close()
	seed := int64(vlib.EnvInt("VERIF_SEED", 1))
	n := vlib.EnvInt("VERIF_N", 20)
	maxW := vlib.EnvInt("VERIF_MAXW", 3)
	r := rand.New(rand.NewSource(seed))
	old := randInt64n
	defer func() { randInt64n = old }()
	var draw, bound int64
	randInt64n = func(b int64) int64 { bound = b; return draw }

	run := func(ws []int64) {
		defer func() {
			if p := recover(); p != nil {
				tr.Emit(map[string]any{"ev": "panic", "what": "wrr", "r": fmt.Sprint(p)})
			}
		}()
		w := NewRandom()
		items := make([]*int, len(ws))
		var sum int64
		for i, x := range ws {
			items[i] = new(int)
			*items[i] = i + 1
			w.Add(items[i], x)
			sum += x
		}
		if sum == 0 {
			return // the xDS client rejects routes whose total weight is zero
		}
		tr.Emit(map[string]any{"ev": "wrrbegin", "ws": ws})
		// first call discovers the bound the implementation asks for
		draw, bound = 0, 0
		w.Next()
		nb := bound
		for d := int64(0); d < nb; d++ {
			draw, bound = d, 0
			it := w.Next().(*int)
			tr.Emit(map[string]any{"ev": "wrr", "ws": ws, "n": bound, "draw": d, "res": *it})
		}
		tr.Emit(map[string]any{"ev": "wrrend", "ws": ws, "n": nb})
	}
	// every weight vector of length 1..3 over 0..maxW
	var gen func(p []int64, k int)
	gen = func(p []int64, k int) {
		if len(p) > 0 {
			run(append([]int64(nil), p...))
		}
		if k == 0 {
			return
		}
		for x := int64(0); x <= int64(maxW); x++ {
			gen(append(p, x), k-1)
		}
	}
	gen(nil, 3)
	for i := 0; i < n; i++ {
		k := 1 + r.Intn(6)
		ws := make([]int64, k)
		for j := range ws {
			ws[j] = int64(r.Intn(12))
			if r.Intn(5) == 0 {
				ws[j] = int64(r.Intn(40))
			}
		}
		if r.Intn(4) == 0 {
			for j := range ws {
				ws[j] = ws[0] // equal weights take a different code path
			}
		}
		run(ws)
	}
	fmt.Printf("VERIF_SUMMARY {\"pairs\":%d}\n", tr.N)
}
