package grpcsync

// Verification drivers for C31 (CallbackSerializer and PubSub part; DESIGN.md "C31").  Overlaid
// into package grpcsync by /verif/lib/vcheck.py; never part of /repo.

import (
	"context"
	"encoding/json"
	"fmt"
	"math/rand"
	"reflect"
	"sync"
	"testing"
	"time"

	"google.golang.org/grpc/internal/buffer"
	"google.golang.org/grpc/internal/verifhook"
	gate "google.golang.org/grpc/internal/zzverif/c31gate"
)

type c31Behaviour struct {
	Producers []string    `json:"producers"`
	Per       int         `json:"per"`
	Closers   []string    `json:"closers"`
	Steps     []gate.Step `json:"steps"`
}

type c31Buf = *buffer.Unbounded[func(context.Context)]

// private state of the serializer's Unbounded (other package: read through reflection)
func c31State(cs *CallbackSerializer) map[string]any {
	v := reflect.ValueOf(cs.callbacks).Elem()
	return map[string]any{"slot": len(cs.callbacks.Get()), "backlog": v.FieldByName("backlog").Len(),
		"closing": v.FieldByName("closing").Bool(), "closed": v.FieldByName("closed").Bool()}
}

func c31Guard(log func(map[string]any), f func()) {
	defer func() {
		if r := recover(); r != nil {
			log(map[string]any{"ev": "panic", "what": fmt.Sprint(r)})
		}
	}()
	f()
}

func c31RunBehaviour(raw []byte) ([]map[string]any, string) {
	var b c31Behaviour
	if err := json.Unmarshal(raw, &b); err != nil || len(b.Closers) != 1 {
		return nil, "infeasible: bad behaviour"
	}
	closer := b.Closers[0]
	s := gate.New(5 * time.Second)
	var cur sync.Map // goroutine -> value being scheduled
	verifhook.Set(func(p string, o any) {
		switch o.(type) {
		case *CallbackSerializer:
			s.HookAs("run", p) // the goroutine started by NewCallbackSerializer
		case c31Buf:
			if p == "unb.close" {
				s.HookAs(closer, p) // the goroutine started by context.AfterFunc
				return
			}
			s.Hook(p)
			if p == "unb.put" {
				if v, ok := cur.Load(gate.Goid()); ok {
					s.Log(map[string]any{"ev": "put_call", "v": v})
				}
			}
		}
	})
	defer verifhook.Set(nil)
	stop := make(chan struct{})
	defer close(stop)

	ctx, cancel := context.WithCancel(context.Background())
	defer cancel()
	cs := NewCallbackSerializer(ctx)
	if _, err := s.Await("run"); err != nil {
		return s.Events(), "infeasible: start: " + err.Error()
	}
	for i, p := range b.Producers {
		i := i
		s.Spawn(p, func() {
			c31Guard(s.Log, func() {
				id := gate.Goid()
				for n := 1; n <= b.Per; n++ {
					v := 10*(i+1) + n
					cur.Store(id, v)
					ok := true
					cs.ScheduleOr(func(context.Context) {
						s.Log(map[string]any{"ev": "run_begin", "v": v})
						s.Log(map[string]any{"ev": "run_end", "v": v})
					}, func() { ok = false })
					s.Log(map[string]any{"ev": "put_ret", "v": v, "ok": ok})
				}
			})
		})
		if _, err := s.Await(p); err != nil {
			return s.Events(), "infeasible: start: " + err.Error()
		}
	}

	cancelled, doneLogged := false, false
	outcome := gate.RunSteps(s, b.Steps,
		func(i int, st gate.Step, drifted bool) (bool, error) {
			if st.P != "cancel" {
				return false, nil
			}
			if cancelled {
				return true, nil
			}
			s.Log(map[string]any{"ev": "close_call"})
			cancelled = true
			cancel()
			_, err := s.Await(st.T)
			return true, err
		},
		func(i int, st gate.Step) string {
			if !doneLogged && s.At("run") == "end" {
				// the run goroutine ended: Done() must be closed now
				if !gate.WaitTimeout(cs.Done(), 5*time.Second) {
					return fmt.Sprintf("drift: step %d: Done not closed after the run loop exited", i)
				}
				s.Log(map[string]any{"ev": "done"})
				doneLogged = true
			}
			return ""
		},
		func() map[string]any { return c31State(cs) })
	// free run to the end: submitters finish, then shutdown, then Done
	s.Free()
	go s.Drain(stop)
	if !s.Join(30 * time.Second) {
		s.Log(map[string]any{"ev": "stuck"})
		return s.Events(), outcome + "+stuck-in-free-run"
	}
	if !cancelled {
		s.Log(map[string]any{"ev": "close_call"})
		cancel()
	}
	if !gate.WaitTimeout(cs.Done(), 30*time.Second) {
		s.Log(map[string]any{"ev": "stuck"})
		return s.Events(), outcome + "+stuck-in-free-run"
	}
	if !doneLogged {
		s.Log(map[string]any{"ev": "done"})
	}
	s.Log(map[string]any{"ev": "quiescent"})
	return s.Events(), outcome
}

// TestVerifC31SerReplay forces every behaviour of VERIF_BEHAVIOURS onto a real CallbackSerializer.
func TestVerifC31SerReplay(t *testing.T) { gate.Replay(t, c31RunBehaviour) }

// TestVerifC31SerStress: free-running submitters (TrySchedule / ScheduleOr / ScheduleAndWait,
// also from inside callbacks) against a real serializer whose context is cancelled at a random
// time; seeded jitter at the hook points; only the recorded trace is judged.
func TestVerifC31SerStress(t *testing.T) {
	gate.Stress(t, func(_ int, rng *rand.Rand, j *gate.Jitter, lg *gate.Log) {
		var cur sync.Map
		verifhook.Set(func(p string, o any) {
			switch o.(type) {
			case *CallbackSerializer:
				j.Perturb()
			case c31Buf:
				j.Perturb()
				if p == "unb.put" {
					if v, ok := cur.Load(gate.Goid()); ok {
						lg.Add(map[string]any{"ev": "put_call", "v": v})
					}
				}
			}
		})
		defer verifhook.Set(nil)
		ctx, cancel := context.WithCancel(context.Background())
		defer cancel()
		cs := NewCallbackSerializer(ctx)
		var submit func(v, kind int, nest bool)
		submit = func(v, kind int, nest bool) {
			id := gate.Goid()
			old, had := cur.Load(id)
			cur.Store(id, v)
			defer func() {
				if had {
					cur.Store(id, old)
				} else {
					cur.Delete(id)
				}
			}()
			cb := func(context.Context) {
				lg.Add(map[string]any{"ev": "run_begin", "v": v})
				if nest {
					submit(v+50, 1, false) // scheduling from inside a callback
				}
				lg.Add(map[string]any{"ev": "run_end", "v": v})
			}
			switch kind {
			case 0:
				cs.TrySchedule(cb) // outcome unknown to the submitter: no put_ret
			case 1:
				ok := true
				cs.ScheduleOr(cb, func() { ok = false })
				lg.Add(map[string]any{"ev": "put_ret", "v": v, "ok": ok})
			default:
				err := cs.ScheduleAndWait(cb)
				lg.Add(map[string]any{"ev": "put_ret", "v": v, "ok": err == nil, "waited": true})
			}
		}
		var wg sync.WaitGroup
		np := 1 + rng.Intn(4)
		for i := 0; i < np; i++ {
			i, per, gap := i, 1+rng.Intn(8), rng.Intn(40)
			kinds := make([]int, per)
			nests := make([]bool, per)
			for k := range kinds {
				kinds[k], nests[k] = rng.Intn(3), rng.Intn(5) == 0
			}
			wg.Add(1)
			go func() {
				defer wg.Done()
				c31Guard(lg.Add, func() {
					for n := 1; n <= per; n++ {
						submit(100*(i+1)+n, kinds[n-1], nests[n-1] && kinds[n-1] != 2)
						if gap%4 == 0 {
							time.Sleep(time.Duration(gap) * time.Microsecond)
						}
					}
				})
			}()
		}
		delay := rng.Intn(300)
		wg.Add(1)
		go func() {
			defer wg.Done()
			time.Sleep(time.Duration(delay) * time.Microsecond)
			lg.Add(map[string]any{"ev": "close_call"})
			cancel()
		}()
		all := make(chan struct{})
		go func() { wg.Wait(); close(all) }()
		if !gate.WaitTimeout(all, 30*time.Second) || !gate.WaitTimeout(cs.Done(), 30*time.Second) {
			lg.Add(map[string]any{"ev": "stuck"})
			return
		}
		lg.Add(map[string]any{"ev": "done"})
	})
}

type c31Sub struct {
	id int
	lg *gate.Log
}

func (s *c31Sub) OnMessage(m any) { s.lg.Add(map[string]any{"ev": "on_msg", "s": s.id, "m": m}) }

// TestVerifC31PubSubStress: one publisher (messages 1..M), subscribers that subscribe and
// (some) unsubscribe at random times; the context is cancelled after all of them returned.
func TestVerifC31PubSubStress(t *testing.T) {
	gate.Stress(t, func(_ int, rng *rand.Rand, j *gate.Jitter, lg *gate.Log) {
		verifhook.Set(func(p string, o any) {
			switch o.(type) {
			case *CallbackSerializer, c31Buf:
				j.Perturb()
			}
		})
		defer verifhook.Set(nil)
		ctx, cancel := context.WithCancel(context.Background())
		defer cancel()
		ps := NewPubSub(ctx)
		var wg sync.WaitGroup
		m, gap := rng.Intn(10), rng.Intn(60)
		wg.Add(1)
		go func() {
			defer wg.Done()
			for i := 1; i <= m; i++ {
				lg.Add(map[string]any{"ev": "pub_call", "m": i})
				ps.Publish(i)
				lg.Add(map[string]any{"ev": "pub_ret", "m": i})
				time.Sleep(time.Duration(gap) * time.Microsecond)
			}
		}()
		ns := 1 + rng.Intn(4)
		for i := 1; i <= ns; i++ {
			sub := &c31Sub{id: i, lg: lg}
			d1, d2, unsub := rng.Intn(300), rng.Intn(300), rng.Intn(2) == 0
			wg.Add(1)
			go func() {
				defer wg.Done()
				time.Sleep(time.Duration(d1) * time.Microsecond)
				lg.Add(map[string]any{"ev": "sub_call", "s": sub.id})
				cancelSub := ps.Subscribe(sub)
				lg.Add(map[string]any{"ev": "sub_ret", "s": sub.id})
				if unsub {
					time.Sleep(time.Duration(d2) * time.Microsecond)
					lg.Add(map[string]any{"ev": "unsub_call", "s": sub.id})
					cancelSub()
					lg.Add(map[string]any{"ev": "unsub_ret", "s": sub.id})
				}
			}()
		}
		wg.Wait()
		lg.Add(map[string]any{"ev": "close_call"})
		cancel()
		if !gate.WaitTimeout(ps.Done(), 30*time.Second) {
			lg.Add(map[string]any{"ev": "stuck"})
			return
		}
		lg.Add(map[string]any{"ev": "done"})
	})
}
