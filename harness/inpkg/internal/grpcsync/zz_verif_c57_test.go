package grpcsync

// Verification drivers for C57 (grpcsync.Event and grpcsync.RefCounted part; DESIGN.md "C57").
// Overlaid into package grpcsync by /verif/lib/vcheck.py; never part of /repo.

import (
	"encoding/json"
	"fmt"
	"math/rand"
	"runtime"
	"sync"
	"sync/atomic"
	"testing"
	"time"

	"google.golang.org/grpc/internal/verifhook"
	gate "google.golang.org/grpc/internal/zzverif/c31gate"
)

type c57Behaviour struct {
	Firers []string    `json:"firers"`
	Owners []string    `json:"owners"`
	Users  []string    `json:"users"`
	Steps  []gate.Step `json:"steps"`
}

func c57Guard(log func(map[string]any), f func()) {
	defer func() {
		if r := recover(); r != nil {
			log(map[string]any{"ev": "panic", "what": fmt.Sprint(r)})
		}
	}()
	f()
}

func c57RunBehaviour(raw []byte) ([]map[string]any, string) {
	var b c57Behaviour
	if err := json.Unmarshal(raw, &b); err != nil || len(b.Owners) > 1 {
		return nil, "infeasible: bad behaviour"
	}
	s := gate.New(5 * time.Second)
	var names sync.Map // goroutine -> user name
	verifhook.Set(func(p string, o any) {
		switch o.(type) {
		case *Event:
			s.Hook(p)
		case *RefCounted[int]:
			s.Hook(p)
			if p == "refc.load" {
				// the (re)try "starts" when the user is released towards the Load
				if u, ok := names.Load(gate.Goid()); ok {
					s.Log(map[string]any{"ev": "try_call", "u": u})
				}
			}
		}
	})
	defer verifhook.Set(nil)

	ev := NewEvent()
	rc := NewRefCounted(7, func() { s.Log(map[string]any{"ev": "on_zero"}) })
	dec := func(u string) {
		s.Hook("refc.dec")
		s.Log(map[string]any{"ev": "dec_call", "u": u})
		rc.Decrement()
		s.Log(map[string]any{"ev": "dec_ret", "u": u})
	}
	spawn := func(ns []string, body func(name string)) string {
		for _, n := range ns {
			n := n
			s.Spawn(n, func() { c57Guard(s.Log, func() { body(n) }) })
			if _, err := s.Await(n); err != nil {
				return "infeasible: start: " + err.Error()
			}
		}
		return ""
	}
	if e := spawn(b.Firers, func(f string) {
		s.Hook("event.cas")
		r := ev.Fire()
		s.Log(map[string]any{"ev": "fire_ret", "f": f, "r": r})
	}); e != "" {
		return s.Events(), e
	}
	for _, o := range b.Owners {
		s.Log(map[string]any{"ev": "ref_new", "u": o})
	}
	if e := spawn(b.Owners, dec); e != "" {
		return s.Events(), e
	}
	if e := spawn(b.Users, func(u string) {
		names.Store(gate.Goid(), u)
		ok := rc.TryIncrement()
		s.Log(map[string]any{"ev": "try_ret", "u": u, "ok": ok})
		if ok {
			dec(u)
		}
	}); e != "" {
		return s.Events(), e
	}

	outcome := gate.RunSteps(s, b.Steps, nil, nil, func() map[string]any {
		got := map[string]any{"fired": ev.HasFired()}
		if len(b.Owners) > 0 {
			got["rc"] = int(rc.refCount.Load())
		}
		return got
	})
	if !s.Join(30 * time.Second) {
		s.Log(map[string]any{"ev": "stuck"})
		return s.Events(), outcome + "+stuck-in-free-run"
	}
	s.Log(map[string]any{"ev": "quiescent"})
	return s.Events(), outcome
}

// TestVerifC57SyncReplay forces every behaviour of VERIF_BEHAVIOURS onto a real Event / RefCounted.
func TestVerifC57SyncReplay(t *testing.T) { gate.Replay(t, c57RunBehaviour) }

// TestVerifC57SyncStress: free-running concurrent Fire callers and TryIncrement / Decrement
// users with seeded jitter at the hook points; only the recorded trace is judged.
func TestVerifC57SyncStress(t *testing.T) {
	gate.Stress(t, func(_ int, rng *rand.Rand, j *gate.Jitter, lg *gate.Log) {
		var names sync.Map
		verifhook.Set(func(p string, o any) {
			switch o.(type) {
			case *Event:
				j.Perturb()
			case *RefCounted[int]:
				j.Perturb()
				if p == "refc.load" {
					if u, ok := names.Load(gate.Goid()); ok {
						lg.Add(map[string]any{"ev": "try_call", "u": u})
					}
				}
			}
		})
		defer verifhook.Set(nil)
		ev := NewEvent()
		rc := NewRefCounted(7, func() { lg.Add(map[string]any{"ev": "on_zero"}) })
		lg.Add(map[string]any{"ev": "ref_new", "u": "o1"})
		var wg sync.WaitGroup
		for i := 0; i < 2+rng.Intn(6); i++ {
			f, d := fmt.Sprintf("f%d", i), rng.Intn(40)
			wg.Add(1)
			go func() {
				defer wg.Done()
				c57Guard(lg.Add, func() {
					if d%3 == 0 {
						time.Sleep(time.Duration(d) * time.Microsecond)
					}
					j.Perturb()
					r := ev.Fire()
					lg.Add(map[string]any{"ev": "fire_ret", "f": f, "r": r})
				})
			}()
		}
		dec := func(u string) {
			j.Perturb()
			lg.Add(map[string]any{"ev": "dec_call", "u": u})
			rc.Decrement()
			lg.Add(map[string]any{"ev": "dec_ret", "u": u})
		}
		od := rng.Intn(200)
		wg.Add(1)
		go func() {
			defer wg.Done()
			c57Guard(lg.Add, func() {
				time.Sleep(time.Duration(od) * time.Microsecond)
				dec("o1")
			})
		}()
		for i := 0; i < 1+rng.Intn(5); i++ {
			u, cycles, hold := fmt.Sprintf("u%d", i), 1+rng.Intn(6), rng.Intn(60)
			wg.Add(1)
			go func() {
				defer wg.Done()
				c57Guard(lg.Add, func() {
					names.Store(gate.Goid(), u)
					for k := 0; k < cycles; k++ {
						ok := rc.TryIncrement()
						lg.Add(map[string]any{"ev": "try_ret", "u": u, "ok": ok})
						if ok {
							if hold%2 == 0 {
								time.Sleep(time.Duration(hold) * time.Microsecond)
							}
							dec(u)
						}
					}
				})
			}()
		}
		wg.Wait()
		lg.Add(map[string]any{"ev": "quiescent"})
	})
}

// TestVerifC57RefHunt: free-running rounds aimed at the window between the Load and the
// increment of TryIncrement.  One or two TryIncrement callers are held at the "refc.cas" hook
// point (they have read a live count), the owner drops the last reference (cleanup runs), the
// held callers are released, and meanwhile several other users keep calling TryIncrement on the
// dead object (each announces itself once, after the cleanup was logged, and reports the first
// success or the final failure).  Everything stays inside the API contract; only the recorded
// trace is judged (I_NoResurrect, I_ZeroOnce, I_ZeroOnlyAtZero).
func TestVerifC57RefHunt(t *testing.T) {
	gate.Stress(t, func(_ int, rng *rand.Rand, j *gate.Jitter, lg *gate.Log) {
		var rc *RefCounted[int]
		var toHold atomic.Int32
		var dead atomic.Bool
		held := make(chan struct{}, 4)
		release := make(chan struct{})
		verifhook.Set(func(p string, o any) {
			if p != "refc.cas" || o != any(rc) {
				return
			}
			for {
				n := toHold.Load()
				if n <= 0 {
					return
				}
				if toHold.CompareAndSwap(n, n-1) {
					break
				}
			}
			held <- struct{}{}
			<-release
		})
		defer verifhook.Set(nil)
		rc = NewRefCounted(7, func() {
			lg.Add(map[string]any{"ev": "on_zero"})
			dead.Store(true)
		})
		lg.Add(map[string]any{"ev": "ref_new", "u": "o1"})
		dec := func(u string) {
			lg.Add(map[string]any{"ev": "dec_call", "u": u})
			rc.Decrement()
			lg.Add(map[string]any{"ev": "dec_ret", "u": u})
		}
		nHold := 1 + rng.Intn(2)
		toHold.Store(int32(nHold))
		var wg, hwg sync.WaitGroup
		for i := 0; i < nHold; i++ {
			u := fmt.Sprintf("h%d", i)
			wg.Add(1)
			hwg.Add(1)
			go func() {
				defer wg.Done()
				c57Guard(lg.Add, func() {
					lg.Add(map[string]any{"ev": "try_call", "u": u})
					ok := rc.TryIncrement()
					lg.Add(map[string]any{"ev": "try_ret", "u": u, "ok": ok})
					hwg.Done()
					if ok {
						dec(u)
					}
				})
			}()
		}
		for i := 0; i < nHold; i++ {
			<-held
		}
		var heldDone atomic.Bool
		for i := 0; i < 3+rng.Intn(4); i++ {
			u := fmt.Sprintf("s%d", i)
			wg.Add(1)
			go func() {
				defer wg.Done()
				c57Guard(lg.Add, func() {
					for !dead.Load() {
						runtime.Gosched()
					}
					// the cleanup was logged before dead was set: every Load below comes after it
					lg.Add(map[string]any{"ev": "try_call", "u": u})
					ok, extra := false, 200
					for n := 0; n < 200000 && extra > 0 && !ok; n++ {
						ok = rc.TryIncrement()
						if heldDone.Load() {
							extra--
						}
					}
					lg.Add(map[string]any{"ev": "try_ret", "u": u, "ok": ok})
					if ok {
						dec(u)
					}
				})
			}()
		}
		dec("o1") // the last reference: cleanup runs
		if d := rng.Intn(4); d > 0 {
			time.Sleep(time.Duration(d*5) * time.Microsecond)
		}
		close(release)
		hwg.Wait()
		heldDone.Store(true)
		wg.Wait()
		lg.Add(map[string]any{"ev": "quiescent"})
	})
}
