package binarylog

// Driver for C55: records inputs and outputs of the real truncateMetadata / truncateMessage /
// mdToMetadataProto and of log entries built by TruncatingMethodLogger.Build; TLC validates them
// against specs/BinaryLog.tla (BinaryLogTrace).  Never judges.

import (
	"fmt"
	"math/rand"
	"os"
	"testing"

	binlogpb "google.golang.org/grpc/binarylog/grpc_binarylog_v1"
	"google.golang.org/grpc/internal/zzverif/vlib"
	"google.golang.org/grpc/metadata"
)

type c55Entry struct{ k, v string }

func c55Entries(es []*binlogpb.MetadataEntry) []any {
	out := []any{}
	for _, e := range es {
		out = append(out, map[string]any{"key": vlib.Bytes(e.GetKey()), "val": vlib.Bytes(string(e.GetValue()))})
	}
	return out
}

func c55Limit(l int64) uint64 {
	if l < 0 {
		return maxUInt
	}
	return uint64(l)
}

func c55Safe(tr *vlib.Trace, what string, f func()) {
	defer func() {
		if r := recover(); r != nil {
			tr.Emit(map[string]any{"ev": "panic", "what": what, "r": fmt.Sprint(r)})
		}
	}()
	f()
}

type c55MD struct {
	k  string
	vs []string
}

func c55MDJSON(md []c55MD) []any {
	out := []any{}
	for _, e := range md {
		vs := []any{}
		for _, v := range e.vs {
			vs = append(vs, vlib.Bytes(v))
		}
		out = append(out, map[string]any{"k": vlib.Bytes(e.k), "vs": vs})
	}
	return out
}

func c55ToMD(md []c55MD) metadata.MD {
	m := metadata.MD{}
	for _, e := range md {
		m[e.k] = append([]string(nil), e.vs...)
	}
	return m
}

func TestVerifC55BinaryLog(t *testing.T) {
	tr, err := vlib.NewTrace(os.Getenv("VERIF_OUT"))
	if err != nil {
		t.Fatal(err)
	}
	defer tr.Close()
	seed := int64(vlib.EnvInt("VERIF_SEED", 1))
	n := vlib.EnvInt("VERIF_N", 300)
	maxN := vlib.EnvInt("VERIF_MAXN", 4)
	r := rand.New(rand.NewSource(seed))

	// ---- truncateMetadata on entry lists ----
	trunc := func(es []c55Entry, limit int64) {
		c55Safe(tr, "trunc", func() {
			ml := NewTruncatingMethodLogger(c55Limit(limit), maxUInt)
			pb := &binlogpb.Metadata{}
			for _, e := range es {
				pb.Entry = append(pb.Entry, &binlogpb.MetadataEntry{Key: e.k, Value: []byte(e.v)})
			}
			in := c55Entries(pb.Entry)
			flag := ml.truncateMetadata(pb)
			tr.Emit(map[string]any{"ev": "trunc", "es": in, "limit": limit, "out": c55Entries(pb.Entry), "flag": flag})
		})
	}
	pool := []c55Entry{{"a", ""}, {"b", "x"}, {"cc", "xyz"}, {"grpc-trace-bin", "TT"}}
	limits := []int64{-1, 0, 1, 2, 3, 4, 5, 6, 7, 8}
	var gen func(p []c55Entry, k int)
	gen = func(p []c55Entry, k int) {
		for _, l := range limits {
			trunc(p, l)
		}
		if k == 0 {
			return
		}
		for _, e := range pool {
			gen(append(append([]c55Entry(nil), p...), e), k-1)
		}
	}
	gen(nil, maxN)
	keys := []string{"a", "bb", "key-bin", "grpc-trace-bin", "x", "grpc-trace-bin", "grpc-trace-bi", "grpc-trace-bin2"}
	for i := 0; i < n; i++ {
		var es []c55Entry
		total := 0
		for k := r.Intn(8); k > 0; k-- {
			e := c55Entry{keys[r.Intn(len(keys))], string(make([]byte, r.Intn(12)))}
			if e.k != "grpc-trace-bin" {
				total += len(e.k) + len(e.v)
			}
			es = append(es, e)
		}
		trunc(es, int64(r.Intn(total+3)))
		trunc(es, int64(total))
		if total > 0 {
			trunc(es, int64(total-1))
		}
	}

	// ---- truncateMessage ----
	for ln := 0; ln <= 7; ln++ {
		for _, limit := range []int64{-1, 0, 1, 3, 5, 6, 7, 8, 100} {
			c55Safe(tr, "msg", func() {
				ml := NewTruncatingMethodLogger(maxUInt, c55Limit(limit))
				data := make([]byte, ln)
				for i := range data {
					data[i] = byte(i + 1)
				}
				pb := &binlogpb.Message{Length: uint32(ln), Data: data}
				flag := ml.truncateMessage(pb)
				tr.Emit(map[string]any{"ev": "msg", "data": vlib.Bytes(string(data)), "limit": limit, "out": vlib.Bytes(string(pb.Data)), "flag": flag})
			})
		}
	}

	// ---- mdToMetadataProto: omitted headers ----
	allKeys := []string{"a", "b-bin", "grpc-trace-bin", "grpc-", "grpc-x", "grpc-timeout", "grpc-trace-bin2", "grpc-trace-bi", "grpcx", "xgrpc-y",
		":path", ":authority", ":method", ":pathx", "content-type", "content-type2", "content-typ", "user-agent", "user-agents", "te", "t", "tex",
		"lb-token", "lb-token-bin", "lb-toke", "content-encoding", "grpc-status", "grpc-message", "grpc-encoding", "authorization"}
	vals := [][]string{{"v"}, {"v1", "v2"}, {""}, {"v", "v"}}
	md2pb := func(md []c55MD) {
		c55Safe(tr, "md2pb", func() {
			pb := mdToMetadataProto(c55ToMD(md))
			tr.Emit(map[string]any{"ev": "md2pb", "md": c55MDJSON(md), "out": c55Entries(pb.Entry)})
		})
	}
	for i, k := range allKeys {
		md2pb([]c55MD{{k, vals[i%len(vals)]}})
		md2pb([]c55MD{{"q", []string{"1"}}, {k, vals[(i+1)%len(vals)]}, {"zz", []string{"2", "3"}}})
	}
	randMD := func() []c55MD {
		perm := r.Perm(len(allKeys))
		var md []c55MD
		for k := r.Intn(7); k > 0; k-- {
			key := allKeys[perm[k]]
			if r.Intn(3) == 0 {
				key = "grpc-trace-bin"
			}
			dup := false
			for _, e := range md {
				dup = dup || e.k == key
			}
			if dup {
				continue
			}
			var vs []string
			for j := 1 + r.Intn(3); j > 0; j-- {
				vs = append(vs, string(make([]byte, r.Intn(6))))
			}
			md = append(md, c55MD{key, vs})
		}
		return md
	}
	for i := 0; i < n; i++ {
		md2pb(randMD())
	}

	// ---- whole log entries through the method logger ----
	build := func(kind string, md []c55MD, limit int64) {
		c55Safe(tr, "build", func() {
			ml := NewTruncatingMethodLogger(c55Limit(limit), maxUInt)
			var c LogEntryConfig
			switch kind {
			case "client_header":
				c = &ClientHeader{OnClientSide: true, Header: c55ToMD(md), MethodName: "/s/m", Authority: "auth"}
			case "server_header":
				c = &ServerHeader{OnClientSide: false, Header: c55ToMD(md)}
			default:
				c = &ServerTrailer{OnClientSide: true, Trailer: c55ToMD(md)}
			}
			e := ml.Build(c)
			var pb *binlogpb.Metadata
			switch p := e.Payload.(type) {
			case *binlogpb.GrpcLogEntry_ClientHeader:
				pb = p.ClientHeader.GetMetadata()
			case *binlogpb.GrpcLogEntry_ServerHeader:
				pb = p.ServerHeader.GetMetadata()
			case *binlogpb.GrpcLogEntry_Trailer:
				pb = p.Trailer.GetMetadata()
			}
			tr.Emit(map[string]any{"ev": "build", "kind": kind, "md": c55MDJSON(md), "limit": limit, "out": c55Entries(pb.GetEntry()), "flag": e.PayloadTruncated})
		})
	}
	kinds := []string{"client_header", "server_header", "trailer"}
	fixed := [][]c55MD{
		{{"a", []string{"1", "22", "333"}}},
		{{"a", []string{"1", "22", "333"}}, {"grpc-trace-bin", []string{"T"}}},
		{{"grpc-trace-bin", []string{"T", "UU"}}},
		{{"grpc-timeout", []string{"1S"}}, {"a", []string{"xx"}}, {":path", []string{"/s/m"}}},
		{},
	}
	for _, md := range fixed {
		for _, k := range kinds {
			for limit := int64(-1); limit <= 10; limit++ {
				build(k, md, limit)
			}
		}
	}
	for i := 0; i < n; i++ {
		md := randMD()
		total := 0
		for _, e := range md {
			for _, v := range e.vs {
				total += len(e.k) + len(v)
			}
		}
		build(kinds[r.Intn(3)], md, int64(r.Intn(total+2))-1)
		build(kinds[r.Intn(2)], md, int64(total))
	}
	fmt.Printf("VERIF_SUMMARY {\"pairs\":%d}\n", tr.N)
}
