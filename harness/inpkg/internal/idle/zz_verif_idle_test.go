package idle

// Verification drivers for C29 (DESIGN.md, section "C29").  Overlaid into package idle by
// /verif/lib/vcheck.py; never part of /repo.

import (
	"encoding/json"
	"fmt"
	"math"
	"math/rand"
	"os"
	"strings"
	"sync"
	"sync/atomic"
	"testing"
	"time"

	"google.golang.org/grpc/internal/verifhook"
	"google.golang.org/grpc/internal/zzverif/vlib"
)

type vStep struct {
	T   string         `json:"t"`
	P   string         `json:"p"`
	Exp map[string]any `json:"exp"`
}

type vBehaviour struct {
	Rpcs    []string `json:"rpcs"`
	Conns   []string `json:"conns"`
	Closers []string `json:"closers"`
	Calls   int      `json:"calls"`
	Steps   []vStep  `json:"steps"`
}

// vRecCC records the ClientConn callbacks (begin and end).  In the stress driver the
// callbacks take (jittered) time, as the real ClientConn's do: entering idle tears the channel
// down, exiting idle rebuilds it.
type vRecCC struct {
	log  func(map[string]any)
	work func()
}

func (c vRecCC) EnterIdleMode() {
	c.log(map[string]any{"ev": "cc_enter"})
	if c.work != nil {
		c.work()
	}
	c.log(map[string]any{"ev": "cc_enter_end"})
}
func (c vRecCC) ExitIdleMode() {
	c.log(map[string]any{"ev": "cc_exit"})
	if c.work != nil {
		c.work()
	}
	c.log(map[string]any{"ev": "cc_exit_end"})
}

// normalised activeCallsCount: the -MaxInt32 sentinel becomes -1000 (the spec's BIG)
func vCount(m *Manager) int {
	c := int(atomic.LoadInt32(&m.activeCallsCount))
	if c < -(1 << 30) {
		return c + math.MaxInt32 - 1000
	}
	return c
}

func vState(m *Manager, armed bool) map[string]any {
	return map[string]any{
		"count":        vCount(m),
		"activity":     int(atomic.LoadInt32(&m.activeSinceLastTimerCheck)),
		"actuallyIdle": m.actuallyIdle,
		"closed":       atomic.LoadInt32(&m.closed) == 1,
		"armed":        armed,
	}
}

func vRunBehaviour(b *vBehaviour) (events []map[string]any, outcome string) {
	s := vlib.NewSched(2 * time.Second)
	var armedCb func()
	var m *Manager
	verifhook.Set(func(p string, o any) {
		if o != any(m) || !strings.HasPrefix(p, "idle.") {
			return
		}
		s.Hook(p[5:])
	})
	defer verifhook.Set(nil)
	oldTAF := timeAfterFunc
	defer func() { timeAfterFunc = oldTAF }()
	timeAfterFunc = func(_ time.Duration, f func()) *time.Timer {
		armedCb = f // gated mode: only one goroutine runs at a time
		return time.NewTimer(time.Hour)
	}
	m = NewManager(vRecCC{log: s.Log}, 10*time.Second)
	armed := func() bool { return armedCb != nil && m.timer != nil }

	for _, r := range b.Rpcs {
		r := r
		s.Spawn(r, func() {
			for i := 0; i < b.Calls; i++ {
				s.Hook("start")
				m.OnCallBegin()
				s.Log(map[string]any{"ev": "begin_ret", "r": r})
				s.Hook("incall")
				s.Log(map[string]any{"ev": "end_call", "r": r})
				m.OnCallEnd()
			}
		})
		if _, err := s.Await(r); err != nil {
			return s.Events(), "stuck-at-start: " + err.Error()
		}
	}
	for _, k := range b.Conns {
		s.Spawn(k, func() {
			s.Hook("k_start")
			m.ExitIdleMode()
		})
		if _, err := s.Await(k); err != nil {
			return s.Events(), "stuck-at-start: " + err.Error()
		}
	}
	for _, c := range b.Closers {
		s.Spawn(c, func() {
			s.Hook("c_start")
			s.Log(map[string]any{"ev": "close_start"})
			m.Close()
		})
		if _, err := s.Await(c); err != nil {
			return s.Events(), "stuck-at-start: " + err.Error()
		}
	}
	outcome = "ok"
	for i, st := range b.Steps {
		if st.T == "timer" && st.P == "fire" {
			if !armed() {
				outcome = fmt.Sprintf("drift: step %d timer fire but no armed timer", i)
				break
			}
			cb := armedCb
			armedCb = nil
			s.Log(map[string]any{"ev": "at", "t": st.T, "p": st.P})
			s.Spawn("timer", cb)
			if _, err := s.Await("timer"); err != nil {
				outcome = fmt.Sprintf("infeasible: step %d: %v", i, err)
				break
			}
		} else {
			s.Log(map[string]any{"ev": "at", "t": st.T, "p": st.P})
			if _, err := s.Step(st.T, st.P); err != nil {
				if strings.HasPrefix(err.Error(), "expects") {
					outcome = fmt.Sprintf("drift: step %d %v", i, err)
				} else {
					outcome = fmt.Sprintf("infeasible: step %d %s@%s: %v", i, st.T, st.P, err)
				}
				break
			}
		}
		// Level I: compare the private state with the specification's state.
		if st.Exp != nil {
			got := vState(m, armed())
			for k, want := range st.Exp {
				if fmt.Sprint(got[k]) != fmt.Sprint(want) {
					outcome = fmt.Sprintf("drift: step %d (%s@%s) %s = %v, spec says %v", i, st.T, st.P, k, got[k], want)
				}
			}
			if outcome != "ok" {
				break
			}
		}
	}
	if !s.Join(5 * time.Second) {
		s.Log(map[string]any{"ev": "stuck"})
		return s.Events(), outcome + "+stuck-in-free-run"
	}
	s.Log(map[string]any{"ev": "quiescent"})
	m.Close()
	return s.Events(), outcome
}

// TestVerifIdleReplay forces every behaviour of VERIF_BEHAVIOURS onto a real Manager.
func TestVerifIdleReplay(t *testing.T) {
	lines, err := vlib.ReadLines(os.Getenv("VERIF_BEHAVIOURS"))
	if err != nil {
		t.Fatal(err)
	}
	tr, err := vlib.NewTrace(os.Getenv("VERIF_OUT"))
	if err != nil {
		t.Fatal(err)
	}
	defer tr.Close()
	drift, infeasible := 0, 0
	var notes []string
	for i, ln := range lines {
		var b vBehaviour
		if err := json.Unmarshal(ln, &b); err != nil {
			t.Fatal(err)
		}
		ev, outcome := vRunBehaviour(&b)
		if outcome != "ok" {
			if strings.HasPrefix(outcome, "drift") {
				drift++
			} else {
				infeasible++
			}
			if len(notes) < 5 {
				notes = append(notes, fmt.Sprintf("behaviour %d: %s", i, outcome))
			}
		}
		tr.Emit(map[string]any{"ev": "reset", "b": i, "outcome": outcome})
		for _, e := range ev {
			tr.Emit(e)
		}
	}
	sum, _ := json.Marshal(map[string]any{"behaviours": len(lines), "drift": drift, "infeasible": infeasible, "notes": notes})
	fmt.Printf("VERIF_SUMMARY %s\n", sum)
}

// TestVerifIdleStress runs free-running goroutines against a real Manager with real (very
// short) timers and seeded jitter at the hook points; only the recorded trace is judged.
func TestVerifIdleStress(t *testing.T) {
	seed := int64(vlib.EnvInt("VERIF_SEED", 1))
	rounds := vlib.EnvInt("VERIF_ROUNDS", 200)
	tr, err := vlib.NewTrace(os.Getenv("VERIF_OUT"))
	if err != nil {
		t.Fatal(err)
	}
	defer tr.Close()
	oldTAF := timeAfterFunc
	defer func() { timeAfterFunc = oldTAF }()
	var jrng = rand.New(rand.NewSource(seed))
	var jmu sync.Mutex
	jit := func() int {
		jmu.Lock()
		defer jmu.Unlock()
		return jrng.Intn(8)
	}
	total := 0
	for round := 0; round < rounds; round++ {
		rng := rand.New(rand.NewSource(seed*1000003 + int64(round)))
		var mu sync.Mutex
		var evs []map[string]any
		log := func(e map[string]any) {
			mu.Lock()
			evs = append(evs, e)
			mu.Unlock()
		}
		timeAfterFunc = func(_ time.Duration, f func()) *time.Timer {
			return time.AfterFunc(time.Duration(20+25*jit())*time.Microsecond, f)
		}
		var m *Manager
		verifhook.Set(func(p string, o any) {
			if o != any(m) {
				return
			}
			switch jit() {
			case 0:
				time.Sleep(time.Duration(10) * time.Microsecond)
			case 1, 2:
				runtimeGosched()
			}
		})
		work := func() {
			switch jit() {
			case 0, 1:
				time.Sleep(time.Duration(20+30*jit()) * time.Microsecond)
			case 2, 3:
				runtimeGosched()
			}
		}
		m = NewManager(vRecCC{log: log, work: work}, time.Millisecond)
		var wg sync.WaitGroup
		nr := 2 + rng.Intn(4)
		for r := 0; r < nr; r++ {
			name := fmt.Sprintf("r%d", r)
			calls := 1 + rng.Intn(6)
			gap := rng.Intn(300)
			wg.Add(1)
			go func() {
				defer wg.Done()
				for i := 0; i < calls; i++ {
					m.OnCallBegin()
					log(map[string]any{"ev": "begin_ret", "r": name})
					if gap%3 == 0 {
						time.Sleep(time.Duration(gap) * time.Microsecond)
					}
					log(map[string]any{"ev": "end_call", "r": name})
					m.OnCallEnd()
					time.Sleep(time.Duration(gap) * time.Microsecond)
				}
			}()
		}
		if rng.Intn(2) == 0 {
			wg.Add(1)
			go func() {
				defer wg.Done()
				time.Sleep(time.Duration(rng.Intn(300)) * time.Microsecond)
				m.ExitIdleMode()
			}()
		}
		closeEarly := rng.Intn(4) == 0
		if closeEarly {
			wg.Add(1)
			go func() {
				defer wg.Done()
				time.Sleep(time.Duration(rng.Intn(400)) * time.Microsecond)
				log(map[string]any{"ev": "close_start"})
				m.Close()
			}()
		}
		wg.Wait()
		time.Sleep(300 * time.Microsecond)
		if !closeEarly {
			log(map[string]any{"ev": "close_start"})
			m.Close()
		}
		time.Sleep(100 * time.Microsecond)
		verifhook.Set(nil)
		tr.Emit(map[string]any{"ev": "reset", "b": round, "outcome": "stress"})
		mu.Lock()
		for _, e := range evs {
			tr.Emit(e)
		}
		total += len(evs)
		mu.Unlock()
	}
	fmt.Printf("VERIF_SUMMARY {\"rounds\":%d,\"events\":%d}\n", rounds, total)
}
