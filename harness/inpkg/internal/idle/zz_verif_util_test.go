package idle

import "runtime"

func runtimeGosched() { runtime.Gosched() }
