package dns

// Drivers for C56 (DNS resolution is paced; targets are parsed correctly).
//
// Pacing: the real dnsResolver (Build -> watcher goroutine) runs inside a testing/synctest
// bubble with the default time seams (time.Now / time.After / time.Until are virtual
// there), a fake NetResolver installed through internal.NewNetResolver and a recording
// resolver.ClientConn.  Lookups are logged with their virtual instants (ms since Build).
// The drivers only drive and record; TLC judges (DNSTrace.tla / DNSTargetTrace.tla).

import (
	"context"
	"encoding/json"
	"errors"
	"fmt"
	"math/rand"
	"net"
	"net/url"
	"sync"
	"testing"
	"testing/synctest"
	"time"

	"google.golang.org/grpc/internal/resolver/dns/internal"
	"google.golang.org/grpc/internal/zzverif/vlib"
	"google.golang.org/grpc/resolver"
	"google.golang.org/grpc/serviceconfig"
)

type c56Outcome struct {
	kind string // "ok", "fail", "badstate"
	dur  time.Duration
}

type c56Env struct {
	tr *vlib.Trace
	t0 time.Time

	mu       sync.Mutex
	inflight bool
	lookups  int
	lastHost string
	badNext  bool // the next UpdateState returns an error
	addrs    []string

	gate   chan c56Outcome     // gated mode: the driver hands the outcome to the lookup in flight
	policy func() c56Outcome   // free mode: outcome chosen when the lookup starts
	emits  [][]string          // addresses of every UpdateState
}

func (e *c56Env) ms() int64 { return time.Since(e.t0).Milliseconds() }
func (e *c56Env) emit(ev map[string]any) {
	if e.tr != nil {
		e.tr.Emit(ev)
	}
}

// --- fake NetResolver
func (e *c56Env) LookupHost(ctx context.Context, host string) ([]string, error) {
	e.mu.Lock()
	e.inflight = true
	e.lookups++
	e.lastHost = host
	e.mu.Unlock()
	e.emit(map[string]any{"ev": "lookup_start", "t": e.ms()})
	var o c56Outcome
	if e.policy != nil {
		o = e.policy()
		if o.dur > 0 {
			select {
			case <-time.After(o.dur):
			case <-ctx.Done():
				o.kind = "ctx"
			}
		}
	} else {
		select {
		case o = <-e.gate:
		case <-ctx.Done():
			o.kind = "ctx"
		}
	}
	e.mu.Lock()
	e.inflight = false
	e.badNext = o.kind == "badstate"
	addrs := e.addrs
	e.mu.Unlock()
	switch o.kind {
	case "ok", "badstate":
		return addrs, nil
	case "ctx":
		return nil, ctx.Err()
	}
	return nil, &net.DNSError{Err: "verif scripted failure", Name: host, IsTemporary: true}
}
func (e *c56Env) LookupSRV(context.Context, string, string, string) (string, []*net.SRV, error) {
	return "", nil, errors.New("unexpected SRV lookup")
}
func (e *c56Env) LookupTXT(context.Context, string) ([]string, error) {
	return nil, errors.New("unexpected TXT lookup")
}

// --- recording resolver.ClientConn
func (e *c56Env) UpdateState(s resolver.State) error {
	e.mu.Lock()
	bad := e.badNext
	e.badNext = false
	as := []string{}
	for _, a := range s.Addresses {
		as = append(as, a.Addr)
	}
	e.emits = append(e.emits, as)
	e.mu.Unlock()
	e.emit(map[string]any{"ev": "result", "t": e.ms(), "ok": !bad})
	if bad {
		return errors.New("verif: bad resolver state")
	}
	return nil
}
func (e *c56Env) ReportError(error) {
	e.emit(map[string]any{"ev": "result", "t": e.ms(), "ok": false})
}
func (e *c56Env) NewAddress([]resolver.Address) {}
func (e *c56Env) ParseServiceConfig(string) *serviceconfig.ParseResult {
	return &serviceconfig.ParseResult{Err: errors.New("no service config")}
}

func c56Target(endpoint string) resolver.Target {
	return resolver.Target{URL: url.URL{Scheme: "dns", Path: "/" + endpoint}}
}

func c56Install(e **c56Env) func() {
	old := internal.NewNetResolver
	oldTO := ResolvingTimeout
	internal.NewNetResolver = func(string) (internal.NetResolver, error) { return *e, nil }
	// lookups of scripted duration (up to > MinResolutionInterval) must be able to succeed
	ResolvingTimeout = 10 * time.Minute
	return func() { internal.NewNetResolver = old; ResolvingTimeout = oldTO }
}

func (e *c56Env) quiescent() {
	synctest.Wait()
	e.tr.Emit(map[string]any{"ev": "quiescent", "t": e.ms()})
}

func (e *c56Env) closeRes(r resolver.Resolver) {
	e.tr.Emit(map[string]any{"ev": "close_begin", "t": e.ms()})
	r.Close()
	e.tr.Emit(map[string]any{"ev": "close_end", "t": e.ms()})
}

type c56Step struct {
	A  string `json:"a"`
	Ok bool   `json:"ok"`
}

type c56Summary struct {
	Behaviours int `json:"behaviours"`
	Steps      int `json:"steps"`
	Infeasible int `json:"infeasible"`
	Lookups    int `json:"lookups"`
	Panics     int `json:"panics"`
	Pairs      int `json:"pairs"`
}

func c56Guard(tr *vlib.Trace, sum *c56Summary, f func()) {
	defer func() {
		if r := recover(); r != nil {
			sum.Panics++
			tr.Emit(map[string]any{"ev": "panic", "msg": fmt.Sprint(r)})
		}
	}()
	f()
}

const c56Unit = 10 * time.Second // one model tick (MinI = 3 ticks = the default 30 s)

// TestVerifC56Replay executes TLC timelines (ticks, ResolveNow, Close, lookup outcomes).
func TestVerifC56Replay(t *testing.T) {
	lines, err := vlib.ReadLines(vlib.Env("VERIF_BEHAVIOURS", "beh.ndjson"))
	if err != nil {
		t.Fatal(err)
	}
	tr, err := vlib.NewTrace(vlib.Env("VERIF_OUT", "trace.ndjson"))
	if err != nil {
		t.Fatal(err)
	}
	var sum c56Summary
	var cur *c56Env
	defer c56Install(&cur)()
	synctest.Test(t, func(t *testing.T) {
		for bi, ln := range lines {
			var steps []c56Step
			if err := json.Unmarshal(ln, &steps); err != nil {
				t.Fatal(err)
			}
			tr.Reset()
			sum.Behaviours++
			c56Guard(tr, &sum, func() {
				e := &c56Env{tr: tr, t0: time.Now(), gate: make(chan c56Outcome), addrs: []string{"10.0.0.1", "2001:db8::1"}}
				cur = e
				r, err := NewBuilder().Build(c56Target("verif.example:8080"), e, resolver.BuildOptions{DisableServiceConfig: true})
				if err != nil {
					panic(err)
				}
				e.quiescent()
				closed := false
				nfail := 0
				for _, st := range steps {
					info := map[string]any{"ev": "step", "a": st.A}
					switch st.A {
					case "tick":
						time.Sleep(c56Unit)
					case "rn":
						tr.Emit(map[string]any{"ev": "rn", "t": e.ms()})
						r.ResolveNow(resolver.ResolveNowOptions{})
						tr.Emit(map[string]any{"ev": "rn_ret", "t": e.ms()})
					case "close":
						e.closeRes(r)
						closed = true
					case "end":
						e.mu.Lock()
						inf := e.inflight
						e.mu.Unlock()
						if !inf {
							sum.Infeasible++
							info["infeasible"] = true
							break
						}
						o := c56Outcome{kind: "ok"}
						if !st.Ok {
							nfail++
							o.kind = []string{"fail", "badstate"}[(bi+nfail)%2]
						}
						e.gate <- o
					default:
						continue // internal steps of the model
					}
					tr.Emit(info)
					sum.Steps++
					e.quiescent()
				}
				if !closed {
					e.closeRes(r)
				}
				time.Sleep(300 * time.Second)
				e.quiescent()
				sum.Lookups += e.lookups
			})
		}
	})
	tr.Close()
	b, _ := json.Marshal(sum)
	fmt.Printf("VERIF_SUMMARY %s\n", b)
}

// TestVerifC56Random runs seeded random timelines at millisecond granularity with lookups
// of random duration and outcome.
func TestVerifC56Random(t *testing.T) {
	tr, err := vlib.NewTrace(vlib.Env("VERIF_OUT", "trace.ndjson"))
	if err != nil {
		t.Fatal(err)
	}
	n := vlib.EnvInt("VERIF_N", 100)
	seed := int64(vlib.EnvInt("VERIF_SEED", 1))
	gaps := []time.Duration{0, time.Millisecond, 640 * time.Millisecond, time.Second, 1500 * time.Millisecond, 2 * time.Second,
		5 * time.Second, 10 * time.Second, 29999 * time.Millisecond, 30 * time.Second, 30001 * time.Millisecond,
		45 * time.Second, 150 * time.Second}
	durs := []time.Duration{0, 0, 0, time.Millisecond, 500 * time.Millisecond, 3 * time.Second, 20 * time.Second, 45 * time.Second}
	var sum c56Summary
	var cur *c56Env
	defer c56Install(&cur)()
	synctest.Test(t, func(t *testing.T) {
		for round := 0; round < n; round++ {
			rng := rand.New(rand.NewSource(seed*7919 + int64(round)))
			lrng := rand.New(rand.NewSource(rng.Int63()))
			pOK := []int{20, 50, 80}[rng.Intn(3)]
			tr.Reset()
			sum.Behaviours++
			c56Guard(tr, &sum, func() {
				e := &c56Env{tr: tr, t0: time.Now(), addrs: []string{"10.0.0.1"}}
				e.policy = func() c56Outcome { // called on the watcher goroutine only
					o := c56Outcome{kind: "ok", dur: durs[lrng.Intn(len(durs))]}
					if k := lrng.Intn(100); k >= pOK {
						o.kind = "fail"
						if k%3 == 0 {
							o.kind = "badstate"
						}
					}
					return o
				}
				cur = e
				r, err := NewBuilder().Build(c56Target("verif.example"), e, resolver.BuildOptions{DisableServiceConfig: true})
				if err != nil {
					panic(err)
				}
				e.quiescent()
				closed := false
				ops := 5 + rng.Intn(25)
				for i := 0; i < ops && !closed; i++ {
					switch k := rng.Intn(20); {
					case k < 9:
						time.Sleep(gaps[rng.Intn(len(gaps))])
					case k < 19:
						tr.Emit(map[string]any{"ev": "rn", "t": e.ms()})
						r.ResolveNow(resolver.ResolveNowOptions{})
						tr.Emit(map[string]any{"ev": "rn_ret", "t": e.ms()})
					default:
						e.closeRes(r)
						closed = true
					}
					sum.Steps++
					e.quiescent()
				}
				if !closed {
					e.closeRes(r)
				}
				time.Sleep(300 * time.Second)
				e.quiescent()
				sum.Lookups += e.lookups
			})
		}
	})
	tr.Close()
	b, _ := json.Marshal(sum)
	fmt.Printf("VERIF_SUMMARY %s\n", b)
}

// ---------------------------------------------------------------------------------------
// target parsing / address formatting pairs

var c56Hosts = []string{"a", "a.b", "localhost", "1.2.3.4", "255.255.255.255", "256.1.1.1", "1.2.3", "1.2.3.4.5", "01.2.3.4",
	"1.2.3.04", "::1", "::", "2001:db8::1", "1:2:3:4:5:6:7:8", "1:2:3:4:5:6:7", "1:2:3:4:5:6:7::", "::2:3:4:5:6:7:8",
	"1:2:3:4:5:6:7:8::", "::ffff:1.2.3.4", "1:2:3:4:5:6:1.2.3.4", "1:2:3:4:5:6:7:1.2.3.4", "fe80::1%eth0", "fe80::1%",
	"1::2::3", "g::1", "12345::", "ABCD::ef", ":::", "1:2", "", "a%b", "1.2.3.4%eth0"}
var c56Ports = []string{"", "80", "0", "http", "65536", "443"}

func c56Targets(seed int64, nrand int, maxLen int) []string {
	seen := map[string]bool{}
	out := []string{}
	add := func(s string) {
		if !seen[s] {
			seen[s] = true
			out = append(out, s)
		}
	}
	for _, h := range c56Hosts {
		add(h)
		add("[" + h + "]")
		add("[" + h)
		add(h + "]")
		add(h + ":")
		add("[" + h + "]:")
		for _, p := range c56Ports {
			add(h + ":" + p)
			add("[" + h + "]:" + p)
			add("[" + h + "]" + p)
			add(h + ":" + p + ":" + p)
			add("[" + h + "]:" + p + ":")
		}
	}
	alpha := []byte("a1:[].")
	var rec func(prefix []byte)
	rec = func(prefix []byte) {
		add(string(prefix))
		if len(prefix) == maxLen {
			return
		}
		for _, c := range alpha {
			rec(append(append([]byte{}, prefix...), c))
		}
	}
	rec(nil)
	rng := rand.New(rand.NewSource(seed))
	alpha2 := []byte("a1f:[].%0:]:[")
	base := append([]string{}, out[:len(c56Hosts)*20]...)
	for i := 0; i < nrand; i++ {
		b := []byte(base[rng.Intn(len(base))])
		for k := rng.Intn(3); k >= 0; k-- {
			c := alpha2[rng.Intn(len(alpha2))]
			switch pos := rng.Intn(len(b) + 1); rng.Intn(3) {
			case 0:
				b = append(b[:pos], append([]byte{c}, b[pos:]...)...)
			case 1:
				if pos < len(b) {
					b[pos] = c
				}
			default:
				if pos < len(b) {
					b = append(b[:pos], b[pos+1:]...)
				}
			}
		}
		if len(b) <= 40 {
			add(string(b))
		}
	}
	return out
}

func c56ErrKind(err error) string {
	switch {
	case err == nil:
		return ""
	case errors.Is(err, internal.ErrMissingAddr):
		return "missing"
	case errors.Is(err, internal.ErrEndsWithColon):
		return "colon"
	}
	return "other"
}

// TestVerifC56Targets records (input, output) pairs of parseTarget, formatIP and of Build
// (the address emitted for IP-literal targets; the looked-up host and the emitted addresses
// for names).
func TestVerifC56Targets(t *testing.T) {
	tr, err := vlib.NewTrace(vlib.Env("VERIF_OUT", "pairs.ndjson"))
	if err != nil {
		t.Fatal(err)
	}
	seed := int64(vlib.EnvInt("VERIF_SEED", 1))
	targets := c56Targets(seed, vlib.EnvInt("VERIF_N", 500), vlib.EnvInt("VERIF_MAXLEN", 4))
	var sum c56Summary
	var cur *c56Env
	defer c56Install(&cur)()
	resolved := []string{"10.1.2.3", "2001:db8::7", "::ffff:1.2.3.4", "fe80::1%eth0"}
	res := [][]int{}
	for _, a := range resolved {
		res = append(res, vlib.Bytes(a))
	}
	synctest.Test(t, func(t *testing.T) {
		for _, tg := range targets {
			c56Guard(tr, &sum, func() {
				host, port, err := parseTarget(tg, defaultPort)
				tr.Emit(map[string]any{"ev": "parse", "t": vlib.Bytes(tg), "ok": err == nil, "host": vlib.Bytes(host),
					"port": vlib.Bytes(port), "err": c56ErrKind(err)})
				out, ferr := formatIP(tg)
				tr.Emit(map[string]any{"ev": "fmt", "a": vlib.Bytes(tg), "ok": ferr == nil, "out": vlib.Bytes(out)})
				sum.Pairs += 2

				e := &c56Env{tr: nil, t0: time.Now(), addrs: resolved}
				e.policy = func() c56Outcome { return c56Outcome{kind: "ok"} }
				cur = e
				r, berr := NewBuilder().Build(c56Target(tg), e, resolver.BuildOptions{DisableServiceConfig: true})
				ev := map[string]any{"ev": "build", "t": vlib.Bytes(tg), "ok": berr == nil, "err": c56ErrKind(berr)}
				if berr == nil {
					synctest.Wait()
					e.mu.Lock()
					ev["lookups"] = e.lookups
					ev["lhost"] = vlib.Bytes(e.lastHost)
					ems := [][]int{}
					if len(e.emits) > 0 {
						for _, a := range e.emits[0] {
							ems = append(ems, vlib.Bytes(a))
						}
					}
					ev["emitted"] = ems
					ev["nupd"] = len(e.emits)
					e.mu.Unlock()
					r.Close()
				}
				ev["resolved"] = res
				tr.Emit(ev)
				sum.Pairs++
			})
		}
	})
	tr.Close()
	b, _ := json.Marshal(sum)
	fmt.Printf("VERIF_SUMMARY %s\n", b)
}
