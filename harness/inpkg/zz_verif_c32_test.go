package grpc

// Verification driver for C32 (and the Done-on-not-ready clause of C23), DESIGN.md section
// "C23 / C32".  Overlaid into package grpc by /verif/lib/vcheck.py; never part of /repo.
//
// A TLC-generated schedule of specs/PickerWrapper.tla is forced onto real goroutines that call
// pickerWrapper.pick / updatePicker on a real pickerWrapper; the goroutines stop at the
// verifhook points "pw.load", "pw.wait", "pw.pick", "pw.ready" (pick) and "pw.close"
// (updatePicker, between Swap and close).  Every behaviour runs inside its own
// testing/synctest bubble: after each granted step the driver calls synctest.Wait(), so a
// goroutine that is neither at a hook nor finished is PARKED inside pick's select (the only
// place where pick blocks) - that is how "parked" is told from "arrived at pw.wait".
// The driver only drives and records; the trace is judged by specs/PickerWrapperTrace.tla.

import (
	"context"
	"encoding/json"
	"errors"
	"fmt"
	"os"
	"sort"
	"strconv"
	"strings"
	"sync"
	"testing"
	"testing/synctest"

	"google.golang.org/grpc/balancer"
	"google.golang.org/grpc/codes"
	"google.golang.org/grpc/connectivity"
	"google.golang.org/grpc/internal/transport"
	"google.golang.org/grpc/internal/verifhook"
	"google.golang.org/grpc/internal/zzverif/vlib"
	"google.golang.org/grpc/metadata"
	"google.golang.org/grpc/status"
)

type c32Step struct {
	T      string         `json:"t"`
	P      string         `json:"p"`
	Arg    string         `json:"arg"`
	Nondet bool           `json:"nondet"`
	Exp    map[string]any `json:"exp"`
}

type c32Rpc struct {
	Name string `json:"name"`
	FF   bool   `json:"ff"`
}

type c32Behaviour struct {
	Rpcs  []c32Rpc  `json:"rpcs"`
	Codes []int     `json:"codes"` // status code of the "status" picker of generation g (index g-1, cyclic)
	Cause bool      `json:"cause"` // contexts are cancelled with a custom cause (context.WithCancelCause)
	Steps []c32Step `json:"steps"`
}

// ---------------------------------------------------------------- gate scheduler (synctest flavour)

type c32Sched struct {
	mu     sync.Mutex
	tidOf  map[int64]string
	at     map[string]string // hook the thread waits at; "" = running / blocked elsewhere; "end" = finished
	grant  map[string]chan struct{}
	free   bool
	ended  bool
	updRet int // updatePicker calls that have returned
	events []map[string]any
	wg     sync.WaitGroup
}

func c32NewSched() *c32Sched {
	return &c32Sched{tidOf: map[int64]string{}, at: map[string]string{}, grant: map[string]chan struct{}{}}
}

func (s *c32Sched) log(ev map[string]any) {
	s.mu.Lock()
	if !s.ended { // nothing is recorded during tear-down
		s.events = append(s.events, ev)
	}
	s.mu.Unlock()
}

func (s *c32Sched) hook(p string) {
	s.mu.Lock()
	tid, ok := s.tidOf[vlib.Goid()]
	if !ok || s.free {
		s.mu.Unlock()
		return
	}
	s.at[tid] = p
	ch := s.grant[tid]
	s.mu.Unlock()
	<-ch
}

func (s *c32Sched) spawn(tid string, body func()) {
	s.mu.Lock()
	s.grant[tid] = make(chan struct{})
	s.at[tid] = ""
	s.mu.Unlock()
	s.wg.Add(1)
	go func() {
		defer s.wg.Done()
		id := vlib.Goid()
		s.mu.Lock()
		s.tidOf[id] = tid
		s.mu.Unlock()
		defer func() {
			if x := recover(); x != nil {
				s.log(map[string]any{"ev": "panic", "t": tid, "msg": fmt.Sprint(x)})
			}
			s.mu.Lock()
			delete(s.tidOf, id)
			s.at[tid] = "end"
			s.mu.Unlock()
		}()
		body()
	}()
	synctest.Wait()
}

func (s *c32Sched) isEnded() bool {
	s.mu.Lock()
	defer s.mu.Unlock()
	return s.ended
}

func (s *c32Sched) where(tid string) string {
	s.mu.Lock()
	defer s.mu.Unlock()
	return s.at[tid]
}

// step grants thread tid (which must wait at p) one step and waits for quiescence.
func (s *c32Sched) step(tid, p string) error {
	s.mu.Lock()
	cur := s.at[tid]
	ch := s.grant[tid]
	if cur != p {
		s.mu.Unlock()
		return fmt.Errorf("expects %s at %s but it is at %q", tid, p, cur)
	}
	s.at[tid] = ""
	s.mu.Unlock()
	ch <- struct{}{}
	synctest.Wait()
	return nil
}

func (s *c32Sched) release() {
	s.mu.Lock()
	if !s.free {
		s.free = true
		for _, ch := range s.grant {
			close(ch)
		}
	}
	s.mu.Unlock()
}

// ---------------------------------------------------------------- scripted environment

type c32Transport struct {
	transport.ClientTransport
	name string
}

type c32Env struct {
	s      *c32Sched
	mu     sync.Mutex
	nextID int
	scs    map[string]*acBalancerWrapper
	trs    map[string]*c32Transport
	loaded map[string]int // generation each pick goroutine loaded last (observed by the driver at its "load" step)
}

// c32Picker is a stateful picker: what it returns (kind, code) is controlled by the driver and
// may change between two publications of the same object (`reswap`).  label is the number of the
// publication that last set its state (only used in error messages).
type c32Picker struct {
	env   *c32Env
	label int
	kind  string
	code  int
}

func (p *c32Picker) Pick(info balancer.PickInfo) (balancer.PickResult, error) {
	e := p.env
	e.mu.Lock()
	e.nextID++
	id := e.nextID
	e.mu.Unlock()
	r := strings.TrimPrefix(info.FullMethodName, "/verif/")
	e.mu.Lock()
	gen := e.loaded[r]
	e.mu.Unlock()
	ev := map[string]any{"ev": "picker_call", "r": r, "g": gen, "kind": p.kind, "id": id, "sc": "", "code": 0, "msg": ""}
	switch p.kind {
	case "ok", "notready":
		sc := "A"
		if p.kind == "notready" {
			sc = "B"
		}
		ev["sc"] = sc
		e.s.log(ev)
		return balancer.PickResult{
			SubConn:  e.scs[sc],
			Metadata: metadata.Pairs("verif-id", strconv.Itoa(id)),
			Done: func(di balancer.DoneInfo) {
				e.s.log(map[string]any{"ev": "done", "id": id, "err": di.Err != nil,
					"sent": di.BytesSent, "recv": di.BytesReceived})
			},
		}, nil
	case "nosc":
		e.s.log(ev)
		return balancer.PickResult{}, balancer.ErrNoSubConnAvailable
	case "status":
		ev["code"] = p.code
		ev["msg"] = "S" + strconv.Itoa(p.label)
		e.s.log(ev)
		return balancer.PickResult{}, status.Error(codes.Code(p.code), "S"+strconv.Itoa(p.label))
	default: // "err"
		ev["msg"] = "E" + strconv.Itoa(p.label)
		e.s.log(ev)
		return balancer.PickResult{}, errors.New("E" + strconv.Itoa(p.label))
	}
}

func c32SetReady(e *c32Env, sc string, ready bool) {
	ac := e.scs[sc].ac
	if ready {
		e.s.log(map[string]any{"ev": "sc_r_begin", "sc": sc})
	}
	ac.mu.Lock()
	if ready {
		ac.state = connectivity.Ready
	} else {
		ac.state = connectivity.Connecting
	}
	ac.mu.Unlock()
	if !ready {
		e.s.log(map[string]any{"ev": "sc_nr_end", "sc": sc})
	}
}

func c32Closed(ch chan struct{}) bool {
	select {
	case <-ch:
		return true
	default:
		return false
	}
}

func c32SafeClose(ch chan struct{}) {
	defer func() { recover() }()
	if !c32Closed(ch) {
		close(ch)
	}
}

// ---------------------------------------------------------------- one behaviour

func c32RunBehaviour(b *c32Behaviour) (events []map[string]any, outcome string) {
	s := c32NewSched()
	env := &c32Env{s: s, scs: map[string]*acBalancerWrapper{}, trs: map[string]*c32Transport{}, loaded: map[string]int{}}
	for _, n := range []string{"A", "B"} {
		tr := &c32Transport{name: "t" + n}
		env.trs[n] = tr
		env.scs[n] = &acBalancerWrapper{ac: &addrConn{state: connectivity.Ready, transport: tr}}
	}
	c32SetReady(env, "B", false)

	pw := newPickerWrapper()
	verifhook.Set(func(p string, o any) {
		if o != any(pw) || !strings.HasPrefix(p, "pw.") {
			return
		}
		s.hook(p[3:])
	})
	defer verifhook.Set(nil)

	gens := []*pickerGeneration{pw.pickerGen.Load()}
	cancels := map[string]func(){}
	ready := map[string]bool{"A": true, "B": false}
	parked := map[string]bool{}
	waiting := map[string]bool{} // granted at "wait" / parked: the next arrival at "load" is an unblock
	var names []string

	for _, r := range b.Rpcs {
		r := r
		names = append(names, r.Name)
		ctx, cancelCause := context.WithCancelCause(context.Background())
		if b.Cause {
			cancels[r.Name] = func() { cancelCause(errors.New("verif: custom cancel cause")) }
		} else {
			cancels[r.Name] = func() { cancelCause(nil) }
		}
		s.spawn(r.Name, func() {
			s.hook("start")
			s.log(map[string]any{"ev": "pick_start", "r": r.Name, "ff": r.FF})
			p, err := pw.pick(ctx, r.FF, balancer.PickInfo{FullMethodName: "/verif/" + r.Name, Ctx: ctx})
			ev := map[string]any{"ev": "pick_ret", "r": r.Name, "ok": err == nil, "code": 0, "msg": "", "tr": "",
				"id": 0, "drop": false, "blocked": p.blocked}
			if err != nil {
				if de, ok := err.(dropError); ok { // as newClientStream / csAttempt.getTransport do
					err = de.error
					ev["drop"] = true
				}
				st, isSt := status.FromError(err)
				ev["code"] = int(st.Code())
				ev["msg"] = st.Message()
				ev["isstatus"] = isSt
			} else {
				ev["tr"] = "other"
				for n, tr := range env.trs {
					if p.transport == transport.ClientTransport(tr) {
						ev["tr"] = "t" + n
					}
				}
				if v := p.result.Metadata.Get("verif-id"); len(v) == 1 {
					ev["id"], _ = strconv.Atoi(v[0])
				}
			}
			s.log(ev)
		})
	}
	nswaps := 0
	for _, st := range b.Steps {
		if st.P == "swap" || st.P == "reswap" {
			nswaps++
		}
	}
	var nextKind string
	nextSame := false // re-publish the picker object that was published last
	var lastPicker *c32Picker
	// curGen maps the wrapper's current pickerGeneration object to its number (its position in
	// the list of generation objects the driver has seen installed).
	curGen := func() int {
		pg := pw.pickerGen.Load()
		if pg == nil {
			return -1
		}
		for i, x := range gens {
			if x == pg {
				return i
			}
		}
		gens = append(gens, pg)
		return len(gens) - 1
	}
	s.spawn("u", func() {
		// +12: the continuation after a drift may publish more often than the schedule
		for g := 1; g <= nswaps+12; g++ {
			s.hook("swap")
			if s.isEnded() {
				return
			}
			code := 14
			if len(b.Codes) > 0 {
				code = b.Codes[(g-1)%len(b.Codes)]
			}
			p := lastPicker
			if nextSame && p != nil {
				// the same object, whose state has changed since it was published
				p.label, p.kind, p.code = g, nextKind, code
			} else {
				p = &c32Picker{env: env, label: g, kind: nextKind, code: code}
			}
			lastPicker = p
			s.log(map[string]any{"ev": "upd_start", "g": g, "same": nextSame})
			pw.updatePicker(p)
			s.mu.Lock()
			s.updRet++
			s.mu.Unlock()
		}
	})

	// observe is called at quiescence: it logs the Level-A observations `parked` / `unblocked`
	// and returns the model-level pc of every pick goroutine.
	updLogged := 0
	observe := func() map[string]string {
		pcs := map[string]string{}
		defer func() {
			s.mu.Lock()
			n := s.updRet
			s.mu.Unlock()
			for ; updLogged < n; updLogged++ {
				s.log(map[string]any{"ev": "upd_end", "g": updLogged + 1})
			}
		}()
		for _, r := range names {
			at := s.where(r)
			switch at {
			case "":
				pcs[r] = "parked"
				if !parked[r] {
					parked[r] = true
					s.log(map[string]any{"ev": "parked", "r": r})
				}
			case "end":
				pcs[r] = "ret"
				parked[r], waiting[r] = false, false
			default:
				pcs[r] = at
				if (parked[r] || waiting[r]) && at == "load" {
					s.log(map[string]any{"ev": "unblocked", "r": r})
				}
				parked[r], waiting[r] = false, false
			}
		}
		return pcs
	}
	observe()

	outcome = "ok"
	// exec performs one step (thread step or environment action), records the Level-A
	// observations around it and returns the model-level pcs at the following quiescence.
	exec := func(st *c32Step) (map[string]string, error) {
		s.log(map[string]any{"ev": "at", "t": st.T, "p": st.P, "arg": st.Arg})
		var err error
		switch st.P {
		case "cancel":
			s.log(map[string]any{"ev": "cancel", "r": st.Arg})
			cancels[st.Arg]()
			synctest.Wait()
		case "flip":
			ready[st.Arg] = !ready[st.Arg]
			c32SetReady(env, st.Arg, ready[st.Arg])
		case "swap", "reswap":
			nextKind, nextSame = st.Arg, st.P == "reswap"
			if err = s.step("u", "swap"); err == nil && s.where("u") == "close" {
				// the updater is between Swap and close
				s.log(map[string]any{"ev": "swapped", "g": curGen()})
			}
		case "close":
			err = s.step("u", "close")
		case "load":
			// nothing else runs: the generation the goroutine loads is the current one
			env.mu.Lock()
			env.loaded[st.T] = curGen()
			env.mu.Unlock()
			err = s.step(st.T, st.P)
		case "wait":
			waiting[st.T] = true
			err = s.step(st.T, st.P)
		default:
			err = s.step(st.T, st.P)
		}
		if err != nil {
			return nil, err
		}
		pcs := observe()
		if st.P == "cancel" {
			s.log(map[string]any{"ev": "cancel_done", "r": st.Arg})
		}
		return pcs, nil
	}
	drifted := ""
stepLoop:
	for i := range b.Steps {
		st := &b.Steps[i]
		pcs, err := exec(st)
		if err != nil {
			outcome = fmt.Sprintf("drift: step %d: %v", i, err)
			drifted = st.T
			break
		}
		// Level I: compare the private state with the specification's state.
		if st.Exp != nil {
			got := map[string]any{"cur": curGen(), "upc": "idle"}
			if s.where("u") == "close" {
				got["upc"] = "close"
			}
			var cl []string
			for g, pg := range gens {
				if c32Closed(pg.blockingCh) {
					cl = append(cl, strconv.Itoa(g))
				}
			}
			got["closed"] = strings.Join(cl, ",")
			var ps []string
			for _, r := range names {
				ps = append(ps, r+"="+pcs[r])
			}
			sort.Strings(ps)
			got["pc"] = strings.Join(ps, ",")
			for k, want := range st.Exp {
				if fmt.Sprint(got[k]) != fmt.Sprint(want) {
					if st.Nondet && k == "pc" {
						outcome = fmt.Sprintf("nondet: step %d (%s@%s) select chose the other ready case", i, st.T, st.P)
					} else {
						outcome = fmt.Sprintf("drift: step %d (%s@%s) %s = %v, spec says %v", i, st.T, st.P, k, got[k], want)
						drifted = st.T
					}
					break stepLoop
				}
			}
		}
	}
	// The code left the model: the schedule cannot be followed any further.  Keep going for a
	// few more steps, still one goroutine at a time (so the monitor's observations stay exact):
	// the pick goroutines first (the one that drifted first), then the updater.
	if drifted != "" {
		order := append([]string{drifted}, names...)
		for k := 0; k < 12; k++ {
			var st *c32Step
			for _, r := range order {
				switch at := s.where(r); at {
				case "start", "load", "wait", "pick", "ready":
					st = &c32Step{T: r, P: at}
				}
				if st != nil {
					break
				}
			}
			if st == nil {
				switch at := s.where("u"); at {
				case "swap":
					st = &c32Step{T: "u", P: "swap", Arg: "nosc"}
				case "close":
					st = &c32Step{T: "u", P: "close"}
				}
			}
			if st == nil {
				break
			}
			if _, err := exec(st); err != nil {
				break
			}
		}
	}
	s.log(map[string]any{"ev": "end"})
	// tear down: nothing below is recorded or judged
	s.mu.Lock()
	s.ended = true
	s.mu.Unlock()
	func() {
		defer func() { recover() }()
		pw.close() // a pick that spins (mutants) ends with ErrClientConnClosing
	}()
	s.release()
	for _, c := range cancels {
		c()
	}
	for _, pg := range gens {
		c32SafeClose(pg.blockingCh)
	}
	s.wg.Wait()
	return s.events, outcome
}

// TestVerifC32Replay forces every behaviour of VERIF_BEHAVIOURS onto a real pickerWrapper.
func TestVerifC32Replay(t *testing.T) {
	lines, err := vlib.ReadLines(os.Getenv("VERIF_BEHAVIOURS"))
	if err != nil {
		t.Fatal(err)
	}
	tr, err := vlib.NewTrace(os.Getenv("VERIF_OUT"))
	if err != nil {
		t.Fatal(err)
	}
	defer tr.Close()
	drift, nondet := 0, 0
	var notes []string
	for i, ln := range lines {
		var b c32Behaviour
		if err := json.Unmarshal(ln, &b); err != nil {
			t.Fatal(err)
		}
		var ev []map[string]any
		outcome := "bubble-failed"
		func() {
			defer func() {
				if x := recover(); x != nil {
					outcome = fmt.Sprintf("infeasible: bubble panic: %v", x)
				}
			}()
			synctest.Test(t, func(*testing.T) { ev, outcome = c32RunBehaviour(&b) })
		}()
		if outcome != "ok" {
			if strings.HasPrefix(outcome, "nondet") {
				nondet++
			} else {
				drift++
				if len(notes) < 5 {
					notes = append(notes, fmt.Sprintf("behaviour %d: %s", i, outcome))
				}
			}
		}
		tr.Emit(map[string]any{"ev": "reset", "b": i, "outcome": outcome})
		for _, e := range ev {
			tr.Emit(e)
		}
	}
	sum, _ := json.Marshal(map[string]any{"behaviours": len(lines), "drift": drift, "nondet": nondet, "notes": notes})
	fmt.Printf("VERIF_SUMMARY %s\n", sum)
}
