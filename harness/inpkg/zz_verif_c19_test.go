package grpc

// Driver for C19(b,c): steps the real retryThrottler (created by the real applyServiceConfigAndBalancer from a
// parsed service config) through every success/failure history of a given length, and feeds parseServiceConfig a
// table of retryThrottling / retryPolicy values.  It only records; specs/RetryThrottleTrace.tla judges.

import (
	"encoding/json"
	"fmt"
	"os"
	"strings"
	"testing"

	"google.golang.org/grpc/credentials/insecure"
	"google.golang.org/grpc/internal/zzverif/vlib"
)

type c19Cfg struct {
	Max   int `json:"max"`   // maxTokens in 1/8 tokens
	Ratio int `json:"ratio"` // tokenRatio in 1/8 tokens
}

func c19Eighths(x float64) (int, int) {
	v := x * 8
	n := int(v)
	if float64(n) == v {
		return n, 1
	}
	return n, 0
}

func c19Dec(x, scale int) string {
	neg := ""
	if x < 0 {
		neg, x = "-", -x
	}
	return fmt.Sprintf("%s%d.%03d", neg, x/scale, (x%scale)*1000/scale)
}

// c19Throttler builds a ClientConn and lets the real code create the throttler for the given service config.
func c19Throttler(t *testing.T, js string) (*retryThrottler, func()) {
	cc, err := NewClient("passthrough:///c19", WithTransportCredentials(insecure.NewCredentials()))
	if err != nil {
		t.Fatal(err)
	}
	pr := parseServiceConfig(js, defaultMaxCallAttempts)
	if pr.Err != nil {
		t.Fatalf("service config %s rejected: %v", js, pr.Err)
	}
	cc.mu.Lock()
	cc.applyServiceConfigAndBalancer(pr.Config.(*ServiceConfig), nil)
	cc.mu.Unlock()
	rt, _ := cc.retryThrottler.Load().(*retryThrottler)
	return rt, func() { cc.Close() }
}

// TestVerifC19Throttle: VERIF_BEHAVIOURS holds one {"max","ratio"} object per line; VERIF_N is the history length.
func TestVerifC19Throttle(t *testing.T) {
	lines, err := vlib.ReadLines(os.Getenv("VERIF_BEHAVIOURS"))
	if err != nil {
		t.Fatal(err)
	}
	tr, err := vlib.NewTrace(os.Getenv("VERIF_OUT"))
	if err != nil {
		t.Fatal(err)
	}
	n := vlib.EnvInt("VERIF_N", 8)
	hist := 0
	for _, ln := range lines {
		var c c19Cfg
		if err := json.Unmarshal(ln, &c); err != nil {
			t.Fatal(err)
		}
		js := fmt.Sprintf(`{"retryThrottling":{"maxTokens":%s,"tokenRatio":%s}}`, c19Dec(c.Max, 8), c19Dec(c.Ratio, 8))
		for h := 0; h < 1<<n; h++ {
			rt, done := c19Throttler(t, js)
			tr.Emit(map[string]any{"ev": "reset", "max": c.Max, "ratio": c.Ratio})
			if rt == nil {
				tr.Emit(map[string]any{"ev": "panic", "what": "no throttler for " + js})
				done()
				continue
			}
			for i := 0; i < n; i++ {
				if h>>i&1 == 1 {
					refused := rt.throttle()
					rt.mu.Lock()
					tok, exact := c19Eighths(rt.tokens)
					rt.mu.Unlock()
					tr.Emit(map[string]any{"ev": "f", "refused": refused, "tok": tok, "exact": exact})
				} else {
					rt.successfulRPC()
					rt.mu.Lock()
					tok, exact := c19Eighths(rt.tokens)
					rt.mu.Unlock()
					tr.Emit(map[string]any{"ev": "s", "tok": tok, "exact": exact})
				}
			}
			done()
			hist++
		}
	}
	if err := tr.Close(); err != nil {
		t.Fatal(err)
	}
	fmt.Printf("VERIF_SUMMARY {\"histories\":%d,\"events\":%d}\n", hist, tr.N)
}

type c19Row struct {
	Kind   string `json:"kind"`
	Max    int    `json:"max"`    // thr: maxTokens in 1/1000
	Ratio  int    `json:"ratio"`  // thr: tokenRatio in 1/1000
	Att    int    `json:"att"`    // pol: maxAttempts
	Init   int    `json:"init"`   // pol: initialBackoff ms
	Maxb   int    `json:"maxb"`   // pol: maxBackoff ms
	Mult   int    `json:"mult"`   // pol: backoffMultiplier in 1/1000
	NCodes int    `json:"ncodes"` // pol: number of retryable codes
	Cap    int    `json:"cap"`    // pol: channel limit given to the parser
	MC     int    `json:"mc"`     // thr: 1 = the service config also has a (empty) methodConfig list
}

// TestVerifC19Parse: the table of VERIF_BEHAVIOURS through the real parseServiceConfig.
func TestVerifC19Parse(t *testing.T) {
	lines, err := vlib.ReadLines(os.Getenv("VERIF_BEHAVIOURS"))
	if err != nil {
		t.Fatal(err)
	}
	tr, err := vlib.NewTrace(os.Getenv("VERIF_OUT"))
	if err != nil {
		t.Fatal(err)
	}
	tr.Emit(map[string]any{"ev": "reset", "max": 8, "ratio": 8})
	for _, ln := range lines {
		var r c19Row
		if err := json.Unmarshal(ln, &r); err != nil {
			t.Fatal(err)
		}
		switch r.Kind {
		case "thr":
			mc := ""
			if r.MC == 1 {
				mc = `"methodConfig":[],`
			}
			js := fmt.Sprintf(`{%s"retryThrottling":{"maxTokens":%s,"tokenRatio":%s}}`, mc, c19Dec(r.Max, 1000), c19Dec(r.Ratio, 1000))
			pr := parseServiceConfig(js, defaultMaxCallAttempts)
			tr.Emit(map[string]any{"ev": "thr", "max": r.Max, "ratio": r.Ratio, "mc": r.MC, "ok": pr.Err == nil})
		case "pol":
			codes := []string{`"UNAVAILABLE"`, `"ABORTED"`, `"INTERNAL"`}[:r.NCodes]
			js := fmt.Sprintf(`{"methodConfig":[{"name":[{}],"retryPolicy":{"maxAttempts":%d,"initialBackoff":"%ss","maxBackoff":"%ss","backoffMultiplier":%s,"retryableStatusCodes":[%s]}}]}`,
				r.Att, c19Dec(r.Init, 1000), c19Dec(r.Maxb, 1000), c19Dec(r.Mult, 1000), strings.Join(codes, ","))
			pr := parseServiceConfig(js, r.Cap)
			eff := 0
			if pr.Err == nil {
				if mc, ok := pr.Config.(*ServiceConfig).Methods[""]; ok && mc.RetryPolicy != nil {
					eff = mc.RetryPolicy.MaxAttempts
				}
			}
			tr.Emit(map[string]any{"ev": "pol", "att": r.Att, "init": r.Init, "maxb": r.Maxb, "mult": r.Mult,
				"ncodes": r.NCodes, "cap": r.Cap, "ok": pr.Err == nil, "eff": eff})
		}
	}
	if err := tr.Close(); err != nil {
		t.Fatal(err)
	}
	fmt.Printf("VERIF_SUMMARY {\"rows\":%d}\n", len(lines))
}
