// Package xdsmt holds the abstract descriptions of xDS matchers shared by the C46 / C47 drivers
// (internal/xds/matcher, xdsresource, resolver): how a description is turned into the real
// matcher and how it is logged for the TLA+ monitor (specs/Matchers.tla).  It never judges.
package xdsmt

import (
	"fmt"
	"math/rand"
	"regexp"

	v3matcherpb "github.com/envoyproxy/go-control-plane/envoy/type/matcher/v3"
	"google.golang.org/grpc/internal/xds/matcher"
	"google.golang.org/grpc/internal/zzverif/vlib"
	"google.golang.org/grpc/metadata"
)

// Symbols of the byte-string alphabet: the two non-ASCII runes are those whose Unicode case mapping
// lands in ASCII (KELVIN SIGN lowers to k, LONG S uppers to S).
var (
	Kelvin = "K"
	LongS  = "ſ"
	Small  = []string{"a", "A", "k", "s", Kelvin, LongS}
	Big    = []string{"a", "A", "k", "s", Kelvin, LongS, "1", ","}
)

// Strs returns every concatenation of at most n symbols.
func Strs(sym []string, n int) []string {
	out := []string{""}
	prev := []string{""}
	for i := 0; i < n; i++ {
		var cur []string
		for _, p := range prev {
			for _, s := range sym {
				cur = append(cur, p+s)
			}
		}
		out = append(out, cur...)
		prev = cur
	}
	return out
}

// RandStr returns a random concatenation of k symbols.
func RandStr(r *rand.Rand, sym []string, k int) string {
	s := ""
	for i := 0; i < k; i++ {
		s += sym[r.Intn(len(sym))]
	}
	return s
}

// RxText is the text of fixed regular expression id (1..3); the monitor implements them as predicates.
func RxText(id int) string {
	switch id {
	case 1:
		return "a+"
	case 2:
		return ".*1"
	default:
		return "k?A"
	}
}

// Regex compiles regular expression id the way the xDS client does (full match).
func Regex(id int) *regexp.Regexp {
	re, err := matcher.CompileSafeRegex(RxText(id))
	if err != nil {
		panic(err)
	}
	return re
}

// SM describes a StringMatcher.
type SM struct {
	Kind string // exact prefix suffix contains regex
	Pat  string
	IC   bool
	Rx   int
}

// JSON is the monitor's view.
func (s SM) JSON() map[string]any {
	return map[string]any{"kind": s.Kind, "pat": vlib.Bytes(s.Pat), "ic": s.IC, "rx": s.Rx}
}

// Valid reports whether the xDS proto conversion accepts the description.
func (s SM) Valid() bool {
	return s.Kind == "exact" || s.Kind == "regex" || s.Pat != ""
}

// Build constructs the real matcher; viaProto selects StringMatcherFromProto (only for Valid descriptions).
func (s SM) Build(viaProto bool) matcher.StringMatcher {
	if viaProto && s.Valid() {
		p := &v3matcherpb.StringMatcher{IgnoreCase: s.IC}
		switch s.Kind {
		case "exact":
			p.MatchPattern = &v3matcherpb.StringMatcher_Exact{Exact: s.Pat}
		case "prefix":
			p.MatchPattern = &v3matcherpb.StringMatcher_Prefix{Prefix: s.Pat}
		case "suffix":
			p.MatchPattern = &v3matcherpb.StringMatcher_Suffix{Suffix: s.Pat}
		case "contains":
			p.MatchPattern = &v3matcherpb.StringMatcher_Contains{Contains: s.Pat}
		case "regex":
			p.MatchPattern = &v3matcherpb.StringMatcher_SafeRegex{SafeRegex: &v3matcherpb.RegexMatcher{Regex: RxText(s.Rx)}}
		}
		m, err := matcher.StringMatcherFromProto(p)
		if err != nil {
			panic(fmt.Sprintf("StringMatcherFromProto(%+v): %v", s, err))
		}
		return m
	}
	switch s.Kind {
	case "exact":
		return matcher.NewExactStringMatcher(s.Pat, s.IC)
	case "prefix":
		return matcher.NewPrefixStringMatcher(s.Pat, s.IC)
	case "suffix":
		return matcher.NewSuffixStringMatcher(s.Pat, s.IC)
	case "contains":
		return matcher.NewContainsStringMatcher(s.Pat, s.IC)
	case "regex":
		return matcher.NewRegexStringMatcher(Regex(s.Rx))
	}
	panic("bad SM kind " + s.Kind)
}

// HM describes a header matcher.
type HM struct {
	Kind   string // exact prefix suffix contains regex range present string
	Key    string
	Inv    bool
	Pat    string
	Rx     int
	Lo, Hi int64
	Want   bool
	SM     SM
}

// JSON is the monitor's view (all fields always present: TLA+ records are type-stable).
func (h HM) JSON() map[string]any {
	sm := h.SM
	if sm.Kind == "" {
		sm.Kind = "exact"
	}
	return map[string]any{"kind": h.Kind, "key": h.Key, "inv": h.Inv, "pat": vlib.Bytes(h.Pat), "rx": h.Rx,
		"lo": h.Lo, "hi": h.Hi, "want": h.Want, "sm": sm.JSON()}
}

// Build constructs the real header matcher.
func (h HM) Build() matcher.HeaderMatcher {
	switch h.Kind {
	case "exact":
		return matcher.NewHeaderExactMatcher(h.Key, h.Pat, h.Inv)
	case "prefix":
		return matcher.NewHeaderPrefixMatcher(h.Key, h.Pat, h.Inv)
	case "suffix":
		return matcher.NewHeaderSuffixMatcher(h.Key, h.Pat, h.Inv)
	case "contains":
		return matcher.NewHeaderContainsMatcher(h.Key, h.Pat, h.Inv)
	case "regex":
		return matcher.NewHeaderRegexMatcher(h.Key, Regex(h.Rx), h.Inv)
	case "range":
		return matcher.NewHeaderRangeMatcher(h.Key, h.Lo, h.Hi, h.Inv)
	case "present":
		return matcher.NewHeaderPresentMatcher(h.Key, h.Want, h.Inv)
	case "string":
		return matcher.NewHeaderStringMatcher(h.Key, h.SM.Build(false), h.Inv)
	}
	panic("bad HM kind " + h.Kind)
}

// MDE is one metadata entry (key with all its values, in order).
type MDE struct {
	K  string
	Vs []string
}

// MD builds the real metadata.
func MD(es []MDE) metadata.MD {
	md := metadata.MD{}
	for _, e := range es {
		md[e.K] = append([]string(nil), e.Vs...)
	}
	return md
}

// MDJSON is the monitor's view of the metadata.
func MDJSON(es []MDE) []any {
	out := []any{}
	for _, e := range es {
		vs := []any{}
		for _, v := range e.Vs {
			vs = append(vs, vlib.Bytes(v))
		}
		out = append(out, map[string]any{"k": e.K, "vs": vs})
	}
	return out
}

// PM describes a path matcher (built inside xdsresource).
type PM struct {
	Kind string // exact prefix regex
	Pat  string
	CI   bool
	Rx   int
}

// JSON is the monitor's view.
func (p PM) JSON() map[string]any {
	return map[string]any{"kind": p.Kind, "pat": vlib.Bytes(p.Pat), "ci": p.CI, "rx": p.Rx}
}

// Safe runs f and logs a panic as an event.
func Safe(tr *vlib.Trace, what string, f func()) {
	defer func() {
		if r := recover(); r != nil {
			tr.Emit(map[string]any{"ev": "panic", "what": what, "r": fmt.Sprint(r)})
		}
	}()
	f()
}
