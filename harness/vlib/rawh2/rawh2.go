// Package rawh2 is a small scriptable raw HTTP/2 endpoint (x/net/http2 Framer + hpack) used by the
// e2e drivers as a misbehaving or precisely-timed peer of the real grpc-go client / server
// transports.  It works inside a testing/synctest bubble over test/bufconn or net.Pipe.
package rawh2

import (
	"bytes"
	"encoding/binary"
	"fmt"
	"io"
	"net"
	"sync"

	"golang.org/x/net/http2"
	"golang.org/x/net/http2/hpack"
)

// Peer is one side of a raw HTTP/2 connection.
type Peer struct {
	Conn net.Conn
	Fr   *http2.Framer
	wmu  sync.Mutex
	hbuf bytes.Buffer
	enc  *hpack.Encoder
}

func newPeer(c net.Conn) *Peer {
	p := &Peer{Conn: c, Fr: http2.NewFramer(c, c)}
	p.Fr.ReadMetaHeaders = hpack.NewDecoder(4096, nil)
	p.Fr.MaxHeaderListSize = 1 << 24
	p.Fr.SetMaxReadFrameSize(1 << 24)
	p.enc = hpack.NewEncoder(&p.hbuf)
	return p
}

// NewServerPeer consumes the client preface from c.  It does NOT send SETTINGS: call
// WriteSettings yourself (the grpc client waits for the server's SETTINGS frame).
func NewServerPeer(c net.Conn) (*Peer, error) {
	pre := make([]byte, len(http2.ClientPreface))
	if _, err := io.ReadFull(c, pre); err != nil {
		return nil, err
	}
	if string(pre) != http2.ClientPreface {
		return nil, fmt.Errorf("rawh2: bad client preface %q", pre)
	}
	return newPeer(c), nil
}

// NewClientPeer writes the client preface on c (no SETTINGS).
func NewClientPeer(c net.Conn) (*Peer, error) {
	if _, err := c.Write([]byte(http2.ClientPreface)); err != nil {
		return nil, err
	}
	return newPeer(c), nil
}

// Locked runs f with the write lock held (all Write* helpers take it themselves).
func (p *Peer) Locked(f func(fr *http2.Framer) error) error {
	p.wmu.Lock()
	defer p.wmu.Unlock()
	return f(p.Fr)
}

// WriteSettings writes a SETTINGS frame.
func (p *Peer) WriteSettings(s ...http2.Setting) error {
	return p.Locked(func(fr *http2.Framer) error { return fr.WriteSettings(s...) })
}

// WriteSettingsAck writes a SETTINGS ACK.
func (p *Peer) WriteSettingsAck() error {
	return p.Locked(func(fr *http2.Framer) error { return fr.WriteSettingsAck() })
}

// WriteHeaders writes one HEADERS frame (END_HEADERS set) with the given name/value pairs.
func (p *Peer) WriteHeaders(id uint32, endStream bool, kv ...string) error {
	p.wmu.Lock()
	defer p.wmu.Unlock()
	p.hbuf.Reset()
	for i := 0; i+1 < len(kv); i += 2 {
		p.enc.WriteField(hpack.HeaderField{Name: kv[i], Value: kv[i+1]})
	}
	return p.Fr.WriteHeaders(http2.HeadersFrameParam{StreamID: id, BlockFragment: p.hbuf.Bytes(), EndHeaders: true, EndStream: endStream})
}

// WriteData writes one DATA frame.
func (p *Peer) WriteData(id uint32, endStream bool, b []byte) error {
	return p.Locked(func(fr *http2.Framer) error { return fr.WriteData(id, endStream, b) })
}

// WriteDataPadded writes one padded DATA frame.
func (p *Peer) WriteDataPadded(id uint32, endStream bool, b, pad []byte) error {
	return p.Locked(func(fr *http2.Framer) error { return fr.WriteDataPadded(id, endStream, b, pad) })
}

// WriteRST writes RST_STREAM.
func (p *Peer) WriteRST(id uint32, code http2.ErrCode) error {
	return p.Locked(func(fr *http2.Framer) error { return fr.WriteRSTStream(id, code) })
}

// WritePing writes PING.
func (p *Peer) WritePing(ack bool, data [8]byte) error {
	return p.Locked(func(fr *http2.Framer) error { return fr.WritePing(ack, data) })
}

// WriteGoAway writes GOAWAY.
func (p *Peer) WriteGoAway(maxID uint32, code http2.ErrCode, debug []byte) error {
	return p.Locked(func(fr *http2.Framer) error { return fr.WriteGoAway(maxID, code, debug) })
}

// WriteWindowUpdate writes WINDOW_UPDATE (id 0 = connection).
func (p *Peer) WriteWindowUpdate(id, incr uint32) error {
	return p.Locked(func(fr *http2.Framer) error { return fr.WriteWindowUpdate(id, incr) })
}

// WriteRaw writes arbitrary bytes on the connection (for malformed frames).
func (p *Peer) WriteRaw(b []byte) error {
	p.wmu.Lock()
	defer p.wmu.Unlock()
	_, err := p.Conn.Write(b)
	return err
}

// ReadFrame reads the next frame (HEADERS+CONTINUATION are merged into *http2.MetaHeadersFrame).
// The returned frame is only valid until the next call.
func (p *Peer) ReadFrame() (http2.Frame, error) { return p.Fr.ReadFrame() }

// GrpcFrame prefixes msg with the 5-byte gRPC message header.
func GrpcFrame(msg []byte, compressed bool) []byte {
	out := make([]byte, 5+len(msg))
	if compressed {
		out[0] = 1
	}
	binary.BigEndian.PutUint32(out[1:5], uint32(len(msg)))
	copy(out[5:], msg)
	return out
}

// SplitGrpc parses a byte stream of length-prefixed gRPC messages; rest is the unparsed tail.
func SplitGrpc(b []byte) (flags []byte, msgs [][]byte, rest []byte) {
	for len(b) >= 5 {
		n := int(binary.BigEndian.Uint32(b[1:5]))
		if len(b) < 5+n {
			break
		}
		flags = append(flags, b[0])
		msgs = append(msgs, append([]byte(nil), b[5:5+n]...))
		b = b[5+n:]
	}
	return flags, msgs, b
}

// Field returns the first value of header name in a decoded header frame ("" if absent).
func Field(f *http2.MetaHeadersFrame, name string) string {
	for _, hf := range f.Fields {
		if hf.Name == name {
			return hf.Value
		}
	}
	return ""
}

// RawCodec passes []byte messages through unchanged (use with grpc.ForceCodec / encoding).
type RawCodec struct{}

// Marshal implements encoding.Codec.
func (RawCodec) Marshal(v any) ([]byte, error) { return *(v.(*[]byte)), nil }

// Unmarshal implements encoding.Codec.
func (RawCodec) Unmarshal(d []byte, v any) error {
	*(v.(*[]byte)) = append([]byte(nil), d...)
	return nil
}

// Name implements encoding.Codec.
func (RawCodec) Name() string { return "verifraw" }

// Serve accepts connections from lis and runs handler on each (in its own goroutine) until
// lis is closed.
func Serve(lis net.Listener, handler func(net.Conn)) {
	for {
		c, err := lis.Accept()
		if err != nil {
			return
		}
		go handler(c)
	}
}
