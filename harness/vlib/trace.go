package vlib

import (
	"bufio"
	"encoding/json"
	"os"
	"strconv"
	"sync"
)

// Trace is an ndjson trace writer (one JSON object per line).
type Trace struct {
	mu sync.Mutex
	f  *os.File
	w  *bufio.Writer
	N  int
}

// NewTrace creates (truncates) the file at path.
func NewTrace(path string) (*Trace, error) {
	f, err := os.Create(path)
	if err != nil {
		return nil, err
	}
	return &Trace{f: f, w: bufio.NewWriterSize(f, 1<<20)}, nil
}

// Emit appends one event.
func (t *Trace) Emit(ev map[string]any) {
	b, err := json.Marshal(ev)
	if err != nil {
		panic(err)
	}
	t.mu.Lock()
	t.w.Write(b)
	t.w.WriteByte('\n')
	t.N++
	t.mu.Unlock()
}

// Reset emits the trace separator.
func (t *Trace) Reset() { t.Emit(map[string]any{"ev": "reset"}) }

// Close flushes and closes the file.
func (t *Trace) Close() error {
	t.mu.Lock()
	defer t.mu.Unlock()
	if err := t.w.Flush(); err != nil {
		return err
	}
	return t.f.Close()
}

// Env returns the environment variable or the default.
func Env(k, def string) string {
	if v := os.Getenv(k); v != "" {
		return v
	}
	return def
}

// EnvInt returns the integer environment variable or the default.
func EnvInt(k string, def int) int {
	if v := os.Getenv(k); v != "" {
		if n, err := strconv.Atoi(v); err == nil {
			return n
		}
	}
	return def
}

// Bytes converts a byte string to a JSON array of small integers (TLA+ sequences of 0..255).
func Bytes(s string) []int {
	out := make([]int, len(s))
	for i := 0; i < len(s); i++ {
		out[i] = int(s[i])
	}
	return out
}

// ReadLines reads an ndjson file of behaviours into raw lines.
func ReadLines(path string) ([][]byte, error) {
	f, err := os.Open(path)
	if err != nil {
		return nil, err
	}
	defer f.Close()
	sc := bufio.NewScanner(f)
	sc.Buffer(make([]byte, 1<<22), 1<<26)
	var out [][]byte
	for sc.Scan() {
		b := append([]byte(nil), sc.Bytes()...)
		if len(b) > 0 {
			out = append(out, b)
		}
	}
	return out, sc.Err()
}
