// Package wirepeer holds the helpers shared by the C21 (message size limits) and C27 (compression
// negotiation) e2e drivers: a one-connection raw gRPC server and raw gRPC client built on rawh2
// (they show exactly what the real peer put on the wire and can put arbitrary bytes on it), a tiny
// deterministic test compressor ("RLE") whose output size the driver controls exactly, message
// builders with a prescribed (uncompressed, compressed) size pair, and a 31-bit hash.
//
// Nothing in this package judges anything: it drives and records.
package wirepeer

import (
	"bytes"
	"compress/gzip"
	"errors"
	"fmt"
	"io"
	"net"
	"sync"
	"time"

	"golang.org/x/net/http2"
	"google.golang.org/grpc/internal/zzverif/vlib/rawh2"
	"google.golang.org/grpc/test/bufconn"
)

// Hash is FNV-1a (32 bit) truncated to 31 bits so that it fits a TLC integer.
func Hash(b []byte) int {
	h := uint32(2166136261)
	for _, c := range b {
		h ^= uint32(c)
		h *= 16777619
	}
	return int(h & 0x7fffffff)
}

// ---------------------------------------------------------------------------------------------
// RLE: test compressor.  Encoded form: byte 0x00, count c (1..255), byte b = a run of c copies of
// b; any other byte is a literal.  The encoder turns every maximal run of >= 4 equal bytes (and
// every run of zero bytes) into runs, everything else into literals; all output bytes are XORed
// with Mask (so two differently named instances are mutually unintelligible).
type RLE struct {
	N    string
	Mask byte
}

// Name implements encoding.Compressor.
func (r RLE) Name() string { return r.N }

// Encode compresses in.
func (r RLE) Encode(in []byte) []byte {
	out := make([]byte, 0, len(in)+len(in)/8+16)
	for i := 0; i < len(in); {
		j := i
		for j < len(in) && in[j] == in[i] && j-i < 255 {
			j++
		}
		if in[i] == 0 || j-i >= 4 {
			out = append(out, 0, byte(j-i), in[i])
		} else {
			for k := i; k < j; k++ {
				out = append(out, in[i])
			}
		}
		i = j
	}
	for i := range out {
		out[i] ^= r.Mask
	}
	return out
}

// Decode decompresses in.
func (r RLE) Decode(in []byte) ([]byte, error) {
	var out []byte
	for i := 0; i < len(in); {
		c := in[i] ^ r.Mask
		if c != 0 {
			out = append(out, c)
			i++
			continue
		}
		if i+2 >= len(in) {
			return nil, errors.New("rle: truncated run")
		}
		n, b := int(in[i+1]^r.Mask), in[i+2]^r.Mask
		if n == 0 {
			return nil, errors.New("rle: zero-length run")
		}
		for k := 0; k < n; k++ {
			out = append(out, b)
		}
		i += 3
	}
	return out, nil
}

type rleWriter struct {
	r   RLE
	w   io.Writer
	buf bytes.Buffer
}

func (w *rleWriter) Write(p []byte) (int, error) { return w.buf.Write(p) }
func (w *rleWriter) Close() error {
	_, err := w.w.Write(w.r.Encode(w.buf.Bytes()))
	return err
}

// Compress implements encoding.Compressor.
func (r RLE) Compress(w io.Writer) (io.WriteCloser, error) { return &rleWriter{r: r, w: w}, nil }

// Decompress implements encoding.Compressor.
func (r RLE) Decompress(rd io.Reader) (io.Reader, error) {
	b, err := io.ReadAll(rd)
	if err != nil {
		return nil, err
	}
	out, err := r.Decode(b)
	if err != nil {
		return nil, err
	}
	return bytes.NewReader(out), nil
}

// Do implements the legacy grpc.Compressor interface.
func (r RLE) Do(w io.Writer, p []byte) error {
	_, err := w.Write(r.Encode(p))
	return err
}

// Type implements the legacy grpc.Compressor / grpc.Decompressor interfaces.
func (r RLE) Type() string { return r.N }

// LegacyDecompressor adapts RLE to the legacy grpc.Decompressor interface (Do(io.Reader)).
type LegacyDecompressor struct{ R RLE }

// Do implements grpc.Decompressor.
func (d LegacyDecompressor) Do(rd io.Reader) ([]byte, error) {
	b, err := io.ReadAll(rd)
	if err != nil {
		return nil, err
	}
	return d.R.Decode(b)
}

// Type implements grpc.Decompressor.
func (d LegacyDecompressor) Type() string { return d.R.N }

func lit(i, seed int) byte { return byte((i*7+seed)%199) + 1 } // 1..199, adjacent values differ

// Plain returns u bytes without zero bytes and without runs (RLE encodes it to exactly u bytes).
func Plain(u, seed int) []byte {
	b := make([]byte, u)
	for i := range b {
		b[i] = lit(i, seed)
	}
	return b
}

// RLESized returns a message of exactly u bytes whose RLE encoding has exactly w bytes, or nil
// when that is impossible (possible: u == w; u > w >= 3; w > u with w-u even and (w-u)/2 <= (u+1)/2).
func RLESized(u, w, seed int) []byte {
	switch {
	case u == w:
		return Plain(u, seed)
	case w > u:
		if (w-u)%2 != 0 {
			return nil
		}
		z := (w - u) / 2 // isolated zero bytes, each costs 3 instead of 1
		if z > (u+1)/2 {
			return nil
		}
		b := Plain(u, seed)
		for k := 0; k < z; k++ {
			b[2*k] = 0
		}
		return b
	default:
		// k literals + r runs: k + 3r = w, k + sum(len) = u, 4 <= len <= 255
		for r := 1; 3*r <= w; r++ {
			k := w - 3*r
			rest := u - k
			if rest < 4*r || rest > 255*r {
				continue
			}
			b := make([]byte, 0, u)
			for i := 0; i < k; i++ {
				b = append(b, lit(i, seed))
			}
			for i := 0; i < r; i++ {
				n := rest / (r - i)
				if n > 255 {
					n = 255
				}
				if rem := rest - n; rem < 4*(r-i-1) {
					n = rest - 4*(r-i-1)
				}
				rest -= n
				v := byte(0xEE)
				if i%2 == 1 {
					v = 0xDD
				}
				for j := 0; j < n; j++ {
					b = append(b, v)
				}
			}
			return b
		}
		return nil
	}
}

// Gzip compresses with compress/gzip at the default level (what grpc's gzip compressors use).
func Gzip(in []byte) []byte {
	var buf bytes.Buffer
	z := gzip.NewWriter(&buf)
	z.Write(in)
	z.Close()
	return buf.Bytes()
}

// Gunzip decompresses.
func Gunzip(in []byte) ([]byte, error) {
	z, err := gzip.NewReader(bytes.NewReader(in))
	if err != nil {
		return nil, err
	}
	return io.ReadAll(z)
}

// GzipWire searches a message whose gzip encoding has exactly w bytes (incompressible content,
// so the message is shorter than w).  nil if none is found.
func GzipWire(w, seed int) []byte {
	gzMu.Lock()
	defer gzMu.Unlock()
	if b, ok := gzCache[w]; ok {
		return b
	}
	b := gzipWire(w, seed)
	gzCache[w] = b
	return b
}

var (
	gzMu    sync.Mutex
	gzCache = map[int][]byte{}
)

func gzipWire(w, seed int) []byte {
	for s := 0; s < 64; s++ {
		for n := 1; n <= w; n++ {
			b := make([]byte, n)
			x := uint32(seed*7919 + s*104729 + 12345)
			for i := range b {
				x = x*1664525 + 1013904223
				b[i] = byte(x >> 24)
			}
			if len(Gzip(b)) == w {
				return b
			}
		}
	}
	return nil
}

// GzipShrunk returns a well-compressible message of exactly u bytes.
func GzipShrunk(u, seed int) []byte {
	b := make([]byte, u)
	for i := range b {
		b[i] = byte('a' + (i+seed)%3)
	}
	return b
}

// ---------------------------------------------------------------------------------------------
// Raw server (one connection).

// Req is what the raw server saw on one stream.
type Req struct {
	ID   uint32
	Hdr  map[string]string
	Data []byte // concatenated DATA payloads (length-prefixed gRPC messages)
	End  bool   // END_STREAM seen
	Rst  bool   // RST_STREAM seen
}

// Resp is what the raw server answers once the request stream has ended.
type Resp struct {
	Hdr          []string // extra response header pairs (e.g. grpc-encoding)
	Data         []byte   // raw DATA bytes (already length-prefixed)
	Status       string   // grpc-status
	TrailersOnly bool
}

const bigWindow = 1 << 30

func writeChunks(p *rawh2.Peer, id uint32, data []byte, end bool) error {
	if len(data) == 0 {
		if end {
			return p.WriteData(id, true, nil)
		}
		return nil
	}
	for len(data) > 0 {
		n := len(data)
		if n > 16384 {
			n = 16384
		}
		if err := p.WriteData(id, end && n == len(data), data[:n]); err != nil {
			return err
		}
		data = data[n:]
	}
	return nil
}

// ServeOne accepts ONE connection on lis and serves it until the client closes it; respond is
// called when a request stream ends (END_STREAM).  The returned channel yields every stream seen
// (in order of first appearance) once the connection is finished.
func ServeOne(lis net.Listener, respond func(*Req) *Resp) <-chan []*Req {
	done := make(chan []*Req, 1)
	go func() {
		var order []*Req
		defer func() { done <- order }()
		c, err := lis.Accept()
		if err != nil {
			return
		}
		defer c.Close()
		p, err := rawh2.NewServerPeer(c)
		if err != nil {
			return
		}
		p.WriteSettings(http2.Setting{ID: http2.SettingInitialWindowSize, Val: bigWindow})
		p.WriteWindowUpdate(0, bigWindow)
		streams := map[uint32]*Req{}
		finish := func(r *Req) {
			r.End = true
			resp := respond(r)
			if resp == nil {
				return
			}
			if resp.TrailersOnly {
				kv := append([]string{":status", "200", "content-type", "application/grpc", "grpc-status", resp.Status}, resp.Hdr...)
				p.WriteHeaders(r.ID, true, kv...)
				return
			}
			kv := append([]string{":status", "200", "content-type", "application/grpc"}, resp.Hdr...)
			p.WriteHeaders(r.ID, false, kv...)
			writeChunks(p, r.ID, resp.Data, false)
			p.WriteHeaders(r.ID, true, "grpc-status", resp.Status)
		}
		for {
			f, err := p.ReadFrame()
			if err != nil {
				return
			}
			switch f := f.(type) {
			case *http2.SettingsFrame:
				if !f.IsAck() {
					p.WriteSettingsAck()
				}
			case *http2.PingFrame:
				if !f.IsAck() {
					p.WritePing(true, f.Data)
				}
			case *http2.MetaHeadersFrame:
				r := &Req{ID: f.StreamID, Hdr: map[string]string{}}
				for _, hf := range f.Fields {
					if _, dup := r.Hdr[hf.Name]; !dup {
						r.Hdr[hf.Name] = hf.Value
					}
				}
				streams[f.StreamID] = r
				order = append(order, r)
				if f.StreamEnded() {
					finish(r)
				}
			case *http2.DataFrame:
				r := streams[f.StreamID]
				if r == nil {
					continue
				}
				r.Data = append(r.Data, f.Data()...)
				if f.StreamEnded() {
					finish(r)
				}
			case *http2.RSTStreamFrame:
				if r := streams[f.StreamID]; r != nil {
					r.Rst = true
				}
			}
		}
	}()
	return done
}

// ---------------------------------------------------------------------------------------------
// Raw client (one connection, one stream).

// Obs is what the raw client saw of the server's answer on stream 1.
type Obs struct {
	Hdr     map[string]string // response headers (first HEADERS frame; for trailers-only also the trailers)
	Trl     map[string]string // trailers
	Data    []byte
	GotHdr  bool
	GotTrl  bool
	Rst     bool
	RstCode uint32
	Err     string
}

// RawCall opens a connection to lis, sends one request (hdr = extra header pairs, data = raw DATA
// bytes, END_STREAM set) and reads the answer until the stream ends.  wait bounds the whole call
// (last resort, only hit on failing paths).
func RawCall(lis *bufconn.Listener, path string, hdr []string, data []byte, wait time.Duration) *Obs {
	o := &Obs{Hdr: map[string]string{}, Trl: map[string]string{}}
	c, err := lis.Dial()
	if err != nil {
		o.Err = err.Error()
		return o
	}
	defer c.Close()
	c.SetDeadline(time.Now().Add(wait))
	p, err := rawh2.NewClientPeer(c)
	if err != nil {
		o.Err = err.Error()
		return o
	}
	p.WriteSettings(http2.Setting{ID: http2.SettingInitialWindowSize, Val: bigWindow})
	p.WriteWindowUpdate(0, bigWindow)
	gotSettings := make(chan struct{})
	fin := make(chan struct{})
	go func() {
		defer close(fin)
		first := true
		for {
			f, err := p.ReadFrame()
			if err != nil {
				if !o.GotTrl && !o.Rst {
					o.Err = fmt.Sprintf("read: %v", err)
				}
				if first {
					close(gotSettings)
				}
				return
			}
			switch f := f.(type) {
			case *http2.SettingsFrame:
				if !f.IsAck() {
					p.WriteSettingsAck()
					if first {
						first = false
						close(gotSettings)
					}
				}
			case *http2.PingFrame:
				if !f.IsAck() {
					p.WritePing(true, f.Data)
				}
			case *http2.MetaHeadersFrame:
				if f.StreamID != 1 {
					continue
				}
				dst := o.Hdr
				if o.GotHdr {
					dst = o.Trl
				}
				for _, hf := range f.Fields {
					dst[hf.Name] = hf.Value
				}
				if f.StreamEnded() {
					if !o.GotHdr { // trailers-only
						for k, v := range o.Hdr {
							o.Trl[k] = v
						}
					}
					o.GotTrl = true
					o.GotHdr = true
					return
				}
				o.GotHdr = true
			case *http2.DataFrame:
				if f.StreamID == 1 {
					o.Data = append(o.Data, f.Data()...)
				}
			case *http2.RSTStreamFrame:
				if f.StreamID == 1 {
					o.Rst = true
					o.RstCode = uint32(f.ErrCode)
					return
				}
			}
		}
	}()
	<-gotSettings
	kv := append([]string{":method", "POST", ":scheme", "http", ":path", path, ":authority", "verif",
		"content-type", "application/grpc", "te", "trailers"}, hdr...)
	if err := p.WriteHeaders(1, false, kv...); err == nil {
		writeChunks(p, 1, data, true)
	}
	<-fin
	return o
}
