// Package vlib holds helpers shared by the verification drivers: a gate scheduler that
// forces a TLC-generated schedule onto real goroutines stopped at verifhook points, and an
// ndjson trace writer.  It is overlaid into the module as internal/zzverif/vlib.
package vlib

import (
	"bytes"
	"fmt"
	"runtime"
	"strconv"
	"sync"
	"time"
)

// Goid returns the id of the calling goroutine.
func Goid() int64 {
	var buf [64]byte
	n := runtime.Stack(buf[:], false)
	f := bytes.Fields(buf[:n])
	id, _ := strconv.ParseInt(string(f[1]), 10, 64)
	return id
}

type arrival struct {
	tid, p string
}

// Sched is a gate scheduler: exactly one registered goroutine runs at a time; each stops at
// every hook point and waits for a grant.
type Sched struct {
	mu      sync.Mutex
	tidOf   map[int64]string
	at      map[string]string
	grant   map[string]chan struct{}
	arrive  chan arrival
	free    bool
	events  []map[string]any
	wg      sync.WaitGroup
	Timeout time.Duration
}

// NewSched returns a scheduler whose grants time out after d (real time).
func NewSched(d time.Duration) *Sched {
	return &Sched{tidOf: map[int64]string{}, at: map[string]string{}, grant: map[string]chan struct{}{},
		arrive: make(chan arrival), Timeout: d}
}

// Log appends an event to the behaviour's trace.
func (s *Sched) Log(ev map[string]any) {
	s.mu.Lock()
	s.events = append(s.events, ev)
	s.mu.Unlock()
}

// Events returns the recorded events.
func (s *Sched) Events() []map[string]any {
	s.mu.Lock()
	defer s.mu.Unlock()
	return append([]map[string]any(nil), s.events...)
}

// Hook is called at a hook point by the goroutine that reached it.
func (s *Sched) Hook(p string) {
	s.mu.Lock()
	if s.free {
		s.mu.Unlock()
		return
	}
	tid, ok := s.tidOf[Goid()]
	ch := s.grant[tid]
	s.mu.Unlock()
	if !ok {
		return
	}
	s.arrive <- arrival{tid, p}
	<-ch
}

// Spawn starts body on a new goroutine registered as thread tid.  The body should call
// Hook at its own first gate.  When it returns the thread arrives at "end".
func (s *Sched) Spawn(tid string, body func()) {
	s.mu.Lock()
	s.grant[tid] = make(chan struct{})
	s.mu.Unlock()
	s.wg.Add(1)
	go func() {
		defer s.wg.Done()
		id := Goid()
		s.mu.Lock()
		s.tidOf[id] = tid
		s.mu.Unlock()
		body()
		s.mu.Lock()
		free := s.free
		delete(s.tidOf, id)
		s.mu.Unlock()
		if !free {
			s.arrive <- arrival{tid, "end"}
		}
	}()
}

// Await waits for the next arrival, which must be from tid.
func (s *Sched) Await(tid string) (string, error) {
	select {
	case a := <-s.arrive:
		if a.tid != tid {
			s.mu.Lock()
			s.at[a.tid] = a.p
			s.mu.Unlock()
			return "", fmt.Errorf("unexpected arrival of %s at %s while waiting for %s", a.tid, a.p, tid)
		}
		s.mu.Lock()
		s.at[tid] = a.p
		s.mu.Unlock()
		return a.p, nil
	case <-time.After(s.Timeout):
		return "", fmt.Errorf("thread %s did not reach a hook within %v", tid, s.Timeout)
	}
}

// At returns the point thread tid is waiting at ("" if running or unknown).
func (s *Sched) At(tid string) string {
	s.mu.Lock()
	defer s.mu.Unlock()
	return s.at[tid]
}

// Step grants thread tid (which must be waiting at point p) one step and waits for its
// next arrival.
func (s *Sched) Step(tid, p string) (string, error) {
	s.mu.Lock()
	cur := s.at[tid]
	ch := s.grant[tid]
	s.mu.Unlock()
	if cur != p {
		return "", fmt.Errorf("expects %s at %s but it is at %q", tid, p, cur)
	}
	s.mu.Lock()
	s.at[tid] = ""
	s.mu.Unlock()
	ch <- struct{}{}
	return s.Await(tid)
}

// Free releases every gate; all goroutines run freely from now on.
func (s *Sched) Free() {
	s.mu.Lock()
	if s.free {
		s.mu.Unlock()
		return
	}
	s.free = true
	for tid, ch := range s.grant {
		close(ch)
		s.at[tid] = ""
	}
	s.mu.Unlock()
}

// Join releases all gates and waits until every spawned goroutine finished.  It returns
// false if they did not finish within d.
func (s *Sched) Join(d time.Duration) bool {
	s.Free()
	done := make(chan struct{})
	go func() { s.wg.Wait(); close(done) }()
	t := time.NewTimer(d)
	defer t.Stop()
	for {
		select {
		case <-s.arrive:
			// a goroutine that was between the free check and the send; its grant
			// channel is closed, so it continues by itself
		case <-done:
			return true
		case <-t.C:
			return false
		}
	}
}
