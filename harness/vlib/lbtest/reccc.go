// Package lbtest provides a recording balancer.ClientConn / SubConn pair for the LB-policy
// drivers: every call a policy makes on the channel is an event with a sequence number.
package lbtest

import (
	"fmt"
	"sync"

	"google.golang.org/grpc/balancer"
	"google.golang.org/grpc/connectivity"
	estats "google.golang.org/grpc/experimental/stats"
	"google.golang.org/grpc/internal"
	istats "google.golang.org/grpc/internal/stats"
	"google.golang.org/grpc/resolver"
)

// Event is one call made by the policy under test.
type Event struct {
	Kind  string // newsc, connect, shutdown, update_state, resolve_now, update_addrs, health_reg
	SC    int    // sub-connection id (1-based), 0 if not applicable
	Addrs []string
	State connectivity.State
	Pick  balancer.Picker
}

// RecSC is a recording SubConn.
type RecSC struct {
	internal.EnforceSubConnEmbedding
	ID       int
	CC       *RecCC
	Addrs    []resolver.Address
	Listener func(balancer.SubConnState)
	Health   func(balancer.SubConnState)
	mu       sync.Mutex
	Connects int
	Shut     bool
}

func (s *RecSC) String() string { return fmt.Sprintf("sc%d", s.ID) }

// UpdateAddresses implements balancer.SubConn.
func (s *RecSC) UpdateAddresses(a []resolver.Address) {
	s.CC.add(Event{Kind: "update_addrs", SC: s.ID, Addrs: addrStrings(a)})
}

// Connect implements balancer.SubConn.
func (s *RecSC) Connect() {
	s.mu.Lock()
	s.Connects++
	s.mu.Unlock()
	s.CC.add(Event{Kind: "connect", SC: s.ID})
}

// GetOrBuildProducer implements balancer.SubConn.
func (s *RecSC) GetOrBuildProducer(balancer.ProducerBuilder) (balancer.Producer, func()) {
	return nil, func() {}
}

// Shutdown implements balancer.SubConn.
func (s *RecSC) Shutdown() {
	s.mu.Lock()
	already := s.Shut
	s.Shut = true
	s.mu.Unlock()
	if !already {
		s.CC.add(Event{Kind: "shutdown", SC: s.ID})
	}
}

// IsShut reports whether Shutdown was called.
func (s *RecSC) IsShut() bool {
	s.mu.Lock()
	defer s.mu.Unlock()
	return s.Shut
}

// RegisterHealthListener implements balancer.SubConn.
func (s *RecSC) RegisterHealthListener(l func(balancer.SubConnState)) {
	s.mu.Lock()
	s.Health = l
	s.mu.Unlock()
	s.CC.add(Event{Kind: "health_reg", SC: s.ID})
}

// RecCC is a recording balancer.ClientConn.
type RecCC struct {
	internal.EnforceClientConnEmbedding
	mu     sync.Mutex
	events []Event
	SCs    []*RecSC
	// FailNewSubConn makes NewSubConn return an error when set.
	FailNewSubConn bool
	// NewSubConnHook, when set, is called inside NewSubConn after the sub-connection was
	// created and recorded and before NewSubConn returns (it may block: the caller is then
	// "inside the channel's NewSubConn").
	NewSubConnHook func(sc *RecSC)
}

// NewRecCC returns an empty recorder.
func NewRecCC() *RecCC { return &RecCC{} }

func (c *RecCC) add(e Event) {
	c.mu.Lock()
	c.events = append(c.events, e)
	c.mu.Unlock()
}

// Take returns and clears the events recorded so far.
func (c *RecCC) Take() []Event {
	c.mu.Lock()
	defer c.mu.Unlock()
	ev := c.events
	c.events = nil
	return ev
}

// SubConns returns the sub-connections created so far.
func (c *RecCC) SubConns() []*RecSC {
	c.mu.Lock()
	defer c.mu.Unlock()
	return append([]*RecSC(nil), c.SCs...)
}

func addrStrings(a []resolver.Address) []string {
	out := make([]string, len(a))
	for i := range a {
		out[i] = a[i].Addr
	}
	return out
}

// NewSubConn implements balancer.ClientConn.
func (c *RecCC) NewSubConn(a []resolver.Address, o balancer.NewSubConnOptions) (balancer.SubConn, error) {
	if c.FailNewSubConn {
		return nil, fmt.Errorf("lbtest: NewSubConn failure requested")
	}
	c.mu.Lock()
	sc := &RecSC{ID: len(c.SCs) + 1, CC: c, Addrs: a, Listener: o.StateListener}
	c.SCs = append(c.SCs, sc)
	c.events = append(c.events, Event{Kind: "newsc", SC: sc.ID, Addrs: addrStrings(a)})
	hook := c.NewSubConnHook
	c.mu.Unlock()
	if hook != nil {
		hook(sc)
	}
	return sc, nil
}

// RemoveSubConn implements balancer.ClientConn.
func (c *RecCC) RemoveSubConn(sc balancer.SubConn) { sc.Shutdown() }

// UpdateAddresses implements balancer.ClientConn.
func (c *RecCC) UpdateAddresses(sc balancer.SubConn, a []resolver.Address) {
	if r, ok := sc.(*RecSC); ok {
		c.add(Event{Kind: "update_addrs", SC: r.ID, Addrs: addrStrings(a)})
	}
}

// UpdateState implements balancer.ClientConn.
func (c *RecCC) UpdateState(s balancer.State) {
	c.add(Event{Kind: "update_state", State: s.ConnectivityState, Pick: s.Picker})
}

// ResolveNow implements balancer.ClientConn.
func (c *RecCC) ResolveNow(resolver.ResolveNowOptions) { c.add(Event{Kind: "resolve_now"}) }

// Target implements balancer.ClientConn.
func (c *RecCC) Target() string { return "verif:///target" }

// MetricsRecorder implements balancer.ClientConn.
func (c *RecCC) MetricsRecorder() estats.MetricsRecorder { return istats.NewMetricsRecorderList(nil) }

// StateName maps a connectivity state to the names used in the TLA+ specs.
func StateName(s connectivity.State) string {
	switch s {
	case connectivity.Idle:
		return "IDLE"
	case connectivity.Connecting:
		return "CONNECTING"
	case connectivity.Ready:
		return "READY"
	case connectivity.TransientFailure:
		return "TF"
	case connectivity.Shutdown:
		return "SHUTDOWN"
	}
	return "INVALID"
}

// StateOf is the inverse of StateName.
func StateOf(n string) connectivity.State {
	switch n {
	case "IDLE":
		return connectivity.Idle
	case "CONNECTING":
		return connectivity.Connecting
	case "READY":
		return connectivity.Ready
	case "TF":
		return connectivity.TransientFailure
	case "SHUTDOWN":
		return connectivity.Shutdown
	}
	panic("lbtest: unknown state " + n)
}
