package c25

// Driver for C25: replays TLC behaviours of specs/ServerLifecycle.tla on a real grpc.Server with
// one real ClientConn per model connection, over test/bufconn inside a testing/synctest bubble.
// After every step the bubble is brought to quiescence (synctest.Wait, a virtual 6 s sleep that
// lets the server's GOAWAY timer expire, synctest.Wait) and the observables are recorded.  The
// driver never judges; TLC validates the trace (specs/ServerLifecycleTrace.tla).

import (
	"context"
	"encoding/json"
	"fmt"
	"io"
	"net"
	"os"
	"strconv"
	"sync"
	"sync/atomic"
	"testing"
	"testing/synctest"
	"time"

	"google.golang.org/grpc"
	"google.golang.org/grpc/codes"
	"google.golang.org/grpc/credentials/insecure"
	"google.golang.org/grpc/encoding"
	"google.golang.org/grpc/internal/zzverif/vlib"
	"google.golang.org/grpc/internal/zzverif/vlib/rawh2"
	"google.golang.org/grpc/metadata"
	"google.golang.org/grpc/status"
	"google.golang.org/grpc/test/bufconn"
)

type step struct {
	A string `json:"a"`
	C int    `json:"c"`
	R int    `json:"r"`
	K int    `json:"k"`
}

type rpcState struct {
	h       atomic.Int32 // 0 none, 1 running, 2 returned
	cx      atomic.Bool  // ctx.Done() seen while running
	cl      atomic.Int32 // 98 not started, 99 no result yet, else code
	release chan int
	cancel  context.CancelFunc
	big     bool          // late reader: the handler sends bigSize bytes, the client reads on the "read" step
	readCh  chan struct{} // closed by the "read" step
	dl      atomic.Int32  // bytes of response data the client application received
}

// bigSize is larger than the client's stream flow-control window (65535): the response of a late
// reader stays queued in the server transport until the client application reads.
const bigSize = 150 * 1024

type env struct {
	nc, nr, limit int
	srv           *grpc.Server
	lis           *bufconn.Listener
	cc            []*grpc.ClientConn
	rpc           [][]*rpcState
	mu            sync.Mutex
	running       []int
	maxrun        []int
	total         int
	gs, sr        atomic.Int32 // 0 no, 1 called, 2 returned
	gsrun         atomic.Int32
	obey          chan struct{} // closed by the "fstop" step: handlers return once their ctx is done
}

func (e *env) handle(_ any, ss grpc.ServerStream) error {
	md, _ := metadata.FromIncomingContext(ss.Context())
	c, _ := strconv.Atoi(first(md, "c25-c"))
	r, _ := strconv.Atoi(first(md, "c25-r"))
	if c < 1 || c > e.nc || r < 1 || r > e.nr {
		return status.Error(codes.InvalidArgument, "c25: unknown rpc")
	}
	rs := e.rpc[c-1][r-1]
	e.mu.Lock()
	e.running[c-1]++
	e.total++
	if e.running[c-1] > e.maxrun[c-1] {
		e.maxrun[c-1] = e.running[c-1]
	}
	e.mu.Unlock()
	rs.h.Store(1)
	exit := make(chan struct{})
	go func() {
		select {
		case <-ss.Context().Done():
			rs.cx.Store(true)
		case <-exit:
		}
	}()
	var k int
	select {
	case k = <-rs.release:
	case <-e.obey:
		// obedient mode (Stop during GracefulStop): return as soon as the context is done
		select {
		case k = <-rs.release:
		case <-ss.Context().Done():
			rs.cx.Store(true)
			k = int(codes.Canceled)
		}
	}
	if first(md, "c25-big") == "1" {
		msg := make([]byte, bigSize)
		if err := ss.SendMsg(&msg); err != nil && os.Getenv("C25_DEBUG") != "" {
			fmt.Println("C25_DEBUG SendMsg:", err)
		}
		// queued behind the client's flow control (fails if the transport is gone)
	}
	close(exit)
	// counted as not running before the handler returns, hence before the quota is released:
	// the counter never exceeds the real number of running handlers
	e.mu.Lock()
	e.running[c-1]--
	e.total--
	e.mu.Unlock()
	rs.h.Store(2)
	if k == 0 {
		return nil
	}
	return status.Error(codes.Code(k), "c25 handler status")
}

func init() { encoding.RegisterCodec(rawh2.RawCodec{}) } // the server needs the codec to send the big message

func first(md metadata.MD, k string) string {
	if v := md.Get(k); len(v) > 0 {
		return v[0]
	}
	return ""
}

func settle() {
	synctest.Wait()
	time.Sleep(6 * time.Second)
	synctest.Wait()
}

var hnames = []string{"none", "running", "returned"}
var snames = []string{"no", "called", "returned"}

func (e *env) observe(s step) map[string]any {
	h := make([][]string, e.nc)
	cx := make([][]bool, e.nc)
	cl := make([][]int, e.nc)
	dl := make([][]int, e.nc)
	for c := 0; c < e.nc; c++ {
		for r := 0; r < e.nr; r++ {
			rs := e.rpc[c][r]
			h[c] = append(h[c], hnames[rs.h.Load()])
			cx[c] = append(cx[c], rs.cx.Load())
			cl[c] = append(cl[c], int(rs.cl.Load()))
			dl[c] = append(dl[c], int(rs.dl.Load()))
		}
	}
	e.mu.Lock()
	maxrun := append([]int(nil), e.maxrun...)
	e.mu.Unlock()
	return map[string]any{"ev": "step", "a": s.A, "c": s.C, "r": s.R, "k": s.K, "h": h, "cx": cx, "cl": cl, "dl": dl,
		"gs": snames[e.gs.Load()], "sr": snames[e.sr.Load()], "maxrun": maxrun, "gsrun": int(e.gsrun.Load())}
}

func (e *env) apply(s step) {
	switch s.A {
	case "start", "startbig":
		rs := e.rpc[s.C-1][s.R-1]
		ctx := metadata.AppendToOutgoingContext(context.Background(), "c25-c", strconv.Itoa(s.C), "c25-r", strconv.Itoa(s.R))
		if s.A == "startbig" {
			rs.big = true
			ctx = metadata.AppendToOutgoingContext(ctx, "c25-big", "1")
		}
		ctx, rs.cancel = context.WithCancel(ctx)
		rs.cl.Store(99)
		cc := e.cc[s.C-1]
		go func() {
			cs, err := cc.NewStream(ctx, &grpc.StreamDesc{ClientStreams: true, ServerStreams: true}, "/c25.S/M")
			if err == nil && rs.big {
				// the application reads late: on the driver's "read" step (or when it cancels)
				select {
				case <-rs.readCh:
				case <-ctx.Done():
				}
			}
			for err == nil {
				var in []byte
				if err = cs.RecvMsg(&in); err == nil {
					rs.dl.Add(int32(len(in)))
				}
			}
			if err == io.EOF {
				err = nil
			}
			rs.cl.Store(int32(status.Code(err)))
		}()
	case "read":
		close(e.rpc[s.C-1][s.R-1].readCh)
	case "cancel":
		e.rpc[s.C-1][s.R-1].cancel()
	case "finish":
		e.rpc[s.C-1][s.R-1].release <- s.K
	case "gstop", "gfinish":
		e.gs.Store(1)
		go func() {
			e.srv.GracefulStop()
			e.mu.Lock()
			n := e.total
			e.mu.Unlock()
			e.gsrun.Store(int32(n))
			e.gs.Store(2)
		}()
		if s.A == "gfinish" {
			// a reader goroutine is parked in the handler quota: the GOAWAY can only be written once a
			// handler of that connection returns, so both happen in one settled step
			e.rpc[s.C-1][s.R-1].release <- s.K
		}
	case "hstop", "fstop":
		if s.A == "fstop" {
			close(e.obey)
		}
		e.sr.Store(1)
		go func() {
			e.srv.Stop()
			e.sr.Store(2)
		}()
	default:
		panic("c25: unknown step " + s.A)
	}
}

// trace is an unbuffered ndjson writer: whatever was observed before a hang stays on disk.
type trace struct {
	mu sync.Mutex
	f  *os.File
}

func (t *trace) Emit(ev map[string]any) {
	b, err := json.Marshal(ev)
	if err != nil {
		panic(err)
	}
	t.mu.Lock()
	t.f.Write(append(b, '\n'))
	t.mu.Unlock()
}
func (t *trace) Reset() { t.Emit(map[string]any{"ev": "reset"}) }
func (t *trace) Close() { t.f.Close() }

func runBehaviour(t *testing.T, tr *trace, steps []step, nc, nr, limit int) {
	defer func() {
		if p := recover(); p != nil {
			tr.Emit(map[string]any{"ev": "panic", "msg": fmt.Sprint(p)})
		}
	}()
	synctest.Test(t, func(t *testing.T) {
		e := &env{nc: nc, nr: nr, limit: limit, running: make([]int, nc), maxrun: make([]int, nc), obey: make(chan struct{})}
		e.lis = bufconn.Listen(1 << 16)
		sopts := []grpc.ServerOption{grpc.MaxConcurrentStreams(uint32(limit)), grpc.UnknownServiceHandler(e.handle)}
		if w := vlib.EnvInt("VERIF_WORKERS", 0); w > 0 {
			sopts = append(sopts, grpc.NumStreamWorkers(uint32(w))) // handlers run on the stream worker pool
		}
		e.srv = grpc.NewServer(sopts...)
		go e.srv.Serve(e.lis)
		for c := 0; c < nc; c++ {
			cc, err := grpc.NewClient("passthrough:///c25", grpc.WithTransportCredentials(insecure.NewCredentials()),
				grpc.WithContextDialer(func(ctx context.Context, _ string) (net.Conn, error) { return e.lis.DialContext(ctx) }),
				grpc.WithInitialWindowSize(65535),
				grpc.WithDefaultCallOptions(grpc.ForceCodec(rawh2.RawCodec{})))
			if err != nil {
				panic(err)
			}
			e.cc = append(e.cc, cc)
			var row []*rpcState
			for r := 0; r < nr; r++ {
				rs := &rpcState{release: make(chan int, 1), cancel: func() {}, readCh: make(chan struct{})}
				rs.cl.Store(98)
				row = append(row, rs)
			}
			e.rpc = append(e.rpc, row)
		}
		for _, s := range steps {
			e.apply(s)
			settle()
			tr.Emit(e.observe(s))
		}
		// cleanup: let every handler return, cancel every RPC, close everything
		for c := 0; c < nc; c++ {
			for r := 0; r < nr; r++ {
				select {
				case e.rpc[c][r].release <- 0:
				default:
				}
				e.rpc[c][r].cancel()
			}
		}
		synctest.Wait()
		fin := e.observe(step{A: "final"})
		fin["ev"] = "final"
		tr.Emit(fin)
		for _, cc := range e.cc {
			cc.Close()
		}
		stopped := make(chan struct{})
		go func() { e.srv.Stop(); close(stopped) }()
		synctest.Wait()
		select {
		case <-stopped:
		default:
			// every handler was released and every RPC cancelled, yet Stop does not return: goroutines of
			// the server are stuck for good and the bubble can never end.  Record it and give up (the
			// orchestrator reports inconclusive unless TLC already found a violated clause).
			tr.Emit(map[string]any{"ev": "stuck"})
			tr.Close()
			fmt.Println("VERIF_ABORT server stuck in cleanup; trace flushed (exit code 0 so that the trace is judged: PASS of the driver as a program)")
			os.Exit(0)
		}
		e.lis.Close()
		synctest.Wait()
	})
}

func TestVerifC25Replay(t *testing.T) {
	lines, err := vlib.ReadLines(os.Getenv("VERIF_BEHAVIOURS"))
	if err != nil {
		t.Fatal(err)
	}
	f, err := os.Create(os.Getenv("VERIF_OUT"))
	if err != nil {
		t.Fatal(err)
	}
	tr := &trace{f: f}
	defer tr.Close()
	nc, nr, limit := vlib.EnvInt("VERIF_NC", 2), vlib.EnvInt("VERIF_NR", 2), vlib.EnvInt("VERIF_LIMIT", 1)
	for i, ln := range lines {
		fmt.Printf("behaviour %d: %s\n", i, ln) // shown only when the driver fails (hang diagnosis)
		var steps []step
		if err := json.Unmarshal(ln, &steps); err != nil {
			t.Fatal(err)
		}
		tr.Reset()
		runBehaviour(t, tr, steps, nc, nr, limit)
	}
	fmt.Printf("VERIF_SUMMARY {\"behaviours\":%d}\n", len(lines))
}
