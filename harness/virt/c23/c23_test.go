package c23

// e2e driver for C23 (DESIGN.md section "C23 / C32"): a real grpc.ClientConn with an instrumented
// balancer (registered as "verif_c23", selected through the service config) whose picker tags
// every PickResult with a unique id and a Done func that records the call, against a scripted raw
// HTTP/2 server (vlib/rawh2) over test/bufconn, inside a testing/synctest bubble.  The scenarios
// are the behaviours of specs/PickDone.tla; the driver only drives and records, the recorded
// (pick, done, rpc_end) events are judged by specs/PickDoneTrace.tla.

import (
	"context"
	"encoding/json"
	"errors"
	"fmt"
	"io"
	"net"
	"os"
	"strconv"
	"sync"
	"testing"
	"testing/synctest"
	"time"

	"golang.org/x/net/http2"
	"google.golang.org/grpc"
	"google.golang.org/grpc/balancer"
	"google.golang.org/grpc/connectivity"
	"google.golang.org/grpc/credentials/insecure"
	"google.golang.org/grpc/internal/zzverif/vlib"
	"google.golang.org/grpc/internal/zzverif/vlib/rawh2"
	"google.golang.org/grpc/metadata"
	"google.golang.org/grpc/status"
	"google.golang.org/grpc/test/bufconn"
)

type scenario struct {
	Mode   string   `json:"mode"`   // unary | stream
	Cause  bool     `json:"cause"`  // the RPC's context ends with a custom cause (WithCancelCause / WithTimeoutCause)
	Script []string `json:"script"` // pre, server faults..., final
}

type env struct {
	mu       sync.Mutex
	events   []map[string]any
	nextID   int
	ops      []string // server-side ops still to apply to /verif/main streams
	conns    []net.Conn
	killed   bool
	badmd    bool            // the next pick result for the main RPC carries invalid metadata
	mainCtx  context.Context // the main RPC's context (read by the real-time watchdog)
	mainRet  bool            // the main RPC has returned
	timeouts int
	gate     chan struct{} // closed = dialing allowed
	reached  chan string
	lis      *bufconn.Listener
}

func (e *env) log(ev map[string]any) {
	e.mu.Lock()
	e.events = append(e.events, ev)
	e.mu.Unlock()
}

// ---------------------------------------------------------------- instrumented balancer

var cur *env // the scenario being run (scenarios run one after the other)

type builder struct{}

func (builder) Name() string { return "verif_c23" }
func (builder) Build(cc balancer.ClientConn, _ balancer.BuildOptions) balancer.Balancer {
	return &bal{cc: cc, env: cur}
}

type bal struct {
	cc  balancer.ClientConn
	env *env
	sc  balancer.SubConn
}

func (b *bal) UpdateClientConnState(s balancer.ClientConnState) error {
	if b.sc != nil {
		return nil
	}
	sc, err := b.cc.NewSubConn(s.ResolverState.Addresses, balancer.NewSubConnOptions{StateListener: b.onState})
	if err != nil {
		return err
	}
	b.sc = sc
	b.cc.UpdateState(balancer.State{ConnectivityState: connectivity.Connecting, Picker: errPicker{balancer.ErrNoSubConnAvailable}})
	sc.Connect()
	return nil
}

// A lazy policy: it publishes a picker when the subchannel becomes READY and keeps it while the
// subchannel reconnects, so picks can hit a subchannel that is not READY (the property covers it).
func (b *bal) onState(st balancer.SubConnState) {
	switch st.ConnectivityState {
	case connectivity.Ready:
		b.cc.UpdateState(balancer.State{ConnectivityState: connectivity.Ready, Picker: &tagPicker{env: b.env, sc: b.sc}})
	case connectivity.Idle:
		b.sc.Connect()
	}
}
func (b *bal) ResolverError(error) {}
func (b *bal) UpdateSubConnState(balancer.SubConn, balancer.SubConnState) {
}
func (b *bal) Close()    {}
func (b *bal) ExitIdle() {}

type errPicker struct{ err error }

func (p errPicker) Pick(balancer.PickInfo) (balancer.PickResult, error) {
	return balancer.PickResult{}, p.err
}

type tagPicker struct {
	env *env
	sc  balancer.SubConn
}

func (p *tagPicker) Pick(info balancer.PickInfo) (balancer.PickResult, error) {
	e := p.env
	e.mu.Lock()
	e.nextID++
	id := e.nextID
	rpc := info.FullMethodName[len("/verif/"):]
	md := metadata.Pairs("verif-pick", strconv.Itoa(id)) // valid pick metadata is the normal case
	if e.badmd && rpc == "main" {
		e.badmd = false
		md = metadata.MD{"Verif-Bad-Key": {"x"}} // upper case: cannot be sent
	}
	e.events = append(e.events, map[string]any{"ev": "pick", "id": id, "rpc": rpc, "hasdone": true, "badmd": len(md["Verif-Bad-Key"]) > 0})
	e.mu.Unlock()
	return balancer.PickResult{SubConn: p.sc, Metadata: md, Done: func(di balancer.DoneInfo) {
		code := 0
		if di.Err != nil {
			code = int(status.Code(di.Err))
		}
		e.log(map[string]any{"ev": "done", "id": id, "code": code, "sent": di.BytesSent, "recv": di.BytesReceived})
	}}, nil
}

// ---------------------------------------------------------------- scripted raw HTTP/2 server

func (e *env) serveConn(c net.Conn) {
	e.mu.Lock()
	e.conns = append(e.conns, c)
	e.mu.Unlock()
	defer c.Close()
	p, err := rawh2.NewServerPeer(c)
	if err != nil {
		return
	}
	p.WriteSettings(http2.Setting{ID: http2.SettingMaxConcurrentStreams, Val: 1})
	for {
		f, err := p.ReadFrame()
		if err != nil {
			return
		}
		switch f := f.(type) {
		case *http2.SettingsFrame:
			if !f.IsAck() {
				p.WriteSettingsAck()
			}
		case *http2.PingFrame:
			if !f.IsAck() {
				p.WritePing(true, f.Data)
			}
		case *http2.MetaHeadersFrame:
			id := f.StreamID
			if rawh2.Field(f, ":path") != "/verif/main" {
				e.mu.Lock()
				killed := e.killed
				e.mu.Unlock()
				if killed { // a retried blocker must not take the stream slot of the new connection
					e.log(map[string]any{"ev": "srv", "op": "blocker-fail"})
					p.WriteHeaders(id, true, ":status", "200", "content-type", "application/grpc", "grpc-status", "13", "grpc-message", "verif-blocker")
				} else {
					e.log(map[string]any{"ev": "srv", "op": "blocker-hang"})
				}
				continue
			}
			e.mu.Lock()
			op := "success"
			if len(e.ops) > 0 {
				op, e.ops = e.ops[0], e.ops[1:]
			}
			e.mu.Unlock()
			e.log(map[string]any{"ev": "srv", "op": op})
			hdr := []string{":status", "200", "content-type", "application/grpc"}
			switch op {
			case "refused":
				p.WriteRST(id, http2.ErrCodeRefusedStream)
			case "unavail": // Trailers-Only
				p.WriteHeaders(id, true, append(hdr, "grpc-status", "14", "grpc-message", "verif-unavailable")...)
			case "success":
				p.WriteHeaders(id, false, hdr...)
				p.WriteData(id, false, rawh2.GrpcFrame([]byte("ok"), false))
				p.WriteHeaders(id, true, "grpc-status", "0")
			case "srverr":
				p.WriteHeaders(id, false, hdr...)
				p.WriteHeaders(id, true, "grpc-status", "13", "grpc-message", "verif-boom")
			case "cancel_after":
				p.WriteHeaders(id, false, hdr...)
				e.reached <- op
			default: // cancel_before, deadline: never answered
				e.reached <- op
			}
		}
	}
}

func (e *env) kill() {
	e.mu.Lock()
	cs := e.conns
	e.conns = nil
	e.killed = true
	e.mu.Unlock()
	for _, c := range cs {
		c.Close()
	}
}

func (e *env) dial(ctx context.Context, _ string) (net.Conn, error) {
	e.mu.Lock()
	g := e.gate
	e.mu.Unlock()
	select {
	case <-g:
	case <-ctx.Done():
		return nil, ctx.Err()
	}
	return e.lis.DialContext(ctx)
}

// await waits (in virtual time) for an RPC goroutine; an RPC that does not end within 10 virtual
// minutes is cancelled and the scenario is marked as not completed (machinery, never a verdict).
func (e *env) await(done chan struct{}, cancel func(), who string) {
	for i := 0; i < 2; i++ {
		select {
		case <-done:
			return
		case <-time.After(10 * time.Minute):
			e.log(map[string]any{"ev": "note", "msg": "timeout waiting for " + who})
			e.mu.Lock()
			e.timeouts++
			e.mu.Unlock()
			cancel()
		}
	}
	e.log(map[string]any{"ev": "note", "msg": "RPC goroutine " + who + " does not end after cancellation"})
}

const serviceConfig = `{"loadBalancingConfig":[{"verif_c23":{}}],"methodConfig":[{"name":[{"service":"verif","method":"main"}],"retryPolicy":{"maxAttempts":4,"initialBackoff":"0.01s","maxBackoff":"0.1s","backoffMultiplier":1.0,"retryableStatusCodes":["UNAVAILABLE"]}}]}`

var streamDesc = &grpc.StreamDesc{StreamName: "main", ServerStreams: true, ClientStreams: true}

// ---------------------------------------------------------------- one scenario (inside a bubble)

func runScenario(scn *scenario) (evs []map[string]any, timeouts int) {
	e := &env{gate: make(chan struct{}), reached: make(chan string, 8), lis: bufconn.Listen(1 << 20)}
	close(e.gate)
	cur = e
	defer func() {
		if x := recover(); x != nil {
			e.log(map[string]any{"ev": "panic", "msg": fmt.Sprint(x)})
			evs, timeouts = e.events, e.timeouts
		}
	}()
	pre, final := scn.Script[0], scn.Script[len(scn.Script)-1]
	e.ops = append([]string(nil), scn.Script[1:]...)
	e.log(map[string]any{"ev": "scn", "mode": scn.Mode, "cause": scn.Cause, "script": scn.Script})
	go rawh2.Serve(e.lis, e.serveConn)
	cc, err := grpc.NewClient("passthrough:///c23", grpc.WithTransportCredentials(insecure.NewCredentials()),
		grpc.WithContextDialer(e.dial), grpc.WithDefaultServiceConfig(serviceConfig),
		grpc.WithDefaultCallOptions(grpc.ForceCodec(rawh2.RawCodec{})))
	if err != nil {
		e.log(map[string]any{"ev": "note", "msg": "NewClient: " + err.Error()})
		return e.events, 1
	}
	cc.Connect()
	synctest.Wait()
	e.log(map[string]any{"ev": "note", "msg": "channel state after connect: " + cc.GetState().String()})

	var bcancel context.CancelFunc
	var bdone chan struct{}
	switch pre {
	case "badmd":
		e.mu.Lock()
		e.badmd = true
		e.mu.Unlock()
	case "notready", "blocked":
		// the connection dies and the reconnection is held: the published picker's subchannel is not READY
		e.mu.Lock()
		e.gate = make(chan struct{})
		e.mu.Unlock()
		e.kill()
		synctest.Wait()
	case "connclosed":
		// a blocker stream takes the only stream slot of the connection (MAX_CONCURRENT_STREAMS = 1)
		var bctx context.Context
		bctx, bcancel = context.WithCancel(context.Background())
		bdone = make(chan struct{})
		go func() {
			defer close(bdone)
			st, err := cc.NewStream(bctx, streamDesc, "/verif/blocker")
			if err == nil {
				var m []byte
				err = st.RecvMsg(&m)
			}
			e.log(map[string]any{"ev": "rpc_ret", "rpc": "blocker", "code": int(status.Code(err))})
		}()
		synctest.Wait()
	}

	var ctx context.Context
	var cancel func()
	switch {
	case scn.Cause && final == "deadline":
		ctx, cancel = context.WithTimeoutCause(context.Background(), 5*time.Second, errors.New("verif: custom deadline cause"))
	case scn.Cause:
		c, cc := context.WithCancelCause(context.Background())
		ctx, cancel = c, func() { cc(errors.New("verif: custom cancel cause")) }
	case final == "deadline":
		ctx, cancel = context.WithTimeout(context.Background(), 5*time.Second)
	default:
		ctx, cancel = context.WithCancel(context.Background())
	}
	e.mu.Lock()
	e.mainCtx = ctx
	e.mu.Unlock()
	mdone := make(chan struct{})
	go func() {
		defer close(mdone)
		req, resp := []byte("hi"), []byte{}
		var err error
		if scn.Mode == "unary" {
			err = cc.Invoke(ctx, "/verif/main", &req, &resp)
		} else {
			var st grpc.ClientStream
			st, err = cc.NewStream(ctx, streamDesc, "/verif/main")
			if err == nil {
				if err = st.SendMsg(&req); err == nil {
					st.CloseSend()
				}
				if final == "cancel_after" {
					st.Header()
				}
				for err == nil {
					err = st.RecvMsg(&resp)
				}
				if err == io.EOF {
					err = nil
				}
			}
		}
		e.mu.Lock()
		e.mainRet = true
		e.mu.Unlock()
		e.log(map[string]any{"ev": "rpc_ret", "rpc": "main", "code": int(status.Code(err))})
	}()
	synctest.Wait()
	switch pre {
	case "notready":
		// main has picked the not-READY subchannel and waits for a new picker: let the channel reconnect
		e.mu.Lock()
		close(e.gate)
		e.mu.Unlock()
	case "connclosed":
		// main holds a pick result and is blocked in NewStream on the stream quota: close the transport
		e.kill()
	}
	if pre == "blocked" {
		// main has picked the not-READY subchannel (Done at once) and is blocked in pick; no picker will come
		if final == "cancel_before" {
			cancel()
		}
	} else if final == "cancel_before" || final == "cancel_after" {
		select {
		case <-e.reached:
			synctest.Wait()
			cancel()
		case <-mdone:
		}
	}
	e.await(mdone, cancel, "main")
	cancel()
	if pre == "blocked" {
		e.mu.Lock()
		close(e.gate)
		e.mu.Unlock()
	}
	synctest.Wait()
	e.log(map[string]any{"ev": "rpc_end", "rpc": "main"})
	if bcancel != nil {
		bcancel()
		e.await(bdone, bcancel, "blocker")
		synctest.Wait()
		e.log(map[string]any{"ev": "rpc_end", "rpc": "blocker"})
	}
	cc.Close()
	e.lis.Close()
	e.kill()
	synctest.Wait()
	e.log(map[string]any{"ev": "end"})
	e.mu.Lock()
	defer e.mu.Unlock()
	return e.events, e.timeouts
}

// TestVerifC23Scenarios runs every scenario of VERIF_BEHAVIOURS against a real ClientConn.
func TestVerifC23Scenarios(t *testing.T) {
	balancer.Register(builder{})
	lines, err := vlib.ReadLines(os.Getenv("VERIF_BEHAVIOURS"))
	if err != nil {
		t.Fatal(err)
	}
	tr, err := vlib.NewTrace(os.Getenv("VERIF_OUT"))
	if err != nil {
		t.Fatal(err)
	}
	defer tr.Close()
	picks, failed, stuck := 0, 0, 0
	codes := map[string]int{}
	for i, ln := range lines {
		var scn scenario
		if err := json.Unmarshal(ln, &scn); err != nil {
			t.Fatal(err)
		}
		var ev []map[string]any
		// Real-time watchdog: a goroutine that spins (e.g. a pick that is woken by its context but
		// neither returns nor blocks) never lets the bubble settle; such a scenario is abandoned
		// after 30 s of real time and recorded as `stuck` (with whether the RPC's context had ended).
		var bev []map[string]any
		fin := make(chan struct{})
		go func() {
			defer close(fin)
			defer func() {
				if x := recover(); x != nil {
					failed++
					bev = append(bev, map[string]any{"ev": "note", "msg": fmt.Sprintf("bubble panic: %v", x)})
				}
			}()
			synctest.Test(t, func(*testing.T) {
				var n int
				bev, n = runScenario(&scn)
				failed += n
			})
		}()
		select {
		case <-fin:
			ev = bev
		case <-time.After(30 * time.Second):
			e := cur
			e.mu.Lock()
			ev = append([]map[string]any(nil), e.events...)
			ended := e.mainCtx != nil && e.mainCtx.Err() != nil
			ev = append(ev, map[string]any{"ev": "stuck", "rpc": "main", "ended": ended, "returned": e.mainRet})
			e.mu.Unlock()
			stuck++
		}
		tr.Emit(map[string]any{"ev": "reset", "b": i})
		for _, x := range ev {
			tr.Emit(x)
			switch x["ev"] {
			case "pick":
				picks++
			case "rpc_ret":
				if x["rpc"] == "main" {
					codes[fmt.Sprint(x["code"])]++
				}
			}
		}
		if stuck > 0 {
			break // a goroutine of the abandoned bubble may still be spinning: stop here
		}
	}
	sum, _ := json.Marshal(map[string]any{"scenarios": len(lines), "picks": picks, "bubble_failures": failed, "stuck": stuck, "main_codes": codes})
	fmt.Printf("VERIF_SUMMARY %s\n", sum)
}
