// Package c20 drives a real grpc.ClientConn (pick_first, one address) inside a synctest bubble with a dialer that
// fails or succeeds per script and records the virtual instants of the dial attempts, the failures, READY and
// ResetConnectBackoff.  TLC (BackoffTrace) judges the pacing clause of C20.  Never judges.
package c20

import (
	"context"
	"errors"
	"fmt"
	"math/rand"
	"net"
	"os"
	"strconv"
	"sync"
	"testing"
	"testing/synctest"
	"time"

	"golang.org/x/net/http2"
	"google.golang.org/grpc"
	"google.golang.org/grpc/backoff"
	"google.golang.org/grpc/connectivity"
	"google.golang.org/grpc/credentials/insecure"
	"google.golang.org/grpc/internal/zzverif/vlib"
	"google.golang.org/grpc/internal/zzverif/vlib/rawh2"
	"google.golang.org/grpc/test/bufconn"
)

type frac struct{ p, q int }

func digits(v int64) []int {
	s := strconv.FormatInt(v, 10)
	out := make([]int, len(s))
	for i := range s {
		out[i] = int(s[i] - '0')
	}
	return out
}

type scenario struct {
	base, max time.Duration
	m, j      frac
	// per dial attempt: f fail at once, p fail after a part of the backoff (base/2), l fail after longer than any
	// backoff (2 x max), t hang until the dial deadline expires, r fail at once and ResetConnectBackoff a quarter
	// of base later, s succeed; c the connection is established (the raw server answers the client preface with its
	// SETTINGS) and the peer closes at once, C the same but the peer closes one virtual millisecond later (the two
	// orders "closed before / after the transport is installed")
	script string
}

func runScenario(t *testing.T, tr *vlib.Trace, sc scenario) {
	synctest.Test(t, func(t *testing.T) {
		defer func() {
			if p := recover(); p != nil {
				tr.Emit(map[string]any{"ev": "panic", "what": "pace", "r": fmt.Sprint(p)})
			}
		}()
		tr.Reset()
		tr.Emit(map[string]any{"ev": "pacecfg", "script": sc.script, "c": map[string]any{"base": digits(int64(sc.base)), "max": digits(int64(sc.max)),
			"mp": sc.m.p, "mq": sc.m.q, "jp": sc.j.p, "jq": sc.j.q}})
		start := time.Now()
		lis := bufconn.Listen(1 << 16)
		srv := grpc.NewServer()
		go srv.Serve(lis)
		// raw server side for the outcomes c / C: server preface (SETTINGS), then close
		rawLis := bufconn.Listen(1 << 16)
		delays := make(chan time.Duration, 64)
		go rawh2.Serve(rawLis, func(c net.Conn) {
			defer c.Close()
			d := <-delays
			p, err := rawh2.NewServerPeer(c)
			if err != nil {
				return
			}
			// The client writes its preface and then, in a second write, SETTINGS (+ WINDOW_UPDATE): wait for its
			// SETTINGS before answering, so that closing cannot make that write fail (the attempt would then be a
			// FAILED one for the client although the server had answered).
			for {
				f, err := p.ReadFrame()
				if err != nil {
					return
				}
				if sf, ok := f.(*http2.SettingsFrame); ok && !sf.IsAck() {
					break
				}
			}
			if p.WriteSettings() != nil {
				return
			}
			// the connection is established as soon as the client has the server's SETTINGS
			tr.Emit(map[string]any{"ev": "estab", "delay": int64(d)})
			if d > 0 {
				time.Sleep(d)
			}
		})
		var (
			mu    sync.Mutex
			step  int
			conns []net.Conn
			cc    *grpc.ClientConn
			done  = make(chan struct{})
		)
		dialer := func(ctx context.Context, _ string) (net.Conn, error) {
			mu.Lock()
			k := step
			step++
			mu.Unlock()
			if k >= len(sc.script) {
				select {
				case <-done:
				default:
					close(done)
				}
				<-ctx.Done() // script exhausted: hang until the channel is closed
				return nil, ctx.Err()
			}
			tr.Emit(map[string]any{"ev": "dial", "t": digits(int64(time.Since(start))), "k": k})
			switch sc.script[k] {
			case 's':
				c, err := lis.DialContext(ctx)
				if err == nil {
					mu.Lock()
					conns = append(conns, c)
					mu.Unlock()
				}
				return c, err
			case 'c', 'C':
				d := time.Duration(0)
				if sc.script[k] == 'C' {
					d = time.Millisecond
				}
				delays <- d
				return rawLis.DialContext(ctx)
			case 'r':
				go func() {
					time.Sleep(sc.base / 4)
					tr.Emit(map[string]any{"ev": "resetbo"})
					cc.ResetConnectBackoff()
				}()
			case 'p':
				select {
				case <-time.After(sc.base / 2):
				case <-ctx.Done():
				}
			case 'l':
				select {
				case <-time.After(2 * sc.max):
				case <-ctx.Done():
				}
			case 't':
				<-ctx.Done()
			}
			tr.Emit(map[string]any{"ev": "dialfail", "t": digits(int64(time.Since(start)))})
			return nil, errors.New("scripted dial failure")
		}
		var err error
		cc, err = grpc.NewClient("passthrough:///x", grpc.WithTransportCredentials(insecure.NewCredentials()),
			grpc.WithContextDialer(dialer),
			grpc.WithIdleTimeout(0), // no idle mode: the subchannel (and its backoff index) lives for the whole script
			grpc.WithConnectParams(grpc.ConnectParams{
				Backoff:           backoff.Config{BaseDelay: sc.base, Multiplier: float64(sc.m.p) / float64(sc.m.q), Jitter: float64(sc.j.p) / float64(sc.j.q), MaxDelay: sc.max},
				MinConnectTimeout: 3 * sc.max, // the dial deadline never cuts a scripted slow dial short
			}))
		if err != nil {
			panic(err)
		}
		cc.Connect()
		// supervisor: report READY, then cut the connection and ask for a new one
		go func() {
			for {
				st := cc.GetState()
				if st == connectivity.Shutdown {
					return
				}
				if st == connectivity.Ready {
					tr.Emit(map[string]any{"ev": "ready"})
					time.Sleep(time.Second)
					mu.Lock()
					for _, c := range conns {
						c.Close()
					}
					conns = nil
					mu.Unlock()
					for cc.GetState() == connectivity.Ready {
						if !cc.WaitForStateChange(context.Background(), connectivity.Ready) {
							return
						}
					}
					cc.Connect()
					continue
				}
				if st == connectivity.Idle {
					// a connection that was closed by the peer leaves the channel idle: ask for a new attempt
					cc.Connect()
				}
				if !cc.WaitForStateChange(context.Background(), st) {
					return
				}
			}
		}()
		select {
		case <-done:
		case <-time.After(1000 * time.Hour): // virtual
		}
		cc.Close()
		srv.Stop()
		lis.Close()
		rawLis.Close()
		synctest.Wait()
	})
}

func TestVerifC20Pace(t *testing.T) {
	tr, err := vlib.NewTrace(os.Getenv("VERIF_OUT"))
	if err != nil {
		t.Fatal(err)
	}
	defer tr.Close()
	seed := int64(vlib.EnvInt("VERIF_SEED", 1))
	n := vlib.EnvInt("VERIF_N", 12)
	r := rand.New(rand.NewSource(seed))
	sec := time.Second
	fixed := []scenario{
		{sec, 120 * sec, frac{8, 5}, frac{1, 5}, "ffffffff"},
		{sec, 8 * sec, frac{2, 1}, frac{0, 1}, "fplfplsplf"},
		{sec, 4 * sec, frac{2, 1}, frac{1, 4}, "ltfpsltrpf"},
		{2 * sec, 6 * sec, frac{3, 2}, frac{1, 2}, "pplltfsrlp"},
		{sec, 16 * sec, frac{2, 1}, frac{0, 1}, "fffcfffCff"},
		{sec, 16 * sec, frac{2, 1}, frac{1, 4}, "ffcfcffcfffcf"},
		{sec, 16 * sec, frac{2, 1}, frac{1, 5}, "fpfcffCfplcf"},
		{sec / 2, 8 * sec, frac{2, 1}, frac{0, 1}, "ffcffcffcffcffcf"},
		{sec, 8 * sec, frac{2, 1}, frac{0, 1}, "fffffsffsf"},
		{sec, 8 * sec, frac{2, 1}, frac{1, 4}, "ffrfffsfrff"},
		{2 * sec, 5 * sec, frac{3, 2}, frac{1, 2}, "fffffrsfff"},
		{sec / 2, 120 * sec, frac{8, 5}, frac{1, 5}, "sfffsfffrf"},
	}
	for _, sc := range fixed {
		runScenario(t, tr, sc)
	}
	ms := []frac{{2, 1}, {3, 2}, {8, 5}, {1, 1}}
	js := []frac{{0, 1}, {1, 4}, {1, 5}, {1, 2}}
	for i := 0; i < n; i++ {
		b := make([]byte, 6+r.Intn(8))
		for k := range b {
			b[k] = "fffpplltsrcC"[r.Intn(12)]
		}
		runScenario(t, tr, scenario{time.Duration(1+r.Intn(4)) * sec / 2, time.Duration(4+r.Intn(20)) * sec, ms[r.Intn(len(ms))], js[r.Intn(len(js))], string(b)})
	}
	fmt.Printf("VERIF_SUMMARY {\"pairs\":%d}\n", tr.N)
}
