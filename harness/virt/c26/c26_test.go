package c26

// Driver for C26: a real grpc.Server (registrations chosen by the behaviour line) is driven by a RAW
// HTTP/2 client that sends every enumerated :path verbatim; for each request the driver logs which
// handlers ran and the grpc-status of the response.  TLC validates every tuple against specs/Dispatch.tla.

import (
	"context"
	"encoding/json"
	"fmt"
	"net"
	"os"
	"strconv"
	"sync"
	"testing"
	"testing/synctest"

	"golang.org/x/net/http2"
	"google.golang.org/grpc"
	"google.golang.org/grpc/internal/zzverif/vlib"
	"google.golang.org/grpc/internal/zzverif/vlib/rawh2"
	"google.golang.org/grpc/test/bufconn"
)

type config struct {
	Reg   []int   `json:"reg"`   // registry entries: 1 = service "a" method "b" (unary), 2 = service "a/b" method "c" (streaming)
	Unk   bool    `json:"unk"`   // install an UnknownServiceHandler
	Paths [][]int `json:"paths"` // :path values as byte arrays
}

type recorder struct {
	mu  sync.Mutex
	ran []string
}

func (r *recorder) add(h string) {
	r.mu.Lock()
	r.ran = append(r.ran, h)
	r.mu.Unlock()
}
func (r *recorder) take() []string {
	r.mu.Lock()
	defer r.mu.Unlock()
	out := r.ran
	r.ran = nil
	if out == nil {
		out = []string{}
	}
	return out
}

type svc interface{}
type impl struct{}

func newServer(cfg config, rec *recorder) *grpc.Server {
	opts := []grpc.ServerOption{grpc.ForceServerCodec(rawh2.RawCodec{})}
	if cfg.Unk {
		opts = append(opts, grpc.UnknownServiceHandler(func(any, grpc.ServerStream) error {
			rec.add("unknown")
			return nil
		}))
	}
	s := grpc.NewServer(opts...)
	for _, e := range cfg.Reg {
		switch e {
		case 1:
			s.RegisterService(&grpc.ServiceDesc{
				ServiceName: "a",
				HandlerType: (*svc)(nil),
				Methods: []grpc.MethodDesc{{MethodName: "b", Handler: func(any, context.Context, func(any) error, grpc.UnaryServerInterceptor) (any, error) {
					rec.add("h1")
					return &[]byte{}, nil
				}}},
			}, impl{})
		case 2:
			s.RegisterService(&grpc.ServiceDesc{
				ServiceName: "a/b",
				HandlerType: (*svc)(nil),
				Streams: []grpc.StreamDesc{{StreamName: "c", ClientStreams: true, ServerStreams: true, Handler: func(any, grpc.ServerStream) error {
					rec.add("h2")
					return nil
				}}},
			}, impl{})
		}
	}
	return s
}

func bytesOf(p []int) string {
	b := make([]byte, len(p))
	for i, x := range p {
		b[i] = byte(x)
	}
	return string(b)
}

// one request; returns grpc-status (-1: stream reset / no status, -2: connection error)
func doRPC(p *rawh2.Peer, id uint32, path string) int {
	if err := p.WriteHeaders(id, false, ":method", "POST", ":scheme", "http", ":path", path, ":authority", "verif",
		"content-type", "application/grpc", "te", "trailers"); err != nil {
		return -2
	}
	if err := p.WriteData(id, true, rawh2.GrpcFrame(nil, false)); err != nil {
		return -2
	}
	for {
		f, err := p.ReadFrame()
		if err != nil {
			return -2
		}
		switch f := f.(type) {
		case *http2.SettingsFrame:
			if !f.IsAck() {
				p.WriteSettingsAck()
			}
		case *http2.PingFrame:
			if !f.IsAck() {
				p.WritePing(true, f.Data)
			}
		case *http2.RSTStreamFrame:
			if f.StreamID == id {
				return -1
			}
		case *http2.GoAwayFrame:
			return -2
		case *http2.MetaHeadersFrame:
			if f.StreamID == id && f.StreamEnded() {
				st := rawh2.Field(f, "grpc-status")
				n, err := strconv.Atoi(st)
				if err != nil {
					return -1
				}
				return n
			}
		}
	}
}

func runConfig(t *testing.T, cfg config, tr *vlib.Trace) {
	synctest.Test(t, func(t *testing.T) {
		rec := &recorder{}
		lis := bufconn.Listen(1 << 20)
		s := newServer(cfg, rec)
		go s.Serve(lis)
		var p *rawh2.Peer
		var conn net.Conn
		dial := func() bool {
			var err error
			conn, err = lis.Dial()
			if err != nil {
				return false
			}
			p, err = rawh2.NewClientPeer(conn)
			if err != nil {
				return false
			}
			return p.WriteSettings() == nil
		}
		if !dial() {
			t.Fatal("dial failed")
		}
		id := uint32(1)
		for _, pa := range cfg.Paths {
			path := bytesOf(pa)
			st := doRPC(p, id, path)
			synctest.Wait() // the handler goroutine (if any) has finished or is durably blocked
			reg := cfg.Reg
			if reg == nil {
				reg = []int{}
			}
			if pa == nil {
				pa = []int{}
			}
			tr.Emit(map[string]any{"ev": "rpc", "reg": reg, "unk": cfg.Unk, "path": pa, "handlers": rec.take(), "status": st})
			id += 2
			if st == -2 { // connection lost: reconnect so that the remaining paths are still exercised
				conn.Close()
				if !dial() {
					t.Fatal("redial failed")
				}
				id = 1
			}
		}
		conn.Close()
		s.Stop()
		lis.Close()
		synctest.Wait()
	})
}

func TestVerifC26Dispatch(t *testing.T) {
	lines, err := vlib.ReadLines(os.Getenv("VERIF_BEHAVIOURS"))
	if err != nil {
		t.Fatal(err)
	}
	tr, err := vlib.NewTrace(os.Getenv("VERIF_OUT"))
	if err != nil {
		t.Fatal(err)
	}
	defer tr.Close()
	n := 0
	for i, ln := range lines {
		var cfg config
		if err := json.Unmarshal(ln, &cfg); err != nil {
			t.Fatal(err)
		}
		tr.Emit(map[string]any{"ev": "reset", "b": i})
		runConfig(t, cfg, tr)
		n += len(cfg.Paths)
	}
	fmt.Printf("VERIF_SUMMARY {\"configs\":%d,\"rpcs\":%d,\"events\":%d}\n", len(lines), n, tr.N)
}
