package c33

// Driver for C33: sequential replay of TLC behaviours (and seeded random input sequences) on
// the real gracefulswitch.Balancer with stub children and a recording ClientConn.

import (
	"encoding/json"
	"fmt"
	"math/rand"
	"os"
	"sort"
	"sync"
	"testing"
	"time"

	"google.golang.org/grpc/balancer"
	"google.golang.org/grpc/internal/balancer/gracefulswitch"
	"google.golang.org/grpc/internal/zzverif/vlib"
	"google.golang.org/grpc/internal/zzverif/vlib/lbtest"
	"google.golang.org/grpc/resolver"
)

type stubChild struct {
	id      int
	cc      balancer.ClientConn
	env     *env
	gate    chan struct{} // closed by the driver to let Close() return
	entered chan struct{} // closed when Close() is entered
	once    sync.Once
}

func (c *stubChild) UpdateClientConnState(balancer.ClientConnState) error { return nil }
func (c *stubChild) ResolverError(error)                                  {}
func (c *stubChild) UpdateSubConnState(balancer.SubConn, balancer.SubConnState) {
}
func (c *stubChild) ExitIdle() {}
func (c *stubChild) Close() {
	// Close() called by the goroutine that swap() starts is held at the gate until the
	// behaviour's "aclose" step; synchronous closes (on the driver's goroutine) pass.
	if vlib.Goid() != c.env.driver {
		c.once.Do(func() { close(c.entered) })
		<-c.gate
	}
	c.env.mu.Lock()
	c.env.closed[c.id] = true
	c.env.mu.Unlock()
}

type stubPicker struct{ child int }

func (p stubPicker) Pick(balancer.PickInfo) (balancer.PickResult, error) {
	return balancer.PickResult{}, balancer.ErrNoSubConnAvailable
}

type stubBuilder struct {
	env  *env
	name string
}

func (b stubBuilder) Name() string { return b.name }
func (b stubBuilder) Build(cc balancer.ClientConn, _ balancer.BuildOptions) balancer.Balancer {
	b.env.mu.Lock()
	defer b.env.mu.Unlock()
	c := &stubChild{id: len(b.env.children) + 1, cc: cc, env: b.env, gate: make(chan struct{}), entered: make(chan struct{})}
	b.env.children = append(b.env.children, c)
	return c
}

type env struct {
	mu       sync.Mutex
	children []*stubChild
	closed   map[int]bool
	cc       *lbtest.RecCC
	gsb      *gracefulswitch.Balancer
	scOwner  []int // model-side subconn numbering: owner child per created subconn
	scReal   []*lbtest.RecSC
	driver   int64
	// in-flight NewSubConn (the child is blocked inside the channel's NewSubConn)
	nsRelease chan struct{}
	nsDone    chan error
	nsChild   int
	pendingSC *lbtest.RecSC
}

func newEnv() *env {
	e := &env{closed: map[int]bool{}, cc: lbtest.NewRecCC(), driver: vlib.Goid()}
	e.gsb = gracefulswitch.NewBalancer(e.cc, balancer.BuildOptions{})
	return e
}

// obs drains the recorded calls of this step and projects the observable state.
func (e *env) obs() map[string]any {
	fwds := [][]any{}
	for _, ev := range e.cc.Take() {
		if ev.Kind == "update_state" {
			ch := 0
			if p, ok := ev.Pick.(stubPicker); ok {
				ch = p.child
			}
			fwds = append(fwds, []any{ch, lbtest.StateName(ev.State)})
		}
	}
	e.mu.Lock()
	closed := []int{}
	for c := range e.closed {
		closed = append(closed, c)
	}
	e.mu.Unlock()
	sort.Ints(closed)
	shut := []int{}
	for i, sc := range e.scReal {
		if sc.IsShut() {
			shut = append(shut, i+1)
		}
	}
	return map[string]any{"fwds": fwds, "closed": closed, "shut": shut}
}

type step struct {
	A string `json:"a"`
	C int    `json:"c"`
	S string `json:"s"`
	// Q is the queue of children waiting for their asynchronous Close after this step
	// (from the specification / the random driver's mirror); the driver waits until the
	// head of the queue has entered Close() so that it owns currentMu before a later
	// swap starts another closing goroutine.
	Q []int `json:"q"`
}

// settle waits (bounded) until cond holds; asynchronous effects of the step are awaited here.
func settle(cond func() bool) {
	deadline := time.Now().Add(2 * time.Second)
	for !cond() && time.Now().Before(deadline) {
		time.Sleep(50 * time.Microsecond)
	}
}

func (e *env) shutCountOf(children map[int]bool) (total, shut int) {
	for i, o := range e.scOwner {
		if children[o] {
			total++
			if e.scReal[i].IsShut() {
				shut++
			}
		}
	}
	return
}

func (e *env) apply(st step, tr *vlib.Trace) {
	if st.C > 0 && st.A != "aclose" {
		if st.C > len(e.children) {
			return
		}
		e.mu.Lock()
		dead := e.closed[st.C]
		e.mu.Unlock()
		if dead {
			return // the real scheduler closed this child earlier than the behaviour assumed
		}
	}
	if st.A == "newsc_end" && e.nsRelease == nil {
		return
	}
	switch st.A {
	case "switch":
		e.mu.Lock()
		kids := append([]*stubChild(nil), e.children...)
		e.mu.Unlock()
		e.gsb.SwitchTo(stubBuilder{env: e, name: fmt.Sprintf("stub%d", len(kids)+1)})
		tr.Emit(map[string]any{"ev": "switch", "obs": e.obs()})
	case "update":
		c := e.children[st.C-1]
		c.cc.UpdateState(balancer.State{ConnectivityState: lbtest.StateOf(st.S), Picker: stubPicker{child: st.C}})
		tr.Emit(map[string]any{"ev": "update", "c": st.C, "s": st.S, "obs": e.obs()})
	case "aclose":
		// Which of the waiting closing goroutines holds currentMu is the Go scheduler's
		// choice: release the child that actually entered Close() and log ITS id.
		var c *stubChild
		deadline := time.Now().Add(2 * time.Second)
		for c == nil && time.Now().Before(deadline) {
			e.mu.Lock()
			for _, k := range e.children {
				select {
				case <-k.entered:
					select {
					case <-k.gate:
					default:
						if c == nil {
							c = k
						}
					}
				default:
				}
			}
			e.mu.Unlock()
			if c == nil {
				time.Sleep(50 * time.Microsecond)
			}
		}
		if c == nil {
			// nothing is closing although the specification says so: log the step as the
			// specification numbered it; the observation will not show the child closed
			tr.Emit(map[string]any{"ev": "aclose", "c": st.C, "obs": e.obs()})
			return
		}
		close(c.gate)
		settle(func() bool {
			e.mu.Lock()
			cl := e.closed[c.id]
			e.mu.Unlock()
			tot, sh := e.shutCountOf(map[int]bool{c.id: true})
			return cl && tot == sh
		})
		tr.Emit(map[string]any{"ev": "aclose", "c": c.id, "obs": e.obs()})
	case "newsc":
		c := e.children[st.C-1]
		sc, err := c.cc.NewSubConn([]resolver.Address{{Addr: "a"}}, balancer.NewSubConnOptions{StateListener: func(balancer.SubConnState) {}})
		if err == nil {
			e.scOwner = append(e.scOwner, st.C)
			all := e.cc.SubConns()
			e.scReal = append(e.scReal, all[len(all)-1])
			_ = sc
		}
		tr.Emit(map[string]any{"ev": "newsc", "c": st.C, "ok": err == nil, "obs": e.obs()})
	case "newsc_begin":
		c := e.children[st.C-1]
		entered := make(chan *lbtest.RecSC, 1)
		e.nsRelease = make(chan struct{})
		e.nsDone = make(chan error, 1)
		e.nsChild = st.C
		rel := e.nsRelease
		e.cc.NewSubConnHook = func(sc *lbtest.RecSC) { entered <- sc; <-rel }
		go func() {
			_, err := c.cc.NewSubConn([]resolver.Address{{Addr: "a"}}, balancer.NewSubConnOptions{StateListener: func(balancer.SubConnState) {}})
			e.nsDone <- err
		}()
		select {
		case sc := <-entered:
			e.scOwner = append(e.scOwner, st.C)
			e.scReal = append(e.scReal, sc)
			// the model numbers the sub-connection when the call ENDS; until then it is
			// not part of the observation
			e.scOwner = e.scOwner[:len(e.scOwner)-1]
			e.scReal = e.scReal[:len(e.scReal)-1]
			e.pendingSC = sc
		case err := <-e.nsDone:
			// rejected before reaching the channel: cannot happen when the spec's guard holds
			e.nsDone <- err
		case <-time.After(2 * time.Second):
		}
		e.cc.NewSubConnHook = nil
		tr.Emit(map[string]any{"ev": "newsc_begin", "c": st.C, "obs": e.obs()})
	case "newsc_end":
		close(e.nsRelease)
		var err error
		select {
		case err = <-e.nsDone:
		case <-time.After(2 * time.Second):
			err = fmt.Errorf("NewSubConn did not return")
		}
		if e.pendingSC != nil {
			e.scOwner = append(e.scOwner, e.nsChild)
			e.scReal = append(e.scReal, e.pendingSC)
			e.pendingSC = nil
		}
		tr.Emit(map[string]any{"ev": "newsc_end", "c": e.nsChild, "ok": err == nil, "obs": e.obs()})
		e.nsRelease = nil
	case "close":
		e.mu.Lock()
		kids := append([]*stubChild(nil), e.children...)
		e.mu.Unlock()
		for _, c := range kids {
			select {
			case <-c.gate:
			default:
				close(c.gate)
			}
		}
		e.gsb.Close()
		tr.Emit(map[string]any{"ev": "close", "obs": e.obs()})
	default:
		panic("unknown step " + st.A)
	}
}

func finish(e *env) {
	if e.nsRelease != nil {
		close(e.nsRelease)
		select {
		case <-e.nsDone:
		case <-time.After(2 * time.Second):
		}
		e.nsRelease = nil
	}
	e.mu.Lock()
	kids := append([]*stubChild(nil), e.children...)
	e.mu.Unlock()
	for _, c := range kids {
		select {
		case <-c.gate:
		default:
			close(c.gate)
		}
	}
	e.gsb.Close()
}

func TestVerifC33Replay(t *testing.T) {
	lines, err := vlib.ReadLines(os.Getenv("VERIF_BEHAVIOURS"))
	if err != nil {
		t.Fatal(err)
	}
	tr, err := vlib.NewTrace(os.Getenv("VERIF_OUT"))
	if err != nil {
		t.Fatal(err)
	}
	defer tr.Close()
	for i, ln := range lines {
		var steps []step
		if err := json.Unmarshal(ln, &steps); err != nil {
			t.Fatal(err)
		}
		tr.Emit(map[string]any{"ev": "reset", "b": i})
		e := newEnv()
		for _, st := range steps {
			e.apply(st, tr)
		}
		finish(e)
	}
	fmt.Printf("VERIF_SUMMARY {\"behaviours\":%d,\"events\":%d}\n", len(lines), tr.N)
}

// TestVerifC33Random drives long seeded random input sequences that respect the API's
// domain (only live children call back; R4) — the specification judges the outputs.
func TestVerifC33Random(t *testing.T) {
	tr, err := vlib.NewTrace(os.Getenv("VERIF_OUT"))
	if err != nil {
		t.Fatal(err)
	}
	defer tr.Close()
	rng := rand.New(rand.NewSource(int64(vlib.EnvInt("VERIF_SEED", 1))))
	runs := vlib.EnvInt("VERIF_N", 200)
	states := []string{"CONNECTING", "READY", "IDLE", "TF"}
	for r := 0; r < runs; r++ {
		tr.Emit(map[string]any{"ev": "reset", "b": r})
		e := newEnv()
		// mirror of the spec's bookkeeping needed to stay inside the domain
		cur, pend, nChildren, nSc := 0, 0, 0, 0
		last := map[int]string{}
		var closing []int
		dead := map[int]bool{}
		n := 5 + rng.Intn(25)
		for k := 0; k < n; k++ {
			var live []int
			for c := 1; c <= nChildren; c++ {
				if !dead[c] {
					live = append(live, c)
				}
			}
			closingL := closing
			x := rng.Intn(10)
			switch {
			case (x == 0 || nChildren == 0) && nChildren < 12:
				e.apply(step{A: "switch"}, tr)
				nChildren++
				last[nChildren] = "CONNECTING"
				if cur == 0 {
					cur = nChildren
				} else {
					if pend != 0 {
						dead[pend] = true
					}
					pend = nChildren
				}
			case x == 1 && len(closingL) > 0:
				e.apply(step{A: "aclose", C: closingL[0]}, tr)
				// learn which child was really closed
				var rest []int
				for _, k := range closing {
					e.mu.Lock()
					cl := e.closed[k]
					e.mu.Unlock()
					if cl {
						dead[k] = true
					} else {
						rest = append(rest, k)
					}
				}
				closing = rest
			case x == 3 && nSc < 40 && cur != 0 && rng.Intn(2) == 0:
				// a child is superseded (or not) while it is inside the channel's NewSubConn
				c := cur
				if pend != 0 && rng.Intn(2) == 0 {
					c = pend
				}
				e.apply(step{A: "newsc_begin", C: c}, tr)
				switch rng.Intn(3) {
				case 0:
					if nChildren < 12 {
						e.apply(step{A: "switch"}, tr)
						nChildren++
						last[nChildren] = "CONNECTING"
						if pend != 0 {
							dead[pend] = true
						}
						pend = nChildren
					}
				case 1:
					var others []int
					for _, d := range []int{cur, pend} {
						if d != 0 && d != c {
							others = append(others, d)
						}
					}
					if len(others) > 0 {
						d := others[rng.Intn(len(others))]
						s := states[rng.Intn(4)]
						swap := false
						if d == cur && s != "READY" && pend != 0 {
							swap = true
						} else if d == pend && (s != "CONNECTING" || last[cur] != "READY") {
							swap = true
						}
						if swap {
							closing = append(closing, cur)
							cur, pend = pend, 0
						}
						e.apply(step{A: "update", C: d, S: s, Q: closing}, tr)
						last[d] = s
					}
				}
				e.apply(step{A: "newsc_end"}, tr)
				nSc++
			case x == 2 && len(live) > 0 && nSc < 40:
				c := live[rng.Intn(len(live))]
				e.apply(step{A: "newsc", C: c}, tr)
				if c == cur || c == pend {
					nSc++
				}
			case len(live) > 0:
				c := live[rng.Intn(len(live))]
				s := states[rng.Intn(4)]
				swap := false
				if c == cur && s != "READY" && pend != 0 {
					swap = true
				} else if c == pend && (s != "CONNECTING" || last[cur] != "READY") {
					swap = true
				}
				if swap {
					closing = append(closing, cur)
					cur, pend = pend, 0
				}
				e.apply(step{A: "update", C: c, S: s, Q: closing}, tr)
				last[c] = s
			}
		}
		e.apply(step{A: "close"}, tr)
	}
	fmt.Printf("VERIF_SUMMARY {\"behaviours\":%d,\"events\":%d}\n", runs, tr.N)
}
