package c35

// Driver for C35: sequential replay of TLC behaviours (and seeded random input sequences) on
// the real balancer.ConnectivityStateEvaluator ("cse"), endpointsharding balancer with stub
// children ("es"), weightedaggregator.Aggregator ("wt") and the real weighted_target balancer with
// stub child policies registered under two names ("wtb").  The driver only drives and records.

import (
	"encoding/json"
	"fmt"
	"math/rand"
	"os"
	"testing"

	"google.golang.org/grpc/balancer"
	"google.golang.org/grpc/balancer/endpointsharding"
	"google.golang.org/grpc/balancer/weightedtarget"
	"google.golang.org/grpc/balancer/weightedtarget/weightedaggregator"
	"google.golang.org/grpc/connectivity"
	internalserviceconfig "google.golang.org/grpc/internal/serviceconfig"
	"google.golang.org/grpc/internal/wrr"
	"google.golang.org/grpc/internal/zzverif/vlib"
	"google.golang.org/grpc/internal/zzverif/vlib/lbtest"
	"google.golang.org/grpc/resolver"
	"google.golang.org/grpc/serviceconfig"
)

const maxChildren = 6

type step struct {
	A    string   `json:"a"`
	C    int      `json:"c"`
	S    string   `json:"s"`
	Cs   []int    `json:"cs"`
	Init []string `json:"init"`
	K    string   `json:"k"`
	Rp   []int    `json:"rp"`
}

// picked is the error a stub child's picker returns: it identifies the child and the
// version of its picker.
type picked struct{ c, ver int }

func (p *picked) Error() string { return fmt.Sprintf("picked child %d v%d", p.c, p.ver) }

type stubPicker struct{ c, ver int }

func (p stubPicker) Pick(balancer.PickInfo) (balancer.PickResult, error) {
	return balancer.PickResult{}, &picked{p.c, p.ver}
}

// target is one real component driven by the same inputs.
type target interface {
	apply(st step, tr *vlib.Trace)
	close()
}

func probe(p balancer.Picker, k int, ver map[int]int) (picks []int, stale int) {
	picks = []int{}
	if p == nil {
		return
	}
	for i := 0; i < k; i++ {
		_, err := p.Pick(balancer.PickInfo{})
		if pe, ok := err.(*picked); ok {
			picks = append(picks, pe.c)
			if ver[pe.c] != pe.ver {
				stale++
			}
		} else {
			picks = append(picks, 0)
		}
	}
	return
}

func reps(cc *lbtest.RecCC, lastPicker *balancer.Picker) []string {
	out := []string{}
	for _, ev := range cc.Take() {
		if ev.Kind == "update_state" {
			out = append(out, lbtest.StateName(ev.State))
			*lastPicker = ev.Pick
		}
	}
	return out
}

// ------------------------------------------------------------------ cse
type cseTarget struct {
	cse balancer.ConnectivityStateEvaluator
	st  map[int]connectivity.State
}

func (t *cseTarget) close() {}
func (t *cseTarget) apply(st step, tr *vlib.Trace) {
	ev := map[string]any{"ev": st.A, "c": st.C}
	var got connectivity.State
	switch st.A {
	case "add":
		got = t.cse.RecordTransition(connectivity.Shutdown, lbtest.StateOf(st.S))
		t.st[st.C] = lbtest.StateOf(st.S)
		ev["s"] = st.S
	case "trans":
		got = t.cse.RecordTransition(t.st[st.C], lbtest.StateOf(st.S))
		t.st[st.C] = lbtest.StateOf(st.S)
		ev["s"] = st.S
	case "remove":
		got = t.cse.RecordTransition(t.st[st.C], connectivity.Shutdown)
		delete(t.st, st.C)
	default:
		return
	}
	cur := t.cse.CurrentState()
	ev["rep"] = []string{lbtest.StateName(got), lbtest.StateName(cur)}
	tr.Emit(ev)
}

// ------------------------------------------------------------------ es
type esEnv struct {
	cc      *lbtest.RecCC
	b       balancer.Balancer
	init    []string // initial state a newly created child reports (index c-1)
	ver     map[int]int
	kids    map[int]*esChild
	present []int
	picker  balancer.Picker
	nver    int
}

type esChild struct {
	env    *esEnv
	cc     balancer.ClientConn
	c      int
	closed bool
}

func (c *esChild) UpdateClientConnState(s balancer.ClientConnState) error {
	if c.c != 0 {
		return nil
	}
	fmt.Sscanf(s.ResolverState.Endpoints[0].Addresses[0].Addr, "ep%d", &c.c)
	c.env.kids[c.c] = c
	c.report(c.env.init[c.c-1])
	return nil
}
func (c *esChild) report(s string) {
	c.env.nver++
	c.env.ver[c.c] = c.env.nver
	c.cc.UpdateState(balancer.State{ConnectivityState: lbtest.StateOf(s), Picker: stubPicker{c.c, c.env.nver}})
}
func (c *esChild) ResolverError(error)                                        {}
func (c *esChild) UpdateSubConnState(balancer.SubConn, balancer.SubConnState) {}
func (c *esChild) ExitIdle()                                                  {}
func (c *esChild) Close()                                                     { c.closed = true }

func newES(disableAuto bool) *esEnv {
	e := &esEnv{cc: lbtest.NewRecCC(), ver: map[int]int{}, kids: map[int]*esChild{}, init: make([]string, maxChildren)}
	e.b = endpointsharding.NewBalancer(e.cc, balancer.BuildOptions{}, func(cc balancer.ClientConn, _ balancer.BuildOptions) balancer.Balancer {
		return &esChild{env: e, cc: cc}
	}, endpointsharding.Options{DisableAutoReconnect: disableAuto})
	return e
}

func (e *esEnv) close() { e.b.Close() }

func (e *esEnv) update(cs []int) {
	eps := make([]resolver.Endpoint, len(cs))
	for i, c := range cs {
		eps[i] = resolver.Endpoint{Addresses: []resolver.Address{{Addr: fmt.Sprintf("ep%d", c)}}}
	}
	e.b.UpdateClientConnState(balancer.ClientConnState{ResolverState: resolver.State{Endpoints: eps}})
	seen := map[int]bool{}
	e.present = nil
	for _, c := range cs {
		if !seen[c] {
			seen[c] = true
			e.present = append(e.present, c)
		}
	}
	for c := range e.kids {
		if !seen[c] {
			delete(e.kids, c)
			delete(e.ver, c)
		}
	}
}

func (e *esEnv) emit(ev map[string]any, tr *vlib.Trace) {
	ev["rep"] = reps(e.cc, &e.picker)
	ev["picks"], ev["stale"] = probe(e.picker, 3*len(e.present)+2, e.ver)
	tr.Emit(ev)
}

func (e *esEnv) apply(st step, tr *vlib.Trace) {
	initAll := func() []string {
		out := make([]string, maxChildren)
		for i := range out {
			out[i] = e.init[i]
			if out[i] == "" {
				out[i] = "CONNECTING"
				e.init[i] = "CONNECTING"
			}
		}
		return out
	}
	switch st.A {
	case "add":
		e.init[st.C-1] = st.S
		e.update(append(append([]int(nil), e.present...), st.C))
		e.emit(map[string]any{"ev": "add", "c": st.C, "s": st.S}, tr)
	case "remove":
		var cs []int
		for _, c := range e.present {
			if c != st.C {
				cs = append(cs, c)
			}
		}
		e.update(cs)
		e.emit(map[string]any{"ev": "remove", "c": st.C}, tr)
	case "trans":
		e.kids[st.C].report(st.S)
		e.emit(map[string]any{"ev": "trans", "c": st.C, "s": st.S}, tr)
	case "eps":
		for i, s := range st.Init {
			if i < maxChildren {
				e.init[i] = s
			}
		}
		in := initAll()
		e.update(st.Cs)
		cs := st.Cs
		if cs == nil {
			cs = []int{}
		}
		e.emit(map[string]any{"ev": "eps", "cs": cs, "init": in}, tr)
	case "noop":
		if st.K == "reserr" {
			e.b.ResolverError(fmt.Errorf("verif resolver error"))
		} else {
			e.b.ExitIdle()
		}
		e.emit(map[string]any{"ev": "noop", "k": st.K}, tr)
	}
}

// ------------------------------------------------------------------ wt
type wtEnv struct {
	cc      *lbtest.RecCC
	a       *weightedaggregator.Aggregator
	ver     map[int]int
	nver    int
	present map[int]bool
	picker  balancer.Picker
}

func newWT(edf bool) *wtEnv {
	e := &wtEnv{cc: lbtest.NewRecCC(), ver: map[int]int{}, present: map[int]bool{}}
	nw := wrr.NewRandom
	if edf {
		nw = wrr.NewEDF
	}
	e.a = weightedaggregator.New(e.cc, nil, nw)
	e.a.Start()
	return e
}
func (e *wtEnv) close() { e.a.Stop() }
func (e *wtEnv) emit(ev map[string]any, tr *vlib.Trace) {
	ev["rep"] = reps(e.cc, &e.picker)
	ev["picks"], ev["stale"] = probe(e.picker, 2*len(e.present)+2, e.ver)
	tr.Emit(ev)
}
func (e *wtEnv) report(c int, s string, tr *vlib.Trace) {
	e.nver++
	e.ver[c] = e.nver
	e.a.UpdateState(fmt.Sprintf("t%d", c), balancer.State{ConnectivityState: lbtest.StateOf(s), Picker: stubPicker{c, e.nver}})
	e.emit(map[string]any{"ev": "trans", "c": c, "s": s}, tr)
}
func (e *wtEnv) apply(st step, tr *vlib.Trace) {
	switch st.A {
	case "add":
		e.a.Add(fmt.Sprintf("t%d", st.C), uint32(1+st.C%3))
		e.present[st.C] = true
		e.ver[st.C] = -1
		e.emit(map[string]any{"ev": "add", "c": st.C, "s": "CONNECTING"}, tr)
		if st.S != "CONNECTING" {
			e.report(st.C, st.S, tr)
		}
	case "remove":
		e.a.Remove(fmt.Sprintf("t%d", st.C))
		delete(e.present, st.C)
		delete(e.ver, st.C)
		e.emit(map[string]any{"ev": "remove", "c": st.C}, tr)
	case "trans":
		e.report(st.C, st.S, tr)
	}
}

// ------------------------------------------------------------------ wtb (real weighted_target balancer)
type wtbCfg struct {
	serviceconfig.LoadBalancingConfig
	C int
}

type wtbTarget struct {
	weight uint32
	kind   int // which of the two registered stub child policy names
}

type wtbEnv struct {
	cc      *lbtest.RecCC
	b       balancer.Balancer
	targets map[int]wtbTarget
	kids    map[int]*wtbChild
	ver     map[int]int
	nver    int
	picker  balancer.Picker
}

type wtbChild struct {
	env *wtbEnv
	cc  balancer.ClientConn
	c   int
}

func (c *wtbChild) UpdateClientConnState(s balancer.ClientConnState) error {
	if cfg, ok := s.BalancerConfig.(*wtbCfg); ok && c.c == 0 {
		c.c = cfg.C
		c.env.kids[c.c] = c
		delete(c.env.ver, c.c)
	}
	return nil
}
func (c *wtbChild) ResolverError(error)                                        {}
func (c *wtbChild) UpdateSubConnState(balancer.SubConn, balancer.SubConnState) {}
func (c *wtbChild) ExitIdle()                                                  {}
func (c *wtbChild) Close() {
	if c.c != 0 && c.env.kids[c.c] == c {
		delete(c.env.kids, c.c)
		delete(c.env.ver, c.c)
	}
}

var wtbCur *wtbEnv

type wtbBuilder struct{ name string }

func (b wtbBuilder) Name() string { return b.name }
func (b wtbBuilder) Build(cc balancer.ClientConn, _ balancer.BuildOptions) balancer.Balancer {
	return &wtbChild{env: wtbCur, cc: cc}
}

var wtbKinds = []string{"c35stub_verif_a", "c35stub_verif_b"}

func init() {
	for _, n := range wtbKinds {
		balancer.Register(wtbBuilder{name: n})
	}
}

func newWTB() *wtbEnv {
	e := &wtbEnv{cc: lbtest.NewRecCC(), targets: map[int]wtbTarget{}, kids: map[int]*wtbChild{}, ver: map[int]int{}}
	wtbCur = e
	e.b = balancer.Get(weightedtarget.Name).Build(e.cc, balancer.BuildOptions{})
	return e
}
func (e *wtbEnv) close() { e.b.Close() }
func (e *wtbEnv) push() {
	cfg := &weightedtarget.LBConfig{Targets: map[string]weightedtarget.Target{}}
	for c, t := range e.targets {
		cfg.Targets[fmt.Sprintf("t%d", c)] = weightedtarget.Target{Weight: t.weight,
			ChildPolicy: &internalserviceconfig.BalancerConfig{Name: wtbKinds[t.kind], Config: &wtbCfg{C: c}}}
	}
	e.b.UpdateClientConnState(balancer.ClientConnState{BalancerConfig: cfg})
}
func (e *wtbEnv) emit(ev map[string]any, tr *vlib.Trace) {
	ev["rep"] = reps(e.cc, &e.picker)
	ev["picks"], ev["stale"] = probe(e.picker, 2*len(e.targets)+2, e.ver)
	tr.Emit(ev)
}
func (e *wtbEnv) report(c int, s string, tr *vlib.Trace) {
	k := e.kids[c]
	if k == nil {
		tr.Emit(map[string]any{"ev": "noop", "k": "nochild", "rep": []string{}})
		return
	}
	e.nver++
	e.ver[c] = e.nver
	k.cc.UpdateState(balancer.State{ConnectivityState: lbtest.StateOf(s), Picker: stubPicker{c, e.nver}})
	e.emit(map[string]any{"ev": "trans", "c": c, "s": s}, tr)
}
func (e *wtbEnv) apply(st step, tr *vlib.Trace) {
	switch st.A {
	case "add":
		e.targets[st.C] = wtbTarget{weight: uint32(1 + st.C%3), kind: st.C % 2}
		e.push()
		e.emit(map[string]any{"ev": "add", "c": st.C, "s": "CONNECTING"}, tr)
		if st.S != "CONNECTING" {
			e.report(st.C, st.S, tr)
		}
	case "remove":
		delete(e.targets, st.C)
		e.push()
		e.emit(map[string]any{"ev": "remove", "c": st.C}, tr)
	case "trans":
		e.report(st.C, st.S, tr)
	case "repl":
		t := e.targets[st.C]
		t.kind = 1 - t.kind
		e.targets[st.C] = t
		e.push()
		e.emit(map[string]any{"ev": "repl", "c": st.C}, tr)
	case "wgt":
		t := e.targets[st.C]
		t.weight = t.weight%5 + 1
		e.targets[st.C] = t
		e.push()
		e.emit(map[string]any{"ev": "noop", "k": "weight"}, tr)
	case "cfgw":
		// a config update changing several targets at once: Cs = targets present afterwards,
		// Rp = those (already present) whose child policy type changes
		nt := map[int]wtbTarget{}
		for _, c := range st.Cs {
			t, ok := e.targets[c]
			if !ok {
				t = wtbTarget{weight: uint32(1 + c%3), kind: c % 2}
			}
			nt[c] = t
		}
		for _, c := range st.Rp {
			t := nt[c]
			t.kind = 1 - t.kind
			nt[c] = t
		}
		e.targets = nt
		e.push()
		cs, rp := st.Cs, st.Rp
		if cs == nil {
			cs = []int{}
		}
		if rp == nil {
			rp = []int{}
		}
		e.emit(map[string]any{"ev": "cfgw", "cs": cs, "rp": rp}, tr)
	}
}

func newTarget(tg string, variant int) target {
	switch tg {
	case "cse":
		return &cseTarget{st: map[int]connectivity.State{}}
	case "es":
		return newES(variant%2 == 0)
	case "wtb":
		return newWTB()
	}
	return newWT(variant%2 == 0)
}

func runSteps(tg string, variant int, steps []step, tr *vlib.Trace) {
	defer func() {
		if r := recover(); r != nil {
			tr.Emit(map[string]any{"ev": "panic", "msg": fmt.Sprint(r)})
		}
	}()
	t := newTarget(tg, variant)
	for _, st := range steps {
		if st.A == "repl" && tg != "wtb" {
			// the other components have no "replace": the child is removed and a new one added
			t.apply(step{A: "remove", C: st.C}, tr)
			t.apply(step{A: "add", C: st.C, S: "CONNECTING"}, tr)
			continue
		}
		t.apply(st, tr)
	}
	t.close()
}

func TestVerifC35Replay(t *testing.T) {
	lines, err := vlib.ReadLines(os.Getenv("VERIF_BEHAVIOURS"))
	if err != nil {
		t.Fatal(err)
	}
	tr, err := vlib.NewTrace(os.Getenv("VERIF_OUT"))
	if err != nil {
		t.Fatal(err)
	}
	defer tr.Close()
	for i, ln := range lines {
		var steps []step
		if err := json.Unmarshal(ln, &steps); err != nil {
			t.Fatal(err)
		}
		for _, tg := range []string{"cse", "es", "wt", "wtb"} {
			tr.Emit(map[string]any{"ev": "reset", "b": i, "tg": tg})
			runSteps(tg, i, steps, tr)
		}
	}
	fmt.Printf("VERIF_SUMMARY {\"behaviours\":%d,\"events\":%d}\n", 4*len(lines), tr.N)
}

// TestVerifC35Random: long seeded random input sequences inside the API's domain (only
// present children report; only absent ones are added).
func TestVerifC35Random(t *testing.T) {
	tr, err := vlib.NewTrace(os.Getenv("VERIF_OUT"))
	if err != nil {
		t.Fatal(err)
	}
	defer tr.Close()
	rng := rand.New(rand.NewSource(int64(vlib.EnvInt("VERIF_SEED", 1))))
	runs := vlib.EnvInt("VERIF_N", 100)
	states := []string{"CONNECTING", "READY", "IDLE", "TF"}
	for r := 0; r < runs; r++ {
		tg := []string{"cse", "es", "wt", "wtb", "wtb"}[r%5]
		nmax := 2 + rng.Intn(maxChildren-1)
		// bias towards a few states so that groups of equal state are frequent
		pal := states
		if rng.Intn(2) == 0 {
			pal = []string{states[rng.Intn(4)], states[rng.Intn(4)]}
		}
		present := map[int]bool{}
		var steps []step
		n := 5 + rng.Intn(40)
		for k := 0; k < n; k++ {
			var in, out []int
			for c := 1; c <= nmax; c++ {
				if present[c] {
					in = append(in, c)
				} else {
					out = append(out, c)
				}
			}
			x := rng.Intn(12)
			switch {
			case tg == "es" && x == 0:
				// a resolver update with an arbitrary endpoint list (duplicates allowed)
				m := rng.Intn(nmax + 2)
				cs := []int{}
				for i := 0; i < m; i++ {
					cs = append(cs, 1+rng.Intn(nmax))
				}
				init := make([]string, maxChildren)
				for i := range init {
					init[i] = pal[rng.Intn(len(pal))]
				}
				steps = append(steps, step{A: "eps", Cs: cs, Init: init})
				present = map[int]bool{}
				for _, c := range cs {
					present[c] = true
				}
			case tg == "wtb" && x == 0:
				// config update touching several targets
				var cs, rp []int
				for c := 1; c <= nmax; c++ {
					if rng.Intn(3) != 0 {
						cs = append(cs, c)
						if present[c] && rng.Intn(3) == 0 {
							rp = append(rp, c)
						}
					}
				}
				steps = append(steps, step{A: "cfgw", Cs: cs, Rp: rp})
				present = map[int]bool{}
				for _, c := range cs {
					present[c] = true
				}
			case tg == "wtb" && x <= 2 && len(in) > 0:
				steps = append(steps, step{A: []string{"repl", "repl", "wgt"}[rng.Intn(3)], C: in[rng.Intn(len(in))]})
			case tg == "es" && x == 1:
				steps = append(steps, step{A: "noop", K: []string{"reserr", "exitidle"}[rng.Intn(2)]})
			case (x <= 3 || len(in) == 0) && len(out) > 0:
				c := out[rng.Intn(len(out))]
				steps = append(steps, step{A: "add", C: c, S: pal[rng.Intn(len(pal))]})
				present[c] = true
			case x == 4 && len(in) > 0:
				c := in[rng.Intn(len(in))]
				steps = append(steps, step{A: "remove", C: c})
				delete(present, c)
			case len(in) > 0:
				c := in[rng.Intn(len(in))]
				steps = append(steps, step{A: "trans", C: c, S: pal[rng.Intn(len(pal))]})
			}
		}
		tr.Emit(map[string]any{"ev": "reset", "b": r, "tg": tg})
		runSteps(tg, rng.Intn(2), steps, tr)
	}
	fmt.Printf("VERIF_SUMMARY {\"behaviours\":%d,\"events\":%d}\n", runs, tr.N)
}
