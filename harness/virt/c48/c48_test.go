package c48

// Driver for C48: builds real RBAC protos / authorization-policy JSON from the abstract inputs
// exported by TLC (specs/RBACMC.tla), evaluates them with rbac.ChainEngine.IsAuthorized and the
// authz.StaticInterceptor on contexts built from the abstract requests, and records the
// decisions.  It never judges: TLC validates the trace against specs/RBAC.tla.

import (
	"context"
	"crypto/tls"
	"crypto/x509"
	"crypto/x509/pkix"
	"encoding/json"
	"fmt"
	"net"
	"net/url"
	"os"
	"testing"
	"time"

	v3corepb "github.com/envoyproxy/go-control-plane/envoy/config/core/v3"
	v3rbacpb "github.com/envoyproxy/go-control-plane/envoy/config/rbac/v3"
	v3routepb "github.com/envoyproxy/go-control-plane/envoy/config/route/v3"
	v3matcherpb "github.com/envoyproxy/go-control-plane/envoy/type/matcher/v3"
	"google.golang.org/grpc"
	"google.golang.org/grpc/authz"
	"google.golang.org/grpc/codes"
	"google.golang.org/grpc/credentials"
	"google.golang.org/grpc/internal/transport"
	"google.golang.org/grpc/internal/xds/rbac"
	"google.golang.org/grpc/internal/zzverif/vlib"
	"google.golang.org/grpc/metadata"
	"google.golang.org/grpc/peer"
	"google.golang.org/grpc/status"
	"google.golang.org/protobuf/types/known/wrapperspb"
)

type bs []int

func (b bs) str() string {
	out := make([]byte, len(b))
	for i, v := range b {
		out[i] = byte(v)
	}
	return string(out)
}

type tree struct {
	K   string `json:"k"`
	C   []tree `json:"c"`
	N   string `json:"n"`
	M   string `json:"m"`
	V   bs     `json:"v"`
	F   int    `json:"f"`
	A   int    `json:"a"`
	L   int    `json:"l"`
	P   uint32 `json:"p"`
	Inv bool   `json:"inv"`
}

type policy struct {
	Perms []tree `json:"perms"`
	Prins []tree `json:"prins"`
}

type engine struct {
	Action   string   `json:"action"`
	Policies []policy `json:"policies"`
}

type req struct {
	Path bs   `json:"path"`
	Hv   []bs `json:"hv"`
	Fam  int  `json:"fam"`
	Src  int  `json:"src"`
	Dst  int  `json:"dst"`
	Port int  `json:"port"`
	Auth string
	Cert int  `json:"cert"`
	Uris []bs `json:"uris"`
	Dns  []bs `json:"dns"`
	Cn   bs   `json:"cn"`
}

type hdr struct {
	Key  string `json:"key"`
	Vals []bs   `json:"vals"`
}

type rule struct {
	Name  bs    `json:"name"`
	Prins []bs  `json:"prins"`
	Paths []bs  `json:"paths"`
	Hdrs  []hdr `json:"hdrs"`
}

type apolicy struct {
	Name  bs     `json:"name"`
	Deny  []rule `json:"deny"`
	Allow []rule `json:"allow"`
}

type input struct {
	Kind    string          `json:"kind"`
	Reqs    json.RawMessage `json:"reqs"`
	Engines json.RawMessage `json:"engines"`
	Policy  json.RawMessage `json:"policy"`
	Ri      []int           `json:"ri"`
}

func strMatcher(m string, v bs) *v3matcherpb.StringMatcher {
	switch m {
	case "exact":
		return &v3matcherpb.StringMatcher{MatchPattern: &v3matcherpb.StringMatcher_Exact{Exact: v.str()}}
	case "prefix":
		return &v3matcherpb.StringMatcher{MatchPattern: &v3matcherpb.StringMatcher_Prefix{Prefix: v.str()}}
	case "suffix":
		return &v3matcherpb.StringMatcher{MatchPattern: &v3matcherpb.StringMatcher_Suffix{Suffix: v.str()}}
	case "contains":
		return &v3matcherpb.StringMatcher{MatchPattern: &v3matcherpb.StringMatcher_Contains{Contains: v.str()}}
	case "nonempty":
		return &v3matcherpb.StringMatcher{MatchPattern: &v3matcherpb.StringMatcher_SafeRegex{SafeRegex: &v3matcherpb.RegexMatcher{Regex: ".+"}}}
	}
	panic("c48: unknown string matcher " + m)
}

func hdrMatcher(t tree) *v3routepb.HeaderMatcher {
	h := &v3routepb.HeaderMatcher{Name: t.N}
	switch t.M {
	case "exact":
		h.HeaderMatchSpecifier = &v3routepb.HeaderMatcher_ExactMatch{ExactMatch: t.V.str()}
	case "prefix":
		h.HeaderMatchSpecifier = &v3routepb.HeaderMatcher_PrefixMatch{PrefixMatch: t.V.str()}
	case "suffix":
		h.HeaderMatchSpecifier = &v3routepb.HeaderMatcher_SuffixMatch{SuffixMatch: t.V.str()}
	case "contains":
		// the string_match form of the header matcher
		h.HeaderMatchSpecifier = &v3routepb.HeaderMatcher_StringMatch{StringMatch: strMatcher("contains", t.V)}
	case "present":
		h.HeaderMatchSpecifier = &v3routepb.HeaderMatcher_PresentMatch{PresentMatch: true}
	case "nonempty":
		h.HeaderMatchSpecifier = &v3routepb.HeaderMatcher_SafeRegexMatch{SafeRegexMatch: &v3matcherpb.RegexMatcher{Regex: ".+"}}
	default:
		panic("c48: unknown header matcher " + t.M)
	}
	return h
}

func ipOf(fam, a int) net.IP {
	if fam == 4 {
		return net.IPv4(10, 0, 0, byte(a))
	}
	return net.ParseIP(fmt.Sprintf("fd00::%x", a))
}

func cidr(t tree) *v3corepb.CidrRange {
	base := uint32(28)
	if t.F == 6 {
		base = 124
	}
	return &v3corepb.CidrRange{AddressPrefix: ipOf(t.F, t.A).String(), PrefixLen: wrapperspb.UInt32(base + uint32(t.L))}
}

func perm(t tree) *v3rbacpb.Permission {
	switch t.K {
	case "any":
		return &v3rbacpb.Permission{Rule: &v3rbacpb.Permission_Any{Any: true}}
	case "and", "or":
		var rs []*v3rbacpb.Permission
		for _, c := range t.C {
			rs = append(rs, perm(c))
		}
		if t.K == "and" {
			return &v3rbacpb.Permission{Rule: &v3rbacpb.Permission_AndRules{AndRules: &v3rbacpb.Permission_Set{Rules: rs}}}
		}
		return &v3rbacpb.Permission{Rule: &v3rbacpb.Permission_OrRules{OrRules: &v3rbacpb.Permission_Set{Rules: rs}}}
	case "not":
		return &v3rbacpb.Permission{Rule: &v3rbacpb.Permission_NotRule{NotRule: perm(t.C[0])}}
	case "hdr":
		return &v3rbacpb.Permission{Rule: &v3rbacpb.Permission_Header{Header: hdrMatcher(t)}}
	case "path":
		return &v3rbacpb.Permission{Rule: &v3rbacpb.Permission_UrlPath{UrlPath: &v3matcherpb.PathMatcher{Rule: &v3matcherpb.PathMatcher_Path{Path: strMatcher(t.M, t.V)}}}}
	case "dip":
		return &v3rbacpb.Permission{Rule: &v3rbacpb.Permission_DestinationIp{DestinationIp: cidr(t)}}
	case "port":
		return &v3rbacpb.Permission{Rule: &v3rbacpb.Permission_DestinationPort{DestinationPort: t.P}}
	case "meta":
		return &v3rbacpb.Permission{Rule: &v3rbacpb.Permission_Metadata{Metadata: &v3matcherpb.MetadataMatcher{Invert: t.Inv}}}
	case "sni":
		return &v3rbacpb.Permission{Rule: &v3rbacpb.Permission_RequestedServerName{RequestedServerName: strMatcher(t.M, t.V)}}
	}
	panic("c48: not a permission: " + t.K)
}

func prin(t tree) *v3rbacpb.Principal {
	switch t.K {
	case "any":
		return &v3rbacpb.Principal{Identifier: &v3rbacpb.Principal_Any{Any: true}}
	case "and", "or":
		var rs []*v3rbacpb.Principal
		for _, c := range t.C {
			rs = append(rs, prin(c))
		}
		if t.K == "and" {
			return &v3rbacpb.Principal{Identifier: &v3rbacpb.Principal_AndIds{AndIds: &v3rbacpb.Principal_Set{Ids: rs}}}
		}
		return &v3rbacpb.Principal{Identifier: &v3rbacpb.Principal_OrIds{OrIds: &v3rbacpb.Principal_Set{Ids: rs}}}
	case "not":
		return &v3rbacpb.Principal{Identifier: &v3rbacpb.Principal_NotId{NotId: prin(t.C[0])}}
	case "hdr":
		return &v3rbacpb.Principal{Identifier: &v3rbacpb.Principal_Header{Header: hdrMatcher(t)}}
	case "path":
		return &v3rbacpb.Principal{Identifier: &v3rbacpb.Principal_UrlPath{UrlPath: &v3matcherpb.PathMatcher{Rule: &v3matcherpb.PathMatcher_Path{Path: strMatcher(t.M, t.V)}}}}
	case "sip":
		// direct_remote_ip, source_ip and remote_ip are equivalent in gRPC (A41)
		switch (t.A + t.L) % 3 {
		case 0:
			return &v3rbacpb.Principal{Identifier: &v3rbacpb.Principal_DirectRemoteIp{DirectRemoteIp: cidr(t)}}
		case 1:
			return &v3rbacpb.Principal{Identifier: &v3rbacpb.Principal_SourceIp{SourceIp: cidr(t)}}
		}
		return &v3rbacpb.Principal{Identifier: &v3rbacpb.Principal_RemoteIp{RemoteIp: cidr(t)}}
	case "auth":
		a := &v3rbacpb.Principal_Authenticated{}
		if t.M != "none" {
			a.PrincipalName = strMatcher(t.M, t.V)
		}
		return &v3rbacpb.Principal{Identifier: &v3rbacpb.Principal_Authenticated_{Authenticated: a}}
	case "meta":
		return &v3rbacpb.Principal{Identifier: &v3rbacpb.Principal_Metadata{Metadata: &v3matcherpb.MetadataMatcher{Invert: t.Inv}}}
	}
	panic("c48: not a principal: " + t.K)
}

func rbacOf(e engine) *v3rbacpb.RBAC {
	out := &v3rbacpb.RBAC{Action: v3rbacpb.RBAC_ALLOW, Policies: map[string]*v3rbacpb.Policy{}}
	if e.Action == "DENY" {
		out.Action = v3rbacpb.RBAC_DENY
	}
	for i, p := range e.Policies {
		pp := &v3rbacpb.Policy{}
		for _, t := range p.Perms {
			pp.Permissions = append(pp.Permissions, perm(t))
		}
		for _, t := range p.Prins {
			pp.Principals = append(pp.Principals, prin(t))
		}
		out.Policies[fmt.Sprintf("p%d", i)] = pp
	}
	return out
}

type fakeConn struct {
	net.Conn
	local net.Addr
}

func (c fakeConn) LocalAddr() net.Addr { return c.local }

type fakeStream struct{ method string }

func (s *fakeStream) Method() string               { return s.method }
func (s *fakeStream) SetHeader(metadata.MD) error  { return nil }
func (s *fakeStream) SendHeader(metadata.MD) error { return nil }
func (s *fakeStream) SetTrailer(metadata.MD) error { return nil }

type fakeServerStream struct {
	grpc.ServerStream
	ctx context.Context
}

func (s fakeServerStream) Context() context.Context { return s.ctx }

func ctxOf(r req) context.Context {
	ctx := context.Background()
	md := metadata.MD{}
	if len(r.Hv) > 0 {
		var vs []string
		for _, v := range r.Hv {
			vs = append(vs, v.str())
		}
		md["x-k"] = vs
	}
	ctx = metadata.NewIncomingContext(ctx, md)
	p := &peer.Peer{Addr: &net.TCPAddr{IP: ipOf(r.Fam, r.Src), Port: 40000 + r.Src}}
	if r.Auth == "tls" {
		st := tls.ConnectionState{}
		if r.Cert == 1 {
			c := &x509.Certificate{}
			for _, u := range r.Uris {
				pu, err := url.Parse(u.str())
				if err != nil {
					panic(err)
				}
				c.URIs = append(c.URIs, pu)
			}
			for _, d := range r.Dns {
				c.DNSNames = append(c.DNSNames, d.str())
			}
			if len(r.Cn) > 0 {
				c.Subject = pkix.Name{CommonName: r.Cn.str()}
			}
			st.PeerCertificates = []*x509.Certificate{c}
		}
		p.AuthInfo = credentials.TLSInfo{State: st, CommonAuthInfo: credentials.CommonAuthInfo{SecurityLevel: credentials.PrivacyAndIntegrity}}
	}
	ctx = peer.NewContext(ctx, p)
	ctx = grpc.NewContextWithServerTransportStream(ctx, &fakeStream{method: r.Path.str()})
	ctx = transport.SetConnection(ctx, fakeConn{local: &net.TCPAddr{IP: ipOf(r.Fam, r.Dst), Port: r.Port}})
	return ctx
}

func code(err error) int {
	if err == nil {
		return 1
	}
	if status.Code(err) == codes.PermissionDenied {
		return 0
	}
	return 2
}

func strs(b []bs) []string {
	out := []string{}
	for _, x := range b {
		out = append(out, x.str())
	}
	return out
}

func rulesJSON(rs []rule) []map[string]any {
	var out []map[string]any
	for _, u := range rs {
		m := map[string]any{"name": u.Name.str()}
		if len(u.Prins) > 0 {
			m["source"] = map[string]any{"principals": strs(u.Prins)}
		}
		rq := map[string]any{}
		if len(u.Paths) > 0 {
			rq["paths"] = strs(u.Paths)
		}
		if len(u.Hdrs) > 0 {
			var hs []map[string]any
			for _, h := range u.Hdrs {
				hs = append(hs, map[string]any{"key": h.Key, "values": strs(h.Vals)})
			}
			rq["headers"] = hs
		}
		if len(rq) > 0 {
			m["request"] = rq
		}
		out = append(out, m)
	}
	return out
}

func policyJSON(p apolicy) string {
	m := map[string]any{"name": p.Name.str()}
	if len(p.Deny) > 0 {
		m["deny_rules"] = rulesJSON(p.Deny)
	}
	if len(p.Allow) > 0 {
		m["allow_rules"] = rulesJSON(p.Allow)
	}
	b, err := json.Marshal(m)
	if err != nil {
		panic(err)
	}
	return string(b)
}

func TestVerifC48(t *testing.T) {
	tr, err := vlib.NewTrace(os.Getenv("VERIF_OUT"))
	if err != nil {
		t.Fatal(err)
	}
	defer tr.Close()
	lines, err := vlib.ReadLines(os.Getenv("VERIF_BEHAVIOURS"))
	if err != nil {
		t.Fatal(err)
	}
	var reqs []req
	nEval, nAllow := 0, 0
	t0 := time.Now()
	for n, ln := range lines {
		var in input
		if err := json.Unmarshal(ln, &in); err != nil {
			t.Fatalf("line %d: %v", n+1, err)
		}
		switch in.Kind {
		case "reqs":
			reqs = nil
			if err := json.Unmarshal(in.Reqs, &reqs); err != nil {
				t.Fatalf("line %d: %v", n+1, err)
			}
			tr.Emit(map[string]any{"ev": "reqs", "reqs": in.Reqs})
		case "chain":
			func() {
				defer func() {
					if r := recover(); r != nil {
						tr.Emit(map[string]any{"ev": "panic", "what": "chain", "r": fmt.Sprint(r), "line": n + 1})
					}
				}()
				var es []engine
				if err := json.Unmarshal(in.Engines, &es); err != nil {
					t.Fatalf("line %d: %v", n+1, err)
				}
				var pbs []*v3rbacpb.RBAC
				for _, e := range es {
					pbs = append(pbs, rbacOf(e))
				}
				ce, err := rbac.NewChainEngine(pbs, "verif")
				dec := []int{}
				if err == nil {
					for _, i := range in.Ri {
						d := code(ce.IsAuthorized(ctxOf(reqs[i])))
						nEval++
						nAllow += d & 1
						dec = append(dec, d)
					}
				}
				ev := map[string]any{"ev": "chain", "engines": in.Engines, "built": err == nil, "ri": in.Ri, "dec": dec}
				if err != nil {
					ev["err"] = err.Error()
				}
				tr.Emit(ev)
			}()
		case "authz":
			func() {
				defer func() {
					if r := recover(); r != nil {
						tr.Emit(map[string]any{"ev": "panic", "what": "authz", "r": fmt.Sprint(r), "line": n + 1})
					}
				}()
				var p apolicy
				if err := json.Unmarshal(in.Policy, &p); err != nil {
					t.Fatalf("line %d: %v", n+1, err)
				}
				js := policyJSON(p)
				ic, err := authz.NewStatic(js)
				dec := []int{}
				if err == nil {
					for k, i := range in.Ri {
						ctx := ctxOf(reqs[i])
						called := false
						var ierr error
						if k%2 == 0 {
							_, ierr = ic.UnaryInterceptor(ctx, nil, &grpc.UnaryServerInfo{FullMethod: reqs[i].Path.str()},
								func(context.Context, any) (any, error) { called = true; return nil, nil })
						} else {
							ierr = ic.StreamInterceptor(nil, fakeServerStream{ctx: ctx}, &grpc.StreamServerInfo{FullMethod: reqs[i].Path.str()},
								func(any, grpc.ServerStream) error { called = true; return nil })
						}
						d := code(ierr)
						if called != (ierr == nil) {
							d = 2 // handler invoked although rejected, or not invoked although allowed
						}
						nEval++
						nAllow += d & 1
						dec = append(dec, d)
					}
				}
				ev := map[string]any{"ev": "authz", "policy": in.Policy, "ok": err == nil, "ri": in.Ri, "dec": dec, "json": js}
				if err != nil {
					ev["err"] = err.Error()
				}
				tr.Emit(ev)
			}()
		default:
			t.Fatalf("line %d: unknown kind %q", n+1, in.Kind)
		}
	}
	fmt.Printf("VERIF_SUMMARY {\"inputs\":%d,\"evaluations\":%d,\"allowed\":%d,\"ms\":%d}\n", len(lines), nEval, nAllow, time.Since(t0).Milliseconds())
}
