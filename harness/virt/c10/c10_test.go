package c10

// Driver for C10 (a handler's status reaches the client unchanged).  Executes the cases TLC
// enumerated (WireStatusMC: one MC state per case) end to end: real grpc.NewClient <-> real
// grpc.NewServer over test/bufconn with the raw codec.  The server registers one service built by
// hand (no generated code): a unary method, a server-streaming method, and the same handler as
// UnknownServiceHandler.  The handler returns status.FromProto(case).Err(); the client records
// status.FromError of what it got.  The driver records one "status" line per case; it never judges.

import (
	"context"
	"encoding/json"
	"fmt"
	"io"
	"net"
	"strconv"
	"sync"
	"testing"
	"time"

	spb "google.golang.org/genproto/googleapis/rpc/status"
	"google.golang.org/grpc"
	"google.golang.org/grpc/credentials/insecure"
	"google.golang.org/grpc/internal/zzverif/vlib"
	"google.golang.org/grpc/internal/zzverif/vlib/rawh2"
	"google.golang.org/grpc/metadata"
	"google.golang.org/grpc/status"
	"google.golang.org/grpc/test/bufconn"
	"google.golang.org/protobuf/types/known/anypb"
)

type tdet struct {
	T string `json:"t"`
	V []int  `json:"v"`
}

type tcase struct {
	ID   int    `json:"id"`
	Mode string `json:"mode"` // unary | s0 | s1 | s0h | u0h (see handler)
	Code string `json:"code"` // decimal uint32
	Msg  []int  `json:"msg"`
	Det  []tdet `json:"det"`
}

const lastResort = 30 * time.Second

func toBytes(v []int) []byte {
	b := make([]byte, len(v))
	for i, x := range v {
		b[i] = byte(x)
	}
	return b
}

// handlerStatus builds the error the handler returns for the case.
func handlerStatus(c *tcase) error {
	code, err := strconv.ParseUint(c.Code, 10, 32)
	if err != nil {
		panic(err)
	}
	p := &spb.Status{Code: int32(uint32(code)), Message: string(toBytes(c.Msg))}
	for _, d := range c.Det {
		p.Details = append(p.Details, &anypb.Any{TypeUrl: d.T, Value: toBytes(d.V)})
	}
	return status.FromProto(p).Err() // nil when the code is OK
}

type server struct {
	mu    sync.Mutex
	cases map[int]*tcase
}

func (s *server) lookup(req []byte) *tcase {
	id, err := strconv.Atoi(string(req))
	if err != nil {
		panic(fmt.Sprintf("bad request payload %q", req))
	}
	s.mu.Lock()
	defer s.mu.Unlock()
	return s.cases[id]
}

// unary is the MethodDesc handler of /verif.S/U.
func (s *server) unary(_ any, ctx context.Context, dec func(any) error, _ grpc.UnaryServerInterceptor) (any, error) {
	var req []byte
	if err := dec(&req); err != nil {
		return nil, err
	}
	c := s.lookup(req)
	if c.Mode == "u0h" {
		grpc.SetHeader(ctx, metadata.Pairs("x-verif", "h"))
	}
	if err := handlerStatus(c); err != nil {
		return nil, err
	}
	out := []byte("ok")
	return &out, nil
}

// stream is the StreamDesc handler of /verif.S/SS and the unknown-service handler.
func (s *server) stream(_ any, ss grpc.ServerStream) error {
	var req []byte
	if err := ss.RecvMsg(&req); err != nil {
		return err
	}
	c := s.lookup(req)
	switch c.Mode {
	case "s1":
		out := []byte("m1")
		if err := ss.SendMsg(&out); err != nil {
			return err
		}
	case "s0h":
		ss.SetHeader(metadata.Pairs("x-verif", "h"))
	}
	return handlerStatus(c)
}

func emitCase(tr *vlib.Trace, c *tcase, err error, nmsg int, stuck bool) {
	ev := map[string]any{"ev": "status", "id": c.ID, "mode": c.Mode, "code": c.Code, "msg": c.Msg, "det": c.Det,
		"nmsg": nmsg, "stuck": stuck}
	if c.Msg == nil {
		ev["msg"] = []int{}
	}
	if c.Det == nil {
		ev["det"] = []tdet{}
	}
	odet := []tdet{}
	if err == nil {
		ev["nil"], ev["ocode"], ev["omsg"], ev["isstatus"] = true, "0", []int{}, true
	} else {
		st, ok := status.FromError(err)
		ev["nil"], ev["isstatus"] = false, ok
		ev["ocode"] = strconv.FormatUint(uint64(uint32(st.Code())), 10)
		ev["omsg"] = vlib.Bytes(st.Message())
		for _, a := range st.Proto().GetDetails() {
			odet = append(odet, tdet{T: a.GetTypeUrl(), V: vlib.Bytes(string(a.GetValue()))})
		}
	}
	ev["odet"] = odet
	tr.Emit(ev)
}

func TestVerifC10Table(t *testing.T) {
	lines, err := vlib.ReadLines(vlib.Env("VERIF_BEHAVIOURS", ""))
	if err != nil {
		t.Fatal(err)
	}
	tr, err := vlib.NewTrace(vlib.Env("VERIF_OUT", "c10-trace.ndjson"))
	if err != nil {
		t.Fatal(err)
	}
	defer tr.Close()
	var cases []*tcase
	srvImpl := &server{cases: map[int]*tcase{}}
	for _, l := range lines {
		c := &tcase{}
		if err := json.Unmarshal(l, c); err != nil {
			t.Fatal(err)
		}
		cases = append(cases, c)
		srvImpl.cases[c.ID] = c
	}

	lis := bufconn.Listen(1 << 20)
	defer lis.Close()
	srv := grpc.NewServer(grpc.ForceServerCodec(rawh2.RawCodec{}), grpc.UnknownServiceHandler(func(s any, ss grpc.ServerStream) error {
		return srvImpl.stream(s, ss)
	}))
	srv.RegisterService(&grpc.ServiceDesc{
		ServiceName: "verif.S",
		HandlerType: (*any)(nil),
		Methods:     []grpc.MethodDesc{{MethodName: "U", Handler: srvImpl.unary}},
		Streams:     []grpc.StreamDesc{{StreamName: "SS", Handler: srvImpl.stream, ServerStreams: true}},
	}, srvImpl)
	go srv.Serve(lis)
	defer srv.Stop()
	cc, err := grpc.NewClient("passthrough:///verif",
		grpc.WithTransportCredentials(insecure.NewCredentials()),
		grpc.WithContextDialer(func(ctx context.Context, _ string) (net.Conn, error) { return lis.DialContext(ctx) }),
		grpc.WithDefaultCallOptions(grpc.ForceCodec(rawh2.RawCodec{})))
	if err != nil {
		t.Fatal(err)
	}
	defer cc.Close()

	n := 0
	for _, c := range cases {
		func() {
			defer func() {
				if r := recover(); r != nil {
					tr.Emit(map[string]any{"ev": "panic", "id": c.ID, "what": fmt.Sprint(r)})
				}
			}()
			ctx, cancel := context.WithTimeout(context.Background(), lastResort)
			defer cancel()
			req := []byte(strconv.Itoa(c.ID))
			var rpcErr error
			nmsg := 0
			switch c.Mode {
			case "unary", "u0h":
				var resp []byte
				rpcErr = cc.Invoke(ctx, "/verif.S/U", &req, &resp)
				if rpcErr == nil {
					nmsg = 1
				}
			default:
				method := "/verif.S/SS"
				if c.ID%2 == 1 {
					method = "/verif.Unknown/X" // the unknown-service path
				}
				cs, err := cc.NewStream(ctx, &grpc.StreamDesc{ServerStreams: true}, method)
				if err == nil {
					if err = cs.SendMsg(&req); err == io.EOF {
						err = nil // the stream already ended: RecvMsg yields the status
					}
				}
				if err == nil {
					err = cs.CloseSend()
				}
				for err == nil {
					var resp []byte
					if err = cs.RecvMsg(&resp); err == nil {
						nmsg++
					}
				}
				if err == io.EOF {
					err = nil
				}
				rpcErr = err
			}
			emitCase(tr, c, rpcErr, nmsg, ctx.Err() != nil)
			n++
		}()
	}
	fmt.Printf("VERIF_SUMMARY {\"cases\":%d}\n", n)
}
