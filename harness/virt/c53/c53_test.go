package c53

// Driver for C53: sequential replay of TLC behaviours (and seeded random operation sequences)
// on the real mem package with a tracking BufferPool that numbers backing arrays, records every
// Get / Put and POISONS an array when it is Put (so a reference that outlives its array reads
// wrong bytes).  The driver only drives and records; MemBufTrace.tla judges.

import (
	"encoding/json"
	"fmt"
	"io"
	"math/rand"
	"os"
	"reflect"
	"runtime"
	"runtime/debug"
	"testing"

	imem "google.golang.org/grpc/internal/mem"
	"google.golang.org/grpc/internal/zzverif/vlib"
	"google.golang.org/grpc/mem"
)

const (
	unitU  = 600 // pattern granularity (constant U of MemBufTrace.cfg)
	thr    = 1024
	poison = 0xFF
)

type trackPool struct {
	inner  mem.BufferPool // nil: exact allocation
	minCap int
	ids    map[*byte]int
	keep   [][]byte // keeps every array alive so that ids are never reused
	gets   [][]any
	puts   []int
}

func newTrackPool(inner mem.BufferPool) *trackPool {
	return &trackPool{inner: inner, ids: map[*byte]int{}}
}

func (p *trackPool) idOf(b []byte) int {
	if cap(b) == 0 {
		return 0
	}
	base := &b[:1][0]
	if id, ok := p.ids[base]; ok {
		return id
	}
	id := len(p.ids) + 1
	p.ids[base] = id
	p.keep = append(p.keep, b[:cap(b)])
	return id
}

func allZero(b []byte) bool {
	for _, x := range b {
		if x != 0 {
			return false
		}
	}
	return true
}

func (p *trackPool) Get(n int) *[]byte {
	var buf *[]byte
	if p.inner != nil {
		buf = p.inner.Get(n)
	} else {
		c := n
		if p.minCap > c {
			c = p.minCap
		}
		b := make([]byte, n, c)
		buf = &b
	}
	p.gets = append(p.gets, []any{p.idOf(*buf), n, len(*buf), cap(*buf), allZero(*buf)})
	return buf
}

func (p *trackPool) Put(buf *[]byte) {
	b := (*buf)[:cap(*buf)]
	p.puts = append(p.puts, p.idOf(b))
	for i := range b {
		b[i] = poison
	}
	if p.inner != nil {
		p.inner.Put(buf)
	}
}

func (p *trackPool) take() (gets [][]any, puts []int) {
	gets, puts = p.gets, p.puts
	p.gets, p.puts = nil, nil
	if gets == nil {
		gets = [][]any{}
	}
	if puts == nil {
		puts = []int{}
	}
	return
}

func rle(b []byte) [][2]int {
	out := [][2]int{}
	for i := 0; i < len(b); {
		j := i
		for j < len(b) && b[j] == b[i] {
			j++
		}
		out = append(out, [2]int{int(b[i]), j - i})
		i = j
	}
	return out
}

func fillPattern(b []byte, r int) {
	for i := range b {
		b[i] = byte(r*16 + i/unitU)
	}
}

func sameObj(a, b mem.Buffer) bool {
	if a == nil || b == nil {
		return false
	}
	va, vb := reflect.ValueOf(a), reflect.ValueOf(b)
	return va.Kind() == reflect.Ptr && vb.Kind() == reflect.Ptr && va.Pointer() == vb.Pointer()
}

// sameVal: identity for MaterializeToBuffer's single-element shortcut: value-typed buffers
// (SliceBuffer, emptyBuffer) have no object identity, the same value is the same reference.
func sameVal(a, b mem.Buffer) bool {
	if sameObj(a, b) {
		return true
	}
	if a == nil || b == nil {
		return false
	}
	va, vb := reflect.ValueOf(a), reflect.ValueOf(b)
	if va.Kind() != vb.Kind() || va.Type() != vb.Type() {
		return false
	}
	switch va.Kind() {
	case reflect.Slice:
		return va.Len() == vb.Len() && va.Pointer() == vb.Pointer()
	case reflect.Struct:
		return va.NumField() == 0
	}
	return false
}

type step struct {
	A      string `json:"a"`
	H      int    `json:"h"`
	Sz     int    `json:"sz"`
	Kind   string `json:"kind"`
	Pooled bool   `json:"pooled"`
	X      int    `json:"x"`
	Y      int    `json:"y"`
	N      int    `json:"n"`
	K      int    `json:"k"`
	S      []int  `json:"s"`
}

type env struct {
	pool   *trackPool
	hs     []mem.Buffer // handle h is hs[h-1]
	held   []int        // the driver's own references (mirror, to know what may still be touched)
	nroots int
	rd     *mem.Reader
	rdSet  map[int]bool // handles given to the open reader (conservative: until Close)
	exact  bool
}

func newEnv(inner mem.BufferPool) *env {
	return &env{pool: newTrackPool(inner), exact: inner == nil, rdSet: map[int]bool{}}
}

func (e *env) add(b mem.Buffer) int {
	e.hs = append(e.hs, b)
	e.held = append(e.held, 1)
	return len(e.hs)
}

func (e *env) slice(s []int) mem.BufferSlice {
	out := make(mem.BufferSlice, len(s))
	for i, h := range s {
		out[i] = e.hs[h-1]
	}
	return out
}

// apply executes one step and emits its event; returns false when the code panicked.
func (e *env) apply(st step, tr *vlib.Trace) (ok bool) {
	ev := map[string]any{"ev": "op", "a": st.A, "panic": ""}
	defer func() {
		if r := recover(); r != nil {
			ev["panic"] = fmt.Sprint(r)
			ev["gets"], ev["puts"] = e.pool.take()
			ev["live"] = [][]any{}
			tr.Emit(ev)
			ok = false
		}
	}()
	switch st.A {
	case "newroot":
		ev["sz"], ev["kind"] = st.Sz, st.Kind
		e.nroots++
		e.pool.minCap = 0
		if st.Kind == "copy" {
			data := make([]byte, st.Sz)
			fillPattern(data, e.nroots)
			e.add(mem.Copy(data, e.pool))
		} else {
			if st.Pooled {
				e.pool.minCap = thr + 1
			}
			buf := e.pool.Get(st.Sz)
			fillPattern(*buf, e.nroots)
			e.add(mem.NewBuffer(buf, e.pool))
		}
	case "ref":
		ev["h"] = st.H
		e.hs[st.H-1].Ref()
		e.held[st.H-1]++
	case "free":
		ev["h"] = st.H
		e.hs[st.H-1].Free()
		e.held[st.H-1]--
	case "slice":
		ev["h"], ev["x"], ev["y"] = st.H, st.X, st.Y
		nb := e.hs[st.H-1].Slice(st.X, st.Y)
		same := sameObj(nb, e.hs[st.H-1])
		ev["same"] = same
		if same {
			e.held[st.H-1]++
		} else {
			e.add(nb)
		}
	case "split":
		ev["h"], ev["n"] = st.H, st.N
		l, r := mem.SplitUnsafe(e.hs[st.H-1], st.N)
		e.hs[st.H-1] = l
		e.add(r)
	case "read":
		ev["h"], ev["k"] = st.H, st.K
		dst := make([]byte, st.K)
		n, rest := mem.ReadUnsafe(dst, e.hs[st.H-1])
		ev["res"] = map[string]any{"n": n, "nil": rest == nil, "segs": rle(dst[:n])}
		if rest == nil {
			e.held[st.H-1]--
		} else {
			e.hs[st.H-1] = rest
		}
	case "reader":
		ev["s"] = st.S
		e.rd = e.slice(st.S).Reader()
		for _, h := range st.S {
			e.rdSet[h] = true
		}
	case "rdread":
		ev["k"] = st.K
		dst := make([]byte, st.K)
		n, err := e.rd.Read(dst)
		ev["res"] = map[string]any{"n": n, "eof": err == io.EOF, "segs": rle(dst[:n])}
	case "rddiscard":
		ev["k"] = st.K
		n, err := e.rd.Discard(st.K)
		ev["res"] = map[string]any{"n": n, "err": err != nil}
	case "rdbyte":
		b, err := e.rd.ReadByte()
		ev["res"] = map[string]any{"b": int(b), "eof": err == io.EOF}
	case "rdpeek":
		ev["k"] = st.K
		views, err := e.rd.Peek(st.K, nil)
		var all []byte
		for _, v := range views {
			all = append(all, v...)
		}
		ev["res"] = map[string]any{"err": err != nil, "segs": rle(all)}
	case "rdclose":
		e.rd.Close()
		e.rd = nil
		e.rdSet = map[int]bool{}
	case "readall":
		e.pool.minCap = 0
		res, err := mem.ReadAll(e.rd, e.pool)
		for _, b := range res {
			e.nroots++
			e.add(b)
		}
		ev["res"] = map[string]any{"nbuf": len(res), "err": err != nil}
	case "mat":
		ev["s"] = st.S
		e.pool.minCap = 0
		if st.Pooled {
			e.pool.minCap = thr + 1
		}
		s := e.slice(st.S)
		nb := s.MaterializeToBuffer(e.pool)
		same := len(st.S) == 1 && sameVal(nb, e.hs[st.S[0]-1])
		ev["same"] = same
		if same {
			e.held[st.S[0]-1]++
		} else {
			if s.Len() > 0 {
				e.nroots++
			}
			e.add(nb)
		}
	default:
		panic("unknown step " + st.A)
	}
	ev["gets"], ev["puts"] = e.pool.take()
	live := [][]any{}
	for i, b := range e.hs {
		if e.held[i] > 0 {
			live = append(live, []any{i + 1, rle(b.ReadOnlyData())})
		}
	}
	ev["live"] = live
	tr.Emit(ev)
	return true
}

// drain releases everything the driver still holds (a legal continuation of any sequence): the
// specification then expects every pooled array to have been Put exactly once.
func (e *env) drain(tr *vlib.Trace) {
	if e.rd != nil {
		if !e.apply(step{A: "rdclose"}, tr) {
			return
		}
	}
	for i := range e.hs {
		for e.held[i] > 0 {
			if !e.apply(step{A: "free", H: i + 1}, tr) {
				return
			}
		}
	}
}

func scaled(st step, sc int) step {
	st.Sz *= sc
	st.X *= sc
	st.Y *= sc
	st.N *= sc
	st.K *= sc
	return st
}

func setup() func() {
	old := runtime.GOMAXPROCS(1)
	gc := debug.SetGCPercent(-1)
	return func() { runtime.GOMAXPROCS(old); debug.SetGCPercent(gc) }
}

func TestVerifC53Replay(t *testing.T) {
	defer setup()()
	lines, err := vlib.ReadLines(os.Getenv("VERIF_BEHAVIOURS"))
	if err != nil {
		t.Fatal(err)
	}
	tr, err := vlib.NewTrace(os.Getenv("VERIF_OUT"))
	if err != nil {
		t.Fatal(err)
	}
	defer tr.Close()
	sc := vlib.EnvInt("VERIF_SCALE", unitU)
	for i, ln := range lines {
		var steps []step
		if err := json.Unmarshal(ln, &steps); err != nil {
			t.Fatal(err)
		}
		tr.Emit(map[string]any{"ev": "reset", "b": i, "zeroing": true})
		e := newEnv(nil)
		ok := true
		for _, st := range steps {
			if ok = e.apply(scaled(st, sc), tr); !ok {
				break
			}
		}
		if ok {
			e.drain(tr)
		}
		if i%256 == 255 {
			runtime.GC()
		}
	}
	fmt.Printf("VERIF_SUMMARY {\"behaviours\":%d,\"events\":%d}\n", len(lines), tr.N)
}

type poolCfg struct {
	name    string
	zeroing bool
	mk      func() mem.BufferPool
}

func must(p *imem.BinaryTieredBufferPool, err error) mem.BufferPool {
	if err != nil {
		panic(err)
	}
	return p
}

func poolCfgs() []poolCfg {
	return []poolCfg{
		{"exact", true, func() mem.BufferPool { return nil }},
		{"binary-default", true, func() mem.BufferPool { return must(imem.NewBinaryTieredBufferPool(8, 12, 14, 15, 20)) }},
		{"tiered-default", true, func() mem.BufferPool { return mem.NewTieredBufferPool(256, 4096, 16384, 32768, 1<<20) }},
		{"binary-small", true, func() mem.BufferPool { return must(imem.NewBinaryTieredBufferPool(9, 11, 13)) }},
		{"tiered-odd", true, func() mem.BufferPool { return mem.NewTieredBufferPool(1500, 3000, 40000) }},
		{"simple", true, func() mem.BufferPool { return mem.NewTieredBufferPool() }},
		{"binary-dirty", false, func() mem.BufferPool { return must(imem.NewDirtyBinaryTieredBufferPool(8, 12, 14, 15, 20)) }},
	}
}

// sizes are bounded (and so are the totals given to Reader / MaterializeToBuffer) because the
// monitor's run-length recursion depth grows with bytes / unitU
const maxTotal = 16000

func randSize(rng *rand.Rand) int {
	switch rng.Intn(10) {
	case 0:
		return 1 + rng.Intn(40)
	case 1:
		return thr - 2 + rng.Intn(5)
	case 2:
		return 4000 + rng.Intn(200)
	case 3:
		return 1 + rng.Intn(8000)
	default:
		return 1 + rng.Intn(3000)
	}
}

// TestVerifC53Random drives seeded random operation sequences that stay inside the API's
// domain (only held references are used, split/read only on exclusively held ones; R4).
func TestVerifC53Random(t *testing.T) {
	defer setup()()
	tr, err := vlib.NewTrace(os.Getenv("VERIF_OUT"))
	if err != nil {
		t.Fatal(err)
	}
	defer tr.Close()
	rng := rand.New(rand.NewSource(int64(vlib.EnvInt("VERIF_SEED", 1))))
	runs := vlib.EnvInt("VERIF_N", 200)
	cfgs := poolCfgs()
	for r := 0; r < runs; r++ {
		pc := cfgs[r%len(cfgs)]
		tr.Emit(map[string]any{"ev": "reset", "b": r, "zeroing": pc.zeroing, "pool": pc.name})
		e := newEnv(pc.mk())
		n := 5 + rng.Intn(25)
		ok := true
		for k := 0; k < n && ok; k++ {
			var live, excl []int
			for i := range e.hs {
				if e.held[i] > 0 {
					live = append(live, i+1)
					if e.held[i] == 1 && !e.rdSet[i+1] {
						excl = append(excl, i+1)
					}
				}
			}
			pick := func(s []int) int { return s[rng.Intn(len(s))] }
			pickSlice := func() []int {
				m := rng.Intn(4)
				if len(live) == 0 {
					m = 0
				}
				s := []int{}
				tot := 0
				for i := 0; i < m; i++ {
					h := pick(live)
					if tot+e.hs[h-1].Len() <= maxTotal {
						s = append(s, h)
						tot += e.hs[h-1].Len()
					}
				}
				return s
			}
			room := len(e.hs) < 38 && e.nroots < 11
			var st step
			x := rng.Intn(20)
			switch {
			case (len(live) == 0 || x == 0) && room:
				st = step{A: "newroot", Sz: randSize(rng), Kind: []string{"copy", "new"}[rng.Intn(2)]}
			case x == 1 && len(live) > 0:
				st = step{A: "ref", H: pick(live)}
			case x <= 4 && len(live) > 0:
				st = step{A: "free", H: pick(live)}
			case x <= 7 && len(live) > 0 && room:
				h := pick(live)
				l := e.hs[h-1].Len()
				a, b := 0, l
				switch rng.Intn(4) {
				case 0:
				case 1:
					a = rng.Intn(l + 1)
					b = a
				default:
					a = rng.Intn(l + 1)
					b = a + rng.Intn(l-a+1)
				}
				st = step{A: "slice", H: h, X: a, Y: b}
			case x <= 9 && len(excl) > 0 && room:
				h := pick(excl)
				st = step{A: "split", H: h, N: rng.Intn(e.hs[h-1].Len() + 1)}
			case x == 10 && len(excl) > 0:
				h := pick(excl)
				l := e.hs[h-1].Len()
				if l == 0 {
					continue // zero-length handles: read is outside the modelled domain
				}
				st = step{A: "read", H: h, K: rng.Intn(l + 2)}
			case x == 11 && e.rd == nil:
				st = step{A: "reader", S: pickSlice()}
			case x <= 13 && e.rd != nil:
				st = step{A: []string{"rdread", "rddiscard", "rdpeek"}[rng.Intn(3)], K: rng.Intn(e.rd.Remaining() + 3)}
			case x == 14 && e.rd != nil:
				st = step{A: "rdbyte"}
			case x == 15 && e.rd != nil:
				st = step{A: "rdclose"}
			case x == 16 && e.rd != nil && e.rd.Remaining() < 32768 && room:
				st = step{A: "readall"}
			case x >= 17 && room:
				st = step{A: "mat", S: pickSlice()}
			default:
				continue
			}
			ok = e.apply(st, tr)
		}
		if ok {
			e.drain(tr)
		}
		if r%64 == 63 {
			runtime.GC()
		}
	}
	fmt.Printf("VERIF_SUMMARY {\"behaviours\":%d,\"events\":%d}\n", runs, tr.N)
}

// TestVerifC53Pool exercises the real pools alone: seeded Get(n) / Put sequences; every buffer is
// dirtied over its whole capacity before it goes back.
func TestVerifC53Pool(t *testing.T) {
	defer setup()()
	tr, err := vlib.NewTrace(os.Getenv("VERIF_OUT"))
	if err != nil {
		t.Fatal(err)
	}
	defer tr.Close()
	rng := rand.New(rand.NewSource(int64(vlib.EnvInt("VERIF_SEED", 1)) + 7919))
	runs := vlib.EnvInt("VERIF_N", 100)
	cfgs := poolCfgs()[1:]
	for r := 0; r < runs; r++ {
		pc := cfgs[r%len(cfgs)]
		tr.Emit(map[string]any{"ev": "reset", "b": r, "zeroing": pc.zeroing, "pool": pc.name})
		p := newTrackPool(pc.mk())
		var outst []*[]byte
		for k := 0; k < 40; k++ {
			ev := map[string]any{"ev": "pool", "panic": ""}
			func() {
				defer func() {
					if x := recover(); x != nil {
						ev["panic"] = fmt.Sprint(x)
					}
				}()
				if len(outst) > 0 && rng.Intn(2) == 0 {
					i := rng.Intn(len(outst))
					b := outst[i]
					outst = append(outst[:i], outst[i+1:]...)
					ev["a"] = "pput"
					p.Put(b)
				} else {
					n := 1 + rng.Intn(3000)
					switch rng.Intn(6) {
					case 0:
						n = 1 << uint(rng.Intn(17))
					case 1:
						n = 1<<uint(rng.Intn(17)) + 1
					case 2:
						n = 1 + rng.Intn(70000)
					}
					ev["a"], ev["n"] = "pget", n
					b := p.Get(n)
					full := (*b)[:cap(*b)]
					for i := range full {
						full[i] = 0xA5
					}
					outst = append(outst, b)
				}
			}()
			ev["gets"], ev["puts"] = p.take()
			tr.Emit(ev)
		}
	}
	fmt.Printf("VERIF_SUMMARY {\"behaviours\":%d,\"events\":%d}\n", runs, tr.N)
}
