// Package c14 drives the server half of C14: a real grpc.Server against a scripted raw HTTP/2
// client inside a testing/synctest bubble; GracefulStop at TLC-chosen points.  Records only.
package c14

import (
	"encoding/json"
	"fmt"
	"net"
	"os"
	"runtime"
	"strconv"
	"strings"
	"sync"
	"sync/atomic"
	"testing"
	"testing/synctest"
	"time"

	"golang.org/x/net/http2"
	"google.golang.org/grpc"
	"google.golang.org/grpc/internal/verifhook"
	"google.golang.org/grpc/internal/zzverif/vlib"
	"google.golang.org/grpc/internal/zzverif/vlib/rawh2"
	"google.golang.org/grpc/test/bufconn"
)

const big = 2147483646 // stands for 2^31-1 in specs and traces

type ev = map[string]any

type step struct {
	A    string `json:"a"`
	ID   int    `json:"id"`
	W    int    `json:"w"`
	Race int    `json:"race"`
}

// gate holds the server's reader goroutine at the hook point "h2s.beforeRegister" (operateHeaders:
// stream id already recorded in maxStreamID, stream not yet registered) until the driver opens it.
type gate struct{ ch chan struct{} }

var gatePtr atomic.Pointer[gate]

func installHook() {
	verifhook.Set(func(point string, _ any) {
		if point != "h2s.beforeRegister" {
			return
		}
		if g := gatePtr.Load(); g != nil {
			<-g.ch
		}
	})
}

type beh struct {
	Steps []step `json:"steps"`
}

// rec buffers the events of one scenario; they reach the trace file only if the scenario
// finishes (an abandoned scenario must not leak late events into other segments).
type rec struct {
	mu  sync.Mutex
	evs []ev
}

func (r *rec) Emit(e ev) {
	r.mu.Lock()
	r.evs = append(r.evs, e)
	r.mu.Unlock()
}

func (r *rec) Reset() { r.Emit(ev{"ev": "reset"}) }

type world struct {
	tr      *rec
	mu      sync.Mutex
	release map[int]chan struct{}
	started map[int]bool
	// ping handling
	pendingPing *[8]byte
	pongWanted  bool
	p           *rawh2.Peer
	eof         chan struct{}
	nGoAway     atomic.Int32
	tGa1        time.Time // (virtual) instant at which the heads-up GOAWAY arrived = the drain timer was armed
}

func (w *world) rel(id int) chan struct{} {
	w.mu.Lock()
	defer w.mu.Unlock()
	ch := w.release[id]
	if ch == nil {
		ch = make(chan struct{})
		w.release[id] = ch
	}
	return ch
}

func (w *world) handler(_ any, stream grpc.ServerStream) error {
	m, _ := grpc.MethodFromServerStream(stream)
	id, _ := strconv.Atoi(strings.TrimPrefix(m, "/v/m"))
	w.tr.Emit(ev{"ev": "hstart", "id": id})
	w.mu.Lock()
	w.started[id] = true
	w.mu.Unlock()
	cancelled := 0
	select {
	case <-w.rel(id):
	case <-stream.Context().Done():
		cancelled = 1
	}
	w.tr.Emit(ev{"ev": "hend", "id": id, "cancelled": cancelled})
	return nil
}

func (w *world) pong(data [8]byte) {
	w.tr.Emit(ev{"ev": "pong"})
	w.p.WritePing(true, data)
}

// readLoop logs what the scripted client receives, in arrival order.
func (w *world) readLoop() {
	defer close(w.eof)
	for {
		f, err := w.p.ReadFrame()
		if err != nil {
			w.tr.Emit(ev{"ev": "eof"})
			return
		}
		switch f := f.(type) {
		case *http2.SettingsFrame:
			if !f.IsAck() {
				w.p.WriteSettingsAck()
			}
		case *http2.PingFrame:
			if f.IsAck() {
				continue
			}
			w.tr.Emit(ev{"ev": "sping"})
			w.mu.Lock()
			want := w.pongWanted
			if !want {
				d := f.Data
				w.pendingPing = &d
			}
			w.mu.Unlock()
			if want {
				w.pong(f.Data)
			}
		case *http2.GoAwayFrame:
			id := int(f.LastStreamID)
			if id > big {
				id = big
			}
			w.tr.Emit(ev{"ev": "sga", "id": id})
			w.mu.Lock()
			if w.tGa1.IsZero() {
				w.tGa1 = time.Now()
			}
			w.mu.Unlock()
			w.nGoAway.Add(1)
		case *http2.MetaHeadersFrame:
			if f.StreamEnded() {
				st, _ := strconv.Atoi(rawh2.Field(f, "grpc-status"))
				w.tr.Emit(ev{"ev": "trl", "id": int(f.StreamID), "status": st})
			}
		case *http2.RSTStreamFrame:
			w.tr.Emit(ev{"ev": "rrst", "id": int(f.StreamID)})
		}
	}
}

func runBehaviour(tr *rec, b *beh, sum map[string]int, gating bool) {
	tr.Reset()
	w := &world{tr: tr, release: map[int]chan struct{}{}, started: map[int]bool{}, eof: make(chan struct{})}
	lis := bufconn.Listen(1 << 20)
	srv := grpc.NewServer(grpc.UnknownServiceHandler(w.handler))
	var wg sync.WaitGroup
	wg.Add(1)
	go func() { defer wg.Done(); srv.Serve(lis) }()
	conn, err := lis.Dial()
	if err != nil {
		tr.Emit(ev{"ev": "note", "what": "dial: " + err.Error()})
		srv.Stop()
		wg.Wait()
		return
	}
	p, err := rawh2.NewClientPeer(conn)
	if err != nil {
		tr.Emit(ev{"ev": "note", "what": "peer: " + err.Error()})
		srv.Stop()
		wg.Wait()
		return
	}
	w.p = p
	p.WriteSettings()
	wg.Add(1)
	go func() { defer wg.Done(); w.readLoop() }()
	stopCalled := false
	useTimer := false
	held := false
	// release: give loopy every chance to write the final GOAWAY while the reader is held (on the
	// unchanged tree it blocks on maxStreamMu instead - a mutex wait is not a durable block, so
	// synctest.Wait cannot be used here; the yields only matter for sensitivity), then open the gate.
	release := func() {
		if !held {
			return
		}
		for i := 0; i < 3000 && w.nGoAway.Load() < 2; i++ {
			runtime.Gosched()
		}
		tr.Emit(ev{"ev": "note", "what": "release reader"})
		if g := gatePtr.Swap(nil); g != nil {
			close(g.ch)
		}
		held = false
	}
	defer release()
	quiesce := func() {
		release()
		synctest.Wait()
		tr.Emit(ev{"ev": "q", "blocked": 0, "tdone": 0})
	}
	exec := func(st step) bool {
		switch st.A {
		case "send":
			select {
			case <-w.eof:
				tr.Emit(ev{"ev": "note", "what": "skip send: connection closed"})
				return false
			default:
			}
			if st.Race != 0 && !held && gating {
				// the reader will be held inside operateHeaders for this stream
				gatePtr.Store(&gate{ch: make(chan struct{})})
				held = true
				tr.Emit(ev{"ev": "note", "what": "hold reader at h2s.beforeRegister"})
			}
			tr.Emit(ev{"ev": "csend", "id": st.ID})
			p.WriteHeaders(uint32(st.ID), true, ":method", "POST", ":scheme", "http", ":path", "/v/m"+strconv.Itoa(st.ID),
				":authority", "verif", "content-type", "application/grpc", "te", "trailers")
		case "stop":
			if stopCalled {
				return false
			}
			stopCalled = true
			tr.Emit(ev{"ev": "stop"})
			wg.Add(1)
			go func() {
				defer wg.Done()
				srv.GracefulStop()
				tr.Emit(ev{"ev": "stopped"})
			}()
		case "pong":
			w.mu.Lock()
			w.pongWanted = true
			d := w.pendingPing
			w.pendingPing = nil
			w.mu.Unlock()
			if d != nil {
				w.pong(*d)
			}
		case "timer": // do not ack: the server's 5 s fallback timer fires (virtual time)
			useTimer = true
			tr.Emit(ev{"ev": "timer"})
			if held {
				// Sleeping while the reader is held is only safe if the bubble can reach the wake-up
				// instant: on the unchanged tree loopy then waits on maxStreamMu (not a durable block), so
				// virtual time never advances beyond the instant the drain timer fires.  Therefore: only if
				// the heads-up GOAWAY has already arrived (loopy is past its handler, the timer is armed),
				// and wake up at exactly the timer's instant.  Otherwise open the gate first.
				w.mu.Lock()
				t1 := w.tGa1
				w.mu.Unlock()
				if d := time.Until(t1.Add(5 * time.Second)); stopCalled && !t1.IsZero() && d > 0 {
					time.Sleep(d)
					release()
					return true
				}
				release()
			}
			time.Sleep(5*time.Second + time.Millisecond)
		case "release":
			release()
		case "done":
			release()
			w.mu.Lock()
			started := w.started[st.ID]
			w.mu.Unlock()
			if !started {
				synctest.Wait()
				w.mu.Lock()
				started = w.started[st.ID]
				w.mu.Unlock()
			}
			if !started {
				tr.Emit(ev{"ev": "note", "what": "skip done: handler not started"})
				return false
			}
			ch := w.rel(st.ID)
			select {
			case <-ch:
			default:
				close(ch)
			}
		}
		return true
	}
	quiesce()
	for _, st := range b.Steps {
		if exec(st) {
			sum["steps"]++
		} else {
			sum["skipped"]++
		}
		if st.W != 0 {
			quiesce()
		}
	}
	quiesce()
	// completion: every scenario ends with a full graceful drain, so that the clauses about the
	// final GOAWAY and about the end of the connection are evaluated in every scenario
	exec(step{A: "stop"})
	quiesce()
	if useTimer {
		exec(step{A: "timer"})
	} else {
		exec(step{A: "pong"})
	}
	quiesce()
	w.mu.Lock()
	var ids []int
	for id := range w.started {
		ids = append(ids, id)
	}
	w.mu.Unlock()
	for _, id := range ids {
		exec(step{A: "done", ID: id})
	}
	quiesce()
	time.Sleep(2 * time.Second) // lets short internal timers (e.g. the 1 s wait after loopy exits) fire
	quiesce()
	// end of behaviour: let everything finish
	tr.Emit(ev{"ev": "tclose"})
	for _, id := range []int{1, 3, 5, 7, 9} {
		ch := w.rel(id)
		select {
		case <-ch:
		default:
			close(ch)
		}
	}
	synctest.Wait()
	conn.Close()
	srv.Stop()
	lis.Close()
	wg.Wait()
}

func TestVerifC14Server(t *testing.T) {
	tr, err := vlib.NewTrace(os.Getenv("VERIF_OUT"))
	if err != nil {
		t.Fatal(err)
	}
	defer tr.Close()
	lines, err := vlib.ReadLines(os.Getenv("VERIF_BEHAVIOURS"))
	if err != nil {
		t.Fatal(err)
	}
	defer runtime.GOMAXPROCS(runtime.GOMAXPROCS(vlib.EnvInt("VERIF_PROCS", 1)))
	installHook()
	defer verifhook.Set(nil)
	// Real-time watchdog: a scenario whose bubble makes no progress is abandoned (its events are
	// dropped, it is counted, never a verdict) and the run continues in a fresh bubble.  After an
	// abandonment no further gate is armed (a goroutine of the abandoned bubble must never meet a
	// channel of another bubble).
	wd := time.Duration(vlib.EnvInt("VERIF_WATCHDOG_S", 20)) * time.Second
	maxAbandon := vlib.EnvInt("VERIF_MAX_ABANDON", 3)
	sum := map[string]int{}
	gating := true
	for i, ln := range lines {
		var b beh
		if err := json.Unmarshal(ln, &b); err != nil {
			t.Fatalf("behaviour %d: %v", i, err)
		}
		if sum["abandoned"] >= maxAbandon {
			sum["not_run"]++
			continue
		}
		r := &rec{}
		lsum := map[string]int{}
		done := make(chan struct{})
		g := gating
		go func() {
			defer close(done)
			synctest.Test(t, func(t *testing.T) { runBehaviour(r, &b, lsum, g) })
		}()
		timer := time.NewTimer(wd)
		select {
		case <-done:
			timer.Stop()
			r.mu.Lock()
			for _, e := range r.evs {
				tr.Emit(e)
			}
			r.mu.Unlock()
			for k, v := range lsum {
				sum[k] += v
			}
			sum["behaviours"]++
		case <-timer.C:
			gatePtr.Store(nil)
			gating = false
			sum["abandoned"]++
			tr.Reset()
			tr.Emit(ev{"ev": "note", "what": fmt.Sprintf("scenario %d abandoned: no progress within %v", i, wd)})
			fmt.Printf("VERIF_ABANDONED scenario %d: %s\n", i, ln)
		}
	}
	js, _ := json.Marshal(sum)
	fmt.Printf("VERIF_SUMMARY %s\n", js)
	if sum["abandoned"] > 0 {
		// goroutines of abandoned bubbles are still around: leave without waiting for them
		tr.Close()
		fmt.Println("PASS (with abandoned scenarios)")
		os.Exit(0)
	}
}

var _ net.Conn
