package c58

// Driver for C58: executes every case of the CredsMatrix decision table end to end (real
// grpc.NewClient against a real grpc.Server over test/bufconn) and records what the server saw.
// It never judges: the rows are validated by TLC against specs/CredsMatrixTrace.tla.

import (
	"context"
	"encoding/hex"
	"encoding/json"
	"errors"
	"fmt"
	"io"
	"net"
	"os"
	"path/filepath"
	"sort"
	"strings"
	"sync"
	"testing"
	"time"

	"google.golang.org/grpc"
	"google.golang.org/grpc/credentials"
	"google.golang.org/grpc/credentials/insecure"
	"google.golang.org/grpc/credentials/local"
	"google.golang.org/grpc/internal/zzverif/vlib"
	"google.golang.org/grpc/internal/zzverif/vlib/rawh2"
	"google.golang.org/grpc/metadata"
	"google.golang.org/grpc/status"
	"google.golang.org/grpc/test/bufconn"
)

type kase struct {
	T   string `json:"t"`
	Via string `json:"via"`
	D   string `json:"d"`
	B   string `json:"b"`
	Calls []string `json:"calls"` // call-level credential kind of each RPC made on the one connection
}

// ---- transport credentials -------------------------------------------------------------

type lvlInfo struct{ credentials.CommonAuthInfo }

func (lvlInfo) AuthType() string { return "c58" }

type bareInfo struct{}

func (bareInfo) AuthType() string { return "c58bare" }

// customTC is a TLS-like custom TransportCredentials whose handshake returns the connection
// unchanged together with an AuthInfo of the chosen shape.
type customTC struct{ mode string }

func (c customTC) ClientHandshake(_ context.Context, _ string, conn net.Conn) (net.Conn, credentials.AuthInfo, error) {
	switch c.mode {
	case "custom_none":
		return conn, lvlInfo{credentials.CommonAuthInfo{SecurityLevel: credentials.NoSecurity}}, nil
	case "custom_int":
		return conn, lvlInfo{credentials.CommonAuthInfo{SecurityLevel: credentials.IntegrityOnly}}, nil
	case "custom_pai":
		return conn, lvlInfo{credentials.CommonAuthInfo{SecurityLevel: credentials.PrivacyAndIntegrity}}, nil
	case "custom_invalid":
		return conn, lvlInfo{credentials.CommonAuthInfo{SecurityLevel: credentials.InvalidSecurityLevel}}, nil
	case "custom_nocommon":
		return conn, bareInfo{}, nil
	case "custom_nilinfo":
		return conn, nil, nil
	}
	return nil, nil, errors.New("c58: unknown mode " + c.mode)
}
func (c customTC) ServerHandshake(conn net.Conn) (net.Conn, credentials.AuthInfo, error) {
	return conn, bareInfo{}, nil
}
func (c customTC) Info() credentials.ProtocolInfo {
	return credentials.ProtocolInfo{SecurityProtocol: "c58custom"}
}
func (c customTC) Clone() credentials.TransportCredentials { return c }
func (c customTC) OverrideServerName(string) error          { return nil }

type bundle struct {
	tc  credentials.TransportCredentials
	prc credentials.PerRPCCredentials
}

func (b bundle) TransportCredentials() credentials.TransportCredentials { return b.tc }
func (b bundle) PerRPCCredentials() credentials.PerRPCCredentials       { return b.prc }
func (b bundle) NewWithMode(string) (credentials.Bundle, error)         { return b, nil }

// ---- per-RPC credentials ---------------------------------------------------------------

type prc struct {
	req, check bool
	md         map[string]string
}

func (p prc) RequireTransportSecurity() bool { return p.req }
func (p prc) GetRequestMetadata(ctx context.Context, _ ...string) (map[string]string, error) {
	if p.check {
		ri, _ := credentials.RequestInfoFromContext(ctx)
		if err := credentials.CheckSecurityLevel(ri.AuthInfo, credentials.PrivacyAndIntegrity); err != nil {
			return nil, fmt.Errorf("c58: connection too weak: %v", err)
		}
	}
	out := map[string]string{}
	for k, v := range p.md {
		out[k] = v
	}
	return out, nil
}

func mkPRC(kind, tag, salt string) (credentials.PerRPCCredentials, map[string]string) {
	if kind == "absent" {
		return nil, nil
	}
	md := map[string]string{
		"x-" + tag + "-cred":     "Secret " + tag + salt + " /+=~ token",
		"x-" + tag + "-cred-bin": string([]byte{0, 1, 0xff, 'a', 0x80, '\n'}),
	}
	return prc{req: kind == "req" || kind == "reqcheck", check: kind == "check" || kind == "reqcheck", md: md}, md
}

func render(md map[string]string) string {
	keys := make([]string, 0, len(md))
	for k := range md {
		keys = append(keys, k)
	}
	sort.Strings(keys)
	var sb strings.Builder
	for _, k := range keys {
		sb.WriteString(k + "=" + hex.EncodeToString([]byte(md[k])) + ";")
	}
	return sb.String()
}

// ---- connection wrapper giving local credentials an address to look at -----------------

type fakeAddr struct{ network, addr string }

func (a fakeAddr) Network() string { return a.network }
func (a fakeAddr) String() string  { return a.addr }

type addrConn struct {
	net.Conn
	remote net.Addr
}

func (c addrConn) RemoteAddr() net.Addr { return c.remote }

// certPath locates the test certificates of the tree under test (the binary is built with -trimpath,
// so testdata.Path cannot be used).
func certPath(name string) string {
	return filepath.Join(vlib.Env("VERIF_REPO_DIR", "/repo"), "testdata", "x509", name)
}

// ---- recording server ------------------------------------------------------------------

type recorder struct {
	mu      sync.Mutex
	streams map[string]int      // RPC index -> streams of that RPC that reached the handler
	got     map[string][]string // RPC index + tag -> rendered metadata per stream in which it arrived
}

func (r *recorder) handle(_ any, ss grpc.ServerStream) error {
	md, _ := metadata.FromIncomingContext(ss.Context())
	idx := ""
	if v := md.Get("x-c58-i"); len(v) > 0 {
		idx = v[0]
	}
	r.mu.Lock()
	defer r.mu.Unlock()
	r.streams[idx]++
	for _, tag := range []string{"d", "b", "c"} {
		seen := map[string]string{}
		dup := false
		for k, vv := range md {
			if strings.HasPrefix(k, "x-"+tag+"-cred") {
				seen[k] = strings.Join(vv, "\x00DUP\x00")
				if len(vv) != 1 {
					dup = true
				}
			}
		}
		if len(seen) > 0 {
			s := render(seen)
			if dup {
				s += "dup"
			}
			r.got[idx+tag] = append(r.got[idx+tag], s)
		}
	}
	return nil
}

func runCase(k kase) (row map[string]any) {
	row = map[string]any{"ev": "case", "t": k.T, "via": k.Via, "d": k.D, "b": k.B, "calls": k.Calls, "dial": "ok"}
	defer func() {
		if p := recover(); p != nil {
			row = map[string]any{"ev": "panic", "case": k, "msg": fmt.Sprint(p)}
		}
	}()
	rec := &recorder{got: map[string][]string{}, streams: map[string]int{}}
	lis := bufconn.Listen(1 << 16)
	sopts := []grpc.ServerOption{grpc.UnknownServiceHandler(rec.handle)}
	var tc credentials.TransportCredentials
	tlsAuthority := false
	remote := net.Addr(fakeAddr{"bufconn", "bufconn"})
	switch k.T {
	case "insecure":
		tc = insecure.NewCredentials()
	case "local_tcp":
		tc, remote = local.NewCredentials(), fakeAddr{"tcp", "127.0.0.1:50051"}
	case "local_uds":
		tc, remote = local.NewCredentials(), fakeAddr{"unix", "/tmp/c58.sock"}
	case "local_remote":
		tc, remote = local.NewCredentials(), fakeAddr{"tcp", "10.1.2.3:50051"}
	case "tls":
		var err error
		tc, err = credentials.NewClientTLSFromFile(certPath("server_ca_cert.pem"), "x.test.example.com")
		if err != nil {
			panic(err)
		}
		stc, err := credentials.NewServerTLSFromFile(certPath("server1_cert.pem"), certPath("server1_key.pem"))
		if err != nil {
			panic(err)
		}
		sopts = append(sopts, grpc.Creds(stc))
		tlsAuthority = true
	default:
		tc = customTC{mode: k.T}
	}
	srv := grpc.NewServer(sopts...)
	done := make(chan struct{})
	go func() { srv.Serve(lis); close(done) }()

	dcred, dmd := mkPRC(k.D, "d", "")
	bcred, bmd := mkPRC(k.B, "b", "")
	row["dsent"], row["bsent"] = render(dmd), render(bmd)
	rpcs := make([]map[string]any, len(k.Calls))
	for i := range rpcs {
		rpcs[i] = map[string]any{"code": 99, "streams": 0, "csent": ""}
	}

	dopts := []grpc.DialOption{
		grpc.WithContextDialer(func(ctx context.Context, _ string) (net.Conn, error) {
			c, err := lis.DialContext(ctx)
			if err != nil {
				return nil, err
			}
			return addrConn{Conn: c, remote: remote}, nil
		}),
		grpc.WithDefaultCallOptions(grpc.ForceCodec(rawh2.RawCodec{})),
	}
	if tlsAuthority {
		dopts = append(dopts, grpc.WithAuthority("x.test.example.com"))
	}
	if k.Via == "bundle" {
		dopts = append(dopts, grpc.WithCredentialsBundle(bundle{tc: tc, prc: bcred}))
	} else {
		dopts = append(dopts, grpc.WithTransportCredentials(tc))
	}
	if dcred != nil {
		dopts = append(dopts, grpc.WithPerRPCCredentials(dcred))
	}
	cc, err := grpc.NewClient("passthrough:///c58", dopts...)
	if err != nil {
		row["dial"] = "fail"
	} else {
		// the RPCs of the history, one after the other on the same ClientConn (hence the same transport)
		for i, kind := range k.Calls {
			idx := fmt.Sprint(i + 1)
			ccred, cmd := mkPRC(kind, "c", idx) // the value names the RPC it belongs to
			rpcs[i]["csent"] = render(cmd)
			ctx, cancel := context.WithTimeout(context.Background(), 10*time.Minute) // last resort only
			ctx = metadata.AppendToOutgoingContext(ctx, "x-c58-i", idx)
			var copts []grpc.CallOption
			if ccred != nil {
				copts = append(copts, grpc.PerRPCCredentials(ccred))
			}
			cs, err := cc.NewStream(ctx, &grpc.StreamDesc{ClientStreams: true, ServerStreams: true}, "/c58.S/M", copts...)
			if err == nil {
				cs.CloseSend()
				var in []byte
				err = cs.RecvMsg(&in)
				if err == io.EOF {
					err = nil
				}
			}
			rpcs[i]["code"] = int(status.Code(err))
			if err != nil {
				rpcs[i]["err"] = err.Error()
			}
			cancel()
		}
		cc.Close()
	}
	// barrier: everything the client wrote before closing is read by the server before it sees EOF
	srv.GracefulStop()
	<-done
	lis.Close()
	rec.mu.Lock()
	for i := range rpcs {
		idx := fmt.Sprint(i + 1)
		rpcs[i]["streams"] = rec.streams[idx]
		for _, tag := range []string{"d", "b", "c"} {
			g := rec.got[idx+tag]
			if g == nil {
				g = []string{}
			}
			rpcs[i][tag+"got"] = g
		}
	}
	rec.mu.Unlock()
	row["rpcs"] = rpcs
	return row
}

func TestVerifC58Matrix(t *testing.T) {
	lines, err := vlib.ReadLines(os.Getenv("VERIF_BEHAVIOURS"))
	if err != nil {
		t.Fatal(err)
	}
	tr, err := vlib.NewTrace(os.Getenv("VERIF_OUT"))
	if err != nil {
		t.Fatal(err)
	}
	defer tr.Close()
	rows := make([]map[string]any, len(lines))
	sem := make(chan struct{}, 8)
	var wg sync.WaitGroup
	for i, ln := range lines {
		var k kase
		if err := json.Unmarshal(ln, &k); err != nil {
			t.Fatal(err)
		}
		wg.Add(1)
		sem <- struct{}{}
		go func() {
			defer wg.Done()
			rows[i] = runCase(k)
			<-sem
		}()
	}
	wg.Wait()
	for _, r := range rows {
		tr.Emit(r)
	}
	fmt.Printf("VERIF_SUMMARY {\"cases\":%d}\n", len(rows))
}
