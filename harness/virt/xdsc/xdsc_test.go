package xdsc

// Driver for C42 / C43 / C44: sequential replay of TLC behaviours (and seeded random input
// sequences) on the real generic xDS client (internal/xds/clients/xdsclient) with a scripted
// clients.TransportBuilder / Transport / Stream, two toy resource types and recording watchers.
//
// Every behaviour runs in its own testing/synctest bubble.  After every input the driver calls
// synctest.Wait(), so "nothing more will happen" is exact; timers (stream backoff, watch expiry)
// only fire when the driver sleeps in virtual time.
//
// Trace format (one JSON object per line, total order = order of recording under env.mu):
//   inputs        reset, watch, unwatch, up, break, resp, done, sleep, skip
//   observations  build, tclose, newstream, nsfail, stream, req, badsend, read, readerr, cb
//   quiet         end of a step (quiescence), with per-server flags and the CSDS dump
// The driver never judges; the TLA+ monitors do.

import (
	"context"
	"encoding/json"
	"errors"
	"fmt"
	"io"
	"math/rand"
	"os"
	"sort"
	"strings"
	"sync"
	"testing"
	"testing/synctest"
	"time"

	v3discoverypb "github.com/envoyproxy/go-control-plane/envoy/service/discovery/v3"
	v3statuspb "github.com/envoyproxy/go-control-plane/envoy/service/status/v3"
	"google.golang.org/grpc/internal/xds/clients"
	"google.golang.org/grpc/internal/xds/clients/xdsclient"
	"google.golang.org/grpc/internal/zzverif/vlib"
	"google.golang.org/protobuf/proto"
	"google.golang.org/protobuf/types/known/anypb"
)

const (
	urlBase     = "type.googleapis.com/verif.T"
	expiryD     = 100 * time.Hour  // watch expiry (resource-does-not-exist) timeout
	backoffMaxD = 150 * time.Second // > max stream backoff (120s * 1.2 jitter)
)

// typeURL(1) has AllResourcesRequiredInSotW; typeURL(2) has not; typeURL(0) is not registered.
func typeURL(t int) string { return fmt.Sprintf("%s%d", urlBase, t) }
func typeIdx(u string) int {
	for t := 0; t <= 2; t++ {
		if u == typeURL(t) {
			return t
		}
	}
	return -1
}

// ---------------------------------------------------------------- toy resource types
type toyData struct{ raw []byte }

func (d *toyData) Equal(o xdsclient.ResourceData) bool {
	if o == nil {
		return false
	}
	return string(d.raw) == string(o.Bytes())
}
func (d *toyData) Bytes() []byte { return d.raw }

type toyDecoder struct{}

// payload "name|value"; value starting with "bad" is invalid (name known); no '|' = undecodable.
func (toyDecoder) Decode(r *xdsclient.AnyProto, _ xdsclient.DecodeOptions) (*xdsclient.DecodeResult, error) {
	a := r.ToAny()
	s := string(a.Value)
	i := strings.IndexByte(s, '|')
	if i < 0 {
		return nil, fmt.Errorf("garbage %q", s)
	}
	if strings.HasPrefix(s[i+1:], "bad") {
		return &xdsclient.DecodeResult{Name: s[:i]}, fmt.Errorf("invalid %s", s)
	}
	return &xdsclient.DecodeResult{Name: s[:i], Resource: &toyData{raw: a.Value}}, nil
}

// ---------------------------------------------------------------- environment
type env struct {
	mu       sync.Mutex
	tr       *vlib.Trace
	srv      []*fakeServer // index 1..n (0 unused)
	client   *xdsclient.XDSClient
	watchers map[int]*watcher // current watcher object per id
	all      []*watcher       // every watcher object ever created (an id may be reused after unwatch)
	nextResp int
	closing  bool
}

func (e *env) emitLocked(m map[string]any) { e.tr.Emit(m) }
func (e *env) emit(m map[string]any) {
	e.mu.Lock()
	e.tr.Emit(m)
	e.mu.Unlock()
}

type fakeServer struct {
	e   *env
	idx int
	gen int
	tr  *fakeTransport
}

type fakeBuilder struct{ e *env }

func (b *fakeBuilder) Build(si clients.ServerIdentifier) (clients.Transport, error) {
	e := b.e
	e.mu.Lock()
	defer e.mu.Unlock()
	var s *fakeServer
	for _, x := range e.srv[1:] {
		if fmt.Sprintf("s%d", x.idx) == si.ServerURI {
			s = x
		}
	}
	if s == nil {
		return nil, errors.New("verif: unknown server " + si.ServerURI)
	}
	s.gen++
	t := &fakeTransport{srv: s, gen: s.gen, gate: make(chan bool)}
	s.tr = t
	e.emitLocked(map[string]any{"ev": "build", "s": s.idx, "g": s.gen})
	return t, nil
}

type fakeTransport struct {
	srv    *fakeServer
	gen    int
	gate   chan bool
	want   bool
	closed bool
	epoch  int
	cur    *fakeStream
}

func (t *fakeTransport) NewStream(ctx context.Context, _ string) (clients.Stream, error) {
	e := t.srv.e
	e.mu.Lock()
	t.want = true
	if !e.closing {
		e.emitLocked(map[string]any{"ev": "newstream", "s": t.srv.idx})
	}
	e.mu.Unlock()
	var ok bool
	select {
	case ok = <-t.gate:
	case <-ctx.Done():
		e.mu.Lock()
		t.want = false
		e.mu.Unlock()
		return nil, ctx.Err()
	}
	e.mu.Lock()
	defer e.mu.Unlock()
	t.want = false
	if !ok {
		e.emitLocked(map[string]any{"ev": "nsfail", "s": t.srv.idx})
		return nil, errors.New("verif: connection refused")
	}
	t.epoch++
	st := &fakeStream{t: t, epoch: t.epoch, ctx: ctx, q: make(chan msg, 64)}
	t.cur = st
	e.emitLocked(map[string]any{"ev": "stream", "s": t.srv.idx, "k": t.epoch})
	return st, nil
}

func (t *fakeTransport) Close() {
	e := t.srv.e
	e.mu.Lock()
	defer e.mu.Unlock()
	t.closed = true
	if !e.closing {
		e.emitLocked(map[string]any{"ev": "tclose", "s": t.srv.idx, "g": t.gen})
	}
}

type msg struct {
	id   int
	data []byte
	err  error
}

type fakeStream struct {
	t      *fakeTransport
	epoch  int
	ctx    context.Context
	q      chan msg
	broken bool // the server ended the stream (Send fails from now on)
	dead   bool // the client has read the error
	inRecv bool
	unread int // responses queued and not yet returned by Recv
}

func (s *fakeStream) Send(b []byte) error {
	var req v3discoverypb.DiscoveryRequest
	if err := proto.Unmarshal(b, &req); err != nil {
		panic("verif: client sent an undecodable DiscoveryRequest: " + err.Error())
	}
	e := s.t.srv.e
	e.mu.Lock()
	defer e.mu.Unlock()
	if e.closing {
		return io.EOF
	}
	names := append([]string{}, req.GetResourceNames()...)
	sort.Strings(names)
	ev := map[string]any{"s": s.t.srv.idx, "k": s.epoch, "t": typeIdx(req.GetTypeUrl()), "v": req.GetVersionInfo(),
		"n": req.GetResponseNonce(), "names": names, "err": req.GetErrorDetail() != nil,
		"node": req.GetNode() != nil && req.GetNode().GetId() == "verif-node"}
	if s.broken || s.t.closed || s.ctx.Err() != nil {
		ev["ev"] = "badsend"
		e.emitLocked(ev)
		return io.EOF
	}
	ev["ev"] = "req"
	e.emitLocked(ev)
	return nil
}

func (s *fakeStream) Recv() ([]byte, error) {
	e := s.t.srv.e
	e.mu.Lock()
	if s.dead {
		e.mu.Unlock()
		return nil, io.EOF
	}
	s.inRecv = true
	e.mu.Unlock()
	select {
	case m := <-s.q:
		e.mu.Lock()
		defer e.mu.Unlock()
		s.inRecv = false
		if m.err != nil {
			s.dead = true
			if !e.closing {
				e.emitLocked(map[string]any{"ev": "readerr", "s": s.t.srv.idx, "k": s.epoch})
			}
			return nil, m.err
		}
		s.unread--
		if !e.closing {
			e.emitLocked(map[string]any{"ev": "read", "s": s.t.srv.idx, "k": s.epoch, "id": m.id})
		}
		return m.data, nil
	case <-s.ctx.Done():
		e.mu.Lock()
		s.inRecv = false
		s.dead = true
		e.mu.Unlock()
		return nil, s.ctx.Err()
	}
}

// ---------------------------------------------------------------- watchers
type watcher struct {
	e      *env
	id     int
	hold   bool
	dones  []func()
	cancel func()
}

func val(b []byte) string {
	s := string(b)
	if i := strings.IndexByte(s, '|'); i >= 0 {
		return s[i+1:]
	}
	return s
}

func errKind(err error) (string, string) {
	s := err.Error()
	switch {
	case strings.Contains(s, "has been removed"):
		return "notfound", ""
	case strings.Contains(s, "error received from xDS stream"):
		return "conn", ""
	case strings.Contains(s, "invalid "):
		r := s[strings.LastIndex(s, "invalid ")+len("invalid "):]
		return "nack", val([]byte(r))
	}
	return "other", s
}

func (w *watcher) record(kind, et, v string, done func()) {
	w.e.mu.Lock()
	if w.e.closing { // teardown of the behaviour: not part of the trace
		w.e.mu.Unlock()
		done()
		return
	}
	w.e.emitLocked(map[string]any{"ev": "cb", "w": w.id, "k": kind, "et": et, "v": v})
	if w.hold {
		w.dones = append(w.dones, done)
		w.e.mu.Unlock()
		return
	}
	w.e.mu.Unlock()
	done()
}
func (w *watcher) ResourceChanged(rd xdsclient.ResourceData, done func()) {
	w.record("rc", "", val(rd.Bytes()), done)
}
func (w *watcher) ResourceError(err error, done func()) {
	et, v := errKind(err)
	w.record("re", et, v, done)
}
func (w *watcher) AmbientError(err error, done func()) {
	et, v := errKind(err)
	w.record("ae", et, v, done)
}

// ---------------------------------------------------------------- steps
type resItem struct {
	N string `json:"n"` // resource name ("" with V "" = undecodable payload)
	V string `json:"v"` // value; "bad..." = invalid
}

type step struct {
	A    string    `json:"a"`
	W    int       `json:"w"`
	T    int       `json:"t"`
	N    string    `json:"n"`
	S    int       `json:"s"`
	Hold bool      `json:"hold"`
	Fail bool      `json:"fail"`
	NW   bool      `json:"nw"` // do not wait for quiescence after this step (burst)
	Res  []resItem `json:"res"`
	Ver  string    `json:"ver"`
	Non  string    `json:"nonce"`
}

func newEnv(tr *vlib.Trace, nServers int, ignoreDeletion bool) *env {
	e := &env{tr: tr, watchers: map[int]*watcher{}}
	e.srv = make([]*fakeServer, nServers+1)
	var scs []xdsclient.ServerConfig
	for i := 1; i <= nServers; i++ {
		e.srv[i] = &fakeServer{e: e, idx: i}
		sc := xdsclient.ServerConfig{ServerIdentifier: clients.ServerIdentifier{ServerURI: fmt.Sprintf("s%d", i)}}
		if ignoreDeletion {
			sc.ServerFeature = xdsclient.ServerFeatureIgnoreResourceDeletion
		}
		scs = append(scs, sc)
	}
	rts := map[string]xdsclient.ResourceType{
		typeURL(1): {TypeURL: typeURL(1), TypeName: "T1", AllResourcesRequiredInSotW: true, Decoder: toyDecoder{}},
		typeURL(2): {TypeURL: typeURL(2), TypeName: "T2", AllResourcesRequiredInSotW: false, Decoder: toyDecoder{}},
	}
	c, err := xdsclient.New(xdsclient.Config{
		Servers:            scs,
		Node:               clients.Node{ID: "verif-node"},
		TransportBuilder:   &fakeBuilder{e: e},
		ResourceTypes:      rts,
		WatchExpiryTimeout: expiryD,
	})
	if err != nil {
		panic(err)
	}
	e.client = c
	return e
}

func (e *env) close() {
	e.mu.Lock()
	e.closing = true
	ws := append([]*watcher(nil), e.all...)
	e.mu.Unlock()
	for _, w := range ws {
		w.release()
	}
	e.client.Close()
	synctest.Wait()
}

func (w *watcher) release() {
	w.e.mu.Lock()
	ds := w.dones
	w.dones = nil
	w.e.mu.Unlock()
	for _, d := range ds {
		d()
	}
}

func (e *env) stream(s int) *fakeStream {
	if s < 1 || s >= len(e.srv) || e.srv[s].tr == nil || e.srv[s].tr.closed {
		return nil
	}
	return e.srv[s].tr.cur
}

// quiet waits for quiescence and logs the end-of-step line.
func (e *env) quiet(dump bool) {
	synctest.Wait()
	var dumpRows []map[string]any
	if dump {
		dumpRows = e.dump()
	}
	e.mu.Lock()
	defer e.mu.Unlock()
	srv := []map[string]any{}
	for _, s := range e.srv[1:] {
		row := map[string]any{"s": s.idx, "open": false, "want": false, "inrecv": false, "unread": 0, "live": false}
		if s.tr != nil && !s.tr.closed {
			row["open"] = true
			row["want"] = s.tr.want
			if c := s.tr.cur; c != nil && !c.dead {
				row["inrecv"] = c.inRecv
				row["unread"] = c.unread
				row["live"] = !c.broken
			}
		}
		srv = append(srv, row)
	}
	held := []int{}
	for _, w := range e.all {
		for range w.dones {
			held = append(held, w.id)
		}
	}
	sort.Ints(held)
	ev := map[string]any{"ev": "quiet", "srv": srv, "held": held}
	if dump {
		ev["dump"] = dumpRows
	}
	e.emitLocked(ev)
}

// dump projects the client's CSDS view (Level I: cache contents).
func (e *env) dump() []map[string]any {
	rows := []map[string]any{}
	b, err := e.client.DumpResources()
	if err != nil {
		return rows
	}
	var resp v3statuspb.ClientStatusResponse
	if err := proto.Unmarshal(b, &resp); err != nil {
		return rows
	}
	for _, c := range resp.GetConfig() {
		for _, g := range c.GetGenericXdsConfigs() {
			v := ""
			if g.GetXdsConfig() != nil {
				v = val(g.GetXdsConfig().GetValue())
			}
			rows = append(rows, map[string]any{"t": typeIdx(g.GetTypeUrl()), "n": g.GetName(), "st": g.GetClientStatus().String(),
				"c": v, "ver": g.GetVersionInfo(), "nacked": g.GetErrorState() != nil})
		}
	}
	sort.Slice(rows, func(i, j int) bool {
		if rows[i]["t"].(int) != rows[j]["t"].(int) {
			return rows[i]["t"].(int) < rows[j]["t"].(int)
		}
		return rows[i]["n"].(string) < rows[j]["n"].(string)
	})
	return rows
}

var dumpOn = os.Getenv("VERIF_DUMP") != "0"

func (e *env) skip(st step, why string) {
	e.emit(map[string]any{"ev": "skip", "a": st.A, "why": why})
}

func (e *env) apply(st step) {
	switch st.A {
	case "watch":
		e.mu.Lock()
		if old, dup := e.watchers[st.W]; dup && old.cancel != nil {
			e.mu.Unlock()
			e.skip(st, "watcher exists")
			return
		}
		w := &watcher{e: e, id: st.W, hold: st.Hold}
		e.watchers[st.W] = w
		e.all = append(e.all, w)
		e.emitLocked(map[string]any{"ev": "watch", "w": st.W, "t": st.T, "n": st.N, "hold": st.Hold})
		e.mu.Unlock()
		w.cancel = e.client.WatchResource(typeURL(st.T), st.N, w)
	case "unwatch":
		e.mu.Lock()
		w := e.watchers[st.W]
		if w == nil || w.cancel == nil {
			e.mu.Unlock()
			e.skip(st, "no such watcher")
			return
		}
		c := w.cancel
		w.cancel = nil
		e.emitLocked(map[string]any{"ev": "unwatch", "w": st.W})
		e.mu.Unlock()
		c()
	case "sleep":
		e.emit(map[string]any{"ev": "sleep", "expire": false})
		time.Sleep(backoffMaxD)
	case "expire":
		e.emit(map[string]any{"ev": "sleep", "expire": true})
		time.Sleep(expiryD)
	case "up":
		e.mu.Lock()
		ok := st.S >= 1 && st.S < len(e.srv) && e.srv[st.S].tr != nil && !e.srv[st.S].tr.closed
		want := ok && e.srv[st.S].tr.want
		e.mu.Unlock()
		if !ok {
			e.skip(st, "no transport")
			return
		}
		if !want {
			// the client may be in stream backoff: let virtual time pass
			e.emit(map[string]any{"ev": "sleep", "expire": false})
			time.Sleep(backoffMaxD)
			e.quiet(dumpOn)
			e.mu.Lock()
			ok = e.srv[st.S].tr != nil && !e.srv[st.S].tr.closed && e.srv[st.S].tr.want
			e.mu.Unlock()
			if !ok {
				e.skip(st, "client does not ask for a stream")
				return
			}
		}
		e.emit(map[string]any{"ev": "up", "s": st.S, "fail": st.Fail})
		e.srv[st.S].tr.gate <- !st.Fail
	case "break":
		e.mu.Lock()
		c := e.stream(st.S)
		if c == nil || c.broken {
			e.mu.Unlock()
			e.skip(st, "no live stream")
			return
		}
		c.broken = true
		e.emitLocked(map[string]any{"ev": "break", "s": st.S})
		e.mu.Unlock()
		c.q <- msg{err: errors.New("verif: stream reset by server")}
	case "resp":
		e.mu.Lock()
		c := e.stream(st.S)
		if c == nil || c.broken || c.unread > 0 {
			e.mu.Unlock()
			e.skip(st, "no live stream or a response is still unread")
			return
		}
		e.nextResp++
		id := e.nextResp
		ver, non := st.Ver, st.Non
		if ver == "" {
			ver = fmt.Sprintf("v%d", id)
		}
		if non == "" {
			non = fmt.Sprintf("n%d", id)
		}
		resp := &v3discoverypb.DiscoveryResponse{TypeUrl: typeURL(st.T), VersionInfo: ver, Nonce: non}
		items := []map[string]any{}
		allOK := true
		for _, r := range st.Res {
			v := strings.ReplaceAll(r.V, "#", fmt.Sprint(id))
			payload := r.N + "|" + v
			good := true
			if r.N == "" {
				payload = "garbage"
				good = false
			} else if strings.HasPrefix(v, "bad") {
				good = false
			}
			allOK = allOK && good
			resp.Resources = append(resp.Resources, &anypb.Any{TypeUrl: typeURL(st.T), Value: []byte(payload)})
			items = append(items, map[string]any{"n": r.N, "v": v, "ok": good})
		}
		data, err := proto.Marshal(resp)
		if err != nil {
			panic(err)
		}
		c.unread++
		e.emitLocked(map[string]any{"ev": "resp", "s": st.S, "id": id, "t": st.T, "ver": ver, "nonce": non, "res": items, "ok": allOK})
		e.mu.Unlock()
		c.q <- msg{id: id, data: data}
	case "done":
		e.mu.Lock()
		var ws []*watcher
		for _, w := range e.all {
			if (st.W == 0 || w.id == st.W) && len(w.dones) > 0 {
				ws = append(ws, w)
			}
		}
		sort.SliceStable(ws, func(i, j int) bool { return ws[i].id < ws[j].id })
		e.emitLocked(map[string]any{"ev": "done", "w": st.W})
		e.mu.Unlock()
		for _, w := range ws {
			w.release()
		}
	default:
		panic("unknown step " + st.A)
	}
	if !st.NW {
		e.quiet(dumpOn)
	}
}

func runBehaviour(t *testing.T, tr *vlib.Trace, idx int, nServers int, ignoreDel bool, run func(e *env)) {
	synctest.Test(t, func(t *testing.T) {
		tr.Emit(map[string]any{"ev": "reset", "b": idx, "ns": nServers, "igd": ignoreDel})
		e := newEnv(tr, nServers, ignoreDel)
		func() {
			defer func() {
				if p := recover(); p != nil {
					e.emit(map[string]any{"ev": "panic", "msg": fmt.Sprint(p)})
				}
			}()
			run(e)
		}()
		e.close()
	})
}

type behaviour struct {
	NS    int    `json:"ns"`
	IgD   bool   `json:"igd"`
	Steps []step `json:"steps"`
}

func TestVerifXdscReplay(t *testing.T) {
	lines, err := vlib.ReadLines(os.Getenv("VERIF_BEHAVIOURS"))
	if err != nil {
		t.Fatal(err)
	}
	tr, err := vlib.NewTrace(os.Getenv("VERIF_OUT"))
	if err != nil {
		t.Fatal(err)
	}
	defer tr.Close()
	for i, ln := range lines {
		var b behaviour
		if err := json.Unmarshal(ln, &b); err != nil {
			t.Fatal(err)
		}
		if b.NS == 0 {
			b.NS = 1
		}
		runBehaviour(t, tr, i, b.NS, b.IgD, func(e *env) {
			for _, st := range b.Steps {
				e.apply(st)
			}
		})
	}
	fmt.Printf("VERIF_SUMMARY {\"behaviours\":%d,\"events\":%d}\n", len(lines), tr.N)
}

// ---------------------------------------------------------------- random input sequences
// The random driver only chooses inputs (inside the API's domain, looking at the scripted
// servers' own state to pick applicable ones); the monitors judge.
func TestVerifXdscRandom(t *testing.T) {
	tr, err := vlib.NewTrace(os.Getenv("VERIF_OUT"))
	if err != nil {
		t.Fatal(err)
	}
	defer tr.Close()
	rng := rand.New(rand.NewSource(int64(vlib.EnvInt("VERIF_SEED", 1))*7919 + 17))
	runs := vlib.EnvInt("VERIF_N", 100)
	mode := vlib.Env("VERIF_MODE", "ads")
	names := []string{"a", "b", "c"}
	for r := 0; r < runs; r++ {
		ns := 1
		if mode == "fb" {
			ns = 2 + rng.Intn(2)
		}
		igd := mode == "auth" && rng.Intn(4) == 0
		holdP := map[string]int{"ads": 50, "auth": 10, "fb": 0}[mode]
		runBehaviour(t, tr, r, ns, igd, func(e *env) {
			n := 8 + rng.Intn(30)
			nextW := 1
			for k := 0; k < n; k++ {
				// applicable inputs
				e.mu.Lock()
				var live, wantUp, open []int
				for s := 1; s <= ns; s++ {
					tp := e.srv[s].tr
					if tp == nil || tp.closed {
						continue
					}
					open = append(open, s)
					if tp.want {
						wantUp = append(wantUp, s)
					}
					if c := tp.cur; c != nil && !c.broken && !c.dead && c.unread == 0 {
						live = append(live, s)
					}
				}
				var active, holding []int
				for _, w := range e.all {
					if w.cancel != nil {
						active = append(active, w.id)
					}
					if len(w.dones) > 0 {
						holding = append(holding, w.id)
					}
				}
				sort.Ints(active)
				sort.Ints(holding)
				e.mu.Unlock()
				x := rng.Intn(100)
				switch {
				case len(active) == 0 || x < 14:
					if nextW > 12 {
						continue
					}
					st := step{A: "watch", W: nextW, T: 1 + rng.Intn(2), N: names[rng.Intn(len(names))], Hold: rng.Intn(100) < holdP}
					if mode == "ads" && rng.Intn(6) == 0 {
						// burst: no quiescence after this watch.  Such a watcher never withholds onDone, so that
						// every callback a holding watcher records after a "read" line is caused by that response
						// (a cached-value callback of a burst watch may arrive after later inputs).
						st.NW = true
						st.Hold = false
					}
					nextW++
					e.apply(st)
				case x < 24:
					st := step{A: "unwatch", W: active[rng.Intn(len(active))]}
					if mode == "ads" && rng.Intn(6) == 0 && len(active) > 1 {
						st.NW = true
					}
					e.apply(st)
				case x < 34 && len(holding) > 0:
					w := 0
					if rng.Intn(2) == 0 {
						w = holding[rng.Intn(len(holding))]
					}
					e.apply(step{A: "done", W: w})
				case x < 44 && len(open) > 0:
					s := open[rng.Intn(len(open))]
					if len(wantUp) > 0 && rng.Intn(4) != 0 {
						s = wantUp[rng.Intn(len(wantUp))]
					}
					e.apply(step{A: "up", S: s, Fail: rng.Intn(8) == 0})
				case x < 52 && len(live) > 0:
					e.apply(step{A: "break", S: live[rng.Intn(len(live))]})
				case x < 55 && mode != "fb":
					e.apply(step{A: "expire"})
				case len(live) > 0:
					s := live[rng.Intn(len(live))]
					st := step{A: "resp", S: s, T: 1 + rng.Intn(2)}
					if mode == "ads" && rng.Intn(12) == 0 {
						st.T = 0
					}
					for _, nm := range names {
						switch y := rng.Intn(10); {
						case y < 4:
							st.Res = append(st.Res, resItem{N: nm, V: fmt.Sprintf("x%d", rng.Intn(3))})
						case y < 5:
							st.Res = append(st.Res, resItem{N: nm, V: fmt.Sprintf("bad%d", rng.Intn(2))})
						case y < 6 && mode != "fb":
							st.Res = append(st.Res, resItem{N: nm, V: "u#"})
						}
					}
					if rng.Intn(15) == 0 {
						st.Res = append(st.Res, resItem{})
					}
					e.apply(st)
				case len(wantUp) > 0:
					e.apply(step{A: "up", S: wantUp[0]})
				}
			}
			// final quiescence with every watcher released
			e.apply(step{A: "done", W: 0})
		})
	}
	fmt.Printf("VERIF_SUMMARY {\"behaviours\":%d,\"events\":%d}\n", runs, tr.N)
}
