package c09

// Driver for C09 (user metadata crosses the wire unchanged; reserved headers never leak).
// Executes the cases TLC enumerated (WireMetaMC: one MC state per case) end to end:
//
//	req   real grpc.NewClient (metadata attached to the outgoing context) -> real grpc.NewServer;
//	      the handler records metadata.FromIncomingContext
//	resp  real server handler sets the metadata as header (ServerStream.SetHeader / SendHeader or
//	      grpc.SetHeader from a unary handler) and, if that was accepted, as trailer; the real client
//	      records Header() / Trailer()
//	wire  real grpc.NewClient -> raw HTTP/2 server (records the header fields of every HEADERS frame)
//	peer  raw HTTP/2 client (padded / unpadded base64, duplicate keys, reserved names) -> real server;
//	      the handler records metadata.FromIncomingContext
//
// over test/bufconn with the raw codec.  The driver records one line per (case, row kind); it never judges.

import (
	"context"
	"encoding/base64"
	"encoding/json"
	"fmt"
	"io"
	"net"
	"sort"
	"strconv"
	"strings"
	"sync"
	"testing"
	"time"

	"golang.org/x/net/http2"
	"google.golang.org/grpc"
	"google.golang.org/grpc/credentials/insecure"
	"google.golang.org/grpc/internal/zzverif/vlib"
	"google.golang.org/grpc/internal/zzverif/vlib/rawh2"
	"google.golang.org/grpc/metadata"
	"google.golang.org/grpc/status"
	"google.golang.org/grpc/test/bufconn"
)

type tentry struct {
	K   []int `json:"k"`
	V   []int `json:"v"`
	App bool  `json:"app"` // user: supplied through Append (key lower-cased by the API); peer: padded base64
}

type tcase struct {
	ID   int      `json:"id"`
	Kind string   `json:"kind"` // user | peer
	API  string   `json:"api"`  // user: set | send | unary (how the handler sets the header)
	MD   []tentry `json:"md"`
	Grp  bool     `json:"grp"` // all appended pairs in ONE AppendToOutgoingContext call
}

type kvs struct {
	K  []int   `json:"k"`
	Vs [][]int `json:"vs"`
}

type field struct {
	K []int `json:"k"`
	V []int `json:"v"`
}

const lastResort = 30 * time.Second

func str(v []int) string {
	b := make([]byte, len(v))
	for i, x := range v {
		b[i] = byte(x)
	}
	return string(b)
}

// dumpMD renders a metadata map as a list sorted by key.
func dumpMD(md metadata.MD) []kvs {
	keys := make([]string, 0, len(md))
	for k := range md {
		keys = append(keys, k)
	}
	sort.Strings(keys)
	out := []kvs{}
	for _, k := range keys {
		e := kvs{K: vlib.Bytes(k), Vs: [][]int{}}
		for _, v := range md[k] {
			e.Vs = append(e.Vs, vlib.Bytes(v))
		}
		out = append(out, e)
	}
	return out
}

// serverMD builds the metadata a handler sets: base entries written into the map as they are,
// appended entries through MD.Append (which lower-cases the key).
func serverMD(c *tcase) metadata.MD {
	md := metadata.MD{}
	for _, e := range c.MD {
		if !e.App {
			md[str(e.K)] = append(md[str(e.K)], str(e.V))
		}
	}
	for _, e := range c.MD {
		if e.App {
			md.Append(str(e.K), str(e.V))
		}
	}
	return md
}

// clientCtx attaches the metadata to the outgoing context: base entries as a metadata.MD map handed
// to NewOutgoingContext, appended entries one AppendToOutgoingContext call each (or, grp, all in one call).
func clientCtx(ctx context.Context, c *tcase) context.Context {
	md := metadata.MD{}
	nbase := 0
	for _, e := range c.MD {
		if !e.App {
			md[str(e.K)] = append(md[str(e.K)], str(e.V))
			nbase++
		}
	}
	if nbase > 0 || c.ID%2 == 0 {
		ctx = metadata.NewOutgoingContext(ctx, md)
	}
	var kv []string
	for _, e := range c.MD {
		if e.App {
			if c.Grp {
				kv = append(kv, str(e.K), str(e.V))
			} else {
				ctx = metadata.AppendToOutgoingContext(ctx, str(e.K), str(e.V))
			}
		}
	}
	if len(kv) > 0 {
		ctx = metadata.AppendToOutgoingContext(ctx, kv...)
	}
	return ctx
}

type req struct {
	ID int    `json:"id"`
	Op string `json:"op"`
}

type hrec struct {
	called bool
	seen   []kvs
	herr   int
	terr   int
}

type server struct {
	mu    sync.Mutex
	cases map[int]*tcase
	recs  map[string]*hrec // "<op>/<id>"
}

func (s *server) rec(r *req) *hrec {
	s.mu.Lock()
	defer s.mu.Unlock()
	k := r.Op + "/" + strconv.Itoa(r.ID)
	h := s.recs[k]
	if h == nil {
		h = &hrec{}
		s.recs[k] = h
	}
	return h
}

func (s *server) take(op string, id int) *hrec {
	s.mu.Lock()
	defer s.mu.Unlock()
	k := op + "/" + strconv.Itoa(id)
	h := s.recs[k]
	delete(s.recs, k)
	if h == nil {
		h = &hrec{}
	}
	return h
}

func errCode(err error) int {
	if err == nil {
		return 0
	}
	return int(status.Code(err))
}

func (s *server) handle(ctx context.Context, payload []byte, ss grpc.ServerStream) error {
	r := &req{}
	if err := json.Unmarshal(payload, r); err != nil {
		panic(fmt.Sprintf("bad request payload %q", payload))
	}
	h := s.rec(r)
	s.mu.Lock()
	c := s.cases[r.ID]
	s.mu.Unlock()
	switch r.Op {
	case "req", "peer":
		md, _ := metadata.FromIncomingContext(ctx)
		s.mu.Lock()
		h.called, h.seen = true, dumpMD(md)
		s.mu.Unlock()
	case "resp":
		md := serverMD(c)
		var herr, terr error
		switch c.API {
		case "set":
			herr = ss.SetHeader(md)
		case "send":
			herr = ss.SendHeader(md)
		case "unary":
			herr = grpc.SetHeader(ctx, md)
		}
		if herr == nil { // the metadata was accepted as header: use it as trailer as well
			if c.API == "unary" {
				terr = grpc.SetTrailer(ctx, md)
			} else {
				ss.SetTrailer(md)
			}
		}
		s.mu.Lock()
		h.called, h.herr, h.terr = true, errCode(herr), errCode(terr)
		s.mu.Unlock()
	}
	return nil
}

func (s *server) unary(_ any, ctx context.Context, dec func(any) error, _ grpc.UnaryServerInterceptor) (any, error) {
	var in []byte
	if err := dec(&in); err != nil {
		return nil, err
	}
	if err := s.handle(ctx, in, nil); err != nil {
		return nil, err
	}
	out := []byte("ok")
	return &out, nil
}

func (s *server) stream(_ any, ss grpc.ServerStream) error {
	var in []byte
	if err := ss.RecvMsg(&in); err != nil {
		return err
	}
	if err := s.handle(ss.Context(), in, ss); err != nil {
		return err
	}
	if strings.Contains(string(in), `"op":"resp"`) && strings.HasSuffix(grpcMethod(ss), "1") {
		out := []byte("m")
		return ss.SendMsg(&out) // one message before the status (method name ends in 1)
	}
	return nil
}

func grpcMethod(ss grpc.ServerStream) string {
	m, _ := grpc.Method(ss.Context())
	return m
}

// ---------------------------------------------------------------------------------------------
// raw server: records the header fields of every request HEADERS frame, answers OK (trailers-only).

type rawServer struct {
	mu     sync.Mutex
	frames map[string][][]field // :path -> header field lists
	bad    int                  // HEADERS frames the framer rejected
}

func (rs *rawServer) serve(c net.Conn) {
	defer c.Close()
	p, err := rawh2.NewServerPeer(c)
	if err != nil {
		return
	}
	p.WriteSettings()
	for {
		f, err := p.ReadFrame()
		if se, ok := err.(http2.StreamError); ok { // e.g. a header field the framer considers malformed
			rs.mu.Lock()
			rs.bad++
			rs.mu.Unlock()
			p.WriteRST(se.StreamID, http2.ErrCodeProtocol)
			continue
		}
		if err != nil {
			return
		}
		switch f := f.(type) {
		case *http2.SettingsFrame:
			if !f.IsAck() {
				p.WriteSettingsAck()
			}
		case *http2.PingFrame:
			if !f.IsAck() {
				p.WritePing(true, f.Data)
			}
		case *http2.MetaHeadersFrame:
			fs := []field{}
			path := ""
			for _, hf := range f.Fields {
				fs = append(fs, field{K: vlib.Bytes(hf.Name), V: vlib.Bytes(hf.Value)})
				if hf.Name == ":path" && path == "" {
					path = hf.Value
				}
			}
			rs.mu.Lock()
			rs.frames[path] = append(rs.frames[path], fs)
			rs.mu.Unlock()
			if f.StreamEnded() {
				p.WriteHeaders(f.StreamID, true, ":status", "200", "content-type", "application/grpc", "grpc-status", "0")
			}
		case *http2.DataFrame:
			if n := len(f.Data()); n > 0 {
				p.WriteWindowUpdate(0, uint32(n))
			}
			if f.StreamEnded() {
				p.WriteHeaders(f.StreamID, true, ":status", "200", "content-type", "application/grpc", "grpc-status", "0")
			}
		}
	}
}

func (rs *rawServer) take(path string) [][]field {
	rs.mu.Lock()
	defer rs.mu.Unlock()
	fs := rs.frames[path]
	delete(rs.frames, path)
	return fs
}

// ---------------------------------------------------------------------------------------------
// raw client: one connection to the real server, one stream per case.

type rawClient struct {
	p    *rawh2.Peer
	next uint32
}

func newRawClient(lis *bufconn.Listener) (*rawClient, error) {
	c, err := lis.Dial()
	if err != nil {
		return nil, err
	}
	p, err := rawh2.NewClientPeer(c)
	if err != nil {
		return nil, err
	}
	if err := p.WriteSettings(); err != nil {
		return nil, err
	}
	return &rawClient{p: p, next: 1}, nil
}

// call sends one request with the extra header fields and reads until the stream ends.
// It returns the grpc-status of the trailers ("" if none), whether the stream was reset, and an error text.
func (rc *rawClient) call(extra []string, payload []byte) (grpcStatus string, rst bool, errText string) {
	id := rc.next
	rc.next += 2
	rc.p.Conn.SetDeadline(time.Now().Add(lastResort))
	kv := append([]string{":method", "POST", ":scheme", "http", ":path", "/verif.S/S0", ":authority", "verif",
		"content-type", "application/grpc+verifraw", "user-agent", "verif-raw-client", "te", "trailers"}, extra...)
	if err := rc.p.WriteHeaders(id, false, kv...); err != nil {
		return "", false, err.Error()
	}
	if err := rc.p.WriteData(id, true, rawh2.GrpcFrame(payload, false)); err != nil {
		return "", false, err.Error()
	}
	for {
		f, err := rc.p.ReadFrame()
		if err != nil {
			return "", false, "read: " + err.Error()
		}
		switch f := f.(type) {
		case *http2.SettingsFrame:
			if !f.IsAck() {
				rc.p.WriteSettingsAck()
			}
		case *http2.PingFrame:
			if !f.IsAck() {
				rc.p.WritePing(true, f.Data)
			}
		case *http2.MetaHeadersFrame:
			if f.StreamID == id && f.StreamEnded() {
				return rawh2.Field(f, "grpc-status"), false, ""
			}
		case *http2.RSTStreamFrame:
			if f.StreamID == id {
				return "", true, ""
			}
		case *http2.GoAwayFrame:
			return "", false, "goaway"
		}
	}
}

// ---------------------------------------------------------------------------------------------

func dial(t *testing.T, lis *bufconn.Listener) *grpc.ClientConn {
	cc, err := grpc.NewClient("passthrough:///verif",
		grpc.WithTransportCredentials(insecure.NewCredentials()),
		grpc.WithContextDialer(func(ctx context.Context, _ string) (net.Conn, error) { return lis.DialContext(ctx) }),
		grpc.WithDefaultCallOptions(grpc.ForceCodec(rawh2.RawCodec{})))
	if err != nil {
		t.Fatal(err)
	}
	return cc
}

// rpc runs one RPC on cc and returns (status code, header, trailer).
func rpc(ctx context.Context, cc *grpc.ClientConn, method string, unary bool, payload []byte) (int, metadata.MD, metadata.MD) {
	if unary {
		var hdr, trl metadata.MD
		var resp []byte
		err := cc.Invoke(ctx, method, &payload, &resp, grpc.Header(&hdr), grpc.Trailer(&trl))
		return errCode(err), hdr, trl
	}
	cs, err := cc.NewStream(ctx, &grpc.StreamDesc{ServerStreams: true}, method)
	if err != nil {
		return errCode(err), nil, nil
	}
	if err = cs.SendMsg(&payload); err == io.EOF {
		err = nil
	}
	if err == nil {
		err = cs.CloseSend()
	}
	for err == nil {
		var resp []byte
		err = cs.RecvMsg(&resp)
	}
	if err == io.EOF {
		err = nil
	}
	hdr, _ := cs.Header()
	return errCode(err), hdr, cs.Trailer()
}

func TestVerifC09Table(t *testing.T) {
	lines, err := vlib.ReadLines(vlib.Env("VERIF_BEHAVIOURS", ""))
	if err != nil {
		t.Fatal(err)
	}
	tr, err := vlib.NewTrace(vlib.Env("VERIF_OUT", "c09-trace.ndjson"))
	if err != nil {
		t.Fatal(err)
	}
	defer tr.Close()
	var cases []*tcase
	impl := &server{cases: map[int]*tcase{}, recs: map[string]*hrec{}}
	for _, l := range lines {
		c := &tcase{}
		if err := json.Unmarshal(l, c); err != nil {
			t.Fatal(err)
		}
		cases = append(cases, c)
		impl.cases[c.ID] = c
	}

	// real server
	lis := bufconn.Listen(1 << 20)
	defer lis.Close()
	srv := grpc.NewServer(grpc.ForceServerCodec(rawh2.RawCodec{}), grpc.UnknownServiceHandler(func(s any, ss grpc.ServerStream) error {
		return impl.stream(s, ss)
	}))
	srv.RegisterService(&grpc.ServiceDesc{
		ServiceName: "verif.S",
		HandlerType: (*any)(nil),
		Methods:     []grpc.MethodDesc{{MethodName: "U", Handler: impl.unary}},
		Streams: []grpc.StreamDesc{{StreamName: "S0", Handler: impl.stream, ServerStreams: true},
			{StreamName: "S1", Handler: impl.stream, ServerStreams: true}},
	}, impl)
	go srv.Serve(lis)
	defer srv.Stop()
	cc := dial(t, lis)
	defer cc.Close()

	// raw server and the real client talking to it
	rlis := bufconn.Listen(1 << 20)
	defer rlis.Close()
	rs := &rawServer{frames: map[string][][]field{}}
	go rawh2.Serve(rlis, rs.serve)
	rcc := dial(t, rlis)
	defer rcc.Close()

	// raw client talking to the real server
	rc, err := newRawClient(lis)
	if err != nil {
		t.Fatal(err)
	}
	defer rc.p.Conn.Close()

	n := 0
	for _, c := range cases {
		func() {
			defer func() {
				if r := recover(); r != nil {
					tr.Emit(map[string]any{"ev": "panic", "id": c.ID, "what": fmt.Sprint(r)})
				}
			}()
			base := map[string]any{"id": c.ID, "md": c.MD}
			if c.MD == nil {
				base["md"] = []tentry{}
			}
			emit := func(ev string, more map[string]any) {
				m := map[string]any{"ev": ev}
				for k, v := range base {
					m[k] = v
				}
				for k, v := range more {
					m[k] = v
				}
				tr.Emit(m)
			}
			ctx, cancel := context.WithTimeout(context.Background(), lastResort)
			defer cancel()
			if c.Kind == "peer" {
				var extra []string
				for _, e := range c.MD {
					k, v := str(e.K), str(e.V)
					if strings.HasSuffix(k, "-bin") {
						if e.App {
							v = base64.StdEncoding.EncodeToString([]byte(v))
						} else {
							v = base64.RawStdEncoding.EncodeToString([]byte(v))
						}
					}
					extra = append(extra, k, v)
				}
				payload, _ := json.Marshal(req{ID: c.ID, Op: "peer"})
				gs, rst, errText := rc.call(extra, payload)
				h := impl.take("peer", c.ID)
				seen := h.seen
				if seen == nil {
					seen = []kvs{}
				}
				emit("peer", map[string]any{"called": h.called, "hseen": seen, "gs": gs, "rst": rst, "err": errText})
				n++
				return
			}

			// req: metadata on the client
			payload, _ := json.Marshal(req{ID: c.ID, Op: "req"})
			method := "/verif.S/S0"
			switch c.ID % 3 {
			case 1:
				method = "/verif.S/U"
			case 2:
				method = "/verif.Unknown/X0"
			}
			code, _, _ := rpc(clientCtx(ctx, c), cc, method, c.ID%3 == 1, payload)
			h := impl.take("req", c.ID)
			seen := h.seen
			if seen == nil {
				seen = []kvs{}
			}
			emit("req", map[string]any{"code": code, "called": h.called, "hseen": seen, "unary": c.ID%3 == 1})

			// resp: metadata set by the handler
			payload, _ = json.Marshal(req{ID: c.ID, Op: "resp"})
			method = "/verif.S/S" + strconv.Itoa(c.ID%2) // S1: one message before the status
			if c.API == "unary" {
				method = "/verif.S/U"
			} else if c.ID%4 >= 2 {
				method = "/verif.Unknown/X" + strconv.Itoa(c.ID%2)
			}
			code, hdr, trl := rpc(ctx, cc, method, c.API == "unary", payload)
			h = impl.take("resp", c.ID)
			emit("resp", map[string]any{"api": c.API, "code": code, "called": h.called, "herr": h.herr, "terr": h.terr,
				"hdr": dumpMD(hdr), "trl": dumpMD(trl)})

			// wire: what the real client writes
			path := "/verif.C/" + strconv.Itoa(c.ID)
			code, _, _ = rpc(clientCtx(ctx, c), rcc, path, false, []byte("x"))
			// marker RPC on the same connection: every frame of the case precedes the marker's frames
			mpath := "/verif.M/" + strconv.Itoa(c.ID)
			mcode, _, _ := rpc(ctx, rcc, mpath, false, []byte("x"))
			rs.take(mpath)
			frames := rs.take(path)
			rs.mu.Lock()
			bad := rs.bad
			rs.bad = 0
			rs.mu.Unlock()
			ev := map[string]any{"code": code, "mcode": mcode, "nframes": len(frames) + bad, "malformed": bad, "fields": []field{}}
			if len(frames) > 0 {
				ev["fields"] = frames[0]
			}
			emit("wire", ev)
			n++
		}()
	}
	fmt.Printf("VERIF_SUMMARY {\"cases\":%d}\n", n)
}
