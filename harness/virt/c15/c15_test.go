package c15

// Drivers for C15 (keepalive).  Each behaviour produced by TLC from specs/Keepalive*.tla is a
// timeline of environment events at tick boundaries -/+ 1 ns (1 tick = 10 virtual seconds); it is
// executed inside a testing/synctest bubble (virtual time, exact):
//   - TestVerifC15Client: real grpc.ClientConn (client transport keepalive) against a raw HTTP/2 server
//   - TestVerifC15Server: real grpc.Server (ping enforcement policy) against a raw HTTP/2 client
// The drivers only drive and record: every instant is time.Since(bubbleStart), encoded in model units
// (4 units per tick: 4i-1 = tick i - 1ns, 4i = tick i, 4i+1 = tick i + 1ns, 4i+2 = strictly inside).

import (
	"context"
	"encoding/json"
	"fmt"
	"net"
	"os"
	"sync"
	"sync/atomic"
	"testing"
	"testing/synctest"
	"time"

	"golang.org/x/net/http2"
	"google.golang.org/grpc"
	"google.golang.org/grpc/connectivity"
	"google.golang.org/grpc/credentials/insecure"
	"google.golang.org/grpc/encoding"
	"google.golang.org/grpc/internal/zzverif/vlib"
	"google.golang.org/grpc/internal/zzverif/vlib/rawh2"
	"google.golang.org/grpc/keepalive"
	"google.golang.org/grpc/test/bufconn"
)

const (
	c15K    = 4
	c15Tick = 10 * time.Second
)

func init() { encoding.RegisterCodec(rawh2.RawCodec{}) }

// c15Dur converts model units to a virtual duration.
func c15Dur(u int) time.Duration {
	tick := (u + 1) / c15K
	off := u - c15K*tick
	return time.Duration(tick)*c15Tick + time.Duration(off)
}

// c15Enc converts a virtual duration to model units (exact on the grid, K*i+2 strictly inside).
func c15Enc(d time.Duration) int {
	tick := int((d + c15Tick/2) / c15Tick) // nearest boundary
	off := d - time.Duration(tick)*c15Tick
	if off >= -1 && off <= 1 {
		return c15K*tick + int(off)
	}
	return c15K*int(d/c15Tick) + 2
}

type c15Step struct {
	A string `json:"a"` // byte | open | close | ackon | ackoff  (client);  ping | open | close | send (server)
	T int    `json:"t"` // instant (units)
	G int    `json:"g"` // server: gap class parameters (see c15ServerRun)
}

type c15Beh struct {
	T      int       `json:"T"`  // client: Time (units) ; server: unused
	TO     int       `json:"TO"` // client: Timeout (units)
	Permit bool      `json:"permit"`
	MinT   int       `json:"minT"` // server: MinTime (units)
	End    int       `json:"end"`  // instant (units) at which the run ends
	Steps  []c15Step `json:"steps"`
	Cls    string    `json:"cls"`
}

type c15Rec struct {
	tr    *vlib.Trace
	start time.Time
}

func (r *c15Rec) now() int { return c15Enc(time.Since(r.start)) }
func (r *c15Rec) emit(ev string, kv ...any) {
	m := map[string]any{"ev": ev, "t": r.now()}
	for i := 0; i+1 < len(kv); i += 2 {
		m[kv[i].(string)] = kv[i+1]
	}
	r.tr.Emit(m)
}
func (r *c15Rec) sleepUntil(u int) {
	if d := c15Dur(u) - time.Since(r.start); d > 0 {
		time.Sleep(d)
	}
	synctest.Wait()
}

// ---------------------------------------------------------------------------------------------
// client keepalive vs raw server

func c15ClientRun(t *testing.T, tr *vlib.Trace, b c15Beh) {
	synctest.Test(t, func(t *testing.T) {
		rec := &c15Rec{tr: tr, start: time.Now()}
		var acking, ended, closed atomic.Bool
		var cc *grpc.ClientConn
		lis := bufconn.Listen(1 << 20)
		defer func() {
			if p := recover(); p != nil {
				tr.Emit(map[string]any{"ev": "panic", "t": 0, "msg": fmt.Sprint(p)})
				ended.Store(true)
				if cc != nil {
					cc.Close()
				}
				lis.Close()
			}
		}()
		peerCh := make(chan *rawh2.Peer, 4)
		nconn := 0
		go rawh2.Serve(lis, func(c net.Conn) {
			defer c.Close()
			nconn++
			first := nconn == 1
			p, err := rawh2.NewServerPeer(c)
			if err != nil {
				return
			}
			p.WriteSettings()
			if first {
				peerCh <- p
			}
			for {
				f, err := p.ReadFrame()
				if err != nil {
					if first && !ended.Load() {
						closed.Store(true)
						rec.emit("closed")
					}
					return
				}
				switch f := f.(type) {
				case *http2.SettingsFrame:
					if !f.IsAck() {
						p.WriteSettingsAck()
					}
				case *http2.PingFrame:
					if !f.IsAck() && first && !ended.Load() {
						a := acking.Load()
						rec.emit("ping", "acked", a)
						if a {
							p.WritePing(true, f.Data)
						}
					}
				}
			}
		})
		var err error
		cc, err = grpc.NewClient("passthrough:///c15", grpc.WithTransportCredentials(insecure.NewCredentials()),
			grpc.WithContextDialer(func(ctx context.Context, _ string) (net.Conn, error) { return lis.DialContext(ctx) }),
			grpc.WithKeepaliveParams(keepalive.ClientParameters{Time: c15Dur(b.T), Timeout: c15Dur(b.TO), PermitWithoutStream: b.Permit}),
			grpc.WithIdleTimeout(0),
			grpc.WithDefaultCallOptions(grpc.ForceCodec(rawh2.RawCodec{})))
		if err != nil {
			panic(err)
		}
		cc.Connect()
		synctest.Wait()
		if cc.GetState() != connectivity.Ready || time.Since(rec.start) != 0 {
			panic(fmt.Sprintf("not READY at time 0: %v %v", cc.GetState(), time.Since(rec.start)))
		}
		peer := <-peerCh
		var cancels []context.CancelFunc
		var pingData [8]byte
		for _, st := range b.Steps {
			rec.sleepUntil(st.T)
			if closed.Load() {
				break
			}
			switch st.A {
			case "byte":
				rec.emit("byte")
				pingData[7]++
				peer.WritePing(false, pingData)
				synctest.Wait()
			case "open":
				rec.emit("open")
				ctx, cancel := context.WithCancel(context.Background())
				if _, err := cc.NewStream(ctx, &grpc.StreamDesc{ClientStreams: true, ServerStreams: true}, "/c15/stream"); err != nil {
					panic(err)
				}
				cancels = append(cancels, cancel)
				synctest.Wait()
			case "close":
				rec.emit("sclose")
				cancels[len(cancels)-1]()
				cancels = cancels[:len(cancels)-1]
				synctest.Wait()
			case "ackon", "ackoff":
				acking.Store(st.A == "ackon")
				rec.emit("ack", "on", st.A == "ackon")
			default:
				panic("unknown step " + st.A)
			}
		}
		if !closed.Load() {
			rec.sleepUntil(b.End)
		}
		rec.emit("end")
		ended.Store(true)
		for _, c := range cancels {
			c()
		}
		cc.Close()
		lis.Close()
		synctest.Wait()
	})
}

func c15Load(t *testing.T) ([]c15Beh, *vlib.Trace) {
	lines, err := vlib.ReadLines(os.Getenv("VERIF_BEHAVIOURS"))
	if err != nil {
		t.Fatal(err)
	}
	tr, err := vlib.NewTrace(os.Getenv("VERIF_OUT"))
	if err != nil {
		t.Fatal(err)
	}
	behs := make([]c15Beh, len(lines))
	for i, ln := range lines {
		if err := json.Unmarshal(ln, &behs[i]); err != nil {
			t.Fatal(err)
		}
	}
	return behs, tr
}

func TestVerifC15Client(t *testing.T) {
	behs, tr := c15Load(t)
	defer tr.Close()
	for i, b := range behs {
		tr.Emit(map[string]any{"ev": "reset", "b": i, "T": b.T, "TO": b.TO, "permit": b.Permit, "cls": b.Cls})
		c15ClientRun(t, tr, b)
	}
	fmt.Printf("VERIF_SUMMARY {\"behaviours\":%d,\"events\":%d}\n", len(behs), tr.N)
}

// ---------------------------------------------------------------------------------------------
// server ping enforcement vs raw client

type c15Handler struct {
	cmd  chan string
	done chan struct{}
}

func c15ServerRun(t *testing.T, tr *vlib.Trace, b c15Beh) {
	synctest.Test(t, func(t *testing.T) {
		rec := &c15Rec{tr: tr, start: time.Now()}
		var ended, closed atomic.Bool
		var mu sync.Mutex
		var handlers []*c15Handler
		var srv *grpc.Server
		var conn net.Conn
		lis := bufconn.Listen(1 << 20)
		defer func() {
			if p := recover(); p != nil {
				tr.Emit(map[string]any{"ev": "panic", "t": 0, "msg": fmt.Sprint(p)})
				ended.Store(true)
				if srv != nil {
					srv.Stop()
				}
				if conn != nil {
					conn.Close()
				}
				lis.Close()
			}
		}()
		srv = grpc.NewServer(
			grpc.KeepaliveEnforcementPolicy(keepalive.EnforcementPolicy{MinTime: c15Dur(b.MinT), PermitWithoutStream: b.Permit}),
			grpc.UnknownServiceHandler(func(_ any, ss grpc.ServerStream) error {
				h := &c15Handler{cmd: make(chan string), done: make(chan struct{})}
				defer close(h.done)
				mu.Lock()
				handlers = append(handlers, h)
				mu.Unlock()
				for {
					select {
					case c := <-h.cmd:
						if c == "finish" {
							return nil
						}
						msg := []byte{1}
						if err := ss.SendMsg(&msg); err != nil {
							return err
						}
					case <-ss.Context().Done():
						return ss.Context().Err()
					}
				}
			}))
		go srv.Serve(lis)
		var err error
		conn, err = lis.Dial()
		if err != nil {
			panic(err)
		}
		p, err := rawh2.NewClientPeer(conn)
		if err != nil {
			panic(err)
		}
		p.WriteSettings()
		go func() {
			for {
				f, err := p.ReadFrame()
				if err != nil {
					if !ended.Load() {
						closed.Store(true)
						rec.emit("closed")
					}
					return
				}
				switch f := f.(type) {
				case *http2.SettingsFrame:
					if !f.IsAck() {
						p.WriteSettingsAck()
					}
				case *http2.PingFrame:
					if !f.IsAck() {
						p.WritePing(true, f.Data)
					}
				case *http2.MetaHeadersFrame:
					if !ended.Load() {
						rec.emit("ssend", "k", "headers")
					}
				case *http2.DataFrame:
					if !ended.Load() {
						rec.emit("ssend", "k", "data")
					}
				case *http2.GoAwayFrame:
					if !ended.Load() {
						rec.emit("goaway", "code", int(f.ErrCode), "debug", string(f.DebugData()))
						// the server closes the connection up to 1 s after a GOAWAY: the timeline stops here
						closed.Store(true)
					}
				}
			}
		}()
		synctest.Wait()
		var live []int // indexes into handlers / stream ids of open streams (LIFO)
		nextID := uint32(1)
		ids := map[int]uint32{}
		var lastPing time.Time
		var pingData [8]byte
		for _, st := range b.Steps {
			if closed.Load() {
				break
			}
			switch st.A {
			case "ping":
				first := lastPing.IsZero()
				if first {
					time.Sleep(c15Dur(st.G))
				} else {
					time.Sleep(lastPing.Add(c15Dur(st.G)).Sub(time.Now()))
				}
				synctest.Wait()
				if closed.Load() {
					break
				}
				gap := 0
				if !first {
					gap = c15Enc(time.Since(lastPing))
				}
				lastPing = time.Now()
				rec.emit("ping", "first", first, "gap", gap)
				pingData[7]++
				p.WritePing(false, pingData)
				synctest.Wait()
			case "open":
				rec.emit("open")
				mu.Lock()
				n := len(handlers)
				mu.Unlock()
				p.WriteHeaders(nextID, false, ":method", "POST", ":scheme", "http", ":path", "/c15/stream", ":authority", "c15",
					"content-type", "application/grpc+verifraw", "te", "trailers")
				synctest.Wait()
				mu.Lock()
				ok := len(handlers) == n+1
				mu.Unlock()
				if !ok {
					panic("handler did not start")
				}
				ids[n] = nextID
				live = append(live, n)
				nextID += 2
			case "close":
				h := live[len(live)-1]
				live = live[:len(live)-1]
				rec.emit("sclose")
				p.WriteRST(ids[h], http2.ErrCodeCancel)
				synctest.Wait()
			case "send", "finish":
				h := live[len(live)-1]
				if st.A == "finish" {
					live = live[:len(live)-1]
				}
				rec.emit("s" + st.A)
				mu.Lock()
				hh := handlers[h]
				mu.Unlock()
				hh.cmd <- st.A
				synctest.Wait()
			default:
				panic("unknown step " + st.A)
			}
		}
		synctest.Wait()
		rec.emit("end")
		ended.Store(true)
		srv.Stop()
		conn.Close()
		lis.Close()
		synctest.Wait()
	})
}

func TestVerifC15Server(t *testing.T) {
	behs, tr := c15Load(t)
	defer tr.Close()
	for i, b := range behs {
		tr.Emit(map[string]any{"ev": "reset", "b": i, "minT": b.MinT, "permit": b.Permit})
		c15ServerRun(t, tr, b)
	}
	fmt.Printf("VERIF_SUMMARY {\"behaviours\":%d,\"events\":%d}\n", len(behs), tr.N)
}
