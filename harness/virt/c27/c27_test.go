package c27

// Driver for C27 (compression is negotiated and applied consistently).  Executes the table of
// configurations that TLC enumerated (CompressionMC, one MC state per configuration) end to end:
//
//	creq   real grpc.NewClient sends a request stream        -> raw HTTP/2 server records headers, flags, payloads
//	cresp  real grpc.NewClient receives a crafted response   <- raw HTTP/2 server
//	sreq   real grpc.NewServer receives a crafted request    <- raw HTTP/2 client
//	sresp  real grpc.NewServer sends a response stream       -> raw HTTP/2 client records headers, flags, payloads
//
// The set of registered compressors is a property of the process: gzip always, "vrle" only when
// VERIF_REG contains it (the orchestrator runs the driver once per registration set).  The driver
// records one line per configuration; it never judges.

import (
	"bytes"
	"context"
	"encoding/json"
	"fmt"
	"io"
	"net"
	"os"
	"sort"
	"strconv"
	"strings"
	"sync"
	"testing"
	"time"

	"google.golang.org/grpc"
	"google.golang.org/grpc/credentials/insecure"
	"google.golang.org/grpc/encoding"
	_ "google.golang.org/grpc/encoding/gzip"
	"google.golang.org/grpc/experimental"
	"google.golang.org/grpc/internal/zzverif/vlib"
	"google.golang.org/grpc/internal/zzverif/vlib/rawh2"
	"google.golang.org/grpc/internal/zzverif/vlib/wirepeer"
	"google.golang.org/grpc/status"
	"google.golang.org/grpc/test/bufconn"
)

var (
	vrle = wirepeer.RLE{N: "vrle"}
	vleg = wirepeer.RLE{N: "vleg", Mask: 0x55}
)

func init() {
	if strings.Contains(os.Getenv("VERIF_REG"), "vrle") {
		encoding.RegisterCompressor(vrle)
	}
}

type tcase struct {
	ID      int      `json:"id"`
	Kind    string   `json:"kind"`
	Reg     []string `json:"reg"`
	Use     string   `json:"use"`
	Legacy  string   `json:"legacy"`
	DC      string   `json:"dc"`
	CP      string   `json:"cp"`
	Accept  []string `json:"accept"`
	Adv     []string `json:"adv"`
	Renc    string   `json:"renc"`
	Flag    int      `json:"flag"`
	PK      string   `json:"pk"`
	Empty   int      `json:"empty"`
	SetSend string   `json:"setsend"`
	Msgs    []int    `json:"msgs"`
}

const lastResort = 20 * time.Second

// the driver's own codec table (independent of what is registered with grpc)
func enc(name string, b []byte) ([]byte, bool) {
	switch name {
	case "gzip":
		return wirepeer.Gzip(b), true
	case "vrle":
		return vrle.Encode(b), true
	case "vleg":
		return vleg.Encode(b), true
	}
	return b, false
}

func dec(name string, b []byte) ([]byte, bool) {
	var out []byte
	var err error
	switch name {
	case "gzip":
		out, err = wirepeer.Gunzip(b)
	case "vrle":
		out, err = vrle.Decode(b)
	case "vleg":
		out, err = vleg.Decode(b)
	default:
		return nil, false
	}
	if out == nil {
		out = []byte{}
	}
	return out, err == nil
}

func code(err error) int {
	if err == nil || err == io.EOF {
		return 0
	}
	return int(status.Code(err))
}

func body(empty int, seed int) []byte {
	if empty == 1 {
		return []byte{}
	}
	return wirepeer.RLESized(30, 20, seed) // literals, a run and no zero byte: every codec changes it
}

var bidi = &grpc.StreamDesc{StreamName: "m", ClientStreams: true, ServerStreams: true}

// sentObs records what a raw peer saw of a message stream: flags and whether each payload decodes
// (as the wire says) to the message the application sent.
func sentObs(data []byte, encName string, sent [][]byte, ev map[string]any) {
	flags, msgs, rest := rawh2.SplitGrpc(data)
	fl, oks := []int{}, []int{}
	for i := range msgs {
		fl = append(fl, int(flags[i]))
		got, ok := msgs[i], true
		if flags[i] != 0 {
			got, ok = dec(encName, msgs[i])
		}
		if ok && i < len(sent) && bytes.Equal(got, sent[i]) {
			oks = append(oks, 1)
		} else {
			oks = append(oks, 0)
		}
	}
	if len(rest) > 0 {
		fl, oks = append(fl, int(rest[0])), append(oks, 0)
	}
	ev["enc"], ev["flags"], ev["oks"] = encName, fl, oks
}

func dialOpts(lis *bufconn.Listener) []grpc.DialOption {
	return []grpc.DialOption{
		grpc.WithTransportCredentials(insecure.NewCredentials()),
		grpc.WithContextDialer(func(ctx context.Context, _ string) (net.Conn, error) { return lis.DialContext(ctx) }),
		grpc.WithDefaultCallOptions(grpc.ForceCodec(rawh2.RawCodec{})),
	}
}

func runCreq(c *tcase, ev map[string]any) {
	lis := bufconn.Listen(1 << 16)
	defer lis.Close()
	done := wirepeer.ServeOne(lis, func(*wirepeer.Req) *wirepeer.Resp {
		return &wirepeer.Resp{Data: rawh2.GrpcFrame([]byte("ok"), false), Status: "0"}
	})
	dopts := dialOpts(lis)
	switch c.Legacy {
	case "gzip":
		dopts = append(dopts, grpc.WithCompressor(grpc.NewGZIPCompressor()))
	case "vleg":
		dopts = append(dopts, grpc.WithCompressor(vleg))
	}
	var copts []grpc.CallOption
	if c.Use != "" {
		copts = append(copts, grpc.UseCompressor(c.Use))
	}
	cc, err := grpc.NewClient("passthrough:///verif", dopts...)
	if err != nil {
		panic(err)
	}
	ctx, cancel := context.WithTimeout(context.Background(), lastResort)
	defer cancel()
	var sent [][]byte
	cs, rpcErr := cc.NewStream(ctx, bidi, "/svc/m", copts...)
	if rpcErr == nil {
		for i, e := range c.Msgs {
			m := body(e, c.ID+i)
			if rpcErr = cs.SendMsg(&m); rpcErr != nil {
				break
			}
			sent = append(sent, m)
		}
		if rpcErr == nil || rpcErr == io.EOF {
			cs.CloseSend()
			var r []byte
			for rpcErr = cs.RecvMsg(&r); rpcErr == nil; rpcErr = cs.RecvMsg(&r) {
			}
		}
	}
	cc.Close()
	lis.Close() // a client that never dialed leaves the raw server in Accept
	var reqs []*wirepeer.Req
	select {
	case reqs = <-done:
	case <-time.After(lastResort):
		ev["stuck"] = 1
	}
	ev["code"] = code(rpcErr)
	ev["sent"] = 0
	ev["aenc"] = ""
	if len(reqs) > 0 {
		ev["sent"] = 1
		ev["aenc"] = reqs[0].Hdr["grpc-accept-encoding"]
		all := c.Msgs
		var want [][]byte
		for i, e := range all {
			want = append(want, body(e, c.ID+i))
		}
		sentObs(reqs[0].Data, reqs[0].Hdr["grpc-encoding"], want, ev)
	} else {
		ev["enc"], ev["flags"], ev["oks"] = "", []int{}, []int{}
	}
}

// crafted builds the message a raw peer sends for a receive-side case.
func crafted(c *tcase, ev map[string]any) (payload []byte) {
	m := body(c.Empty, c.ID)
	payload = m
	if c.PK == "enc" {
		payload, _ = enc(c.Renc, m)
	}
	d, ok := dec(c.Renc, payload)
	ev["pdok"], ev["pdh"] = 0, 0
	if ok {
		ev["pdok"], ev["pdh"] = 1, wirepeer.Hash(d)
	}
	ev["rawh"] = wirepeer.Hash(payload)
	ev["plen"] = len(payload)
	return payload
}

func runCresp(c *tcase, ev map[string]any) {
	payload := crafted(c, ev)
	lis := bufconn.Listen(1 << 16)
	defer lis.Close()
	done := wirepeer.ServeOne(lis, func(*wirepeer.Req) *wirepeer.Resp {
		r := &wirepeer.Resp{Data: rawh2.GrpcFrame(payload, c.Flag == 1), Status: "0"}
		if c.Renc != "" {
			r.Hdr = []string{"grpc-encoding", c.Renc}
		}
		return r
	})
	dopts := dialOpts(lis)
	switch c.DC {
	case "gzip":
		dopts = append(dopts, grpc.WithDecompressor(grpc.NewGZIPDecompressor()))
	case "vleg":
		dopts = append(dopts, grpc.WithDecompressor(wirepeer.LegacyDecompressor{R: vleg}))
	}
	var copts []grpc.CallOption
	if len(c.Accept) > 0 {
		copts = append(copts, experimental.AcceptCompressors(c.Accept...))
	}
	cc, err := grpc.NewClient("passthrough:///verif", dopts...)
	if err != nil {
		panic(err)
	}
	ctx, cancel := context.WithTimeout(context.Background(), lastResort)
	defer cancel()
	req := []byte("hi")
	resp := []byte("unset")
	rpcErr := cc.Invoke(ctx, "/svc/m", &req, &resp, copts...)
	cc.Close()
	lis.Close() // a client that never dialed leaves the raw server in Accept
	select {
	case <-done:
	case <-time.After(lastResort):
		ev["stuck"] = 1
	}
	ev["code"], ev["n"], ev["dh"] = code(rpcErr), 0, 0
	if rpcErr == nil {
		ev["n"], ev["dh"] = 1, wirepeer.Hash(resp)
	}
}

type handlerRec struct {
	mu      sync.Mutex
	invoked bool
	got     int
	req     []byte
	setErr  int
}

func runServer(c *tcase, ev map[string]any) {
	sresp := c.Kind == "sresp"
	lis := bufconn.Listen(1 << 16)
	defer lis.Close()
	rec := &handlerRec{}
	var want [][]byte
	for i, e := range c.Msgs {
		want = append(want, body(e, c.ID+100+i))
	}
	handler := func(_ any, ss grpc.ServerStream) error {
		rec.mu.Lock()
		rec.invoked = true
		rec.mu.Unlock()
		var req []byte
		if err := ss.RecvMsg(&req); err != nil {
			return err
		}
		rec.mu.Lock()
		rec.got++
		rec.req = req
		rec.mu.Unlock()
		if !sresp {
			out := []byte("ok")
			return ss.SendMsg(&out)
		}
		if c.SetSend != "" {
			if err := grpc.SetSendCompressor(ss.Context(), c.SetSend); err != nil {
				rec.mu.Lock()
				rec.setErr = 1
				rec.mu.Unlock()
			}
		}
		for i := range want {
			out := want[i]
			if err := ss.SendMsg(&out); err != nil {
				return err
			}
		}
		return nil
	}
	sopts := []grpc.ServerOption{grpc.UnknownServiceHandler(handler), grpc.ForceServerCodec(rawh2.RawCodec{}), grpc.WaitForHandlers(true)}
	switch c.DC {
	case "gzip":
		sopts = append(sopts, grpc.RPCDecompressor(grpc.NewGZIPDecompressor()))
	case "vleg":
		sopts = append(sopts, grpc.RPCDecompressor(wirepeer.LegacyDecompressor{R: vleg}))
	}
	switch c.CP {
	case "gzip":
		sopts = append(sopts, grpc.RPCCompressor(grpc.NewGZIPCompressor()))
	case "vleg":
		sopts = append(sopts, grpc.RPCCompressor(vleg))
	}
	var hdr []string
	if c.Renc != "" {
		hdr = append(hdr, "grpc-encoding", c.Renc)
	}
	if len(c.Adv) > 0 {
		hdr = append(hdr, "grpc-accept-encoding", strings.Join(c.Adv, ","))
	}
	var data []byte
	if sresp {
		m := body(0, c.ID)
		p, ok := enc(c.Renc, m)
		data = rawh2.GrpcFrame(p, ok)
	} else {
		data = rawh2.GrpcFrame(crafted(c, ev), c.Flag == 1)
	}
	srv := grpc.NewServer(sopts...)
	go srv.Serve(lis)
	o := wirepeer.RawCall(lis, "/svc/m", hdr, data, lastResort)
	srv.Stop()
	rec.mu.Lock()
	defer rec.mu.Unlock()
	ev["code"] = -1
	if o.GotTrl {
		if v, err := strconv.Atoi(o.Trl["grpc-status"]); err == nil {
			ev["code"] = v
		}
	}
	if o.Err != "" {
		ev["rawerr"] = o.Err
	}
	ev["invoked"] = 0
	if rec.invoked {
		ev["invoked"] = 1
	}
	if sresp {
		ev["seterr"] = rec.setErr
		encName := ""
		if !(o.GotTrl && len(o.Data) == 0 && o.Hdr["grpc-status"] != "") { // not trailers-only
			encName = o.Hdr["grpc-encoding"]
		}
		sentObs(o.Data, encName, want, ev)
	} else {
		ev["n"], ev["dh"] = rec.got, 0
		if rec.got > 0 {
			ev["dh"] = wirepeer.Hash(rec.req)
		}
	}
}

func strs(s []string) []string {
	out := append([]string{}, s...)
	sort.Strings(out)
	return out
}

func runCase(tr *vlib.Trace, c *tcase) {
	defer func() {
		if r := recover(); r != nil {
			tr.Emit(map[string]any{"ev": "panic", "id": c.ID, "what": fmt.Sprint(r)})
		}
	}()
	msgs := c.Msgs
	if msgs == nil {
		msgs = []int{}
	}
	ev := map[string]any{"ev": c.Kind, "id": c.ID, "reg": strs(c.Reg), "use": c.Use, "legacy": c.Legacy, "dc": c.DC, "cp": c.CP,
		"accept": strs(c.Accept), "adv": strs(c.Adv), "renc": c.Renc, "flag": c.Flag, "pk": c.PK, "empty": c.Empty,
		"setsend": c.SetSend, "msgs": msgs}
	switch c.Kind {
	case "creq":
		runCreq(c, ev)
	case "cresp":
		runCresp(c, ev)
	case "sreq", "sresp":
		runServer(c, ev)
	default:
		panic("unknown kind " + c.Kind)
	}
	tr.Emit(ev)
}

func TestVerifC27Table(t *testing.T) {
	lines, err := vlib.ReadLines(os.Getenv("VERIF_BEHAVIOURS"))
	if err != nil {
		t.Fatal(err)
	}
	tr, err := vlib.NewTrace(os.Getenv("VERIF_OUT"))
	if err != nil {
		t.Fatal(err)
	}
	tr.Reset()
	// the registration set of this process must be the one the cases were enumerated for
	regNow := "gzip"
	if encoding.GetCompressor("vrle") != nil {
		regNow = "gzip,vrle"
	}
	work := make(chan []byte)
	var wg sync.WaitGroup
	for i := 0; i < vlib.EnvInt("VERIF_PAR", 8); i++ {
		wg.Add(1)
		go func() {
			defer wg.Done()
			for ln := range work {
				var c tcase
				if err := json.Unmarshal(ln, &c); err != nil {
					tr.Emit(map[string]any{"ev": "panic", "what": err.Error()})
					continue
				}
				if strings.Join(strs(c.Reg), ",") != regNow {
					tr.Emit(map[string]any{"ev": "skip", "id": c.ID, "why": "registration set of the process is " + regNow})
					continue
				}
				runCase(tr, &c)
			}
		}()
	}
	for _, ln := range lines {
		work <- ln
	}
	close(work)
	wg.Wait()
	if err := tr.Close(); err != nil {
		t.Fatal(err)
	}
	fmt.Printf("VERIF_SUMMARY {\"cases\":%d,\"reg\":%q}\n", len(lines), regNow)
}
