package c54

// Driver for C54 (health Watch streams converge to the latest status).
//
// The real health.Server is driven with fake Health_WatchServer streams.  A watcher
// goroutine calls stream.Context() once per loop iteration (before its select) and
// stream.Send() for every message, so both calls are natural gates: holding a watcher in
// Context() means "has not taken from its update channel yet", holding it in Send() is the
// slow sender.  Everything runs inside a testing/synctest bubble, so that synctest.Wait()
// is exact quiescence.  The driver only drives and records; TLC judges (HealthTrace.tla).

import (
	"context"
	"encoding/json"
	"fmt"
	"math/rand"
	"sync"
	"sync/atomic"
	"testing"
	"testing/synctest"
	"time"

	"google.golang.org/grpc"
	"google.golang.org/grpc/health"
	healthpb "google.golang.org/grpc/health/grpc_health_v1"
	"google.golang.org/grpc/internal/zzverif/vlib"
)

var svcName = map[string]string{"a": "", "b": "verif.svc.b"}

func statusOf(s string) healthpb.HealthCheckResponse_ServingStatus {
	return healthpb.HealthCheckResponse_ServingStatus(healthpb.HealthCheckResponse_ServingStatus_value[s])
}

type env struct {
	tr     *vlib.Trace
	srv    *health.Server
	free   atomic.Bool
	freeCh chan struct{}
	ws     map[int]*wstream
	wg     sync.WaitGroup
}

type wstream struct {
	grpc.ServerStream
	e      *env
	w      int
	ctx    context.Context
	cancel context.CancelFunc
	gate   chan struct{}
	mu     sync.Mutex
	pos    string // "", "ctx", "send"
	msgs   []string
	rng    *rand.Rand // free mode: virtual delays
	slow   int
}

func (s *wstream) setPos(p string) { s.mu.Lock(); s.pos = p; s.mu.Unlock() }
func (s *wstream) getPos() string  { s.mu.Lock(); defer s.mu.Unlock(); return s.pos }
func (s *wstream) sent() []string {
	s.mu.Lock()
	defer s.mu.Unlock()
	return append([]string{}, s.msgs...)
}

func (s *wstream) hold(p string) {
	if s.e.free.Load() {
		if s.rng != nil && s.slow > 0 {
			time.Sleep(time.Duration(s.rng.Intn(s.slow)) * time.Millisecond)
		}
		return
	}
	s.setPos(p)
	select {
	case <-s.gate:
	case <-s.e.freeCh:
	}
	s.setPos("")
}

func (s *wstream) Context() context.Context {
	s.hold("ctx")
	return s.ctx
}

func (s *wstream) Send(m *healthpb.HealthCheckResponse) error {
	v := m.GetStatus().String()
	s.mu.Lock()
	s.msgs = append(s.msgs, v)
	s.mu.Unlock()
	s.e.tr.Emit(map[string]any{"ev": "send", "w": s.w, "v": v})
	s.hold("send")
	return nil
}

func newEnv(tr *vlib.Trace, free bool) *env {
	e := &env{tr: tr, srv: health.NewServer(), freeCh: make(chan struct{}), ws: map[int]*wstream{}}
	if free {
		e.free.Store(true)
		close(e.freeCh)
	}
	return e
}

func (e *env) watch(w int, svc string, rng *rand.Rand, slow int) {
	ctx, cancel := context.WithCancel(context.Background())
	s := &wstream{e: e, w: w, ctx: ctx, cancel: cancel, gate: make(chan struct{}), rng: rng, slow: slow}
	e.ws[w] = s
	e.tr.Emit(map[string]any{"ev": "watch_begin", "w": w, "svc": svc})
	e.wg.Add(1)
	go func() {
		defer e.wg.Done()
		e.srv.Watch(&healthpb.HealthCheckRequest{Service: svcName[svc]}, s)
	}()
}

func (e *env) mutate(op, svc, v string) {
	ev := map[string]any{"ev": "mut_begin", "op": op}
	if op == "set" {
		ev["svc"], ev["v"] = svc, v
	}
	e.tr.Emit(ev)
	switch op {
	case "set":
		e.srv.SetServingStatus(svcName[svc], statusOf(v))
	case "shutdown":
		e.srv.Shutdown()
	case "resume":
		e.srv.Resume()
	}
	e.tr.Emit(map[string]any{"ev": "mut_end"})
}

func (e *env) check(svc string) {
	r, err := e.srv.Check(context.Background(), &healthpb.HealthCheckRequest{Service: svcName[svc]})
	v := "NOT_FOUND"
	if err == nil {
		v = r.GetStatus().String()
	}
	e.tr.Emit(map[string]any{"ev": "check", "svc": svc, "v": v})
}

// finish releases every gate, waits for quiescence, reports it, and ends the watchers.
func (e *env) finish() {
	if !e.free.Swap(true) {
		close(e.freeCh)
	}
	// a goroutine sleeping in virtual time counts as durably blocked: let the (bounded) virtual
	// delays of the slow watchers expire first, then wait for exact quiescence
	time.Sleep(time.Minute)
	synctest.Wait()
	e.tr.Emit(map[string]any{"ev": "quiescent"})
	for _, s := range e.ws {
		s.cancel()
	}
	e.wg.Wait()
}

type step struct {
	A   string   `json:"a"`
	W   int      `json:"w"`
	Svc string   `json:"svc"`
	V   string   `json:"v"`
	Exp []string `json:"exp"`
}

type summary struct {
	Behaviours int `json:"behaviours"`
	Steps      int `json:"steps"`
	Infeasible int `json:"infeasible"`
	Panics     int `json:"panics"`
	Sends      int `json:"sends"`
}

func (e *env) apply(st step, sum *summary) {
	info := map[string]any{"ev": "step", "a": st.A, "w": st.W}
	switch st.A {
	case "set", "shutdown", "resume":
		e.mutate(st.A, st.Svc, st.V)
		synctest.Wait()
		for _, svc := range []string{"a", "b"} {
			e.check(svc)
		}
	case "watch":
		e.watch(st.W, st.Svc, nil, 0)
		synctest.Wait()
	case "take", "done":
		want := map[string]string{"take": "ctx", "done": "send"}[st.A]
		s := e.ws[st.W]
		if s == nil || s.getPos() != want {
			sum.Infeasible++
			info["infeasible"] = true
			break
		}
		s.gate <- struct{}{}
		synctest.Wait()
	}
	if s := e.ws[st.W]; s != nil && st.Exp != nil {
		info["exp"], info["got"] = st.Exp, s.sent()
	}
	e.tr.Emit(info)
	sum.Steps++
}

func guarded(tr *vlib.Trace, sum *summary, f func()) {
	defer func() {
		if r := recover(); r != nil {
			sum.Panics++
			tr.Emit(map[string]any{"ev": "panic", "msg": fmt.Sprint(r)})
		}
	}()
	f()
}

// TestVerifC54Replay executes TLC behaviours step by step (every watcher step is gated).
func TestVerifC54Replay(t *testing.T) {
	lines, err := vlib.ReadLines(vlib.Env("VERIF_BEHAVIOURS", "beh.ndjson"))
	if err != nil {
		t.Fatal(err)
	}
	tr, err := vlib.NewTrace(vlib.Env("VERIF_OUT", "trace.ndjson"))
	if err != nil {
		t.Fatal(err)
	}
	var sum summary
	synctest.Test(t, func(t *testing.T) {
		for _, ln := range lines {
			var steps []step
			if err := json.Unmarshal(ln, &steps); err != nil {
				t.Fatal(err)
			}
			tr.Reset()
			sum.Behaviours++
			guarded(tr, &sum, func() {
				e := newEnv(tr, false)
				for _, st := range steps {
					e.apply(st, &sum)
				}
				e.finish()
				for _, s := range e.ws {
					sum.Sends += len(s.sent())
				}
			})
		}
	})
	tr.Close()
	b, _ := json.Marshal(sum)
	fmt.Printf("VERIF_SUMMARY %s\n", b)
}

// TestVerifC54Random runs seeded random histories with free-running watchers: one mutator
// goroutine (the driver), watchers with random virtual delays in Context()/Send() (slow
// senders), so that mutations race with the watcher loops.
func TestVerifC54Random(t *testing.T) {
	tr, err := vlib.NewTrace(vlib.Env("VERIF_OUT", "trace.ndjson"))
	if err != nil {
		t.Fatal(err)
	}
	n := vlib.EnvInt("VERIF_N", 100)
	seed := int64(vlib.EnvInt("VERIF_SEED", 1))
	vals := []string{"SERVING", "NOT_SERVING", "UNKNOWN"}
	svcs := []string{"a", "b"}
	var sum summary
	synctest.Test(t, func(t *testing.T) {
		for r := 0; r < n; r++ {
			rng := rand.New(rand.NewSource(seed*1000003 + int64(r)))
			tr.Reset()
			sum.Behaviours++
			guarded(tr, &sum, func() {
				e := newEnv(tr, true)
				nw := 0
				pause := rng.Intn(4) // mutator's maximum gap (virtual ms); 0 = back to back
				ops := 3 + rng.Intn(14)
				for i := 0; i < ops; i++ {
					switch k := rng.Intn(12); {
					case k < 6:
						e.mutate("set", svcs[rng.Intn(2)], vals[rng.Intn(3)])
					case k == 6:
						e.mutate("shutdown", "", "")
					case k == 7:
						e.mutate("resume", "", "")
					case k == 8:
						e.check(svcs[rng.Intn(2)])
					default:
						if nw < 4 {
							nw++
							slow := []int{0, 0, 3, 10}[rng.Intn(4)]
							e.watch(nw, svcs[rng.Intn(2)], rand.New(rand.NewSource(rng.Int63())), slow)
						}
					}
					sum.Steps++
					if pause > 0 {
						time.Sleep(time.Duration(rng.Intn(pause+1)) * time.Millisecond)
					}
				}
				e.finish()
				for _, s := range e.ws {
					sum.Sends += len(s.sent())
				}
			})
		}
	})
	tr.Close()
	b, _ := json.Marshal(sum)
	fmt.Printf("VERIF_SUMMARY %s\n", b)
}
