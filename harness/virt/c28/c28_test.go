package c28

// Driver for C28: sequential replay of TLC behaviours (and seeded random operation sequences)
// on the real google.golang.org/grpc/metadata package.  After every call the driver logs the
// returned value and a snapshot (FromOutgoingContext / FromIncomingContext of every context
// slot, contents of every register); TLC validates them against specs/Metadata.tla.
// The driver never judges.

import (
	"context"
	"encoding/json"
	"fmt"
	"math/rand"
	"os"
	"sort"
	"strconv"
	"strings"
	"testing"

	"google.golang.org/grpc/internal/zzverif/vlib"
	"google.golang.org/grpc/metadata"
)

const (
	nCtx = 2
	nReg = 2
)

type kvT struct {
	K string
	V int
}

func (p *kvT) UnmarshalJSON(b []byte) error {
	var raw []json.RawMessage
	if err := json.Unmarshal(b, &raw); err != nil {
		return err
	}
	if len(raw) != 2 {
		return fmt.Errorf("bad pair %s", b)
	}
	if err := json.Unmarshal(raw[0], &p.K); err != nil {
		return err
	}
	return json.Unmarshal(raw[1], &p.V)
}
func (p kvT) MarshalJSON() ([]byte, error) { return json.Marshal([]any{p.K, p.V}) }

type kvsT struct {
	K  string
	Vs []int
}

func (p *kvsT) UnmarshalJSON(b []byte) error {
	var raw []json.RawMessage
	if err := json.Unmarshal(b, &raw); err != nil {
		return err
	}
	if len(raw) != 2 {
		return fmt.Errorf("bad entry %s", b)
	}
	if err := json.Unmarshal(raw[0], &p.K); err != nil {
		return err
	}
	return json.Unmarshal(raw[1], &p.Vs)
}
func (p kvsT) MarshalJSON() ([]byte, error) {
	vs := p.Vs
	if vs == nil {
		vs = []int{}
	}
	return json.Marshal([]any{p.K, vs})
}

type step struct {
	Ev   string `json:"ev"`
	C    int    `json:"c,omitempty"`
	D    int    `json:"d,omitempty"`
	R    int    `json:"r,omitempty"`
	K    string `json:"k,omitempty"`
	V    []int  `json:"v,omitempty"`
	KV   []kvT  `json:"kv,omitempty"`
	MD   []kvsT `json:"md,omitempty"`
	Rs   []int  `json:"rs,omitempty"`
	Base int    `json:"base,omitempty"`
}

func vstr(n int) string { return "v" + strconv.Itoa(n) }
func vint(s string) int {
	if strings.HasPrefix(s, "v") {
		if n, err := strconv.Atoi(s[1:]); err == nil {
			return n
		}
	}
	return -1
}
func vstrs(ns []int) []string {
	out := make([]string, len(ns))
	for i, n := range ns {
		out[i] = vstr(n)
	}
	return out
}
func vints(ss []string) []int {
	out := make([]int, len(ss))
	for i, s := range ss {
		out[i] = vint(s)
	}
	return out
}

// canon prints an MD as [[key, [values]], ...] sorted by key.
func canon(md metadata.MD) []kvsT {
	keys := make([]string, 0, len(md))
	for k := range md {
		keys = append(keys, k)
	}
	sort.Strings(keys)
	out := make([]kvsT, 0, len(keys))
	for _, k := range keys {
		out = append(out, kvsT{K: k, Vs: vints(md[k])})
	}
	return out
}

type env struct {
	ctx [nCtx]context.Context
	reg [nReg]metadata.MD
}

func newEnv() *env {
	e := &env{}
	for i := range e.ctx {
		e.ctx[i] = context.Background()
	}
	return e
}

func (e *env) snap() map[string]any {
	cs := make([]map[string]any, nCtx)
	for i, c := range e.ctx {
		o, oo := metadata.FromOutgoingContext(c)
		in, io := metadata.FromIncomingContext(c)
		cs[i] = map[string]any{"oo": oo, "o": canon(o), "io": io, "i": canon(in)}
	}
	rs := make([]map[string]any, nReg)
	for i, r := range e.reg {
		rs[i] = map[string]any{"has": r != nil, "md": canon(r)}
	}
	return map[string]any{"c": cs, "r": rs}
}

func rawMD(l []kvsT) metadata.MD {
	md := metadata.MD{}
	for _, e := range l {
		md[e.K] = vstrs(e.Vs)
	}
	return md
}

func flatKV(kv []kvT) []string {
	out := make([]string, 0, 2*len(kv))
	for _, p := range kv {
		out = append(out, p.K, vstr(p.V))
	}
	return out
}

// scribbleSlice overwrites every element of a slice the API returned to the caller and appends to it.
func scribbleSlice(s []string) {
	for i := range s {
		s[i] = "scribbled"
	}
	if s != nil {
		_ = append(s, "scribbled-tail")
		_ = append(s[:0], "scribbled-head")
	}
}

func (e *env) apply(st step, tr *vlib.Trace) {
	ev := map[string]any{"ev": st.Ev}
	defer func() {
		if r := recover(); r != nil {
			tr.Emit(map[string]any{"ev": "panic", "op": st.Ev, "msg": fmt.Sprint(r)})
		}
	}()
	switch st.Ev {
	case "newout":
		e.ctx[st.C-1] = metadata.NewOutgoingContext(e.ctx[st.C-1], rawMD(st.MD))
		ev["c"], ev["md"] = st.C, orEmptyKVS(st.MD)
	case "newin":
		e.ctx[st.C-1] = metadata.NewIncomingContext(e.ctx[st.C-1], rawMD(st.MD))
		ev["c"], ev["md"] = st.C, orEmptyKVS(st.MD)
	case "append":
		e.ctx[st.C-1] = metadata.AppendToOutgoingContext(e.ctx[st.C-1], flatKV(st.KV)...)
		ev["c"], ev["kv"] = st.C, orEmptyKV(st.KV)
	case "fork":
		e.ctx[st.D-1] = e.ctx[st.C-1]
		ev["c"], ev["d"] = st.C, st.D
	case "give":
		e.ctx[st.C-1] = metadata.NewOutgoingContext(e.ctx[st.C-1], e.reg[st.R-1])
		e.reg[st.R-1] = nil
		ev["c"], ev["r"] = st.C, st.R
	case "fromout":
		md, ok := metadata.FromOutgoingContext(e.ctx[st.C-1])
		e.reg[st.D-1] = md
		ev["c"], ev["d"], ev["ok"] = st.C, st.D, ok
	case "fromin":
		md, ok := metadata.FromIncomingContext(e.ctx[st.C-1])
		e.reg[st.D-1] = md
		ev["c"], ev["d"], ev["ok"] = st.C, st.D, ok
	case "valout":
		vals := metadata.ValueFromOutgoingContext(e.ctx[st.C-1], st.K)
		ev["c"], ev["k"], ev["vals"] = st.C, st.K, vints(vals)
		scribbleSlice(vals)
	case "valin":
		vals := metadata.ValueFromIncomingContext(e.ctx[st.C-1], st.K)
		ev["c"], ev["k"], ev["vals"] = st.C, st.K, vints(vals)
		scribbleSlice(vals)
	case "get":
		ev["r"], ev["k"], ev["vals"] = st.R, st.K, vints(e.reg[st.R-1].Get(st.K))
	case "len":
		ev["r"], ev["n"] = st.R, e.reg[st.R-1].Len()
	case "set":
		e.reg[st.D-1].Set(st.K, vstrs(st.V)...)
		ev["d"], ev["k"], ev["v"] = st.D, st.K, orEmptyInts(st.V)
	case "app":
		e.reg[st.D-1].Append(st.K, vstrs(st.V)...)
		ev["d"], ev["k"], ev["v"] = st.D, st.K, orEmptyInts(st.V)
	case "del":
		e.reg[st.D-1].Delete(st.K)
		ev["d"], ev["k"] = st.D, st.K
	case "copy":
		e.reg[st.D-1] = e.reg[st.R-1].Copy()
		ev["r"], ev["d"] = st.R, st.D
	case "join":
		mds := make([]metadata.MD, len(st.Rs))
		for i, r := range st.Rs {
			mds[i] = e.reg[r-1]
		}
		e.reg[st.D-1] = metadata.Join(mds...)
		ev["rs"], ev["d"] = st.Rs, st.D
	case "pairs":
		e.reg[st.D-1] = metadata.Pairs(flatKV(st.KV)...)
		ev["kv"], ev["d"] = orEmptyKV(st.KV), st.D
	case "scribble":
		md := e.reg[st.R-1]
		keys := make([]string, 0, len(md))
		for k := range md {
			keys = append(keys, k)
		}
		sort.Strings(keys)
		n := st.Base
		for _, k := range keys {
			for i := range md[k] {
				n++
				md[k][i] = vstr(n)
			}
		}
		ev["r"], ev["base"] = st.R, st.Base
	default:
		panic("unknown step " + st.Ev)
	}
	ev["snap"] = e.snap()
	tr.Emit(ev)
}

func orEmptyInts(v []int) []int {
	if v == nil {
		return []int{}
	}
	return v
}
func orEmptyKV(v []kvT) []kvT {
	if v == nil {
		return []kvT{}
	}
	return v
}
func orEmptyKVS(v []kvsT) []kvsT {
	if v == nil {
		return []kvsT{}
	}
	return v
}

func TestVerifC28Replay(t *testing.T) {
	lines, err := vlib.ReadLines(os.Getenv("VERIF_BEHAVIOURS"))
	if err != nil {
		t.Fatal(err)
	}
	tr, err := vlib.NewTrace(os.Getenv("VERIF_OUT"))
	if err != nil {
		t.Fatal(err)
	}
	defer tr.Close()
	for i, ln := range lines {
		var steps []step
		if err := json.Unmarshal(ln, &steps); err != nil {
			t.Fatal(err)
		}
		tr.Emit(map[string]any{"ev": "reset", "b": i})
		e := newEnv()
		for _, st := range steps {
			e.apply(st, tr)
		}
	}
	fmt.Printf("VERIF_SUMMARY {\"behaviours\":%d,\"events\":%d}\n", len(lines), tr.N)
}

// TestVerifC28Random drives seeded random operation sequences that stay inside the API's
// documented domain (R4): base maps never hold two keys equal up to case, an MD handed to
// NewOutgoingContext is not touched again, MD methods are used on MDs built by the package
// (lower-case keys).  The specification judges results and snapshots.
func TestVerifC28Random(t *testing.T) {
	tr, err := vlib.NewTrace(os.Getenv("VERIF_OUT"))
	if err != nil {
		t.Fatal(err)
	}
	defer tr.Close()
	rng := rand.New(rand.NewSource(int64(vlib.EnvInt("VERIF_SEED", 1))))
	runs := vlib.EnvInt("VERIF_N", 200)
	keys := []string{"a", "A", "b", "B"}
	for r := 0; r < runs; r++ {
		tr.Emit(map[string]any{"ev": "reset", "b": r})
		e := newEnv()
		n := 6 + rng.Intn(30)
		appendHeavy := rng.Intn(3) == 0 // long chains of AppendToOutgoingContext with forks
		for k := 1; k <= n; k++ {
			fresh := func(i int) int { return 100*k + i }
			key := func() string { return keys[rng.Intn(len(keys))] }
			kvs := func() []kvT {
				m := rng.Intn(4)
				out := make([]kvT, m)
				for i := range out {
					out[i] = kvT{K: key(), V: fresh(i + 1)}
				}
				return out
			}
			tmpl := func() []kvsT {
				var out []kvsT
				i := 0
				for _, pair := range [][2]string{{"a", "A"}, {"b", "B"}} {
					x := rng.Intn(3)
					if x == 2 {
						continue
					}
					m := 1 + rng.Intn(2)
					vs := make([]int, m)
					for j := range vs {
						i++
						vs[j] = fresh(i)
					}
					out = append(out, kvsT{K: pair[x], Vs: vs})
				}
				return out
			}
			size := func(md metadata.MD) int {
				s := 0
				for _, v := range md {
					s += len(v)
				}
				return s
			}
			c, d := 1+rng.Intn(nCtx), 1+rng.Intn(nReg)
			rr := 1 + rng.Intn(nReg)
			x := rng.Intn(20)
			if appendHeavy && rng.Intn(2) == 0 {
				x = 2 + rng.Intn(2)
			}
			switch {
			case x == 0:
				e.apply(step{Ev: "newout", C: c, MD: tmpl()}, tr)
			case x == 1:
				e.apply(step{Ev: "newin", C: c, MD: tmpl()}, tr)
			case x == 2:
				e.apply(step{Ev: "append", C: c, KV: kvs()}, tr)
			case x == 3:
				e.apply(step{Ev: "fork", C: c, D: 3 - c}, tr)
			case x == 4:
				e.apply(step{Ev: "fromout", C: c, D: d}, tr)
			case x == 5:
				e.apply(step{Ev: "fromin", C: c, D: d}, tr)
			case x == 6:
				e.apply(step{Ev: "valout", C: c, K: key()}, tr)
			case x == 7:
				e.apply(step{Ev: "valin", C: c, K: key()}, tr)
			case x == 8:
				e.apply(step{Ev: "pairs", KV: kvs(), D: d}, tr)
			case e.reg[rr-1] == nil:
				e.apply(step{Ev: "fromout", C: c, D: rr}, tr)
			case x == 9:
				e.apply(step{Ev: "give", R: rr, C: c}, tr)
			case x == 10:
				e.apply(step{Ev: "get", R: rr, K: key()}, tr)
			case x == 11:
				e.apply(step{Ev: "len", R: rr}, tr)
			case x == 12:
				m := rng.Intn(3)
				vs := make([]int, m)
				for i := range vs {
					vs[i] = fresh(i + 1)
				}
				e.apply(step{Ev: "set", D: rr, K: key(), V: vs}, tr)
			case x == 13 || x == 14:
				m := rng.Intn(3)
				vs := make([]int, m)
				for i := range vs {
					vs[i] = fresh(i + 1)
				}
				e.apply(step{Ev: "app", D: rr, K: key(), V: vs}, tr)
			case x == 15:
				e.apply(step{Ev: "del", D: rr, K: key()}, tr)
			case x == 16:
				e.apply(step{Ev: "copy", R: rr, D: d}, tr)
			case x == 17:
				var rs []int
				tot := 0
				for i := 0; i < 1+rng.Intn(3); i++ {
					q := 1 + rng.Intn(nReg)
					if e.reg[q-1] != nil && tot+size(e.reg[q-1]) <= 40 {
						rs = append(rs, q)
						tot += size(e.reg[q-1])
					}
				}
				if rs == nil {
					rs = []int{}
				}
				e.apply(step{Ev: "join", Rs: rs, D: d}, tr)
			default:
				e.apply(step{Ev: "scribble", R: rr, Base: 100 * k}, tr)
			}
		}
	}
	fmt.Printf("VERIF_SUMMARY {\"behaviours\":%d,\"events\":%d}\n", runs, tr.N)
}
