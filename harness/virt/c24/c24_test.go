package c24

// Driver for C24: executes every case of the ErrorTable decision table end to end (real
// grpc.NewClient against a real grpc.Server over test/bufconn) with an error value injected at one
// source (picker, config selector, per-RPC credentials, dialer, codec, context, server handler) and
// records every non-nil, non-io.EOF error returned by Invoke / NewStream / SendMsg / RecvMsg.
// It never judges: the rows are validated by TLC against specs/ErrorTableTrace.tla.

import (
	"bytes"
	"context"
	"encoding/json"
	"errors"
	"fmt"
	"io"
	"net"
	"os"
	"sync"
	"testing"
	"time"

	"google.golang.org/grpc"
	"google.golang.org/grpc/balancer"
	"google.golang.org/grpc/balancer/base"
	"google.golang.org/grpc/codes"
	"google.golang.org/grpc/connectivity"
	"google.golang.org/grpc/credentials/insecure"
	"google.golang.org/grpc/encoding"
	"google.golang.org/grpc/internal"
	iresolver "google.golang.org/grpc/internal/resolver"
	"google.golang.org/grpc/internal/zzverif/vlib"
	"google.golang.org/grpc/resolver"
	"google.golang.org/grpc/resolver/manual"
	"google.golang.org/grpc/serviceconfig"
	"google.golang.org/grpc/status"
	"google.golang.org/grpc/test/bufconn"
)

type kind struct {
	K string `json:"k"`
	C int    `json:"c"`
}

type kase struct {
	Src  string `json:"src"`
	Kind kind   `json:"kind"`
	API  string `json:"api"`
}

func mkErr(k kind) error {
	switch k.K {
	case "plain":
		return errors.New("c24: plain error")
	case "status":
		return status.Error(codes.Code(k.C), "c24: status error")
	case "wrapped":
		return fmt.Errorf("c24: wrapping: %w", status.Error(codes.Code(k.C), "c24: status error"))
	case "canceled":
		return context.Canceled
	case "deadline":
		return context.DeadlineExceeded
	case "eof":
		return io.ErrUnexpectedEOF
	}
	panic("c24: unknown kind " + k.K)
}

// ---- codec -----------------------------------------------------------------------------

const codecName = "c24raw"

type rawCodec struct{ marshalErr, unmarshalErr error }

func (c rawCodec) Marshal(v any) ([]byte, error) {
	if c.marshalErr != nil {
		return nil, c.marshalErr
	}
	return *(v.(*[]byte)), nil
}
func (c rawCodec) Unmarshal(d []byte, v any) error {
	if c.unmarshalErr != nil {
		return c.unmarshalErr
	}
	*(v.(*[]byte)) = append([]byte(nil), d...)
	return nil
}
func (rawCodec) Name() string { return codecName }

// ---- balancer with an injectable picker error --------------------------------------------

const lbName = "c24_lb"

var pickerErrs sync.Map // target endpoint -> error

type lbBuilder struct{}

func (lbBuilder) Name() string { return lbName }
func (lbBuilder) Build(cc balancer.ClientConn, opts balancer.BuildOptions) balancer.Balancer {
	err, _ := pickerErrs.Load(opts.Target.Endpoint())
	return &lb{cc: cc, err: err.(error)}
}

type lb struct {
	cc  balancer.ClientConn
	err error
}

func (b *lb) UpdateClientConnState(balancer.ClientConnState) error {
	b.cc.UpdateState(balancer.State{ConnectivityState: connectivity.TransientFailure, Picker: base.NewErrPicker(b.err)})
	return nil
}
func (b *lb) ResolverError(error)                                         {}
func (b *lb) UpdateSubConnState(balancer.SubConn, balancer.SubConnState) {}
func (b *lb) Close()                                                      {}
func (b *lb) ExitIdle()                                                   {}

// ---- compressors failing at a chosen point ------------------------------------------------
//
// All are identity "compressions".  c24zc / c24zw / c24zx fail at Compress() / Write() / Close() (the
// message never leaves the client).  c24z works, except that Decompress() fails when the payload starts
// with "FAILD" and the reader it returns fails when the payload starts with "FAILR" (the server answers
// with such a payload, so only the client's receive side fails).

type zComp struct{ name, failAt string }

func (z zComp) Name() string { return z.name }
func (z zComp) Compress(w io.Writer) (io.WriteCloser, error) {
	if z.failAt == "compress" {
		return nil, errors.New("c24: Compress fails")
	}
	return zWriter{w, z.failAt}, nil
}
func (z zComp) Decompress(r io.Reader) (io.Reader, error) {
	b, err := io.ReadAll(r)
	if err != nil {
		return nil, err
	}
	switch {
	case bytes.HasPrefix(b, []byte("FAILD")):
		return nil, errors.New("c24: Decompress fails")
	case bytes.HasPrefix(b, []byte("FAILR")):
		return zBadReader{}, nil
	}
	return bytes.NewReader(b), nil
}

type zWriter struct {
	w      io.Writer
	failAt string
}

func (z zWriter) Write(p []byte) (int, error) {
	if z.failAt == "write" {
		return 0, errors.New("c24: compressor Write fails")
	}
	return z.w.Write(p)
}
func (z zWriter) Close() error {
	if z.failAt == "close" {
		return errors.New("c24: compressor Close fails")
	}
	return nil
}

type zBadReader struct{}

func (zBadReader) Read([]byte) (int, error) { return 0, errors.New("c24: decompressing reader fails") }

func init() {
	encoding.RegisterCompressor(zComp{"c24zc", "compress"})
	encoding.RegisterCompressor(zComp{"c24zw", "write"})
	encoding.RegisterCompressor(zComp{"c24zx", "close"})
	encoding.RegisterCompressor(zComp{"c24z", ""})
	balancer.Register(lbBuilder{})
	encoding.RegisterCodec(rawCodec{})
}

// ---- config selector, credentials ------------------------------------------------------

type errSelector struct{ err error }

func (s errSelector) SelectConfig(iresolver.RPCInfo) (*iresolver.RPCConfig, error) { return nil, s.err }

type errCreds struct{ err error }

func (c errCreds) GetRequestMetadata(context.Context, ...string) (map[string]string, error) {
	return nil, c.err
}
func (errCreds) RequireTransportSecurity() bool { return false }

// capListener hands the accepted (server side) connections to the driver.
type capListener struct {
	net.Listener
	ch chan net.Conn
	on bool
}

func (l capListener) Accept() (net.Conn, error) {
	c, err := l.Listener.Accept()
	if err == nil && l.on {
		select {
		case l.ch <- c:
		default:
		}
	}
	return c, err
}

// retry policy whose backoff (5 s +-20 %) is much longer than the life of the RPC's context
const retryPolicy = `"methodConfig":[{"name":[{}],"retryPolicy":{"maxAttempts":4,"initialBackoff":"5s","maxBackoff":"5s",` +
	`"backoffMultiplier":1.0,"retryableStatusCodes":["UNAVAILABLE"]}}]`

// ---- one case ------------------------------------------------------------------------------

type rec struct {
	Op   string `json:"op"`
	St   bool   `json:"st"`
	Code int    `json:"code"`
	Msg  string `json:"msg"`
}

// note records err if it is an error in the sense of the property; returns true if the RPC is over.
func note(out *[]rec, op string, err error) bool {
	if err == nil {
		return false
	}
	if err == io.EOF {
		return op == "recvmsg"
	}
	st, ok := status.FromError(err)
	msg := err.Error()
	if len(msg) > 120 {
		msg = msg[:120]
	}
	b := []byte(msg)
	for i := range b {
		if b[i] < 32 || b[i] > 126 || b[i] == '"' || b[i] == '\\' {
			b[i] = '.'
		}
	}
	msg = string(b)
	*out = append(*out, rec{Op: op, St: ok, Code: int(st.Code()), Msg: msg})
	return true
}

func runCase(id int, k kase) (row map[string]any) {
	row = map[string]any{"ev": "case", "src": k.Src, "kind": k.Kind, "api": k.API}
	defer func() {
		if p := recover(); p != nil {
			row = map[string]any{"ev": "panic", "case": k, "msg": fmt.Sprint(p)}
		}
	}()
	var inj error
	switch k.Src {
	case "context", "transport", "retry_server", "compressor":
	case "retry_picker":
		inj = errors.New("c24: no backend") // fail-fast RPC: UNAVAILABLE, retryable
	default:
		inj = mkErr(k.Kind)
	}
	entered := make(chan struct{}, 4)
	handler := func(_ any, ss grpc.ServerStream) error {
		switch {
		case k.Src == "retry_server":
			return status.Error(codes.Unavailable, "c24: retry me") // trailers-only, retryable
		case k.Src == "compressor" && (k.Kind.K == "decompress" || k.Kind.K == "read"):
			var in []byte
			if err := ss.RecvMsg(&in); err != nil {
				return err
			}
			out := []byte("FAILD response")
			if k.Kind.K == "read" {
				out = []byte("FAILR response")
			}
			return ss.SendMsg(&out)
		case k.Src == "handler":
			var in []byte
			ss.RecvMsg(&in)
			return inj
		case k.Src == "context" || k.Src == "transport":
			entered <- struct{}{}
			<-ss.Context().Done()
			return ss.Context().Err()
		}
		var in []byte
		if err := ss.RecvMsg(&in); err != nil {
			return err
		}
		if err := ss.SendMsg(&in); err != nil {
			return err
		}
		return nil
	}
	lis := bufconn.Listen(1 << 16)
	srv := grpc.NewServer(grpc.UnknownServiceHandler(handler))
	done := make(chan struct{})
	conns := make(chan net.Conn, 8) // the end of the connection that the case closes under the RPC
	go func() { srv.Serve(capListener{lis, conns, k.Kind.K == "server_conn_closed"}); close(done) }()

	endpoint := fmt.Sprintf("case-%d", id)
	target := "passthrough:///" + endpoint
	codec := rawCodec{}
	dialer := func(ctx context.Context, _ string) (net.Conn, error) {
		c, err := lis.DialContext(ctx)
		if err == nil && k.Kind.K == "client_conn_closed" {
			conns <- c
		}
		return c, err
	}
	dopts := []grpc.DialOption{grpc.WithTransportCredentials(insecure.NewCredentials())}
	var copts []grpc.CallOption
	switch k.Src {
	case "picker":
		pickerErrs.Store(endpoint, inj)
		defer pickerErrs.Delete(endpoint)
		dopts = append(dopts, grpc.WithDefaultServiceConfig(`{"loadBalancingConfig":[{"`+lbName+`":{}}]}`))
	case "retry_picker":
		pickerErrs.Store(endpoint, inj)
		defer pickerErrs.Delete(endpoint)
		dopts = append(dopts, grpc.WithDefaultServiceConfig(`{"loadBalancingConfig":[{"`+lbName+`":{}}],`+retryPolicy+`}`))
	case "retry_server":
		dopts = append(dopts, grpc.WithDefaultServiceConfig(`{`+retryPolicy+`}`))
	case "configsel":
		r := manual.NewBuilderWithScheme("c24r")
		sc := internal.ParseServiceConfig.(func(string) *serviceconfig.ParseResult)("{}")
		r.InitialState(iresolver.SetConfigSelector(resolver.State{Addresses: []resolver.Address{{Addr: "bufnet"}}, ServiceConfig: sc}, errSelector{inj}))
		dopts = append(dopts, grpc.WithResolvers(r))
		target = r.Scheme() + ":///" + endpoint
	case "creds_dial":
		dopts = append(dopts, grpc.WithPerRPCCredentials(errCreds{inj}))
	case "creds_call":
		copts = append(copts, grpc.PerRPCCredentials(errCreds{inj}))
	case "dialer":
		dialer = func(context.Context, string) (net.Conn, error) { return nil, inj }
	case "compressor":
		name := map[string]string{"compress": "c24zc", "write": "c24zw", "close": "c24zx"}[k.Kind.K]
		if name == "" {
			name = "c24z"
		}
		copts = append(copts, grpc.UseCompressor(name))
	case "marshal":
		codec.marshalErr = inj
	case "unmarshal":
		codec.unmarshalErr = inj
	}
	dopts = append(dopts, grpc.WithContextDialer(dialer), grpc.WithDefaultCallOptions(grpc.ForceCodec(codec)))
	cc, err := grpc.NewClient(target, dopts...)
	if err != nil {
		panic(err)
	}
	ctx, cancel := context.WithTimeout(context.Background(), 10*time.Minute) // last resort only
	switch k.Kind.K {
	case "cancel_before":
		cancel()
	case "deadline_before":
		cancel()
		ctx, cancel = context.WithDeadline(context.Background(), time.Now().Add(-time.Second))
	case "deadline_during":
		cancel()
		ctx, cancel = context.WithTimeout(context.Background(), 50*time.Millisecond)
	case "cancel_during":
		go func() { <-entered; cancel() }()
	case "cancel_backoff":
		// the backoff before the second attempt lasts 4-6 s; the context ends well inside it (if the
		// machine is so slow that it ends earlier the RPC still ends CANCELED / DEADLINE_EXCEEDED)
		tm := time.AfterFunc(700*time.Millisecond, cancel)
		defer tm.Stop()
	case "deadline_backoff":
		cancel()
		ctx, cancel = context.WithTimeout(context.Background(), 700*time.Millisecond)
	case "client_conn_closed", "server_conn_closed":
		go func() { <-entered; (<-conns).Close() }()
	}
	errs := []rec{}
	req, resp := []byte("ping"), []byte{}
	if k.API == "unary" {
		note(&errs, "invoke", cc.Invoke(ctx, "/c24.S/M", &req, &resp, copts...))
	} else {
		cs, err := cc.NewStream(ctx, &grpc.StreamDesc{ClientStreams: true, ServerStreams: true}, "/c24.S/M", copts...)
		if !note(&errs, "newstream", err) {
			if !note(&errs, "sendmsg", cs.SendMsg(&req)) {
				cs.CloseSend()
				for i := 0; i < 3; i++ {
					if err := cs.RecvMsg(&resp); err != nil {
						note(&errs, "recvmsg", err)
						break
					}
				}
			}
		}
	}
	cancel()
	cc.Close()
	srv.Stop()
	<-done
	lis.Close()
	row["errs"] = errs
	return row
}

func TestVerifC24Table(t *testing.T) {
	lines, err := vlib.ReadLines(os.Getenv("VERIF_BEHAVIOURS"))
	if err != nil {
		t.Fatal(err)
	}
	tr, err := vlib.NewTrace(os.Getenv("VERIF_OUT"))
	if err != nil {
		t.Fatal(err)
	}
	defer tr.Close()
	rows := make([]map[string]any, len(lines))
	sem := make(chan struct{}, 8)
	var wg sync.WaitGroup
	for i, ln := range lines {
		var k kase
		if err := json.Unmarshal(ln, &k); err != nil {
			t.Fatal(err)
		}
		wg.Add(1)
		sem <- struct{}{}
		go func() {
			defer wg.Done()
			rows[i] = runCase(i, k)
			<-sem
		}()
	}
	wg.Wait()
	for _, r := range rows {
		tr.Emit(r)
	}
	fmt.Printf("VERIF_SUMMARY {\"cases\":%d}\n", len(rows))
}
