package c21

// Driver for C21 (effective message size limits).  Executes the table of configurations that TLC
// enumerated (SizeLimitsMC, one MC state per configuration) end to end:
//
//	csend  real grpc.NewClient  -> raw HTTP/2 server (sees exactly what was transmitted)
//	crecv  real grpc.NewClient  <- raw HTTP/2 server (sends the crafted message)
//	ssend  real grpc.NewServer  -> raw HTTP/2 client
//	srecv  real grpc.NewServer  <- raw HTTP/2 client
//
// over test/bufconn with the raw codec and a generic UnknownServiceHandler.  The driver records one
// "case" line per configuration; it never judges.

import (
	"context"
	"encoding/json"
	"fmt"
	"io"
	"net"
	"os"
	"strconv"
	"sync"
	"testing"
	"time"

	"google.golang.org/grpc"
	"google.golang.org/grpc/credentials/insecure"
	"google.golang.org/grpc/encoding"
	_ "google.golang.org/grpc/encoding/gzip"
	"google.golang.org/grpc/internal/zzverif/vlib"
	"google.golang.org/grpc/internal/zzverif/vlib/rawh2"
	"google.golang.org/grpc/internal/zzverif/vlib/wirepeer"
	"google.golang.org/grpc/status"
	"google.golang.org/grpc/test/bufconn"
)

var rle = wirepeer.RLE{N: "vrle"}

func init() { encoding.RegisterCompressor(rle) }

type tcase struct {
	ID    int    `json:"id"`
	Side  string `json:"side"`
	API   string `json:"api"`
	SC    int    `json:"sc"`
	Dial  int    `json:"dial"`
	Call  int    `json:"call"`
	Srv   int    `json:"srv"`
	Comp  string `json:"comp"`
	Shape string `json:"shape"`
	U     int    `json:"u"`
	W     int    `json:"w"`
}

const lastResort = 20 * time.Second

// build returns the message and its encoded (wire) form for the case; nil if impossible.
func build(c *tcase) (msg, wire []byte) {
	seed := c.ID
	switch c.Comp {
	case "none":
		msg = wirepeer.Plain(c.U, seed)
		return msg, msg
	case "vrle":
		msg = wirepeer.RLESized(c.U, c.W, seed)
		if msg == nil {
			return nil, nil
		}
		return msg, rle.Encode(msg)
	case "gzip", "gzip0":
		if c.Shape == "expand" {
			msg = wirepeer.GzipWire(c.W, seed)
		} else {
			msg = wirepeer.GzipShrunk(c.U, seed)
		}
		if msg == nil {
			return nil, nil
		}
		return msg, wirepeer.Gzip(msg)
	}
	return nil, nil
}

func encName(comp string) string {
	switch comp {
	case "vrle":
		return "vrle"
	case "gzip", "gzip0":
		return "gzip"
	}
	return ""
}

// decode undoes the wire encoding of one observed message (flag, payload) under encoding enc.
func decode(flag byte, payload []byte, enc string) []byte {
	if flag == 0 {
		return payload
	}
	switch enc {
	case "vrle":
		if b, err := rle.Decode(payload); err == nil {
			return b
		}
	case "gzip":
		if b, err := wirepeer.Gunzip(payload); err == nil {
			return b
		}
	}
	return nil
}

// seen summarises length-prefixed data observed by a raw peer.
func seen(data []byte, enc string, ev map[string]any) {
	flags, msgs, rest := rawh2.SplitGrpc(data)
	n := len(msgs)
	if len(rest) > 0 {
		n++
	}
	ev["n"] = n
	ev["du"], ev["dh"] = 0, 0
	if len(msgs) > 0 {
		d := decode(flags[0], msgs[0], enc)
		ev["du"], ev["dh"] = len(d), wirepeer.Hash(d)
		ev["seenw"] = len(msgs[0])
		ev["seenflag"] = int(flags[0])
	}
}

func code(err error) int {
	if err == nil || err == io.EOF {
		return 0
	}
	return int(status.Code(err))
}

func scJSON(field string, v int) string {
	return fmt.Sprintf(`{"methodConfig":[{"name":[{"service":"svc"}],"%s":%d}]}`, field, v)
}

var bidi = &grpc.StreamDesc{StreamName: "m", ClientStreams: true, ServerStreams: true}

func runClient(c *tcase, msg, wire []byte, ev map[string]any) {
	send := c.Side == "csend"
	lis := bufconn.Listen(1 << 20)
	defer lis.Close()
	done := wirepeer.ServeOne(lis, func(*wirepeer.Req) *wirepeer.Resp {
		if send {
			return &wirepeer.Resp{Data: rawh2.GrpcFrame([]byte("ok"), false), Status: "0"}
		}
		r := &wirepeer.Resp{Data: rawh2.GrpcFrame(wire, c.Comp != "none"), Status: "0"}
		if n := encName(c.Comp); n != "" {
			r.Hdr = []string{"grpc-encoding", n}
		}
		return r
	})
	dopts := []grpc.DialOption{
		grpc.WithTransportCredentials(insecure.NewCredentials()),
		grpc.WithContextDialer(func(ctx context.Context, _ string) (net.Conn, error) { return lis.DialContext(ctx) }),
		grpc.WithDefaultCallOptions(grpc.ForceCodec(rawh2.RawCodec{})),
		grpc.WithStaticStreamWindowSize(1 << 26), grpc.WithStaticConnWindowSize(1 << 26),
	}
	var copts []grpc.CallOption
	if send {
		if c.SC != 0 {
			dopts = append(dopts, grpc.WithDefaultServiceConfig(scJSON("maxRequestMessageBytes", c.SC)))
		}
		if c.Dial != 0 {
			dopts = append(dopts, grpc.WithDefaultCallOptions(grpc.MaxCallSendMsgSize(c.Dial)))
		}
		if c.Call != 0 {
			copts = append(copts, grpc.MaxCallSendMsgSize(c.Call))
		}
		switch c.Comp {
		case "vrle":
			copts = append(copts, grpc.UseCompressor("vrle"))
		case "gzip":
			copts = append(copts, grpc.UseCompressor("gzip"))
		case "gzip0":
			dopts = append(dopts, grpc.WithCompressor(grpc.NewGZIPCompressor()))
		}
	} else {
		if c.SC != 0 {
			dopts = append(dopts, grpc.WithDefaultServiceConfig(scJSON("maxResponseMessageBytes", c.SC)))
		}
		if c.Dial != 0 {
			dopts = append(dopts, grpc.WithDefaultCallOptions(grpc.MaxCallRecvMsgSize(c.Dial)))
		}
		if c.Call != 0 {
			copts = append(copts, grpc.MaxCallRecvMsgSize(c.Call))
		}
		if c.Comp == "gzip0" {
			dopts = append(dopts, grpc.WithDecompressor(grpc.NewGZIPDecompressor()))
		}
	}
	cc, err := grpc.NewClient("passthrough:///verif", dopts...)
	if err != nil {
		panic(err)
	}
	ctx, cancel := context.WithTimeout(context.Background(), lastResort)
	defer cancel()
	req := []byte("hi")
	if send {
		req = msg
	}
	var resp []byte
	got := false
	var rpcErr error
	if c.API == "unary" {
		rpcErr = cc.Invoke(ctx, "/svc/m", &req, &resp, copts...)
		got = rpcErr == nil
	} else {
		var cs grpc.ClientStream
		cs, rpcErr = cc.NewStream(ctx, bidi, "/svc/m", copts...)
		if rpcErr == nil {
			rpcErr = cs.SendMsg(&req)
		}
		if rpcErr == nil || rpcErr == io.EOF {
			cs.CloseSend()
			var first []byte
			rpcErr = cs.RecvMsg(&first)
			if rpcErr == nil {
				got, resp = true, first
				var more []byte
				for rpcErr == nil {
					rpcErr = cs.RecvMsg(&more)
				}
			}
		}
	}
	cc.Close()
	lis.Close() // a client that never dialed leaves the raw server in Accept
	var reqs []*wirepeer.Req
	select {
	case reqs = <-done:
	case <-time.After(lastResort):
		ev["stuck"] = 1
	}
	ev["code"], ev["acode"] = code(rpcErr), code(rpcErr)
	ev["streams"] = len(reqs)
	if send {
		var all []byte
		enc := ""
		for _, r := range reqs {
			all = append(all, r.Data...)
			enc = r.Hdr["grpc-encoding"]
		}
		seen(all, enc, ev)
	} else {
		ev["n"], ev["du"], ev["dh"] = 0, 0, 0
		if got {
			ev["n"], ev["du"], ev["dh"] = 1, len(resp), wirepeer.Hash(resp)
		}
	}
}

type handlerRec struct {
	mu      sync.Mutex
	invoked bool
	err     error
	got     bool
	req     []byte
}

func runServer(c *tcase, msg, wire []byte, ev map[string]any) {
	send := c.Side == "ssend"
	lis := bufconn.Listen(1 << 20)
	defer lis.Close()
	rec := &handlerRec{}
	handler := func(_ any, ss grpc.ServerStream) error {
		rec.mu.Lock()
		rec.invoked = true
		rec.mu.Unlock()
		var req []byte
		err := ss.RecvMsg(&req)
		if err == nil {
			rec.mu.Lock()
			rec.got, rec.req = true, req
			rec.mu.Unlock()
			if send {
				if c.Comp == "vrle" {
					if e := grpc.SetSendCompressor(ss.Context(), "vrle"); e != nil {
						panic(e)
					}
				}
				out := msg
				err = ss.SendMsg(&out)
			} else {
				out := []byte("ok")
				err = ss.SendMsg(&out)
			}
		}
		rec.mu.Lock()
		rec.err = err
		rec.mu.Unlock()
		return err
	}
	sopts := []grpc.ServerOption{
		grpc.UnknownServiceHandler(handler), grpc.ForceServerCodec(rawh2.RawCodec{}), grpc.WaitForHandlers(true),
		grpc.StaticStreamWindowSize(1 << 26), grpc.StaticConnWindowSize(1 << 26),
	}
	if c.Srv != 0 {
		if send {
			sopts = append(sopts, grpc.MaxSendMsgSize(c.Srv))
		} else {
			sopts = append(sopts, grpc.MaxRecvMsgSize(c.Srv))
		}
	}
	if c.Comp == "gzip0" {
		if send {
			sopts = append(sopts, grpc.RPCCompressor(grpc.NewGZIPCompressor()))
		} else {
			sopts = append(sopts, grpc.RPCDecompressor(grpc.NewGZIPDecompressor()))
		}
	}
	srv := grpc.NewServer(sopts...)
	go srv.Serve(lis)
	var hdr []string
	var data []byte
	if send {
		hdr = []string{"grpc-accept-encoding", "gzip,vrle"}
		data = rawh2.GrpcFrame([]byte("hi"), false)
	} else {
		if n := encName(c.Comp); n != "" {
			hdr = []string{"grpc-encoding", n, "grpc-accept-encoding", "gzip,vrle"}
		}
		data = rawh2.GrpcFrame(wire, c.Comp != "none")
	}
	o := wirepeer.RawCall(lis, "/svc/m", hdr, data, lastResort)
	srv.Stop()
	rec.mu.Lock()
	defer rec.mu.Unlock()
	ev["acode"] = code(rec.err)
	if !rec.invoked {
		ev["acode"] = -1
	}
	ev["code"] = -1
	if o.GotTrl {
		if v, err := strconv.Atoi(o.Trl["grpc-status"]); err == nil {
			ev["code"] = v
		}
	}
	if o.Err != "" {
		ev["rawerr"] = o.Err
	}
	if send {
		seen(o.Data, o.Hdr["grpc-encoding"], ev)
	} else {
		ev["n"], ev["du"], ev["dh"] = 0, 0, 0
		if rec.got {
			ev["n"], ev["du"], ev["dh"] = 1, len(rec.req), wirepeer.Hash(rec.req)
		}
	}
}

func runCase(tr *vlib.Trace, c *tcase) {
	defer func() {
		if r := recover(); r != nil {
			tr.Emit(map[string]any{"ev": "panic", "id": c.ID, "what": fmt.Sprint(r)})
		}
	}()
	msg, wire := build(c)
	if msg == nil {
		tr.Emit(map[string]any{"ev": "skip", "id": c.ID, "why": "no message with the requested sizes"})
		return
	}
	ev := map[string]any{"ev": "case", "id": c.ID, "side": c.Side, "api": c.API, "sc": c.SC, "dial": c.Dial, "call": c.Call,
		"srv": c.Srv, "comp": c.Comp, "shape": c.Shape, "u": len(msg), "w": len(wire), "h": wirepeer.Hash(msg)}
	if c.Side == "csend" || c.Side == "crecv" {
		runClient(c, msg, wire, ev)
	} else {
		runServer(c, msg, wire, ev)
	}
	tr.Emit(ev)
}

func TestVerifC21Table(t *testing.T) {
	lines, err := vlib.ReadLines(os.Getenv("VERIF_BEHAVIOURS"))
	if err != nil {
		t.Fatal(err)
	}
	tr, err := vlib.NewTrace(os.Getenv("VERIF_OUT"))
	if err != nil {
		t.Fatal(err)
	}
	tr.Reset()
	n := len(lines)
	// every case has its own listener, client and server: cases are independent and run on a small pool
	work := make(chan []byte)
	var wg sync.WaitGroup
	for i := 0; i < vlib.EnvInt("VERIF_PAR", 8); i++ {
		wg.Add(1)
		go func() {
			defer wg.Done()
			for ln := range work {
				var c tcase
				if err := json.Unmarshal(ln, &c); err != nil {
					tr.Emit(map[string]any{"ev": "panic", "what": err.Error()})
					continue
				}
				runCase(tr, &c)
			}
		}()
	}
	for _, ln := range lines {
		work <- ln
	}
	close(work)
	wg.Wait()
	if err := tr.Close(); err != nil {
		t.Fatal(err)
	}
	fmt.Printf("VERIF_SUMMARY {\"cases\":%d}\n", n)
}
