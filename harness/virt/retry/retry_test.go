package retry

// Driver for C18 / C19(a): every behaviour chosen by TLC from specs/Retry.tla (a configuration, a sequence of
// application operations and one server script per attempt) is executed end to end inside a testing/synctest
// bubble: a real grpc.ClientConn (retry policy from the service config) against a raw HTTP/2 server that answers
// the k-th stream according to the k-th script and logs what every stream received.  The driver only drives and
// records; specs/RetryTrace.tla judges.

import (
	"context"
	"encoding/json"
	"fmt"
	"io"
	"net"
	"os"
	"strconv"
	"sync"
	"testing"
	"testing/synctest"
	"time"

	"golang.org/x/net/http2"
	"google.golang.org/grpc"
	"google.golang.org/grpc/credentials/insecure"
	"google.golang.org/grpc/internal/zzverif/vlib"
	"google.golang.org/grpc/internal/zzverif/vlib/rawh2"
	"google.golang.org/grpc/stats"
	"google.golang.org/grpc/status"
	"google.golang.org/grpc/test/bufconn"
)

type script struct {
	Act  string `json:"act"`
	Code int    `json:"code"`
	Pb   string `json:"pb"`
	Trig string `json:"trig"`
}

type opStep struct {
	Op     string `json:"op"`
	I      int    `json:"i"`
	Inline int    `json:"inline"` // unpark: 1 = while the preceding header/recv is blocked
}

// gateSH is a stats.Handler that parks the goroutine reporting the next OutPayload (csAttempt.sendMsg reports it
// after the transport write, outside cs.mu) until the driver releases it.
type gateSH struct {
	mu      sync.Mutex
	armed   bool
	release chan struct{}
}

func (g *gateSH) TagRPC(ctx context.Context, _ *stats.RPCTagInfo) context.Context   { return ctx }
func (g *gateSH) TagConn(ctx context.Context, _ *stats.ConnTagInfo) context.Context { return ctx }
func (g *gateSH) HandleConn(context.Context, stats.ConnStats)                       {}
func (g *gateSH) HandleRPC(_ context.Context, st stats.RPCStats) {
	if _, ok := st.(*stats.OutPayload); !ok {
		return
	}
	g.mu.Lock()
	armed, rel := g.armed, g.release
	g.armed = false
	g.mu.Unlock()
	if armed {
		<-rel
	}
}
func (g *gateSH) arm() {
	g.mu.Lock()
	g.armed, g.release = true, make(chan struct{})
	g.mu.Unlock()
}
func (g *gateSH) open() {
	g.mu.Lock()
	g.armed = false
	rel := g.release
	g.release = nil
	g.mu.Unlock()
	if rel != nil {
		close(rel)
	}
}

type config struct {
	MaxAtt   int   `json:"maxAtt"`
	Cap      int   `json:"cap"`
	Codes    []int `json:"codes"`
	BufLimit int   `json:"bufLimit"`
	ThrMax   int   `json:"thrMax"`
	Boff     int   `json:"boff"`
}

type behaviour struct {
	Cfg     config   `json:"cfg"`
	Ops     []opStep `json:"ops"`
	Scripts []script `json:"scripts"`
}

// attLog is what the server saw of one stream (= one attempt).
type attLog struct {
	k      int
	id     uint32
	prev   int
	t      int64 // arrival of HEADERS, ns since the start of the behaviour
	actT   int64 // instant at which the scripted answer was written (-1: not yet)
	sc     script
	buf    []byte
	recv   [][]int // decoded items: [first byte, length, all-bytes-equal] per message, [0,0,0] for END_STREAM
	acted  bool
	logged bool
}

type server struct {
	mu      sync.Mutex
	start   time.Time
	scripts []script
	atts    []*attLog
}

func (s *server) since() int64 { return int64(time.Since(s.start)) }

func pbFields(pb string) []string {
	switch pb {
	case "p0":
		return []string{"grpc-retry-pushback-ms", "0"}
	case "p7":
		return []string{"grpc-retry-pushback-ms", "7"}
	case "neg":
		return []string{"grpc-retry-pushback-ms", "-1"}
	case "bad":
		return []string{"grpc-retry-pushback-ms", "x7"}
	case "multi":
		return []string{"grpc-retry-pushback-ms", "7", "grpc-retry-pushback-ms", "8"}
	}
	return nil
}

// answer writes the scripted response of attempt a one virtual millisecond after its trigger.
func (s *server) answer(p *rawh2.Peer, a *attLog) {
	time.Sleep(time.Millisecond)
	s.mu.Lock()
	a.actT = s.since()
	sc := a.sc
	s.mu.Unlock()
	id := a.id
	hdr := []string{":status", "200", "content-type", "application/grpc"}
	code := strconv.Itoa(sc.Code)
	switch sc.Act {
	case "OK":
		p.WriteHeaders(id, false, hdr...)
		p.WriteData(id, false, rawh2.GrpcFrame([]byte("r"), false))
		p.WriteHeaders(id, true, "grpc-status", "0")
	case "TO":
		kv := append(append([]string{}, hdr...), "grpc-status", code, "grpc-message", "scripted")
		kv = append(kv, pbFields(sc.Pb)...)
		p.WriteHeaders(id, true, kv...)
	case "HF":
		p.WriteHeaders(id, false, hdr...)
		p.WriteHeaders(id, true, "grpc-status", code)
	case "MF":
		p.WriteHeaders(id, false, hdr...)
		p.WriteData(id, false, rawh2.GrpcFrame([]byte("r"), false))
		p.WriteHeaders(id, true, "grpc-status", code)
	case "REF":
		p.WriteRST(id, http2.ErrCodeRefusedStream)
	case "GOAWAY":
		last := uint32(0)
		if id >= 2 {
			last = id - 2
		}
		p.WriteGoAway(last, http2.ErrCodeNo, nil)
	}
}

func (s *server) handle(c net.Conn) {
	defer c.Close()
	p, err := rawh2.NewServerPeer(c)
	if err != nil {
		return
	}
	p.WriteSettings()
	byID := map[uint32]*attLog{}
	for {
		f, err := p.ReadFrame()
		if err != nil {
			return
		}
		switch f := f.(type) {
		case *http2.SettingsFrame:
			if !f.IsAck() {
				p.WriteSettingsAck()
			}
		case *http2.PingFrame:
			if !f.IsAck() {
				p.WritePing(true, f.Data)
			}
		case *http2.MetaHeadersFrame:
			s.mu.Lock()
			a := &attLog{k: len(s.atts), id: f.StreamID, t: s.since(), actT: -1}
			if v := rawh2.Field(f, "grpc-previous-rpc-attempts"); v != "" {
				a.prev, _ = strconv.Atoi(v)
			}
			if a.k < len(s.scripts) {
				a.sc = s.scripts[a.k]
			} else {
				a.sc = script{Act: "OK", Trig: "open", Pb: "none"}
			}
			s.atts = append(s.atts, a)
			byID[f.StreamID] = a
			fire := a.sc.Trig == "open"
			if fire {
				a.acted = true
			}
			s.mu.Unlock()
			if fire {
				go s.answer(p, a)
			}
		case *http2.DataFrame:
			a := byID[f.StreamID]
			if a == nil {
				continue
			}
			s.mu.Lock()
			a.buf = append(a.buf, f.Data()...)
			_, msgs, rest := rawh2.SplitGrpc(a.buf)
			a.buf = append([]byte(nil), rest...)
			for _, m := range msgs {
				item := []int{0, len(m), 1}
				if len(m) > 0 {
					item[0] = int(m[0])
					for _, b := range m {
						if b != m[0] {
							item[2] = 0
						}
					}
				}
				a.recv = append(a.recv, item)
			}
			fire := false
			if a.sc.Trig == "m2" && !a.acted {
				for _, it := range a.recv {
					if it[0] == 2 {
						a.acted, fire = true, true
					}
				}
			}
			if f.StreamEnded() {
				a.recv = append(a.recv, []int{0, 0, 0})
				if a.sc.Trig == "late" && !a.acted {
					a.acted = true
					fire = true
				}
			}
			s.mu.Unlock()
			if n := len(f.Data()); n > 0 {
				p.WriteWindowUpdate(0, uint32(n))
			}
			if fire {
				go s.answer(p, a)
			}
		}
	}
}

func codeName(c int) string {
	switch c {
	case 13:
		return "INTERNAL"
	case 14:
		return "UNAVAILABLE"
	case 10:
		return "ABORTED"
	}
	return "UNKNOWN"
}

func serviceConfig(c config) string {
	codes := ""
	for i, x := range c.Codes {
		if i > 0 {
			codes += ","
		}
		codes += strconv.Quote(codeName(x))
	}
	boff := `"initialBackoff":"0.010s","maxBackoff":"0.050s","backoffMultiplier":2`
	if c.Boff == 2 {
		boff = `"initialBackoff":"0.008s","maxBackoff":"0.020s","backoffMultiplier":1.5`
	}
	if c.Boff == 3 { // parser-valid but huge: the uncapped product leaves the int64 range at the second retry
		boff = `"initialBackoff":"0.010s","maxBackoff":"0.020s","backoffMultiplier":1000000000000`
	}
	sc := fmt.Sprintf(`{"methodConfig":[{"name":[{}],"retryPolicy":{"maxAttempts":%d,%s,"retryableStatusCodes":[%s]}}]`, c.MaxAtt, boff, codes)
	if c.ThrMax > 0 {
		sc += fmt.Sprintf(`,"retryThrottling":{"maxTokens":%d,"tokenRatio":0.5}`, c.ThrMax)
	}
	return sc + "}"
}

func payload(i int) []byte {
	b := make([]byte, 8+2*i)
	for j := range b {
		b[j] = byte(i)
	}
	return b
}

// runBehaviour executes one behaviour inside the current bubble and emits its trace lines.
func runBehaviour(b behaviour, tr *vlib.Trace) {
	srv := &server{start: time.Now(), scripts: b.Scripts}
	lis := bufconn.Listen(1 << 20)
	go rawh2.Serve(lis, srv.handle)
	dopts := []grpc.DialOption{
		grpc.WithTransportCredentials(insecure.NewCredentials()),
		grpc.WithContextDialer(func(ctx context.Context, _ string) (net.Conn, error) { return lis.DialContext(ctx) }),
		grpc.WithDefaultServiceConfig(serviceConfig(b.Cfg)),
		grpc.WithDefaultCallOptions(grpc.ForceCodec(rawh2.RawCodec{})),
	}
	if b.Cfg.Cap != 5 {
		dopts = append(dopts, grpc.WithMaxCallAttempts(b.Cfg.Cap))
	}
	tr.Emit(map[string]any{"ev": "reset", "maxAtt": b.Cfg.MaxAtt, "cap": b.Cfg.Cap, "codes": b.Cfg.Codes,
		"bufLimit": b.Cfg.BufLimit, "thrMax": b.Cfg.ThrMax, "boff": b.Cfg.Boff})
	gate := &gateSH{}
	for _, op := range b.Ops {
		if op.Op == "park" {
			dopts = append(dopts, grpc.WithStatsHandler(gate))
			break
		}
	}
	cc, err := grpc.NewClient("passthrough:///x", dopts...)
	if err != nil {
		tr.Emit(map[string]any{"ev": "panic", "what": "NewClient: " + err.Error()})
		lis.Close()
		return
	}
	// The deadline only bounds executions in which the code under test stops making progress (virtual time).
	ctx, cancel := context.WithTimeout(context.Background(), time.Second)
	var cs grpc.ClientStream
	seen := 0    // attempts whose "att" line has been emitted
	rpcBase := 0 // first attempt (server stream index) of the current RPC
	settle := func() {
		// let the scripted answers (1 ms after their trigger) arrive and everything settle
		time.Sleep(10 * time.Millisecond)
		synctest.Wait()
	}
	attLines := func(upto int) {
		for ; seen < len(srv.atts) && (upto < 0 || seen < upto); seen++ {
			a := srv.atts[seen]
			pt := int64(0)
			if seen > 0 {
				pt = srv.atts[seen-1].actT
			}
			tr.Emit(map[string]any{"ev": "att", "k": a.k + 1, "prev": a.prev, "t": a.t, "pt": pt,
				"act": a.sc.Act, "code": a.sc.Code, "pb": a.sc.Pb, "trig": a.sc.Trig})
		}
	}
	received := func() [][][]int {
		all := [][][]int{}
		for _, a := range srv.atts[rpcBase:] {
			all = append(all, append([][]int{}, a.recv...))
		}
		return all
	}
	// flush emits the lines of one finished operation; mark >= 0: a parked SendMsg was released while the
	// operation was blocked, after `mark` server streams existed (at virtual instant markT).
	flush := func(op opStep, t0 int64, res string, code int, mark int, markT int64) {
		settle()
		tr.Emit(map[string]any{"ev": "op", "op": op.Op, "i": op.I, "t": t0, "inline": op.Inline})
		srv.mu.Lock()
		if mark >= 0 {
			attLines(mark)
			tr.Emit(map[string]any{"ev": "op", "op": "unpark", "i": 0, "t": markT, "inline": 1})
		}
		attLines(-1)
		all := received()
		srv.mu.Unlock()
		tr.Emit(map[string]any{"ev": "ret", "res": res, "code": code, "srv": all})
	}
	do := func(op opStep) (res string, code int) {
		defer func() {
			if r := recover(); r != nil {
				// A panic inside the code under test may leave its locks held: nothing sensible can follow.
				// Record it and stop the whole run (the check reports "inconclusive", never a verdict).
				tr.Emit(map[string]any{"ev": "panic", "what": fmt.Sprint(r)})
				tr.Close()
				fmt.Printf("driver: panic in %s: %v\n", op.Op, r)
				os.Exit(3)
			}
		}()
		switch op.Op {
		case "start", "newrpc":
			var err error
			cs, err = cc.NewStream(ctx, &grpc.StreamDesc{ClientStreams: true, ServerStreams: true}, "/svc/m",
				grpc.MaxRetryRPCBufferSize(b.Cfg.BufLimit))
			if err != nil {
				return "err", int(status.Code(err))
			}
			return "ok", 0
		case "send":
			m := payload(op.I)
			err := cs.SendMsg(&m)
			if err == nil {
				return "ok", 0
			}
			if err == io.EOF {
				return "eof", 0
			}
			return "err", int(status.Code(err))
		case "close":
			cs.CloseSend()
			return "ok", 0
		case "header":
			md, _ := cs.Header()
			if md != nil {
				return "hdr", 0
			}
			return "nohdr", 0
		case "recv":
			var m []byte
			err := cs.RecvMsg(&m)
			if err == nil {
				return "msg", 0
			}
			if err == io.EOF {
				return "eof", 0
			}
			return "err", int(status.Code(err))
		}
		return "unknown", 0
	}
	type result struct {
		res  string
		code int
	}
	var sendDone chan result // non-nil while a SendMsg goroutine is parked (or has run) and not yet joined
	unparkAlone := func() {
		t0 := srv.since()
		gate.open()
		r := <-sendDone
		sendDone = nil
		flush(opStep{Op: "unpark"}, t0, r.res, r.code, -1, 0)
	}
	ops := append([]opStep{{Op: "start"}}, b.Ops...)
	for i := 0; i < len(ops); i++ {
		op := ops[i]
		switch {
		case op.Op == "park":
			t0 := srv.since()
			gate.arm()
			ch := make(chan result, 1)
			sendDone = ch
			go func() {
				res, code := do(opStep{Op: "send", I: op.I})
				ch <- result{res, code}
			}()
			settle()
			srv.mu.Lock()
			all := received()
			srv.mu.Unlock()
			tr.Emit(map[string]any{"ev": "park", "i": op.I, "t": t0, "srv": all})
		case op.Op == "unpark":
			if sendDone != nil {
				unparkAlone()
			}
		case (op.Op == "recv" || op.Op == "header") && i+1 < len(ops) && ops[i+1].Op == "unpark" && ops[i+1].Inline == 1 && sendDone != nil:
			// the receiver blocks on the current attempt; the parked sender is released meanwhile
			t0 := srv.since()
			rch := make(chan result, 1)
			go func() {
				res, code := do(op)
				rch <- result{res, code}
			}()
			// Longer than any chain of backoffs: the receiver must be blocked in the transport read of the
			// current attempt (not in a backoff sleep, which it spends holding cs.mu) when the sender resumes.
			time.Sleep(400 * time.Millisecond)
			synctest.Wait()
			srv.mu.Lock()
			mark := len(srv.atts)
			srv.mu.Unlock()
			markT := srv.since()
			gate.open()
			<-sendDone
			sendDone = nil
			r := <-rch
			flush(op, t0, r.res, r.code, mark, markT)
			i++
		default:
			if op.Op == "newrpc" {
				cancel()
				settle()
				ctx, cancel = context.WithTimeout(context.Background(), time.Second)
				srv.mu.Lock()
				rpcBase = len(srv.atts)
				srv.mu.Unlock()
			}
			t0 := srv.since()
			res, code := do(op)
			flush(op, t0, res, code, -1, 0)
		}
		if cs == nil {
			break
		}
	}
	if sendDone != nil {
		unparkAlone()
	}
	cancel()
	cc.Close()
	lis.Close()
	time.Sleep(50 * time.Millisecond)
	synctest.Wait()
}

// TestVerifRetryReplay replays the behaviours of VERIF_BEHAVIOURS, one bubble per behaviour.
func TestVerifRetryReplay(t *testing.T) {
	lines, err := vlib.ReadLines(os.Getenv("VERIF_BEHAVIOURS"))
	if err != nil {
		t.Fatal(err)
	}
	tr, err := vlib.NewTrace(os.Getenv("VERIF_OUT"))
	if err != nil {
		t.Fatal(err)
	}
	n := 0
	for _, ln := range lines {
		var b behaviour
		if err := json.Unmarshal(ln, &b); err != nil {
			t.Fatalf("bad behaviour %s: %v", ln, err)
		}
		synctest.Test(t, func(t *testing.T) { runBehaviour(b, tr) })
		n++
	}
	if err := tr.Close(); err != nil {
		t.Fatal(err)
	}
	fmt.Printf("VERIF_SUMMARY {\"behaviours\":%d,\"events\":%d}\n", n, tr.N)
}
