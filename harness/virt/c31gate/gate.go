// Package c31gate is the gate scheduler used by the C31 / C57 drivers.  It is a variant of
// vlib.Sched (exactly one registered goroutine runs at a time, each stops at every hook point
// and waits for a grant) with two additions needed for goroutines that the code under test
// starts by itself (CallbackSerializer.run, context.AfterFunc, time.AfterFunc callbacks):
//
//   - HookAs registers the calling goroutine as a named thread the first time it reaches a
//     hook point ("gated at its first hook");
//   - the end of such a goroutine, and a goroutine that blocks inside the code under test
//     ("parked"), are detected from the runtime's goroutine dump instead of by timeouts.
//
// Overlaid into the module as internal/zzverif/c31gate.
package c31gate

import (
	"bytes"
	"fmt"
	"regexp"
	"runtime"
	"strconv"
	"strings"
	"sync"
	"time"
)

// Goid returns the id of the calling goroutine.
func Goid() int64 {
	var buf [64]byte
	n := runtime.Stack(buf[:], false)
	f := bytes.Fields(buf[:n])
	id, _ := strconv.ParseInt(string(f[1]), 10, 64)
	return id
}

var hdrRe = regexp.MustCompile(`(?m)^goroutine (\d+) [^\[\n]*\[([^\]\n]*)\]:$`)

// goState returns (status, inSched) of goroutine id from a dump of all goroutines; status is
// "" if the goroutine no longer exists; inSched tells that it is inside a method of Sched
// (arriving at a gate or logging), i.e. not blocked by the code under test.
func goState(id int64) (string, bool) {
	buf := make([]byte, 1<<18)
	for {
		n := runtime.Stack(buf, true)
		if n < len(buf) {
			buf = buf[:n]
			break
		}
		buf = make([]byte, 2*len(buf))
	}
	want := strconv.FormatInt(id, 10)
	ms := hdrRe.FindAllSubmatchIndex(buf, -1)
	for k, m := range ms {
		if string(buf[m[2]:m[3]]) != want {
			continue
		}
		end := len(buf)
		if k+1 < len(ms) {
			end = ms[k+1][0]
		}
		body := string(buf[m[1]:end])
		return string(buf[m[4]:m[5]]), strings.Contains(body, "c31gate.(*Sched).")
	}
	return "", false
}

func blocked(status string) bool {
	for _, p := range []string{"chan receive", "chan send", "select", "sync.", "semacquire", "sleep"} {
		if strings.HasPrefix(status, p) {
			return true
		}
	}
	return false
}

type arrival struct {
	tid, p string
}

// Sched is the gate scheduler.
type Sched struct {
	mu      sync.Mutex
	tidOf   map[int64]string
	goidOf  map[string]int64
	at      map[string]string
	grant   map[string]chan struct{}
	arrive  chan arrival
	free    bool
	events  []map[string]any
	wg      sync.WaitGroup
	Timeout time.Duration
}

// New returns a scheduler whose grants time out after d (real time; failing paths only).
func New(d time.Duration) *Sched {
	return &Sched{tidOf: map[int64]string{}, goidOf: map[string]int64{}, at: map[string]string{},
		grant: map[string]chan struct{}{}, arrive: make(chan arrival), Timeout: d}
}

// Log appends an event to the behaviour's trace.
func (s *Sched) Log(ev map[string]any) {
	s.mu.Lock()
	s.events = append(s.events, ev)
	s.mu.Unlock()
}

// Events returns the recorded events.
func (s *Sched) Events() []map[string]any {
	s.mu.Lock()
	defer s.mu.Unlock()
	return append([]map[string]any(nil), s.events...)
}

// IsFree reports whether the gates were released.
func (s *Sched) IsFree() bool {
	s.mu.Lock()
	defer s.mu.Unlock()
	return s.free
}

func (s *Sched) gate(tid, p string, ch chan struct{}) {
	s.arrive <- arrival{tid, p}
	<-ch
}

// Hook is called at a hook point; goroutines that are not registered pass through.
func (s *Sched) Hook(p string) { s.HookAs("", p) }

// HookAs is Hook, but an unregistered goroutine is first registered as thread auto (if auto
// is not "" and no live thread has that name).
func (s *Sched) HookAs(auto, p string) {
	s.mu.Lock()
	if s.free {
		s.mu.Unlock()
		return
	}
	id := Goid()
	tid, ok := s.tidOf[id]
	if !ok && auto != "" {
		if _, taken := s.goidOf[auto]; !taken {
			tid, ok = auto, true
			s.tidOf[id] = tid
			s.goidOf[tid] = id
			s.grant[tid] = make(chan struct{})
		}
	}
	ch := s.grant[tid]
	s.mu.Unlock()
	if !ok {
		return
	}
	s.gate(tid, p, ch)
}

// Spawn starts body on a new goroutine registered as thread tid; when it returns the
// thread arrives at "end".
func (s *Sched) Spawn(tid string, body func()) {
	s.mu.Lock()
	s.grant[tid] = make(chan struct{})
	s.mu.Unlock()
	s.wg.Add(1)
	reg := make(chan struct{})
	go func() {
		defer s.wg.Done()
		id := Goid()
		s.mu.Lock()
		s.tidOf[id] = tid
		s.goidOf[tid] = id
		s.mu.Unlock()
		close(reg)
		body()
	}()
	<-reg
}

// Await waits for the next arrival of tid.  Besides a hook point it may return "end" (the
// goroutine finished) or "parked" (the goroutine blocks inside the code under test and
// every other thread is stopped at a gate, so only a later step can wake it).
func (s *Sched) Await(tid string) (string, error) {
	deadline := time.Now().Add(s.Timeout)
	wait := 20 * time.Microsecond
	for {
		t := time.NewTimer(wait)
		select {
		case a := <-s.arrive:
			t.Stop()
			s.mu.Lock()
			s.at[a.tid] = a.p
			s.mu.Unlock()
			if a.tid != tid {
				return "", fmt.Errorf("unexpected arrival of %s at %s while waiting for %s", a.tid, a.p, tid)
			}
			return a.p, nil
		case <-t.C:
		}
		s.mu.Lock()
		id, known := s.goidOf[tid]
		s.mu.Unlock()
		if known {
			st, inHook := goState(id)
			if st == "" {
				s.mu.Lock()
				delete(s.tidOf, id)
				delete(s.goidOf, tid)
				s.at[tid] = "end"
				s.mu.Unlock()
				return "end", nil
			}
			if blocked(st) && !inHook {
				s.mu.Lock()
				s.at[tid] = "parked"
				s.mu.Unlock()
				return "parked", nil
			}
		}
		if time.Now().After(deadline) {
			return "", fmt.Errorf("thread %s did not reach a hook within %v", tid, s.Timeout)
		}
		if wait < 2*time.Millisecond {
			wait *= 2
		}
	}
}

// At returns the point thread tid is waiting at ("" if running or unknown).
func (s *Sched) At(tid string) string {
	s.mu.Lock()
	defer s.mu.Unlock()
	return s.at[tid]
}

// Step grants thread tid (which must be waiting at point p) one step and waits for its
// next arrival.  A parked thread may be "stepped" at point "parked": nothing is granted,
// the scheduler only waits for it to arrive (it must have been woken by another step).
func (s *Sched) Step(tid, p string) (string, error) {
	s.mu.Lock()
	cur := s.at[tid]
	ch := s.grant[tid]
	s.mu.Unlock()
	if cur != p {
		return "", fmt.Errorf("expects %s at %s but it is at %q", tid, p, cur)
	}
	s.mu.Lock()
	s.at[tid] = ""
	s.mu.Unlock()
	if p != "parked" {
		ch <- struct{}{}
	}
	return s.Await(tid)
}

// Free releases every gate; all goroutines run freely from now on.
func (s *Sched) Free() {
	s.mu.Lock()
	if s.free {
		s.mu.Unlock()
		return
	}
	s.free = true
	for tid, ch := range s.grant {
		close(ch)
		s.at[tid] = ""
	}
	s.mu.Unlock()
}

// Drain absorbs arrivals of goroutines that were between the free check and the send
// until stop is closed.  Call it (in a goroutine) after Free when waiting on something
// other than Join.
func (s *Sched) Drain(stop <-chan struct{}) {
	for {
		select {
		case <-s.arrive:
		case <-stop:
			return
		}
	}
}

// Gone reports whether goroutine id no longer exists.
func Gone(id int64) bool {
	st, _ := goState(id)
	return st == ""
}

// WaitGone waits until every goroutine of ids has finished; false after d (failing paths only).
func WaitGone(ids []int64, d time.Duration) bool {
	deadline := time.Now().Add(d)
	for _, id := range ids {
		for !Gone(id) {
			if time.Now().After(deadline) {
				return false
			}
			time.Sleep(50 * time.Microsecond)
		}
	}
	return true
}

// WaitAllGone waits until every registered goroutine (spawned or auto-registered) has
// finished; false after d (failing paths only).
func (s *Sched) WaitAllGone(d time.Duration) bool {
	s.mu.Lock()
	var ids []int64
	for id := range s.tidOf {
		ids = append(ids, id)
	}
	s.mu.Unlock()
	return WaitGone(ids, d)
}

// Join releases all gates and waits until every spawned goroutine finished.  It returns
// false if they did not finish within d.
func (s *Sched) Join(d time.Duration) bool {
	s.Free()
	done := make(chan struct{})
	go func() { s.wg.Wait(); close(done) }()
	t := time.NewTimer(d)
	defer t.Stop()
	for {
		select {
		case <-s.arrive:
		case <-done:
			return true
		case <-t.C:
			return false
		}
	}
}
