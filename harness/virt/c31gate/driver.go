package c31gate

import (
	"encoding/json"
	"fmt"
	"math/rand"
	"os"
	"runtime"
	"strings"
	"sync"
	"testing"
	"time"

	"google.golang.org/grpc/internal/zzverif/vlib"
)

// Step is one step of a TLC behaviour: thread T is granted at point P; Exp is the
// specification's state after the step.
type Step struct {
	T   string         `json:"t"`
	P   string         `json:"p"`
	Exp map[string]any `json:"exp"`
}

// Replay runs every behaviour of VERIF_BEHAVIOURS through run and writes the events to
// VERIF_OUT, separated by reset lines.  run returns the events and an outcome ("ok",
// "drift: ...", "infeasible: ...").  Nothing is judged here.
func Replay(t *testing.T, run func(raw []byte) ([]map[string]any, string)) {
	lines, err := vlib.ReadLines(os.Getenv("VERIF_BEHAVIOURS"))
	if err != nil {
		t.Fatal(err)
	}
	tr, err := vlib.NewTrace(os.Getenv("VERIF_OUT"))
	if err != nil {
		t.Fatal(err)
	}
	defer tr.Close()
	drift, infeasible, events := 0, 0, 0
	var notes []string
	for i, ln := range lines {
		ev, outcome := run(ln)
		if outcome != "ok" {
			if strings.HasPrefix(outcome, "drift") {
				drift++
			} else {
				infeasible++
			}
			if len(notes) < 5 {
				notes = append(notes, fmt.Sprintf("behaviour %d: %s", i, outcome))
			}
		}
		tr.Emit(map[string]any{"ev": "reset", "b": i, "outcome": outcome})
		for _, e := range ev {
			tr.Emit(e)
		}
		events += len(ev)
		if strings.Contains(outcome, "stuck") {
			// a wedge was recorded (each one costs the full bound): the trace already holds it
			break
		}
	}
	sum, _ := json.Marshal(map[string]any{"behaviours": len(lines), "drift": drift, "infeasible": infeasible,
		"events": events, "notes": notes})
	fmt.Printf("VERIF_SUMMARY %s\n", sum)
}

// CheckExp compares the private state got with the specification's state exp.
func CheckExp(i int, st Step, got map[string]any) string {
	for k, want := range st.Exp {
		g, ok := got[k]
		if !ok {
			continue
		}
		if fmt.Sprint(g) != fmt.Sprint(want) {
			return fmt.Sprintf("drift: step %d (%s@%s) %s = %v, spec says %v", i, st.T, st.P, k, g, want)
		}
	}
	return "ok"
}

// StepErr classifies an error of Sched.Step.
func StepErr(i int, st Step, err error) string {
	if strings.HasPrefix(err.Error(), "expects") {
		return fmt.Sprintf("drift: step %d %v", i, err)
	}
	return fmt.Sprintf("infeasible: step %d %s@%s: %v", i, st.T, st.P, err)
}

// RunSteps forces the steps of a behaviour onto the threads of s, one goroutine at a time.
// special (may be nil) executes steps that the driver performs itself (it reports handled);
// after (may be nil) runs after each executed step and may end the forcing by returning a
// non-empty outcome; state returns the private state that is compared with the step's Exp.
//
// The first departure from the behaviour (a thread waiting at another gate than the named
// one, private state differing from the specification's) is recorded as the outcome
// ("drift: ..."), but the forcing continues best-effort: the remaining (thread, step) order is
// still imposed for as long as the named thread waits at some gate - it is granted from
// wherever it is - and steps of threads that are not at a gate are skipped.  Any schedule is
// a legal schedule of the real goroutines, so the recorded events stay valid input for the
// Level-A monitor.  Scheduler errors (time-outs, unexpected arrivals) end the forcing.
func RunSteps(s *Sched, steps []Step, special func(i int, st Step, drifted bool) (bool, error),
	after func(i int, st Step) string, state func() map[string]any) string {
	outcome := "ok"
	note := func(o string) {
		if outcome == "ok" {
			outcome = o
		}
	}
	for i, st := range steps {
		s.Log(map[string]any{"ev": "at", "t": st.T, "p": st.P})
		handled, err := false, error(nil)
		if special != nil {
			handled, err = special(i, st, outcome != "ok")
		}
		if !handled && err == nil {
			at := s.At(st.T)
			if at != st.P {
				note(fmt.Sprintf("drift: step %d expects %s at %s but it is at %q", i, st.T, st.P, at))
				if at == "" || at == "end" || at == "parked" {
					continue
				}
			}
			_, err = s.Step(st.T, at)
		}
		if err != nil {
			note(StepErr(i, st, err))
			break
		}
		if after != nil {
			if o := after(i, st); o != "" {
				note(o)
				break
			}
		}
		if outcome == "ok" {
			outcome = CheckExp(i, st, state())
		}
	}
	return outcome
}

// Log is an event log for free-running rounds.
type Log struct {
	mu  sync.Mutex
	evs []map[string]any
}

// Add appends an event.
func (l *Log) Add(e map[string]any) {
	l.mu.Lock()
	l.evs = append(l.evs, e)
	l.mu.Unlock()
}

// Jitter is a seeded source of small delays for hook points of free-running rounds.
type Jitter struct {
	mu  sync.Mutex
	rng *rand.Rand
}

// NewJitter returns a jitter source.
func NewJitter(seed int64) *Jitter { return &Jitter{rng: rand.New(rand.NewSource(seed))} }

// Intn is a locked rand.Intn.
func (j *Jitter) Intn(n int) int {
	j.mu.Lock()
	defer j.mu.Unlock()
	return j.rng.Intn(n)
}

// Perturb yields, sleeps a little, or does nothing.
func (j *Jitter) Perturb() {
	switch j.Intn(8) {
	case 0:
		time.Sleep(time.Duration(5+j.Intn(30)) * time.Microsecond)
	case 1, 2, 3:
		runtime.Gosched()
	}
}

// Stress runs VERIF_ROUNDS free-running rounds; round gets a per-round rng, the shared
// jitter source and the round's log.  The trace goes to VERIF_OUT.
func Stress(t *testing.T, round func(n int, rng *rand.Rand, j *Jitter, log *Log)) {
	seed := int64(vlib.EnvInt("VERIF_SEED", 1))
	rounds := vlib.EnvInt("VERIF_ROUNDS", 100)
	tr, err := vlib.NewTrace(os.Getenv("VERIF_OUT"))
	if err != nil {
		t.Fatal(err)
	}
	defer tr.Close()
	j := NewJitter(seed)
	total := 0
	for n := 0; n < rounds; n++ {
		rng := rand.New(rand.NewSource(seed*1000003 + int64(n)))
		lg := &Log{}
		round(n, rng, j, lg)
		tr.Emit(map[string]any{"ev": "reset", "b": n, "outcome": "stress"})
		lg.mu.Lock()
		stuck := false
		for _, e := range lg.evs {
			tr.Emit(e)
			stuck = stuck || e["ev"] == "stuck"
		}
		total += len(lg.evs)
		lg.mu.Unlock()
		if stuck {
			break // a wedge was recorded (each one costs the full bound)
		}
	}
	fmt.Printf("VERIF_SUMMARY {\"rounds\":%d,\"events\":%d}\n", rounds, total)
}

// WaitTimeout waits for ch to be closed; false after d (failing paths only).
func WaitTimeout(ch <-chan struct{}, d time.Duration) bool {
	t := time.NewTimer(d)
	defer t.Stop()
	select {
	case <-ch:
		return true
	case <-t.C:
		return false
	}
}
