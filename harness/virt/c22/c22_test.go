package c22

// Driver for C22 (deadlines and cancellation propagate to both ends).  Each scenario produced by
// TLC from specs/RpcLifecycle.tla (blocking point x event x unary/streaming x delay) is executed
// in a testing/synctest bubble on the real grpc.ClientConn; the environment forces the blocking
// point: a manual resolver that never reports, a dialer that never completes, a raw HTTP/2 server
// with MAX_CONCURRENT_STREAMS 0 / INITIAL_WINDOW_SIZE 0 / silent, or a real grpc.Server whose
// handler waits for its context.  The driver only drives and records (virtual nanoseconds).

import (
	"context"
	"encoding/json"
	"fmt"
	"io"
	"net"
	"os"
	"strconv"
	"sync"
	"sync/atomic"
	"testing"
	"testing/synctest"
	"time"

	"golang.org/x/net/http2"
	"google.golang.org/grpc"
	"google.golang.org/grpc/credentials/insecure"
	"google.golang.org/grpc/encoding"
	"google.golang.org/grpc/internal/zzverif/vlib"
	"google.golang.org/grpc/internal/zzverif/vlib/rawh2"
	"google.golang.org/grpc/resolver"
	"google.golang.org/grpc/resolver/manual"
	"google.golang.org/grpc/status"
	"google.golang.org/grpc/test/bufconn"
)

func init() { encoding.RegisterCodec(rawh2.RawCodec{}) }

type c22Scen struct {
	Point     string `json:"point"` // resolver | picker | quota | write | recv | recvmid | backoff | handler
	Kind      string `json:"kind"`  // unary | stream (bidi) | cstream (client streaming)
	Tracing   bool   `json:"tracing"` // grpc.EnableTracing
	Delay     string `json:"delay"` // none | pick | quota
	HasDl     bool   `json:"hasDl"`
	Dl        int64  `json:"dl"` // ns after start
	HasCancel bool   `json:"hasCancel"`
	CancelAt  int64  `json:"cancelAt"`
	TRel      int64  `json:"tRel"`
	End       int64  `json:"end"`
}

type c22Rec struct {
	tr    *vlib.Trace
	start time.Time
	mu    sync.Mutex
	dead  bool // the scenario was abandoned by the watchdog: nothing more is recorded
}

func (r *c22Rec) emit(ev string, kv ...any) {
	m := map[string]any{"ev": ev, "t": int64(time.Since(r.start))}
	for i := 0; i+1 < len(kv); i += 2 {
		m[kv[i].(string)] = kv[i+1]
	}
	r.mu.Lock()
	defer r.mu.Unlock()
	if !r.dead {
		r.tr.Emit(m)
	}
}

// abandon is called by the real-time watchdog (outside the bubble).
func (r *c22Rec) abandon() {
	r.mu.Lock()
	defer r.mu.Unlock()
	r.dead = true
	r.tr.Emit(map[string]any{"ev": "stuck", "t": 0})
}

func (r *c22Rec) sleepUntil(ns int64) {
	if d := time.Duration(ns) - time.Since(r.start); d > 0 {
		time.Sleep(d)
	}
	synctest.Wait()
}

// c22Timeout decodes a grpc-timeout header value into nanoseconds (-1 if it does not fit / is malformed).
func c22Timeout(v string) int64 {
	if len(v) < 2 {
		return -1
	}
	n, err := strconv.ParseInt(v[:len(v)-1], 10, 64)
	if err != nil {
		return -1
	}
	var u int64
	switch v[len(v)-1] {
	case 'n':
		u = 1
	case 'u':
		u = 1000
	case 'm':
		u = 1000000
	case 'S':
		u = 1000000000
	default:
		return -1
	}
	if n > (1<<31-1)/u {
		return -1
	}
	return n * u
}

// retry policy for the "backoff" blocking point: the backoff (30 s x jitter 0.8..1.2) outlasts every event instant
const c22RetryConfig = `{"methodConfig":[{"name":[{"service":"c22"}],"retryPolicy":{"maxAttempts":4,"initialBackoff":"30s",
"maxBackoff":"30s","backoffMultiplier":1.0,"retryableStatusCodes":["UNAVAILABLE"]}}]}`

func c22Run(t *testing.T, rec *c22Rec, sc c22Scen) {
	synctest.Test(t, func(t *testing.T) {
		rec.start = time.Now()
		defer func() {
			if p := recover(); p != nil {
				rec.emit("panic", "msg", fmt.Sprint(p))
			}
		}()
		var ended atomic.Bool
		var connMu sync.Mutex
		var rawConns []net.Conn
		lis := bufconn.Listen(1 << 20)
		var srv *grpc.Server
		relQuota := make(chan struct{})
		if sc.Point == "handler" {
			srv = grpc.NewServer(grpc.UnknownServiceHandler(func(_ any, ss grpc.ServerStream) error {
				ctx := ss.Context()
				dl, ok := ctx.Deadline()
				v := int64(0)
				if ok {
					v = int64(time.Until(dl))
					if v < 0 || v > 1<<31-1 {
						v = 1<<31 - 1
					}
				}
				if !ended.Load() {
					rec.emit("srv", "has", ok, "v", v, "handler", true)
				}
				<-ctx.Done()
				if !ended.Load() {
					rec.emit("hdone")
				}
				return status.FromContextError(ctx.Err()).Err()
			}))
			go srv.Serve(lis)
		} else {
			go rawh2.Serve(lis, func(c net.Conn) {
				defer c.Close()
				connMu.Lock()
				rawConns = append(rawConns, c)
				connMu.Unlock()
				p, err := rawh2.NewServerPeer(c)
				if err != nil {
					return
				}
				switch {
				case sc.Point == "quota" || sc.Delay == "quota":
					st := []http2.Setting{{ID: http2.SettingMaxConcurrentStreams, Val: 0}}
					if sc.Point == "write" {
						st = append(st, http2.Setting{ID: http2.SettingInitialWindowSize, Val: 0})
					}
					p.WriteSettings(st...)
					if sc.Delay == "quota" {
						go func() {
							<-relQuota
							p.WriteSettings(http2.Setting{ID: http2.SettingMaxConcurrentStreams, Val: 100})
						}()
					}
				case sc.Point == "write":
					p.WriteSettings(http2.Setting{ID: http2.SettingInitialWindowSize, Val: 0})
				default:
					p.WriteSettings()
				}
				for {
					f, err := p.ReadFrame()
					if err != nil {
						return
					}
					switch f := f.(type) {
					case *http2.SettingsFrame:
						if !f.IsAck() {
							p.WriteSettingsAck()
						}
					case *http2.PingFrame:
						if !f.IsAck() {
							p.WritePing(true, f.Data)
						}
					case *http2.MetaHeadersFrame:
						if !ended.Load() {
							v := rawh2.Field(f, "grpc-timeout")
							ns := int64(0)
							if v != "" {
								ns = c22Timeout(v)
							}
							rec.emit("srv", "has", v != "", "v", ns, "raw", v, "handler", false)
						}
						if sc.Point == "backoff" {
							// trailers-only UNAVAILABLE: the client schedules a retry and sleeps in the backoff (>= 24 s)
							p.WriteHeaders(f.StreamID, true, ":status", "200", "content-type", "application/grpc",
								"grpc-status", "14", "grpc-message", "try again later")
						}
						if sc.Point == "recvmid" {
							// response HEADERS, the 5-byte message prefix announcing 100 bytes, 10 bytes of payload; then stall
							p.WriteHeaders(f.StreamID, false, ":status", "200", "content-type", "application/grpc")
							part := rawh2.GrpcFrame(make([]byte, 100), false)[:15]
							p.WriteData(f.StreamID, false, part)
						}
					}
				}
			})
		}
		relDial := make(chan struct{})
		if sc.Point != "picker" && sc.Delay != "pick" {
			close(relDial)
		}
		rb := manual.NewBuilderWithScheme("c22")
		if sc.Point != "resolver" {
			rb.InitialState(resolver.State{Addresses: []resolver.Address{{Addr: "c22"}}})
		}
		extra := []grpc.DialOption{}
		if sc.Point == "backoff" {
			extra = append(extra, grpc.WithDefaultServiceConfig(c22RetryConfig))
		}
		cc, err := grpc.NewClient("c22:///x", append(extra, grpc.WithTransportCredentials(insecure.NewCredentials()), grpc.WithResolvers(rb),
			grpc.WithContextDialer(func(ctx context.Context, _ string) (net.Conn, error) {
				select {
				case <-relDial:
					return lis.DialContext(ctx)
				case <-ctx.Done():
					return nil, ctx.Err()
				}
			}),
			grpc.WithDefaultCallOptions(grpc.ForceCodec(rawh2.RawCodec{})))...)
		if err != nil {
			panic(err)
		}
		ctx, cancel := context.WithCancel(context.Background())
		defer cancel()
		if sc.HasDl {
			var c2 context.CancelFunc
			ctx, c2 = context.WithDeadline(ctx, rec.start.Add(time.Duration(sc.Dl)))
			defer c2()
		}
		if sc.HasCancel && sc.CancelAt <= 0 {
			rec.emit("cancel")
			cancel()
		}
		rpcDone := make(chan struct{})
		go func() {
			defer close(rpcDone)
			var err error
			op := "invoke"
			small, resp := []byte("x"), []byte{}
			if sc.Kind == "unary" {
				err = cc.Invoke(ctx, "/c22/m", &small, &resp)
			} else if sc.Kind == "cstream" {
				var s grpc.ClientStream
				op = "newstream"
				s, err = cc.NewStream(ctx, &grpc.StreamDesc{ClientStreams: true}, "/c22/m")
				if err == nil {
					op = "send"
					err = s.SendMsg(&small)
					if err == nil {
						op = "closesend"
						err = s.CloseSend()
					}
					if err == nil || err == io.EOF {
						if err == nil {
							op = "recv"
						}
						err = s.RecvMsg(&resp)
					}
				}
			} else {
				var s grpc.ClientStream
				op = "newstream"
				s, err = cc.NewStream(ctx, &grpc.StreamDesc{ClientStreams: true, ServerStreams: true}, "/c22/m")
				if err == nil {
					n, msg := 1, small
					if sc.Point == "write" {
						n, msg = 8, make([]byte, 32<<10)
					}
					op = "send"
					for i := 0; i < n && err == nil; i++ {
						err = s.SendMsg(&msg)
					}
					if err == nil || err == io.EOF {
						if err == nil {
							op = "recv"
						}
						err = s.RecvMsg(&resp)
					}
				}
			}
			code := -1
			if st, ok := status.FromError(err); ok {
				code = int(st.Code())
			}
			if !ended.Load() {
				rec.emit("ret", "code", code, "op", op)
			}
		}()
		synctest.Wait()
		type act struct {
			at int64
			f  func()
		}
		var acts []act
		if sc.Delay != "none" {
			acts = append(acts, act{sc.TRel, func() {
				rec.emit("release")
				if sc.Delay == "pick" {
					close(relDial)
				} else {
					close(relQuota)
				}
			}})
		}
		if sc.HasCancel && sc.CancelAt > 0 {
			a := act{sc.CancelAt, func() { rec.emit("cancel"); cancel() }}
			if len(acts) > 0 && acts[0].at > a.at {
				acts = []act{a, acts[0]}
			} else {
				acts = append(acts, a)
			}
		}
		for _, a := range acts {
			rec.sleepUntil(a.at)
			a.f()
			synctest.Wait()
		}
		rec.sleepUntil(sc.End)
		rec.emit("end")
		ended.Store(true)
		cancel()
		if sc.Delay == "pick" || sc.Point == "picker" {
			select {
			case <-relDial:
			default:
				close(relDial)
			}
		}
		if sc.Delay == "quota" {
			select {
			case <-relQuota:
			default:
				close(relQuota)
			}
		}
		// the peer goes away first: whatever is still blocked on the connection is released
		if srv != nil {
			srv.Stop()
		}
		connMu.Lock()
		for _, c := range rawConns {
			c.Close()
		}
		connMu.Unlock()
		synctest.Wait()
		cc.Close()
		lis.Close()
		<-rpcDone
		synctest.Wait()
	})
}

// c22Guarded runs one scenario under a real-time watchdog.  A scenario that makes no progress in
// real time (e.g. a goroutine blocked on a mutex keeps the bubble from ever becoming idle) or whose
// bubble deadlocks is recorded as "stuck" and abandoned (its goroutines leak); the driver goes on.
func c22Guarded(t *testing.T, tr *vlib.Trace, sc c22Scen, watchdog time.Duration) (stuck bool) {
	rec := &c22Rec{tr: tr}
	old := grpc.EnableTracing
	grpc.EnableTracing = sc.Tracing
	defer func() { grpc.EnableTracing = old }()
	done := make(chan bool, 1)
	go func() {
		defer func() {
			if p := recover(); p != nil { // synctest deadlock panic of the bubble
				done <- false
			}
		}()
		c22Run(t, rec, sc)
		done <- true
	}()
	select {
	case ok := <-done:
		if !ok {
			rec.abandon()
			return true
		}
		return false
	case <-time.After(watchdog):
		rec.abandon()
		return true
	}
}

func TestVerifC22Scenarios(t *testing.T) {
	lines, err := vlib.ReadLines(os.Getenv("VERIF_BEHAVIOURS"))
	if err != nil {
		t.Fatal(err)
	}
	tr, err := vlib.NewTrace(os.Getenv("VERIF_OUT"))
	if err != nil {
		t.Fatal(err)
	}
	defer tr.Close()
	watchdog := time.Duration(vlib.EnvInt("VERIF_C22_WATCHDOG_S", 20)) * time.Second
	stuckKeys := map[string]bool{}
	nstuck, nskipped := 0, 0
	for i, ln := range lines {
		var sc c22Scen
		if err := json.Unmarshal(ln, &sc); err != nil {
			t.Fatal(err)
		}
		// once a (blocking point, kind, tracing) class has hung, its remaining scenarios are not executed:
		// the verdict is already in the trace and every further one would cost a watchdog period
		key := fmt.Sprintf("%s/%s/%v", sc.Point, sc.Kind, sc.Tracing)
		if stuckKeys[key] {
			nskipped++
			continue
		}
		tr.Emit(map[string]any{"ev": "reset", "b": i, "point": sc.Point, "kind": sc.Kind, "delay": sc.Delay, "hasDl": sc.HasDl,
			"dl": sc.Dl, "hasCancel": sc.HasCancel, "cancelAt": sc.CancelAt, "tracing": sc.Tracing})
		if c22Guarded(t, tr, sc, watchdog) {
			stuckKeys[key] = true
			nstuck++
		}
	}
	fmt.Printf("VERIF_SUMMARY {\"behaviours\":%d,\"events\":%d,\"stuck\":%d,\"skipped\":%d}\n", len(lines), tr.N, nstuck, nskipped)
}
