// Package c11 drives C11: a real grpc.NewClient carrying one or two RPCs with deadlines against a
// scripted raw HTTP/2 server inside a testing/synctest bubble.  Each behaviour is a list of frame
// variants (specs/PeerGrammarClient.tla) emitted by the server one virtual second apart; with
// "mut" > 0 the serialised server byte stream is mutated first.  After the last deadline the driver
// records for every RPC whether it returned, with which status, and when (virtual time); then the
// channel is closed and the bubble must drain (testing/synctest aborts the process if a goroutine
// stays blocked: checks/_peer.py attributes that to the behaviour).  Records only.
package c11

import (
	"bytes"
	"context"
	"encoding/json"
	"fmt"
	"io"
	"math/rand"
	"net"
	"os"
	"runtime"
	"strings"
	"sync"
	"sync/atomic"
	"testing"
	"testing/synctest"
	"time"

	"golang.org/x/net/http2"
	"google.golang.org/grpc"
	"google.golang.org/grpc/credentials/insecure"
	"google.golang.org/grpc/internal/zzverif/vlib"
	"google.golang.org/grpc/internal/zzverif/vlib/rawh2"
	"google.golang.org/grpc/keepalive"
	"google.golang.org/grpc/status"
	"google.golang.org/grpc/test/bufconn"
)

type ev = map[string]any

const (
	maxHeaderList = 2048
	running       = 100
)

var deadlines = []time.Duration{10 * time.Second, 20 * time.Second}

type step struct {
	V   string   `json:"v"`
	R   int      `json:"r"`
	Val []string `json:"val"` // V_* variants: the header value as a sequence of fragments ("xff" = byte 0xFF)
}

func (st step) value() string {
	var sb strings.Builder
	for _, f := range st.Val {
		if f == "xff" {
			sb.WriteByte(0xff)
		} else {
			sb.WriteString(f)
		}
	}
	return sb.String()
}

// tracer buffers the events of one behaviour and appends them to the file when the behaviour is over, so that
// a crash of the process loses nothing but the behaviour that caused it.
type tracer struct {
	mu  sync.Mutex
	f   *os.File
	buf bytes.Buffer
	N   int
}

func (t *tracer) Emit(e ev) {
	b, err := json.Marshal(e)
	if err != nil {
		panic(err)
	}
	t.mu.Lock()
	t.buf.Write(b)
	t.buf.WriteByte('\n')
	t.N++
	t.mu.Unlock()
}

func (t *tracer) Flush() {
	t.mu.Lock()
	t.f.Write(t.buf.Bytes())
	t.buf.Reset()
	t.mu.Unlock()
}

type beh struct {
	Stress int   `json:"stress"` // > 0: that many goroutines start new RPCs in a tight loop while the first GOAWAY is written
	NRpc  int    `json:"nrpc"`
	Mut   int    `json:"mut"`
	Steps []step `json:"steps"`
}

// ---------------------------------------------------------------------------------------------
type rpcState struct {
	mu    sync.Mutex
	done  int // number of times the RPC returned (must end at 1)
	code  int
	ok    bool
	tend  time.Duration
	panic string
}

func (s *rpcState) snap() (int, int) {
	s.mu.Lock()
	defer s.mu.Unlock()
	if s.done == 0 {
		return 0, running
	}
	return s.done, s.code
}

func (s *rpcState) finish(start time.Time, err error) {
	s.mu.Lock()
	defer s.mu.Unlock()
	s.done++
	st, ok := status.FromError(err)
	s.ok = ok
	s.code = int(st.Code())
	if s.code < 0 || s.code > 98 { // out-of-range codes (grpc-status "-1"): keep them apart from the sentinels
		s.code = 98
	}
	s.tend = time.Since(start)
}

// ---------------------------------------------------------------------------------------------
// the raw server: the first connection is scripted, later ones are well-formed but silent
type server struct {
	mu    sync.Mutex
	conns []net.Conn
	first *rawh2.Peer
	sids  map[string]uint32 // :path -> stream id on the first connection
	dead  bool              // first connection: read side failed
}

func (sv *server) serve(lis net.Listener) {
	for {
		c, err := lis.Accept()
		if err != nil {
			return
		}
		sv.mu.Lock()
		sv.conns = append(sv.conns, c)
		isFirst := len(sv.conns) == 1
		sv.mu.Unlock()
		go sv.handle(c, isFirst)
	}
}

func (sv *server) handle(c net.Conn, isFirst bool) {
	p, err := rawh2.NewServerPeer(c)
	if err != nil {
		return
	}
	p.Fr.AllowIllegalWrites = true
	if isFirst {
		sv.mu.Lock()
		sv.first = p
		sv.mu.Unlock()
	}
	p.WriteSettings()
	for {
		f, err := p.ReadFrame()
		if err != nil {
			if isFirst {
				sv.mu.Lock()
				sv.dead = true
				sv.mu.Unlock()
			}
			return
		}
		switch f := f.(type) {
		case *http2.SettingsFrame:
			if !f.IsAck() {
				p.WriteSettingsAck()
			}
		case *http2.PingFrame:
			if !f.IsAck() {
				p.WritePing(true, f.Data)
			}
		case *http2.MetaHeadersFrame:
			if rawh2.Field(f, ":path") == "/s/x" {
				// the extra RPCs of the GOAWAY stress are answered at once (Trailers-Only), on every connection
				p.WriteHeaders(f.StreamID, true, ":status", "200", "content-type", "application/grpc", "grpc-status", "0")
				continue
			}
			if isFirst {
				sv.mu.Lock()
				if _, dup := sv.sids[rawh2.Field(f, ":path")]; !dup {
					sv.sids[rawh2.Field(f, ":path")] = f.StreamID
				}
				sv.mu.Unlock()
			}
		}
	}
}

func rawFrame(typ http2.FrameType, flags byte, sid uint32, payload []byte) []byte {
	n := len(payload)
	return rawFrameLen(typ, flags, sid, n, payload)
}

func rawFrameLen(typ http2.FrameType, flags byte, sid uint32, n int, payload []byte) []byte {
	b := []byte{byte(n >> 16), byte(n >> 8), byte(n), byte(typ), flags, byte(sid >> 24), byte(sid >> 16), byte(sid >> 8), byte(sid)}
	return append(b, payload...)
}

// emit writes frame variant v addressed to stream sid on p.  Returns false for "close the connection".
func emit(p *rawh2.Peer, st step, sid uint32) bool {
	const okCT = "application/grpc"
	msg := rawh2.GrpcFrame([]byte("ok"), false)
	v := st.V
	switch v {
	case "V_tmsg":
		p.WriteHeaders(sid, true, ":status", "200", "content-type", okCT, "grpc-status", "5", "grpc-message", st.value())
	case "V_hmsg":
		p.WriteHeaders(sid, false, ":status", "200", "content-type", okCT, "grpc-message", st.value())
	case "V_tstatus":
		p.WriteHeaders(sid, true, ":status", "200", "content-type", okCT, "grpc-status", st.value())
	case "V_tdetails":
		d := map[string]string{"undecodable": "!!not*base64!!", "garbage": "////", "mismatch": "CAM"}[st.value()]
		p.WriteHeaders(sid, true, ":status", "200", "content-type", okCT, "grpc-status", "5", "grpc-status-details-bin", d)
	case "V_tct":
		p.WriteHeaders(sid, true, ":status", "200", "content-type", st.value(), "grpc-status", "5")
	case "H_ok":
		p.WriteHeaders(sid, false, ":status", "200", "content-type", okCT)
	case "H_trail0":
		p.WriteHeaders(sid, true, ":status", "200", "content-type", okCT, "grpc-status", "0")
	case "H_trail5":
		p.WriteHeaders(sid, true, ":status", "200", "content-type", okCT, "grpc-status", "5", "grpc-message", "nf")
	case "H_trailNoStatus":
		p.WriteHeaders(sid, true, ":status", "200", "content-type", okCT)
	case "H_nostatus":
		p.WriteHeaders(sid, false, "x-foo", "bar")
	case "H_nostatusE":
		p.WriteHeaders(sid, true, "x-foo", "bar")
	case "H_404":
		p.WriteHeaders(sid, false, ":status", "404")
	case "H_404E":
		p.WriteHeaders(sid, true, ":status", "404")
	case "H_503E":
		p.WriteHeaders(sid, true, ":status", "503")
	case "H_badct":
		p.WriteHeaders(sid, false, ":status", "200", "content-type", "text/html")
	case "H_badctE":
		p.WriteHeaders(sid, true, ":status", "200", "content-type", "text/html")
	case "H_badgs":
		p.WriteHeaders(sid, true, ":status", "200", "content-type", okCT, "grpc-status", "abc")
	case "H_badbin":
		p.WriteHeaders(sid, false, ":status", "200", "content-type", okCT, "x-k-bin", "!!not*base64!!")
	case "H_1xx":
		p.WriteHeaders(sid, false, ":status", "100")
	case "H_1xxE":
		p.WriteHeaders(sid, true, ":status", "100")
	case "H_big":
		kv := []string{":status", "200", "content-type", okCT}
		for i := 0; i < 4; i++ {
			kv = append(kv, fmt.Sprintf("x-big-%d", i), strings.Repeat("a", 600))
		}
		p.WriteHeaders(sid, false, kv...)
	case "H_unknown":
		p.WriteHeaders(99, false, ":status", "200", "content-type", okCT)
	case "H_zero":
		p.WriteHeaders(0, false, ":status", "200", "content-type", okCT)
	case "H_noend":
		p.WriteRaw(rawFrame(http2.FrameHeaders, 0, 1, []byte{0x88}))
		p.WritePing(false, [8]byte{1})
	case "D_msg":
		p.WriteData(sid, false, msg)
	case "D_msgE":
		p.WriteData(sid, true, msg)
	case "D_empty":
		p.WriteData(sid, false, nil)
	case "D_emptyE":
		p.WriteData(sid, true, nil)
	case "D_pad":
		p.WriteDataPadded(sid, false, msg, make([]byte, 10))
	case "D_flow":
		big := rawh2.GrpcFrame(make([]byte, 5*16384-5), false)
		for i := 0; i < 5; i++ {
			p.WriteData(sid, false, big[i*16384:(i+1)*16384])
		}
	case "D_partial":
		p.WriteData(sid, false, append([]byte{0, 0, 0, 0, 100}, make([]byte, 10)...))
	case "D_garbage":
		p.WriteData(sid, false, []byte{1, 0, 0, 0, 2, 'x', 'y'})
	case "D_toolarge":
		p.WriteRaw(rawFrame(http2.FrameData, 0, sid, make([]byte, 16385)))
	case "D_padlong":
		p.WriteRaw(rawFrame(http2.FrameData, 0x8, sid, []byte{200, 1, 2, 3}))
	case "D_unknown":
		p.WriteData(99, false, msg)
	case "D_even":
		p.WriteData(2, false, msg)
	case "D_zero":
		p.WriteRaw(rawFrame(http2.FrameData, 0, 0, msg))
	case "R_0", "R_1", "R_2", "R_3", "R_5", "R_7", "R_8", "R_11", "R_12", "R_13", "R_255":
		var code int
		fmt.Sscanf(v, "R_%d", &code)
		p.WriteRST(sid, http2.ErrCode(code))
	case "R_unknown":
		p.WriteRST(99, http2.ErrCodeCancel)
	case "R_zero":
		p.WriteRaw(rawFrame(http2.FrameRSTStream, 0, 0, []byte{0, 0, 0, 8}))
	case "R_badlen":
		p.WriteRaw(rawFrame(http2.FrameRSTStream, 0, 1, []byte{0, 0, 8}))
	case "W_zero":
		p.WriteRaw(rawFrame(http2.FrameWindowUpdate, 0, sid, []byte{0, 0, 0, 0}))
	case "W_big":
		p.WriteWindowUpdate(sid, 1<<31-1)
	case "W_zeroconn":
		p.WriteRaw(rawFrame(http2.FrameWindowUpdate, 0, 0, []byte{0, 0, 0, 0}))
	case "W_bigconn":
		p.WriteWindowUpdate(0, 1<<31-1)
	case "S_onstream":
		p.WriteRaw(rawFrame(http2.FrameSettings, 0, sid, nil))
	case "S_empty":
		p.WriteSettings()
	case "S_maxstreams0":
		p.WriteSettings(http2.Setting{ID: http2.SettingMaxConcurrentStreams, Val: 0})
	case "S_iws0":
		p.WriteSettings(http2.Setting{ID: http2.SettingInitialWindowSize, Val: 0})
	case "S_iwsbig":
		p.WriteRaw(rawFrame(http2.FrameSettings, 0, 0, []byte{0, 4, 0x80, 0, 0, 0}))
	case "S_maxframesmall":
		p.WriteRaw(rawFrame(http2.FrameSettings, 0, 0, []byte{0, 5, 0, 0, 0, 100}))
	case "S_badlen":
		p.WriteRaw(rawFrame(http2.FrameSettings, 0, 0, []byte{0, 4, 0, 0, 1}))
	case "S_ack":
		p.WriteSettingsAck()
	case "S_ackpayload":
		p.WriteRaw(rawFrame(http2.FrameSettings, 1, 0, []byte{0, 4, 0, 1, 0, 0}))
	case "P_ping":
		p.WritePing(false, [8]byte{7})
	case "P_ack":
		p.WritePing(true, [8]byte{9})
	case "P_badlen":
		p.WriteRaw(rawFrame(http2.FramePing, 0, 0, []byte{1, 2, 3, 4, 5, 6, 7}))
	case "P_onstream":
		p.WriteRaw(rawFrame(http2.FramePing, 0, 1, make([]byte, 8)))
	case "G_max":
		p.WriteGoAway(1<<31-1, http2.ErrCodeNo, nil)
	case "G_0":
		p.WriteGoAway(0, http2.ErrCodeNo, []byte("bye"))
	case "G_1":
		p.WriteGoAway(1, http2.ErrCodeNo, nil)
	case "G_even":
		p.WriteGoAway(2, http2.ErrCodeNo, nil)
	case "G_calm":
		p.WriteGoAway(0, http2.ErrCodeEnhanceYourCalm, []byte("too_many_pings"))
	case "C_cont":
		p.WriteRaw(rawFrame(http2.FrameContinuation, 0x4, 1, []byte{0x88}))
	case "U_unknown":
		p.WriteRaw(rawFrame(http2.FrameType(0xbe), 0xff, 1, []byte("whatever")))
	case "U_priority":
		p.WriteRaw(rawFrame(http2.FramePriority, 0, 1, []byte{0, 0, 0, 3, 16}))
	case "U_push":
		p.WriteRaw(rawFrame(http2.FramePushPromise, 0x4, 1, []byte{0, 0, 0, 2, 0x88}))
	case "X_close":
		return false
	}
	return true
}

// ---------------------------------------------------------------------------------------------
// in-memory peer used to serialise the server's frames (mutation mode)
type memConn struct {
	frames [][]byte
	pre    *bytes.Reader
}

func (m *memConn) Write(b []byte) (int, error) {
	m.frames = append(m.frames, append([]byte(nil), b...))
	return len(b), nil
}
func (m *memConn) Read(b []byte) (int, error)       { return m.pre.Read(b) }
func (m *memConn) Close() error                     { return nil }
func (m *memConn) LocalAddr() net.Addr              { return nil }
func (m *memConn) RemoteAddr() net.Addr             { return nil }
func (m *memConn) SetDeadline(time.Time) error      { return nil }
func (m *memConn) SetReadDeadline(time.Time) error  { return nil }
func (m *memConn) SetWriteDeadline(time.Time) error { return nil }

func mutate(frames [][]byte, n int, rng *rand.Rand) ([]byte, []string) {
	fs := make([][]byte, len(frames))
	for i := range frames {
		fs[i] = append([]byte(nil), frames[i]...)
	}
	desc := []string{}
	for k := 0; k < n && len(fs) > 0; k++ {
		i := rng.Intn(len(fs))
		f := fs[i]
		switch op := rng.Intn(9); {
		case op == 0 && len(f) > 0:
			j := rng.Intn(len(f))
			f[j] ^= 1 << uint(rng.Intn(8))
			desc = append(desc, fmt.Sprintf("flip f%d@%d", i, j))
		case op == 1 && len(f) > 0:
			j := rng.Intn(len(f))
			f[j] = byte(rng.Intn(256))
			desc = append(desc, fmt.Sprintf("set f%d@%d", i, j))
		case op == 2 && len(f) >= 9:
			d := []int{1, -1, 2, 5, -5, 255, 16384, 70000}[rng.Intn(8)]
			l := int(f[0])<<16 | int(f[1])<<8 | int(f[2])
			l += d
			if l < 0 {
				l = 0
			}
			f[0], f[1], f[2] = byte(l>>16), byte(l>>8), byte(l)
			desc = append(desc, fmt.Sprintf("len f%d%+d", i, d))
		case op == 3 && len(f) >= 9:
			f[3] = byte(rng.Intn(12))
			desc = append(desc, fmt.Sprintf("type f%d=%d", i, f[3]))
		case op == 4 && len(f) >= 9:
			f[4] ^= 1 << uint(rng.Intn(8))
			desc = append(desc, fmt.Sprintf("flags f%d", i))
		case op == 5 && len(f) >= 9:
			ids := []uint32{0, 1, 2, 3, 5, 7, 0x7fffffff, 0x80000001}
			id := ids[rng.Intn(len(ids))]
			f[5], f[6], f[7], f[8] = byte(id>>24), byte(id>>16), byte(id>>8), byte(id)
			desc = append(desc, fmt.Sprintf("sid f%d=%d", i, id))
		case op == 6:
			fs = append(fs[:i+1], append([][]byte{append([]byte(nil), f...)}, fs[i+1:]...)...)
			desc = append(desc, fmt.Sprintf("dup f%d", i))
		case op == 7 && i+1 < len(fs):
			fs[i], fs[i+1] = fs[i+1], fs[i]
			desc = append(desc, fmt.Sprintf("swap f%d", i))
		case op == 8 && len(f) > 0:
			fs[i] = f[:rng.Intn(len(f))]
			fs = fs[:i+1]
			desc = append(desc, fmt.Sprintf("trunc f%d@%d", i, len(fs[i])))
		default:
			desc = append(desc, "noop")
		}
	}
	return bytes.Join(fs, nil), desc
}

// ---------------------------------------------------------------------------------------------
func runBeh(t *testing.T, b beh, idx int, seed int64, tr *tracer) {
	tr.Emit(ev{"ev": "reset", "b": idx, "nrpc": b.NRpc, "mut": b.Mut, "stress": b.Stress})
	synctest.Test(t, func(t *testing.T) {
		start := time.Now()
		lis := bufconn.Listen(1 << 20)
		sv := &server{sids: map[string]uint32{}}
		go sv.serve(lis)
		cc, err := grpc.NewClient("passthrough:///x", grpc.WithTransportCredentials(insecure.NewCredentials()),
			grpc.WithContextDialer(func(ctx context.Context, _ string) (net.Conn, error) { return lis.DialContext(ctx) }),
			grpc.WithDefaultCallOptions(grpc.ForceCodec(rawh2.RawCodec{})), grpc.WithMaxHeaderListSize(maxHeaderList),
			grpc.WithKeepaliveParams(keepalive.ClientParameters{Time: 30 * time.Second, Timeout: 10 * time.Second}))
		if err != nil {
			t.Fatal(err)
		}
		rpcs := []*rpcState{{}, {}}
		var stressPanic atomic.Bool
		guard := func(s *rpcState, f func() error) {
			go func() {
				var err error
				defer func() {
					if r := recover(); r != nil {
						s.mu.Lock()
						s.panic = fmt.Sprint(r)
						s.mu.Unlock()
					}
				}()
				err = f()
				s.finish(start, err)
			}()
		}
		// RPC 1: unary
		guard(rpcs[0], func() error {
			ctx, cancel := context.WithDeadline(context.Background(), start.Add(deadlines[0]))
			defer cancel()
			req, resp := []byte("hi"), []byte{}
			return cc.Invoke(ctx, "/s/u", &req, &resp)
		})
		synctest.Wait()
		if b.NRpc >= 2 {
			// RPC 2: bidi stream, one request message, then receive until the stream ends
			guard(rpcs[1], func() error {
				ctx, cancel := context.WithDeadline(context.Background(), start.Add(deadlines[1]))
				defer cancel()
				cs, err := cc.NewStream(ctx, &grpc.StreamDesc{StreamName: "s", ClientStreams: true, ServerStreams: true}, "/s/s")
				if err != nil {
					return err
				}
				req := []byte("hi")
				if err := cs.SendMsg(&req); err != nil && err != io.EOF {
					return err
				}
				cs.CloseSend()
				for {
					resp := []byte{}
					if err := cs.RecvMsg(&resp); err != nil {
						if err == io.EOF {
							return nil
						}
						return err
					}
				}
			})
			synctest.Wait()
		}
		sv.mu.Lock()
		p := sv.first
		sidOf := func(r int) uint32 {
			switch r {
			case 1:
				return sv.sids["/s/u"]
			case 2:
				return sv.sids["/s/s"]
			}
			return 0
		}
		s1, s2 := sidOf(1), sidOf(2)
		sv.mu.Unlock()
		snapshot := func() ([]int, []int) {
			done, code := []int{}, []int{}
			for i := 0; i < b.NRpc; i++ {
				d, c := rpcs[i].snap()
				done = append(done, d)
				code = append(code, c)
			}
			return done, code
		}
		sidFor := func(r int) uint32 {
			if r == 1 {
				return s1
			}
			if r == 2 {
				return s2
			}
			return 0
		}
		if p == nil {
			t.Fatal("no connection reached the raw server")
		}
		if b.Mut > 0 {
			mem := &memConn{pre: bytes.NewReader([]byte(http2.ClientPreface))}
			bp, _ := rawh2.NewServerPeer(mem)
			bp.Fr.AllowIllegalWrites = true
			closeAfter := false
			for _, st := range b.Steps {
				if !emit(bp, st, sidFor(st.R)) {
					closeAfter = true
				}
			}
			rng := rand.New(rand.NewSource(seed*1000003 + int64(idx)))
			data, desc := mutate(mem.frames, b.Mut, rng)
			time.Sleep(time.Second)
			p.WriteRaw(data)
			if closeAfter {
				p.Conn.Close()
			}
			synctest.Wait()
			done, code := snapshot()
			tr.Emit(ev{"ev": "raw", "mut": desc, "n": len(data), "done": done, "code": code})
		} else {
			goAwaySent := false
			for _, st := range b.Steps {
				time.Sleep(time.Second)
				if b.Stress > 0 && !goAwaySent && strings.HasPrefix(st.V, "G_") {
					// free-running stress: new RPCs are being created on the same ClientConn (NewStream on the same
					// transport) at the instant the first GOAWAY arrives.  Not gated; a wedge shows up as a hang.
					var wg sync.WaitGroup
					var iters atomic.Int64
					t0 := time.Now()
					for g := 0; g < b.Stress; g++ {
						wg.Add(1)
						go func() {
							defer wg.Done()
							defer func() {
								if r := recover(); r != nil {
									stressPanic.Store(true)
								}
							}()
							for i := 0; i < 300 && time.Since(t0) < 500*time.Millisecond; i++ {
								ctx, cancel := context.WithTimeout(context.Background(), 200*time.Millisecond)
								req, resp := []byte("x"), []byte{}
								cc.Invoke(ctx, "/s/x", &req, &resp)
								cancel()
								iters.Add(1)
							}
						}()
					}
					for spin := 0; iters.Load() < int64(4*b.Stress) && spin < 1000000; spin++ {
						runtime.Gosched() // let the starters get going (real scheduling, no virtual time passes)
					}
					emit(p, st, sidFor(st.R))
					wg.Wait()
				} else if !emit(p, st, sidFor(st.R)) {
					p.Conn.Close()
				}
				goAwaySent = goAwaySent || strings.HasPrefix(st.V, "G_")
				synctest.Wait()
				done, code := snapshot()
				sv.mu.Lock()
				dead := sv.dead
				sv.mu.Unlock()
				e := ev{"ev": "frame", "v": st.V, "r": st.R, "done": done, "code": code, "dead": dead}
				if strings.HasPrefix(st.V, "V_") {
					e["val"] = st.Val
				}
				tr.Emit(e)
			}
		}
		// past every deadline
		time.Sleep(start.Add(25 * time.Second).Sub(time.Now()))
		synctest.Wait()
		done, code := snapshot()
		oks, tend, dl, pan := []bool{}, []int{}, []int{}, 0
		for i := 0; i < b.NRpc; i++ {
			rpcs[i].mu.Lock()
			oks = append(oks, rpcs[i].ok || rpcs[i].done == 0)
			tend = append(tend, int(rpcs[i].tend/time.Millisecond))
			if rpcs[i].panic != "" {
				pan = 1
			}
			rpcs[i].mu.Unlock()
			dl = append(dl, int(deadlines[i]/time.Millisecond))
		}
		if stressPanic.Load() {
			pan = 1
		}
		tr.Emit(ev{"ev": "end", "done": done, "code": code, "ok": oks, "tend": tend, "dl": dl, "panic": pan})
		// let the keepalive goroutine of a surviving connection go dormant (no active streams) before the close
		time.Sleep(start.Add(70 * time.Second).Sub(time.Now()))
		synctest.Wait()
		cc.Close()
		sv.mu.Lock()
		for _, c := range sv.conns {
			c.Close()
		}
		sv.mu.Unlock()
		lis.Close()
		synctest.Wait()
		// every RPC must have returned by now (a second return would show as done == 2)
		done, _ = snapshot()
		tr.Emit(ev{"ev": "closed", "done": done})
	})
}

func TestVerifC11Replay(t *testing.T) {
	lines, err := vlib.ReadLines(os.Getenv("VERIF_BEHAVIOURS"))
	if err != nil {
		t.Fatal(err)
	}
	f, err := os.Create(os.Getenv("VERIF_OUT"))
	if err != nil {
		t.Fatal(err)
	}
	defer f.Close()
	tr := &tracer{f: f}
	seed := int64(vlib.EnvInt("VERIF_SEED", 1))
	base := vlib.EnvInt("VERIF_BASE", 0)
	// watchdog (real time, outside every bubble): a behaviour that makes no progress for VERIF_HANG_S seconds has
	// wedged the client (e.g. goroutines blocked on a mutex, which testing/synctest cannot see): report it and stop
	var cur, since atomic.Int64
	since.Store(time.Now().UnixNano())
	limit := time.Duration(vlib.EnvInt("VERIF_HANG_S", 60)) * time.Second
	go func() {
		for {
			time.Sleep(500 * time.Millisecond)
			if time.Since(time.Unix(0, since.Load())) > limit {
				fmt.Printf("\nVERIF_HANG %d\n", cur.Load())
				buf := make([]byte, 1<<20)
				os.Stdout.Write(buf[:runtime.Stack(buf, true)])
				os.Exit(3)
			}
		}
	}()
	for i, ln := range lines {
		var b beh
		if err := json.Unmarshal(ln, &b); err != nil {
			t.Fatal(err)
		}
		cur.Store(int64(base + i))
		since.Store(time.Now().UnixNano())
		fmt.Printf("VERIF_BEGIN %d\n", base+i)
		runBeh(t, b, base+i, seed, tr)
		tr.Flush()
	}
	since.Store(time.Now().Add(time.Hour).UnixNano())
	fmt.Printf("VERIF_SUMMARY {\"behaviours\":%d,\"events\":%d}\n", len(lines), tr.N)
}
