package probe

import (
	"context"
	"net"
	"testing"
	"testing/synctest"
	"time"

	"golang.org/x/net/http2"
	"google.golang.org/grpc"
	"google.golang.org/grpc/codes"
	"google.golang.org/grpc/credentials/insecure"
	"google.golang.org/grpc/internal/zzverif/vlib/rawh2"
	"google.golang.org/grpc/status"
	"google.golang.org/grpc/test/bufconn"
)

// TestVerifProbeRawServer is a smoke test of the shared helpers: real client vs raw server in a
// synctest bubble (virtual time).
func TestVerifProbeRawServer(t *testing.T) {
	synctest.Test(t, func(t *testing.T) {
		start := time.Now()
		lis := bufconn.Listen(1 << 20)
		go rawh2.Serve(lis, func(c net.Conn) {
			defer c.Close()
			p, err := rawh2.NewServerPeer(c)
			if err != nil {
				return
			}
			p.WriteSettings()
			for {
				f, err := p.ReadFrame()
				if err != nil {
					return
				}
				switch f := f.(type) {
				case *http2.SettingsFrame:
					if !f.IsAck() {
						p.WriteSettingsAck()
					}
				case *http2.PingFrame:
					if !f.IsAck() {
						p.WritePing(true, f.Data)
					}
				case *http2.MetaHeadersFrame:
					id := f.StreamID
					time.Sleep(3 * time.Second)
					p.WriteHeaders(id, false, ":status", "200", "content-type", "application/grpc")
					p.WriteData(id, false, rawh2.GrpcFrame([]byte("ok"), false))
					p.WriteHeaders(id, true, "grpc-status", "0")
				}
			}
		})
		cc, err := grpc.NewClient("passthrough:///x", grpc.WithTransportCredentials(insecure.NewCredentials()),
			grpc.WithContextDialer(func(ctx context.Context, _ string) (net.Conn, error) { return lis.DialContext(ctx) }),
			grpc.WithDefaultCallOptions(grpc.ForceCodec(rawh2.RawCodec{})))
		if err != nil {
			t.Fatal(err)
		}
		req, resp := []byte("hi"), []byte{}
		err = cc.Invoke(context.Background(), "/svc/m", &req, &resp)
		if status.Code(err) != codes.OK || string(resp) != "ok" || time.Since(start) != 3*time.Second {
			t.Fatalf("resp=%q err=%v elapsed=%v", resp, err, time.Since(start))
		}
		cc.Close()
		lis.Close()
		synctest.Wait()
	})
}
