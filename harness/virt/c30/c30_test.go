package c30

// e2e driver for C30 (connectivity state reporting is consistent and never missed).
//
// A real grpc.ClientConn runs inside a testing/synctest bubble with
//   - a recording LB policy ("verif_c30") that creates one SubConn per scripted subchannel,
//     logs every SubConnState delivered to the StateListeners and publishes subchannel 1's
//     state as the channel's state,
//   - a dialer gated by the driver (succeed / fail / hang until the connect deadline /
//     accept and close before the HTTP/2 handshake),
//   - raw HTTP/2 servers (one bufconn listener per subchannel) that send GOAWAY or close,
//   - watcher goroutines looping GetState / WaitForStateChange.
// The driver only drives and records; TLC judges (ConnectivityTrace.tla).

import (
	"context"
	"encoding/json"
	"errors"
	"fmt"
	"math/rand"
	"net"
	"sync"
	"testing"
	"testing/synctest"
	"time"

	"golang.org/x/net/http2"
	"google.golang.org/grpc"
	"google.golang.org/grpc/balancer"
	"google.golang.org/grpc/codes"
	"google.golang.org/grpc/connectivity"
	"google.golang.org/grpc/credentials/insecure"
	"google.golang.org/grpc/internal/zzverif/vlib"
	"google.golang.org/grpc/internal/zzverif/vlib/rawh2"
	"google.golang.org/grpc/resolver"
	"google.golang.org/grpc/status"
	"google.golang.org/grpc/test/bufconn"
)

const lbName = "verif_c30"

var stateName = map[connectivity.State]string{connectivity.Idle: "IDLE", connectivity.Connecting: "CONNECTING",
	connectivity.Ready: "READY", connectivity.TransientFailure: "TRANSIENT_FAILURE", connectivity.Shutdown: "SHUTDOWN"}

var (
	curMu  sync.Mutex
	curEnv *env
)

func init() { balancer.Register(lbBuilder{}) }

type lbBuilder struct{}

func (lbBuilder) Name() string { return lbName }
func (lbBuilder) Build(cc balancer.ClientConn, _ balancer.BuildOptions) balancer.Balancer {
	curMu.Lock()
	e := curEnv
	curMu.Unlock()
	return &lb{cc: cc, e: e}
}

type lb struct {
	cc balancer.ClientConn
	e  *env
}

type errPicker struct{}

func (errPicker) Pick(balancer.PickInfo) (balancer.PickResult, error) {
	return balancer.PickResult{}, status.Error(codes.Unavailable, "verif: no picks")
}

func (b *lb) UpdateClientConnState(balancer.ClientConnState) error {
	e := b.e
	e.mu.Lock()
	made := len(e.scs) > 0
	e.mu.Unlock()
	if made {
		return nil
	}
	for i := 1; i <= e.ns; i++ {
		sc := i
		list := []resolver.Address{{Addr: fmt.Sprintf("sc%d", sc)}}
		e.mu.Lock()
		e.addrs[sc] = list
		e.mu.Unlock()
		s, err := b.cc.NewSubConn(list, balancer.NewSubConnOptions{
			StateListener: func(st balancer.SubConnState) { b.onState(sc, st) },
		})
		if err != nil {
			panic(err)
		}
		e.mu.Lock()
		e.scs[sc] = s
		e.last[sc] = "IDLE"
		e.mu.Unlock()
	}
	return nil
}
func (b *lb) ResolverError(error)                                      {}
func (b *lb) UpdateSubConnState(balancer.SubConn, balancer.SubConnState) {}
func (b *lb) Close()                                                   {}
func (b *lb) ExitIdle()                                                {}

func (b *lb) onState(sc int, st balancer.SubConnState) {
	e := b.e
	s := stateName[st.ConnectivityState]
	e.mu.Lock()
	e.last[sc] = s
	e.mu.Unlock()
	e.tr.Emit(map[string]any{"ev": "sc_state", "sc": sc, "s": s, "t": e.ms()})
	if sc == 1 && st.ConnectivityState != connectivity.Shutdown {
		e.tr.Emit(map[string]any{"ev": "pub_begin", "s": s})
		b.cc.UpdateState(balancer.State{ConnectivityState: st.ConnectivityState, Picker: errPicker{}})
		e.tr.Emit(map[string]any{"ev": "pub_end", "s": s})
	}
}

type srvConn struct {
	c net.Conn
	p *rawh2.Peer
}

type env struct {
	tr *vlib.Trace
	t0 time.Time
	ns int
	cc *grpc.ClientConn

	mu    sync.Mutex
	scs   map[int]balancer.SubConn
	last  map[int]string
	gates map[int]chan string // pending dial per subchannel
	stale map[int][]chan string // dials of abandoned attempts that have not returned yet
	mode  map[int]string      // what the server does with the next accepted connection
	srv   map[int]*srvConn
	lis   map[int]*bufconn.Listener
	addrs map[int][]resolver.Address // the address list each subchannel currently has
	ver   int
	wg    sync.WaitGroup
	wctx  context.Context
	wstop context.CancelFunc
}

func (e *env) ms() int64 { return time.Since(e.t0).Milliseconds() }

func (e *env) dial(ctx context.Context, addr string) (net.Conn, error) {
	var sc int
	fmt.Sscanf(addr, "sc%d", &sc)
	g := make(chan string, 1)
	e.mu.Lock()
	e.gates[sc] = g
	e.mu.Unlock()
	e.tr.Emit(map[string]any{"ev": "dial", "sc": sc})
	var o string
	select {
	case o = <-g:
	case <-ctx.Done():
		e.mu.Lock()
		if e.gates[sc] == g {
			delete(e.gates, sc)
		}
		abandoned := ctx.Err() == context.Canceled
		if abandoned {
			e.stale[sc] = append(e.stale[sc], g)
		}
		e.mu.Unlock()
		if !abandoned {
			return nil, ctx.Err() // connect deadline
		}
		// the attempt was abandoned (Shutdown / UpdateAddresses / Close); this dialer does not
		// honour the cancellation promptly and reports an error of its own when released
		<-g
		return nil, errors.New("verif: connection refused (late)")
	}
	switch o {
	case "ok", "closeearly":
		e.mu.Lock()
		e.mode[sc] = o
		l := e.lis[sc]
		e.mu.Unlock()
		return l.DialContext(ctx)
	case "hang":
		<-ctx.Done()
		return nil, ctx.Err()
	}
	return nil, errors.New("verif: scripted dial failure")
}

func (e *env) serve(sc int, l *bufconn.Listener) {
	defer e.wg.Done()
	for {
		c, err := l.Accept()
		if err != nil {
			return
		}
		e.mu.Lock()
		m := e.mode[sc]
		e.mu.Unlock()
		if m == "closeearly" {
			c.Close()
			continue
		}
		e.wg.Add(1)
		go func() {
			defer e.wg.Done()
			defer c.Close()
			p, err := rawh2.NewServerPeer(c)
			if err != nil {
				return
			}
			e.mu.Lock()
			e.srv[sc] = &srvConn{c: c, p: p}
			e.mu.Unlock()
			p.WriteSettings()
			for {
				f, err := p.ReadFrame()
				if err != nil {
					return
				}
				switch f := f.(type) {
				case *http2.SettingsFrame:
					if !f.IsAck() {
						p.WriteSettingsAck()
					}
				case *http2.PingFrame:
					if !f.IsAck() {
						p.WritePing(true, f.Data)
					}
				}
			}
		}()
	}
}

func (e *env) watcher(w int) {
	defer e.wg.Done()
	for e.wctx.Err() == nil {
		e.tr.Emit(map[string]any{"ev": "get_begin", "w": w})
		s := e.cc.GetState()
		e.tr.Emit(map[string]any{"ev": "get_end", "w": w, "v": stateName[s]})
		e.tr.Emit(map[string]any{"ev": "wait_begin", "w": w, "s": stateName[s]})
		ok := e.cc.WaitForStateChange(e.wctx, s)
		e.tr.Emit(map[string]any{"ev": "wait_end", "w": w, "ok": ok})
	}
}

func (e *env) quiescent() {
	synctest.Wait()
	e.tr.Emit(map[string]any{"ev": "quiescent", "t": e.ms()})
	e.tr.Emit(map[string]any{"ev": "get_begin", "w": 0})
	s := e.cc.GetState()
	e.tr.Emit(map[string]any{"ev": "get_end", "w": 0, "v": stateName[s]})
}

func newEnv(tr *vlib.Trace, ns, nwatch int) *env {
	e := &env{tr: tr, t0: time.Now(), ns: ns, scs: map[int]balancer.SubConn{}, last: map[int]string{},
		gates: map[int]chan string{}, stale: map[int][]chan string{}, mode: map[int]string{}, srv: map[int]*srvConn{}, lis: map[int]*bufconn.Listener{},
		addrs: map[int][]resolver.Address{}}
	e.wctx, e.wstop = context.WithCancel(context.Background())
	for sc := 1; sc <= ns; sc++ {
		l := bufconn.Listen(1 << 16)
		e.lis[sc] = l
		e.wg.Add(1)
		go e.serve(sc, l)
	}
	curMu.Lock()
	curEnv = e
	curMu.Unlock()
	cc, err := grpc.NewClient("passthrough:///c30", grpc.WithTransportCredentials(insecure.NewCredentials()),
		grpc.WithContextDialer(e.dial), grpc.WithIdleTimeout(0),
		grpc.WithDefaultServiceConfig(`{"loadBalancingConfig":[{"`+lbName+`":{}}]}`))
	if err != nil {
		panic(err)
	}
	e.cc = cc
	for w := 1; w <= nwatch; w++ {
		e.wg.Add(1)
		go e.watcher(w)
	}
	// leave idle mode: the channel itself reports CONNECTING and builds the LB policy, which
	// creates the subchannels
	tr.Emit(map[string]any{"ev": "pub_begin", "s": "CONNECTING"})
	cc.Connect()
	tr.Emit(map[string]any{"ev": "pub_end", "s": "CONNECTING"})
	e.quiescent()
	return e
}

func (e *env) finish(closed bool) {
	if !closed {
		e.closeCC()
		e.quiescent()
	}
	e.wstop()
	e.mu.Lock()
	for _, q := range e.stale {
		for _, g := range q {
			g <- "fail"
		}
	}
	e.stale = map[int][]chan string{}
	for _, l := range e.lis {
		l.Close()
	}
	for _, s := range e.srv {
		s.c.Close()
	}
	e.mu.Unlock()
	e.wg.Wait()
	synctest.Wait()
}

func (e *env) closeCC() {
	e.tr.Emit(map[string]any{"ev": "close_begin"})
	e.cc.Close()
	e.tr.Emit(map[string]any{"ev": "close_end"})
}

type step struct {
	A    string `json:"a"`
	SC   int    `json:"sc"`
	How  string `json:"how"`
	Kind string `json:"kind"`
}

type summary struct {
	Behaviours int `json:"behaviours"`
	Steps      int `json:"steps"`
	Infeasible int `json:"infeasible"`
	Panics     int `json:"panics"`
	Delivered  int `json:"delivered"`
}

func (e *env) lastOf(sc int) string { e.mu.Lock(); defer e.mu.Unlock(); return e.last[sc] }

// apply executes one environment step; it returns false if the step was not executable.
// variant selects how a failing dial fails.  closed reports that the channel is now closed.
func (e *env) apply(st step, variant int) (feasible bool, closed bool) {
	sc := st.SC
	must := ""
	switch st.A {
	case "connect":
		if e.lastOf(sc) != "IDLE" {
			return false, false
		}
		e.scs[sc].Connect()
		must = "CONNECTING"
	case "dialok", "dialfail":
		e.mu.Lock()
		g := e.gates[sc]
		delete(e.gates, sc)
		others := len(e.gates)
		e.mu.Unlock()
		if g == nil {
			return false, false
		}
		if st.A == "dialok" {
			g <- "ok"
			must = "READY"
		} else {
			how := []string{"fail", "closeearly", "hang"}[variant%3]
			if how == "hang" && others > 0 {
				how = "fail" // the connect deadline of the other pending dial would expire too
			}
			g <- how
			if how == "hang" {
				// until the connect deadline (minConnectTimeout, 20 s after the attempt started)
				for i := 0; i < 50 && e.lastOf(sc) == "CONNECTING"; i++ {
					time.Sleep(500 * time.Millisecond)
					synctest.Wait()
				}
			}
			// the attempt goes on with the next address of the list (if any): fail that one too
			for i := 0; i < 4; i++ {
				synctest.Wait()
				e.mu.Lock()
				g2 := e.gates[sc]
				delete(e.gates, sc)
				e.mu.Unlock()
				if g2 == nil {
					break
				}
				g2 <- "fail"
			}
			must = "TRANSIENT_FAILURE"
		}
	case "backoff":
		if e.lastOf(sc) != "TRANSIENT_FAILURE" {
			return false, false
		}
		for i := 0; i < 150 && e.lastOf(sc) == "TRANSIENT_FAILURE"; i++ {
			time.Sleep(time.Second)
			synctest.Wait()
		}
		must = "IDLE"
	case "disconnect":
		e.mu.Lock()
		s := e.srv[sc]
		delete(e.srv, sc)
		e.mu.Unlock()
		if s == nil || e.lastOf(sc) != "READY" {
			return false, false
		}
		if st.How == "goaway" {
			s.p.WriteGoAway(0, http2.ErrCodeNo, nil)
		} else {
			s.c.Close()
		}
		must = "IDLE"
	case "updaddrs":
		// SubConn.UpdateAddresses from the LB policy: an equal list, a disjoint new list, or
		// the current list plus one more address
		last := e.lastOf(sc)
		e.mu.Lock()
		cur := e.addrs[sc]
		e.ver++
		fresh := resolver.Address{Addr: fmt.Sprintf("sc%d-v%d", sc, e.ver)}
		var list []resolver.Address
		switch st.Kind {
		case "same":
			list = append([]resolver.Address{}, cur...)
		case "keep":
			list = append(append([]resolver.Address{}, cur...), fresh)
		default:
			list = []resolver.Address{fresh}
		}
		e.addrs[sc] = list
		e.mu.Unlock()
		e.scs[sc].UpdateAddresses(list)
		must = last
		if last == "READY" && st.Kind == "new" {
			must = "CONNECTING"
		}
		if last == "READY" && st.Kind == "keep" {
			// documented intent: the connection is kept ("we are connected to a valid address");
			// not part of the property text, so only reported as drift
			must = ""
			synctest.Wait()
			e.tr.Emit(map[string]any{"ev": "soft", "sc": sc, "s": "READY", "what": "updaddrs_keep_in_ready"})
		}
		synctest.Wait()
		if e.lastOf(sc) != "READY" {
			e.mu.Lock()
			delete(e.srv, sc) // that connection is gone
			e.mu.Unlock()
		}
	case "stalefail":
		e.mu.Lock()
		var g chan string
		if q := e.stale[sc]; len(q) > 0 {
			g, e.stale[sc] = q[0], q[1:]
		}
		e.mu.Unlock()
		if g == nil {
			return false, false
		}
		g <- "fail"
		must = e.lastOf(sc) // the outcome of an abandoned attempt changes nothing
	case "scshutdown":
		if e.lastOf(sc) == "SHUTDOWN" {
			return false, false
		}
		e.scs[sc].Shutdown()
		must = "SHUTDOWN"
	case "close":
		e.closeCC()
		closed = true
	case "sleep":
		time.Sleep(time.Duration(variant%7) * 700 * time.Millisecond)
	default:
		return true, false // internal step of the model (delivery)
	}
	synctest.Wait()
	if must != "" {
		e.tr.Emit(map[string]any{"ev": "must", "sc": sc, "s": must})
	}
	e.quiescent()
	return true, closed
}

func guarded(tr *vlib.Trace, sum *summary, f func()) {
	defer func() {
		if r := recover(); r != nil {
			sum.Panics++
			tr.Emit(map[string]any{"ev": "panic", "msg": fmt.Sprint(r)})
		}
	}()
	f()
}

// TestVerifC30Replay executes TLC behaviours of Connectivity.tla on a real ClientConn.
func TestVerifC30Replay(t *testing.T) {
	lines, err := vlib.ReadLines(vlib.Env("VERIF_BEHAVIOURS", "beh.ndjson"))
	if err != nil {
		t.Fatal(err)
	}
	tr, err := vlib.NewTrace(vlib.Env("VERIF_OUT", "trace.ndjson"))
	if err != nil {
		t.Fatal(err)
	}
	var sum summary
	synctest.Test(t, func(t *testing.T) {
		for bi, ln := range lines {
			var b struct {
				NS    int    `json:"ns"`
				Steps []step `json:"steps"`
			}
			if err := json.Unmarshal(ln, &b); err != nil {
				t.Fatal(err)
			}
			tr.Reset()
			sum.Behaviours++
			guarded(tr, &sum, func() {
				e := newEnv(tr, b.NS, 2)
				closed := false
				for i, st := range b.Steps {
					if closed {
						break
					}
					ok, c := e.apply(st, bi+i)
					closed = c
					sum.Steps++
					if !ok {
						sum.Infeasible++
						tr.Emit(map[string]any{"ev": "step", "a": st.A, "sc": st.SC, "infeasible": true})
					}
				}
				e.finish(closed)
			})
		}
	})
	tr.Close()
	out, _ := json.Marshal(sum)
	fmt.Printf("VERIF_SUMMARY %s\n", out)
}

// TestVerifC30Random runs seeded random environment scripts (2 subchannels, 3 watchers).
func TestVerifC30Random(t *testing.T) {
	tr, err := vlib.NewTrace(vlib.Env("VERIF_OUT", "trace.ndjson"))
	if err != nil {
		t.Fatal(err)
	}
	n := vlib.EnvInt("VERIF_N", 100)
	seed := int64(vlib.EnvInt("VERIF_SEED", 1))
	acts := []string{"connect", "connect", "dialok", "dialok", "dialfail", "dialfail", "backoff", "disconnect", "disconnect", "scshutdown", "sleep", "updaddrs", "updaddrs", "stalefail"}
	var sum summary
	synctest.Test(t, func(t *testing.T) {
		for r := 0; r < n; r++ {
			rng := rand.New(rand.NewSource(seed*104729 + int64(r)))
			tr.Reset()
			sum.Behaviours++
			guarded(tr, &sum, func() {
				e := newEnv(tr, 2, 3)
				ops := 4 + rng.Intn(20)
				for i := 0; i < ops; i++ {
					st := step{A: acts[rng.Intn(len(acts))], SC: 1 + rng.Intn(2), How: []string{"goaway", "close"}[rng.Intn(2)],
						Kind: []string{"same", "new", "new", "keep"}[rng.Intn(4)]}
					if st.A == "scshutdown" && rng.Intn(3) != 0 {
						continue
					}
					if ok, _ := e.apply(st, rng.Intn(21)); ok {
						sum.Steps++
					}
				}
				e.finish(false)
			})
		}
	})
	tr.Close()
	out, _ := json.Marshal(sum)
	fmt.Printf("VERIF_SUMMARY %s\n", out)
}
