// Package c12 drives C12: a real grpc.Server (UnknownServiceHandler that records entry / exit and
// blocks until released or cancelled) against a scripted raw HTTP/2 client inside a
// testing/synctest bubble.  Each behaviour is a list of steps (request with ten attributes /
// client RST_STREAM / handler release) chosen by TLC or by the seeded generator of checks/C12.py;
// with "mut" > 0 the serialised client byte stream of the behaviour is mutated (bit flips,
// truncation, length / type / stream-id lies, duplicated and swapped frames) before it is sent.
// The driver records only; specs/PeerGrammarServerTrace.tla judges.
package c12

import (
	"bytes"
	"encoding/base64"
	"encoding/json"
	"fmt"
	"math/rand"
	"net"
	"os"
	"runtime"
	"sort"
	"strconv"
	"strings"
	"sync"
	"sync/atomic"
	"testing"
	"testing/synctest"
	"time"

	"golang.org/x/net/http2"
	"google.golang.org/grpc"
	"google.golang.org/grpc/internal/zzverif/vlib"
	"google.golang.org/grpc/internal/zzverif/vlib/rawh2"
	"google.golang.org/grpc/metadata"
	"google.golang.org/grpc/test/bufconn"
)

type ev = map[string]any

// tracer buffers the events of one behaviour and appends them to the file when the behaviour is over, so that
// a crash of the process loses nothing but the behaviour that caused it.
type tracer struct {
	mu  sync.Mutex
	f   *os.File
	buf bytes.Buffer
	N   int
}

func (t *tracer) Emit(e ev) {
	b, err := json.Marshal(e)
	if err != nil {
		panic(err)
	}
	t.mu.Lock()
	t.buf.Write(b)
	t.buf.WriteByte('\n')
	t.N++
	t.mu.Unlock()
}

func (t *tracer) Flush() {
	t.mu.Lock()
	t.f.Write(t.buf.Bytes())
	t.buf.Reset()
	t.mu.Unlock()
}

const maxHeaderList = 2048

type step struct {
	A    string `json:"a"`   // req | rst | fin | finmsg | winup
	Sid  int    `json:"sid"` // concrete stream id; -1: resolve from C (req) / Pick (rst, fin)
	C    string `json:"c"`   // stream id class (generation only)
	Pick int    `json:"pick"`
	Meth string `json:"meth"`
	Ct   string `json:"ct"`
	Te   string `json:"te"`
	To   string `json:"to"`
	Au   string `json:"au"`
	Conn bool   `json:"conn"`
	Bin  string `json:"bin"`
	Big  string `json:"big"`
	Es   bool   `json:"es"`
	Shuf int    `json:"shuf"` // != 0: seed for the order of the regular header fields
}

type beh struct {
	Win   string `json:"win"` // "tiny": the client announces SETTINGS_INITIAL_WINDOW_SIZE 16 and never opens the window by itself
	Cap   int    `json:"cap"`
	Mut   int    `json:"mut"` // number of byte-level mutations (0: faithful replay)
	Steps []step `json:"steps"`
}

// ---------------------------------------------------------------------------------------------
// handler bookkeeping
type recorder struct {
	mu      sync.Mutex
	running map[int]bool
	entered []int
	release map[int]chan struct{}
	withMsg map[int]bool // the handler sends a 4 KB response message before it returns
}

func newRecorder() *recorder {
	return &recorder{running: map[int]bool{}, release: map[int]chan struct{}{}, withMsg: map[int]bool{}}
}

func (r *recorder) rel(rid int) chan struct{} {
	r.mu.Lock()
	defer r.mu.Unlock()
	ch := r.release[rid]
	if ch == nil {
		ch = make(chan struct{})
		r.release[rid] = ch
	}
	return ch
}

func (r *recorder) handler(_ any, ss grpc.ServerStream) error {
	rid := -1
	if md, ok := metadata.FromIncomingContext(ss.Context()); ok {
		if v := md.Get("x-rid"); len(v) > 0 {
			if n, err := strconv.Atoi(v[0]); err == nil {
				rid = n
			}
		}
	}
	r.mu.Lock()
	for r.running[rid] { // mutated input may repeat a request: keep the entries distinct
		rid += 100000
	}
	r.running[rid] = true
	r.entered = append(r.entered, rid)
	r.mu.Unlock()
	defer func() {
		r.mu.Lock()
		delete(r.running, rid)
		r.mu.Unlock()
	}()
	select {
	case <-ss.Context().Done():
		return ss.Context().Err()
	case <-r.rel(rid):
		r.mu.Lock()
		msg := r.withMsg[rid]
		r.mu.Unlock()
		if msg {
			b := make([]byte, 4096)
			return ss.SendMsg(&b)
		}
		return nil
	}
}

func (r *recorder) snapshot() (entered, running []int) {
	r.mu.Lock()
	defer r.mu.Unlock()
	entered = append([]int{}, r.entered...)
	r.entered = nil
	running = []int{}
	for k := range r.running {
		running = append(running, k)
	}
	sort.Ints(running)
	return
}

func (r *recorder) releaseAll() {
	r.mu.Lock()
	ids := []int{}
	for k := range r.running {
		ids = append(ids, k)
	}
	r.mu.Unlock()
	for _, k := range ids {
		ch := r.rel(k)
		select {
		case <-ch:
		default:
			close(ch)
		}
	}
}

// ---------------------------------------------------------------------------------------------
// frame builder: a rawh2 client peer writing into memory (one element per frame)
type memConn struct {
	frames [][]byte
}

func (m *memConn) Write(b []byte) (int, error) {
	m.frames = append(m.frames, append([]byte(nil), b...))
	return len(b), nil
}
func (m *memConn) Read([]byte) (int, error)         { return 0, fmt.Errorf("memConn: no reads") }
func (m *memConn) Close() error                     { return nil }
func (m *memConn) LocalAddr() net.Addr              { return nil }
func (m *memConn) RemoteAddr() net.Addr             { return nil }
func (m *memConn) SetDeadline(time.Time) error      { return nil }
func (m *memConn) SetReadDeadline(time.Time) error  { return nil }
func (m *memConn) SetWriteDeadline(time.Time) error { return nil }
func (m *memConn) take() [][]byte {
	f := m.frames
	m.frames = nil
	return f
}

func headerFields(st step, rid int) []string {
	kv := []string{}
	if st.Meth != "none" {
		kv = append(kv, ":method", st.Meth)
	}
	kv = append(kv, ":scheme", "http", ":path", "/s/m")
	switch st.Au {
	case "one", "both":
		kv = append(kv, ":authority", "verif")
	case "dupauth":
		kv = append(kv, ":authority", "verif", ":authority", "verif2")
	}
	kv = append(kv, "x-rid", strconv.Itoa(rid))
	var reg [][2]string
	switch st.Au {
	case "hostonly", "both":
		reg = append(reg, [2]string{"host", "verif"})
	case "duphost":
		reg = append(reg, [2]string{"host", "verif"}, [2]string{"host", "verif2"})
	}
	switch st.Ct {
	case "grpc":
		reg = append(reg, [2]string{"content-type", "application/grpc"})
	case "grpcsub":
		reg = append(reg, [2]string{"content-type", "application/grpc+proto"})
	case "json":
		reg = append(reg, [2]string{"content-type", "application/json"})
	case "grpcx":
		reg = append(reg, [2]string{"content-type", "application/grpcx"})
	}
	if st.Te == "trailers" {
		reg = append(reg, [2]string{"te", "trailers"})
	}
	switch st.To {
	case "ok":
		reg = append(reg, [2]string{"grpc-timeout", "1H"})
	case "zero":
		reg = append(reg, [2]string{"grpc-timeout", "0S"})
	case "bad":
		reg = append(reg, [2]string{"grpc-timeout", "12"})
	case "long":
		reg = append(reg, [2]string{"grpc-timeout", "1234567890S"})
	}
	if st.Conn {
		reg = append(reg, [2]string{"connection", "keep-alive"})
	}
	switch st.Bin {
	case "ok":
		reg = append(reg, [2]string{"x-k-bin", base64.RawStdEncoding.EncodeToString([]byte("\x00hello\xff"))})
	case "bad":
		reg = append(reg, [2]string{"x-k-bin", "!!not*base64!!"})
	}
	if st.Shuf != 0 {
		rand.New(rand.NewSource(int64(st.Shuf))).Shuffle(len(reg), func(i, j int) { reg[i], reg[j] = reg[j], reg[i] })
	}
	for _, p := range reg {
		kv = append(kv, p[0], p[1])
	}
	switch st.Big { // last, so that everything else is decoded before the list is truncated
	case "big":
		// several fields, each below the decoder's string limit (= MaxHeaderListSize), together above the list limit
		for i := 0; i < 4; i++ {
			kv = append(kv, "x-big-"+strconv.Itoa(i), strings.Repeat("a", 600))
		}
	case "huge":
		kv = append(kv, "x-big", strings.Repeat("a", 5*maxHeaderList))
	}
	return kv
}

// ---------------------------------------------------------------------------------------------
// observed frames from the server
type seen struct {
	typ    string
	sid    int
	http   int
	grpc   int
	hasSt  bool
	es     bool
	code   int
	length int
}

type client struct {
	p      *rawh2.Peer
	mu     sync.Mutex
	frames []seen
	closed bool
}

func (c *client) readLoop() {
	for {
		f, err := c.p.ReadFrame()
		if err != nil {
			c.mu.Lock()
			c.closed = true
			c.mu.Unlock()
			return
		}
		var s seen
		s.sid = int(f.Header().StreamID)
		switch f := f.(type) {
		case *http2.SettingsFrame:
			if !f.IsAck() {
				c.p.WriteSettingsAck()
			}
			continue
		case *http2.PingFrame:
			if !f.IsAck() {
				c.p.WritePing(true, f.Data)
			}
			continue
		case *http2.MetaHeadersFrame:
			s.typ = "headers"
			s.es = f.StreamEnded()
			s.http, _ = strconv.Atoi(rawh2.Field(f, ":status"))
			if v := rawh2.Field(f, "grpc-status"); v != "" {
				s.grpc, _ = strconv.Atoi(v)
				s.hasSt = true
			}
		case *http2.RSTStreamFrame:
			s.typ = "rst"
			s.code = int(f.ErrCode)
		case *http2.GoAwayFrame:
			s.typ = "goaway"
			s.code = int(f.ErrCode)
		case *http2.DataFrame:
			s.typ = "data"
			s.es = f.StreamEnded()
			s.length = len(f.Data())
		default:
			continue
		}
		c.mu.Lock()
		c.frames = append(c.frames, s)
		c.mu.Unlock()
	}
}

func (c *client) take() ([]seen, bool) {
	c.mu.Lock()
	defer c.mu.Unlock()
	f := c.frames
	c.frames = nil
	return f, c.closed
}

// ---------------------------------------------------------------------------------------------
// byte-level mutation of a list of frames
func mutate(frames [][]byte, n int, rng *rand.Rand) ([]byte, []string) {
	fs := make([][]byte, len(frames))
	for i := range frames {
		fs[i] = append([]byte(nil), frames[i]...)
	}
	desc := []string{}
	cut := -1
	// frames[0] is the preface, frames[1] the SETTINGS frame: leave the preface alone most of the time
	pick := func() int {
		if len(fs) > 2 && rng.Intn(8) != 0 {
			return 2 + rng.Intn(len(fs)-2)
		}
		return rng.Intn(len(fs))
	}
	for k := 0; k < n; k++ {
		i := pick()
		f := fs[i]
		switch op := rng.Intn(9); {
		case op == 0 && len(f) > 0: // bit flip anywhere
			j := rng.Intn(len(f))
			f[j] ^= 1 << uint(rng.Intn(8))
			desc = append(desc, fmt.Sprintf("flip f%d@%d", i, j))
		case op == 1 && len(f) > 0: // random byte anywhere
			j := rng.Intn(len(f))
			f[j] = byte(rng.Intn(256))
			desc = append(desc, fmt.Sprintf("set f%d@%d", i, j))
		case op == 2 && len(f) >= 9 && i >= 1: // length-field lie
			d := []int{1, -1, 2, 5, -5, 255, 16384, 70000}[rng.Intn(8)]
			l := int(f[0])<<16 | int(f[1])<<8 | int(f[2])
			l += d
			if l < 0 {
				l = 0
			}
			f[0], f[1], f[2] = byte(l>>16), byte(l>>8), byte(l)
			desc = append(desc, fmt.Sprintf("len f%d%+d", i, d))
		case op == 3 && len(f) >= 9 && i >= 1: // frame type lie
			f[3] = byte(rng.Intn(12))
			desc = append(desc, fmt.Sprintf("type f%d=%d", i, f[3]))
		case op == 4 && len(f) >= 9 && i >= 1: // flags lie
			f[4] ^= 1 << uint(rng.Intn(8))
			desc = append(desc, fmt.Sprintf("flags f%d", i))
		case op == 5 && len(f) >= 9 && i >= 1: // stream id lie
			ids := []uint32{0, 1, 2, 3, 5, 7, 0x7fffffff, 0x80000001}
			id := ids[rng.Intn(len(ids))]
			f[5], f[6], f[7], f[8] = byte(id>>24), byte(id>>16), byte(id>>8), byte(id)
			desc = append(desc, fmt.Sprintf("sid f%d=%d", i, id))
		case op == 6 && i >= 1: // duplicate the frame
			fs = append(fs[:i+1], append([][]byte{append([]byte(nil), f...)}, fs[i+1:]...)...)
			desc = append(desc, fmt.Sprintf("dup f%d", i))
		case op == 7 && i >= 2 && i+1 < len(fs): // swap with the next frame
			fs[i], fs[i+1] = fs[i+1], fs[i]
			desc = append(desc, fmt.Sprintf("swap f%d", i))
		case op == 8: // truncate the byte stream inside this frame
			if len(f) > 0 {
				cut = i
				fs[i] = f[:rng.Intn(len(f))]
				fs = fs[:i+1]
				desc = append(desc, fmt.Sprintf("trunc f%d@%d", i, len(fs[i])))
			}
		default:
			desc = append(desc, "noop")
		}
	}
	_ = cut
	return bytes.Join(fs, nil), desc
}

// ---------------------------------------------------------------------------------------------
func runBeh(t *testing.T, b beh, idx int, seed int64, tr *tracer) {
	if b.Win == "" {
		b.Win = "normal"
	}
	tr.Emit(ev{"ev": "reset", "b": idx, "cap": b.Cap, "mut": b.Mut, "win": b.Win})
	synctest.Test(t, func(t *testing.T) {
		rec := newRecorder()
		lis := bufconn.Listen(1 << 20)
		srv := grpc.NewServer(grpc.MaxConcurrentStreams(uint32(b.Cap)), grpc.MaxHeaderListSize(maxHeaderList),
			grpc.UnknownServiceHandler(rec.handler), grpc.ForceServerCodec(rawh2.RawCodec{}))
		go srv.Serve(lis)
		conn, err := lis.Dial()
		if err != nil {
			t.Fatal(err)
		}
		mem := &memConn{}
		bld, _ := rawh2.NewClientPeer(mem) // builder: the preface goes to mem
		bld.Fr.AllowIllegalWrites = true
		var settings []http2.Setting
		if b.Win == "tiny" {
			settings = append(settings, http2.Setting{ID: http2.SettingInitialWindowSize, Val: 16})
		}
		bld.WriteSettings(settings...)
		all := mem.take() // [preface, SETTINGS]

		var cl *client
		start := func(sendPreface bool) {
			var p *rawh2.Peer
			if sendPreface {
				p, err = rawh2.NewClientPeer(conn)
				if err == nil {
					err = p.WriteSettings(settings...)
				}
			} else {
				// the (mutated) byte stream carries its own preface: wrap conn without writing
				p, err = rawh2.NewClientPeer(&skipWrite{Conn: conn, n: len(http2.ClientPreface)})
			}
			if err != nil {
				t.Fatal(err)
			}
			cl = &client{p: p}
			go cl.readLoop()
		}
		hiSent := 0
		sidOfRid := map[int]int{}
		ridOfSid := map[int]int{}
		sids := func(rids []int) []int {
			out := []int{}
			for _, r := range rids {
				if s, ok := sidOfRid[r]; ok {
					out = append(out, s)
				} else {
					out = append(out, -1000-r)
				}
			}
			return out
		}
		var blockedNow []int
		resolve := func(st *step, running []int) bool {
			if st.Sid >= 0 {
				return true
			}
			if st.A == "winup" {
				if len(blockedNow) == 0 {
					return false
				}
				st.Sid = blockedNow[st.Pick%len(blockedNow)]
				return true
			}
			if st.A != "req" {
				if len(running) == 0 {
					return false
				}
				st.Sid = running[st.Pick%len(running)]
				return true
			}
			nxt := 1
			if hiSent > 0 {
				nxt = hiSent + 2
			}
			switch st.C {
			case "skip":
				st.Sid = nxt + 4
			case "even":
				st.Sid = nxt + 1
			case "zero":
				st.Sid = 0
			case "reuse":
				st.Sid = hiSent
				if hiSent == 0 {
					st.Sid = nxt
				}
			case "lower":
				st.Sid = hiSent - 2
				if st.Sid < 1 {
					st.Sid = nxt
				}
			default:
				st.Sid = nxt
			}
			return true
		}
		build := func(st step, rid int) [][]byte {
			switch st.A {
			case "req":
				bld.WriteHeaders(uint32(st.Sid), st.Es, headerFields(st, rid)...)
			case "rst":
				bld.WriteRST(uint32(st.Sid), http2.ErrCodeCancel)
			case "winup":
				bld.WriteWindowUpdate(uint32(st.Sid), 1<<20)
			}
			return mem.take()
		}

		if b.Mut > 0 {
			// ---- mutation mode: serialise the whole client side, mutate, send, observe generically
			running := []int{}
			for i := range b.Steps {
				st := b.Steps[i]
				if st.A == "fin" || st.A == "finmsg" || st.A == "winup" || !resolve(&st, running) {
					continue
				}
				if st.A == "req" {
					if st.Sid%2 == 1 && st.Sid > hiSent {
						hiSent = st.Sid
					}
					running = append(running, st.Sid)
				}
				all = append(all, build(st, i+1)...)
			}
			rng := rand.New(rand.NewSource(seed*1000003 + int64(idx)))
			data, desc := mutate(all, b.Mut, rng)
			start(false)
			conn.Write(data)
			synctest.Wait()
			time.Sleep(1500 * time.Millisecond)
			synctest.Wait()
			_, run := rec.snapshot()
			_, closed := cl.take()
			tr.Emit(ev{"ev": "raw", "mut": desc, "n": len(data), "running": run, "active": run, "alive": !closed})
			// second observation: the peer goes away in the middle of whatever it was doing
			conn.Close()
			synctest.Wait()
			_, run = rec.snapshot()
			tr.Emit(ev{"ev": "raw", "mut": []string{"close"}, "n": 0, "running": run, "active": run, "alive": false})
		} else {
			start(true)
			synctest.Wait()
			cl.take()
			running := []int{}
			admitted := map[int]bool{} // admitted streams still open on the wire
			for i := range b.Steps {
				st := b.Steps[i]
				if !resolve(&st, running) {
					continue
				}
				rid := i + 1
				e := ev{"ev": st.A, "sid": st.Sid}
				switch st.A {
				case "req":
					sidOfRid[rid] = st.Sid
					if st.Sid%2 == 1 && st.Sid > hiSent {
						hiSent = st.Sid
					}
					for _, f := range build(st, rid) {
						cl.p.WriteRaw(f)
					}
				case "rst", "winup":
					for _, f := range build(st, rid) {
						cl.p.WriteRaw(f)
					}
					if st.A == "rst" {
						delete(admitted, st.Sid)
					}
				case "fin", "finmsg":
					if st.A == "finmsg" {
						rec.mu.Lock()
						rec.withMsg[ridOfSid[st.Sid]] = true
						rec.mu.Unlock()
					}
					ch := rec.rel(ridOfSid[st.Sid])
					select {
					case <-ch:
					default:
						close(ch)
					}
				}
				synctest.Wait()
				// a connection error is followed by the close of the connection up to 1 s later
				// (http2_server.go: loopy's exit waits for the reader or 1 s): let virtual time pass
				time.Sleep(1500 * time.Millisecond)
				synctest.Wait()
				ent, run := rec.snapshot()
				frames, closed := cl.take()
				for _, r := range ent {
					if s, ok := sidOfRid[r]; ok {
						ridOfSid[s] = r
					}
				}
				running = sids(run)
				for _, s := range sids(ent) {
					admitted[s] = true
				}
				for _, f := range frames { // END_STREAM or RST_STREAM from the server ends the stream on the wire
					if f.typ == "rst" || ((f.typ == "headers" || f.typ == "data") && f.es) {
						delete(admitted, f.sid)
					}
				}
				if closed {
					admitted = map[int]bool{}
				}
				active := []int{}
				for s := range admitted {
					active = append(active, s)
				}
				sort.Ints(active)
				isRunning := map[int]bool{}
				for _, s := range running {
					isRunning[s] = true
				}
				blockedNow = blockedNow[:0]
				for _, s := range active {
					if !isRunning[s] {
						blockedNow = append(blockedNow, s)
					}
				}
				e["entered"] = sids(ent)
				e["running"] = running
				e["active"] = active
				e["alive"] = !closed
				obs := ev{"k": "none", "http": 0, "grpc": 0, "code": 0, "rst": false}
				for _, f := range frames {
					switch {
					case f.typ == "goaway":
						obs["goaway"] = f.code
					case f.sid != st.Sid:
					case f.typ == "headers" && f.hasSt:
						obs["k"], obs["http"], obs["grpc"] = "abort", f.http, f.grpc
						if st.A != "req" {
							obs["k"] = "trailers"
						}
					case f.typ == "rst":
						if obs["k"] == "abort" || obs["k"] == "trailers" {
							obs["rst"] = true
						} else {
							obs["k"], obs["code"] = "rst", f.code
						}
					}
				}
				if closed {
					obs["k"] = "connerr"
				} else if obs["k"] == "none" && len(ent) > 0 {
					obs["k"] = "handler"
				}
				e["obs"] = obs
				if st.A == "req" {
					e["c"], e["meth"], e["ct"], e["te"], e["to"], e["au"] = st.C, st.Meth, st.Ct, st.Te, st.To, st.Au
					e["conn"], e["bin"], e["big"], e["es"] = st.Conn, st.Bin, st.Big, st.Es
				}
				tr.Emit(e)
				if closed {
					break
				}
			}
		}
		rec.releaseAll()
		conn.Close()
		srv.Stop()
		lis.Close()
		synctest.Wait()
	})
}

// skipWrite swallows the first n bytes written (the preface rawh2.NewClientPeer insists on).
type skipWrite struct {
	net.Conn
	n int
}

func (s *skipWrite) Write(b []byte) (int, error) {
	if s.n > 0 {
		k := len(b)
		if k > s.n {
			k = s.n
		}
		s.n -= k
		if k == len(b) {
			return len(b), nil
		}
		m, err := s.Conn.Write(b[k:])
		return m + k, err
	}
	return s.Conn.Write(b)
}

func TestVerifC12Replay(t *testing.T) {
	lines, err := vlib.ReadLines(os.Getenv("VERIF_BEHAVIOURS"))
	if err != nil {
		t.Fatal(err)
	}
	f, err := os.Create(os.Getenv("VERIF_OUT"))
	if err != nil {
		t.Fatal(err)
	}
	defer f.Close()
	tr := &tracer{f: f}
	seed := int64(vlib.EnvInt("VERIF_SEED", 1))
	base := vlib.EnvInt("VERIF_BASE", 0)
	// watchdog (real time, outside every bubble): a behaviour that makes no progress for VERIF_HANG_S seconds has
	// wedged the server (goroutines blocked on a mutex are invisible to testing/synctest): report it and stop
	var cur, since atomic.Int64
	since.Store(time.Now().UnixNano())
	limit := time.Duration(vlib.EnvInt("VERIF_HANG_S", 60)) * time.Second
	go func() {
		for {
			time.Sleep(500 * time.Millisecond)
			if time.Since(time.Unix(0, since.Load())) > limit {
				fmt.Printf("\nVERIF_HANG %d\n", cur.Load())
				buf := make([]byte, 1<<20)
				os.Stdout.Write(buf[:runtime.Stack(buf, true)])
				os.Exit(3)
			}
		}
	}()
	for i, ln := range lines {
		var b beh
		if err := json.Unmarshal(ln, &b); err != nil {
			t.Fatal(err)
		}
		cur.Store(int64(base + i))
		since.Store(time.Now().UnixNano())
		fmt.Printf("VERIF_BEGIN %d\n", base+i)
		runBeh(t, b, base+i, seed, tr)
		tr.Flush()
	}
	since.Store(time.Now().Add(time.Hour).UnixNano())
	fmt.Printf("VERIF_SUMMARY {\"behaviours\":%d,\"events\":%d}\n", len(lines), tr.N)
}
