#!/usr/bin/env python3
"""Shared orchestration library for the /verif checks (DESIGN.md section 2).

Pipeline helpers: TLC model checking, behaviour generation (state-graph edge cover,
simulation), building and running Go drivers from /repo's working tree through a
build overlay, TLC trace validation, evidence files, known findings, exit codes.

Exit codes of a check: 0 held, 1 VIOLATION, 2 inconclusive (tool/build/driver failure).
"""
import collections
import json
import os
import random
import re
import shutil
import subprocess
import sys
import time

VERIF = os.path.dirname(os.path.dirname(os.path.abspath(__file__)))
REPO = os.path.abspath(os.environ.get("VERIF_REPO", "/repo"))
JARS = "/opt/veriftools/tla/tla2tools.jar:/opt/veriftools/tla/CommunityModules-deps.jar"
VGO = os.path.join(VERIF, "bin", "vgo")
MODULE = "google.golang.org/grpc"


class Inconclusive(Exception):
    """Raised when the machinery (not the code under test) failed: exit 2."""


# ----------------------------------------------------------------------------------------
# TLA+ value parser (for state dumps / simulation traces)
# ----------------------------------------------------------------------------------------
class _P:
    def __init__(self, s):
        self.s, self.i = s, 0

    def ws(self):
        while self.i < len(self.s) and self.s[self.i] in " \t\r\n":
            self.i += 1

    def peek(self, k=1):
        return self.s[self.i:self.i + k]

    def eat(self, tok):
        self.ws()
        if not self.s.startswith(tok, self.i):
            raise ValueError("expected %r at %d in %r" % (tok, self.i, self.s[max(0, self.i - 20):self.i + 20]))
        self.i += len(tok)

    def value(self):
        self.ws()
        c = self.peek()
        if c == '"':
            j = self.i + 1
            out = []
            while self.s[j] != '"':
                if self.s[j] == "\\":
                    j += 1
                out.append(self.s[j])
                j += 1
            self.i = j + 1
            return "".join(out)
        if self.peek(2) == "<<":
            self.i += 2
            items = []
            self.ws()
            if self.peek(2) == ">>":
                self.i += 2
                return items
            while True:
                items.append(self.value())
                self.ws()
                if self.peek(2) == ">>":
                    self.i += 2
                    return items
                self.eat(",")
        if c == "{":
            self.i += 1
            items = []
            self.ws()
            if self.peek() == "}":
                self.i += 1
                return {"$set": items}
            while True:
                items.append(self.value())
                self.ws()
                if self.peek() == "}":
                    self.i += 1
                    return {"$set": items}
                self.eat(",")
        if c == "[":
            self.i += 1
            rec = {}
            self.ws()
            if self.peek() == "]":
                self.i += 1
                return rec
            while True:
                self.ws()
                m = re.compile(r"[A-Za-z_][A-Za-z0-9_]*").match(self.s, self.i)
                k = m.group(0)
                self.i = m.end()
                self.eat("|->")
                rec[k] = self.value()
                self.ws()
                if self.peek() == "]":
                    self.i += 1
                    return rec
                self.eat(",")
        if c == "(":
            # function printed as (k :> v @@ k :> v)
            self.i += 1
            fn = {}
            while True:
                k = self.value()
                self.eat(":>")
                v = self.value()
                fn[k if isinstance(k, (str, int)) else json.dumps(k)] = v
                self.ws()
                if self.peek() == ")":
                    self.i += 1
                    return fn
                self.eat("@@")
        m = re.compile(r"-?\d+").match(self.s, self.i)
        if m:
            self.i = m.end()
            return int(m.group(0))
        m = re.compile(r"[A-Za-z_][A-Za-z0-9_]*").match(self.s, self.i)
        if m:
            self.i = m.end()
            w = m.group(0)
            if w == "TRUE":
                return True
            if w == "FALSE":
                return False
            return w  # model value
        raise ValueError("cannot parse TLA value at %d: %r" % (self.i, self.s[self.i:self.i + 40]))


def parse_tla_value(s):
    return _P(s).value()


_VAR_RE = re.compile(r"^\s*(?:/\\ )?([A-Za-z_][A-Za-z0-9_]*) = ", re.M)


def parse_tla_state(text, only=None):
    """Parse '/\\ v = value' conjunct lists (values may span lines)."""
    out = {}
    ms = list(_VAR_RE.finditer(text))
    for k, m in enumerate(ms):
        name = m.group(1)
        if only is not None and name not in only:
            continue
        end = ms[k + 1].start() if k + 1 < len(ms) else len(text)
        out[name] = parse_tla_value(text[m.end():end])
    return out


# ----------------------------------------------------------------------------------------
class TlcResult:
    def __init__(self, rc, out, wall):
        self.rc, self.out, self.wall = rc, out, wall
        m = re.findall(r"(\d+) states generated, (\d+) distinct states found, (\d+) states left on queue", out)
        self.generated = int(m[-1][0]) if m else 0
        self.distinct = int(m[-1][1]) if m else 0
        m = re.search(r"The depth of the complete state graph search is (\d+)", out)
        self.depth = int(m.group(1)) if m else 0
        self.ok = rc == 0 and ("No error has been found" in out or "Finished in" in out and "Error:" not in out)
        self.violated = None
        m = re.search(r"Error: Invariant (\S+) is violated", out)
        if m:
            self.violated = m.group(1)
        elif re.search(r"Error: Action property (\S+)", out):
            self.violated = re.search(r"Error: Action property (\S+)", out).group(1)
        elif "Temporal properties were violated" in out:
            self.violated = "temporal"
        elif "Error: Deadlock reached" in out:
            self.violated = "deadlock"
        elif re.search(r"Assumption .* is false", out):
            self.violated = "assume"

    def tail(self, n=30):
        return "\n".join(self.out.splitlines()[-n:])


class Graph:
    def __init__(self):
        self.nodes = {}   # id -> label text (unescaped)
        self.edges = collections.defaultdict(list)  # u -> [(label, v)]
        self.init = []

    @staticmethod
    def unescape(s):
        return s.replace("\\n", "\n").replace('\\"', '"').replace("\\\\", "\\")


def parse_dot(path):
    g = Graph()
    node_re = re.compile(r'^(-?\d+) \[label="((?:[^"\\]|\\.)*)"(.*)$')
    edge_re = re.compile(r'^(-?\d+) -> (-?\d+) \[label="((?:[^"\\]|\\.)*)"')
    with open(path) as f:
        for line in f:
            m = edge_re.match(line)
            if m:
                g.edges[m.group(1)].append((Graph.unescape(m.group(3)), m.group(2)))
                continue
            m = node_re.match(line)
            if m:
                g.nodes[m.group(1)] = Graph.unescape(m.group(2))
                if "style = filled" in m.group(3):
                    g.init.append(m.group(1))
    return g


# ----------------------------------------------------------------------------------------
class Ctx:
    def __init__(self, prop, tier="quick", seed=None, level="model_checking"):
        self.prop = prop
        self.tier = tier
        self.seed = int(seed if seed is not None else os.environ.get("VERIF_SEED", "1") or 1)
        self.rng = random.Random(self.seed)
        self.level = level
        self.t0 = time.time()
        self.run = os.path.join(VERIF, "build", "run-%s-%d" % (prop, os.getpid()))
        shutil.rmtree(self.run, ignore_errors=True)
        os.makedirs(self.run)
        self.specdir = os.path.join(self.run, "specs")
        os.makedirs(self.specdir)
        for root, _, files in os.walk(os.path.join(VERIF, "specs")):
            for fn in files:
                if fn.endswith((".tla", ".cfg")):
                    shutil.copy(os.path.join(root, fn), os.path.join(self.specdir, fn))
        self.cov = {
            "states": 0, "transitions": 0, "traces_validated_against_impl": 0, "samples": [],
            "evaluations": 0, "distinct_nontrivial": 0, "rule": "", "tlc_runs": [],
            "events_validated": 0, "behaviours_generated": 0, "negative_controls": [],
            "drift": 0, "known_findings": [],
        }
        self.assumptions = []
        self.violations = []
        self.known_printed = set()
        self.keep = bool(os.environ.get("VERIF_KEEP"))
        self._distinct = set()
        self._overlays = {}
        self._bins = {}
        self._nval = 0
        self.known = []
        kf = os.path.join(VERIF, "KNOWN_FINDINGS.jsonl")
        if os.path.exists(kf):
            for line in open(kf):
                line = line.strip()
                if line and not line.startswith("#"):
                    self.known.append(json.loads(line))

    # ---------------------------------------------------------------- logging
    def log(self, *a):
        print("[%s %6.1fs]" % (self.prop, time.time() - self.t0), *a, flush=True)

    def quick(self):
        return self.tier != "thorough"

    def pick(self, quick, thorough):
        return quick if self.quick() else thorough

    # ---------------------------------------------------------------- TLC
    def _java(self, args, cwd, timeout, heap="6g", deque=False, stack=None):
        cmd = ["java", "-XX:+UseParallelGC", "-Xmx" + heap]
        if stack:
            cmd.append("-Xss" + stack)
        if deque:
            cmd.append("-Dtlc2.tool.queue.IStateQueue=StateDeque")
        cmd += ["-cp", JARS, "tlc2.TLC"] + args
        t0 = time.time()
        try:
            p = subprocess.run(cmd, cwd=cwd, stdout=subprocess.PIPE, stderr=subprocess.STDOUT,
                               timeout=timeout, text=True, errors="replace")
        except subprocess.TimeoutExpired as e:
            subprocess.run(["pkill", "-f", "metadir " + os.path.join(cwd, "md")], check=False)
            raise Inconclusive("TLC timeout after %ss: %s" % (timeout, " ".join(args)))
        return TlcResult(p.returncode, p.stdout, time.time() - t0)

    def tlc(self, module, cfg=None, workers=None, timeout=900, extra=(), cwd=None, heap="6g",
            deque=False, stack=None):
        cwd = cwd or self.specdir
        cfg = cfg or module + ".cfg"
        md = os.path.join(cwd, "md-%d-%d" % (os.getpid(), random.randrange(1 << 30)))
        if workers is None:
            workers = 4 if self.quick() else 8
        args = ["-workers", str(workers), "-metadir", md, "-config", cfg] + list(extra) + [module + ".tla"]
        try:
            return self._java(args, cwd, timeout, heap=heap, deque=deque, stack=stack)
        finally:
            shutil.rmtree(md, ignore_errors=True)

    def mc(self, module, cfg=None, **kw):
        """Exhaustive model check of a design-level configuration; must pass."""
        r = self.tlc(module, cfg, **kw)
        name = cfg or module + ".cfg"
        if not r.ok:
            raise Inconclusive("model check %s/%s did not pass (violated=%s rc=%d):\n%s" %
                               (module, name, r.violated, r.rc, r.tail()))
        self.cov["states"] += r.distinct
        self.cov["transitions"] += r.generated
        self.cov["tlc_runs"].append({"module": module, "cfg": name, "distinct": r.distinct,
                                     "generated": r.generated, "depth": r.depth, "wall_s": round(r.wall, 2)})
        self.log("MC %s/%s: %d distinct, %d generated, depth %d, %.1fs" %
                 (module, name, r.distinct, r.generated, r.depth, r.wall))
        return r

    def neg(self, module, cfg, expect=None, **kw):
        """Negative control: a mutated spec config must violate (non-vacuity)."""
        r = self.tlc(module, cfg, **kw)
        if r.violated is None or (expect and r.violated != expect):
            raise Inconclusive("negative control %s/%s did not trip %s (got %s rc=%d)\n%s" %
                               (module, cfg, expect, r.violated, r.rc, r.tail()))
        self.cov["negative_controls"].append({"module": module, "cfg": cfg, "tripped": r.violated})
        self.log("NEG %s/%s: tripped %s as expected (%.1fs)" % (module, cfg, r.violated, r.wall))
        return r

    def dump_graph(self, module, cfg, **kw):
        base = os.path.join(self.specdir, "g-%s-%d" % (module, random.randrange(1 << 30)))
        r = self.tlc(module, cfg, extra=["-dump", "dot,actionlabels", base], **kw)
        if not r.ok:
            raise Inconclusive("graph dump %s/%s failed (violated=%s):\n%s" % (module, cfg, r.violated, r.tail()))
        g = parse_dot(base + ".dot")
        os.remove(base + ".dot")
        self.cov["states"] += r.distinct
        self.cov["transitions"] += r.generated
        self.cov["tlc_runs"].append({"module": module, "cfg": cfg, "distinct": r.distinct,
                                     "generated": r.generated, "depth": r.depth, "wall_s": round(r.wall, 2),
                                     "graph_nodes": len(g.nodes), "graph_edges": sum(len(v) for v in g.edges.values())})
        self.log("GRAPH %s/%s: %d nodes, %d edges (%.1fs)" %
                 (module, cfg, len(g.nodes), sum(len(v) for v in g.edges.values()), r.wall))
        return g

    def edge_cover(self, g, step_of, limit=None, max_len=None, mode="edges"):
        """Behaviours covering every edge of the graph: BFS path to u, then edge (u,a,v).

        step_of(state_text_of_v, action_label) -> JSON-able step.
        mode "edges": one behaviour per edge; mode "paths": maximal BFS-tree leaf paths plus
        the non-tree edges (fewer, longer behaviours).
        Returns list of behaviours (list of steps).  With limit, a seeded sample that always
        keeps the longest behaviours' prefix structure is taken.
        """
        if not g.init:
            raise Inconclusive("graph has no initial state")
        parent = {}
        order = []
        q = collections.deque()
        for i in g.init:
            parent[i] = None
            q.append(i)
        while q:
            u = q.popleft()
            order.append(u)
            for a, v in g.edges.get(u, ()):
                if v not in parent:
                    parent[v] = (u, a)
                    q.append(v)
        cache = {}

        def step(u, a, v):
            k = (u, a, v)
            if k not in cache:
                cache[k] = step_of(g.nodes[v], a)
            return cache[k]

        def path_to(u):
            p = []
            while parent[u] is not None:
                pu, a = parent[u]
                p.append(step(pu, a, u))
                u = pu
            p.reverse()
            return p

        behs = []
        seen = set()
        for u in order:
            base = None
            for a, v in g.edges.get(u, ()):
                if (u, a, v) in seen:
                    continue
                seen.add((u, a, v))
                if mode == "paths" and parent.get(v) == (u, a) and g.edges.get(v):
                    continue  # covered by a longer tree path
                if base is None:
                    base = path_to(u)
                b = base + [step(u, a, v)]
                if max_len is None or len(b) <= max_len:
                    behs.append(b)
        if limit is not None and len(behs) > limit:
            self.rng.shuffle(behs)
            behs = behs[:limit]
        self.cov["behaviours_generated"] += len(behs)
        return behs

    def simulate(self, module, cfg, num, depth, only=None, **kw):
        """Random behaviours via tlc -simulate; returns list of list-of-state-dicts."""
        base = os.path.join(self.specdir, "sim-%s-%d" % (module, random.randrange(1 << 30)))
        r = self.tlc(module, cfg, workers=1,
                     extra=["-simulate", "file=%s,num=%d" % (base, num), "-depth", str(depth),
                            "-seed", str(self.seed), "-deadlock"], **kw)
        if r.rc != 0 and r.violated:
            raise Inconclusive("simulation %s/%s violated %s:\n%s" % (module, cfg, r.violated, r.tail()))
        out = []
        d = os.path.dirname(base)
        pref = os.path.basename(base)
        for fn in sorted(os.listdir(d)):
            if fn.startswith(pref):
                txt = open(os.path.join(d, fn)).read()
                os.remove(os.path.join(d, fn))
                states = re.split(r"^STATE_\d+ ==\s*$", txt, flags=re.M)[1:]
                out.append([parse_tla_state(s, only) for s in states])
        self.cov["behaviours_generated"] += len(out)
        self.log("SIM %s/%s: %d behaviours depth<=%d (%.1fs)" % (module, cfg, len(out), depth, r.wall))
        return out

    # ---------------------------------------------------------------- Go
    def overlay(self, only=None):
        """Write the build overlay.  `only` (regex) restricts the in-package driver files that are
        overlaid to those whose base name matches, so that drivers of different properties living in
        the same real package do not depend on each other."""
        key = only or ""
        if key in self._overlays:
            return self._overlays[key]
        rep = {}
        inpkg = os.path.join(VERIF, "harness", "inpkg")
        for root, _, files in os.walk(inpkg):
            rel = os.path.relpath(root, inpkg)
            for fn in files:
                if fn.endswith(".go") and (only is None or re.search(only, fn)):
                    rep[os.path.join(REPO, rel, fn)] = os.path.join(root, fn)
        for sub, dst in (("virt", "internal/zzverif"), ("vlib", "internal/zzverif/vlib")):
            base = os.path.join(VERIF, "harness", sub)
            for root, _, files in os.walk(base):
                rel = os.path.relpath(root, base)
                for fn in files:
                    if fn.endswith(".go"):
                        rep[os.path.normpath(os.path.join(REPO, dst, rel, fn))] = os.path.join(root, fn)
        path = os.path.join(self.run, "overlay-%d.json" % len(self._overlays))
        json.dump({"Replace": rep}, open(path, "w"), indent=0)
        self._overlays[key] = path
        return path

    def go_build(self, pkg, name=None, tags="verif", race=False, timeout=900, only=None):
        """Compile the test binary of package `pkg` (path relative to the module root, e.g.
        'internal/idle' or 'internal/zzverif/c28') from REPO's working tree with the overlay."""
        name = name or pkg.strip("./").replace("/", "_")
        if name in self._bins:
            return self._bins[name]
        out = os.path.join(self.run, name + ".test")
        cmd = [VGO, "test", "-c", "-trimpath", "-vet=off", "-tags", tags, "-overlay", self.overlay(only), "-o", out]
        if race:
            cmd.append("-race")
        cmd.append("./" + pkg.strip("./"))
        t0 = time.time()
        try:
            p = subprocess.run(cmd, cwd=REPO, stdout=subprocess.PIPE, stderr=subprocess.STDOUT, text=True, timeout=timeout)
        except subprocess.TimeoutExpired:
            raise Inconclusive("go build timeout for " + pkg)
        if p.returncode != 0 or not os.path.exists(out):
            raise Inconclusive("harness build failed for %s against %s:\n%s" % (pkg, REPO, p.stdout[-4000:]))
        self.log("BUILD %s (%.1fs)" % (pkg, time.time() - t0))
        self._bins[name] = out
        return out

    def go_run(self, binary, test, env=None, timeout=600, args=()):
        """Run one driver (test function regexp) of a compiled test binary. Returns (rc, output)."""
        e = dict(os.environ)
        e["VERIF_SEED"] = str(self.seed)
        e["VERIF_TIER"] = self.tier
        e["VERIF_RUN"] = self.run
        for k, v in (env or {}).items():
            e[k] = str(v)
        cmd = [binary, "-test.run", "^" + test + "$", "-test.v", "-test.count=1", "-test.timeout", "%ds" % timeout] + list(args)
        t0 = time.time()
        try:
            p = subprocess.run(cmd, cwd=self.run, env=e, stdout=subprocess.PIPE, stderr=subprocess.STDOUT,
                               text=True, errors="replace", timeout=timeout + 30)
        except subprocess.TimeoutExpired:
            raise Inconclusive("driver %s timed out" % test)
        self.log("DRIVER %s rc=%d (%.1fs)" % (test, p.returncode, time.time() - t0))
        return p.returncode, p.stdout

    def driver(self, binary, test, env=None, timeout=600):
        """Run a driver that must succeed as a program (its verdicts are in its trace, not rc)."""
        rc, out = self.go_run(binary, test, env, timeout)
        if rc != 0 or "--- PASS" not in out and "PASS" not in out:
            raise Inconclusive("driver %s failed (rc=%d):\n%s" % (test, rc, out[-6000:]))
        return out

    # ---------------------------------------------------------------- trace validation
    def validate(self, module, cfg, trace_path, timeout=900, count_resets=True, deque=False, heap="6g", stack=None):
        """Validate an ndjson trace against a monitor spec (uses TraceIO registers).

        Returns dict(accepted, clause, line, consumed, length)."""
        self._nval += 1
        d = os.path.join(self.run, "val-%d" % self._nval)
        os.makedirs(d)
        for fn in os.listdir(self.specdir):
            if fn.endswith((".tla", ".cfg")):
                os.symlink(os.path.join(self.specdir, fn), os.path.join(d, fn))
        dst = os.path.join(d, "trace.ndjson")
        if os.path.abspath(trace_path) != dst:
            shutil.copy(trace_path, dst)
        nlines = 0
        nres = 0
        with open(dst) as f:
            for line in f:
                nlines += 1
                if '"ev":"reset"' in line.replace(" ", ""):
                    nres += 1
        if nlines == 0:
            raise Inconclusive("empty trace " + trace_path)
        r = self.tlc(module, cfg, workers=1, timeout=timeout, cwd=d, deque=deque, heap=heap, stack=stack)
        try:
            open(os.path.join(d, "tlc.out"), "w").write(r.out)
        except OSError:
            pass
        flat = re.sub(r"\s+", " ", r.out)
        m = re.search(r'<< ?"VERIF_VERDICT", "([^"]*)", (\d+), (\d+), (\d+), "([^"]*)", (\d+), (\d+) ?>>', flat)
        if not m:
            raise Inconclusive("trace validation %s/%s produced no verdict (rc=%d):\n%s" % (module, cfg, r.rc, r.tail(40)))
        clause, line, consumed, length = m.group(1), int(m.group(2)), int(m.group(3)), int(m.group(4))
        if r.rc != 0 and not r.violated and clause == "none":
            raise Inconclusive("trace validation %s/%s failed rc=%d:\n%s" % (module, cfg, r.rc, r.tail(40)))
        res = {"accepted": clause == "none" and consumed == length, "clause": clause, "line": line,
               "consumed": consumed, "length": length, "dir": d, "wall": r.wall,
               "drift": m.group(5), "drift_line": int(m.group(6)), "drift_count": int(m.group(7))}
        if res["drift_count"]:
            print("DRIFT property=%s %s at trace line %d (%d lines drift)" % (self.prop, res["drift"], res["drift_line"], res["drift_count"]), flush=True)
            self.cov["drift"] += res["drift_count"]
        if clause == "none" and consumed != length:
            # the monitor got stuck: an event it does not know -> machinery problem, never a verdict
            bad = open(dst).read().splitlines()[consumed] if consumed < nlines else "?"
            raise Inconclusive("monitor %s consumed %d of %d lines; next line: %s" % (module, consumed, length, bad[:300]))
        self.cov["events_validated"] += consumed
        if count_resets:
            self.cov["traces_validated_against_impl"] += max(nres, 1)
        self.log("VALIDATE %s/%s: %d lines, %d traces, verdict=%s@%d (%.1fs)" %
                 (module, cfg, length, max(nres, 1), clause, line, r.wall))
        return res

    @staticmethod
    def trace_segment(trace_path, line):
        """Return (index, lines) of the reset-delimited segment containing 1-based `line`."""
        seg, idx, cur = [], -1, []
        with open(trace_path) as f:
            n = 0
            k = -1
            for ln in f:
                n += 1
                if '"ev":"reset"' in ln.replace(" ", ""):
                    if n > line and cur is not None and k >= 0 and seg:
                        break
                    k += 1
                    cur = []
                    if n <= line:
                        seg = cur
                        idx = k
                    else:
                        break
                cur.append(ln.rstrip("\n"))
        return idx, seg

    # ---------------------------------------------------------------- verdicts
    def sample(self, s):
        if len(self.cov["samples"]) < 5:
            self.cov["samples"].append(s)

    def count(self, key_obj=None, nontrivial=True, n=1):
        """Account for one explored case; distinctness is measured by its JSON key."""
        self.cov["evaluations"] += n
        if nontrivial and key_obj is not None:
            k = key_obj if isinstance(key_obj, str) else json.dumps(key_obj, sort_keys=True)
            if k not in self._distinct:
                self._distinct.add(k)

    def finding(self, signature, what, artefact=None):
        """Report a property violation observed on real code.  If KNOWN_FINDINGS.jsonl lists
        the signature as known, print KNOWN-FINDING; otherwise it is a VIOLATION."""
        for k in self.known:
            if k.get("property") == self.prop and k.get("status") == "known" and k.get("signature") == signature:
                if signature not in self.known_printed:
                    self.known_printed.add(signature)
                    print("KNOWN-FINDING: property=%s %s" % (self.prop, k.get("what", what)), flush=True)
                    self.cov["known_findings"].append(signature)
                return False
        self.violation(what, artefact, signature)
        return True

    def violation(self, what, artefact=None, signature=None):
        d = os.path.join(VERIF, "replays", self.prop)
        os.makedirs(d, exist_ok=True)
        path = os.path.join(d, "v%d-seed%d-%d.json" % (len(self.violations) + 1, self.seed, os.getpid()))
        json.dump({"property": self.prop, "what": what, "signature": signature, "tier": self.tier,
                   "seed": self.seed, "artefact": artefact}, open(path, "w"), indent=1, default=str)
        self.violations.append({"what": what, "replay": path})
        if len(self.violations) <= 5:
            print("VIOLATION property=%s replay=%s" % (self.prop, path), flush=True)
            print("  " + what[:600], flush=True)

    def finish(self, explanation=""):
        c = self.cov
        c["distinct_nontrivial"] = len(self._distinct)
        if not c["samples"]:
            # safety net: a check that forgot to record samples still shows what it ran
            c["samples"] = [{"note": "no case sample recorded by this check", "tlc_runs": c["tlc_runs"][:2],
                             "negative_controls": c["negative_controls"][:2]}]
        if explanation:
            c["explanation"] = explanation
        ev = {"property_id": self.prop, "tier": "thorough" if self.tier == "thorough" else "quick",
              "seed": self.seed, "level": self.level, "coverage": c, "assumptions": self.assumptions,
              "wall_s": round(time.time() - self.t0, 2), "violations": len(self.violations)}
        # evidence/<id>.json describes runs against /repo itself; runs against another checkout
        # (VERIF_REPO: mutants, seeded defects) are recorded under build/ instead
        evdir = os.path.join(VERIF, "evidence") if REPO == "/repo" else os.path.join(VERIF, "build", "evidence-other")
        os.makedirs(evdir, exist_ok=True)
        tmp = os.path.join(evdir, ".%s.%d.tmp" % (self.prop, os.getpid()))
        json.dump(ev, open(tmp, "w"), indent=1, default=str)
        os.replace(tmp, os.path.join(evdir, self.prop + ".json"))
        if not self.keep:
            shutil.rmtree(self.run, ignore_errors=True)
        self.log("done: states=%d transitions=%d traces=%d events=%d evaluations=%d distinct=%d violations=%d wall=%.1fs" % (
            c["states"], c["transitions"], c["traces_validated_against_impl"], c["events_validated"],
            c["evaluations"], c["distinct_nontrivial"], len(self.violations), time.time() - self.t0))
        return 1 if self.violations else 0

    def cleanup(self):
        if not self.keep:
            shutil.rmtree(self.run, ignore_errors=True)


def write_ndjson(path, rows):
    with open(path, "w") as f:
        for r in rows:
            f.write(json.dumps(r, separators=(",", ":")) + "\n")


def read_ndjson(path):
    out = []
    with open(path) as f:
        for line in f:
            line = line.strip()
            if line:
                out.append(json.loads(line))
    return out


def split_traces(rows):
    """Split a list of events at {"ev":"reset"} markers -> list of (start_line_1based, events)."""
    out = []
    cur = None
    for i, r in enumerate(rows):
        if r.get("ev") == "reset":
            cur = (i + 1, [r])
            out.append(cur)
        elif cur is not None:
            cur[1].append(r)
        else:
            cur = (i + 1, [r])
            out.append(cur)
    return out
