---- MODULE Idle ----
(***************************************************************************)
(* Level-I model of grpc-go's internal/idle.Manager (C29).                 *)
(*                                                                         *)
(* One action per atomic step of the code; the action NAME is the verif    *)
(* hook point at which the goroutine waits before executing that step      *)
(* (internal/idle/idle.go, verifhook.At("idle.<name>", m)), so a TLC       *)
(* behaviour is a schedule that the gate scheduler forces onto real        *)
(* goroutines.  Threads: RPC threads (Calls calls each: OnCallBegin ;      *)
(* OnCallEnd), connector threads (ClientConn.Connect -> ExitIdleMode),     *)
(* one closer (Close), and the idle-timer callback (handleIdleTimeout),    *)
(* which the environment fires whenever a timer is armed.                  *)
(*                                                                         *)
(* Level A (ghost variables ccIdle, inCall, enters, exits, closing) states *)
(* the property in terms of the ClientConn callbacks and RPC begin/end.    *)
(***************************************************************************)
EXTENDS Integers, Sequences, FiniteSets, TLC
CONSTANTS Rpcs, Conns, Closers, Calls, MaxTimer, BIG, Mutant
NEG == -BIG      \* the -math.MaxInt32 sentinel, scaled

VARIABLES count,        \* activeCallsCount
          activity,     \* activeSinceLastTimerCheck
          actuallyIdle, mu, armed, closed,
          pc,           \* per thread (RPCs, connectors, closer): hook point it waits at
          left,         \* per RPC thread: calls still to make
          tpc, tfires,  \* timer callback goroutine
          ccIdle, inCall, enters, exits, closing   \* Level-A ghosts
vars == <<count, activity, actuallyIdle, mu, armed, closed, pc, left, tpc, tfires,
          ccIdle, inCall, enters, exits, closing>>

Thr == Rpcs \cup Conns \cup Closers

Init == /\ count = NEG /\ activity = 0 /\ actuallyIdle = TRUE /\ mu = "free" /\ armed = FALSE
        /\ closed = FALSE
        /\ pc = [t \in Thr |-> IF t \in Rpcs THEN "start" ELSE IF t \in Conns THEN "k_start" ELSE "c_start"]
        /\ left = [r \in Rpcs |-> Calls]
        /\ tpc = "off" /\ tfires = 0
        /\ ccIdle = TRUE /\ inCall = {} /\ enters = 0 /\ exits = 0 /\ closing = FALSE

Goto(t, p) == pc' = [pc EXCEPT ![t] = p]
GH == <<ccIdle, inCall, enters, exits, closing>>

\* ------------------------------------------------------------------ RPC thread
start(r) == /\ r \in Rpcs /\ pc[r] = "start" /\ Goto(r, "b_chk")
            /\ UNCHANGED <<count, activity, actuallyIdle, mu, armed, closed, left, tpc, tfires, GH>>
\* OnCallBegin: if m.isClosed() return
b_chk(r) == /\ pc[r] = "b_chk"
            /\ IF closed THEN /\ Goto(r, "incall")
                              /\ inCall' = IF closing THEN inCall ELSE inCall \cup {r}
                         ELSE /\ Goto(r, "b_add") /\ UNCHANGED inCall
            /\ UNCHANGED <<count, activity, actuallyIdle, mu, armed, closed, left, tpc, tfires, ccIdle, enters, exits, closing>>
\* atomic.AddInt32(&activeCallsCount, 1) > 0 ?
b_add(r) == /\ pc[r] = "b_add" /\ count' = count + 1
            /\ Goto(r, IF count + 1 > 0 THEN "b_setact" ELSE "x_lock")
            /\ UNCHANGED <<activity, actuallyIdle, mu, armed, closed, left, tpc, tfires, GH>>
\* ExitIdleMode: idleMu.Lock()
x_lock(t) == /\ pc[t] = "x_lock" /\ mu = "free" /\ mu' = t /\ Goto(t, "x_body")
             /\ UNCHANGED <<count, activity, actuallyIdle, armed, closed, left, tpc, tfires, GH>>
\* ExitIdleMode body under idleMu (the deferred Unlock is part of the step)
x_body(t) == /\ pc[t] = "x_body" /\ mu = t
             /\ IF closed \/ ~actuallyIdle
                  THEN UNCHANGED <<ccIdle, exits, count, actuallyIdle, armed>>
                  ELSE /\ ccIdle' = FALSE /\ exits' = exits + 1
                       /\ count' = count + BIG /\ actuallyIdle' = FALSE
                       /\ armed' = TRUE           \* resetIdleTimerLocked: not closed, not idle
             /\ mu' = "free"
             /\ Goto(t, IF t \in Rpcs THEN "b_setact" ELSE "end")
             /\ UNCHANGED <<activity, closed, left, tpc, tfires, inCall, enters, closing>>
\* atomic.StoreInt32(&activeSinceLastTimerCheck, 1); OnCallBegin returns
b_setact(r) == /\ pc[r] = "b_setact" /\ activity' = 1 /\ Goto(r, "incall")
               /\ inCall' = IF closing THEN inCall ELSE inCall \cup {r}
               /\ UNCHANGED <<count, actuallyIdle, mu, armed, closed, left, tpc, tfires, ccIdle, enters, exits, closing>>
\* the RPC ends: the application calls OnCallEnd
incall(r) == /\ pc[r] = "incall" /\ Goto(r, "e_chk") /\ inCall' = inCall \ {r}
             /\ UNCHANGED <<count, activity, actuallyIdle, mu, armed, closed, left, tpc, tfires, ccIdle, enters, exits, closing>>
Again(r) == /\ left' = [left EXCEPT ![r] = left[r] - 1]
            /\ Goto(r, IF left[r] > 1 THEN "start" ELSE "end")
e_chk(r) == /\ pc[r] = "e_chk"
            /\ IF closed THEN Again(r) ELSE Goto(r, "e_dec") /\ UNCHANGED left
            /\ UNCHANGED <<count, activity, actuallyIdle, mu, armed, closed, tpc, tfires, GH>>
e_dec(r) == /\ pc[r] = "e_dec" /\ count' = count - 1 /\ Again(r)
            /\ UNCHANGED <<activity, actuallyIdle, mu, armed, closed, tpc, tfires, GH>>

\* ------------------------------------------------------------------ connector (Connect -> ExitIdleMode)
k_start(k) == /\ k \in Conns /\ pc[k] = "k_start" /\ Goto(k, "x_lock")
              /\ UNCHANGED <<count, activity, actuallyIdle, mu, armed, closed, left, tpc, tfires, GH>>

\* ------------------------------------------------------------------ closer (Close)
c_start(c) == /\ c \in Closers /\ pc[c] = "c_start" /\ Goto(c, "c_store") /\ closing' = TRUE
              /\ UNCHANGED <<count, activity, actuallyIdle, mu, armed, closed, left, tpc, tfires, ccIdle, inCall, enters, exits>>
c_store(c) == /\ pc[c] = "c_store" /\ closed' = TRUE /\ Goto(c, "c_lock")
              /\ UNCHANGED <<count, activity, actuallyIdle, mu, armed, left, tpc, tfires, GH>>
\* lock; stop timer; unlock  (no hook inside: one step)
c_lock(c) == /\ pc[c] = "c_lock" /\ mu = "free" /\ armed' = FALSE /\ Goto(c, "end")
             /\ UNCHANGED <<count, activity, actuallyIdle, mu, closed, left, tpc, tfires, GH>>

\* ------------------------------------------------------------------ timer callback: handleIdleTimeout
TU == UNCHANGED <<pc, left, inCall, closing, closed>>
fire == /\ tpc = "off" /\ armed /\ tfires < MaxTimer /\ tfires' = tfires + 1 /\ armed' = FALSE
        /\ tpc' = "t_closed" /\ TU
        /\ UNCHANGED <<count, activity, actuallyIdle, mu, ccIdle, enters, exits>>
t_closed == /\ tpc = "t_closed" /\ tpc' = (IF closed THEN "off" ELSE "t_chk") /\ TU
            /\ UNCHANGED <<count, activity, actuallyIdle, mu, armed, tfires, ccIdle, enters, exits>>
t_chk == /\ tpc = "t_chk" /\ tpc' = (IF count > 0 THEN "r_lock" ELSE "t_act") /\ TU
         /\ UNCHANGED <<count, activity, actuallyIdle, mu, armed, tfires, ccIdle, enters, exits>>
t_act == /\ tpc = "t_act" /\ TU
         /\ IF activity = 1 THEN activity' = 0 /\ tpc' = "r_lock" ELSE activity' = activity /\ tpc' = "t_cas"
         /\ UNCHANGED <<count, actuallyIdle, mu, armed, tfires, ccIdle, enters, exits>>
t_cas == /\ tpc = "t_cas" /\ TU
         /\ IF count = 0 THEN count' = NEG /\ tpc' = "t_lock" ELSE count' = count /\ tpc' = "r_lock"
         /\ UNCHANGED <<activity, actuallyIdle, mu, armed, tfires, ccIdle, enters, exits>>
t_lock == /\ tpc = "t_lock" /\ mu = "free" /\ mu' = "timer" /\ tpc' = "t_enter" /\ TU
          /\ UNCHANGED <<count, activity, actuallyIdle, armed, tfires, ccIdle, enters, exits>>
\* Mutant 1: the re-check of the count under the lock is missing
t_enter == /\ tpc = "t_enter" /\ mu = "timer" /\ TU
           /\ IF (Mutant # 1 /\ count # NEG) \/ activity = 1
                THEN /\ count' = count + BIG /\ tpc' = "r_lock" /\ UNCHANGED <<ccIdle, enters, actuallyIdle>>
                ELSE /\ ccIdle' = TRUE /\ enters' = enters + 1 /\ actuallyIdle' = TRUE
                     /\ count' = count /\ tpc' = "off"
           /\ mu' = "free"
           /\ UNCHANGED <<activity, armed, tfires, exits>>
r_lock == /\ tpc = "r_lock" /\ mu = "free" /\ mu' = "timer" /\ tpc' = "r_body" /\ TU
          /\ UNCHANGED <<count, activity, actuallyIdle, armed, tfires, ccIdle, enters, exits>>
r_body == /\ tpc = "r_body" /\ mu = "timer" /\ mu' = "free" /\ tpc' = "off" /\ TU
          /\ armed' = (IF closed \/ actuallyIdle THEN armed ELSE TRUE)
          /\ UNCHANGED <<count, activity, actuallyIdle, tfires, ccIdle, enters, exits>>

Next == \/ \E r \in Rpcs : start(r) \/ b_chk(r) \/ b_add(r) \/ b_setact(r) \/ incall(r) \/ e_chk(r) \/ e_dec(r)
        \/ \E t \in Rpcs \cup Conns : x_lock(t) \/ x_body(t)
        \/ \E k \in Conns : k_start(k)
        \/ \E c \in Closers : c_start(c) \/ c_store(c) \/ c_lock(c)
        \/ fire \/ t_closed \/ t_chk \/ t_act \/ t_cas \/ t_lock \/ t_enter \/ r_lock \/ r_body
Spec == Init /\ [][Next]_vars

\* ------------------------------------------------------------------ properties (Level A)
I_NeverIdleUnderRPC == inCall # {} => ~ccIdle
I_Alternate == exits - enters \in {0, 1}
\* OnCallBegin returned (thread is "incall" and counted) only with the channel out of idle
I_BeginLeavesIdle == \A r \in Rpcs : r \in inCall => ~ccIdle
\* Level I sanity
I_Types == /\ count \in (NEG - 8)..(BIG + 8) /\ mu \in {"free", "timer"} \cup Thr
I_LockOwner == /\ (\E t \in Thr : pc[t] = "x_body") => mu \in Thr
\* bookkeeping invariant that explains why the sentinel works
I_Sentinel == (actuallyIdle /\ mu = "free") => count < 0
====
