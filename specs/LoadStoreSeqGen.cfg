CONSTANTS
Workers = {1}
OpsPerWorker = 5
MaxSnaps = 5
Mutant = 0
INIT Init
NEXT Next
INVARIANT I_Totals
INVARIANT I_InProgress
INVARIANT I_Conservation
INVARIANT I_InProgCounter
CHECK_DEADLOCK FALSE
