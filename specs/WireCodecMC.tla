---- MODULE WireCodecMC ----
(* Stage (a) for C07/C08: TLC enumerates a bounded input domain and checks that the
   reference codec itself satisfies the property statement (so that "code = reference"
   implies the property), and that the reference decoder is total. *)
EXTENDS WireCodec, TLC
CONSTANTS MaxSmall, MsgLen, Mutant
VARIABLES kind, x
vars == <<kind, x>>

Zeros(j) == [i \in 1..j |-> 0]
Nines(j) == [i \in 1..j |-> 9]
Tails == UNION {{Zeros(j), Nines(j)} \cup (IF j > 0 THEN {Zeros(j-1) \o <<1>>, Nines(j-1) \o <<8>>} ELSE {}) : j \in 0..11}
Heads == {OfNat(n) : n \in 1..MaxSmall} \cup {<<9,9,9,9,9,9,9,9>>, <<1,0,0,0,0,0,0,0,0>>, <<5,9,9,9,9,9,9,9,9>>, <<6>>, <<3,6>>, <<3,5,9,9,9,9,9,9,9,9>>}
DomT == {d \in {Strip(h \o t) : h \in Heads, t \in Tails} : Cmp(d, MaxInt64) <= 0 /\ d # <<0>>}
          \cup {MaxInt64, DropK(MaxInt64, 0)}
Alphabet == {97, 37, 52, 49, 32, 126, 127, 31, 195, 169, 255, 128, 239, 191, 189}
DomM == UNION {[1..n -> Alphabet] : n \in 0..MsgLen}

Init == \/ (kind = "timeout" /\ x \in DomT)
        \/ (kind = "msg" /\ x \in DomM)
Next == UNCHANGED vars

\* Mutant 1 (negative control): an encoder that floors instead of ceiling
EncT(d) == IF Mutant = 1
             THEN LET u == PickUnit(d) q == DivSmall(DropK(d, Units[u].k), Units[u].m)[1]
                  IN [i \in 1..Len(q) |-> q[i] + 48] \o <<Units[u].c>>
             ELSE EncTimeout(d)
I_TimeoutRef == kind = "timeout" => TimeoutProp(x, EncT(x))
I_MsgRef == kind = "msg" => /\ MsgProp(x, EncMsg(x), DecMsg(EncMsg(x)))
                            /\ (ValidUTF8(x) => DecMsg(EncMsg(x)) = x)
                            /\ Len(DecMsg(x)) <= Len(x)          \* decoder total on arbitrary values
====
