---- MODULE IdleTrace ----
(***************************************************************************)
(* Level-A monitor for C29 over traces recorded from the real              *)
(* idle.Manager.  Total on events; verdict through TraceIO registers.      *)
(* Events: cc_enter / cc_exit (ClientConn callbacks, logged inside the     *)
(* callback), begin_ret (after OnCallBegin returned), end_call (before     *)
(* OnCallEnd is called), close_start (before Close is called).             *)
(***************************************************************************)
EXTENDS TraceIO, FiniteSets
VARIABLES l, ccIdle, inCall, enters, exits, closing
vars == <<l, ccIdle, inCall, enters, exits, closing>>

Init == /\ l = 1 /\ ccIdle = TRUE /\ inCall = {} /\ enters = 0 /\ exits = 0 /\ closing = FALSE
        /\ InitRegs
Ev == Trace[l]

Reset == /\ Ev.ev = "reset"
         /\ ccIdle' = TRUE /\ inCall' = {} /\ enters' = 0 /\ exits' = 0 /\ closing' = FALSE
CcExit == /\ Ev.ev = "cc_exit" /\ ccIdle' = FALSE /\ exits' = exits + 1
          /\ Mark(exits + 1 - enters \notin {0, 1}, "I_Alternate", l)
          /\ UNCHANGED <<enters, inCall, closing>>
CcEnter == /\ Ev.ev = "cc_enter" /\ ccIdle' = TRUE /\ enters' = enters + 1
           /\ Mark(inCall # {}, "I_NeverIdleUnderRPC", l)
           /\ Mark(exits - (enters + 1) \notin {0, 1}, "I_Alternate", l)
           /\ UNCHANGED <<exits, inCall, closing>>
BeginRet == /\ Ev.ev = "begin_ret"
            /\ inCall' = IF closing THEN inCall ELSE inCall \cup {Ev.r}
            /\ Mark(~closing /\ ccIdle, "I_BeginLeavesIdle", l)
            /\ UNCHANGED <<ccIdle, enters, exits, closing>>
EndCall == /\ Ev.ev = "end_call" /\ inCall' = inCall \ {Ev.r}
           /\ UNCHANGED <<ccIdle, enters, exits, closing>>
CloseStart == /\ Ev.ev = "close_start" /\ closing' = TRUE
              /\ UNCHANGED <<ccIdle, inCall, enters, exits>>
Other == /\ Ev.ev \in {"at", "quiescent", "stuck"}
         /\ UNCHANGED <<ccIdle, inCall, enters, exits, closing>>

Next == /\ l <= TLen /\ l' = l + 1 /\ Consumed(l)
        /\ (Reset \/ CcExit \/ CcEnter \/ BeginRet \/ EndCall \/ CloseStart \/ Other)
====
