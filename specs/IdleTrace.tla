---- MODULE IdleTrace ----
(***************************************************************************)
(* Level-A monitor for C29 over traces recorded from the real              *)
(* idle.Manager.  Total on events; verdict through TraceIO registers.      *)
(* Events: cc_enter / cc_exit (ClientConn callbacks, logged inside the     *)
(* callback), begin_ret (after OnCallBegin returned), end_call (before     *)
(* OnCallEnd is called), close_start (before Close is called).             *)
(***************************************************************************)
EXTENDS TraceIO, FiniteSets
VARIABLES l, ccIdle, inCall, enters, exits, closing,
          inCb      \* "none" | "enter" | "exit": a ClientConn callback is in progress
vars == <<l, ccIdle, inCall, enters, exits, closing, inCb>>

Init == /\ l = 1 /\ ccIdle = TRUE /\ inCall = {} /\ enters = 0 /\ exits = 0 /\ closing = FALSE
        /\ inCb = "none" /\ InitRegs
Ev == Trace[l]

Reset == /\ Ev.ev = "reset"
         /\ ccIdle' = TRUE /\ inCall' = {} /\ enters' = 0 /\ exits' = 0 /\ closing' = FALSE
         /\ inCb' = "none"
\* cc_exit / cc_enter are logged when the callback BEGINS, cc_exit_end / cc_enter_end when it
\* returns.  The channel has left idle mode when ExitIdleMode has returned; it is (entering) idle
\* from the moment EnterIdleMode begins.  A callback that begins while another one is still in
\* progress breaks the strict alternation of the two transitions.
CcExit == /\ Ev.ev = "cc_exit" /\ exits' = exits + 1 /\ inCb' = "exit"
          /\ Mark(exits + 1 - enters \notin {0, 1}, "I_Alternate", l)
          /\ Mark(inCb # "none", "I_Alternate_overlap", l)
          /\ UNCHANGED <<ccIdle, enters, inCall, closing>>
CcExitEnd == /\ Ev.ev = "cc_exit_end" /\ ccIdle' = FALSE /\ inCb' = "none"
             /\ UNCHANGED <<enters, exits, inCall, closing>>
CcEnter == /\ Ev.ev = "cc_enter" /\ ccIdle' = TRUE /\ enters' = enters + 1 /\ inCb' = "enter"
           /\ Mark(inCall # {}, "I_NeverIdleUnderRPC", l)
           /\ Mark(exits - (enters + 1) \notin {0, 1}, "I_Alternate", l)
           /\ Mark(inCb # "none", "I_Alternate_overlap", l)
           /\ UNCHANGED <<exits, inCall, closing>>
CcEnterEnd == /\ Ev.ev = "cc_enter_end" /\ inCb' = "none"
              /\ UNCHANGED <<ccIdle, enters, exits, inCall, closing>>
BeginRet == /\ Ev.ev = "begin_ret"
            /\ inCall' = IF closing THEN inCall ELSE inCall \cup {Ev.r}
            /\ Mark(~closing /\ ccIdle, "I_BeginLeavesIdle", l)
            /\ UNCHANGED <<ccIdle, enters, exits, closing, inCb>>
EndCall == /\ Ev.ev = "end_call" /\ inCall' = inCall \ {Ev.r}
           /\ UNCHANGED <<ccIdle, enters, exits, closing, inCb>>
CloseStart == /\ Ev.ev = "close_start" /\ closing' = TRUE
              /\ UNCHANGED <<ccIdle, inCall, enters, exits, inCb>>
Other == /\ Ev.ev \in {"at", "quiescent", "stuck"}
         /\ UNCHANGED <<ccIdle, inCall, enters, exits, closing, inCb>>

Next == /\ l <= TLen /\ l' = l + 1 /\ Consumed(l)
        /\ (Reset \/ CcExit \/ CcExitEnd \/ CcEnter \/ CcEnterEnd \/ BeginRet \/ EndCall \/ CloseStart \/ Other)
====
