CONSTANTS
N = 5
W = {1, 2, 3, 7, 100}
Bounds = {1, 2, 5, 8, 64}
WalkLen = 4
Mutant = 0
INIT Init
NEXT Next
INVARIANT I_Count
INVARIANT I_Walk
CHECK_DEADLOCK FALSE
