---- MODULE GracefulSwitch ----
(***************************************************************************)
(* Level I of internal/balancer/gracefulswitch (C33): Balancer.switchTo /  *)
(* swap / Close and balancerWrapper.UpdateState / NewSubConn / Close.      *)
(* Children are numbered in creation order; sub-connections in creation    *)
(* order.  The old child is closed by a goroutine started in swap(): that  *)
(* is the separate action AsyncClose.                                      *)
(* Observable projection (Level A): the last state forwarded to the        *)
(* channel with the child it came from, the set of closed children, the    *)
(* set of shut-down sub-connections.                                       *)
(***************************************************************************)
EXTENDS Integers, Sequences, FiniteSets, TLC
CONSTANTS MaxChildren, MaxSc, Mutant
States == {"CONNECTING", "READY", "IDLE", "TF"}
VARIABLES cur, pend, nextC, last, closing, closedC, scOwner, scShut,
          fwdChild, fwdState, nfwd, gsbClosed, viol,
          inflight   \* child that is inside cc.NewSubConn right now (0 = none)
gvars == <<cur, pend, nextC, last, closing, closedC, scOwner, scShut, fwdChild, fwdState, nfwd, gsbClosed, viol, inflight>>
Children == 1..MaxChildren
GInit == /\ cur = 0 /\ pend = 0 /\ nextC = 1 /\ last = [c \in Children |-> "CONNECTING"]
         /\ closing = <<>> /\ closedC = {} /\ scOwner = <<>> /\ scShut = {}
         /\ fwdChild = 0 /\ fwdState = "none" /\ nfwd = 0 /\ gsbClosed = FALSE /\ viol = "none" /\ inflight = 0
MarkV(c, n) == IF viol = "none" /\ c THEN n ELSE viol
\* bw.Close(): child closed, its subconns shut down
ShutOf(cs, shutSet) == shutSet \cup {i \in 1..Len(scOwner) : scOwner[i] \in cs}

SwitchTo ==
  /\ ~gsbClosed /\ nextC <= MaxChildren
  /\ LET c == nextC IN
     /\ nextC' = nextC + 1
     /\ IF cur = 0 THEN cur' = c /\ pend' = pend /\ closedC' = closedC /\ scShut' = scShut
        ELSE /\ pend' = c /\ cur' = cur
             /\ IF pend # 0 THEN closedC' = closedC \cup {pend} /\ scShut' = ShutOf({pend}, scShut)
                            ELSE closedC' = closedC /\ scShut' = scShut
  /\ UNCHANGED <<last, closing, scOwner, fwdChild, fwdState, nfwd, gsbClosed, viol, inflight>>
\* swap(): forward pending's last state, promote, close old asynchronously
DoSwap == /\ fwdChild' = pend /\ fwdState' = last'[pend] /\ nfwd' = nfwd + 1
          /\ closing' = Append(closing, cur) /\ cur' = pend /\ pend' = 0
\* a live child calls UpdateState(s)
ChildUpdate(c, s) ==
  /\ c # inflight /\ c # 0 /\ c < nextC /\ c \notin closedC /\ s \in States
  /\ last' = [last EXCEPT ![c] = s]
  /\ IF gsbClosed \/ (c # cur /\ c # pend)
       THEN UNCHANGED <<cur, pend, closing, fwdChild, fwdState, nfwd, viol>>
       ELSE IF c = cur
         THEN IF s # "READY" /\ pend # 0 /\ Mutant # 1
                THEN DoSwap /\ viol' = viol
                ELSE /\ fwdChild' = c /\ fwdState' = s /\ nfwd' = nfwd + 1 /\ UNCHANGED <<cur, pend, closing>>
                     /\ viol' = MarkV(pend # 0 /\ s # "READY", "I_OldLeftReadyButKept")
         ELSE \* c = pend
              IF s # "CONNECTING" \/ last[cur] # "READY"
                THEN DoSwap /\ viol' = viol
                ELSE UNCHANGED <<cur, pend, closing, fwdChild, fwdState, nfwd, viol>>
  /\ UNCHANGED <<nextC, closedC, scOwner, scShut, gsbClosed, inflight>>
\* the goroutine started by swap(): cur.Close() under currentMu.  The goroutines of successive
\* swaps serialise on currentMu (one child is closed at a time); WHICH waiting goroutine gets the
\* mutex next is up to the Go scheduler, so any child in the queue may be the next one closed.
InClosing(c) == \E i \in 1..Len(closing) : closing[i] = c
AsyncClose(c) ==
  /\ inflight = 0 /\ InClosing(c)
  /\ closing' = SelectSeq(closing, LAMBDA x : x # c) /\ closedC' = closedC \cup {c} /\ scShut' = ShutOf({c}, scShut)
  /\ UNCHANGED <<cur, pend, nextC, last, scOwner, fwdChild, fwdState, nfwd, gsbClosed, viol, inflight>>
\* a live child calls NewSubConn; rejected unless it is current or pending
NewSubConn(c) ==
  /\ inflight = 0 /\ c # 0 /\ c < nextC /\ c \notin closedC /\ Len(scOwner) < MaxSc
  /\ IF c = cur \/ c = pend
       THEN scOwner' = Append(scOwner, c)
       ELSE UNCHANGED scOwner
  /\ UNCHANGED <<cur, pend, nextC, last, closing, closedC, scShut, fwdChild, fwdState, nfwd, gsbClosed, viol, inflight>>
\* Balancer.Close(): closes current and pending and waits for the closing goroutines
Close ==
  /\ inflight = 0 /\ ~gsbClosed /\ gsbClosed' = TRUE
  /\ LET cs == ({cur, pend} \ {0}) \cup {closing[i] : i \in 1..Len(closing)} IN
       /\ closedC' = closedC \cup cs /\ scShut' = ShutOf(cs, scShut)
  /\ cur' = 0 /\ pend' = 0 /\ closing' = <<>>
  /\ UNCHANGED <<nextC, last, scOwner, fwdChild, fwdState, nfwd, viol, inflight>>
\* The same call split in two, so that the child can be superseded WHILE it is inside the
\* channel's NewSubConn: the wrapper re-checks afterwards and must shut the new subconn down.
NewSubConnBegin(c) ==
  /\ inflight = 0 /\ c # 0 /\ c < nextC /\ c \notin closedC /\ Len(scOwner) < MaxSc
  /\ (c = cur \/ c = pend) /\ ~gsbClosed
  /\ inflight' = c
  /\ UNCHANGED <<cur, pend, nextC, last, closing, closedC, scOwner, scShut, fwdChild, fwdState, nfwd, gsbClosed, viol>>
NewSubConnEnd ==
  /\ inflight # 0
  /\ scOwner' = Append(scOwner, inflight)
  /\ scShut' = IF inflight = cur \/ inflight = pend THEN scShut ELSE scShut \cup {Len(scOwner) + 1}
  /\ inflight' = 0
  /\ UNCHANGED <<cur, pend, nextC, last, closing, closedC, fwdChild, fwdState, nfwd, gsbClosed, viol>>
GNext == SwitchTo \/ Close \/ NewSubConnEnd
         \/ (\E c \in Children : AsyncClose(c) \/ NewSubConn(c) \/ NewSubConnBegin(c) \/ \E s \in States : ChildUpdate(c, s))

\* ---- Level A
I_NoViol == viol = "none"
\* the channel's picker always belongs to the current child
I_PickerIsCurrent == (~gsbClosed /\ cur # 0 /\ fwdChild # 0) => fwdChild = cur
\* graceful window: while a pending child exists, the old one is READY (as far as it told us) or
\* it has not reported since, and the pending one is still CONNECTING
I_Graceful == (pend # 0 /\ ~gsbClosed) => last[pend] = "CONNECTING"
I_FwdNotClosed == (fwdChild # 0 /\ ~gsbClosed) => fwdChild \notin closedC
I_SubconnsShut == \A i \in 1..Len(scOwner) : scOwner[i] \in closedC => i \in scShut
====
