---- MODULE Aggregate ----
(***************************************************************************)
(* C35: connectivity-state aggregation and the endpoint round-robin        *)
(* picker.                                                                 *)
(* Level I : the counters of balancer.ConnectivityStateEvaluator           *)
(*           (RecordTransition / CurrentState), the publish step of        *)
(*           endpointsharding.updateStateLocked (group children by state,  *)
(*           take the group of the aggregate state, round-robin over it    *)
(*           from an arbitrary start).                                     *)
(* Level A : Agg(multiset) = READY > CONNECTING > IDLE > TF (TF when       *)
(*           empty); the picker delegates only to children in the          *)
(*           aggregate state and over any k consecutive picks among n such *)
(*           children each one is used floor(k/n) or ceil(k/n) times.      *)
(* The order of the children inside the picker is NOT fixed (map iteration *)
(* order, R2): Publish picks any permutation.                              *)
(***************************************************************************)
EXTENDS Integers, Sequences, FiniteSets, TLC
CONSTANTS NChildren, MaxPicks, Mutant
Children == 1..NChildren
States == {"READY", "CONNECTING", "IDLE", "TF"}
VARIABLES st,        \* child -> its last reported state, "none" when absent
          cnt,       \* Level I: [READY |-> n, CONNECTING |-> n, IDLE |-> n, TF |-> n]
          reported,  \* the aggregate state last published
          ring,      \* the published picker: sequence of children
          pos,       \* the picker's counter
          picks      \* children the current picker delegated to, in order
avars == <<st, cnt, reported, ring, pos, picks>>

\* ---------------------------------------------------------------- Level A definitions
Present(s) == {c \in DOMAIN s : s[c] # "none"}
Agg(s) == IF \E c \in Present(s) : s[c] = "READY" THEN "READY"
          ELSE IF \E c \in Present(s) : s[c] = "CONNECTING" THEN "CONNECTING"
          ELSE IF \E c \in Present(s) : s[c] = "IDLE" THEN "IDLE"
          ELSE "TF"
AggSet(s) == {c \in Present(s) : s[c] = Agg(s)}
Count(seq, i, j, c) == Cardinality({x \in i..j : seq[x] = c})
\* every window i..j of the pick sequence uses every member of S floor(k/n) or ceil(k/n) times
\* and nothing outside S
FairOver(seq, S) ==
  LET n == Cardinality(S) IN
  IF n = 0 THEN Len(seq) = 0 ELSE
  \A i \in 1..Len(seq) : \A j \in i..Len(seq) :
     LET k == j - i + 1 IN
     /\ seq[j] \in S
     /\ \A c \in S : LET m == Count(seq, i, j, c) IN m >= k \div n /\ m <= (k + n - 1) \div n
\* equivalent formulation that is linear to evaluate (equivalence checked by TLC, see AggregateMC):
\* the sequence is periodic with period n and its first n elements are distinct members of S
PeriodicPerm(seq, S) ==
  LET n == Cardinality(S) IN
  IF n = 0 THEN Len(seq) = 0 ELSE
  /\ \A i \in 1..Len(seq) : seq[i] \in S /\ (i > n => seq[i] = seq[i - n])
  /\ \A i \in 1..Len(seq) : \A j \in 1..Len(seq) : (i < j /\ j <= n) => seq[i] # seq[j]

\* ---------------------------------------------------------------- Level I
ZeroCnt == [s \in States |-> 0]
\* RecordTransition(old, new): "SHUTDOWN" (absent) is not counted
Rec(c0, old, new) ==
  LET c1 == IF old \in States THEN [c0 EXCEPT ![old] = @ - 1] ELSE c0
  IN IF new \in States THEN [c1 EXCEPT ![new] = @ + 1] ELSE c1
CurState(c0) == IF c0["READY"] > 0 THEN "READY"
                ELSE IF Mutant = 1 /\ c0["IDLE"] > 0 THEN "IDLE"
                ELSE IF c0["CONNECTING"] > 0 THEN "CONNECTING"
                ELSE IF c0["IDLE"] > 0 THEN "IDLE"
                ELSE "TF"
Perms(S) == {f \in [1..Cardinality(S) -> S] : \A i, j \in 1..Cardinality(S) : i # j => f[i] # f[j]}
\* updateStateLocked: the pickers of the children whose state is the aggregate state
Group(s, a) == IF Mutant = 2 /\ a = "CONNECTING" THEN {c \in Present(s) : s[c] \in {"CONNECTING", "IDLE"}}
               ELSE {c \in Present(s) : s[c] = a}
Publish(s, c1, r) ==
  /\ st' = s /\ cnt' = c1 /\ reported' = CurState(c1)
  /\ ring' = r /\ pos' = 0 /\ picks' = <<>>

AInit == /\ st = [c \in Children |-> "none"] /\ cnt = ZeroCnt /\ reported = "TF"
         /\ ring = <<>> /\ pos = 0 /\ picks = <<>>

\* nondeterministic picker order (any permutation of the group)
AddN(c, s) == st[c] = "none" /\ LET s1 == [st EXCEPT ![c] = s] c1 == Rec(cnt, "SHUTDOWN", s) IN
                \E r \in Perms(Group(s1, CurState(c1))) : Publish(s1, c1, r)
RemoveN(c) == st[c] # "none" /\ LET s1 == [st EXCEPT ![c] = "none"] c1 == Rec(cnt, st[c], "SHUTDOWN") IN
                \E r \in Perms(Group(s1, CurState(c1))) : Publish(s1, c1, r)
TransN(c, s) == st[c] # "none" /\ LET s1 == [st EXCEPT ![c] = s] c1 == Rec(cnt, st[c], s) IN
                \E r \in Perms(Group(s1, CurState(c1))) : Publish(s1, c1, r)
\* the child of target c is replaced (weighted_target: same target name, other child policy type): the old
\* child's contribution vanishes and the new child starts in CONNECTING
ReplCnt(c) == Rec(IF Mutant = 4 THEN cnt ELSE Rec(cnt, st[c], "SHUTDOWN"), "SHUTDOWN", "CONNECTING")
ReplN(c) == st[c] # "none" /\ LET s1 == [st EXCEPT ![c] = "CONNECTING"] c1 == ReplCnt(c) IN
                \E r \in Perms(Group(s1, CurState(c1))) : Publish(s1, c1, r)
\* deterministic variants (canonical picker order) used by the trace specification
RECURSIVE Canon(_)
Canon(S) == IF S = {} THEN <<>> ELSE LET m == CHOOSE x \in S : \A y \in S : x <= y IN <<m>> \o Canon(S \ {m})
Recount(s) == [x \in States |-> Cardinality({c \in DOMAIN s : s[c] = x})]
PublishC(s, c1) == Publish(s, c1, Canon(Group(s, CurState(c1))))
AddC(c, s) == st[c] = "none" /\ PublishC([st EXCEPT ![c] = s], Rec(cnt, "SHUTDOWN", s))
RemoveC(c) == st[c] # "none" /\ PublishC([st EXCEPT ![c] = "none"], Rec(cnt, st[c], "SHUTDOWN"))
TransC(c, s) == st[c] # "none" /\ PublishC([st EXCEPT ![c] = s], Rec(cnt, st[c], s))
ReplC(c) == st[c] # "none" /\ PublishC([st EXCEPT ![c] = "CONNECTING"], ReplCnt(c))
\* a resolver update of endpointsharding: several children added / removed, one publish
SetAllC(s) == PublishC(s, Recount(s))
\* pickerWithChildStates.Pick
Pick == /\ Len(ring) > 0 /\ Len(picks) < MaxPicks
        /\ picks' = Append(picks, ring[(pos % Len(ring)) + 1]) /\ pos' = pos + (IF Mutant = 3 THEN 2 ELSE 1)
        /\ UNCHANGED <<st, cnt, reported, ring>>

\* ---------------------------------------------------------------- invariants (the property)
I_AggState == reported = Agg(st)
I_PickOnlyAgg == \A i \in 1..Len(picks) : picks[i] \in AggSet(st)
I_RRFair == FairOver(picks, AggSet(st))
I_Counters == \A s \in States : cnt[s] = Cardinality({c \in Children : st[c] = s})
====
