CONSTANTS
Mutant = 0
MaxSends = 2
MaxOps = 5
MaxAtts = {3}
Caps = {5}
CodeSets = {{14}}
BufLimits = {1000}
ThrMaxs = {0}
Boffs = {1}
PBSet = {"none"}
Trigs = {"open", "late", "m2"}
FailCodes = {14}
MaxRPCs = 1
ParkOn = TRUE
HdrActs = {"MF"}
UnprocActs = {"REF"}
INIT Init
NEXT Next
INVARIANT I_NoViol
INVARIANT I_Bound
INVARIANT I_Replay
INVARIANT I_Commit
CHECK_DEADLOCK FALSE
