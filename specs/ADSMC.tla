---- MODULE ADSMC ----
(* bounded-history wrapper of ADS for exhaustive checking (Eager = 0: every interleaving of the inputs *)
(* with the client's internal steps) and behaviour generation (Eager = 1: the internal steps run to    *)
(* completion after every input and are not counted, which is what the sequential driver does).        *)
EXTENDS ADS
CONSTANTS MaxEvents, Eager
VARIABLE nev
vars == <<avars, nev>>
Init == AInit /\ nev = 0
IntEn == (chan /\ pendq # <<>> /\ sstream # 0) \/ (respq # <<>> /\ inproc = <<>> /\ ~fcp) \/ inproc # <<>>
Tick == nev < MaxEvents /\ nev' = nev + 1
ExtS == (Eager = 1 => ~IntEn) /\ Tick
IntS == IF Eager = 1 THEN nev' = nev ELSE Tick
SubscribeT(t, n) == ExtS /\ Subscribe(t, n)
UnsubscribeT(t, n) == ExtS /\ Unsubscribe(t, n)
StreamUpT == ExtS /\ StreamUp
StreamBreakT == ExtS /\ StreamBreak
ServeT(t, kind) == ExtS /\ Serve(t, kind)
DoneT == ExtS /\ Done
SendQueuedT == IntS /\ SendQueued
ReadQueuedT == IntS /\ ReadQueued
ProcessT == IntS /\ Process
Next == \/ \E t \in Types, n \in Names : SubscribeT(t, n) \/ UnsubscribeT(t, n)
        \/ SendQueuedT \/ StreamUpT \/ StreamBreakT \/ ReadQueuedT \/ ProcessT \/ DoneT
        \/ \E t \in Types \cup {0}, kind \in Kinds : ServeT(t, kind)
====
