CONSTANTS
NC = 1
NR = 1
Mutant = 0
MaxOps = 5
NTemplates = 3
MCKeys = {"a", "A", "b"}
NKV = 4
CtxOnly = 1
INIT Init
NEXT Next
INVARIANT I_ValueAgrees
INVARIANT I_Order
INVARIANT I_AllPairs
INVARIANT I_BaseAdmissible
CHECK_DEADLOCK FALSE
