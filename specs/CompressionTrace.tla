---- MODULE CompressionTrace ----
(* Stage (e) for C27: every executed configuration (one line per case: the configuration, and what the
   real client / server and the raw peer observed) is judged by the statement's clauses.  The first
   violated clause is the verdict (Mark).  The C27_KNOWN_* clauses name one exact input class each; the
   first line of each class is kept in its own register and written to known.json for the orchestrator
   (which reports them through KNOWN_FINDINGS.jsonl), so a known class never hides another clause. *)
EXTENDS Compression, TraceIO
VARIABLES l
vars == <<l>>
NK == Len(KnownOrder)
Init == l = 1 /\ InitRegs /\ \A k \in 1..NK : TLCSet(4 + k, 0)
Ev == Trace[l]

SendCfg(e) == [kind |-> e.ev, reg |-> SeqSet(e.reg), use |-> e.use, legacy |-> e.legacy, dc |-> e.dc, cp |-> e.cp,
               adv |-> SeqSet(e.adv), renc |-> e.renc, setsend |-> e.setsend, msgs |-> e.msgs]
SendOut(e) == [code |-> e.code, enc |-> e.enc, flags |-> e.flags, oks |-> e.oks]
RecvCfg(e) == [kind |-> e.ev, reg |-> SeqSet(e.reg), dc |-> e.dc, accept |-> SeqSet(e.accept), renc |-> e.renc, flag |-> e.flag]
RecvInp(e) == [pdok |-> e.pdok, pdh |-> e.pdh, rawh |-> e.rawh]
RecvOut(e) == [code |-> e.code, n |-> e.n, dh |-> e.dh]

Viol(e) == CASE e.ev = "creq" -> ViolCreq(SendCfg(e), SendOut(e))
             [] e.ev = "sresp" -> ViolSresp(SendCfg(e), SendOut(e))
             [] e.ev \in {"cresp", "sreq"} -> ViolRecv(RecvCfg(e), RecvInp(e), RecvOut(e))
RefEnc(e) == IF e.ev = "creq" THEN ReqEnc(SendCfg(e)) ELSE RespEncRef(SendCfg(e))
NoteKnown(V) == \A k \in 1..NK : IF KnownOrder[k] \in V /\ TLCGet(4 + k) = 0 THEN TLCSet(4 + k, l) ELSE TRUE

Check(e) ==
  CASE e.ev \in {"creq", "sresp", "cresp", "sreq"} ->
         LET V == Viol(e)
             cl == First(V \ SeqSet(KnownOrder)) IN
         /\ Mark(cl # "none", cl, l)
         /\ NoteKnown(V)
         /\ Drift(e.ev \in {"creq", "sresp"} /\ Len(e.flags) > 0 /\ e.enc # RefEnc(e)
                    /\ "C27_KNOWN_LegacyRPCCompressorNotNegotiated" \notin V,
                  "C27_EncodingDiffersFromReference", l)
    [] e.ev = "panic" -> Mark(TRUE, "NoPanic", l)
    [] OTHER -> e.ev \in {"reset", "skip"}
Next == l <= TLen /\ l' = l + 1 /\ Consumed(l) /\ Check(Ev)
VerdictK == Verdict /\ JsonSerialize("known.json", [k \in 1..NK |-> [clause |-> KnownOrder[k], line |-> TLCGet(4 + k)]])
====
