---- MODULE WrrExactMC ----
(* Stage (a) for C38: TLC enumerates a bounded input domain and checks that the references of
   WrrExact satisfy the property statement (so that "code = reference" implies the property);
   the circuit-breaking counter is explored as a small state machine. *)
EXTENDS WrrExact, TLC
CONSTANTS MaxItems, Weights, MaxDen, MaxReq, Mutant
VARIABLES kind, x, n, out   \* n: counter value; out: admitted and unfinished RPCs (ghost)
vars == <<kind, x, n, out>>

DomW == UNION {[1..k -> Weights] : k \in 1..MaxItems}
DomD == {<<a, b>> : a \in 0..(MaxDen + 2), b \in 1..MaxDen} \cup {<<a, 100>> : a \in {0, 1, 33, 50, 99, 100, 101, 250}}
Init == /\ n = 0 /\ out = 0
        /\ \/ (kind = "rand" /\ x \in DomW)
           \/ (kind = "edf" /\ x \in {w \in DomW : Sum(w) > 0})
           \/ (kind = "drop" /\ x \in DomD)
           \/ (kind = "cb" /\ x \in {<<m>> : m \in 0..MaxReq})

\* Mutant 1 (negative control): the binary search looks for accumulated >= r instead of > r
Next1(ws, r) == IF Mutant = 1 /\ ~AllEqual(ws)
                  THEN CHOOSE i \in 1..Len(ws) : SumTo(ws, i) >= r /\ \A j \in 1..(i - 1) : SumTo(ws, j) < r
                  ELSE RandNext(ws, r)
Hist(ws) == [i \in 1..Len(ws) |-> Cardinality({r \in 0..(RandRange(ws) - 1) : Next1(ws, r) = i})]
I_RandRef == kind = "rand" => /\ RandProp(x, Hist(x), RandRange(x))
                              /\ \A r \in 0..(RandRange(x) - 1) : ZeroOk(x, Next1(x, r))
I_EdfRef == kind = "edf" => LET s == EdfRun(x, 3 * Sum(x)) IN EdfPropAll(x, s, 0) /\ EdfPropAligned(x, s)
I_DropRef == kind = "drop" =>
  LET w == DropWeights(x[1], x[2]) rr == RandRange(w)
      d == Cardinality({r \in 0..(rr - 1) : Drop(x[1], x[2], r)})
  IN /\ DropProp(x[1], x[2], d, rr)
     /\ d * x[2] = Min2(x[1], x[2]) * rr           \* the same statement, cross-multiplied

\* circuit breaking: Start / End of the counter, Mutant 2 admits while n <= max
Admit == IF Mutant = 2 THEN n <= x[1] ELSE CbAdmit(n, x[1])
CbStart == kind = "cb" /\ out <= MaxReq /\ (IF Admit THEN n' = n + 1 /\ out' = out + 1 ELSE UNCHANGED <<n, out>>) /\ UNCHANGED <<kind, x>>
CbEnd == kind = "cb" /\ out > 0 /\ n' = n - 1 /\ out' = out - 1 /\ UNCHANGED <<kind, x>>
Next == CbStart \/ CbEnd \/ (kind # "cb" /\ UNCHANGED vars)
I_Cb == kind = "cb" => n <= x[1] /\ n = out /\ (out = 0 => n = 0)
====
