CONSTANTS
Clusters = {1, 2, 3}
RPCs = {1, 2, 3, 4, 5, 6}
MaxMult = 2
Mutant = 0
Eager = TRUE
INIT Init
NEXT Next
POSTCONDITION Verdict
CHECK_DEADLOCK FALSE
