CONSTANTS
Mutant = 0
MaxSends = 2
MaxOps = 5
MaxAtts = {3, 6}
Caps = {5}
CodeSets = {{14}, {13, 14}}
BufLimits = {20}
ThrMaxs = {0, 4}
Boffs = {1}
PBSet = {"none", "p0", "p7", "neg", "bad", "multi"}
Trigs = {"open", "late"}
FailCodes = {13, 14}
MaxRPCs = 1
ParkOn = FALSE
HdrActs = {"HF", "MF"}
UnprocActs = {"REF", "GOAWAY"}
INIT Init
NEXT Next
CHECK_DEADLOCK FALSE
