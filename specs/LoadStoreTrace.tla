---- MODULE LoadStoreTrace ----
(***************************************************************************)
(* Level A monitor of C50 over recorded stress rounds of the real          *)
(* PerClusterReporter.  A "round" line carries every API call of the round *)
(* <<kind, locality, key, value, seqBefore, seqAfter>> (kind 1 CallStarted,*)
(* 2 CallFinished(nil), 3 CallFinished(err), 4 CallDropped(category key),  *)
(* 5 CallServerLoad(metric key, value)) and every report of the round      *)
(* (the last one taken at quiescence) with the sequence numbers taken      *)
(* before / after the stats() call.  A "bulk" line carries only per-round  *)
(* aggregates of a long run.  Clauses (LoadStore.tla I_Totals /            *)
(* I_InProgress): summed over all reports of a round every cleared counter *)
(* equals the number of recorded events; each report's inProgress lies     *)
(* between the smallest and the largest value started - finished can have  *)
(* had inside the window of its stats() call.                              *)
(***************************************************************************)
EXTENDS TraceIO, FiniteSets
VARIABLES l
vars == <<l>>
Init == l = 1 /\ InitRegs
Ev == Trace[l]
Locs == {0, 1}
Cats == {1, 2}
Mets == {0, 1}
RECURSIVE SumSeq(_)
SumSeq(s) == IF s = <<>> THEN 0 ELSE Head(s) + SumSeq(Tail(s))
Ops == Ev.ops
Reps == Ev.reports
OpIdx == 1..Len(Ops)
RepIdx == 1..Len(Reps)
N(kind, loc) == Cardinality({i \in OpIdx : Ops[i][1] = kind /\ Ops[i][2] = loc})
\* report fields: locs[l+1] = <<issued, succeeded, errored, inProgress, count0, sum0, count1, sum1>>
RF(i, loc, f) == Reps[i].locs[loc + 1][f]
SumRF(loc, f) == SumSeq([i \in RepIdx |-> RF(i, loc, f)])
LoadCnt(loc, m) == Cardinality({i \in OpIdx : Ops[i][1] = 5 /\ Ops[i][2] = loc /\ Ops[i][3] = m})
\* server load values are integers 1..9: the sum without recursion over the (long) list of calls
W(v, k) == v * k
LoadSum(loc, m) == LET c(v) == Cardinality({i \in OpIdx : Ops[i][1] = 5 /\ Ops[i][2] = loc /\ Ops[i][3] = m /\ Ops[i][4] = v}) IN
                   c(1) + 2 * c(2) + 3 * c(3) + 4 * c(4) + 5 * c(5) + 6 * c(6) + 7 * c(7) + 8 * c(8) + 9 * c(9)
TotalsBad ==
  \/ \E loc \in Locs :
        \/ SumRF(loc, 1) # N(1, loc) \/ SumRF(loc, 2) # N(2, loc) \/ SumRF(loc, 3) # N(3, loc)
        \/ \E m \in Mets : SumRF(loc, 5 + 2 * m) # LoadCnt(loc, m) \/ SumRF(loc, 6 + 2 * m) # LoadSum(loc, m)
  \/ SumSeq([i \in RepIdx |-> Reps[i].td]) # Cardinality({i \in OpIdx : Ops[i][1] = 4})
  \/ \E c \in Cats : SumSeq([i \in RepIdx |-> Reps[i].drops[c]]) # Cardinality({i \in OpIdx : Ops[i][1] = 4 /\ Ops[i][3] = c})
\* window of report i: [a, b]; an op <<.., sb, se>> has begun before t iff sb < t, completed before t iff se < t
Begun(kinds, loc, t) == Cardinality({i \in OpIdx : Ops[i][1] \in kinds /\ Ops[i][2] = loc /\ Ops[i][5] < t})
Compl(kinds, loc, t) == Cardinality({i \in OpIdx : Ops[i][1] \in kinds /\ Ops[i][2] = loc /\ Ops[i][6] < t})
InProgBad ==
  \E i \in RepIdx, loc \in Locs :
     LET lo == Compl({1}, loc, Reps[i].a) - Begun({2, 3}, loc, Reps[i].b)
         hi == Begun({1}, loc, Reps[i].b) - Compl({2, 3}, loc, Reps[i].a) IN
     RF(i, loc, 4) < lo \/ RF(i, loc, 4) > hi
\* bulk: aggregated counts per key; cnt / sum are sequences in the same key order
BulkBad == \E k \in 1..Len(Ev.events) : Ev.events[k] # Ev.reported[k]
Step ==
  CASE Ev.ev = "reset" -> TRUE
    [] Ev.ev = "panic" -> Mark(TRUE, "I_NoPanic", l)
    [] Ev.ev = "round" -> Mark(TotalsBad, "I_Totals", l) /\ Mark(InProgBad, "I_InProgress", l)
    [] Ev.ev = "bulk" -> Mark(BulkBad, "I_Totals", l) /\ Mark(Ev.inprog_final # Ev.open_final, "I_InProgress", l)
Next == l <= TLen /\ l' = l + 1 /\ Consumed(l) /\ Step
====
