CONSTANTS
Mutant = 0
Points = {"resolver", "picker", "quota", "write", "recv", "recvmid", "backoff", "handler"}
Delays = {"none", "pick", "quota"}
Deadlines = {1}
Cancels = {1}
TRel = 300000000
End = 1900000000
INIT Init
NEXT Next
POSTCONDITION Verdict
CHECK_DEADLOCK FALSE
