CONSTANTS
Mutant = 0
MaxSends = 1
MaxOps = 3
MaxAtts = {6}
Caps = {5}
CodeSets = {{14}}
BufLimits = {1000}
ThrMaxs = {0}
Boffs = {1, 2}
PBSet = {"none", "p0", "p7"}
Trigs = {"open", "late"}
FailCodes = {14}
MaxRPCs = 1
ParkOn = FALSE
HdrActs = {"HF", "MF"}
UnprocActs = {"REF", "GOAWAY"}
INIT Init
NEXT Next
INVARIANT I_DelayIndex
INVARIANT I_Tokens
INVARIANT I_Bound
CHECK_DEADLOCK FALSE
