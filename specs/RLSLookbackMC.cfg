CONSTANTS
Bins = 2
MaxBin = 5
MaxEvents = 4
Mutant = 0
INIT Init
NEXT Next
INVARIANT I_WindowSum
INVARIANT I_HeadIsMax
CHECK_DEADLOCK FALSE
