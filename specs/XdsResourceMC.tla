---- MODULE XdsResourceMC ----
(***************************************************************************)
(* Stage (a) for C45 (EDS, LDS): one TLC state per abstract                *)
(* ClusterLoadAssignment / Listener (successor of a seed state).  The     *)
(* invariants check that the documented validation rules accept exactly   *)
(* the resources whose prescribed summary satisfies the invariants.       *)
(***************************************************************************)
EXTENDS XdsResource, TLC
CONSTANTS Mutant, Big
VARIABLES kind, x
vars == <<kind, x>>

Ep(a, w) == [addr |-> a, w |-> w]
Loc(i, p, w, e) == [id |-> i, prio |-> p, w |-> w, eps |-> e]
EpsA == {<<>>, <<Ep(1, "unset")>>, <<Ep(1, "0")>>, <<Ep(1, "max")>>, <<Ep(1, "1"), Ep(2, "max")>>,
         <<Ep(1, "max"), Ep(2, "max")>>, <<Ep(1, "unset"), Ep(1, "unset")>>, <<Ep(2, "1")>>, <<Ep(1, "2"), Ep(2, "1")>>}
EpsB == {<<>>, <<Ep(1, "1")>>, <<Ep(2, "1")>>, <<Ep(3, "2"), Ep(2, "0")>>}
LA == {Loc(i, p, w, e) : i \in {1, 2}, p \in 0..2, w \in {"0", "1", "max"}, e \in EpsA}
LB == {Loc(i, p, w, e) : i \in {1, 2}, p \in 0..1, w \in (IF Big = 1 THEN {"unset", "1", "2", "max"} ELSE {"1", "max"}), e \in EpsB}
Cla(n, ls, ds) == [name |-> n, locs |-> ls, drops |-> ds]
Base == <<Loc(1, 0, "1", <<Ep(1, "unset")>>)>>
Group(s) ==
  CASE s = "one" -> {Cla(n, ls, <<>>) : n \in BOOLEAN, ls \in {<<>>} \cup {<<a>> : a \in LA}}
                    \cup {Cla(TRUE, <<Loc(0, 0, "1", <<Ep(1, "1")>>)>>, <<>>), Cla(TRUE, Base \o <<Loc(0, 1, "0", <<>>)>>, <<>>)}
                    \cup {Cla(TRUE, Base, ds) : ds \in {<<"100">>, <<"10k", "1M">>, <<"bad">>, <<"100", "bad">>}}
    [] s = "two" -> {Cla(TRUE, <<a, b>>, <<>>) : a \in LA, b \in LB}
    [] s = "three" -> {Cla(TRUE, <<Loc(1, p1, "1", <<Ep(1, "1")>>), Loc(2, p2, w, <<Ep(2, "1")>>), Loc(i3, p3, "max", <<Ep(3, "unset")>>)>>, <<>>) :
                         p1, p2, p3 \in 0..3, w \in {"0", "max"}, i3 \in {1, 3}}
    [] OTHER -> {}
\* ---- abstract Listeners
Fl(k, o, n) == [kind |-> k, opt |-> o, nm |-> n]
Kinds == {"router", "fault", "rbac", "unknown"}
F12 == {Fl(k, o, n) : k \in Kinds, o \in BOOLEAN, n \in {1, 2}}
FLists == {<<>>} \cup {<<a>> : a \in F12} \cup {<<a, b>> : a, b \in F12}
          \cup {<<Fl(k1, o1, 1), Fl(k2, o2, 2), Fl(k3, o3, n3)>> :
                  k1, k2, k3 \in Kinds, o1, o2, o3 \in BOOLEAN, n3 \in (IF Big = 1 THEN {1, 3} ELSE {3})}
          \cup {<<Fl("router", FALSE, 0)>>, <<Fl("unknown", TRUE, 0), Fl("router", FALSE, 1)>>}
Lis(n, sd, fs, rt, ch) == [name |-> n, side |-> sd, filters |-> fs, route |-> rt, chain |-> ch]
FRep == {<<Fl("router", FALSE, 1)>>, <<Fl("unknown", TRUE, 1)>>, <<Fl("fault", TRUE, 1), Fl("rbac", TRUE, 2), Fl("router", FALSE, 3)>>,
         <<>>, <<Fl("router", FALSE, 1), Fl("router", FALSE, 2)>>}
GroupL(s) ==
  CASE s = "la" -> {Lis(TRUE, "api", fs, "rds", "none") : fs \in FLists}
    [] s = "lb" -> {Lis(TRUE, "server", fs, "rds", "fc") : fs \in FLists}
    [] s = "lc" -> {Lis(n, "api", fs, rt, "none") : n \in BOOLEAN, fs \in FRep, rt \in {"rds", "inline", "none", "noname"}}
                   \cup {Lis(n, "server", fs, rt, ch) : n \in BOOLEAN, fs \in FRep, rt \in {"rds", "inline", "none", "noname"},
                                                         ch \in {"fc", "default", "both", "none"}}
    [] OTHER -> {}
LSeeds == {"la", "lb", "lc"}
Init == kind = "seed" /\ x \in {"one", "two", "three"} \cup LSeeds
Next == kind = "seed" /\ \/ (x \notin LSeeds /\ kind' = "eds" /\ x' \in Group(x))
                         \/ (x \in LSeeds /\ kind' = "lds" /\ x' \in GroupL(x))

I_RulesGiveInvariants ==
  kind = "eds" =>
    LET syntactic == x.name /\ \A i \in 1..Len(x.locs) : x.locs[i].id # 0
    IN AcceptRules(x, Mutant = 1) = (syntactic /\ InvEDS(Summary(x)))
\* LDS: the operational rules accept exactly the listeners that are syntactically complete, have no
\* fatal (non-optional, unusable) filter and no empty / repeated filter name, and whose prescribed
\* summary satisfies the invariants
I_LdsRulesGiveInvariants ==
  kind = "lds" =>
    LET syntactic == /\ x.name /\ x.route \in {"rds", "inline"}
                     /\ \A i \in 1..Len(x.filters) : /\ x.filters[i].nm # 0
                                                      /\ (Usable(x.filters[i], x.side) \/ x.filters[i].opt)
                     /\ \A i, j \in 1..Len(x.filters) : i < j => x.filters[i].nm # x.filters[j].nm
    IN AcceptRulesL(x, Mutant = 2) = (syntactic /\ InvLDS(SummaryL(x)))
====
