---- MODULE XdsResourceMC ----
(***************************************************************************)
(* Stage (a) for C45 (EDS): one TLC state per abstract                     *)
(* ClusterLoadAssignment (successor of a seed state).  The invariant       *)
(* checks that the documented validation rules accept exactly the          *)
(* resources whose prescribed summary satisfies the documented invariants. *)
(***************************************************************************)
EXTENDS XdsResource, TLC
CONSTANTS Mutant, Big
VARIABLES kind, x
vars == <<kind, x>>

Ep(a, w) == [addr |-> a, w |-> w]
Loc(i, p, w, e) == [id |-> i, prio |-> p, w |-> w, eps |-> e]
EpsA == {<<>>, <<Ep(1, "unset")>>, <<Ep(1, "0")>>, <<Ep(1, "max")>>, <<Ep(1, "1"), Ep(2, "max")>>,
         <<Ep(1, "max"), Ep(2, "max")>>, <<Ep(1, "unset"), Ep(1, "unset")>>, <<Ep(2, "1")>>, <<Ep(1, "2"), Ep(2, "1")>>}
EpsB == {<<>>, <<Ep(1, "1")>>, <<Ep(2, "1")>>, <<Ep(3, "2"), Ep(2, "0")>>}
LA == {Loc(i, p, w, e) : i \in {1, 2}, p \in 0..2, w \in {"0", "1", "max"}, e \in EpsA}
LB == {Loc(i, p, w, e) : i \in {1, 2}, p \in 0..1, w \in (IF Big = 1 THEN {"unset", "1", "2", "max"} ELSE {"1", "max"}), e \in EpsB}
Cla(n, ls, ds) == [name |-> n, locs |-> ls, drops |-> ds]
Base == <<Loc(1, 0, "1", <<Ep(1, "unset")>>)>>
Group(s) ==
  CASE s = "one" -> {Cla(n, ls, <<>>) : n \in BOOLEAN, ls \in {<<>>} \cup {<<a>> : a \in LA}}
                    \cup {Cla(TRUE, <<Loc(0, 0, "1", <<Ep(1, "1")>>)>>, <<>>), Cla(TRUE, Base \o <<Loc(0, 1, "0", <<>>)>>, <<>>)}
                    \cup {Cla(TRUE, Base, ds) : ds \in {<<"100">>, <<"10k", "1M">>, <<"bad">>, <<"100", "bad">>}}
    [] s = "two" -> {Cla(TRUE, <<a, b>>, <<>>) : a \in LA, b \in LB}
    [] s = "three" -> {Cla(TRUE, <<Loc(1, p1, "1", <<Ep(1, "1")>>), Loc(2, p2, w, <<Ep(2, "1")>>), Loc(i3, p3, "max", <<Ep(3, "unset")>>)>>, <<>>) :
                         p1, p2, p3 \in 0..3, w \in {"0", "max"}, i3 \in {1, 3}}
    [] OTHER -> {}
Init == kind = "seed" /\ x \in {"one", "two", "three"}
Next == kind = "seed" /\ kind' = "eds" /\ x' \in Group(x)

I_RulesGiveInvariants ==
  kind = "eds" =>
    LET syntactic == x.name /\ \A i \in 1..Len(x.locs) : x.locs[i].id # 0
    IN AcceptRules(x, Mutant = 1) = (syntactic /\ InvEDS(Summary(x)))
====
