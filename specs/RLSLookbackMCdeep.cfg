CONSTANTS
Bins = 3
MaxBin = 6
MaxEvents = 5
Mutant = 0
INIT Init
NEXT Next
INVARIANT I_WindowSum
INVARIANT I_HeadIsMax
CHECK_DEADLOCK FALSE
