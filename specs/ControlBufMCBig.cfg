CONSTANTS
Producers = {"p1", "p2", "p3"}
Items <- ItemsC
Readers = {"r1"}
Max = 3
Throttles = 1
Fins = 1
UseDone = TRUE
Mutant = 0
INIT Init
NEXT Next
INVARIANT I_BlockedOnlyWhileFull
INVARIANT I_ClosedRejects
INVARIANT I_OrphanOnce
INVARIANT I_HAccounted
INVARIANT I_ConsumerWake
INVARIANT I_ChanMatchesCount
INVARIANT I_ReleasedOnClose
INVARIANT I_TrfIsQueue
INVARIANT I_Types
CHECK_DEADLOCK FALSE
