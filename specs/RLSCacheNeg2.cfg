CONSTANTS
NK = 3
Sizes = {1, 2}
Dlys = {0, 2}
Ttls = {1, 3}
Resizes = {0, 1, 2, 3, 4}
MaxNow = 3
MaxEvents = 4
InitMax = 3
Mutant = 2
INIT Init
NEXT Next
INVARIANT I_SizeIsSum
INVARIANT I_EvictLRU
CHECK_DEADLOCK FALSE
