---- MODULE PickerWrapper ----
(***************************************************************************)
(* Level-I model of grpc-go's pickerWrapper (picker_wrapper.go) for C32    *)
(* (and the Done-on-not-ready clause of C23).                              *)
(*                                                                         *)
(* One action per atomic step of the code; the action NAME is the hook     *)
(* point at which the goroutine waits before executing that step           *)
(* (verifhook.At("pw.<name>", pw)); `start` is the driver's own gate       *)
(* before calling pw.pick, `swap` the updater's gate before calling        *)
(* pw.updatePicker.  `cancel` (context cancellation) and `flip`            *)
(* (subchannel connectivity change) are environment actions executed by    *)
(* the driver itself.                                                      *)
(*                                                                         *)
(* Generations are numbered: generation 0 is the initial one without a     *)
(* picker; updatePicker = swap (publish generation cur+1) then close (the  *)
(* old generation's channel).  Updates are serialised (cc.mu in the real   *)
(* channel), so there is one updater.                                      *)
(*                                                                         *)
(* A goroutine inside the select of pick is in pc "parked" (it is not at   *)
(* a hook: the driver sees it as `blocked at quiescence`); "wait" is the   *)
(* hook just before the select.  Closing a channel / cancelling a context  *)
(* wakes the parked goroutines at once: they run (touching nothing         *)
(* shared) to their next hook, which is "load" (or return).                *)
(*                                                                         *)
(* Picker result kinds: "ok" (subchannel A + Done), "notready" (subchannel *)
(* B + Done; A starts READY, B starts not READY, both may flip), "nosc"    *)
(* (ErrNoSubConnAvailable), "status" (status error), "err" (other error).  *)
(*                                                                         *)
(* Pickers may be stateful and an LB policy may publish the same picker    *)
(* OBJECT again (`reswap`): that is a new publication - a new generation   *)
(* that wakes every blocked pick - although the picker identity is the     *)
(* same; what the object returns has changed meanwhile (for every          *)
(* generation that holds the object).                                      *)
(***************************************************************************)
EXTENDS Integers, Sequences, FiniteSets, TLC
CONSTANTS Rpcs,         \* pick goroutines
          FailFast,     \* subset of Rpcs that are fail-fast (the others wait for ready)
          Cancellable,  \* subset of Rpcs whose context may be cancelled
          MaxGen,       \* number of updatePicker calls
          Kinds,        \* result kinds a published picker may have
          MaxFlips,     \* number of subchannel connectivity flips
          Reswap,       \* TRUE: the LB policy may also re-publish the SAME (stateful) picker object
          Mutant        \* 0 = the code; 1.. = negative controls

Scs == {"A", "B"}
ScOf(k) == IF k = "ok" THEN "A" ELSE "B"
HasSc(k) == k \in {"ok", "notready"}
MaxOf(a, b) == IF a > b THEN a ELSE b

VARIABLES cur,        \* current generation (pw.pickerGen)
          closedG,    \* generations whose blockingCh is closed
          upc, uold,  \* updater: "idle" | "close" ; the generation it swapped out
          res,        \* generation -> result kind of its picker ("nil": no picker / unpublished)
          obj,        \* generation -> identity of its picker object (first generation that published it)
          pubs,       \* number of updatePicker calls started (Level A: publications by the LB policy)
          scReady, flips,
          pc, ch, pg, \* per pick: hook it waits at, local `ch` (generation or -1 = nil), loaded generation
          cancelled, outcome,
          \* Level-A ghosts
          floor,      \* generation current when the pick started or last unblocked
          lastUsed,   \* generation of the last picker this pick called (-1: none)
          lastKind,   \* its result kind
          fresh, strict,  \* every picker call so far was >= floor / strictly newer than the previous one
          pending,    \* 1: holds an ok-result whose Done has not been called
          retReady,   \* subchannel was READY at the getReadyTransport that made the pick return
          seenPub
          \* (seenPub: publications started when this pick last called a picker)
vars == <<cur, closedG, upc, uold, res, obj, pubs, scReady, flips, pc, ch, pg, cancelled, outcome,
          floor, lastUsed, lastKind, fresh, strict, pending, retReady, seenPub>>

Init == /\ cur = 0 /\ closedG = {} /\ upc = "idle" /\ uold = 0
        /\ res = [g \in 0..MaxGen |-> "nil"] /\ obj = [g \in 0..MaxGen |-> g] /\ pubs = 0
        /\ scReady = [s \in Scs |-> s = "A"] /\ flips = 0
        /\ pc = [r \in Rpcs |-> "start"] /\ ch = [r \in Rpcs |-> -1] /\ pg = [r \in Rpcs |-> 0]
        /\ cancelled = [r \in Rpcs |-> FALSE] /\ outcome = [r \in Rpcs |-> "none"]
        /\ floor = [r \in Rpcs |-> 0] /\ lastUsed = [r \in Rpcs |-> -1]
        /\ lastKind = [r \in Rpcs |-> "none"]
        /\ fresh = [r \in Rpcs |-> TRUE] /\ strict = [r \in Rpcs |-> TRUE]
        /\ pending = [r \in Rpcs |-> 0] /\ retReady = [r \in Rpcs |-> TRUE]
        /\ seenPub = [r \in Rpcs |-> 0]

Goto(r, p) == pc' = [pc EXCEPT ![r] = p]
UPD == <<cur, closedG, upc, uold, res, obj, pubs>>
ENV == <<scReady, flips>>
GHOST == <<floor, lastUsed, lastKind, fresh, strict, pending, retReady, seenPub>>

\* ------------------------------------------------------------------ updatePicker
\* old := pw.pickerGen.Swap(&pickerGeneration{picker: p, ...})
swap(k) == /\ upc = "idle" /\ cur < MaxGen /\ k \in Kinds
           /\ uold' = cur /\ cur' = cur + 1 /\ res' = [res EXCEPT ![cur + 1] = k] /\ upc' = "close"
           /\ pubs' = pubs + 1 /\ UNCHANGED obj
           /\ UNCHANGED <<closedG, ENV, pc, ch, pg, cancelled, outcome, GHOST>>
\* updatePicker called with the picker object that is already installed, whose result has changed to k:
\* a publication like any other (new generation, the old channel is closed next)
\* Mutant 5: "same picker, nothing to do" - no new generation, nobody is woken
reswap(k) == /\ Reswap /\ upc = "idle" /\ cur >= 1 /\ cur < MaxGen /\ k \in Kinds /\ k # res[cur]
             /\ pubs' = pubs + 1
             /\ IF Mutant = 5
                  THEN /\ res' = [g \in 0..MaxGen |-> IF g >= 1 /\ g <= cur /\ obj[g] = obj[cur] THEN k ELSE res[g]]
                       /\ UNCHANGED <<cur, uold, upc, obj>>
                  ELSE /\ uold' = cur /\ cur' = cur + 1 /\ upc' = "close"
                       /\ obj' = [obj EXCEPT ![cur + 1] = obj[cur]]
                       /\ res' = [g \in 0..MaxGen |-> IF g = cur + 1 \/ (g >= 1 /\ g <= cur /\ obj[g] = obj[cur]) THEN k ELSE res[g]]
             /\ UNCHANGED <<closedG, ENV, pc, ch, pg, cancelled, outcome, GHOST>>
\* close(old.blockingCh): every goroutine parked on it wakes and runs to its next hook ("load")
\* Mutant 1: the old channel is not closed
close == /\ upc = "close" /\ upc' = "idle"
         /\ IF Mutant = 1
              THEN UNCHANGED <<closedG, pc, floor>>
              ELSE /\ closedG' = closedG \cup {uold}
                   /\ pc' = [r \in Rpcs |-> IF pc[r] = "parked" /\ ch[r] = uold THEN "load" ELSE pc[r]]
                   /\ floor' = [r \in Rpcs |-> IF pc[r] = "parked" /\ ch[r] = uold THEN MaxOf(floor[r], cur) ELSE floor[r]]
         /\ UNCHANGED <<cur, uold, res, obj, pubs, ENV, ch, pg, cancelled, outcome, lastUsed, lastKind, fresh, strict, pending, retReady, seenPub>>

\* ------------------------------------------------------------------ pick
\* the application calls pw.pick
start(r) == /\ pc[r] = "start" /\ Goto(r, "load") /\ floor' = [floor EXCEPT ![r] = cur]
            /\ UNCHANGED <<UPD, ENV, ch, pg, cancelled, outcome, lastUsed, lastKind, fresh, strict, pending, retReady, seenPub>>
\* pg := pw.pickerGen.Load(); if pg.picker == nil { ch = pg.blockingCh }; if ch == pg.blockingCh -> wait else pick
load(r) == /\ pc[r] = "load" /\ pg' = [pg EXCEPT ![r] = cur]
           /\ LET c2 == IF res[cur] = "nil" THEN cur ELSE ch[r] IN
              /\ ch' = [ch EXCEPT ![r] = c2]
              /\ Goto(r, IF c2 = cur THEN "wait" ELSE "pick")
           /\ UNCHANGED <<UPD, ENV, cancelled, outcome, GHOST>>
\* select { case <-ctx.Done(): return ctx error; case <-ch: continue }
\* (both ready: Go chooses; neither: the goroutine parks)
wait(r) == /\ pc[r] = "wait"
           /\ \/ /\ ch[r] \in closedG /\ Goto(r, "load")
                 /\ floor' = [floor EXCEPT ![r] = MaxOf(@, cur)] /\ UNCHANGED outcome
              \/ /\ cancelled[r] /\ Goto(r, "ret")
                 /\ outcome' = [outcome EXCEPT ![r] = "canceled"] /\ UNCHANGED floor
              \/ /\ ch[r] \notin closedG /\ ~cancelled[r] /\ Goto(r, "parked")
                 /\ UNCHANGED <<outcome, floor>>
           /\ UNCHANGED <<UPD, ENV, ch, pg, cancelled, lastUsed, lastKind, fresh, strict, pending, retReady, seenPub>>
\* ch = pg.blockingCh; p.Pick(info) and the error classification
pick(r) == /\ pc[r] = "pick"
           /\ ch' = [ch EXCEPT ![r] = pg[r]]
           /\ lastUsed' = [lastUsed EXCEPT ![r] = pg[r]]
           /\ seenPub' = [seenPub EXCEPT ![r] = pubs]
           /\ lastKind' = [lastKind EXCEPT ![r] = res[pg[r]]]
           /\ fresh' = [fresh EXCEPT ![r] = @ /\ pg[r] >= floor[r]]
           /\ strict' = [strict EXCEPT ![r] = @ /\ pg[r] > lastUsed[r]]
           /\ LET k == res[pg[r]] IN
              CASE k = "nosc"   -> Goto(r, "load") /\ UNCHANGED <<outcome, pending>>
                [] k = "status" -> Goto(r, "ret") /\ outcome' = [outcome EXCEPT ![r] = "status"] /\ UNCHANGED pending
                [] k = "err"    -> IF (r \in FailFast) # (Mutant = 4)
                                     THEN Goto(r, "ret") /\ outcome' = [outcome EXCEPT ![r] = "unavailable"] /\ UNCHANGED pending
                                     ELSE Goto(r, "load") /\ UNCHANGED <<outcome, pending>>
                [] HasSc(k)     -> Goto(r, "ready") /\ pending' = [pending EXCEPT ![r] = 1] /\ UNCHANGED outcome
           /\ UNCHANGED <<UPD, ENV, pg, cancelled, floor, retReady>>
\* acbw.ac.getReadyTransport(): READY -> return the transport; else Done({}) and loop
\* Mutant 2: Done is not called for the not-ready result; Mutant 3: the state is not checked
ready(r) == /\ pc[r] = "ready"
            /\ LET s == ScOf(lastKind[r]) IN
               IF scReady[s] \/ Mutant = 3
                 THEN /\ Goto(r, "ret") /\ outcome' = [outcome EXCEPT ![r] = "transport"]
                      /\ retReady' = [retReady EXCEPT ![r] = scReady[s]] /\ UNCHANGED pending
                 ELSE /\ Goto(r, "load") /\ pending' = [pending EXCEPT ![r] = IF Mutant = 2 THEN @ ELSE 0]
                      /\ UNCHANGED <<outcome, retReady>>
            /\ UNCHANGED <<UPD, ENV, ch, pg, cancelled, floor, lastUsed, lastKind, fresh, strict, seenPub>>

\* ------------------------------------------------------------------ environment
\* the application cancels the RPC's context; a parked pick wakes and returns
cancel(r) == /\ r \in Cancellable /\ ~cancelled[r] /\ pc[r] # "ret"
             /\ cancelled' = [cancelled EXCEPT ![r] = TRUE]
             /\ IF pc[r] = "parked"
                  THEN Goto(r, "ret") /\ outcome' = [outcome EXCEPT ![r] = "canceled"]
                  ELSE UNCHANGED <<pc, outcome>>
             /\ UNCHANGED <<UPD, ENV, ch, pg, GHOST>>
\* a subchannel changes connectivity state
flip(s) == /\ s \in Scs /\ flips < MaxFlips /\ flips' = flips + 1
           /\ scReady' = [scReady EXCEPT ![s] = ~@]
           /\ UNCHANGED <<UPD, pc, ch, pg, cancelled, outcome, GHOST>>

Next == \/ \E k \in Kinds : swap(k) \/ reswap(k)
        \/ close
        \/ \E r \in Rpcs : start(r) \/ load(r) \/ wait(r) \/ pick(r) \/ ready(r) \/ cancel(r)
        \/ \E s \in Scs : flip(s)
Spec == Init /\ [][Next]_vars

\* ------------------------------------------------------------------ properties (Level A, C32)
\* a pick never uses a picker older than the one current when it started or last blocked
I_Fresh == \A r \in Rpcs : fresh[r]
\* a transport is returned only for a subchannel that was READY
I_ReadyOnly == \A r \in Rpcs : outcome[r] = "transport" => (HasSc(lastKind[r]) /\ retReady[r])
\* blocking vs failing: a blocking result is followed by a strictly newer picker (never the same one
\* again) and never by a failure other than the context's; errors surface exactly as specified
Blocking(r, k) == k \in {"nosc", "notready", "ok", "none"} \/ (k = "err" /\ r \notin FailFast)
I_BlockNotFail ==
    \A r \in Rpcs :
        /\ strict[r]
        /\ outcome[r] = "status" <=> (pc[r] = "ret" /\ lastKind[r] = "status")
        /\ outcome[r] = "unavailable" <=> (pc[r] = "ret" /\ lastKind[r] = "err" /\ r \in FailFast)
        /\ outcome[r] = "canceled" => cancelled[r]
        /\ (pc[r] = "ret" /\ Blocking(r, lastKind[r])) => outcome[r] \in {"transport", "canceled"}
        /\ (pc[r] # "ret") => Blocking(r, lastKind[r])
\* a parked pick is woken by every picker update and by cancellation: when no update is in progress
\* it can only be parked if it has already used the current picker (or there is none yet)
I_Wake == \A r \in Rpcs : pc[r] = "parked" =>
              /\ ~cancelled[r]
              /\ upc = "idle" => (res[cur] = "nil" \/ (lastUsed[r] = cur /\ seenPub[r] = pubs))
\* Done of a not-ready result is called before the pick loops (C23 clause); a returned result still holds its Done
I_DoneNotReady == \A r \in Rpcs : /\ pc[r] \in {"load", "wait", "parked", "pick"} => pending[r] = 0
                                  /\ outcome[r] = "transport" => pending[r] = 1
                                  /\ outcome[r] \in {"status", "unavailable", "canceled"} => pending[r] = 0
\* ------------------------------------------------------------------ mechanism (Level I)
\* when no update is between its two steps a parked pick waits on the current generation
I_NoStaleWait == \A r \in Rpcs : (pc[r] = "parked" /\ upc = "idle") => ch[r] = cur
I_Types == /\ cur \in 0..MaxGen /\ closedG \subseteq 0..MaxGen
           /\ \A g \in closedG : g < cur
           /\ \A r \in Rpcs : ch[r] \in -1..cur /\ pg[r] \in 0..cur
====
