---- MODULE LoopyTrace ----
(***************************************************************************)
(* Trace validation for C01 / C02 / C03.  Every line is one step of the    *)
(* real loopyWriter: the input (a control item given to handle(), or one   *)
(* processData() call), the frames an independent HTTP/2 framer decoded    *)
(* from the bytes written during the step, processData's isEmpty result    *)
(* and the projected private state.                                        *)
(*  - Level A: Loopy!Observe is applied to (input, decoded frames); a      *)
(*    clause of property Prop it records is the verdict (Mark); clauses of *)
(*    the two sibling properties are only noted (Drift).                   *)
(*  - Level I: Loopy!Step is applied to the input; private state or frames *)
(*    that differ from the model are Drift, never a verdict.               *)
(***************************************************************************)
EXTENDS Loopy, TraceIO
CONSTANT Prop
VARIABLES m, g, l
vars == <<m, g, l>>
Ev == Trace[l]
SS(ns) == {2 * i - 1 : i \in 1..ns}
Init == l = 1 /\ InitRegs /\ m = MInit(FALSE, 0, 0, {1}) /\ g = GInit(FALSE, 0, 0, {1})

RECURSIVE SomeSeq(_)
SomeSeq(S) == IF S = {} THEN <<>> ELSE LET x == CHOOSE x \in S : TRUE IN <<x>> \o SomeSeq(S \ {x})

PrivDiffers(mm, p) ==
  \/ p.sq # mm.sq \/ p.oiws # mm.oiws \/ p.al # mm.al
  \/ {p.str[i][1] : i \in 1..Len(p.str)} # mm.estd
  \/ \E i \in 1..Len(p.str) :
       LET s == p.str[i][1]
       IN s \in mm.estd /\ (p.str[i][2] # mm.st[s] \/ p.str[i][3] # mm.out[s] \/ p.str[i][4] # Len(mm.itl[s]))
Shape(fs) == LET q == SelectSeq(fs, LAMBDA f : f.t # "CONTINUATION")
             IN [i \in 1..Len(q) |-> <<q[i].t, q[i].s, q[i].f, IF q[i].t = "DATA" THEN q[i].len ELSE 0>>]

StepEv ==
  LET in   == Ev.in
      fs   == Ev.frames
      oal  == Ev.priv.al
      w    == Waiting(m)
      suf  == IF Len(oal) >= Len(m.al) THEN SubSeq(oal, Len(m.al) + 1, Len(oal)) ELSE <<>>
      \* applySettings re-activates the waiting streams in Go map order: take the observed order
      perm == IF in.k = "settings" /\ m.oiws < in.n
                THEN (IF SeqToSet(suf) = w /\ Len(suf) = Cardinality(w) THEN suf ELSE SomeSeq(w))
                ELSE <<>>
      r    == Step(m, in, perm, IF in.k = "data" /\ Known(g, in.s) THEN g.app[in.s] ELSE 0)
  IN /\ m' = r.m
     /\ g' = Observe(g, in, fs, Ev.empty)
     /\ Mark(g'.viol[Prop] # "none" /\ g.viol[Prop] = "none", g'.viol[Prop], l)
     /\ \A p \in Props \ {Prop} : Drift(g'.viol[p] # "none" /\ g.viol[p] = "none", "sibling-property clause " \o g'.viol[p], l)
     /\ Drift(g'.note # "none" /\ g.note = "none", g'.note, l)
     /\ Drift(PrivDiffers(m', Ev.priv), "PrivateStateDiffersFromLevelI", l)
     /\ Drift(Shape(fs) # Shape(r.frames) \/ Ev.empty # r.empty, "FramesDifferFromLevelI", l)

Next ==
  /\ l <= TLen /\ l' = l + 1 /\ Consumed(l)
  /\ CASE Ev.ev = "step" -> StepEv
       [] Ev.ev = "reset" -> /\ m' = MInit(Ev.srv, Ev.conn, Ev.iws, SS(Ev.ns))
                             /\ g' = GInit(Ev.srv, Ev.conn, Ev.iws, SS(Ev.ns))
       \* handle()/processData() returned an error or panicked: the driver stops the behaviour
       [] Ev.ev \in {"error", "panic"} -> UNCHANGED <<m, g>> /\ Drift(TRUE, "driver: " \o Ev.ev, l)
====
