CONSTANTS
NAddr = 8
Fam <- Fam8
MaxSc = 400
Mutant = 0
Quirk = 0
INIT Init
NEXT Next
POSTCONDITION Verdict
CHECK_DEADLOCK FALSE
