---- MODULE WriteQuotaTrace ----
(***************************************************************************)
(* Level-A monitor for C17 (write quota half) over traces recorded from    *)
(* the real transport.writeQuota (gated replay and free-running stress).   *)
(*                                                                         *)
(* Events:                                                                 *)
(*  reset   {init}         new execution, initial quota                    *)
(*  w_call  {sz}           before writeQuota.get(sz)                       *)
(*  w_ret   {sz,ok}        after it returned (ok = nil error)              *)
(*  rep_call{n} / rep_ret {n}   around realReplenish(n) (n bytes of        *)
(*                         previously granted data were written out)       *)
(*  done                   before close(done)  (the stream ends)           *)
(*  blocked {t,p}          gated replay: the writer was granted the select *)
(*                         step that the model says is ready, and blocked  *)
(*  quiet   {phase,stuck,quota,tok,timeout}  driver-declared quiescent     *)
(*          point.  Phase 1: all gates released, the driver has written    *)
(*          out (replenished) everything that was granted whenever the     *)
(*          writer parked, until the writer finished or parked with        *)
(*          nothing outstanding; stuck = writer blocked in its select,     *)
(*          quota = the real counter.  Phase 2: after done was closed.     *)
(*  at / note              bookkeeping, ignored                            *)
(***************************************************************************)
EXTENDS TraceIO
VARIABLES l, init, granted, repl, doneSeen
vars == <<l, init, granted, repl, doneSeen>>
rest == <<init, granted, repl, doneSeen>>

Init == /\ l = 1 /\ init = 0 /\ granted = 0 /\ repl = 0 /\ doneSeen = FALSE /\ InitRegs
Ev == Trace[l]
Ledger == init - granted + repl

Reset == /\ Ev.ev = "reset" /\ init' = Get(Ev, "init", 0) /\ granted' = 0 /\ repl' = 0 /\ doneSeen' = FALSE
WCall == /\ Ev.ev = "w_call" /\ UNCHANGED rest
WRet == /\ Ev.ev = "w_ret"
        /\ granted' = IF Ev.ok THEN granted + Ev.sz ELSE granted
        /\ Drift(~Ev.ok /\ ~doneSeen, "FailedWithoutDone", l)
        /\ UNCHANGED <<init, repl, doneSeen>>
RepCall == /\ Ev.ev = "rep_call" /\ UNCHANGED rest
RepRet == /\ Ev.ev = "rep_ret" /\ repl' = repl + Ev.n
          /\ UNCHANGED <<init, granted, doneSeen>>
Done == /\ Ev.ev = "done" /\ doneSeen' = TRUE /\ UNCHANGED <<init, granted, repl>>
\* the sender must be released once enough of its data was written (quota positive again) or the stream ended
Blocked == /\ Ev.ev = "blocked"
           /\ Mark(doneSeen \/ Ledger > 0, "P_Release", l)
           /\ Drift(~(doneSeen \/ Ledger > 0), "WriterBlockedModelSaysFree", l)
           /\ UNCHANGED rest
Quiet == /\ Ev.ev = "quiet"
         /\ Drift(Ev.timeout, "SettleTimeout", l)
         /\ Mark(Ev.phase = 1 /\ Ev.stuck /\ (Ledger > 0 \/ doneSeen), "P_Release", l)
         /\ Mark(Ev.phase = 2 /\ Ev.stuck, "P_ReleasedOnDone", l)
         \* quota returns to the initial value after all granted data has been written
         /\ Mark(granted = repl /\ Ev.quota # init, "I_BackToInit", l)
         /\ Drift(Ev.quota # Ledger, "I_Conserve", l)
         /\ UNCHANGED rest
Other == /\ Ev.ev \in {"at", "note", "panic"}
         /\ Mark(Ev.ev = "panic", "P_NoPanic", l)
         /\ UNCHANGED rest

Next == /\ l <= TLen /\ l' = l + 1 /\ Consumed(l)
        /\ (Reset \/ WCall \/ WRet \/ RepCall \/ RepRet \/ Done \/ Blocked \/ Quiet \/ Other)
====
