---- MODULE WireStatus ----
(***************************************************************************)
(* C10: a handler's status reaches the client unchanged.                   *)
(* A status is [code, msg, det]: code = decimal digits of a uint32         *)
(* (BigDec: TLC integers are 32-bit and codes.Code is a uint32), msg = a   *)
(* byte string, det = a sequence of details [t |-> type URL (string),      *)
(* v |-> value bytes] (serialized google.protobuf.Any).                    *)
(* Level A is Transfer / Expected: the statement fixes the observation.    *)
(* Level I is the wire mechanism (grpc-status, percent-encoded             *)
(* grpc-message, grpc-status-details-bin = the serialized status proto),   *)
(* with the two places where it is known to lose information.              *)
(***************************************************************************)
EXTENDS WireCodec

OKCode == <<0>>
MaxInt32 == <<2,1,4,7,4,8,3,6,4,7>>
UnknownCode == <<2>>

\* ---------------- Level A: the statement ------------------------------------------------
\* "same code, same message (with invalid UTF-8 replaced by U+FFFD), same details"
Transfer(s) == [code |-> s.code, msg |-> Sanitize(s.msg), det |-> s.det]
\* what status.FromError(err) shows on the client; a handler status with code OK is a nil error
\* ("a handler returning nil yields a nil client error, a non-OK status never becomes nil")
NilObs == [nil |-> TRUE, code |-> OKCode, msg |-> <<>>, det |-> <<>>]
Expected(s) == IF s.code = OKCode THEN NilObs
               ELSE [nil |-> FALSE, code |-> s.code, msg |-> Sanitize(s.msg), det |-> s.det]

\* ---------------- Level I: the wire --------------------------------------------------------
\* the status proto can be serialized only if its string field is valid UTF-8 (proto3)
Marshalable(s) == ValidUTF8(s.msg)
\* trailers written by the server for status s (gd: the status proto carried by grpc-status-details-bin)
ServerOf(s) == [gs |-> s.code, gm |-> EncMsg(s.msg), gd |-> IF s.det # <<>> /\ Marshalable(s) THEN <<s>> ELSE <<>>]
\* grpc-status is parsed as a signed 32-bit decimal
ParsesInt32(code) == Cmp(code, MaxInt32) <= 0
ClientStatus(w) ==
  IF ~ParsesInt32(w.gs) THEN [code |-> UnknownCode, msg |-> <<>>, det |-> <<>>]    \* "malformed grpc-status"
  ELSE IF w.gd # <<>> /\ w.gd[1].code = w.gs THEN w.gd[1]
  ELSE [code |-> w.gs, msg |-> DecMsg(w.gm), det |-> <<>>]
ClientOf(w) == LET st == ClientStatus(w) IN
  IF st.code = OKCode THEN NilObs ELSE [nil |-> FALSE, code |-> st.code, msg |-> st.msg, det |-> st.det]

\* ---------------- the two known input classes on which the wire loses information -----------
KnownDetailsLost(s) == s.code # OKCode /\ s.det # <<>> /\ ~ValidUTF8(s.msg)   \* details-bin cannot be serialized
KnownBigCode(s) == ~ParsesInt32(s.code)                                       \* code >= 2^31
====
