---- MODULE BackoffMC ----
(* Stage (a) for C20: an ideal sampler (exact value of T * (1 + j * u) for the jitter draws u in {-1, -1/2, 0, 1/2, 1},
   floored, then converted to int64 by saturation) satisfies the property on a grid of configurations that includes
   MaxDelay = MaxInt64, jitter > 1 and multiplier < 1.  Mutant = 1: the conversion wraps instead of saturating
   (negative control).  The second part is the subchannel pacing model (negative controls: Mutant = 2 skips the
   wait, Mutant = 3 counts the wait from the start of the failed attempt). *)
EXTENDS Backoff, TLC
CONSTANTS Mutant, MaxFail, Big
VARIABLES kind, x, idx, now, lastDial, failAt, lastBo, phase
vars == <<kind, x, idx, now, lastDial, failAt, lastBo, phase>>

\* Big: 0 tiny (negative controls), 1 quick, 2 thorough
B1 == <<1>>
BS == <<1,0,0,0,0,0,0,0,0,0>>                              \* 1 s
B62 == <<4,6,1,1,6,8,6,0,1,8,4,2,7,3,8,7,9,0,4>>           \* 2^62 ns
M120 == <<1,2,0,0,0,0,0,0,0,0,0,0>>                        \* 120 s
Bases == CASE Big = 0 -> {B62} [] Big = 1 -> {B1, BS, B62} [] OTHER -> {<<0>>, BS, B62}
Maxes == CASE Big = 0 -> {MaxInt64} [] Big = 1 -> {M120, MaxInt64} [] OTHER -> {<<1>>, M120, MaxInt64}
Mults == CASE Big = 0 -> {<<2,1>>} [] Big = 1 -> {<<3,2>>, <<8,5>>, <<1,2>>} [] OTHER -> {<<1,1>>, <<3,2>>, <<8,5>>, <<1,2>>, <<2,1>>}
Jits == CASE Big = 0 -> {<<1,5>>} [] Big = 1 -> {<<0,1>>, <<1,5>>, <<3,2>>} [] OTHER -> {<<0,1>>, <<1,5>>, <<3,2>>, <<1,1>>}
Ns == CASE Big = 0 -> {0, 1} [] Big = 1 -> {0, 1, 3, 8} [] OTHER -> (0..8) \cup {16}
Us == {0, 2, 4}       \* jitter draw u = (k - 2) / 2

Cfg(b, m, mu, j) == [base |-> b, max |-> m, mp |-> mu[1], mq |-> mu[2], jp |-> j[1], jq |-> j[2]]
\* floor(T * (1 + j * (k-2)/2)) = floor(TargetP * (2 jq + jp (k-2)) / (2 jq 10^12)); negative -> 0
Ideal(c, n, k) ==
  IF n = 0 THEN c.base
  ELSE LET f == 2 * c.jq + c.jp * (k - 2) IN
       IF f <= 0 THEN <<0>>
       ELSE DropK(DivSmall(DivSmall(MulSmall(TargetP(c, n), f), c.jq)[1], 2)[1], P)
\* int64 conversion: [neg, r]
Conv(v) == IF Cmp(v, MaxInt64) = 1 THEN (IF Mutant = 1 THEN [neg |-> TRUE, r |-> MaxInt64] ELSE [neg |-> FALSE, r |-> MaxInt64])
           ELSE [neg |-> FALSE, r |-> v]

\* ---- pacing model: one subchannel; time in abstract ticks; bo(i) = lower bound of backoff(i) = i + 1 ticks.
\* A connection attempt takes an arbitrary time (Tick is enabled while dialing): it may fail at once, after a part
\* of the backoff, or after more than the backoff.  "waits at least that backoff before trying again" is measured
\* from the instant the attempt FAILED (failAt), not from the instant it started (lastDial).
BoLow(i) == i + 1
PInit == idx = 0 /\ now = 0 /\ lastDial = 0 /\ failAt = 0 /\ lastBo = 0 /\ phase = "idle"
Dial == phase = "idle" /\ phase' = "dialing" /\ lastDial' = now /\ lastBo' = BoLow(idx) /\ UNCHANGED <<idx, now, failAt>>
Fail == phase = "dialing" /\ idx < MaxFail /\ phase' = "backoff" /\ idx' = idx + 1 /\ failAt' = now /\ UNCHANGED <<now, lastDial, lastBo>>
\* Mutant = 3: the wait is counted from the start of the attempt (the attempt's duration is subtracted from it)
WaitFrom == IF Mutant = 3 THEN lastDial ELSE failAt
Expire == phase = "backoff" /\ now >= WaitFrom + lastBo /\ phase' = "idle" /\ UNCHANGED <<idx, now, lastDial, failAt, lastBo>>
ResetBo == phase = "backoff" /\ phase' = "idle" /\ idx' = 0 /\ lastBo' = 0 /\ UNCHANGED <<now, lastDial, failAt>>
Succeed == phase = "dialing" /\ phase' = "idle" /\ idx' = 0 /\ lastBo' = 0 /\ UNCHANGED <<now, lastDial, failAt>>
\* the connection is established and lost before the transport is installed: still a successful connection
\* (Mutant = 4: the index is reset only where the transport is installed)
EstabClosed == phase = "dialing" /\ phase' = "idle" /\ idx' = (IF Mutant = 4 THEN idx ELSE 0) /\ lastBo' = 0 /\ UNCHANGED <<now, lastDial, failAt>>
Tick == now < 3 * MaxFail + 3 /\ now' = now + 1 /\ UNCHANGED <<idx, lastDial, failAt, lastBo, phase>>
\* Mutant = 2: the backoff wait is skipped
Skip == Mutant = 2 /\ phase = "backoff" /\ phase' = "idle" /\ UNCHANGED <<idx, now, lastDial, failAt, lastBo>>

Init == \/ /\ kind = "fn" /\ PInit
           /\ x \in [b : Bases, m : Maxes, mu : Mults, j : Jits, n : Ns, k : Us]
        \/ kind = "pace" /\ x = 0 /\ PInit
Next == \/ kind = "fn" /\ UNCHANGED vars
        \/ kind = "pace" /\ UNCHANGED <<kind, x>> /\ (Dial \/ Fail \/ Expire \/ ResetBo \/ Succeed \/ EstabClosed \/ Tick \/ Skip)

Sample == LET c == Cfg(x.b, x.m, x.mu, x.j) IN Conv(Ideal(c, x.n, x.k))
I_NonNeg == kind = "fn" => Prop_NonNeg(Sample.neg)
I_Bounds == kind = "fn" =>
  LET c == Cfg(x.b, x.m, x.mu, x.j) s == Sample IN
  /\ Prop_Zero(c, x.n, s.neg, s.r) /\ Prop_Range(c, x.n, s.neg, s.r) /\ Le(s.r, MaxInt64)
\* a new attempt starts no earlier than the previous attempt's FAILURE + the backoff lower bound, unless reset
I_Pace == kind = "pace" /\ phase = "backoff" => failAt >= lastDial /\ now >= failAt
I_PaceStep == [][kind = "pace" /\ phase = "idle" /\ phase' = "dialing" /\ lastBo # 0 => now >= failAt + lastBo]_vars
\* "the backoff index resets after a successful connection": every way out of an attempt other than a failure
I_IndexReset == [][kind = "pace" /\ phase = "dialing" /\ phase' = "idle" => idx' = 0]_vars
====
