---- MODULE CredsMatrixTrace ----
(* Stage (e) for C58: validates every (case, outcome) row recorded from the real client/server.
   Row: {"ev":"case","t","via","d","b","c","dial":"ok"|"fail","code":n,"streams":n,
         "dsent","bsent","csent": string, "dgot","bgot","cgot": sequence of strings (one per stream
         in which metadata of that credential arrived)} *)
EXTENDS CredsMatrix, TraceIO
VARIABLES l
vars == <<l>>
Init == l = 1 /\ InitRegs
Ev == Trace[l]
Cls(sent, got) == IF got = <<>> THEN "none" ELSE IF got = <<sent>> THEN "same" ELSE "diff"
CaseOf(e) == [t |-> e.t, via |-> e.via, d |-> e.d, b |-> e.b, c |-> e.c]
Obs(e) == [dial |-> e.dial, code |-> e.code, streams |-> e.streams,
           vd |-> Cls(e.dsent, e.dgot), vb |-> Cls(e.bsent, e.bgot), vc |-> Cls(e.csent, e.cgot)]
Check(e) ==
  CASE e.ev = "case" ->
         LET x == CaseOf(e)  o == Obs(e) IN
         /\ Mark(x \notin Cases, "C58_BadCase", l)
         /\ Mark(~NoLeak(x, o), "C58_NoLeak", l)
         /\ Mark(~MustFail(x, o), "C58_MustFail", l)
         /\ Mark(~Delivered(x, o), "C58_Delivered", l)
         /\ Drift(o # Ref(x), "C58_OutcomeDiffersFromReference", l)
    [] e.ev = "panic" -> Mark(TRUE, "NoPanic", l)
    [] OTHER -> e.ev = "reset"
Next == l <= TLen /\ l' = l + 1 /\ Consumed(l) /\ Check(Ev)
====
