---- MODULE CredsMatrixTrace ----
(* Stage (e) for C58: validates every (history, outcomes) row recorded from the real client/server.
   Row: {"ev":"case","t","via","d","b","calls":[kind,...],"dial":"ok"|"fail","dsent","bsent",
         "rpcs":[{"code":n,"streams":n,"csent":string,"dgot","bgot","cgot": sequence of strings (one per
                  stream of that RPC in which metadata of that credential arrived)}, ...]}
   rpcs[i] is the i-th RPC made on the one ClientConn; every clause is judged per RPC. *)
EXTENDS CredsMatrix, TraceIO
VARIABLES l
vars == <<l>>
Init == l = 1 /\ InitRegs
Ev == Trace[l]
Cls(sent, got) == IF got = <<>> THEN "none" ELSE IF got = <<sent>> THEN "same" ELSE "diff"
HistOf(e) == [t |-> e.t, via |-> e.via, d |-> e.d, b |-> e.b, calls |-> e.calls]
Obs(e, i) == LET r == e.rpcs[i] IN
             [dial |-> e.dial, code |-> r.code, streams |-> r.streams,
              vd |-> Cls(e.dsent, r.dgot), vb |-> Cls(e.bsent, r.bgot), vc |-> Cls(r.csent, r.cgot)]
Check(e) ==
  CASE e.ev = "case" ->
         LET x == HistOf(e)  n == Len(e.calls) IN
         /\ Mark(x \notin HCases \/ Len(e.rpcs) # n, "C58_BadCase", l)
         /\ Mark(\E i \in 1..n : ~NoLeak(At(x, i), Obs(e, i)), "C58_NoLeak", l)
         /\ Mark(\E i \in 1..n : ~MustFail(At(x, i), Obs(e, i)), "C58_MustFail", l)
         /\ Mark(\E i \in 1..n : ~Delivered(At(x, i), Obs(e, i)), "C58_Delivered", l)
         /\ Drift(\E i \in 1..n : Obs(e, i) # Ref(At(x, i)), "C58_OutcomeDiffersFromReference", l)
    [] e.ev = "panic" -> Mark(TRUE, "NoPanic", l)
    [] OTHER -> e.ev = "reset"
Next == l <= TLen /\ l' = l + 1 /\ Consumed(l) /\ Check(Ev)
====
