CONSTANTS
Rpcs = {"a", "b", "c"}
GoAwayIds = {0, 1, 3, 5, 2147483646}
MaxGoAways = 2
BIG = 2147483646
Mutant = 0
INIT CInit
NEXT CNext
INVARIANT I_NoAdmitAfter
INVARIANT I_KeepLow
INVARIANT I_FailHigh
INVARIANT I_SecondLarger
INVARIANT I_ConnErr
CHECK_DEADLOCK FALSE
