---- MODULE UnboundedTrace ----
(***************************************************************************)
(* Level-A monitor for C31 over traces recorded from the real              *)
(* buffer.Unbounded (consumer = driver loop `recv; Load; deliver`) and the *)
(* real grpcsync.CallbackSerializer.  Total on events; verdicts through    *)
(* the TraceIO registers.  The clauses are sound for free-running traces:  *)
(* every event is appended under one trace mutex, *_call events before the *)
(* call, *_ret events after it returned, run_begin/run_end inside the      *)
(* callback (buffer binding: when the consumer holds the value), "done"    *)
(* after end-of-stream / Done() was observed.                              *)
(*   put_call{v} put_ret{v,ok[,waited]}  run_begin{v} run_end{v}           *)
(*   close_call close_ret  done  stuck  panic  at quiescent reset          *)
(***************************************************************************)
EXTENDS TraceIO, FiniteSets
VARIABLES l,
          called,      \* values whose Put / Schedule was started
          info,        \* v -> [pre: accepted-and-returned before the call of v, shut: shutdown complete before the call]
          okret,       \* values whose Put returned nil / onFailure was not called
          refd,        \* values refused
          delivered,   \* values run / delivered
          running, closeCalled, shut, doneSeen
vars == <<l, called, info, okret, refd, delivered, running, closeCalled, shut, doneSeen>>
Empty == [x \in {} |-> 0]
Init == /\ l = 1 /\ called = {} /\ info = Empty /\ okret = {} /\ refd = {} /\ delivered = {}
        /\ running = FALSE /\ closeCalled = FALSE /\ shut = FALSE /\ doneSeen = FALSE
        /\ InitRegs
Ev == Trace[l]

Reset == /\ Ev.ev = "reset"
         /\ called' = {} /\ info' = Empty /\ okret' = {} /\ refd' = {} /\ delivered' = {}
         /\ running' = FALSE /\ closeCalled' = FALSE /\ shut' = FALSE /\ doneSeen' = FALSE
PutCall == /\ Ev.ev = "put_call"
           /\ called' = called \cup {Ev.v}
           /\ info' = (Ev.v :> [pre |-> okret, shut |-> shut]) @@ info
           /\ UNCHANGED <<okret, refd, delivered, running, closeCalled, shut, doneSeen>>
PutRet == /\ Ev.ev = "put_ret"
          /\ IF Ev.ok
               THEN /\ okret' = okret \cup {Ev.v} /\ refd' = refd
                    \* work submitted after shutdown never runs and its submitter is told so
                    /\ Mark(Ev.v \in DOMAIN info /\ info[Ev.v].shut, "I_AfterClose", l)
                    \* everything submitted before shutdown runs before shutdown is reported complete
                    /\ Mark(doneSeen /\ Ev.v \notin delivered, "I_BeforeDone", l)
                    \* ScheduleAndWait returned nil: the callback has run
                    /\ Mark(Get(Ev, "waited", FALSE) /\ Ev.v \notin delivered, "I_WaitRan", l)
               ELSE /\ refd' = refd \cup {Ev.v} /\ okret' = okret
                    /\ Mark(~closeCalled, "I_RefusedOnlyAfterClose", l)
                    /\ Mark(Ev.v \in delivered, "I_RefusedNeverRun", l)
          /\ UNCHANGED <<called, info, delivered, running, closeCalled, shut, doneSeen>>
RunBegin == /\ Ev.ev = "run_begin"
            /\ delivered' = delivered \cup {Ev.v} /\ running' = TRUE
            /\ Mark(running, "I_OneAtATime", l)
            /\ Mark(Ev.v \in delivered, "I_ExactlyOnce", l)
            /\ Mark(Ev.v \notin called, "I_OnlySubmitted", l)
            /\ Mark(Ev.v \in refd, "I_RefusedNeverRun", l)
            /\ Mark(doneSeen, "I_NothingAfterDone", l)
            \* submission order: everything accepted before v was submitted has already run
            /\ Mark(Ev.v \in DOMAIN info /\ ~(info[Ev.v].pre \subseteq delivered), "I_Fifo", l)
            /\ UNCHANGED <<called, info, okret, refd, closeCalled, shut, doneSeen>>
RunEnd == /\ Ev.ev = "run_end" /\ running' = FALSE
          /\ UNCHANGED <<called, info, okret, refd, delivered, closeCalled, shut, doneSeen>>
CloseCall == /\ Ev.ev = "close_call" /\ closeCalled' = TRUE
             /\ UNCHANGED <<called, info, okret, refd, delivered, running, shut, doneSeen>>
CloseRet == /\ Ev.ev = "close_ret" /\ shut' = TRUE
            /\ UNCHANGED <<called, info, okret, refd, delivered, running, closeCalled, doneSeen>>
Done == /\ Ev.ev = "done" /\ doneSeen' = TRUE /\ shut' = TRUE
        /\ Mark(~(okret \subseteq delivered), "I_BeforeDone", l)
        /\ Mark(~closeCalled, "I_EosOnlyAfterClose", l)
        /\ Mark(running, "I_OneAtATime", l)
        /\ UNCHANGED <<called, info, okret, refd, delivered, running, closeCalled>>
\* after shutdown was requested and all submitters returned, Done / end-of-stream was not
\* reached within the driver's (generous) bound
Stuck == /\ Ev.ev = "stuck" /\ Mark(TRUE, "P_Done", l)
         /\ UNCHANGED <<called, info, okret, refd, delivered, running, closeCalled, shut, doneSeen>>
Panic == /\ Ev.ev = "panic" /\ Mark(TRUE, "NoPanic", l)
         /\ UNCHANGED <<called, info, okret, refd, delivered, running, closeCalled, shut, doneSeen>>
Other == /\ Ev.ev \in {"at", "quiescent"}
         /\ UNCHANGED <<called, info, okret, refd, delivered, running, closeCalled, shut, doneSeen>>

Next == /\ l <= TLen /\ l' = l + 1 /\ Consumed(l)
        /\ (Reset \/ PutCall \/ PutRet \/ RunBegin \/ RunEnd \/ CloseCall \/ CloseRet \/ Done \/ Stuck \/ Panic \/ Other)
====
