CONSTANTS
NChildren = 3
MaxPicks = 0
MaxEvents = 4
Mutant = 0
INIT Init
NEXT Next
INVARIANT I_AggState
INVARIANT I_PickOnlyAgg
INVARIANT I_RRFair
INVARIANT I_Counters
CHECK_DEADLOCK FALSE
