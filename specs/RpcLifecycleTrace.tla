---- MODULE RpcLifecycleTrace ----
(***************************************************************************)
(* Trace validation for C22.  One segment per scenario executed on the     *)
(* real grpc.ClientConn in virtual time: reset(scenario), then             *)
(*   srv(t, has, v, handler)  HEADERS reached the server at t with/without *)
(*                            a timeout of v ns (raw server: grpc-timeout  *)
(*                            header; real server: handler ctx deadline)   *)
(*   hdone(t)                 the handler's ctx is done                    *)
(*   cancel(t) / release(t)   driver actions                               *)
(*   ret(t, code, op)         the client call returned                     *)
(*   end(t)                   quiescent point after the event              *)
(*   stuck                    the scenario made no progress in real time   *)
(*                            (watchdog of the driver); the bubble was     *)
(*                            abandoned                                    *)
(* Level A only; instants are exact virtual nanoseconds.                   *)
(***************************************************************************)
EXTENDS RpcLifecycle, TraceIO
VARIABLES l
vars == <<rvars, l>>
Init == /\ point = "recv" /\ kind = "unary" /\ delay = "none" /\ hasDl = FALSE /\ dl = 0 /\ hasCancel = TRUE /\ cancelAt = 1 /\ tracing = FALSE
        /\ now = 0 /\ phase = "resolver" /\ hdrAt = 0 /\ ret = 0 /\ retAt = 0
        /\ sent = FALSE /\ sentAt = 0 /\ hasWire = FALSE /\ wire = 0
        /\ hStarted = FALSE /\ hDone = FALSE /\ hDoneAt = 0
        /\ l = 1 /\ InitRegs
Ev == Trace[l]
t == Ev.t
Lvl1 == UNCHANGED <<now, phase, hdrAt>>
Step ==
  CASE Ev.ev = "reset" ->
         /\ point' = Ev.point /\ kind' = Ev.kind /\ delay' = Ev.delay /\ hasDl' = Ev.hasDl /\ dl' = Ev.dl
         /\ hasCancel' = Ev.hasCancel /\ cancelAt' = Ev.cancelAt /\ tracing' = Ev.tracing
         /\ ret' = 0 /\ retAt' = 0 /\ sent' = FALSE /\ sentAt' = 0 /\ hasWire' = FALSE /\ wire' = 0
         /\ hStarted' = FALSE /\ hDone' = FALSE /\ hDoneAt' = 0 /\ Lvl1
    [] Ev.ev = "srv" ->
         /\ Mark(DlMissing(Ev.has), "I_ServerDeadline_Presence", l)
         /\ Mark(DlTooShort(Ev.has, Ev.v, t), "I_ServerDeadline_TooShort", l)
         /\ Mark(~devQ /\ DlTooLong(Ev.has, Ev.v, t), "I_ServerDeadline_TooLong", l)
         /\ Drift(devQ /\ DlTooLong(Ev.has, Ev.v, t), "KNOWN_Q_timeout_computed_before_stream_quota_wait", l)
         /\ sent' = TRUE /\ sentAt' = t /\ hasWire' = Ev.has /\ wire' = Ev.v /\ hStarted' = Ev.handler
         /\ UNCHANGED <<scen, ret, retAt, hDone, hDoneAt>> /\ Lvl1
    [] Ev.ev = "hdone" ->
         /\ Mark(t < EvAt, "I_ServerDeadline_DoneEarly", l)
         /\ hDone' = TRUE /\ hDoneAt' = t
         /\ UNCHANGED <<scen, ret, retAt, sent, sentAt, hasWire, wire, hStarted>> /\ Lvl1
    [] Ev.ev \in {"cancel", "release"} ->
         /\ UNCHANGED <<scen, ret, retAt, sent, sentAt, hasWire, wire, hStarted, hDone, hDoneAt>> /\ Lvl1
    [] Ev.ev = "ret" ->
         /\ Mark(t # EvAt, "I_Terminates_Instant", l)
         /\ Mark(Ev.code # ExpCode, "I_Terminates_Code", l)
         /\ ret' = (IF Ev.code = 0 THEN 100 ELSE Ev.code) /\ retAt' = t
         /\ UNCHANGED <<scen, sent, sentAt, hasWire, wire, hStarted, hDone, hDoneAt>> /\ Lvl1
    [] Ev.ev = "end" ->
         /\ Mark(ret = 0, "I_Terminates_NotReturned", l)
         /\ Mark(hStarted /\ ~hDone, "I_ServerCancel", l)
         /\ UNCHANGED <<scen, ret, retAt, sent, sentAt, hasWire, wire, hStarted, hDone, hDoneAt>> /\ Lvl1
    [] Ev.ev = "stuck" ->
         /\ Mark(ret = 0, "I_Terminates_NotReturned", l)
         /\ Mark(ret # 0 /\ hStarted /\ ~hDone, "I_ServerCancel", l)
         /\ Drift(ret # 0 /\ ~(hStarted /\ ~hDone), "D_stuck_after_return", l)
         /\ UNCHANGED <<scen, ret, retAt, sent, sentAt, hasWire, wire, hStarted, hDone, hDoneAt>> /\ Lvl1
    [] Ev.ev = "panic" ->
         /\ Mark(TRUE, "I_NoPanic", l)
         /\ UNCHANGED <<scen, ret, retAt, sent, sentAt, hasWire, wire, hStarted, hDone, hDoneAt>> /\ Lvl1
Next == l <= TLen /\ l' = l + 1 /\ Consumed(l) /\ Step
====
