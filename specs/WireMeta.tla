---- MODULE WireMeta ----
(***************************************************************************)
(* C09: user metadata crosses the wire unchanged; reserved headers never   *)
(* leak.  Keys and values are byte strings (StrOps).                       *)
(*                                                                         *)
(* User metadata is a sequence of entries [k, v, app]: app = FALSE: the    *)
(* pair is in the base map (metadata.MD, key used as written), app = TRUE: *)
(* the pair was added with AppendToOutgoingContext / MD.Append (key        *)
(* lower-cased by the API).  The order of a key's values is: base values   *)
(* in the order written, then the appended ones in the order appended.     *)
(* An observed metadata map is a sequence of [k, vs] (one per key); a      *)
(* header frame is a sequence of fields [k, v] as on the wire.             *)
(***************************************************************************)
EXTENDS Integers, Sequences, FiniteSets, StrOps

N_content_type == <<99,111,110,116,101,110,116,45,116,121,112,101>>
N_user_agent == <<117,115,101,114,45,97,103,101,110,116>>
N_grpc_message_type == <<103,114,112,99,45,109,101,115,115,97,103,101,45,116,121,112,101>>
N_grpc_encoding == <<103,114,112,99,45,101,110,99,111,100,105,110,103>>
N_grpc_message == <<103,114,112,99,45,109,101,115,115,97,103,101>>
N_grpc_status == <<103,114,112,99,45,115,116,97,116,117,115>>
N_grpc_timeout == <<103,114,112,99,45,116,105,109,101,111,117,116>>
N_te == <<116,101>>
N_authority == <<58,97,117,116,104,111,114,105,116,121>>           \* :authority
N_path == <<58,112,97,116,104>>                                    \* :path
N_binsuffix == <<45,98,105,110>>                                   \* -bin
N_grpc_accept_encoding == <<103,114,112,99,45,97,99,99,101,112,116,45,101,110,99,111,100,105,110,103>>
N_grpc_previous_rpc_attempts == <<103,114,112,99,45,112,114,101,118,105,111,117,115,45,114,112,99,45,97,116,116,101,109,112,116,115>>
N_grpc_status_details_bin == <<103,114,112,99,45,115,116,97,116,117,115,45,100,101,116,97,105,108,115,45,98,105,110>>
N_host == <<104,111,115,116>>
N_connection == <<99,111,110,110,101,99,116,105,111,110>>

\* ---------------- validity (the statement: keys of [0-9a-z-_.], printable-ASCII values, any bytes for -bin) -----
KeyChar(c) == IsLowerA(c) \/ IsDigit(c) \/ c = 45 \/ c = 95 \/ c = 46
ValidKeyChars(k) == k # <<>> /\ \A i \in 1..Len(k) : KeyChar(k[i])
IsPseudo(k) == k # <<>> /\ k[1] = 58
IsBin(k) == HasSuffix(k, N_binsuffix)
PrintableVal(v) == \A i \in 1..Len(v) : v[i] >= 32 /\ v[i] <= 126
EffKey(e) == IF e.app THEN ToLowerASCII(e.k) ELSE e.k
\* pseudo-header names are not subject to the key alphabet (they are reserved, see below), everything else is
ValidEntry(e) == LET k == EffKey(e) IN (IsPseudo(k) \/ ValidKeyChars(k)) /\ (IsBin(k) \/ PrintableVal(e.v))
Valid(md) == \A i \in 1..Len(md) : ValidEntry(md[i])
\* certainly invalid (whatever one thinks of pseudo-header names in user metadata)
CertainlyInvalid(md) == \E i \in 1..Len(md) : LET k == EffKey(md[i]) IN
                           (~IsPseudo(k) /\ ~ValidKeyChars(k)) \/ (~IsPseudo(k) /\ ~IsBin(k) /\ ~PrintableVal(md[i].v))
HasPseudo(md) == \E i \in 1..Len(md) : IsPseudo(EffKey(md[i]))

\* ---------------- reserved names ---------------------------------------------------------------------------------
ReservedNames == {N_content_type, N_user_agent, N_grpc_message_type, N_grpc_encoding, N_grpc_message, N_grpc_status,
                  N_grpc_timeout, N_te}
Reserved(k) == IsPseudo(k) \/ k \in ReservedNames
Whitelist == {N_authority, N_user_agent}
\* non-reserved names the transport itself may add next to the user's metadata
TransportAdded == {N_grpc_accept_encoding, N_grpc_previous_rpc_attempts, N_grpc_status_details_bin}
\* names with a documented special treatment outside this property (gRFC A41)
Special == {N_host, N_connection}

\* ---------------- the transfer relation --------------------------------------------------------------------------
Base(md) == SelectSeq(md, LAMBDA e : ~e.app)
Appended(md) == SelectSeq(md, LAMBDA e : e.app)
Ordered(md) == Base(md) \o Appended(md)
\* values of key k, in order (not split at commas, byte-exact)
SeenVals(md, k) == LET o == Ordered(md)
                       F[i \in 0..Len(o)] == IF i = 0 THEN <<>> ELSE IF EffKey(o[i]) = k THEN F[i-1] \o <<o[i].v>> ELSE F[i-1]
                   IN F[Len(o)]
MdKeys(md) == {EffKey(md[i]) : i \in 1..Len(md)}
UserKeys(md) == {k \in MdKeys(md) : ~Reserved(k)}
ObsKeys(obs) == {obs[i].k : i \in 1..Len(obs)}
ValuesOf(obs, k) == LET idx == {i \in 1..Len(obs) : obs[i].k = k} IN IF idx = {} THEN <<>> ELSE obs[CHOOSE i \in idx : TRUE].vs
FieldVals(fs, k) == LET F[i \in 0..Len(fs)] == IF i = 0 THEN <<>> ELSE IF fs[i].k = k THEN F[i-1] \o <<fs[i].v>> ELSE F[i-1]
                    IN F[Len(fs)]
FieldKeys(fs) == {fs[i].k : i \in 1..Len(fs)}
\* Seen(md): the observed map, restricted to user keys, is exactly the user's metadata, per key in order
TransferOK(md, obs) ==
  /\ \A k \in UserKeys(md) : k \in TransportAdded \/ ValuesOf(obs, k) = SeenVals(md, k)
  /\ \A k \in ObsKeys(obs) : Reserved(k) \/ k \in TransportAdded \/ k \in UserKeys(md)
  /\ \A i, j \in 1..Len(obs) : obs[i].k = obs[j].k => i = j
\* no reserved name surfaces as user metadata except the allowed ones, and those never carry a user-supplied value
NoLeak(md, obs, allowed) ==
  \A i \in 1..Len(obs) : Reserved(obs[i].k) =>
      /\ obs[i].k \in allowed
      /\ \A j \in 1..Len(md) : EffKey(md[j]) = obs[i].k => \A n \in 1..Len(obs[i].vs) : obs[i].vs[n] # md[j].v
HandlerAllowed == Whitelist \cup {N_content_type}
ClientAllowed == {N_content_type}

\* ---------------- base64 for -bin values (RFC 4648 standard alphabet; padded or unpadded accepted) ---------------
B64Char(i) == IF i < 26 THEN 65 + i ELSE IF i < 52 THEN 71 + i ELSE IF i < 62 THEN i - 4 ELSE IF i = 62 THEN 43 ELSE 47
B64Val(c) == IF c >= 65 /\ c <= 90 THEN c - 65 ELSE IF c >= 97 /\ c <= 122 THEN c - 71 ELSE IF c >= 48 /\ c <= 57 THEN c + 4
             ELSE IF c = 43 THEN 62 ELSE IF c = 47 THEN 63 ELSE -1
B64Raw(v) ==
  LET n == Len(v)
      F[i \in 1..(n+3)] ==
        IF i > n THEN <<>>
        ELSE IF i + 2 <= n THEN <<B64Char(v[i] \div 4), B64Char((v[i] % 4) * 16 + v[i+1] \div 16),
                                  B64Char((v[i+1] % 16) * 4 + v[i+2] \div 64), B64Char(v[i+2] % 64)>> \o F[i+3]
        ELSE IF i + 1 = n THEN <<B64Char(v[i] \div 4), B64Char((v[i] % 4) * 16 + v[i+1] \div 16), B64Char((v[i+1] % 16) * 4)>>
        ELSE <<B64Char(v[i] \div 4), B64Char((v[i] % 4) * 16)>>
  IN F[1]
B64Pad(v) == B64Raw(v) \o (IF Len(v) % 3 = 1 THEN <<61, 61>> ELSE IF Len(v) % 3 = 2 THEN <<61>> ELSE <<>>)
StripPad(s) == IF Len(s) >= 2 /\ s[Len(s)] = 61 /\ s[Len(s)-1] = 61 THEN SubSeq(s, 1, Len(s) - 2)
               ELSE IF Len(s) >= 1 /\ s[Len(s)] = 61 THEN SubSeq(s, 1, Len(s) - 1) ELSE s
\* well-formed: unpadded, or padded to a multiple of four
B64WellFormed(s) == LET t == StripPad(s) IN
  /\ \A i \in 1..Len(t) : B64Val(t[i]) # -1
  /\ Len(t) % 4 # 1
  /\ (Len(t) # Len(s) => Len(s) % 4 = 0)
B64Dec(s) ==      \* for well-formed s
  LET t == StripPad(s) n == Len(t)
      F[i \in 1..(n+4)] ==
        IF i > n THEN <<>>
        ELSE LET a == B64Val(t[i]) b == B64Val(t[i+1]) IN
             IF i + 3 <= n THEN LET c == B64Val(t[i+2]) d == B64Val(t[i+3]) IN
                                <<a * 4 + b \div 16, (b % 16) * 16 + c \div 4, (c % 4) * 64 + d>> \o F[i+4]
             ELSE IF i + 2 = n THEN LET c == B64Val(t[i+2]) IN <<a * 4 + b \div 16, (b % 16) * 16 + c \div 4>>
             ELSE <<a * 4 + b \div 16>>
  IN F[1]
\* value of field (k, w) as metadata
WireOK(k, w) == ~IsBin(k) \/ B64WellFormed(w)
WireDec(k, w) == IF IsBin(k) THEN B64Dec(w) ELSE w
WireEnc(k, v) == IF IsBin(k) THEN B64Raw(v) ELSE v
\* the header frame carries the user's metadata: per user key the decoded values in order
WireTransferOK(md, fs) ==
  /\ \A k \in UserKeys(md) : k \in TransportAdded \/
        LET ws == FieldVals(fs, k) IN /\ \A n \in 1..Len(ws) : WireOK(k, ws[n])
                                      /\ [n \in 1..Len(ws) |-> WireDec(k, ws[n])] = SeenVals(md, k)
  /\ \A k \in FieldKeys(fs) : Reserved(k) \/ k \in TransportAdded \/ k \in UserKeys(md)
\* none of the reserved names supplied by the user is sent: each reserved name occurs at most once (the transport's
\* own field) and not with the user's value
WireNoLeak(md, fs) ==
  \A i \in 1..Len(fs) : Reserved(fs[i].k) =>
      /\ \A j \in 1..Len(fs) : fs[j].k = fs[i].k => i = j
      /\ \A j \in 1..Len(md) : EffKey(md[j]) = fs[i].k => fs[i].v # md[j].v

\* ---------------- Level I: the mechanism ------------------------------------------------------------------------
\* header fields the sending transport writes for user metadata md (after its own fields own)
SendFields(md, own, leak) ==
  LET o == Ordered(md)
      F[i \in 0..Len(o)] == IF i = 0 THEN own
                            ELSE IF Reserved(EffKey(o[i])) /\ ~leak THEN F[i-1]
                            ELSE F[i-1] \o <<[k |-> EffKey(o[i]), v |-> WireEnc(EffKey(o[i]), o[i].v)]>>
  IN F[Len(o)]
\* metadata map the receiving transport surfaces for header fields fs (keys in order of first appearance)
RecvMap(fs, allowed) ==
  LET keep(i) == (~Reserved(fs[i].k) \/ fs[i].k \in allowed) /\ WireOK(fs[i].k, fs[i].v)
      first(i) == keep(i) /\ \A j \in 1..(i-1) : ~(keep(j) /\ fs[j].k = fs[i].k)
      vals(k) == LET F[i \in 0..Len(fs)] == IF i = 0 THEN <<>> ELSE IF keep(i) /\ fs[i].k = k THEN F[i-1] \o <<WireDec(k, fs[i].v)>> ELSE F[i-1]
                 IN F[Len(fs)]
      G[i \in 0..Len(fs)] == IF i = 0 THEN <<>> ELSE IF first(i) THEN G[i-1] \o <<[k |-> fs[i].k, vs |-> vals(fs[i].k)]>> ELSE G[i-1]
  IN G[Len(fs)]
====
