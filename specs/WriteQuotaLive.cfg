CONSTANTS
Writers = {"w"}
Sizes <- SizesA
InitQ = 2
Pieces = {1, 2}
UseDone = FALSE
Mutant = 0
SPECIFICATION Fair
INVARIANT I_NoLostWake
INVARIANT I_BackToInit
INVARIANT I_Conserve
INVARIANT I_Types
PROPERTY P_AllWrite
PROPERTY P_Release
CHECK_DEADLOCK FALSE
