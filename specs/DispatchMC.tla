---- MODULE DispatchMC ----
(* Enumerates a bounded set of paths and checks the property statement on the reference for each:
   every byte string of length <= MaxLen over Alphabet (grown from the empty string by insertions) and
   every string within MaxEdits single-byte edits (substitute / insert / delete) of a registered full name
   ("/a/b" and the nested "/a/b/c"). *)
EXTENDS Dispatch
CONSTANTS MaxLen, MaxEdits, Alphabet
VARIABLES p, budget
vars == <<p, budget>>
Init == \/ p = <<>> /\ budget = MaxLen
        \/ \E e \in Entries : p = FullName(e) /\ budget = MaxEdits
InsertAt(i, b) == SubSeq(p, 1, i) \o <<b>> \o SubSeq(p, i + 1, Len(p))        \* i in 0..Len(p)
Insert(i, b) == budget > 0 /\ budget' = budget - 1 /\ p' = InsertAt(i, b)
Subst(i, b) == budget > 0 /\ budget' = budget - 1 /\ p[i] # b /\ p' = [p EXCEPT ![i] = b]
Delete(i) == budget > 0 /\ budget' = budget - 1 /\ p' = SubSeq(p, 1, i - 1) \o SubSeq(p, i + 1, Len(p))
Next == \/ \E i \in 0..Len(p) : \E b \in Alphabet : Insert(i, b)
        \/ \E i \in 1..Len(p) : Delete(i) \/ \E b \in Alphabet : Subst(i, b)
I_Dispatch == PropAt(p)
====
