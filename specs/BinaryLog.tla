---- MODULE BinaryLog ----
(***************************************************************************)
(* C55: declarative reference for binary-log truncation and header         *)
(* omission.  Entries are records [key |-> bytes, val |-> bytes].          *)
(***************************************************************************)
EXTENDS Integers, Sequences, FiniteSets, StrOps

TraceBin == <<103, 114, 112, 99, 45, 116, 114, 97, 99, 101, 45, 98, 105, 110>>
GrpcDash == <<103, 114, 112, 99, 45>>
MustOmitKeys == {<<108, 98, 45, 116, 111, 107, 101, 110>>, <<58, 112, 97, 116, 104>>, <<58, 97, 117, 116, 104, 111, 114, 105, 116, 121>>, <<99, 111, 110, 116, 101, 110, 116, 45, 116, 121, 112, 101>>, <<117, 115, 101, 114, 45, 97, 103, 101, 110, 116>>, <<116, 101>>}
ContentEncoding == <<99, 111, 110, 116, 101, 110, 116, 45, 101, 110, 99, 111, 100, 105, 110, 103>>
\* headers gRPC omits from logs: grpc-* other than grpc-trace-bin, :path, :authority, content-type, user-agent, te, lb-token
Omit(key) == key \in MustOmitKeys \/ (HasPrefix(key, GrpcDash) /\ key # TraceBin)
\* the code additionally omits content-encoding; the property does not list it: either behaviour is accepted
MayOmit(key) == key = ContentEncoding

IsTB(e) == e.key = TraceBin
Size(e) == Len(e.key) + Len(e.val)
\* counted bytes of the first i entries (grpc-trace-bin is not counted)
Counted(es, i) == LET F[j \in 0..i] == IF j = 0 THEN 0 ELSE F[j-1] + (IF IsTB(es[j]) THEN 0 ELSE Size(es[j])) IN F[i]
\* index of the first counted entry that does not fit any more (Len+1: everything fits); limit -1 = unlimited
Cut(es, limit) ==
  IF limit = 0 - 1 THEN Len(es) + 1
  ELSE LET F[j \in 1..(Len(es)+1)] == IF j > Len(es) THEN j ELSE IF ~IsTB(es[j]) /\ Counted(es, j) > limit THEN j ELSE F[j+1] IN F[1]
SelectIdx(es, Keep(_)) == LET F[j \in 0..Len(es)] == IF j = 0 THEN <<>> ELSE IF Keep(j) THEN Append(F[j-1], es[j]) ELSE F[j-1] IN F[Len(es)]
\* the reference: the longest fitting prefix, plus every grpc-trace-bin entry wherever it is
Trunc(es, limit) == LET c == Cut(es, limit) IN SelectIdx(es, LAMBDA j : j < c \/ IsTB(es[j]))
\* what the implementation is known to do: cut the list at the first entry that does not fit
TruncCutAll(es, limit) == SubSeq(es, 1, Cut(es, limit) - 1)
TBAfterCut(es, limit) == \E j \in 1..Len(es) : j > Cut(es, limit) /\ IsTB(es[j])

MsgTrunc(data, limit) == IF limit = 0 - 1 \/ limit >= Len(data) THEN data ELSE SubSeq(data, 1, limit)

\* ---- the property stated on an arbitrary (input list, limit, output list, flag) ----
WithoutTB(es) == SelectSeq(es, LAMBDA e : ~IsTB(e))
OnlyTB(es) == SelectSeq(es, LAMBDA e : IsTB(e))
IsPrefix(p, s) == Len(p) <= Len(s) /\ SubSeq(s, 1, Len(p)) = p
\* out is es with some positions removed (order kept)
IsSubseq(out, es) ==
  LET F[i \in 0..Len(out), j \in 0..Len(es)] ==
        IF i = 0 THEN TRUE ELSE IF j = 0 THEN FALSE
        ELSE (out[i] = es[j] /\ F[i-1, j-1]) \/ F[i, j-1]
  IN F[Len(out), Len(es)]
TruncProp(es, limit, out, flag) ==
  LET o == WithoutTB(out) i == WithoutTB(es) IN
  /\ IsSubseq(out, es)                                     \* in order
  /\ IsPrefix(o, i)                                        \* a prefix of the counted entries
  /\ (limit # 0 - 1 => Counted(o, Len(o)) <= limit)        \* that fits
  /\ (Len(o) < Len(i) => limit # 0 - 1 /\ Counted(o, Len(o)) + Size(i[Len(o) + 1]) > limit)   \* the longest one
  /\ OnlyTB(out) = OnlyTB(es)                              \* grpc-trace-bin always kept
  /\ (flag <=> Len(out) < Len(es))                         \* truncated exactly when something was dropped

\* ---- metadata maps: md is a sequence of [k |-> key, vs |-> <<value, ...>>] with distinct keys ----
OfKey(out, k) == LET s == SelectSeq(out, LAMBDA e : e.key = k) IN [j \in 1..Len(s) |-> s[j].val]
MdKeys(md) == {md[i].k : i \in 1..Len(md)}
NumLoggable(md) == LET F[i \in 0..Len(md)] == IF i = 0 THEN 0 ELSE F[i-1] + (IF Omit(md[i].k) THEN 0 ELSE Len(md[i].vs)) IN F[Len(md)]
====
