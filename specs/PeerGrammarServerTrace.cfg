CONSTANTS
Caps = {1, 2}
Wins = {"normal", "tiny"}
Mutant = 0
TolerateReuse = 0
INIT Init
NEXT Next
POSTCONDITION Verdict
CHECK_DEADLOCK FALSE
