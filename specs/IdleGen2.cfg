CONSTANTS
Rpcs = {"r1"}
Conns = {"k1"}
Closers = {"c1"}
Calls = 2
MaxTimer = 2
BIG = 1000
Mutant = 0
INIT Init
NEXT Next
INVARIANT I_NeverIdleUnderRPC
INVARIANT I_Alternate
INVARIANT I_BeginLeavesIdle
CHECK_DEADLOCK FALSE
