CONSTANTS
MaxWin = 30
Mutant = 0
Limit = 8
TrLimit = 8
Msgs = {3, 12}
Frames = {3, 8, 10}
Pads = {0, 2}
NewLimits = {12, 20}
TrFrames = {3}
TrNewLimits = {12}
MaxSteps = 5
INIT Init
NEXT Next
CHECK_DEADLOCK FALSE
