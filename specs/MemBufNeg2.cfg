CONSTANTS
MaxRoots = 2
MaxH = 4
U = 1
Thr = 1
RABuf = 8
Mutant = 2
MaxEvents = 4
Sizes = {1, 2}
MaxK = 2
INIT Init
NEXT Next
INVARIANT I_PutExactlyAtLastFree
CHECK_DEADLOCK FALSE
