CONSTANTS
Types = {1, 2}
MaxW = 12
INIT Init
NEXT Next
POSTCONDITION Verdict
CHECK_DEADLOCK FALSE
