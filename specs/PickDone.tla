---- MODULE PickDone ----
(***************************************************************************)
(* C23: the Done callback of every pick result is called exactly once.     *)
(*                                                                         *)
(* Abstract life of one RPC on a channel (stream.go: clientStream /        *)
(* csAttempt, picker_wrapper.go: pick).  An RPC makes attempts; every      *)
(* attempt starts with a pick that yields a result with a Done callback    *)
(* (identified by a fresh id).  Then                                       *)
(*   - the picked subchannel is not READY: pick calls Done at once and     *)
(*     picks again ("notready");                                           *)
(*   - creating the stream fails because the transport was just closed:    *)
(*     the attempt is finished (Done) and transparently retried            *)
(*     ("connclosed");                                                     *)
(*   - the server refuses the stream (RST_STREAM REFUSED_STREAM): attempt  *)
(*     finished, transparent retry ("refused");                            *)
(*   - the server answers UNAVAILABLE trailers-only and the retry policy   *)
(*     allows a configured retry after a backoff ("unavail");              *)
(*   - the attempt is the last one and ends with a final outcome: success, *)
(*     server error, client cancel before / after the response headers,    *)
(*     deadline;                                                           *)
(*   - the pick result carries metadata that cannot be sent (invalid key): *)
(*     the attempt fails before a stream is created and is finished        *)
(*     ("badmd"; valid pick metadata is the normal case);                  *)
(*   - the RPC stays blocked in pick (its first pick hit a not-READY       *)
(*     subchannel, Done at once, and no new picker arrives) until its      *)
(*     context is cancelled or its deadline passes ("blocked").            *)
(* The context may end with a custom cause (context.WithCancelCause /      *)
(* WithTimeoutCause): `cause`.  Whatever the cause, the RPC returns.       *)
(* The same module (a) states the property as invariants checked by TLC    *)
(* and (b) enumerates the scenarios (its behaviours) that the e2e driver   *)
(* harness/virt/c23 replays against a real grpc.ClientConn; the recorded   *)
(* (pick, done) events are judged by PickDoneTrace.tla.                    *)
(***************************************************************************)
EXTENDS Integers, Sequences, FiniteSets, TLC
CONSTANTS Modes,       \* {"unary", "stream"}
          Pre,         \* client-side faults of the first attempt: subset of {"none", "notready", "connclosed", "badmd", "blocked"}
          Causes,      \* subset of BOOLEAN: the RPC's context ends with a custom cause
          SrvFaults,   \* server-side faults: subset of {"refused", "unavail"}
          Finals,      \* final outcomes
          MaxFaults,   \* number of server-side faults per RPC
          Mutant

VARIABLES mode, cause, phase, picks, dones, script, finished
vars == <<mode, cause, phase, picks, dones, script, finished>>

Ids == 1..(MaxFaults + 4)
Init == /\ mode \in Modes /\ cause \in Causes /\ phase = "new" /\ picks = 0 /\ dones = [i \in Ids |-> 0]
        /\ script = <<>> /\ finished = FALSE

DoneCall(i) == dones' = [dones EXCEPT ![i] = @ + 1]
NFaults == Cardinality({k \in 1..Len(script) : script[k] \in SrvFaults})

\* the first attempt, with its client-side fault
Begin(p) == /\ phase = "new" /\ p \in Pre /\ script' = <<p>> /\ UNCHANGED <<mode, cause>>
            /\ finished' = (p = "badmd")
            /\ CASE p = "none" -> picks' = 1 /\ phase' = "attempt" /\ UNCHANGED dones
                 \* the pick result's metadata is invalid: no stream, the attempt is finished, the RPC fails
                 \* Mutant 3: the result is dropped before it is bound to the attempt
                 [] p = "badmd" -> /\ picks' = 1 /\ phase' = "finished"
                                   /\ IF Mutant = 3 THEN UNCHANGED dones ELSE DoneCall(1)
                 \* pick 1 hits a not-READY subchannel (Done at once); no new picker: the RPC is blocked in pick
                 [] p = "blocked" -> picks' = 1 /\ phase' = "blocked" /\ DoneCall(1)
                 \* pick 1 hits a subchannel that is not READY: Done at once; pick 2 after the new picker
                 [] p = "notready" -> picks' = 2 /\ phase' = "attempt" /\ DoneCall(1)
                 \* pick 1 is READY but NewStream fails (transport closed): attempt finished, transparent retry;
                 \* the retry's pick 2 hits the now not-READY subchannel (Done at once); pick 3 after reconnection
                 [] p = "connclosed" -> /\ picks' = 3 /\ phase' = "attempt"
                                        /\ dones' = [dones EXCEPT ![1] = @ + 1, ![2] = @ + 1]
\* a server-side fault ends the current attempt; the RPC picks again
\* Mutant 1: the refused attempt is retried without being finished
Fault(f) == /\ phase = "attempt" /\ f \in SrvFaults /\ NFaults < MaxFaults
            /\ script' = Append(script, f) /\ picks' = picks + 1
            /\ IF Mutant = 1 /\ f = "refused" THEN UNCHANGED dones ELSE DoneCall(picks)
            /\ UNCHANGED <<mode, cause, phase, finished>>
\* the final outcome: the RPC finishes; clientStream.finish finishes the attempt
\* Mutant 2: a cancelled RPC finishes its attempt twice
Final(o) == /\ phase = "attempt" /\ o \in Finals
            /\ script' = Append(script, o) /\ phase' = "finished" /\ finished' = TRUE
            /\ dones' = [dones EXCEPT ![picks] = @ + (IF Mutant = 2 /\ o = "cancel_after" THEN 2 ELSE 1)]
            /\ UNCHANGED <<mode, cause, picks>>
\* the context of an RPC blocked in pick ends: the pick is woken and the RPC returns; no result is outstanding
EndBlocked(o) == /\ phase = "blocked" /\ o \in Finals \cap {"cancel_before", "deadline"}
                 /\ script' = Append(script, o) /\ phase' = "finished" /\ finished' = TRUE
                 /\ UNCHANGED <<mode, cause, picks, dones>>

Next == \/ \E p \in Pre : Begin(p)
        \/ \E f \in SrvFaults : Fault(f)
        \/ \E o \in Finals : Final(o) \/ EndBlocked(o)
Spec == Init /\ [][Next]_vars

\* ------------------------------------------------------------------ the property
I_DoneAtMostOnce == \A i \in Ids : dones[i] <= 1
I_DoneOnFinish == finished => \A i \in 1..picks : dones[i] = 1
\* while the RPC runs only the current attempt's result is outstanding
I_OneOutstanding == ~finished => \A i \in 1..picks : dones[i] = (IF i = picks /\ phase = "attempt" THEN 0 ELSE 1)
====
