---- MODULE PickDone ----
(***************************************************************************)
(* C23: the Done callback of every pick result is called exactly once.     *)
(*                                                                         *)
(* Abstract life of one RPC on a channel (stream.go: clientStream /        *)
(* csAttempt, picker_wrapper.go: pick).  An RPC makes attempts; every      *)
(* attempt starts with a pick that yields a result with a Done callback    *)
(* (identified by a fresh id).  Then                                       *)
(*   - the picked subchannel is not READY: pick calls Done at once and     *)
(*     picks again ("notready");                                           *)
(*   - creating the stream fails because the transport was just closed:    *)
(*     the attempt is finished (Done) and transparently retried            *)
(*     ("connclosed");                                                     *)
(*   - the server refuses the stream (RST_STREAM REFUSED_STREAM): attempt  *)
(*     finished, transparent retry ("refused");                            *)
(*   - the server answers UNAVAILABLE trailers-only and the retry policy   *)
(*     allows a configured retry after a backoff ("unavail");              *)
(*   - the attempt is the last one and ends with a final outcome: success, *)
(*     server error, client cancel before / after the response headers,    *)
(*     deadline.                                                           *)
(* The same module (a) states the property as invariants checked by TLC    *)
(* and (b) enumerates the scenarios (its behaviours) that the e2e driver   *)
(* harness/virt/c23 replays against a real grpc.ClientConn; the recorded   *)
(* (pick, done) events are judged by PickDoneTrace.tla.                    *)
(***************************************************************************)
EXTENDS Integers, Sequences, FiniteSets, TLC
CONSTANTS Modes,       \* {"unary", "stream"}
          Pre,         \* client-side faults of the first attempt: subset of {"none", "notready", "connclosed"}
          SrvFaults,   \* server-side faults: subset of {"refused", "unavail"}
          Finals,      \* final outcomes
          MaxFaults,   \* number of server-side faults per RPC
          Mutant

VARIABLES mode, phase, picks, dones, script, finished
vars == <<mode, phase, picks, dones, script, finished>>

Ids == 1..(MaxFaults + 4)
Init == /\ mode \in Modes /\ phase = "new" /\ picks = 0 /\ dones = [i \in Ids |-> 0]
        /\ script = <<>> /\ finished = FALSE

DoneCall(i) == dones' = [dones EXCEPT ![i] = @ + 1]
NFaults == Cardinality({k \in 1..Len(script) : script[k] \in SrvFaults})

\* the first attempt, with its client-side fault
Begin(p) == /\ phase = "new" /\ p \in Pre /\ script' = <<p>> /\ UNCHANGED <<mode, finished>>
            /\ CASE p = "none" -> picks' = 1 /\ phase' = "attempt" /\ UNCHANGED dones
                 \* pick 1 hits a subchannel that is not READY: Done at once; pick 2 after the new picker
                 [] p = "notready" -> picks' = 2 /\ phase' = "attempt" /\ DoneCall(1)
                 \* pick 1 is READY but NewStream fails (transport closed): attempt finished, transparent retry;
                 \* the retry's pick 2 hits the now not-READY subchannel (Done at once); pick 3 after reconnection
                 [] p = "connclosed" -> /\ picks' = 3 /\ phase' = "attempt"
                                        /\ dones' = [dones EXCEPT ![1] = @ + 1, ![2] = @ + 1]
\* a server-side fault ends the current attempt; the RPC picks again
\* Mutant 1: the refused attempt is retried without being finished
Fault(f) == /\ phase = "attempt" /\ f \in SrvFaults /\ NFaults < MaxFaults
            /\ script' = Append(script, f) /\ picks' = picks + 1
            /\ IF Mutant = 1 /\ f = "refused" THEN UNCHANGED dones ELSE DoneCall(picks)
            /\ UNCHANGED <<mode, phase, finished>>
\* the final outcome: the RPC finishes; clientStream.finish finishes the attempt
\* Mutant 2: a cancelled RPC finishes its attempt twice
Final(o) == /\ phase = "attempt" /\ o \in Finals
            /\ script' = Append(script, o) /\ phase' = "finished" /\ finished' = TRUE
            /\ dones' = [dones EXCEPT ![picks] = @ + (IF Mutant = 2 /\ o = "cancel_after" THEN 2 ELSE 1)]
            /\ UNCHANGED <<mode, picks>>

Next == \/ \E p \in Pre : Begin(p)
        \/ \E f \in SrvFaults : Fault(f)
        \/ \E o \in Finals : Final(o)
Spec == Init /\ [][Next]_vars

\* ------------------------------------------------------------------ the property
I_DoneAtMostOnce == \A i \in Ids : dones[i] <= 1
I_DoneOnFinish == finished => \A i \in 1..picks : dones[i] = 1
\* while the RPC runs only the current attempt's result is outstanding
I_OneOutstanding == ~finished => \A i \in 1..picks : dones[i] = (IF i = picks THEN 0 ELSE 1)
====
