CONSTANTS
M = 3
MaxW = 1
Triple = 0
Mutant = 1
INIT Init
NEXT Next
INVARIANT I_VHost
INVARIANT I_FractionCount
INVARIANT I_WeightCount
INVARIANT I_FirstRoute
CHECK_DEADLOCK FALSE
