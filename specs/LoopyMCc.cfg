CONSTANTS
Mutant = 0
MaxFrame = 4
HdrLen = 1
Mod = 251
Streams = {1, 3}
ServerSide = FALSE
InitConn = 6
InitIWS = 3
Payloads = {0, 5}
Incs = {1, 4}
IWSs = {0, 6}
HdrClasses = {0}
MaxData = 2
MaxWU = 1
MaxSet = 1
MaxNoise = 0
INIT Init
NEXT Next
INVARIANT I_C01
INVARIANT I_C02
INVARIANT I_C03
INVARIANT I_NoNote
INVARIANT TypeOK
INVARIANT I_ActiveList
INVARIANT I_ActiveHasData
INVARIANT I_EmptyHasNone
INVARIANT I_QuotaLedger
INVARIANT I_WaitingHasNoQuota
INVARIANT I_EligActive
INVARIANT I_Cursor
CHECK_DEADLOCK FALSE
