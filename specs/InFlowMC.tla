---- MODULE InFlowMC ----
(* Bounded environment of InFlow for exhaustive checking and behaviour generation:
   - the peer sends DATA frames of any size in Frames (within or beyond its window) with padding in Pads;
     handleData consumes the padding at once (onRead(size - dataLen)): the forced step PadReadT;
   - the application follows Stream.read: requestRead(n) = maybeAdjust(n), then reads until n bytes are
     consumed, each read at most what is buffered;
   - BDP: NewLimitT / TrNewLimitT raise the limits; connection level: any DATA frame, reset. *)
EXTENDS InFlow
CONSTANTS Limit, TrLimit, Msgs, Frames, Pads, NewLimits, TrFrames, TrNewLimits, MaxSteps
VARIABLES want,      \* bytes the application still wants of the current message (0 = idle)
          buffered,  \* payload bytes in the stream's receive buffer
          mustPad,   \* padding of the frame just accepted, to be consumed by handleData
          steps
vars == <<fvars, want, buffered, mustPad, steps>>
Init == FInit(Limit, TrLimit) /\ want = 0 /\ buffered = 0 /\ mustPad = 0 /\ steps = 0
Tick == steps < MaxSteps /\ steps' = steps + 1
Live == ~dead /\ mustPad = 0
RequestT(n) == /\ Tick /\ Live /\ want = 0 /\ want' = n /\ MaybeAdjust(n) /\ UNCHANGED <<buffered, mustPad>>
DataT(n, p) == /\ Tick /\ Live /\ p <= n /\ OnData(n)
               /\ mustPad' = IF OnDataBad(n) THEN 0 ELSE p
               /\ buffered' = IF OnDataBad(n) THEN buffered ELSE buffered + (n - p)
               /\ UNCHANGED want
PadReadT(p) == /\ ~dead /\ mustPad > 0 /\ p = mustPad /\ OnRead(p) /\ mustPad' = 0 /\ UNCHANGED <<want, buffered, steps>>
ReadT(k) == /\ Tick /\ Live /\ want > 0 /\ k > 0 /\ k <= want /\ k <= buffered /\ OnRead(k)
            /\ want' = want - k /\ buffered' = buffered - k /\ UNCHANGED mustPad
NewLimitT(n) == Tick /\ Live /\ NewLimit(n) /\ UNCHANGED <<want, buffered, mustPad>>
TrDataT(n) == Tick /\ mustPad = 0 /\ TrOnData(n) /\ UNCHANGED <<want, buffered, mustPad>>
TrResetT == Tick /\ mustPad = 0 /\ trUnacked > 0 /\ TrReset /\ UNCHANGED <<want, buffered, mustPad>>
TrNewLimitT(n) == Tick /\ mustPad = 0 /\ TrNewLimit(n) /\ UNCHANGED <<want, buffered, mustPad>>
MaxRead == LET S == Msgs \cup Frames IN IF S = {} THEN 0 ELSE CHOOSE x \in S : \A y \in S : y <= x
Next == \/ \E n \in Msgs : RequestT(n)
        \/ \E n \in Frames, p \in Pads : DataT(n, p)
        \/ \E p \in Pads : PadReadT(p)
        \/ \E k \in 1..MaxRead : ReadT(k)
        \/ \E n \in NewLimits : NewLimitT(n)
        \/ \E n \in TrFrames : TrDataT(n)
        \/ TrResetT
        \/ \E n \in TrNewLimits : TrNewLimitT(n)
I_Buffered == (~dead /\ mustPad = 0) => buffered = unread
====
