CONSTANTS
TMutant = 1
N = 4
INIT Init
NEXT Next
INVARIANT I_TrailingColon
CHECK_DEADLOCK FALSE
