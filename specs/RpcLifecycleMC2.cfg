CONSTANTS
Mutant = 0
Points = {"resolver", "picker", "quota", "write", "recv", "recvmid", "backoff", "handler"}
Delays = {"none", "pick", "quota"}
Deadlines = {1, 999, 50000000, 50000001, 99999999, 100000000, 100000001, 399999999, 400000000, 400000001, 400000999, 400001000, 1000000000, 1000000001, 1000000999, 1500000500, 1800000000}
Cancels = {1, 299999999, 300000001, 700000000, 1000000000}
TRel = 300000000
End = 1900000000
INIT RInit
NEXT RNext
INVARIANT I_Terminates
INVARIANT I_ServerDeadline
INVARIANT I_ServerCancel
CHECK_DEADLOCK FALSE
