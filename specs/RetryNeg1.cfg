CONSTANTS
Mutant = 1
MaxSends = 2
MaxOps = 5
MaxAtts = {6}
Caps = {3, 5}
CodeSets = {{14}}
BufLimits = {20}
ThrMaxs = {0, 4}
Boffs = {1}
PBSet = {"none", "p7", "neg"}
Trigs = {"open", "late"}
FailCodes = {13, 14}
MaxRPCs = 1
ParkOn = FALSE
HdrActs = {"HF", "MF"}
UnprocActs = {"REF", "GOAWAY"}
INIT Init
NEXT Next
INVARIANT I_NoViol
INVARIANT I_Bound
INVARIANT I_Replay
INVARIANT I_Commit
INVARIANT I_Tokens
INVARIANT I_DelayIndex
CHECK_DEADLOCK FALSE
