CONSTANTS
Rpcs = {"r1", "r2"}
Conns = {"k1"}
Closers = {"c1"}
Calls = 2
MaxTimer = 3
BIG = 1000
Mutant = 1
INIT Init
NEXT Next
INVARIANT I_NeverIdleUnderRPC
INVARIANT I_Alternate
INVARIANT I_BeginLeavesIdle
INVARIANT I_Types
INVARIANT I_LockOwner
INVARIANT I_Sentinel
CHECK_DEADLOCK FALSE
