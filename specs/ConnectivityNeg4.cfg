CONSTANTS
NS = 2
MaxEv = 6
MaxUA = 2
AllowConnLost = TRUE
Mutant = 4
INIT Init
NEXT Next
INVARIANT I_NothingAfterShutdown
INVARIANT I_Transitions
CHECK_DEADLOCK FALSE
