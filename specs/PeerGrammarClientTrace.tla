---- MODULE PeerGrammarClientTrace ----
(***************************************************************************)
(* Trace validation for C11.  Lines (one real execution = reset ... closed)*)
(*   frame  the raw server emitted variant v (for V_* variants with the     *)
(*          header value val) for RPC r; done[i] = number                  *)
(*          of times RPC i has returned, code[i] = its status code         *)
(*          (100 = still running), observed at synctest quiescence         *)
(*   raw    a mutated byte stream was sent instead (no prediction)         *)
(*   end    observation after every deadline has passed: done, code,       *)
(*          ok[i] (status.FromError understood the error), tend[i] /       *)
(*          dl[i] = return time / deadline in virtual milliseconds, panic  *)
(*   closed observation after ClientConn.Close and the end of the peer     *)
(*   crash  the driver process died on this behaviour: kind = panic |      *)
(*          leak (synctest: blocked goroutines remain) | hang              *)
(* Level A = the generic clauses; the status code predicted by             *)
(* PeerGrammarClient is compared as Drift only.                            *)
(***************************************************************************)
EXTENDS PeerGrammarClient, TraceIO
VARIABLES l, ocode
vars == <<cvars, l, ocode>>
Fresh == /\ conn = "up" /\ st = [r \in 1..2 |-> "open"] /\ code = [r \in 1..2 |-> Running]
         /\ ngc = [r \in 1..2 |-> 0] /\ msgs = [r \in 1..2 |-> 0] /\ prevGA = 0 /\ expired = FALSE /\ viol = "none"
Init == Fresh /\ nrpc = 1 /\ l = 1 /\ ocode = <<Running, Running>> /\ InitRegs
Ev == Trace[l]
N(e) == Len(e.code)
\* generic: an RPC that has returned keeps its status and returns only once
Stable(e) == /\ Mark(\E i \in 1..N(e) : ocode[i] # Running /\ e.code[i] # ocode[i], "I_OneStatus", l)
             /\ Mark(\E i \in 1..N(e) : e.done[i] > 1, "I_OneStatus", l)
             /\ ocode' = [i \in 1..2 |-> IF i <= N(e) THEN e.code[i] ELSE ocode[i]]
\* Level I prediction vs observation (never a verdict)
Predicted(e) == /\ Drift(\E i \in 1..N(e) : st'[i] # "unk" /\ (code'[i] = Running) # (e.code[i] = Running), "D_Termination", l)
                /\ Drift(\E i \in 1..N(e) : code'[i] \notin {Running, AnyCode} /\ e.code[i] # Running /\ e.code[i] # code'[i],
                         "D_StatusCode", l)
Applicable(v, r) == conn # "dead" /\ ~expired /\ ((r = 0 /\ v \in ConnV) \/ (r \in Rpcs /\ v \in StreamV))
Unpredictable == /\ st' = [r \in 1..2 |-> IF st[r] = "done" THEN "done" ELSE "unk"]
                 /\ UNCHANGED <<conn, code, ngc, msgs, prevGA, nrpc, expired, viol>>
Step ==
  CASE Ev.ev = "frame" -> /\ (IF Ev.v \in ValK
                                THEN (IF conn # "dead" /\ ~expired /\ Ev.r \in Rpcs THEN ValFrame(Ev.v, Ev.val, Ev.r) ELSE UNCHANGED cvars)
                                ELSE (IF Applicable(Ev.v, Ev.r) THEN Frame(Ev.v, Ev.r) ELSE UNCHANGED cvars))
                          /\ Stable(Ev) /\ Predicted(Ev)
    [] Ev.ev = "raw" -> Unpredictable /\ Stable(Ev)
    [] Ev.ev = "end" -> /\ (IF expired THEN UNCHANGED cvars ELSE Expire)
                        /\ Stable(Ev) /\ Predicted(Ev)
                        /\ Mark(Ev.panic # 0, "I_NoPanic", l)
                        /\ Mark(\E i \in 1..N(Ev) : Ev.done[i] = 0, "I_Deadline", l)
                        /\ Mark(\E i \in 1..N(Ev) : Ev.done[i] > 0 /\ Ev.tend[i] > Ev.dl[i], "I_Deadline", l)
                        /\ Mark(\E i \in 1..N(Ev) : ~Ev.ok[i], "I_OneStatus", l)
    [] Ev.ev = "closed" -> /\ UNCHANGED <<cvars, ocode>>
                           /\ Mark(\E i \in 1..Len(Ev.done) : Ev.done[i] # 1, "I_OneStatus", l)
    [] Ev.ev = "crash" -> /\ UNCHANGED <<cvars, ocode>>
                          /\ Mark(Ev.kind = "panic", "I_NoPanic", l)
                          /\ Mark(Ev.kind = "leak", "I_NoLeak", l)
                          /\ Mark(Ev.kind = "hang", "I_NoHang", l)
    [] Ev.ev = "reset" -> /\ conn' = "up" /\ st' = [r \in 1..2 |-> "open"] /\ code' = [r \in 1..2 |-> Running]
                          /\ ngc' = [r \in 1..2 |-> 0] /\ msgs' = [r \in 1..2 |-> 0] /\ prevGA' = 0 /\ expired' = FALSE
                          /\ viol' = "none" /\ nrpc' = Ev.nrpc /\ ocode' = <<Running, Running>>
Next == l <= TLen /\ l' = l + 1 /\ Consumed(l) /\ Step
====
