---- MODULE WriteQuota ----
(***************************************************************************)
(* Level-I model of internal/transport/flowcontrol.go writeQuota (C17a):   *)
(* get(sz) and realReplenish(n).                                           *)
(*                                                                         *)
(* One action per atomic step; the action NAME is the gate at which the    *)
(* goroutine waits before the step: verifhook points "wq.g_load" (before   *)
(* the atomic load), "wq.g_add" (before the atomic add), "wq.g_wait"       *)
(* (before the select on ch/done), "wq.r_send" (after the atomic add of    *)
(* realReplenish, before the conditional non-blocking send) and the driver *)
(* gates "r_add" (before realReplenish is called) and "cdone".             *)
(*                                                                         *)
(* ONE writer: writes on a stream are serial by the transport's contract   *)
(* (with two writers TLC shows that the one-slot token can be consumed by  *)
(* the wrong one), so a second writer is outside the domain.  The          *)
(* replenisher plays loopy: it returns, in pieces, only bytes that were    *)
(* granted before (rpend).  A writer parked in the select is the pc value  *)
(* "g_wait", whose action is enabled only when the select can proceed.     *)
(***************************************************************************)
EXTENDS Integers, Sequences, FiniteSets, TLC
CONSTANTS Writers, Sizes,     \* Sizes: sequence of write sizes the writer performs
          InitQ, Pieces,      \* the replenisher returns rpend completely or a piece from Pieces
          UseDone, Mutant
VARIABLES quota, tok, done, pc, widx, failed, rpend, rnew, rsz, granted, replenished
vars == <<quota, tok, done, pc, widx, failed, rpend, rnew, rsz, granted, replenished>>

Repl == {"r"}
DoneT == {"d"}
Thr == Writers \cup Repl \cup DoneT

Init == /\ quota = InitQ /\ tok = 0 /\ done = FALSE
        /\ pc = [t \in Thr |-> IF t \in Writers THEN "g_load" ELSE IF t \in Repl THEN "r_add"
                               ELSE (IF UseDone THEN "cdone" ELSE "end")]
        /\ widx = [w \in Writers |-> 1] /\ failed = {}
        /\ rpend = 0      \* bytes handed to loopy, not yet replenished
        /\ rnew = 0 /\ rsz = 0 /\ granted = 0 /\ replenished = 0
Sz(w) == Sizes[widx[w]]
Goto(t, p) == pc' = [pc EXCEPT ![t] = p]

\* get(sz): if atomic.LoadInt32(&w.quota) > 0
g_load(w) == /\ w \in Writers /\ pc[w] = "g_load"
             /\ Goto(w, IF quota > 0 THEN "g_add" ELSE "g_wait")
             /\ UNCHANGED <<quota, tok, done, widx, failed, rpend, rnew, rsz, granted, replenished>>
\* atomic.AddInt32(&w.quota, -sz); return nil     (the data is now queued for loopy)
g_add(w) == /\ w \in Writers /\ pc[w] = "g_add"
            /\ quota' = quota - Sz(w) /\ granted' = granted + Sz(w) /\ rpend' = rpend + Sz(w)
            /\ widx' = [widx EXCEPT ![w] = @ + 1]
            /\ Goto(w, IF widx[w] < Len(Sizes) THEN "g_load" ELSE "end")
            /\ UNCHANGED <<tok, done, failed, rnew, rsz, replenished>>
\* select { case <-w.ch: continue; case <-w.done: return errStreamDone }
g_wait(w) == /\ w \in Writers /\ pc[w] = "g_wait"
             /\ \/ tok = 1 /\ tok' = 0 /\ Goto(w, "g_load") /\ failed' = failed
                \/ done /\ tok' = tok /\ Goto(w, "end") /\ failed' = failed \cup {w}
             /\ UNCHANGED <<quota, done, widx, rpend, rnew, rsz, granted, replenished>>

\* realReplenish(n): newQuota := atomic.AddInt32(&w.quota, n)
r_add(r) == /\ r \in Repl /\ pc[r] = "r_add" /\ rpend > 0
            /\ \E n \in 1..rpend : /\ (n = rpend \/ n \in Pieces)
                                   /\ quota' = quota + n /\ rnew' = quota + n /\ rsz' = n
                                   /\ rpend' = rpend - n /\ replenished' = replenished + n
            /\ Goto(r, "r_send")
            /\ UNCHANGED <<tok, done, widx, failed, granted>>
\* if previousQuota <= 0 && newQuota > 0 { non-blocking send on w.ch }
\* Mutant 1: the comparison is previousQuota < 0;  Mutant 2: nothing is ever sent
Crossing == IF Mutant = 1 THEN rnew - rsz < 0 /\ rnew > 0
            ELSE IF Mutant = 2 THEN FALSE
            ELSE rnew - rsz <= 0 /\ rnew > 0
r_send(r) == /\ r \in Repl /\ pc[r] = "r_send"
             /\ tok' = IF Crossing THEN 1 ELSE tok
             /\ Goto(r, "r_add")
             /\ UNCHANGED <<quota, done, widx, failed, rpend, rnew, rsz, granted, replenished>>
cdone(t) == /\ t \in DoneT /\ pc[t] = "cdone" /\ done' = TRUE /\ Goto(t, "end")
            /\ UNCHANGED <<quota, tok, widx, failed, rpend, rnew, rsz, granted, replenished>>

Next == \/ \E w \in Writers : g_load(w) \/ g_add(w) \/ g_wait(w)
        \/ \E r \in Repl : r_add(r) \/ r_send(r)
        \/ \E t \in DoneT : cdone(t)
Spec == Init /\ [][Next]_vars
Fair == Spec /\ (\A r \in Repl : WF_vars(r_add(r)) /\ WF_vars(r_send(r)))
             /\ (\A w \in Writers : WF_vars(g_load(w)) /\ WF_vars(g_add(w)) /\ WF_vars(g_wait(w)))

\* ------------------------------------------------------------------ properties
I_Conserve == quota = InitQ - granted + replenished
\* safety form of "a blocked sender is released once enough was written": while the writer is parked
\* and quota is positive, a wake-up is in the channel or a replenisher is about to send one
CrossingPending == \E r \in Repl : pc[r] = "r_send" /\ rnew - rsz <= 0 /\ rnew > 0
I_NoLostWake == \A w \in Writers : (pc[w] = "g_wait" /\ quota > 0) => (tok = 1 \/ CrossingPending)
\* quota returns to the initial value once everything that was granted has been written
I_BackToInit == (rpend = 0 /\ \A r \in Repl : pc[r] = "r_add") => quota = InitQ
I_Types == tok \in 0..1 /\ rpend >= 0
AllWritten == \A w \in Writers : pc[w] = "end"
P_AllWrite == <>AllWritten
P_Release == \A w \in Writers : (pc[w] = "g_wait") ~> (pc[w] # "g_wait")

SizesA == <<5, 1, 3>>
SizesB == <<5, 1, 3, 2, 4>>
====
