CONSTANTS
NK = 3
Sizes = {1, 2}
Dlys = {0, 2}
Ttls = {3}
Resizes = {1, 2}
MaxNow = 2
MaxEvents = 4
InitMax = 3
Mutant = 0
INIT Init
NEXT Next
INVARIANT I_SizeIsSum
INVARIANT I_LruKeys
INVARIANT I_LruIsRecency
INVARIANT I_EvictLRU
CHECK_DEADLOCK FALSE
