CONSTANTS
B = 4
N = 2
MaxRaw = 2
Deep = 0
Mutant = 1
INIT Init
NEXT Next
INVARIANT I_Raw
CHECK_DEADLOCK FALSE
