CONSTANTS
MaxN = 4
Mutant = 0
INIT Init
NEXT Next
INVARIANT I_TruncProp
INVARIANT I_Msg
INVARIANT I_Omit
CHECK_DEADLOCK FALSE
