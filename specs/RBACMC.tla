---- MODULE RBACMC ----
(***************************************************************************)
(* Stage (a) for C48.  One TLC state per abstract input (kind, x), each the  *)
(* successor of a seed state:                                              *)
(*   req          a request of the bounded request domain Reqs             *)
(*   pleaf/qleaf  every permission / principal leaf matcher                *)
(*   ptree/qtree  every permission / principal tree of depth <= 2 over     *)
(*                three leaves                                             *)
(*   chain        every chain of <= 2 engines x {ALLOW, DENY} x <= 2       *)
(*                policies out of four                                     *)
(*   rule         every authorization rule body of the rule vocabulary     *)
(*   authz        every authorization policy with <= 2 deny and 1..2 allow *)
(*                rules over 4 rule bodies x names {r, s} (repeated names  *)
(*                included) plus a few invalid ones                        *)
(* The invariants check the reference against the property statement for  *)
(* ALL requests of Reqs; the states are exported (graph dump) and replayed *)
(* on the real code.                                                       *)
(***************************************************************************)
EXTENDS RBAC, TLC
CONSTANTS Mutant, Big, Only      \* Only: "all", or the single input kind to enumerate
VARIABLES kind, x
vars == <<kind, x>>

\* ---- vocabulary (bytes) ----
PM1 == <<47, 115, 47, 109, 49>>        \* "/s/m1"
PM2 == <<47, 115, 47, 109, 50>>        \* "/s/m2"
PT1 == <<47, 116, 47, 109, 49>>        \* "/t/m1"
PS  == <<47, 115, 47>>                 \* "/s/"
SM1 == <<47, 109, 49>>                 \* "/m1"
VA  == <<97>>                          \* "a"
VAB == <<97, 98>>                      \* "ab"
VB  == <<98>>                          \* "b"
SPF == <<115, 112, 105, 102, 102, 101, 58, 47, 47>>   \* "spiffe://"
UA  == SPF \o <<97>>                   \* "spiffe://a"
UB  == SPF \o <<98>>
DT  == <<46, 116, 101, 115, 116>>      \* ".test"
DA  == <<97>> \o DT                    \* "a.test"
DB  == <<98>> \o DT
CNA == <<67, 78, 61, 97>>              \* "CN=a"
StarP == <<42>>

\* ---- requests ----
Req(p, h, f, s, d, po, au) ==
  [path |-> p, hv |-> h, fam |-> f, src |-> s, dst |-> d, port |-> po,
   auth |-> au.auth, cert |-> au.cert, uris |-> au.uris, dns |-> au.dns, cn |-> au.cn]
Au(a, c, u, d, n) == [auth |-> a, cert |-> c, uris |-> u, dns |-> d, cn |-> n]
Auths == {Au("none", 0, <<>>, <<>>, <<>>), Au("tls", 0, <<>>, <<>>, <<>>),
          Au("tls", 1, <<UA>>, <<DB>>, VA), Au("tls", 1, <<UB, UA>>, <<>>, <<>>),
          Au("tls", 1, <<>>, <<DA>>, VA), Au("tls", 1, <<>>, <<DB, DA>>, VB),
          Au("tls", 1, <<>>, <<>>, VA), Au("tls", 1, <<>>, <<>>, <<>>)}
Insecure == Au("none", 0, <<>>, <<>>, <<>>)
Hvs == {<<>>, <<VA>>, <<VAB>>, <<VA, VB>>}
\* permission-side attributes vary in PermReqs, principal-side attributes in PrinReqs
PermReqs == {Req(p, h, 4, 6, 2, 80, Insecure) : p \in {PM1, PM2, PT1}, h \in Hvs}
            \cup {Req(PM1, <<VA>>, fd[1], 6, fd[2], po, Insecure) :
                    fd \in {<<4, 2>>, <<4, 9>>, <<6, 2>>, <<6, 11>>}, po \in {80, 81}}
PrinReqs == {Req(PM1, <<VA>>, fs[1], fs[2], 2, 80, au) :
               fs \in {<<4, 1>>, <<4, 6>>, <<4, 13>>, <<6, 1>>, <<6, 6>>, <<6, 12>>}, au \in Auths}
            \cup {Req(PT1, <<>>, 4, 6, 2, 81, au) : au \in Auths}
Reqs == PermReqs \cup PrinReqs
\* authorization rules do not look at addresses or ports
AuthzReqs == {r \in Reqs : r.fam = 4 /\ r.src = 6 /\ r.dst = 2}

\* ---- leaves ----
AnyT == [k |-> "any"]
Hdr(n, m, v) == [k |-> "hdr", n |-> n, m |-> m, v |-> v]
Path(m, v) == [k |-> "path", m |-> m, v |-> v]
Cidr(kd, f, a, l) == [k |-> kd, f |-> f, a |-> a, l |-> l]
Auth(m, v) == [k |-> "auth", m |-> m, v |-> v]
Not(t) == [k |-> "not", c |-> <<t>>]
And(ts) == [k |-> "and", c |-> ts]
Or(ts) == [k |-> "or", c |-> ts]
CidrSet(kd) == {Cidr(kd, f, a, l) : f \in {4, 6}, a \in {0, 2, 6, 9, 15}, l \in 0..4}
CommonLeaves == {AnyT, Hdr("x-k", "exact", VA), Hdr("x-k", "prefix", VA), Hdr("x-k", "suffix", VB),
                 Hdr("x-k", "contains", VB), Hdr("x-k", "present", <<>>), Hdr("x-k", "nonempty", <<>>),
                 Hdr("x-k", "exact", <<97, 44, 98>>), Hdr("x-j", "present", <<>>),
                 Hdr(":method", "exact", BPost), Hdr(":path", "exact", PM1), Hdr(":path", "prefix", PS),
                 Path("exact", PM1), Path("prefix", PS), Path("suffix", SM1), Path("contains", <<115, 47, 109>>),
                 Path("nonempty", <<>>), [k |-> "meta", inv |-> FALSE], [k |-> "meta", inv |-> TRUE]}
PermLeaves == CommonLeaves \cup CidrSet("dip")
              \cup {[k |-> "port", p |-> 80], [k |-> "port", p |-> 81], [k |-> "port", p |-> 0],
                    [k |-> "sni", m |-> "exact", v |-> <<>>], [k |-> "sni", m |-> "exact", v |-> VA],
                    [k |-> "sni", m |-> "nonempty", v |-> <<>>]}
PrinLeaves == CommonLeaves \cup CidrSet("sip")
              \cup {Auth("none", <<>>), Auth("exact", UA), Auth("exact", DA), Auth("exact", DB), Auth("exact", CNA),
                    Auth("exact", <<>>), Auth("prefix", SPF), Auth("suffix", DT), Auth("nonempty", <<>>),
                    Auth("contains", <<61>>)}

\* ---- trees of depth <= 2 over three leaves ----
D1(L) == L \cup {Not(a) : a \in L} \cup {And(<<>>), Or(<<>>)}
         \cup {And(<<a, b>>) : a, b \in L} \cup {Or(<<a, b>>) : a, b \in L}
D2(L) == D1(L) \cup {Not(a) : a \in D1(L)}
         \cup (IF Big = 1 THEN {And(<<a, b>>) : a, b \in D1(L)} \cup {Or(<<a, b>>) : a, b \in D1(L)}
               ELSE {And(<<a, b>>) : a \in D1(L), b \in L} \cup {Or(<<a, b>>) : a \in L, b \in D1(L)})
PL3 == {Hdr("x-k", "exact", VA), Path("prefix", PS), [k |-> "port", p |-> 80]}
QL3 == {Auth("exact", UA), Cidr("sip", 4, 4, 2), Auth("none", <<>>)}
PTrees == D2(PL3)
QTrees == D2(QL3)

\* ---- chains ----
Pol(pe, pr) == [perms |-> pe, prins |-> pr]
Pols4 == {Pol(<<Path("exact", PM1)>>, <<AnyT>>), Pol(<<AnyT>>, <<Auth("none", <<>>)>>),
          Pol(<<Hdr("x-k", "prefix", VA), [k |-> "port", p |-> 81]>>, <<Cidr("sip", 4, 4, 2), Auth("suffix", DT)>>)}
         \cup (IF Big = 1 THEN {Pol(<<Not(Path("prefix", PS))>>, <<Not(Auth("exact", UA))>>)} ELSE {})
PolLists == {<<>>} \cup {<<p>> : p \in Pols4} \cup {<<p, q>> : p, q \in Pols4}
Engines == {[action |-> a, policies |-> ps] : a \in {"ALLOW", "DENY"}, ps \in PolLists}
EnginesSmall == {[action |-> a, policies |-> ps] : a \in {"ALLOW", "DENY"},
                 ps \in {<<>>} \cup {<<p>> : p \in Pols4} \cup {<<p, q>> \in Pols4 \X Pols4 : p # q}}
Chains == {<<>>} \cup {<<e>> : e \in Engines}
          \cup {<<e, g>> : e \in (IF Big = 1 THEN Engines ELSE EnginesSmall), g \in EnginesSmall}

\* ---- authorization policies ----
Rule(n, pr, pa, hd) == [name |-> n, prins |-> pr, paths |-> pa, hdrs |-> hd]
H(k, vs) == [key |-> k, vals |-> vs]
PrinSets == {<<>>, <<UA>>, <<StarP>>, <<<<42>> \o DT>>, <<SPF \o <<42>>, CNA>>, <<DB, DA>>}
PathSets == {<<>>, <<PM1>>, <<PS \o <<42>>>>, <<<<42>> \o SM1>>, <<StarP>>, <<PM2, PT1>>}
HdrSets  == {<<>>, <<H("x-k", <<VA>>)>>, <<H("x-k", <<VA \o <<42>>, <<42>> \o VB>>)>>, <<H("x-k", <<StarP>>)>>,
             <<H("x-k", <<VAB>>), H("x-j", <<StarP>>)>>, <<H("x-k", <<<<42>> \o VB>>), H("x-k", <<VA \o <<42>>>>)>>}
RuleBodies == {Rule(<<114>>, pr, pa, hd) : pr \in PrinSets, pa \in PathSets, hd \in HdrSets}
Bodies4 == {<<<<>>, <<PM1>>, <<>>>>, <<<<UA>>, <<>>, <<>>>>,
            <<<<>>, <<PS \o <<42>>>>, <<H("x-k", <<VA \o <<42>>>>)>>>>, <<<<StarP>>, <<<<42>> \o SM1>>, <<>>>>}
Rules8 == {Rule(n, b[1], b[2], b[3]) : n \in {<<114>>, <<115>>}, b \in Bodies4}
RuleLists(min) == (IF min = 0 THEN {<<>>} ELSE {}) \cup {<<u>> : u \in Rules8} \cup {<<u, w>> : u, w \in Rules8}
AllowAll == Rule(<<97>>, <<>>, <<>>, <<>>)
Policy(d, a) == [name |-> <<112>>, deny |-> d, allow |-> a]
Policies8 == {q \in {Policy(d, a) : d \in RuleLists(0), a \in RuleLists(1)} :
                Big = 1 \/ Len(q.deny) + Len(q.allow) <= 3}
Invalid == {[name |-> <<>>, deny |-> <<>>, allow |-> <<AllowAll>>], Policy(<<AllowAll>>, <<>>),
            Policy(<<>>, <<Rule(<<>>, <<>>, <<>>, <<>>)>>), Policy(<<Rule(<<>>, <<>>, <<PM1>>, <<>>)>>, <<AllowAll>>),
            Policy(<<>>, <<Rule(<<114>>, <<>>, <<>>, <<H("te", <<VA>>)>>)>>),
            Policy(<<>>, <<Rule(<<114>>, <<>>, <<>>, <<H(":path", <<VA>>)>>)>>),
            Policy(<<>>, <<Rule(<<114>>, <<>>, <<>>, <<H("x-k", <<>>)>>)>>),
            Policy(<<>>, <<Rule(<<114>>, <<>>, <<>>, <<H("grpc-timeout", <<VA>>)>>)>>)}
RulePolicies == {Policy(<<>>, <<u>>) : u \in RuleBodies} \cup {Policy(<<u>>, <<AllowAll>>) : u \in RuleBodies}

\* One initial "seed" state per group of inputs; its successors are the inputs of the group (so
\* that TLC's workers share the enumeration and the invariant evaluation).
On(k) == Only \in {"all", k}
Seeds == {<<"req", "a">>, <<"pleaf", "a">>, <<"qleaf", "a">>, <<"ptree", "a">>, <<"qtree", "a">>,
          <<"chain", "a">>, <<"chain", "b">>, <<"rule", "a">>, <<"rule", "b">>, <<"authz", "a">>, <<"authz", "b">>}
Group(s) ==
  CASE s[1] = "req"   -> Reqs
    [] s[1] = "pleaf" -> PermLeaves
    [] s[1] = "qleaf" -> PrinLeaves
    [] s[1] = "ptree" -> PTrees
    [] s[1] = "qtree" -> QTrees
    [] s[1] = "chain" -> {c \in Chains : (s[2] = "a") = (Len(c) < 2 \/ c[1].action = "ALLOW")}
    [] s[1] = "rule"  -> {q \in RulePolicies : (s[2] = "a") = (q.deny = <<>>)}
    [] OTHER          -> {q \in Policies8 \cup Invalid : (s[2] = "a") = (Len(q.deny) < 2)}
Init == kind = "seed" /\ x \in {s \in Seeds : On(s[1])}
Next == kind = "seed" /\ kind' = x[1] /\ x' \in Group(x)

\* ---- the reference against the property statement ----
Modes == {"first", "all"}
IsTree == kind \in {"pleaf", "qleaf", "ptree", "qtree"}
\* the connectives are the Boolean ones (double negation, De Morgan, units)
I_TreeLaws ==
  IsTree => \A r \in Reqs :
    /\ Eval(Not(x), r, "first") = ~Eval(x, r, "first")
    /\ Eval(And(<<x, AnyT>>), r, "first") = Eval(x, r, "first")
    /\ Eval(Or(<<x, Not(AnyT)>>), r, "first") = Eval(x, r, "first")
    /\ (x.k = "and" => Eval(x, r, "first") = ~Eval(Or([i \in 1..Len(x.c) |-> Not(x.c[i])]), r, "first"))
    /\ (x.k = "or"  => Eval(x, r, "first") = ~Eval(And([i \in 1..Len(x.c) |-> Not(x.c[i])]), r, "first"))
    \* the two readings of the principal-name rule differ only when an earlier source is non-empty
    /\ (Eval(x, r, "first") # Eval(x, r, "all") => r.cert = 1 /\ Len(r.uris) + Len(r.dns) > 0)
\* a tree used as the only permission (principal) of the only policy of an ALLOW engine decides alone
I_TreeAsPolicy ==
  IsTree => \A r \in Reqs :
    /\ Chain(<<[action |-> "ALLOW", policies |-> <<Pol(<<x>>, <<AnyT>>)>>]>>, r, "first") = Eval(x, r, "first")
    /\ Chain(<<[action |-> "DENY", policies |-> <<Pol(<<AnyT>>, <<x>>)>>]>>, r, "all") = ~Eval(x, r, "all")
\* the engine chain: declarative statement = in-order evaluation; more engines never allow more
ChainOf(e) == IF Mutant = 2   \* negative control: a trailing ALLOW engine is not consulted
              THEN (IF Len(e) > 0 /\ e[Len(e)].action = "ALLOW" THEN SubSeq(e, 1, Len(e) - 1) ELSE e) ELSE e
I_Chain ==
  kind = "chain" => \A r \in Reqs, md \in {"first"} :
    /\ ChainSeq(ChainOf(x), r, md) = Chain(x, r, md)
    /\ \A i \in 1..Len(x) : Chain(x, r, md) => Chain(<<x[i]>>, r, md)
    /\ Chain(x \o <<[action |-> "DENY", policies |-> <<>>]>>, r, md) = Chain(x, r, md)
    /\ ~Chain(x \o <<[action |-> "ALLOW", policies |-> <<>>]>>, r, md)
\* authorization policies: the translation to an RBAC chain decides exactly as the property says
I_Authz ==
  (kind \in {"rule", "authz"} /\ AuthzValid(x)) =>
    LET es == Translate(x, Mutant = 1) IN
    \A r \in AuthzReqs, md \in Modes : Chain(es, r, md) = Authz(x, r, md)
====
