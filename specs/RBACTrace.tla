---- MODULE RBACTrace ----
(***************************************************************************)
(* Stage (e) for C48: validates the decisions recorded from the real       *)
(* rbac.ChainEngine.IsAuthorized and authz.StaticInterceptor against the   *)
(* reference RBAC.tla.  Events:                                            *)
(*   reqs   reqs : the request table used by the following lines           *)
(*   chain  engines, built, ri (0-based indices into the table), dec       *)
(*   authz  policy, ok (translator accepted), ri, dec                      *)
(* dec[i]: 1 allowed, 0 PermissionDenied, 2 any other error.               *)
(* Suppress = 1 turns the known-finding clause C48_AuthzDupName into drift *)
(* (second pass, to look for any OTHER violation).                         *)
(***************************************************************************)
EXTENDS RBAC, TraceIO
CONSTANT Suppress
VARIABLES l, reqs
vars == <<l, reqs>>
Init == l = 1 /\ reqs = <<>> /\ InitRegs
Ev == Trace[l]

R(e, i) == reqs[e.ri[i] + 1]
Idx(e) == 1..Len(e.dec)

CheckChain(e) ==
  LET \* decisions that agree with neither reading of the principal-name rule
      NotFirst == {i \in Idx(e) : (e.dec[i] = 1) # Chain(e.engines, R(e, i), "first")}
      Bad == {i \in NotFirst : (e.dec[i] = 1) # Chain(e.engines, R(e, i), "all")}
  IN /\ Mark(~e.built, "C48_ChainRejected", l)
     /\ Mark(e.built /\ \E i \in Idx(e) : e.dec[i] = 2, "C48_InternalError", l)
     /\ Mark(e.built /\ Bad # {}, "C48_ChainDecision", l)
     /\ Drift(e.built /\ NotFirst # {}, "C48_PrincipalNameOtherReading", l)

CheckAuthz(e) ==
  LET p == e.policy
      NotFirst == {i \in Idx(e) : (e.dec[i] = 1) # Authz(p, R(e, i), "first")}
      Bad == {i \in NotFirst : (e.dec[i] = 1) # Authz(p, R(e, i), "all")}
      \* the known finding: a rule name is repeated in one list and the decision is the one of
      \* the policy in which a later rule of the same name replaced the earlier one
      keyed == Translate(p, TRUE)
      Known == {i \in Bad : /\ HasDup(p)
                            /\ \/ (e.dec[i] = 1) = Chain(keyed, R(e, i), "first")
                               \/ (e.dec[i] = 1) = Chain(keyed, R(e, i), "all")}
  IN IF ~e.ok THEN Drift(AuthzValid(p), "C48_TranslatorRejectsValidPolicy", l)
     ELSE /\ Drift(~AuthzValid(p), "C48_TranslatorAcceptsInvalidPolicy", l)
          /\ Mark(\E i \in Idx(e) : e.dec[i] = 2, "C48_InternalError", l)
          /\ Mark(Bad \ Known # {}, "C48_AuthzDecision", l)
          /\ IF Suppress = 1 THEN Drift(Known # {}, "C48_AuthzDupName", l)
             ELSE Mark(Known # {}, "C48_AuthzDupName", l)
          /\ Drift(NotFirst \ Known # {}, "C48_AuthzOtherReading", l)

Next == /\ l <= TLen /\ l' = l + 1 /\ Consumed(l)
        /\ CASE Ev.ev = "reqs"  -> reqs' = Ev.reqs
             [] Ev.ev = "chain" -> reqs' = reqs /\ CheckChain(Ev)
             [] Ev.ev = "authz" -> reqs' = reqs /\ CheckAuthz(Ev)
             [] Ev.ev = "panic" -> reqs' = reqs /\ Mark(TRUE, "C48_Panic", l)
             [] OTHER -> reqs' = reqs /\ Ev.ev = "reset"
====
