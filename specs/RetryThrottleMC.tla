---- MODULE RetryThrottleMC ----
EXTENDS RetryThrottle
CONSTANTS Maxes, Ratios, MaxSteps
vars == tvars
Init == \E m \in Maxes, r \in Ratios : TInitWith(m, r)
FailureT == nsteps < MaxSteps /\ Failure
SuccessT == nsteps < MaxSteps /\ Success
Next == FailureT \/ SuccessT
\* the bucket invariant is inductive: it is preserved from ANY in-range state (checked from all such states)
InitAny == /\ max \in Maxes /\ ratio \in Ratios /\ tokens \in 0..max /\ refused \in BOOLEAN /\ nsteps = MaxSteps - 1
           /\ (refused => 2 * tokens <= max)
====
