---- MODULE BinaryLogMC ----
(* Stage (a) for C55: <= MaxN entries with sizes {1,2,5} and grpc-trace-bin at every position, limits
   {0..8, unlimited}: the reference Trunc satisfies the property statement TruncProp, the omission predicate
   matches the list in the property, the message reference is a bounded prefix.
   Mutant = 1: the reference cuts the list at the first entry that does not fit (negative control). *)
EXTENDS BinaryLog, TLC
CONSTANTS MaxN, Mutant
VARIABLES kind, x
vars == <<kind, x>>
E1 == [key |-> <<97>>, val |-> <<>>]
E2 == [key |-> <<98>>, val |-> <<120>>]
E5 == [key |-> <<99, 99>>, val |-> <<120, 121, 122>>]
TB == [key |-> TraceBin, val |-> <<84, 84>>]
Pool == {E1, E2, E5, TB}
Lists == UNION {[1..n -> Pool] : n \in 0..MaxN}
Limits == (0 - 1)..8
Ref(es, limit) == IF Mutant = 1 THEN TruncCutAll(es, limit) ELSE Trunc(es, limit)
Init == \/ kind = "trunc" /\ x \in [es : Lists, limit : Limits]
        \/ kind = "msg" /\ x \in [n : 0..6, limit : Limits]
        \/ kind = "omit" /\ x \in [c : 0..255]
Next == UNCHANGED vars
I_TruncProp == kind = "trunc" => LET out == Ref(x.es, x.limit) IN TruncProp(x.es, x.limit, out, Len(out) < Len(x.es))
I_Msg == kind = "msg" => LET d == [i \in 1..x.n |-> i] out == MsgTrunc(d, x.limit) IN
           /\ IsPrefix(out, d) /\ (x.limit # 0 - 1 => Len(out) <= x.limit) /\ (Len(out) < Len(d) <=> x.limit # 0 - 1 /\ x.limit < x.n)
I_Omit == kind = "omit" => /\ Omit(GrpcDash \o <<x.c>>) /\ Omit(GrpcDash) /\ ~Omit(TraceBin) /\ Omit(TraceBin \o <<x.c>>)
                           /\ ~Omit(<<x.c>>) /\ (x.c # 101 => ~Omit(<<116, x.c>>)) /\ Omit(<<116, 101>>) /\ ~Omit(<<116, 101, x.c>>)
====
