CONSTANTS
Types = {1, 2}
SotW = {1}
N = 3
Names = {"a", "b"}
MaxEvents = 7
Mutant = 0
Literal = 0
INIT Init
NEXT Next
INVARIANT I_NoViol
INVARIANT I_Agree
INVARIANT I_ActiveIsLast
CHECK_DEADLOCK FALSE
