CONSTANTS
MaxItems = 1
Weights = {0, 1, 2, 5}
MaxDen = 6
MaxReq = 3
Mutant = 2
INIT Init
NEXT Next
INVARIANT I_RandRef
INVARIANT I_EdfRef
INVARIANT I_DropRef
INVARIANT I_Cb
CHECK_DEADLOCK FALSE
