INIT Init
NEXT Next
POSTCONDITION Verdict
CHECK_DEADLOCK FALSE
