CONSTANTS
Mutant = 1
INIT Init
NEXT Next
INVARIANT I_NoLeak
CHECK_DEADLOCK FALSE
