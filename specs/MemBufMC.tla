---- MODULE MemBufMC ----
(* bounded-history wrapper of MemBuf for exhaustive checking and behaviour generation *)
EXTENDS MemBuf
CONSTANTS MaxEvents, Sizes, MaxK
VARIABLE nev
vars == <<mvars, nev>>
Init == MInit /\ nev = 0
Tick == nev < MaxEvents /\ nev' = nev + 1
Slices == {<<>>} \cup {<<h>> : h \in Hs} \cup {<<g, h>> : g \in Hs, h \in Hs}
NewRootT(sz, pooled, kind) == Tick /\ NewRoot(sz, pooled, kind)
RefT(h) == Tick /\ Ref(h)
FreeT(h) == Tick /\ Free(h)
SliceT(h, a, b) == Tick /\ Slice(h, a, b)
SplitT(h, n) == Tick /\ Split(h, n)
ReadT(h, k) == Tick /\ Read(h, k)
OpenReaderT(s) == Tick /\ OpenReader(s)
RdReadT(k) == Tick /\ RdRead(k)
RdDiscardT(k) == Tick /\ RdDiscard(k)
RdByteT == Tick /\ RdByte
RdPeekT(k) == Tick /\ RdPeek(k)
RdCloseT == Tick /\ RdClose
ReadAllT == Tick /\ ReadAll
MaterializeT(s, pooled) == Tick /\ Materialize(s, pooled)
Next == \/ \E sz \in Sizes, p \in BOOLEAN, kind \in {"copy", "new"} : NewRootT(sz, p, kind)
        \/ \E h \in Hs : RefT(h) \/ FreeT(h)
        \/ \E h \in Hs, a \in 0..MaxK, b \in 0..MaxK : SliceT(h, a, b)
        \/ \E h \in Hs, n \in 0..MaxK : SplitT(h, n) \/ ReadT(h, n)
        \/ \E s \in Slices : OpenReaderT(s)
        \/ \E s \in Slices, p \in BOOLEAN : MaterializeT(s, p)
        \/ \E k \in 0..MaxK : RdReadT(k) \/ RdDiscardT(k) \/ RdPeekT(k)
        \/ RdByteT \/ RdCloseT \/ ReadAllT
====
