---- MODULE KnownMarks ----
(* Clause marking with two strengths, for monitors whose property has already known deviations.
   A WEAK clause names one exact, already known input class (reported through ctx.finding by the
   orchestrator); any other clause is STRONG and overrides whatever weak clauses were recorded, so that a
   different violation of the same property is never hidden behind a known one.
   Registers: 1 (TraceIO's verdict register), 5 (sequence of <<weak clause, first line>>), 6 (a strong
   clause has been recorded).  While only weak clauses fired, register 1 holds
   <<"NAME@line+NAME@line+", first line>>.  Init must include InitKnown. *)
EXTENDS TraceIO
InitKnown == TLCSet(5, <<>>) /\ TLCSet(6, FALSE)
WeakNames(s) == {s[i][1] : i \in 1..Len(s)}
WeakText(s) == LET F[i \in 0..Len(s)] == IF i = 0 THEN "" ELSE F[i-1] \o s[i][1] \o "@" \o ToString(s[i][2]) \o "+" IN F[Len(s)]
MarkWeak(cond, name, line) ==
  IF cond /\ ~TLCGet(6) /\ name \notin WeakNames(TLCGet(5))
    THEN /\ TLCSet(5, Append(TLCGet(5), <<name, line>>))
         /\ TLCSet(1, <<WeakText(TLCGet(5)), TLCGet(5)[1][2]>>)
    ELSE TRUE
MarkStrong(cond, name, line) ==
  IF cond /\ ~TLCGet(6) THEN TLCSet(6, TRUE) /\ TLCSet(1, <<name, line>>) ELSE TRUE
====
