---- MODULE RLSCacheTrace ----
(***************************************************************************)
(* C41 part 2, trace validation: each line is one operation on the real    *)
(* rls.dataCache (inside a testing/synctest bubble: time.Now is virtual)   *)
(* with the cache's state after it: obs = [cur, max, ents (<<key, size>>   *)
(* sorted by key), lru (keys, least recent first), now (seconds)].         *)
(* The specification's action is applied to the inputs; the live keys and  *)
(* their sizes must be the specification's (I_EvictLRU: exactly the least  *)
(* recently used evictable entries are gone), and the accounted size must  *)
(* be the sum of the sizes of the entries the cache holds (I_SizeIsSum).   *)
(***************************************************************************)
EXTENDS RLSCache, TraceIO
VARIABLES l
vars == <<cvars, l>>
Init == CInit /\ max = 0 /\ l = 1 /\ InitRegs
Ev == Trace[l]
Obs == Ev.obs
RECURSIVE SumPairs(_, _)
SumPairs(ps, n) == IF n = 0 THEN 0 ELSE ps[n][2] + SumPairs(ps, n - 1)
ObsKeys == {Obs.ents[i][1] : i \in 1..Len(Obs.ents)}
CheckObs ==
  /\ Mark(Obs.cur # SumPairs(Obs.ents, Len(Obs.ents)), "I_SizeIsSum", l)
  /\ Mark(ObsKeys # DOMAIN ents', "I_EvictLRU", l)
  /\ Mark(\E i \in 1..Len(Obs.ents) : Obs.ents[i][1] \in DOMAIN ents' /\ Obs.ents[i][2] # ents'[Obs.ents[i][1]].sz, "I_EntrySizes", l)
  /\ Mark(Obs.now # now', "DriverClock", l)
  /\ Drift(Obs.lru # lru', "LruOrderDiffers", l)
  /\ Drift(Obs.max # max', "MaxSizeDiffers", l)
Step ==
  CASE Ev.ev = "add"    -> /\ Add(Ev.k, Ev.sz, Ev.dly, Ev.ttl, Ev.ok) /\ CheckObs
                           /\ Drift(Ev.ok # (Ev.sz <= max), "AddAdmissionDiffers", l)
    [] Ev.ev = "get"    -> Get(Ev.k) /\ CheckObs /\ Mark(Ev.found # (Ev.k \in Live), "I_GetFindsLiveEntries", l)
    [] Ev.ev = "upd"    -> Upd(Ev.k, Ev.sz) /\ CheckObs
    [] Ev.ev = "remove" -> Remove(Ev.k) /\ CheckObs
    [] Ev.ev = "resize" -> Resize(Ev.n) /\ CheckObs
    [] Ev.ev = "expire" -> Expire /\ CheckObs
    [] Ev.ev = "advance" -> Advance(Ev.d) /\ CheckObs
    [] Ev.ev = "panic"  -> UNCHANGED cvars /\ Mark(TRUE, "NoPanic", l)
    [] Ev.ev = "reset"  -> /\ ents' = <<>> /\ lru' = <<>> /\ rec' = <<>> /\ cur' = 0 /\ now' = 0 /\ max' = Ev.max
                           /\ evd' = <<>> /\ before' = <<>> /\ bents' = <<>> /\ lim' = 0
Next == l <= TLen /\ l' = l + 1 /\ Consumed(l) /\ Step
====
