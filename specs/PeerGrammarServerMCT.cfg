CONSTANTS
Caps = {1, 2}
Wins = {"normal", "tiny"}
MaxEvents = 3
MaxReq = 3
MaxFaults = 10
Mutant = 0
INIT Init
NEXT Next
INVARIANT I_NoIllegalHandler
INVARIANT I_ExcessRefused
INVARIANT I_MaxStreams
INVARIANT I_OpenWereLegal
CHECK_DEADLOCK FALSE
