---- MODULE RpcLifecycle ----
(***************************************************************************)
(* C22: deadlines and cancellation propagate to both ends.                 *)
(*                                                                         *)
(* One RPC (unary or streaming) walks through the client-side phases       *)
(*   resolver -> picker -> quota -> [HEADERS sent] -> write -> recv|handler*)
(* and blocks for ever at the blocking point `point` chosen by the         *)
(* environment (no name resolution result; no READY subchannel; raw server *)
(* with MAX_CONCURRENT_STREAMS 0; raw server granting no window; silent    *)
(* raw server; raw server that stalls in the middle of a response message  *)
(* ("recvmid": response HEADERS + 5-byte prefix + part of the payload);    *)
(* raw server failing every attempt with trailers-only UNAVAILABLE while   *)
(* the service config has a retry policy with a backoff longer than every  *)
(* event instant ("backoff": the RPC waits in the retry backoff sleep);    *)
(* handler of a real server waiting for its context).  kind is unary,      *)
(* bidi streaming ("stream") or client streaming ("cstream"); tracing is   *)
(* the configuration grpc.EnableTracing (write-quota point only).  An      *)
(* earlier phase `delay` (picker or quota) may block until tRel.  The      *)
(* events are a deadline dl (absolute, set when the RPC starts at 0) and / *)
(* or a cancellation at cancelAt.  Time is in nanoseconds of virtual time  *)
(* (all instants < 2 s so that they fit TLC's 32-bit integers).            *)
(*                                                                         *)
(* Level A:                                                                *)
(*  I_Terminates     the call returns exactly at the event instant with    *)
(*                   DEADLINE_EXCEEDED (4) / CANCELLED (1)                 *)
(*  I_ServerDeadline the timeout seen by the server (grpc-timeout on the   *)
(*                   wire / handler ctx deadline) exists iff the client    *)
(*                   has a deadline, is >= the client's remaining time at  *)
(*                   send and < remaining + one grpc-timeout unit          *)
(*  I_ServerCancel   the handler's ctx is done once the event has happened *)
(*                   (and not before)                                      *)
(***************************************************************************)
EXTENDS Integers

CONSTANTS Mutant,
          Points, Delays, Deadlines, Cancels, TRel, End

VARIABLES
  point, kind, delay, hasDl, dl, hasCancel, cancelAt, tracing,   \* scenario (chosen initially)
  now, phase, hdrAt,                                     \* Level I
  ret, retAt,                                            \* outcome on the client: code (0 = not returned), instant
  sent, sentAt, hasWire, wire,                           \* what the server saw: HEADERS at sentAt, timeout present / value
  hStarted, hDone, hDoneAt                               \* handler of the real server

scen == <<point, kind, delay, hasDl, dl, hasCancel, cancelAt, tracing>>
rvars == <<scen, now, phase, hdrAt, ret, retAt, sent, sentAt, hasWire, wire, hStarted, hDone, hDoneAt>>

Order == [resolver |-> 1, picker |-> 2, quota |-> 3, write |-> 4, recv |-> 5, recvmid |-> 5, backoff |-> 5, handler |-> 5, none |-> 0]
\* the phase in which the RPC sits at its blocking point
PointPhase == IF point \in {"recvmid", "backoff"} THEN "recv" ELSE point

\* the instant and the code of the terminating event
DlFirst == hasDl /\ (~hasCancel \/ dl < cancelAt)
EvAt == IF DlFirst THEN dl ELSE cancelAt
ExpCode == IF DlFirst THEN 4 ELSE 1

\* grpc-timeout: at most 8 digits in the smallest unit that fits, rounded up
Unit(r) == IF r <= 99999999 THEN 1 ELSE 1000
Ceil(r) == LET u == Unit(r) IN ((r + u - 1) \div u) * u

\* known deviation class Q: the grpc-timeout value is computed before the wait for stream quota
devQ == delay = "quota" /\ hasDl

(***************************** Level A ************************************)
\* clauses about the timeout v (hasV) seen by the server in HEADERS that were sent at instant s
DlMissing(hasV) == hasV # hasDl
DlTooShort(hasV, v, s) == hasDl /\ hasV /\ v < dl - s
DlTooLong(hasV, v, s) == hasDl /\ hasV /\ v >= dl - s + Unit(dl - s)

I_Terminates == /\ ret # 0 => retAt = EvAt /\ ret = ExpCode
                /\ now > EvAt => ret # 0
I_ServerDeadline == sent => /\ ~DlMissing(hasWire)
                            /\ ~DlTooShort(hasWire, wire, sentAt)
                            /\ devQ \/ ~DlTooLong(hasWire, wire, sentAt)
I_ServerDeadlineLit == sent => ~DlTooLong(hasWire, wire, sentAt)      \* expected to FAIL in class Q
I_ServerCancel == /\ hStarted /\ now > EvAt => hDone
                  /\ hDone => hDoneAt >= EvAt

(***************************** Level I ************************************)
ScenOK ==
  /\ hasDl \/ hasCancel
  /\ hasDl /\ hasCancel => dl # cancelAt
  /\ EvAt # TRel
  /\ point = "write" => kind = "stream"
  /\ kind = "cstream" => point \in {"recv", "recvmid", "handler"}
  /\ point = "backoff" => delay \in {"none", "pick"}
  /\ tracing => point = "write" /\ delay = "none"
  /\ delay = "pick" => Order[point] > 2
  /\ delay = "quota" => point \in {"write", "recv", "recvmid"}
  /\ ~hasDl => dl = 0
  /\ ~hasCancel => cancelAt = 0

RInit ==
  /\ point \in Points /\ kind \in {"unary", "stream", "cstream"} /\ delay \in Delays /\ tracing \in BOOLEAN
  /\ hasDl \in BOOLEAN /\ dl \in Deadlines \cup {0} /\ hasCancel \in BOOLEAN /\ cancelAt \in Cancels \cup {0}
  /\ ScenOK
  /\ now = 0 /\ phase = "resolver" /\ hdrAt = 0 /\ ret = 0 /\ retAt = 0
  /\ sent = FALSE /\ sentAt = 0 /\ hasWire = FALSE /\ wire = 0
  /\ hStarted = FALSE /\ hDone = FALSE /\ hDoneAt = 0

Blocked(ph) == ph = PointPhase \/ (delay = "pick" /\ ph = "picker" /\ now < TRel) \/ (delay = "quota" /\ ph = "quota" /\ now < TRel)

\* the RPC moves to the next phase as soon as it is not blocked (no time passes)
Advance ==
  /\ ret = 0 /\ now # EvAt /\ ~Blocked(phase) /\ phase \notin {"recv", "handler", "done"}
  /\ CASE phase = "resolver" -> phase' = "picker" /\ UNCHANGED <<hdrAt, sent, sentAt, hasWire, wire, hStarted>>
       [] phase = "picker" -> phase' = "quota" /\ hdrAt' = now /\ UNCHANGED <<sent, sentAt, hasWire, wire, hStarted>>
       [] phase = "quota" ->
            \* HEADERS go out; the timeout in them was computed when the header fields were created (hdrAt)
            /\ phase' = (IF kind # "unary" THEN "write" ELSE IF point = "handler" THEN "handler" ELSE "recv")
            /\ sent' = TRUE /\ sentAt' = now /\ hasWire' = hasDl
            /\ wire' = (IF hasDl THEN (IF Mutant = 2 THEN ((dl - hdrAt) \div Unit(dl - hdrAt)) * Unit(dl - hdrAt) ELSE Ceil(dl - hdrAt)) ELSE 0)
            /\ hStarted' = (point = "handler")
            /\ UNCHANGED hdrAt
       [] phase = "write" -> phase' = (IF point = "handler" THEN "handler" ELSE "recv")
                             /\ UNCHANGED <<hdrAt, sent, sentAt, hasWire, wire, hStarted>>
  /\ UNCHANGED <<scen, now, ret, retAt, hDone, hDoneAt>>

\* the deadline passes / the context is cancelled: the blocked call returns, the handler's ctx is done
EventFires ==
  /\ now = EvAt /\ ret = 0
  /\ ~(Mutant = 1 /\ phase = "picker")
  /\ ret' = ExpCode /\ retAt' = now /\ phase' = "done"
  /\ hDone' = hStarted /\ hDoneAt' = (IF hStarted THEN now ELSE 0)
  /\ UNCHANGED <<scen, now, hdrAt, sent, sentAt, hasWire, wire, hStarted>>

Settled == (ret # 0 \/ now # EvAt \/ (Mutant = 1 /\ phase = "picker")) /\ ~ENABLED Advance
NextInstant == IF now < TRel /\ (EvAt <= now \/ TRel < EvAt) THEN TRel
               ELSE IF now < EvAt THEN EvAt ELSE End
TickTo ==
  /\ Settled /\ now < End
  /\ now' = NextInstant
  /\ UNCHANGED <<scen, phase, hdrAt, ret, retAt, sent, sentAt, hasWire, wire, hStarted, hDone, hDoneAt>>

RNext == Advance \/ EventFires \/ TickTo
====
