---- MODULE Retry ----
(***************************************************************************)
(* C18 / C19(a).  Level-I transcription of the client retry logic of       *)
(* grpc-go (stream.go: clientStream.withRetry / retryLocked /              *)
(* csAttempt.shouldRetry / bufferForRetryLocked / commitAttemptLocked)     *)
(* for ONE RPC on a fresh channel, driven sequentially:                    *)
(*   - the application performs the operations start (NewStream), send(i), *)
(*     close (CloseSend), header (Header) and recv (RecvMsg), one at a     *)
(*     time; between two operations the system is quiescent;               *)
(*   - the server answers every attempt (= HTTP/2 stream) according to a   *)
(*     script chosen when the attempt is created: an action, a status      *)
(*     code, a pushback header variant and a trigger ("open": answer as    *)
(*     soon as the stream is opened, "late": answer when END_STREAM is     *)
(*     received).  The answer is sent one virtual millisecond after the    *)
(*     trigger, so that everything the client can do without waiting has   *)
(*     been done before the answer arrives.                                *)
(* An application operation is split into micro steps: the operation is    *)
(* begun (Begin / Init for "start"), every attempt that the operation      *)
(* creates is one NewAttempt(script) step, Ret ends the operation.         *)
(*                                                                         *)
(* Level A (the property text) is restated independently of the decision   *)
(* procedure in ViolOf / I_Bound / I_Replay.                               *)
(***************************************************************************)
EXTENDS Integers, Sequences, FiniteSets, TLC
CONSTANTS Mutant,      \* 0 = faithful; > 0 = seeded spec mutation (negative controls)
          MaxSends,    \* messages the application may send
          MaxOps,      \* application operations after "start" (per RPC)
          MaxRPCs,     \* RPCs issued one after the other on the same channel (the token bucket is per channel)
          ParkOn       \* TRUE: a SendMsg may be parked after its transport write (second application goroutine)

CLOSE == 0
MsgLen(i) == 8 + 2 * i            \* payload length of message i (10, 12, ...)
MsgSize(i) == 5 + MsgLen(i)       \* what bufferForRetryLocked accounts: len(hdr) + payload
Min(a, b) == IF a < b THEN a ELSE b
Max(a, b) == IF a > b THEN a ELSE b

Acts == {"OK", "TO", "HF", "MF", "REF", "GOAWAY"}
\* OK: headers, one message, trailers status 0       TO: trailers-only with status `code` (+ pushback)
\* HF: headers, then trailers with status `code`     MF: headers, one message, trailers with `code`
\* REF: RST_STREAM(REFUSED_STREAM)                   GOAWAY: GOAWAY with last-stream-id below the stream
PBs == {"none", "p0", "p7", "neg", "bad", "multi"}
BadPB == {"neg", "bad", "multi"}
Unproc == {"REF", "GOAWAY"}
HasHdr(c) == c.act \in {"OK", "HF", "MF"}

\* backoff settings (index -> initial ns, max ns, multiplier = product of the factors / den); all exact in float64 (R2)
\*   1: 10 ms, x2, max 50 ms     2: 8 ms, x1.5, max 20 ms     3: 10 ms, x10^12, max 20 ms (parser-valid, huge)
BoffInit(b) == CASE b = 1 -> 10000000 [] b = 2 -> 8000000 [] OTHER -> 10000000
BoffMax(b)  == CASE b = 1 -> 50000000 [] OTHER -> 20000000
BoffFactors(b) == CASE b = 1 -> <<2>> [] b = 2 -> <<3>> [] OTHER -> <<1000000, 1000000>>
BoffDen(b)  == IF b = 2 THEN 2 ELSE 1
PbNs(pb) == IF pb = "p7" THEN 7000000 ELSE 0
\* n * (product of fs) >= bound, without ever computing a product that reaches bound (32-bit integers)
RECURSIVE GEProd(_, _, _)
GEProd(n, fs, bound) == IF n >= bound THEN TRUE
                        ELSE IF fs = <<>> THEN FALSE
                        ELSE IF Head(fs) >= (bound + n - 1) \div n THEN TRUE
                        ELSE GEProd(n * Head(fs), Tail(fs), bound)
RECURSIVE ProdSeq(_)
ProdSeq(fs) == IF fs = <<>> THEN 1 ELSE Head(fs) * ProdSeq(Tail(fs))
\* initialBackoff x multiplier^k as an exact fraction <<n, d>>, or BCap as soon as it reaches maxBackoff (multipliers
\* are >= 1, so once capped always capped); the huge product is never computed
BCap == <<0, 0>>
RECURSIVE BoffBase(_, _)
BoffBase(b, k) ==
  IF k = 0 THEN (IF BoffInit(b) >= BoffMax(b) THEN BCap ELSE <<BoffInit(b), 1>>)
  ELSE LET p == BoffBase(b, k - 1) IN
       IF p = BCap THEN BCap
       ELSE IF GEProd(p[1], BoffFactors(b), BoffMax(b) * p[2] * BoffDen(b)) THEN BCap
       ELSE <<p[1] * ProdSeq(BoffFactors(b)), p[2] * BoffDen(b)>>

VARIABLES cfg,          \* [maxAtt, cap, codes, bufLimit, thrMax, boff]  (constant during a behaviour)
          app,          \* Level A: what the application produced so far (message ids, CLOSE)
          replay,       \* cs.replayBuffer (without the stream-creation op)
          bufSize,      \* cs.replayBufferSize
          committed, finished, firstAtt, numRetries, sincePB,
          tokens,       \* retryThrottler.tokens in HALF tokens (tokenRatio 0.5 = 1 unit); 0 when throttling is off
          natt,         \* attempts (streams) created
          nTransp,      \* transparent attempts created
          cur,          \* current attempt
          pc, opk, oparg, nops,
          res,          \* result of the last finished operation
          hdrDelivered, msgDelivered,
          lastDelay,    \* <<kind, k-or-pushback>> of the last created attempt
          sinceA,       \* Level A: retries since the last retry that was delayed by a server pushback
          nrpc,         \* number of the current RPC on this channel
          parked,       \* message whose SendMsg has written to attempt parkedAtt but has not re-taken cs.mu (0: none)
          parkedAtt,
          resend,       \* the running "send" re-executes a parked SendMsg (the application produced the message before)
          viol
rvars == <<cfg, app, replay, bufSize, committed, finished, firstAtt, numRetries, sincePB, tokens, natt,
           nTransp, cur, pc, opk, oparg, nops, res, hdrDelivered, msgDelivered, lastDelay, sinceA, nrpc, parked, parkedAtt,
           resend, viol>>

NoAtt == [act |-> "none", code |-> 0, pb |-> "none", trig |-> "open", sent |-> <<>>, nrecv |-> 0,
          fresh |-> FALSE, prev |-> 0, transp |-> FALSE]
EffMax == Min(cfg.maxAtt, cfg.cap)

RInitWith(c) ==
  /\ cfg = c /\ app = <<>> /\ replay = <<>> /\ bufSize = 0 /\ committed = FALSE /\ finished = FALSE
  /\ firstAtt = TRUE /\ numRetries = 0 /\ sincePB = 0 /\ tokens = 2 * c.thrMax /\ natt = 0 /\ nTransp = 0
  /\ cur = NoAtt /\ pc = "run" /\ opk = "start" /\ oparg = 0 /\ nops = 0 /\ res = "none"
  /\ hdrDelivered = FALSE /\ msgDelivered = FALSE /\ lastDelay = <<"none", 0>> /\ sinceA = 0 /\ viol = "none"
  /\ nrpc = 1 /\ parked = 0 /\ parkedAtt = 0 /\ resend = FALSE

\* the same, as a step (trace validation: a new RPC on a fresh channel)
ResetWith(c) ==
  /\ cfg' = c /\ app' = <<>> /\ replay' = <<>> /\ bufSize' = 0 /\ committed' = FALSE /\ finished' = FALSE
  /\ firstAtt' = TRUE /\ numRetries' = 0 /\ sincePB' = 0 /\ tokens' = 2 * c.thrMax /\ natt' = 0 /\ nTransp' = 0
  /\ cur' = NoAtt /\ pc' = "run" /\ opk' = "start" /\ oparg' = 0 /\ nops' = 0 /\ res' = "none"
  /\ hdrDelivered' = FALSE /\ msgDelivered' = FALSE /\ lastDelay' = <<"none", 0>> /\ sinceA' = 0 /\ viol' = "none"
  /\ nrpc' = 1 /\ parked' = 0 /\ parkedAtt' = 0 /\ resend' = FALSE

\* ---------------------------------------------------------------- the current attempt, as the client sees it
InSeq(x, s) == \E j \in 1..Len(s) : s[j] = x
\* the server has answered (or will answer without further application input)
\* triggers: "open" stream opened, "late" END_STREAM received, "m2" message 2 received
Responded(c) == c.trig = "open" \/ (c.trig = "late" /\ InSeq(CLOSE, c.sent)) \/ (c.trig = "m2" /\ InSeq(2, c.sent))
\* for a non-blocking operation (send/close): the answer has already been processed by the client
StreamDone(c) == ~c.fresh /\ Responded(c)
RecvOutcome(c) ==
  CASE c.act = "OK" -> IF c.nrecv = 0 THEN "msg" ELSE "eof"
    [] c.act = "MF" -> IF c.nrecv = 0 THEN "msg" ELSE "err"
    [] OTHER -> "err"
\* the operation, run on the current attempt, ends with an error that retryLocked gets to see
OpFails ==
  CASE opk = "send"   -> StreamDone(cur) /\ cur.act # "OK"
    [] opk = "header" -> Responded(cur) /\ ~HasHdr(cur)
    [] opk = "recv"   -> Responded(cur) /\ RecvOutcome(cur) = "err"
    [] OTHER -> FALSE
DecTok(t) == IF cfg.thrMax = 0 THEN 0 ELSE Max(t - 2, 0)        \* one token = 2 units, floor 0
Throttled(t) == cfg.thrMax > 0 /\ t <= cfg.thrMax                \* tokens <= maxTokens / 2
\* csAttempt.shouldRetry for the finished attempt c
Decide(c) ==
  IF firstAtt /\ c.act \in Unproc THEN [ok |-> TRUE, transp |-> TRUE, why |-> "transparent", tok |-> tokens]
  ELSE IF HasHdr(c) /\ Mutant # 1 THEN [ok |-> FALSE, transp |-> FALSE, why |-> "headers", tok |-> tokens]
  ELSE IF c.pb \in BadPB THEN [ok |-> FALSE, transp |-> FALSE, why |-> "pushback", tok |-> DecTok(tokens)]
  ELSE IF c.code \notin cfg.codes THEN [ok |-> FALSE, transp |-> FALSE, why |-> "code", tok |-> tokens]
  ELSE IF Throttled(DecTok(tokens)) THEN [ok |-> FALSE, transp |-> FALSE, why |-> "throttled", tok |-> DecTok(tokens)]
  ELSE IF numRetries + 1 >= EffMax + (IF Mutant = 2 THEN 1 ELSE 0)
         THEN [ok |-> FALSE, transp |-> FALSE, why |-> "max", tok |-> DecTok(tokens)]
  ELSE [ok |-> TRUE, transp |-> FALSE, why |-> "retry", tok |-> DecTok(tokens)]
NeedAttempt == natt = 0 \/ (~committed /\ ~finished /\ OpFails /\ Decide(cur).ok)

\* Level A restated: is creating a new attempt after attempt c allowed by the property text?
ViolOf(c, transp, tokAfter) ==
  IF hdrDelivered \/ msgDelivered \/ bufSize > cfg.bufLimit THEN "I_Commit"
  ELSE IF transp THEN (IF c.act \in Unproc /\ nTransp = 0 THEN "none" ELSE "I_Transparent")
  ELSE IF HasHdr(c) THEN "I_WhenRetry_headers"
  ELSE IF c.code \notin cfg.codes THEN "I_WhenRetry_code"
  ELSE IF c.pb \in BadPB THEN "I_WhenRetry_pushback"
  ELSE IF Throttled(tokAfter) THEN "I_WhenRetry_throttled"
  ELSE "none"

\* ---------------------------------------------------------------- micro steps
Script(s) == s.act \in Acts /\ s.pb \in PBs /\ s.trig \in {"open", "late", "m2"}
\* a blocking operation must not wait for an answer that needs application input it cannot give: the new attempt
\* is sent the replay buffer; the only further input that can arrive while the receiver blocks is a parked message
ScriptOK(s) == opk \in {"header", "recv"} =>
                 \/ s.trig = "open"
                 \/ s.trig = "late" /\ InSeq(CLOSE, replay)
                 \/ s.trig = "m2" /\ (InSeq(2, replay) \/ parked = 2)

NewAttempt(s) ==
  /\ pc = "run" /\ NeedAttempt /\ ScriptOK(s)
  /\ natt' = natt + 1
  /\ IF natt = 0
       THEN /\ cur' = [act |-> s.act, code |-> s.code, pb |-> s.pb, trig |-> s.trig, sent |-> <<>>, nrecv |-> 0,
                       fresh |-> TRUE, prev |-> 0, transp |-> FALSE]
            /\ UNCHANGED <<firstAtt, numRetries, sincePB, tokens, nTransp, lastDelay, sinceA, viol>>
       ELSE LET d == Decide(cur)
                nr == IF d.transp THEN numRetries ELSE numRetries + 1 IN
            /\ firstAtt' = FALSE /\ tokens' = d.tok /\ numRetries' = nr
            /\ nTransp' = IF d.transp THEN nTransp + 1 ELSE nTransp
            /\ sincePB' = IF d.transp THEN sincePB ELSE IF cur.pb \in {"p0", "p7"} /\ Mutant # 3 THEN 0 ELSE sincePB + 1
            /\ sinceA' = IF d.transp THEN sinceA ELSE IF cur.pb \in {"p0", "p7"} THEN 0 ELSE sinceA + 1
            /\ lastDelay' = IF d.transp THEN <<"transparent", 0>>
                            ELSE IF cur.pb \in {"p0", "p7"} THEN <<"pushback", PbNs(cur.pb)>>
                            ELSE <<"backoff", sincePB>>
            /\ viol' = IF viol = "none" THEN ViolOf(cur, d.transp, d.tok) ELSE viol
            /\ cur' = [act |-> s.act, code |-> s.code, pb |-> s.pb, trig |-> s.trig, sent |-> replay, nrecv |-> 0,
                       fresh |-> TRUE, prev |-> nr, transp |-> d.transp]
  /\ UNCHANGED <<cfg, app, replay, bufSize, committed, finished, pc, opk, oparg, nops, res, hdrDelivered, msgDelivered,
                 nrpc, parked, parkedAtt, resend>>

\* bufferForRetryLocked(sz, op)
BufferOp(x, sz) ==
  IF committed THEN UNCHANGED <<replay, bufSize, committed>>
  ELSE /\ bufSize' = bufSize + sz
       /\ IF bufSize + sz > cfg.bufLimit THEN committed' = TRUE /\ replay' = <<>>
                                          ELSE committed' = committed /\ replay' = Append(replay, x)
\* the operation fails for good: retryLocked -> commitAttemptLocked (nothing happens when already committed)
FailTok == IF ~committed /\ ~finished /\ OpFails THEN Decide(cur).tok ELSE tokens

Ret ==
  /\ pc = "run" /\ ~NeedAttempt
  /\ opk \in {"header", "recv"} => Responded(cur)      \* otherwise the receiver is blocked
  /\ pc' = "idle" /\ resend' = FALSE
  /\ CASE opk = "start" ->
            /\ res' = "ok" /\ cur' = [cur EXCEPT !.fresh = FALSE]
            /\ UNCHANGED <<app, replay, bufSize, committed, finished, tokens, hdrDelivered, msgDelivered>>
       [] opk = "send" ->
            /\ app' = IF resend THEN app ELSE Append(app, oparg)
            /\ IF ~StreamDone(cur)
                 THEN /\ cur' = [cur EXCEPT !.sent = Append(@, oparg), !.fresh = FALSE]
                      /\ BufferOp(oparg, MsgSize(oparg)) /\ res' = "ok"
                      /\ UNCHANGED <<finished, tokens>>
                 ELSE /\ cur' = [cur EXCEPT !.fresh = FALSE]
                      /\ IF committed THEN /\ res' = "eof" /\ UNCHANGED <<replay, bufSize, committed, finished, tokens>>
                         ELSE IF cur.act = "OK" THEN /\ BufferOp(oparg, MsgSize(oparg)) /\ res' = "eof"
                                                     /\ UNCHANGED <<finished, tokens>>
                         ELSE /\ committed' = TRUE /\ replay' = <<>> /\ bufSize' = bufSize /\ tokens' = FailTok
                              \* "max retries exhausted" is not io.EOF: SendMsg finishes the RPC
                              /\ finished' = (Decide(cur).why = "max")
                              /\ res' = IF Decide(cur).why = "max" THEN "err" ELSE "eof"
            /\ UNCHANGED <<hdrDelivered, msgDelivered>>
       [] opk = "sendbuf" ->       \* a parked SendMsg resumes and its attempt is still the current one: onSuccess only
            /\ BufferOp(oparg, MsgSize(oparg)) /\ res' = "ok" /\ cur' = [cur EXCEPT !.fresh = FALSE]
            /\ UNCHANGED <<app, finished, tokens, hdrDelivered, msgDelivered>>
       [] opk = "close" ->
            /\ app' = Append(app, CLOSE)
            /\ cur' = [cur EXCEPT !.sent = IF StreamDone(cur) THEN @ ELSE Append(@, CLOSE), !.fresh = FALSE]
            /\ BufferOp(CLOSE, 0) /\ res' = "ok"
            /\ UNCHANGED <<finished, tokens, hdrDelivered, msgDelivered>>
       [] opk = "header" ->
            /\ cur' = [cur EXCEPT !.fresh = FALSE]
            /\ IF HasHdr(cur)
                 THEN /\ committed' = TRUE /\ replay' = <<>> /\ hdrDelivered' = TRUE /\ res' = "hdr"
                      /\ UNCHANGED <<finished, tokens>>
                 ELSE /\ committed' = TRUE /\ replay' = <<>> /\ finished' = TRUE /\ tokens' = FailTok
                      /\ res' = "nohdr" /\ UNCHANGED hdrDelivered
            /\ UNCHANGED <<app, bufSize, msgDelivered>>
       [] opk = "recv" ->
            LET o == RecvOutcome(cur) IN
            /\ cur' = [cur EXCEPT !.fresh = FALSE, !.nrecv = IF o = "msg" THEN @ + 1 ELSE @]
            /\ committed' = TRUE /\ replay' = <<>>
            /\ msgDelivered' = (msgDelivered \/ o = "msg")
            /\ finished' = (o # "msg")
            /\ tokens' = IF o = "eof" THEN Min(tokens + 1, 2 * cfg.thrMax) ELSE IF o = "err" THEN FailTok ELSE tokens
            /\ res' = o
            /\ UNCHANGED <<app, bufSize, hdrDelivered>>
  /\ UNCHANGED <<cfg, firstAtt, numRetries, sincePB, natt, nTransp, opk, oparg, nops, lastDelay, sinceA, viol,
                 nrpc, parked, parkedAtt>>

NSends == Cardinality({j \in 1..Len(app) : app[j] # CLOSE})
BeginOK(op, i) ==
  /\ pc = "idle" /\ ~finished /\ nops < MaxOps
  /\ CASE op = "send"   -> ~InSeq(CLOSE, app) /\ i = NSends + 1 /\ i <= MaxSends /\ parked = 0
       [] op = "close"  -> ~InSeq(CLOSE, app) /\ i = 0 /\ parked = 0
       [] op = "header" -> Responded(cur) /\ i = 0
       [] op = "recv"   -> Responded(cur) /\ i = 0
       [] OTHER -> FALSE
Begin(op, i) ==
  /\ BeginOK(op, i)
  /\ pc' = "run" /\ opk' = op /\ oparg' = i /\ nops' = nops + 1
  /\ UNCHANGED <<cfg, app, replay, bufSize, committed, finished, firstAtt, numRetries, sincePB, tokens, natt, nTransp,
                 cur, res, hdrDelivered, msgDelivered, lastDelay, sinceA, viol, nrpc, parked, parkedAtt, resend>>

\* ---- a second application goroutine: SendMsg(i) has written message i to the current attempt (csAttempt.sendMsg
\* returned nil) and is parked before withRetry re-takes cs.mu; the receiver goroutine may run header / recv meanwhile
ParkOK(i) ==
  /\ ParkOn /\ pc = "idle" /\ ~finished /\ nops < MaxOps /\ parked = 0 /\ natt > 0
  /\ ~InSeq(CLOSE, app) /\ i = NSends + 1 /\ i <= MaxSends
  /\ ~StreamDone(cur)                                   \* the transport write succeeds
Park(i) ==
  /\ ParkOK(i)
  /\ app' = Append(app, i) /\ cur' = [cur EXCEPT !.sent = Append(@, i)]
  /\ parked' = i /\ parkedAtt' = natt + 100 * nrpc /\ nops' = nops + 1
  /\ UNCHANGED <<cfg, replay, bufSize, committed, finished, firstAtt, numRetries, sincePB, tokens, natt, nTransp,
                 pc, opk, oparg, res, hdrDelivered, msgDelivered, lastDelay, sinceA, viol, nrpc, resend>>
\* the parked SendMsg resumes while no other operation is running: withRetry re-takes cs.mu; if the attempt was
\* replaced meanwhile the operation is run again on the current attempt, otherwise it is buffered for replay
UnparkOK == pc = "idle" /\ parked # 0
Unpark ==
  /\ UnparkOK
  /\ pc' = "run" /\ oparg' = parked /\ parked' = 0
  /\ IF parkedAtt = natt + 100 * nrpc THEN opk' = "sendbuf" /\ resend' = FALSE
                                      ELSE opk' = "send" /\ resend' = TRUE
  /\ UNCHANGED <<cfg, app, replay, bufSize, committed, finished, firstAtt, numRetries, sincePB, tokens, natt, nTransp,
                 cur, nops, res, hdrDelivered, msgDelivered, lastDelay, sinceA, viol, nrpc, parkedAtt>>
\* the parked SendMsg resumes while the receiver is blocked on the current attempt (which has not answered): the
\* stream is open, so re-running the write on it succeeds, and the operation is buffered
UnparkInlineOK == /\ pc = "run" /\ parked # 0 /\ opk \in {"header", "recv"} /\ ~NeedAttempt /\ ~Responded(cur)
UnparkInline ==
  /\ UnparkInlineOK
  /\ cur' = IF parkedAtt = natt + 100 * nrpc THEN cur ELSE [cur EXCEPT !.sent = Append(@, parked)]
  /\ BufferOp(parked, MsgSize(parked)) /\ parked' = 0
  /\ UNCHANGED <<cfg, app, finished, firstAtt, numRetries, sincePB, tokens, natt, nTransp, pc, opk, oparg, nops, res,
                 hdrDelivered, msgDelivered, lastDelay, sinceA, viol, nrpc, parkedAtt, resend>>
\* the next RPC on the same channel: everything is per RPC except the token bucket
NewRPCOK == pc = "idle" /\ finished /\ parked = 0 /\ nrpc < MaxRPCs
NewRPC ==
  /\ NewRPCOK
  /\ app' = <<>> /\ replay' = <<>> /\ bufSize' = 0 /\ committed' = FALSE /\ finished' = FALSE
  /\ firstAtt' = TRUE /\ numRetries' = 0 /\ sincePB' = 0 /\ natt' = 0 /\ nTransp' = 0
  /\ cur' = NoAtt /\ pc' = "run" /\ opk' = "start" /\ oparg' = 0 /\ nops' = 0 /\ res' = "none"
  /\ hdrDelivered' = FALSE /\ msgDelivered' = FALSE /\ lastDelay' = <<"none", 0>> /\ sinceA' = 0
  /\ nrpc' = nrpc + 1
  /\ UNCHANGED <<cfg, tokens, viol, parked, parkedAtt, resend>>

\* ---------------------------------------------------------------- invariants (the property)
I_NoViol == viol = "none"          \* I_WhenRetry, I_Transparent, I_Commit (recorded when an attempt is created)
I_Bound == natt > 0 => (numRetries + 1 <= EffMax /\ numRetries + 1 <= 5 /\ natt <= numRetries + 1 + nTransp /\ nTransp <= 1)
IsPrefix(s, t) == Len(s) <= Len(t) /\ \A j \in 1..Len(s) : s[j] = t[j]
\* what the current attempt has been sent is what the application produced, in order; an attempt whose stream is
\* still open at the client has been sent everything
I_Replay == /\ IsPrefix(cur.sent, app)
            /\ (pc = "idle" /\ natt > 0 /\ ~Responded(cur) /\ parked = 0) => cur.sent = app
            /\ (InSeq(CLOSE, cur.sent)) => cur.sent = app
I_Commit == (hdrDelivered \/ msgDelivered \/ bufSize > cfg.bufLimit) => (committed /\ replay = <<>>)
I_Tokens == tokens >= 0 /\ tokens <= 2 * cfg.thrMax
\* C19(a): the exponent of the backoff of a retry is the number of retries since the last pushback-delayed retry
I_DelayIndex == lastDelay[1] = "backoff" => (lastDelay[2] = sinceA - 1 /\ lastDelay[2] < numRetries)
====
