CONSTANTS
Mutant = 0
INIT Init
NEXT Next
POSTCONDITION Verdict
CHECK_DEADLOCK FALSE
