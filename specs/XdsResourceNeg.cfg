CONSTANTS
Mutant = 1
Big = 0
INIT Init
NEXT Next
INVARIANT I_RulesGiveInvariants
CHECK_DEADLOCK FALSE
