---- MODULE PeerGrammarServer ----
(***************************************************************************)
(* C12: a grammar of (mis)behaving HTTP/2 clients and the admission table  *)
(* of the gRPC server transport.                                           *)
(*                                                                         *)
(* A request is a HEADERS frame described by ten attributes.  ServerAdmit  *)
(* is the admission table: the checks in the order the server applies them *)
(* (x/net framer first, then http2_server.go operateHeaders, then the      *)
(* MaxConcurrentStreams quota) and the disposition each one produces.      *)
(*                                                                         *)
(* Level A (the property text) is stated WITHOUT that order:               *)
(*   Legal(h)           every attribute the property lists is legal        *)
(*   I_NoIllegalHandler a handler starts only for a Legal request          *)
(*   I_MaxStreams       streams admitted and still open on the wire (handler *)
(*                      running, or response held back by the client's     *)
(*                      flow-control window) <= cap                         *)
(*   I_ExcessRefused    a Legal request above the cap is answered with     *)
(*                      RST_STREAM(REFUSED_STREAM)                         *)
(* TLC checks that the table implies Level A for every attribute           *)
(* combination and every bounded sequence of requests / cancellations /    *)
(* handler completions.                                                    *)
(***************************************************************************)
EXTENDS Integers, Sequences, FiniteSets, TLC
CONSTANTS Caps,      \* set of MaxConcurrentStreams values
          Wins,      \* set of client flow-control regimes: "normal" | "tiny" (SETTINGS_INITIAL_WINDOW_SIZE 16, no WINDOW_UPDATE)
          Mutant     \* 0 = as the property demands; 1, 2, 3 = negative controls; 4 = stream-id check as coded

\* ---- the attribute alphabet (first element = the well-behaved value)
MethV == {"POST", "GET", "none"}
CtV   == {"grpc", "grpcsub", "json", "none", "grpcx"}     \* application/grpc, application/grpc+proto, application/json, absent, application/grpcx
TeV   == {"trailers", "none"}
ToV   == {"none", "ok", "zero", "bad", "long"}            \* absent, 1H, 0S, "12" (no unit), "1234567890S" (> 8 digits)
AuV   == {"one", "hostonly", "none", "both", "dupauth", "duphost"}
BinV  == {"none", "ok", "bad"}                            \* x-k-bin absent / base64 / not base64
BigV  == {"no", "big", "huge"}                            \* header list within the limit / above it / more than twice above it
GoodCt == {"grpc", "grpcsub"}
BadTo  == {"bad", "long"}

VARIABLES alive,    \* connection still open
          cap,      \* MaxConcurrentStreams of this server
          hiSent,   \* highest odd stream id the client has used in a HEADERS frame (0: none)
          maxAdm,   \* highest stream id that passed the server's stream-id check
          open,     \* stream ids with a running handler
          blocked,  \* stream ids whose handler has returned but whose response / trailers the client's window holds back:
                    \* still open on the wire, still counted
          win,      \* the client's flow-control regime on this connection
          viol      \* first violated Level-A clause observed on the model itself
pvars == <<alive, cap, hiSent, maxAdm, open, blocked, win, viol>>
Active == open \cup blocked

PInit == /\ alive = TRUE /\ cap \in Caps /\ win \in Wins /\ hiSent = 0 /\ maxAdm = 0 /\ open = {} /\ blocked = {}
         /\ viol = "none"

\* ---- Level A: which requests may reach a handler
SidLegal(sid) == sid % 2 = 1 /\ sid > hiSent
AttrLegal(h)  == /\ h.meth = "POST" /\ h.ct \in GoodCt /\ h.to \notin BadTo
                 /\ h.au \notin {"dupauth", "duphost"} /\ h.bin # "bad"
Legal(h) == SidLegal(h.sid) /\ AttrLegal(h)

\* ---- Level I: the admission table, in the order the code applies the checks
D(k, http, grpc, code) == [k |-> k, http |-> http, grpc |-> grpc, code |-> code]
ProtocolError == 1
FrameSizeError == 6
RefusedStream == 7
\* mark = the high-water mark the stream id is compared with: the property demands hiSent (every id the client has
\* used); http2_server.go compares with its maxStreamID (maxAdm: ids that got as far as this check)
IdUsed(sid, mark) == IF Mutant = 1 THEN sid < mark ELSE sid <= mark
Full == IF Mutant = 2 THEN Cardinality(Active) > cap
        ELSE IF Mutant = 5 THEN Cardinality(open) >= cap          \* finished-but-unflushed streams forgotten
        ELSE Cardinality(Active) >= cap
ServerAdmit(h, mark) ==
  IF h.sid = 0                THEN D("connerr", 0, 0, ProtocolError)      \* framer: HEADERS on stream 0
  ELSE IF h.big = "huge"      THEN D("connerr", 0, 0, ProtocolError)      \* framer: block > 2 x MaxHeaderListSize
  ELSE IF h.au = "dupauth"    THEN D("rst", 0, 0, ProtocolError)          \* framer: duplicate pseudo-header => stream error
  ELSE IF h.big = "big"       THEN D("rst", 0, 0, FrameSizeError)         \* operateHeaders: frame.Truncated
  ELSE IF h.sid % 2 = 0 \/ IdUsed(h.sid, mark)
                              THEN D("connerr", 0, 0, ProtocolError)      \* illegal stream id => GOAWAY + close
  ELSE IF h.au = "duphost"    THEN D("abort", 400, 13, 0)                 \* A41: several Host values
  ELSE IF h.conn              THEN D("rst", 0, 0, ProtocolError)          \* A41: Connection header
  ELSE IF h.ct \notin GoodCt /\ Mutant # 3
                              THEN D("abort", 415, 3, 0)
  ELSE IF h.to \in BadTo \/ h.bin = "bad"
                              THEN D("abort", 400, 13, 0)
  ELSE IF Full                THEN D("rst", 0, 0, RefusedStream)
  ELSE IF h.meth # "POST"     THEN D("abort", 405, 13, 0)
  ELSE IF h.to = "zero"       THEN D("abort", 200, 4, 0)                  \* deadline already expired
  ELSE D("handler", 0, 0, 0)

\* the request got past the framer, the truncation check and the stream-id check
PassedIdCheck(h, mark) == h.sid # 0 /\ h.big = "no" /\ h.au # "dupauth" /\ h.sid % 2 = 1 /\ ~IdUsed(h.sid, mark)
\* Level A: a Legal request that finds the connection at its cap (and carries nothing else the server rejects earlier)
MustRefuse(h) == Legal(h) /\ Cardinality(Active) >= cap /\ h.big = "no" /\ ~h.conn

MarkV(v, c, n) == IF v = "none" /\ c THEN n ELSE v

\* the client sends a HEADERS frame with attributes h
Req(h) ==
  /\ alive
  /\ LET mark == IF Mutant = 4 THEN maxAdm ELSE hiSent   \* Mutant 4 = the code's comparison (see KNOWN_FINDINGS C12)
         d == ServerAdmit(h, mark) IN
     /\ alive' = (d.k # "connerr")
     /\ hiSent' = IF d.k # "connerr" /\ h.sid % 2 = 1 /\ h.sid > hiSent THEN h.sid ELSE hiSent
     /\ maxAdm' = IF PassedIdCheck(h, mark) THEN h.sid ELSE maxAdm
     /\ open' = CASE d.k = "connerr" -> {}
                  [] d.k = "handler" -> open \cup {h.sid}
                  [] d.k = "rst" /\ h.au = "dupauth" -> open \ {h.sid}   \* stream error closes an open stream
                  [] OTHER -> open
     /\ blocked' = CASE d.k = "connerr" -> {}
                     [] d.k = "rst" /\ h.au = "dupauth" -> blocked \ {h.sid}
                     [] OTHER -> blocked
     /\ viol' = MarkV(MarkV(viol, d.k = "handler" /\ ~Legal(h), "I_NoIllegalHandler"),
                      MustRefuse(h) /\ ~(d.k = "rst" /\ d.code = RefusedStream), "I_ExcessRefused")
  /\ UNCHANGED <<cap, win>>
\* the client cancels a stream that is open on the wire (RST_STREAM CANCEL)
RstC(sid) == /\ alive /\ sid \in Active /\ open' = open \ {sid} /\ blocked' = blocked \ {sid}
             /\ UNCHANGED <<alive, cap, hiSent, maxAdm, win, viol>>
\* the handler of an open stream returns without a response message (Trailers-Only: not flow controlled)
Fin(sid) == /\ alive /\ sid \in open /\ open' = open \ {sid}
            /\ UNCHANGED <<alive, cap, hiSent, maxAdm, blocked, win, viol>>
\* the handler sends a 4 KB response message and returns: under a tiny window the DATA and the trailers stay queued
FinMsg(sid) == /\ alive /\ sid \in open /\ open' = open \ {sid}
               /\ blocked' = IF win = "tiny" THEN blocked \cup {sid} ELSE blocked
               /\ UNCHANGED <<alive, cap, hiSent, maxAdm, win, viol>>
\* the client grants window on a blocked stream: the response and the trailers are written, the stream ends
WinUp(sid) == /\ alive /\ sid \in blocked /\ blocked' = blocked \ {sid}
              /\ UNCHANGED <<alive, cap, hiSent, maxAdm, open, win, viol>>

\* ---- invariants (Level A on the model)
I_NoIllegalHandler == viol # "I_NoIllegalHandler"
I_ExcessRefused == viol # "I_ExcessRefused"
I_MaxStreams == Cardinality(Active) <= cap
I_OpenWereLegal == \A s \in open : s % 2 = 1 /\ s <= hiSent
====
