CONSTANTS
Types = {1, 2}
SotW = {1}
Names = {"a", "b"}
Vals = {"v1", "bad1"}
WatcherIds = {1, 2}
MaxEvents = 6
Mutant = 1
Strict = 0
INIT Init
NEXT Next
INVARIANT I_NoViol
CHECK_DEADLOCK FALSE
